// Package corpus indexes the font corpus used by the property checks: the fonts of the
// typesetting-utils module pinned by /repo/go.mod (path in $VERIF_CORPUS, set by the driver),
// /repo/font/testdata is not needed (same files). Everything is sorted so that a given index
// names the same file in every process.
package corpus

import (
	"bytes"
	"os"
	"path/filepath"
	"sort"
	"strings"
	"sync"

	"github.com/go-text/typesetting/font"
	ot "github.com/go-text/typesetting/font/opentype"
)

const fallbackDir = "/root/go/pkg/mod/github.com/go-text/typesetting-utils@v0.0.0-20241103174707-87a29e9e6066"

// Dir returns the root of the typesetting-utils module.
func Dir() string {
	if d := os.Getenv("VERIF_CORPUS"); d != "" {
		return d
	}
	return fallbackDir
}

var (
	filesOnce sync.Once
	files     []string
)

func isFontFile(name string) bool {
	switch strings.ToLower(filepath.Ext(name)) {
	case ".ttf", ".otf", ".ttc", ".otc", ".dfont", ".woff", ".otb":
		return true
	}
	return false
}

// Files returns the sorted relative paths (from Dir()) of every font file of the corpus.
func Files() []string {
	filesOnce.Do(func() {
		root := Dir()
		filepath.Walk(root, func(p string, info os.FileInfo, err error) error {
			if err != nil || info.IsDir() {
				return nil
			}
			if isFontFile(p) {
				rel, _ := filepath.Rel(root, p)
				files = append(files, rel)
			}
			return nil
		})
		sort.Strings(files)
	})
	return files
}

// Abs returns the absolute path of a corpus-relative path.
func Abs(rel string) string {
	if filepath.IsAbs(rel) {
		return rel
	}
	return filepath.Join(Dir(), rel)
}

// Bytes returns the content of a font file.
func Bytes(rel string) ([]byte, error) { return os.ReadFile(Abs(rel)) }

type loaded struct {
	faces []*font.Face
	err   error
}

var (
	cacheMu sync.Mutex
	cache   = map[string]*loaded{}
)

// Faces parses all faces of a corpus file (cached; the returned faces are shared: callers that
// change variations or ppem must create their own face with font.NewFace(face.Font)).
// A panic of the loader is reported as an error here (totality of loading is C09's business).
func Faces(rel string) (faces []*font.Face, err error) {
	cacheMu.Lock()
	defer cacheMu.Unlock()
	if l, ok := cache[rel]; ok {
		return l.faces, l.err
	}
	l := &loaded{}
	func() {
		defer func() {
			if r := recover(); r != nil {
				l.err = os.ErrInvalid
			}
		}()
		b, err := Bytes(rel)
		if err != nil {
			l.err = err
			return
		}
		l.faces, l.err = font.ParseTTC(bytes.NewReader(b))
	}()
	cache[rel] = l
	return l.faces, l.err
}

// Face describes one loadable face of the corpus.
type Face struct {
	File  string // corpus-relative path
	Index int    // index in the file
	Face  *font.Face
}

var (
	allOnce sync.Once
	all     []Face
)

// All loads every face of the corpus the loader accepts, in deterministic order.
func All() []Face {
	allOnce.Do(func() {
		for _, f := range Files() {
			faces, err := Faces(f)
			if err != nil {
				continue
			}
			for i, fc := range faces {
				all = append(all, Face{File: f, Index: i, Face: fc})
			}
		}
	})
	return all
}

// Loaders returns the table loaders of a corpus file.
func Loaders(rel string) ([]*ot.Loader, error) {
	b, err := Bytes(rel)
	if err != nil {
		return nil, err
	}
	return ot.NewLoaders(bytes.NewReader(b))
}

// Traits summarises which tables a face has (used for stratified sampling and labels).
type Traits struct {
	GSUB, GPOS, Morx, Kerx, Kern, Fvar, CFF, CFF2, Glyf, Bitmap, SVG, Vertical bool
	NumGlyphs                                                             int
}

func tag(s string) ot.Tag { return ot.MustNewTag(s) }

// TraitsOf inspects the table directory of a corpus file (first font of a collection for
// index 0, etc.).
func TraitsOf(rel string, index int) Traits {
	lds, err := Loaders(rel)
	if err != nil || index >= len(lds) {
		return Traits{}
	}
	ld := lds[index]
	has := func(s string) bool { return ld.HasTable(tag(s)) }
	return Traits{
		GSUB: has("GSUB"), GPOS: has("GPOS"), Morx: has("morx") || has("mort"), Kerx: has("kerx"), Kern: has("kern"),
		Fvar: has("fvar"), CFF: has("CFF "), CFF2: has("CFF2"), Glyf: has("glyf"),
		Bitmap: has("CBLC") || has("EBLC") || has("sbix") || has("bloc"), SVG: has("SVG "), Vertical: has("vmtx"),
	}
}
