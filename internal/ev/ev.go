// Package ev is the evidence / failure / known-finding plumbing shared by every property package.
//
// A test process (one shard) records what it explored in a process-wide Recorder and flushes it
// to $VERIF_OUT/counters.json from TestMain. Failing cases are serialised (decoded, not as a
// rapid bitstream) to $VERIF_OUT/fail.json *before* the test is failed; rapid re-runs the
// property while shrinking, so the last file written is the minimal reproduction.
package ev

import (
	"crypto/sha256"
	"encoding/binary"
	"encoding/json"
	"fmt"
	"hash/fnv"
	"os"
	"path/filepath"
	"sort"
	"strconv"
	"sync"
	"testing"
	"time"
)

const (
	maxHashes  = 3_000_000
	maxSamples = 12
)

// TB is satisfied by *testing.T and *rapid.T.
type TB interface {
	Helper()
	Fatalf(format string, args ...any)
}

type recorder struct {
	mu          sync.Mutex
	evals       int64
	ntCounted   int64 // non-trivial cases that are distinct by construction (enumerators)
	ntSeen      int64 // non-trivial cases seen (with duplicates)
	hashes      map[uint64]struct{}
	hashesFull  bool
	labels      map[string]int64
	excluded    map[string]int64
	samples     []json.RawMessage
	sampleEvery int64
	notes       []string
	start       time.Time
	failed      int64
}

var r = &recorder{
	hashes:   map[uint64]struct{}{},
	labels:   map[string]int64{},
	excluded: map[string]int64{},
	start:    time.Now(),
}

// ---- configuration from the driver ----

func OutDir() string { return os.Getenv("VERIF_OUT") }

// Tier is "quick" or "thorough".
func Tier() string {
	if t := os.Getenv("VERIF_TIER"); t == "thorough" {
		return t
	}
	return "quick"
}
func Thorough() bool { return Tier() == "thorough" }

func envInt(name string, def int64) int64 {
	if s := os.Getenv(name); s != "" {
		if v, err := strconv.ParseInt(s, 10, 64); err == nil {
			return v
		}
	}
	return def
}

// Seed is VERIF_SEED (default 1).
func Seed() int64 { return envInt("VERIF_SEED", 1) }

// Shard returns (index, count) for enumerators to partition their space.
func Shard() (int, int) {
	n := int(envInt("VERIF_NSHARDS", 1))
	if n < 1 {
		n = 1
	}
	i := int(envInt("VERIF_SHARD", 0))
	if i < 0 || i >= n {
		i = 0
	}
	return i, n
}

// Scale returns q in quick tier, th in thorough.
func Scale(q, th int) int {
	if Thorough() {
		return th
	}
	return q
}

// ReplayPath is non-empty when the process must replay one saved case.
func ReplayPath() string { return os.Getenv("VERIF_REPLAY") }

// ---- recording ----

func hashOf(key any) uint64 {
	h := fnv.New64a()
	switch k := key.(type) {
	case string:
		h.Write([]byte(k))
	case []byte:
		h.Write(k)
	case uint64:
		var b [8]byte
		binary.LittleEndian.PutUint64(b[:], k)
		h.Write(b[:])
	default:
		b, _ := json.Marshal(k)
		h.Write(b)
	}
	return h.Sum64()
}

// Case records one evaluated case. key identifies the case for distinct counting (only used when
// nontrivial); labels classify it.
func Case(nontrivial bool, key any, labels ...string) {
	var hv uint64
	if nontrivial {
		hv = hashOf(key)
	}
	r.mu.Lock()
	r.evals++
	if nontrivial {
		r.ntSeen++
		if !r.hashesFull {
			r.hashes[hv] = struct{}{}
			if len(r.hashes) >= maxHashes {
				r.hashesFull = true
			}
		}
	}
	for _, l := range labels {
		r.labels[l]++
	}
	r.mu.Unlock()
}

// CaseEnum records n evaluated cases of an enumerator of which nt are non-trivial; enumerated
// cases are distinct by construction so no hashing is needed.
func CaseEnum(n, nt int64) {
	r.mu.Lock()
	r.evals += n
	r.ntCounted += nt
	r.ntSeen += nt
	r.mu.Unlock()
}

func Label(l string) { LabelN(l, 1) }
func LabelN(l string, n int64) {
	r.mu.Lock()
	r.labels[l] += n
	r.mu.Unlock()
}

// Excluded counts a case skipped (or checked against a weaker predicate) because it matches a
// listed known finding.
func Excluded(finding string) {
	r.mu.Lock()
	r.excluded[finding]++
	r.mu.Unlock()
}

// Sample offers a case as an evidence sample; a bounded number is kept (first few, then sparse).
func Sample(v any) {
	r.mu.Lock()
	defer r.mu.Unlock()
	r.sampleEvery++
	if len(r.samples) >= maxSamples {
		// replace sparsely so that samples are not all from the first moments of the run
		n := r.sampleEvery
		if n&(n-1) != 0 { // only at powers of two
			return
		}
		b, err := json.Marshal(v)
		if err != nil {
			return
		}
		r.samples[int(n>>1)%maxSamples] = b
		return
	}
	b, err := json.Marshal(v)
	if err != nil {
		return
	}
	r.samples = append(r.samples, b)
}

// WantSample tells cheaply whether a Sample call would currently be kept (to avoid building
// expensive sample values).
func WantSample() bool {
	r.mu.Lock()
	defer r.mu.Unlock()
	n := r.sampleEvery + 1
	return len(r.samples) < maxSamples || n&(n-1) == 0
}

func Note(format string, args ...any) {
	r.mu.Lock()
	if len(r.notes) < 50 {
		r.notes = append(r.notes, fmt.Sprintf(format, args...))
	}
	r.mu.Unlock()
}

// ---- failures ----

type failFile struct {
	Property string          `json:"property"`
	Check    string          `json:"check"`
	Message  string          `json:"message"`
	Case     json.RawMessage `json:"case"`
}

// WriteFail serialises a failing case; returns the path ("" when no out dir is set).
func WriteFail(check string, c any, msg string) string {
	r.mu.Lock()
	r.failed++
	r.mu.Unlock()
	dir := OutDir()
	if dir == "" {
		return ""
	}
	cb, err := json.Marshal(c)
	if err != nil {
		cb, _ = json.Marshal(fmt.Sprintf("%#v", c))
	}
	b, _ := json.MarshalIndent(failFile{Property: os.Getenv("VERIF_PROPERTY"), Check: check, Message: msg, Case: cb}, "", " ")
	p := filepath.Join(dir, "fail.json")
	tmp := p + ".tmp"
	if os.WriteFile(tmp, b, 0o644) == nil {
		os.Rename(tmp, p)
	}
	return p
}

// Fail writes the decoded case and fails the test. check names the sub-check (so that the replay
// test can dispatch on it).
func Fail(t TB, check string, c any, format string, args ...any) {
	t.Helper()
	msg := fmt.Sprintf(format, args...)
	WriteFail(check, c, msg)
	t.Fatalf("[%s] %s", check, msg)
}

// LoadReplay reads a replay/fail file and returns the check name and raw case.
func LoadReplay(path string) (check string, c json.RawMessage, err error) {
	b, err := os.ReadFile(path)
	if err != nil {
		return "", nil, err
	}
	var f failFile
	if err := json.Unmarshal(b, &f); err != nil {
		return "", nil, err
	}
	return f.Check, f.Case, nil
}

// ---- known findings ----

type Finding struct {
	ID       string `json:"id"`
	Property string `json:"property"`
	Status   string `json:"status"` // "open" or "fixed"
	What     string `json:"what"`
	Commit   string `json:"commit,omitempty"`
}

var (
	findingsOnce sync.Once
	findings     map[string]Finding
)

func loadFindings() {
	findings = map[string]Finding{}
	p := os.Getenv("VERIF_KNOWN_FINDINGS")
	if p == "" {
		return
	}
	b, err := os.ReadFile(p)
	if err != nil {
		return
	}
	var doc struct {
		Findings []Finding `json:"findings"`
	}
	if json.Unmarshal(b, &doc) != nil {
		return
	}
	for _, f := range doc.Findings {
		findings[f.ID] = f
	}
}

// Known tells whether the finding with this id is listed as open in known_findings.json. Only then
// may a check treat a case matching the finding's structural matcher as excluded; "fixed" entries
// suppress nothing.
func Known(id string) bool {
	findingsOnce.Do(loadFindings)
	f, ok := findings[id]
	return ok && f.Status == "open"
}

// ---- journal (totality checks) ----

var (
	journalMu sync.Mutex
	journalF  *os.File
)

// Journal records the case about to be executed so that the driver can identify the culprit when
// the process dies (out of memory, hard hang).
func Journal(check string, c any) {
	dir := OutDir()
	if dir == "" {
		return
	}
	cb, err := json.Marshal(c)
	if err != nil {
		return
	}
	b, _ := json.Marshal(failFile{Property: os.Getenv("VERIF_PROPERTY"), Check: check, Message: "process died or hung while executing this case", Case: cb})
	journalMu.Lock()
	defer journalMu.Unlock()
	if journalF == nil {
		f, err := os.OpenFile(filepath.Join(dir, "journal.json"), os.O_CREATE|os.O_RDWR|os.O_TRUNC, 0o644)
		if err != nil {
			return
		}
		journalF = f
	}
	journalF.Truncate(0)
	journalF.WriteAt(b, 0)
}

// JournalDone clears the journal (case finished).
func JournalDone() {
	journalMu.Lock()
	defer journalMu.Unlock()
	if journalF != nil {
		journalF.Truncate(0)
	}
}

// ---- flush ----

type counters struct {
	Evaluations int64             `json:"evaluations"`
	NtCounted   int64             `json:"nontrivial_counted"`
	NtSeen      int64             `json:"nontrivial_seen"`
	NtHashed    int               `json:"nontrivial_hashed"`
	HashesFull  bool              `json:"hashes_full"`
	Labels      map[string]int64  `json:"labels"`
	Excluded    map[string]int64  `json:"excluded"`
	Samples     []json.RawMessage `json:"samples"`
	Notes       []string          `json:"notes"`
	WallS       float64           `json:"wall_s"`
	Failed      int64             `json:"failed"`
}

// Flush writes counters.json and hashes.bin into $VERIF_OUT.
func Flush() {
	dir := OutDir()
	if dir == "" {
		return
	}
	r.mu.Lock()
	defer r.mu.Unlock()
	c := counters{
		Evaluations: r.evals, NtCounted: r.ntCounted, NtSeen: r.ntSeen, NtHashed: len(r.hashes),
		HashesFull: r.hashesFull, Labels: r.labels, Excluded: r.excluded, Samples: r.samples,
		Notes: r.notes, WallS: time.Since(r.start).Seconds(), Failed: r.failed,
	}
	b, _ := json.Marshal(c)
	os.WriteFile(filepath.Join(dir, "counters.json"), b, 0o644)
	hs := make([]uint64, 0, len(r.hashes))
	for h := range r.hashes {
		hs = append(hs, h)
	}
	sort.Slice(hs, func(i, j int) bool { return hs[i] < hs[j] })
	buf := make([]byte, 8*len(hs))
	for i, h := range hs {
		binary.LittleEndian.PutUint64(buf[8*i:], h)
	}
	os.WriteFile(filepath.Join(dir, "hashes.bin"), buf, 0o644)
}

// Main is the TestMain body of every property package.
func Main(m *testing.M) {
	code := m.Run()
	Flush()
	os.Exit(code)
}

// ShortHash is used to name replay files.
func ShortHash(b []byte) string {
	s := sha256.Sum256(b)
	return fmt.Sprintf("%x", s[:6])
}

// ---- deterministic PRNG for enumerators that sample (seeded from VERIF_SEED; never used inside
// rapid properties) ----

type Rand struct{ s uint64 }

func NewRand(seed uint64) *Rand {
	if seed == 0 {
		seed = 0x9E3779B97F4A7C15
	}
	return &Rand{s: seed}
}
func (x *Rand) Uint64() uint64 {
	x.s += 0x9E3779B97F4A7C15
	z := x.s
	z = (z ^ (z >> 30)) * 0xBF58476D1CE4E5B9
	z = (z ^ (z >> 27)) * 0x94D049BB133111EB
	return z ^ (z >> 31)
}
func (x *Rand) Intn(n int) int {
	if n <= 0 {
		return 0
	}
	return int(x.Uint64() % uint64(n))
}
