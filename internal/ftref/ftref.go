// Package ftref is a cgo shim over the system FreeType (2.12.1 in this image, headers installed):
// the second independent decoder of property C10. Glyphs are loaded with
// FT_LOAD_NO_SCALE|FT_LOAD_NO_HINTING|FT_LOAD_NO_BITMAP, so every number is in font units.
//
// cgo must live in a non-test file.
package ftref

/*
#cgo pkg-config: freetype2
#include <stdlib.h>
#include <string.h>
#include <ft2build.h>
#include FT_FREETYPE_H
#include FT_OUTLINE_H
#include FT_TRUETYPE_TABLES_H
#include FT_MULTIPLE_MASTERS_H

typedef struct {
	int  err;
	int  format;       // 0 none/other, 1 outline, 2 bitmap, 3 composite, 4 svg
	long hori_advance; // metrics.horiAdvance (font units with FT_LOAD_NO_SCALE)
	long vert_advance; // metrics.vertAdvance
	long lin_hori;     // linearHoriAdvance (font units with FT_LOAD_NO_SCALE)
	long lin_vert;
	long hbx, hby, w, h; // metrics.horiBearingX/Y, width, height
	int  n_points, n_contours;
	long xmin, ymin, xmax, ymax; // control box of the outline
} vr_ft_glyph;

static void vr_ft_load(FT_Face face, unsigned gid, vr_ft_glyph *out) {
	memset(out, 0, sizeof *out);
	out->err = FT_Load_Glyph(face, gid, FT_LOAD_NO_SCALE | FT_LOAD_NO_HINTING | FT_LOAD_NO_BITMAP);
	if (out->err) return;
	FT_GlyphSlot s = face->glyph;
	switch (s->format) {
	case FT_GLYPH_FORMAT_OUTLINE: out->format = 1; break;
	case FT_GLYPH_FORMAT_BITMAP: out->format = 2; break;
	case FT_GLYPH_FORMAT_COMPOSITE: out->format = 3; break;
#ifdef FT_GLYPH_FORMAT_SVG
	case FT_GLYPH_FORMAT_SVG: out->format = 4; break;
#endif
	default: out->format = 0;
	}
	out->hori_advance = s->metrics.horiAdvance;
	out->vert_advance = s->metrics.vertAdvance;
	out->lin_hori = s->linearHoriAdvance;
	out->lin_vert = s->linearVertAdvance;
	out->hbx = s->metrics.horiBearingX; out->hby = s->metrics.horiBearingY;
	out->w = s->metrics.width; out->h = s->metrics.height;
	if (s->format == FT_GLYPH_FORMAT_OUTLINE) {
		FT_BBox b;
		out->n_points = s->outline.n_points;
		out->n_contours = s->outline.n_contours;
		FT_Outline_Get_CBox(&s->outline, &b);
		out->xmin = b.xMin; out->ymin = b.yMin; out->xmax = b.xMax; out->ymax = b.yMax;
	}
}

// copies the points of the glyph currently in the slot (after vr_ft_load)
static void vr_ft_points(FT_Face face, long *xy, unsigned char *tags, short *ends) {
	FT_Outline *o = &face->glyph->outline;
	for (int i = 0; i < o->n_points; i++) { xy[2*i] = o->points[i].x; xy[2*i+1] = o->points[i].y; tags[i] = (unsigned char)o->tags[i]; }
	for (int i = 0; i < o->n_contours; i++) ends[i] = o->contours[i];
}

static int vr_ft_charmap(FT_Face face, int *platform, int *encoding, int *format, int *is_unicode) {
	if (!face->charmap) return 0;
	*platform = face->charmap->platform_id;
	*encoding = face->charmap->encoding_id;
	*format = (int)FT_Get_CMap_Format(face->charmap);
	*is_unicode = face->charmap->encoding == FT_ENCODING_UNICODE;
	return 1;
}

static int vr_ft_is_scalable(FT_Face face) { return FT_IS_SCALABLE(face) ? 1 : 0; }
static int vr_ft_has_names(FT_Face face) { return FT_HAS_GLYPH_NAMES(face) ? 1 : 0; }
static int vr_ft_has_vertical(FT_Face face) { return FT_HAS_VERTICAL(face) ? 1 : 0; }
static int vr_ft_has_mm(FT_Face face) { return FT_HAS_MULTIPLE_MASTERS(face) ? 1 : 0; }
static int vr_ft_is_sfnt(FT_Face face) { return FT_IS_SFNT(face) ? 1 : 0; }
*/
import "C"

import (
	"fmt"
	"runtime"
	"sync"
	"unsafe"
)

var (
	libOnce sync.Once
	lib     C.FT_Library
	libErr  error
)

func library() (C.FT_Library, error) {
	libOnce.Do(func() {
		if e := C.FT_Init_FreeType(&lib); e != 0 {
			libErr = fmt.Errorf("FT_Init_FreeType: error %d", int(e))
		}
	})
	return lib, libErr
}

// Version returns the runtime version of the FreeType library ("" if it cannot be initialised).
func Version() string {
	l, err := library()
	if err != nil {
		return ""
	}
	var a, b, c C.FT_Int
	C.FT_Library_Version(l, &a, &b, &c)
	return fmt.Sprintf("%d.%d.%d", int(a), int(b), int(c))
}

// Face wraps an FT_Face over a copy of the font bytes held in C memory.
// Not safe for concurrent use (FreeType's library object is shared).
type Face struct {
	data unsafe.Pointer
	face C.FT_Face
}

// NumFaces returns the number of faces FreeType sees in the data (0 when it refuses the data).
func NumFaces(data []byte) int {
	l, err := library()
	if err != nil || len(data) == 0 {
		return 0
	}
	p := C.CBytes(data)
	defer C.free(p)
	var f C.FT_Face
	if e := C.FT_New_Memory_Face(l, (*C.FT_Byte)(p), C.FT_Long(len(data)), -1, &f); e != 0 {
		return 0
	}
	n := int(f.num_faces)
	C.FT_Done_Face(f)
	return n
}

// NewFace opens the index-th face of data. An error means FreeType refuses the font.
func NewFace(data []byte, index int) (*Face, error) {
	l, err := library()
	if err != nil {
		return nil, err
	}
	if len(data) == 0 {
		return nil, fmt.Errorf("empty data")
	}
	f := &Face{data: C.CBytes(data)}
	if e := C.FT_New_Memory_Face(l, (*C.FT_Byte)(f.data), C.FT_Long(len(data)), C.FT_Long(index), &f.face); e != 0 {
		C.free(f.data)
		return nil, fmt.Errorf("FT_New_Memory_Face: error %d", int(e))
	}
	runtime.SetFinalizer(f, (*Face).Close)
	return f, nil
}

func (f *Face) Close() {
	if f.face != nil {
		C.FT_Done_Face(f.face)
		C.free(f.data)
		f.face = nil
	}
}

func (f *Face) Upem() int        { return int(f.face.units_per_EM) }
func (f *Face) NumGlyphs() int   { return int(f.face.num_glyphs) }
func (f *Face) IsScalable() bool { return C.vr_ft_is_scalable(f.face) != 0 }
func (f *Face) IsSFNT() bool     { return C.vr_ft_is_sfnt(f.face) != 0 }
func (f *Face) HasGlyphNames() bool {
	return C.vr_ft_has_names(f.face) != 0
}
func (f *Face) HasVertical() bool { return C.vr_ft_has_vertical(f.face) != 0 }
func (f *Face) HasMM() bool       { return C.vr_ft_has_mm(f.face) != 0 }

// Charmap describes the charmap FreeType selected by itself when opening the face.
type Charmap struct {
	Platform, Encoding int
	Format             int  // cmap subtable format, -1 when the charmap is synthesized (not a cmap subtable)
	Unicode            bool // FT_ENCODING_UNICODE
}

// ActiveCharmap returns the charmap selected by FreeType (ok=false: none selected, e.g. symbol fonts).
func (f *Face) ActiveCharmap() (Charmap, bool) {
	var p, e, fm, u C.int
	if C.vr_ft_charmap(f.face, &p, &e, &fm, &u) == 0 {
		return Charmap{}, false
	}
	return Charmap{Platform: int(p), Encoding: int(e), Format: int(fm), Unicode: u != 0}, true
}

// CharIndex is FT_Get_Char_Index with the active charmap (0: not mapped).
func (f *Face) CharIndex(r rune) uint32 {
	return uint32(C.FT_Get_Char_Index(f.face, C.FT_ULong(uint32(r))))
}

// GlyphName is FT_Get_Glyph_Name.
func (f *Face) GlyphName(gid uint32) (string, bool) {
	var buf [128]C.char
	if e := C.FT_Get_Glyph_Name(f.face, C.FT_UInt(gid), C.FT_Pointer(unsafe.Pointer(&buf[0])), 128); e != 0 {
		return "", false
	}
	return C.GoString(&buf[0]), true
}

// Glyph formats.
const (
	FormatOther = iota
	FormatOutline
	FormatBitmap
	FormatComposite
	FormatSVG
)

// Glyph is an unscaled, unhinted glyph.
type Glyph struct {
	Format                   int
	HoriAdvance, VertAdvance int // glyph metrics
	LinearHori, LinearVert   int
	BearingX, BearingY       int
	Width, Height            int
	NPoints, NContours       int
	XMin, YMin, XMax, YMax   int // control box of the outline (all zero for an empty outline)
}

// LoadGlyph loads gid with FT_LOAD_NO_SCALE|FT_LOAD_NO_HINTING|FT_LOAD_NO_BITMAP.
func (f *Face) LoadGlyph(gid uint32) (Glyph, error) {
	var g C.vr_ft_glyph
	C.vr_ft_load(f.face, C.uint(gid), &g)
	if g.err != 0 {
		return Glyph{}, fmt.Errorf("FT_Load_Glyph(%d): error %d", gid, int(g.err))
	}
	return Glyph{
		Format: int(g.format), HoriAdvance: int(g.hori_advance), VertAdvance: int(g.vert_advance),
		LinearHori: int(g.lin_hori), LinearVert: int(g.lin_vert),
		BearingX: int(g.hbx), BearingY: int(g.hby), Width: int(g.w), Height: int(g.h),
		NPoints: int(g.n_points), NContours: int(g.n_contours),
		XMin: int(g.xmin), YMin: int(g.ymin), XMax: int(g.xmax), YMax: int(g.ymax),
	}, nil
}

// Point of an outline; Tag&3: 1 on curve, 0 conic (quadratic) control, 2 cubic control.
type Point struct {
	X, Y int
	Tag  uint8
}

// Points returns the points and contour end indices of the glyph loaded by the last LoadGlyph.
func (f *Face) Points(g Glyph) ([]Point, []int) {
	if g.Format != FormatOutline || g.NPoints == 0 {
		return nil, nil
	}
	xy := make([]C.long, 2*g.NPoints)
	tags := make([]C.uchar, g.NPoints)
	ends := make([]C.short, g.NContours+1)
	C.vr_ft_points(f.face, &xy[0], &tags[0], &ends[0])
	pts := make([]Point, g.NPoints)
	for i := range pts {
		pts[i] = Point{X: int(xy[2*i]), Y: int(xy[2*i+1]), Tag: uint8(tags[i])}
	}
	es := make([]int, g.NContours)
	for i := range es {
		es[i] = int(ends[i])
	}
	return pts, es
}

// SetDesignCoords sets variation design coordinates (one per axis, 16.16 internally); nil resets
// to the default instance.
func (f *Face) SetDesignCoords(coords []float64) error {
	if len(coords) == 0 {
		if e := C.FT_Set_Var_Design_Coordinates(f.face, 0, nil); e != 0 {
			return fmt.Errorf("FT_Set_Var_Design_Coordinates: error %d", int(e))
		}
		return nil
	}
	fx := make([]C.FT_Fixed, len(coords))
	for i, c := range coords {
		fx[i] = C.FT_Fixed(int64(c * 65536))
	}
	if e := C.FT_Set_Var_Design_Coordinates(f.face, C.FT_UInt(len(fx)), &fx[0]); e != 0 {
		return fmt.Errorf("FT_Set_Var_Design_Coordinates: error %d", int(e))
	}
	return nil
}
