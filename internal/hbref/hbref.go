// Package hbref is a cgo shim over the system libharfbuzz (6.0.0 in this image, a dependency of
// the pre-installed Java runtime). No headers are installed, so the (ABI-stable) prototypes are
// declared by hand. It is the live reference implementation for C05 / C10 / C18.
//
// cgo must live in a non-test file.
package hbref

/*
#cgo LDFLAGS: -l:libharfbuzz.so.0
#include <stdint.h>
#include <stdlib.h>
#include <string.h>

typedef struct hb_blob_t hb_blob_t;
typedef struct hb_face_t hb_face_t;
typedef struct hb_font_t hb_font_t;
typedef struct hb_buffer_t hb_buffer_t;
typedef struct hb_draw_funcs_t hb_draw_funcs_t;
typedef const struct hb_language_impl_t *hb_language_t;
typedef uint32_t hb_codepoint_t;
typedef int32_t hb_position_t;
typedef uint32_t hb_tag_t;
typedef int hb_bool_t;
typedef void (*hb_destroy_func_t)(void *user_data);

typedef struct { hb_tag_t tag; uint32_t value; unsigned int start; unsigned int end; } hb_feature_t;
typedef struct { hb_tag_t tag; float value; } hb_variation_t;
typedef struct { hb_codepoint_t codepoint; uint32_t mask; uint32_t cluster; uint32_t var1; uint32_t var2; } hb_glyph_info_t;
typedef struct { hb_position_t x_advance, y_advance, x_offset, y_offset; uint32_t var; } hb_glyph_position_t;
typedef struct { hb_position_t x_bearing, y_bearing, width, height; } hb_glyph_extents_t;
typedef struct { hb_position_t ascender, descender, line_gap; hb_position_t reserved[9]; } hb_font_extents_t;
typedef struct { hb_bool_t path_open; float path_start_x, path_start_y, current_x, current_y; uint32_t r1,r2,r3,r4,r5,r6,r7; } hb_draw_state_t;

extern const char *hb_version_string(void);
extern hb_blob_t *hb_blob_create(const char *data, unsigned int length, int mode, void *user_data, hb_destroy_func_t destroy);
extern void hb_blob_destroy(hb_blob_t *blob);
extern hb_face_t *hb_face_create(hb_blob_t *blob, unsigned int index);
extern void hb_face_destroy(hb_face_t *face);
extern unsigned int hb_face_get_upem(const hb_face_t *face);
extern unsigned int hb_face_get_glyph_count(const hb_face_t *face);
extern unsigned int hb_face_count(hb_blob_t *blob);
extern hb_font_t *hb_font_create(hb_face_t *face);
extern void hb_font_destroy(hb_font_t *font);
extern void hb_ot_font_set_funcs(hb_font_t *font);
extern void hb_font_set_scale(hb_font_t *font, int x_scale, int y_scale);
extern void hb_font_set_ppem(hb_font_t *font, unsigned int x_ppem, unsigned int y_ppem);
extern void hb_font_set_ptem(hb_font_t *font, float ptem);
extern void hb_font_set_variations(hb_font_t *font, const hb_variation_t *variations, unsigned int variations_length);
extern void hb_font_set_var_coords_design(hb_font_t *font, const float *coords, unsigned int coords_length);
extern void hb_font_set_var_coords_normalized(hb_font_t *font, const int *coords, unsigned int coords_length);
extern const int *hb_font_get_var_coords_normalized(hb_font_t *font, unsigned int *length);
extern hb_bool_t hb_font_get_nominal_glyph(hb_font_t *font, hb_codepoint_t unicode, hb_codepoint_t *glyph);
extern hb_bool_t hb_font_get_variation_glyph(hb_font_t *font, hb_codepoint_t unicode, hb_codepoint_t variation_selector, hb_codepoint_t *glyph);
extern hb_position_t hb_font_get_glyph_h_advance(hb_font_t *font, hb_codepoint_t glyph);
extern hb_position_t hb_font_get_glyph_v_advance(hb_font_t *font, hb_codepoint_t glyph);
extern hb_bool_t hb_font_get_glyph_v_origin(hb_font_t *font, hb_codepoint_t glyph, hb_position_t *x, hb_position_t *y);
extern hb_bool_t hb_font_get_glyph_extents(hb_font_t *font, hb_codepoint_t glyph, hb_glyph_extents_t *extents);
extern hb_bool_t hb_font_get_glyph_name(hb_font_t *font, hb_codepoint_t glyph, char *name, unsigned int size);
extern hb_bool_t hb_font_get_h_extents(hb_font_t *font, hb_font_extents_t *extents);
extern hb_bool_t hb_font_get_v_extents(hb_font_t *font, hb_font_extents_t *extents);
extern unsigned int hb_ot_var_get_axis_count(hb_face_t *face);
extern void hb_ot_var_normalize_coords(hb_face_t *face, unsigned int coords_length, const float *design_coords, int *normalized_coords);
extern hb_bool_t hb_ot_metrics_get_position(hb_font_t *font, hb_tag_t metrics_tag, hb_position_t *position);
extern hb_bool_t hb_ot_layout_has_substitution(hb_face_t *face);
extern hb_bool_t hb_ot_layout_has_positioning(hb_face_t *face);
extern hb_bool_t hb_aat_layout_has_substitution(hb_face_t *face);
extern hb_bool_t hb_aat_layout_has_positioning(hb_face_t *face);

extern hb_buffer_t *hb_buffer_create(void);
extern void hb_buffer_destroy(hb_buffer_t *buffer);
extern void hb_buffer_add_codepoints(hb_buffer_t *buffer, const hb_codepoint_t *text, int text_length, unsigned int item_offset, int item_length);
extern void hb_buffer_set_direction(hb_buffer_t *buffer, int direction);
extern void hb_buffer_set_script(hb_buffer_t *buffer, uint32_t script);
extern void hb_buffer_set_language(hb_buffer_t *buffer, hb_language_t language);
extern hb_language_t hb_language_from_string(const char *str, int len);
extern void hb_buffer_set_flags(hb_buffer_t *buffer, int flags);
extern void hb_buffer_set_cluster_level(hb_buffer_t *buffer, int cluster_level);
extern void hb_buffer_set_invisible_glyph(hb_buffer_t *buffer, hb_codepoint_t invisible);
extern void hb_buffer_set_not_found_glyph(hb_buffer_t *buffer, hb_codepoint_t not_found);
extern void hb_buffer_guess_segment_properties(hb_buffer_t *buffer);
extern int hb_buffer_get_direction(const hb_buffer_t *buffer);
extern uint32_t hb_buffer_get_script(const hb_buffer_t *buffer);
extern hb_bool_t hb_shape_full(hb_font_t *font, hb_buffer_t *buffer, const hb_feature_t *features, unsigned int num_features, const char * const *shaper_list);
extern hb_glyph_info_t *hb_buffer_get_glyph_infos(hb_buffer_t *buffer, unsigned int *length);
extern hb_glyph_position_t *hb_buffer_get_glyph_positions(hb_buffer_t *buffer, unsigned int *length);

extern hb_draw_funcs_t *hb_draw_funcs_create(void);
extern void hb_draw_funcs_destroy(hb_draw_funcs_t *dfuncs);
typedef void (*hb_draw_move_to_func_t)(hb_draw_funcs_t *dfuncs, void *draw_data, hb_draw_state_t *st, float to_x, float to_y, void *user_data);
typedef void (*hb_draw_quadratic_to_func_t)(hb_draw_funcs_t *dfuncs, void *draw_data, hb_draw_state_t *st, float control_x, float control_y, float to_x, float to_y, void *user_data);
typedef void (*hb_draw_cubic_to_func_t)(hb_draw_funcs_t *dfuncs, void *draw_data, hb_draw_state_t *st, float control1_x, float control1_y, float control2_x, float control2_y, float to_x, float to_y, void *user_data);
typedef void (*hb_draw_close_path_func_t)(hb_draw_funcs_t *dfuncs, void *draw_data, hb_draw_state_t *st, void *user_data);
extern void hb_draw_funcs_set_move_to_func(hb_draw_funcs_t *dfuncs, hb_draw_move_to_func_t func, void *user_data, hb_destroy_func_t destroy);
extern void hb_draw_funcs_set_line_to_func(hb_draw_funcs_t *dfuncs, hb_draw_move_to_func_t func, void *user_data, hb_destroy_func_t destroy);
extern void hb_draw_funcs_set_quadratic_to_func(hb_draw_funcs_t *dfuncs, hb_draw_quadratic_to_func_t func, void *user_data, hb_destroy_func_t destroy);
extern void hb_draw_funcs_set_cubic_to_func(hb_draw_funcs_t *dfuncs, hb_draw_cubic_to_func_t func, void *user_data, hb_destroy_func_t destroy);
extern void hb_draw_funcs_set_close_path_func(hb_draw_funcs_t *dfuncs, hb_draw_close_path_func_t func, void *user_data, hb_destroy_func_t destroy);
extern void hb_font_get_glyph_shape(hb_font_t *font, hb_codepoint_t glyph, hb_draw_funcs_t *dfuncs, void *draw_data);

// ---- outline recording ----
typedef struct { int op; float a[6]; } vr_seg;
typedef struct { vr_seg *segs; int n, cap; } vr_path;
static void vr_push(vr_path *p, int op, float a0, float a1, float a2, float a3, float a4, float a5) {
	if (p->n == p->cap) { p->cap = p->cap ? p->cap * 2 : 64; p->segs = (vr_seg*)realloc(p->segs, p->cap * sizeof(vr_seg)); }
	vr_seg *s = &p->segs[p->n++]; s->op = op; s->a[0]=a0; s->a[1]=a1; s->a[2]=a2; s->a[3]=a3; s->a[4]=a4; s->a[5]=a5;
}
static void vr_move(hb_draw_funcs_t *d, void *data, hb_draw_state_t *st, float x, float y, void *u) { vr_push((vr_path*)data, 0, x, y, 0,0,0,0); }
static void vr_line(hb_draw_funcs_t *d, void *data, hb_draw_state_t *st, float x, float y, void *u) { vr_push((vr_path*)data, 1, x, y, 0,0,0,0); }
static void vr_quad(hb_draw_funcs_t *d, void *data, hb_draw_state_t *st, float cx, float cy, float x, float y, void *u) { vr_push((vr_path*)data, 2, cx, cy, x, y, 0,0); }
static void vr_cubic(hb_draw_funcs_t *d, void *data, hb_draw_state_t *st, float c1x, float c1y, float c2x, float c2y, float x, float y, void *u) { vr_push((vr_path*)data, 3, c1x, c1y, c2x, c2y, x, y); }
static void vr_close(hb_draw_funcs_t *d, void *data, hb_draw_state_t *st, void *u) { vr_push((vr_path*)data, 4, 0,0,0,0,0,0); }
static hb_draw_funcs_t *vr_funcs = 0;
static void vr_draw(hb_font_t *font, hb_codepoint_t g, vr_path *p) {
	if (!vr_funcs) {
		vr_funcs = hb_draw_funcs_create();
		hb_draw_funcs_set_move_to_func(vr_funcs, vr_move, 0, 0);
		hb_draw_funcs_set_line_to_func(vr_funcs, vr_line, 0, 0);
		hb_draw_funcs_set_quadratic_to_func(vr_funcs, vr_quad, 0, 0);
		hb_draw_funcs_set_cubic_to_func(vr_funcs, vr_cubic, 0, 0);
		hb_draw_funcs_set_close_path_func(vr_funcs, vr_close, 0, 0);
	}
	p->segs = 0; p->n = 0; p->cap = 0;
	hb_font_get_glyph_shape(font, g, vr_funcs, p);
}

static const char *vr_shapers[] = {"ot", 0};
static hb_bool_t vr_shape(hb_font_t *font, hb_buffer_t *buf, const hb_feature_t *f, unsigned int n) {
	return hb_shape_full(font, buf, f, n, vr_shapers);
}
*/
import "C"

import (
	"runtime"
	"unsafe"
)

// Version returns hb_version_string().
func Version() string { return C.GoString(C.hb_version_string()) }

// Face wraps hb_face_t + hb_font_t (with ot funcs) over a copy of the font bytes held in C memory.
type Face struct {
	data unsafe.Pointer
	blob *C.hb_blob_t
	face *C.hb_face_t
	font *C.hb_font_t
	Upem int
}

// FaceCount returns the number of faces hb sees in the data.
func FaceCount(data []byte) int {
	if len(data) == 0 {
		return 0
	}
	p := C.CBytes(data)
	defer C.free(p)
	blob := C.hb_blob_create((*C.char)(p), C.uint(len(data)), 1 /*READONLY*/, nil, nil)
	defer C.hb_blob_destroy(blob)
	return int(C.hb_face_count(blob))
}

// NewFace creates the reference face for the index-th font of data; scale is set to upem.
func NewFace(data []byte, index int) *Face {
	f := &Face{}
	f.data = C.CBytes(data)
	f.blob = C.hb_blob_create((*C.char)(f.data), C.uint(len(data)), 1, nil, nil)
	f.face = C.hb_face_create(f.blob, C.uint(index))
	f.font = C.hb_font_create(f.face)
	C.hb_ot_font_set_funcs(f.font)
	f.Upem = int(C.hb_face_get_upem(f.face))
	C.hb_font_set_scale(f.font, C.int(f.Upem), C.int(f.Upem))
	runtime.SetFinalizer(f, (*Face).Close)
	return f
}

func (f *Face) Close() {
	if f.font != nil {
		C.hb_font_destroy(f.font)
		C.hb_face_destroy(f.face)
		C.hb_blob_destroy(f.blob)
		C.free(f.data)
		f.font = nil
	}
}

func (f *Face) GlyphCount() int { return int(C.hb_face_get_glyph_count(f.face)) }
func (f *Face) AxisCount() int  { return int(C.hb_ot_var_get_axis_count(f.face)) }
func (f *Face) HasOTSubstitution() bool  { return C.hb_ot_layout_has_substitution(f.face) != 0 }
func (f *Face) HasOTPositioning() bool   { return C.hb_ot_layout_has_positioning(f.face) != 0 }
func (f *Face) HasAATSubstitution() bool { return C.hb_aat_layout_has_substitution(f.face) != 0 }
func (f *Face) HasAATPositioning() bool  { return C.hb_aat_layout_has_positioning(f.face) != 0 }

// SetScale sets the font scale (default: upem).
func (f *Face) SetScale(x, y int) { C.hb_font_set_scale(f.font, C.int(x), C.int(y)) }
func (f *Face) SetPpem(x, y int)  { C.hb_font_set_ppem(f.font, C.uint(x), C.uint(y)) }
func (f *Face) SetPtem(p float32) { C.hb_font_set_ptem(f.font, C.float(p)) }

// SetDesignCoords sets variation coordinates in design units, one per axis (nil resets).
func (f *Face) SetDesignCoords(coords []float32) {
	if len(coords) == 0 {
		C.hb_font_set_var_coords_design(f.font, nil, 0)
		return
	}
	C.hb_font_set_var_coords_design(f.font, (*C.float)(unsafe.Pointer(&coords[0])), C.uint(len(coords)))
}

// SetNormalizedCoords sets 2.14 normalized coordinates.
func (f *Face) SetNormalizedCoords(coords []int32) {
	if len(coords) == 0 {
		C.hb_font_set_var_coords_normalized(f.font, nil, 0)
		return
	}
	C.hb_font_set_var_coords_normalized(f.font, (*C.int)(unsafe.Pointer(&coords[0])), C.uint(len(coords)))
}

// NormalizedCoords returns the font's current normalized coordinates.
func (f *Face) NormalizedCoords() []int32 {
	var n C.uint
	p := C.hb_font_get_var_coords_normalized(f.font, &n)
	out := make([]int32, int(n))
	if n > 0 {
		copy(out, unsafe.Slice((*int32)(unsafe.Pointer(p)), int(n)))
	}
	return out
}

// NormalizeCoords maps design coordinates to normalized 2.14 values (fvar + avar).
func (f *Face) NormalizeCoords(design []float32) []int32 {
	out := make([]int32, len(design))
	if len(design) == 0 {
		return out
	}
	C.hb_ot_var_normalize_coords(f.face, C.uint(len(design)), (*C.float)(unsafe.Pointer(&design[0])), (*C.int)(unsafe.Pointer(&out[0])))
	return out
}

func (f *Face) NominalGlyph(r rune) (uint32, bool) {
	var g C.hb_codepoint_t
	ok := C.hb_font_get_nominal_glyph(f.font, C.hb_codepoint_t(r), &g)
	return uint32(g), ok != 0
}

func (f *Face) VariationGlyph(r, vs rune) (uint32, bool) {
	var g C.hb_codepoint_t
	ok := C.hb_font_get_variation_glyph(f.font, C.hb_codepoint_t(r), C.hb_codepoint_t(vs), &g)
	return uint32(g), ok != 0
}

func (f *Face) HAdvance(g uint32) int32 { return int32(C.hb_font_get_glyph_h_advance(f.font, C.hb_codepoint_t(g))) }
func (f *Face) VAdvance(g uint32) int32 { return int32(C.hb_font_get_glyph_v_advance(f.font, C.hb_codepoint_t(g))) }

func (f *Face) VOrigin(g uint32) (x, y int32, ok bool) {
	var cx, cy C.hb_position_t
	r := C.hb_font_get_glyph_v_origin(f.font, C.hb_codepoint_t(g), &cx, &cy)
	return int32(cx), int32(cy), r != 0
}

type Extents struct{ XBearing, YBearing, Width, Height int32 }

func (f *Face) GlyphExtents(g uint32) (Extents, bool) {
	var e C.hb_glyph_extents_t
	ok := C.hb_font_get_glyph_extents(f.font, C.hb_codepoint_t(g), &e)
	return Extents{int32(e.x_bearing), int32(e.y_bearing), int32(e.width), int32(e.height)}, ok != 0
}

func (f *Face) GlyphName(g uint32) (string, bool) {
	var buf [128]C.char
	ok := C.hb_font_get_glyph_name(f.font, C.hb_codepoint_t(g), &buf[0], 128)
	return C.GoString(&buf[0]), ok != 0
}

type FontExtents struct{ Ascender, Descender, LineGap int32 }

func (f *Face) HExtents() (FontExtents, bool) {
	var e C.hb_font_extents_t
	ok := C.hb_font_get_h_extents(f.font, &e)
	return FontExtents{int32(e.ascender), int32(e.descender), int32(e.line_gap)}, ok != 0
}

func (f *Face) VExtents() (FontExtents, bool) {
	var e C.hb_font_extents_t
	ok := C.hb_font_get_v_extents(f.font, &e)
	return FontExtents{int32(e.ascender), int32(e.descender), int32(e.line_gap)}, ok != 0
}

// MetricsPosition wraps hb_ot_metrics_get_position (tag as big-endian uint32).
func (f *Face) MetricsPosition(tag uint32) (int32, bool) {
	var p C.hb_position_t
	ok := C.hb_ot_metrics_get_position(f.font, C.hb_tag_t(tag), &p)
	return int32(p), ok != 0
}

// Segment ops of an outline.
const (
	OpMove = iota
	OpLine
	OpQuad
	OpCubic
	OpClose
)

type Segment struct {
	Op   int
	Args [6]float32
}

// Outline returns the outline of a glyph through the draw API.
func (f *Face) Outline(g uint32) []Segment {
	var p C.vr_path
	C.vr_draw(f.font, C.hb_codepoint_t(g), &p)
	n := int(p.n)
	out := make([]Segment, n)
	if n > 0 {
		segs := unsafe.Slice(p.segs, n)
		for i := range out {
			out[i].Op = int(segs[i].op)
			for j := 0; j < 6; j++ {
				out[i].Args[j] = float32(segs[i].a[j])
			}
		}
	}
	C.free(unsafe.Pointer(p.segs))
	return out
}

// ---- shaping ----

// Directions as in hb_direction_t.
const (
	DirInvalid = 0
	DirLTR     = 4
	DirRTL     = 5
	DirTTB     = 6
	DirBTT     = 7
)

// Buffer flags as in hb_buffer_flags_t.
const (
	FlagBOT                       = 0x1
	FlagEOT                       = 0x2
	FlagPreserveDefaultIgnorables = 0x4
	FlagRemoveDefaultIgnorables   = 0x8
	FlagDoNotInsertDottedCircle   = 0x10
	FlagVerify                    = 0x20
	FlagProduceUnsafeToConcat     = 0x40
)

type Feature struct {
	Tag        uint32
	Value      uint32
	Start, End uint32 // End = 0xFFFFFFFF for global
}

type Input struct {
	Text         []rune
	ItemOffset   int
	ItemLength   int
	Direction    int    // Dir*; DirInvalid: guess
	Script       uint32 // ISO 15924 tag as uint32; 0: guess
	Language     string // "" : unset
	Flags        int
	ClusterLevel int
	Features     []Feature
	Invisible    uint32
	NotFound     uint32
	SetNotFound  bool
}

type Glyph struct {
	ID                                 uint32
	Cluster                            uint32
	Mask                               uint32 // glyph flags (hb_glyph_info_get_glyph_flags): mask & 0x7
	XAdvance, YAdvance, XOffset, YOffset int32
}

type Output struct {
	Glyphs    []Glyph
	OK        bool
	Direction int
	Script    uint32
}

// Shape shapes with the "ot" shaper only.
func (f *Face) Shape(in Input) Output {
	buf := C.hb_buffer_create()
	defer C.hb_buffer_destroy(buf)
	text := make([]uint32, len(in.Text))
	for i, r := range in.Text {
		text[i] = uint32(r)
	}
	var tp *C.hb_codepoint_t
	if len(text) > 0 {
		tp = (*C.hb_codepoint_t)(unsafe.Pointer(&text[0]))
	}
	C.hb_buffer_set_cluster_level(buf, C.int(in.ClusterLevel))
	C.hb_buffer_set_flags(buf, C.int(in.Flags))
	C.hb_buffer_add_codepoints(buf, tp, C.int(len(text)), C.uint(in.ItemOffset), C.int(in.ItemLength))
	if in.Direction != DirInvalid {
		C.hb_buffer_set_direction(buf, C.int(in.Direction))
	}
	if in.Script != 0 {
		C.hb_buffer_set_script(buf, C.uint32_t(in.Script))
	}
	if in.Language != "" {
		cs := C.CString(in.Language)
		C.hb_buffer_set_language(buf, C.hb_language_from_string(cs, C.int(len(in.Language))))
		C.free(unsafe.Pointer(cs))
	}
	if in.Invisible != 0 {
		C.hb_buffer_set_invisible_glyph(buf, C.hb_codepoint_t(in.Invisible))
	}
	if in.SetNotFound {
		C.hb_buffer_set_not_found_glyph(buf, C.hb_codepoint_t(in.NotFound))
	}
	C.hb_buffer_guess_segment_properties(buf)
	var fp *C.hb_feature_t
	feats := make([]C.hb_feature_t, len(in.Features))
	for i, ft := range in.Features {
		feats[i] = C.hb_feature_t{tag: C.hb_tag_t(ft.Tag), value: C.uint32_t(ft.Value), start: C.uint(ft.Start), end: C.uint(ft.End)}
	}
	if len(feats) > 0 {
		fp = &feats[0]
	}
	ok := C.vr_shape(f.font, buf, fp, C.uint(len(feats)))
	var n, n2 C.uint
	infos := C.hb_buffer_get_glyph_infos(buf, &n)
	poss := C.hb_buffer_get_glyph_positions(buf, &n2)
	out := Output{OK: ok != 0, Direction: int(C.hb_buffer_get_direction(buf)), Script: uint32(C.hb_buffer_get_script(buf))}
	if n > 0 && n == n2 {
		is := unsafe.Slice(infos, int(n))
		ps := unsafe.Slice(poss, int(n))
		out.Glyphs = make([]Glyph, int(n))
		for i := range out.Glyphs {
			out.Glyphs[i] = Glyph{ID: uint32(is[i].codepoint), Cluster: uint32(is[i].cluster), Mask: uint32(is[i].mask) & 0x7,
				XAdvance: int32(ps[i].x_advance), YAdvance: int32(ps[i].y_advance), XOffset: int32(ps[i].x_offset), YOffset: int32(ps[i].y_offset)}
		}
	}
	runtime.KeepAlive(text)
	runtime.KeepAlive(feats)
	return out
}
