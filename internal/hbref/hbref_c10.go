package hbref

// Additions for property C10: raw table access through libharfbuzz's own container code
// (independent of the port's loader) and fvar axis information.

/*
#include <stdint.h>
#include <stdlib.h>

typedef struct hb_blob_t hb_blob_t;
typedef struct hb_face_t hb_face_t;
typedef uint32_t hb_tag_t;

typedef struct {
	unsigned int axis_index;
	hb_tag_t     tag;
	unsigned int name_id;
	unsigned int flags;
	float        min_value;
	float        default_value;
	float        max_value;
	unsigned int reserved;
} vr_axis_info_t; // hb_ot_var_axis_info_t

extern hb_blob_t *hb_face_reference_table(const hb_face_t *face, hb_tag_t tag);
extern const char *hb_blob_get_data(hb_blob_t *blob, unsigned int *length);
extern void hb_blob_destroy(hb_blob_t *blob);
extern unsigned int hb_blob_get_length(hb_blob_t *blob);
extern unsigned int hb_ot_var_get_axis_infos(hb_face_t *face, unsigned int start_offset, unsigned int *axes_count, vr_axis_info_t *axes_array);

typedef struct hb_set_t hb_set_t;
extern hb_set_t *hb_set_create(void);
extern void hb_set_destroy(hb_set_t *set);
extern unsigned int hb_set_get_population(const hb_set_t *set);
extern int hb_set_next(const hb_set_t *set, uint32_t *codepoint);
extern void hb_face_collect_unicodes(hb_face_t *face, hb_set_t *out);

static unsigned int vr_collect_unicodes(hb_face_t *face, uint32_t **out) {
	hb_set_t *s = hb_set_create();
	hb_face_collect_unicodes(face, s);
	unsigned int n = hb_set_get_population(s), i = 0;
	*out = (uint32_t*)malloc((n ? n : 1) * sizeof(uint32_t));
	uint32_t cp = (uint32_t)-1;
	while (i < n && hb_set_next(s, &cp)) (*out)[i++] = cp;
	hb_set_destroy(s);
	return i;
}
*/
import "C"

import "unsafe"

// Tag builds an OpenType tag value from a 4-character string.
func Tag(s string) uint32 {
	b := []byte(s + "    ")[:4]
	return uint32(b[0])<<24 | uint32(b[1])<<16 | uint32(b[2])<<8 | uint32(b[3])
}

// TableData returns a copy of the raw bytes of a table as libharfbuzz locates it (nil if absent).
func (f *Face) TableData(tag uint32) []byte {
	blob := C.hb_face_reference_table((*C.hb_face_t)(unsafe.Pointer(f.face)), C.hb_tag_t(tag))
	if blob == nil {
		return nil
	}
	defer C.hb_blob_destroy(blob)
	var n C.uint
	p := C.hb_blob_get_data(blob, &n)
	if p == nil || n == 0 {
		return nil
	}
	return C.GoBytes(unsafe.Pointer(p), C.int(n))
}

// Axis is one fvar axis as libharfbuzz reads it.
type Axis struct {
	Tag               uint32
	Min, Default, Max float32
}

// Axes returns the fvar axes (hb_ot_var_get_axis_infos).
func (f *Face) Axes() []Axis {
	n := f.AxisCount()
	if n == 0 {
		return nil
	}
	infos := make([]C.vr_axis_info_t, n)
	cnt := C.uint(n)
	C.hb_ot_var_get_axis_infos((*C.hb_face_t)(unsafe.Pointer(f.face)), 0, &cnt, &infos[0])
	out := make([]Axis, int(cnt))
	for i := range out {
		out[i] = Axis{Tag: uint32(infos[i].tag), Min: float32(infos[i].min_value), Default: float32(infos[i].default_value), Max: float32(infos[i].max_value)}
	}
	return out
}

// CollectUnicodes returns every code point libharfbuzz's selected cmap subtable maps
// (hb_face_collect_unicodes), ascending.
func (f *Face) CollectUnicodes() []rune {
	var p *C.uint32_t
	n := int(C.vr_collect_unicodes((*C.hb_face_t)(unsafe.Pointer(f.face)), &p))
	defer C.free(unsafe.Pointer(p))
	out := make([]rune, n)
	if n > 0 {
		src := unsafe.Slice((*uint32)(unsafe.Pointer(p)), n)
		for i, v := range src {
			out[i] = rune(v)
		}
	}
	return out
}

// TableLen returns the length of a table (0 if absent) without copying it.
func (f *Face) TableLen(tag uint32) int {
	blob := C.hb_face_reference_table((*C.hb_face_t)(unsafe.Pointer(f.face)), C.hb_tag_t(tag))
	if blob == nil {
		return 0
	}
	defer C.hb_blob_destroy(blob)
	return int(C.hb_blob_get_length(blob))
}
