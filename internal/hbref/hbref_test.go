package hbref

import (
	"os"
	"testing"
)

func TestSmoke(t *testing.T) {
	t.Log(Version())
	b, err := os.ReadFile("/usr/share/fonts/truetype/dejavu/DejaVuSans.ttf")
	if err != nil {
		t.Skip(err)
	}
	f := NewFace(b, 0)
	t.Log(f.Upem, f.GlyphCount(), FaceCount(b))
	out := f.Shape(Input{Text: []rune("AVfi é"), ItemLength: -1, Direction: DirLTR, Flags: FlagBOT | FlagEOT})
	t.Logf("%+v", out)
	g, _ := f.NominalGlyph('A')
	t.Log(f.GlyphExtents(g))
	t.Log(len(f.Outline(g)), f.Outline(g)[:3])
	t.Log(f.GlyphName(g))
	t.Log(f.HExtents())
}
