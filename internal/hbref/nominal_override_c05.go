package hbref

// Addition for the C05/C18 work (used by C18's triage): replace the character map the reference
// font sees by a given rune -> glyph table. Some corpus fonts have a cmap the two loaders read
// differently (no Unicode/Microsoft subtable: the port falls back to a Macintosh subtable, the
// reference maps nothing). A verdict of the reference (HB_BUFFER_FLAG_VERIFY) on such a font is
// about a buffer of .notdef glyphs and says nothing about the input the port shaped; with the
// port's own mapping installed the reference shapes the same glyphs.
//
// Implementation: a sub-font of the ot-funcs font whose only own callback is nominal_glyph (a
// binary search in a C-side table); every other font function falls through to the parent.

/*
#include <stdint.h>
#include <stdlib.h>
#include <string.h>

typedef struct hb_font_t hb_font_t;
typedef struct hb_font_funcs_t hb_font_funcs_t;
typedef uint32_t hb_codepoint_t;
typedef int hb_bool_t;
typedef void (*hb_destroy_func_t)(void *user_data);
typedef hb_bool_t (*hb_font_get_nominal_glyph_func_t)(hb_font_t *font, void *font_data, hb_codepoint_t unicode, hb_codepoint_t *glyph, void *user_data);

extern hb_font_t *hb_font_create_sub_font(hb_font_t *parent);
extern void hb_font_destroy(hb_font_t *font);
extern hb_font_funcs_t *hb_font_funcs_create(void);
extern void hb_font_funcs_destroy(hb_font_funcs_t *ffuncs);
extern void hb_font_funcs_set_nominal_glyph_func(hb_font_funcs_t *ffuncs, hb_font_get_nominal_glyph_func_t func, void *user_data, hb_destroy_func_t destroy);
extern void hb_font_set_funcs(hb_font_t *font, hb_font_funcs_t *klass, void *font_data, hb_destroy_func_t destroy);

typedef struct { unsigned int n; hb_codepoint_t *cp; hb_codepoint_t *gid; } nm_table;

static hb_bool_t nm_nominal(hb_font_t *font, void *font_data, hb_codepoint_t u, hb_codepoint_t *g, void *user) {
	nm_table *t = (nm_table*)user;
	unsigned int lo = 0, hi = t->n;
	while (lo < hi) {
		unsigned int mid = lo + (hi - lo) / 2;
		if (t->cp[mid] < u) lo = mid + 1; else hi = mid;
	}
	if (lo < t->n && t->cp[lo] == u) { *g = t->gid[lo]; return 1; }
	*g = 0;
	return 0;
}

static void nm_free(void *p) {
	nm_table *t = (nm_table*)p;
	free(t->cp); free(t->gid); free(t);
}

// cp must be sorted ascending
static hb_font_t *nm_sub_font(hb_font_t *parent, unsigned int n, const hb_codepoint_t *cp, const hb_codepoint_t *gid) {
	nm_table *t = (nm_table*)malloc(sizeof(nm_table));
	t->n = n;
	t->cp = (hb_codepoint_t*)malloc(sizeof(hb_codepoint_t) * (n ? n : 1));
	t->gid = (hb_codepoint_t*)malloc(sizeof(hb_codepoint_t) * (n ? n : 1));
	if (n) { memcpy(t->cp, cp, sizeof(hb_codepoint_t) * n); memcpy(t->gid, gid, sizeof(hb_codepoint_t) * n); }
	hb_font_t *sub = hb_font_create_sub_font(parent);
	hb_font_funcs_t *ff = hb_font_funcs_create();
	hb_font_funcs_set_nominal_glyph_func(ff, nm_nominal, t, nm_free);
	hb_font_set_funcs(sub, ff, 0, 0);
	hb_font_funcs_destroy(ff);
	return sub;
}
*/
import "C"

import (
	"sort"
	"unsafe"
)

// OverrideNominalGlyphs makes the face map exactly the given runes (to the given glyphs) and
// nothing else; variation sequences, metrics, layout are unchanged. Call it before any shaping,
// and not concurrently with other uses of the face.
func (f *Face) OverrideNominalGlyphs(mapping map[rune]uint32) {
	cps := make([]uint32, 0, len(mapping))
	for r := range mapping {
		cps = append(cps, uint32(r))
	}
	sort.Slice(cps, func(i, j int) bool { return cps[i] < cps[j] })
	gids := make([]uint32, len(cps))
	for i, r := range cps {
		gids[i] = mapping[rune(r)]
	}
	var cp, gp *C.hb_codepoint_t
	if len(cps) > 0 {
		cp = (*C.hb_codepoint_t)(unsafe.Pointer(&cps[0]))
		gp = (*C.hb_codepoint_t)(unsafe.Pointer(&gids[0]))
	}
	sub := C.nm_sub_font(f.font, C.uint(len(cps)), cp, gp)
	// the sub-font holds its own reference to the parent
	C.hb_font_destroy(f.font)
	f.font = sub
}
