package hbref

// Additions for property C05: tag/value variation settings (hb_font_set_variations, the
// counterpart of font.Face.SetVariations of the port) and feature-tag enumeration of the layout
// tables as the reference sees them.

/*
#include <stdint.h>
#include <stdlib.h>

typedef struct hb_face_t hb_face_t;
typedef struct hb_font_t hb_font_t;
typedef uint32_t hb_tag_t;
typedef struct { hb_tag_t tag; float value; } hb_variation_t;

extern void hb_font_set_variations(hb_font_t *font, const hb_variation_t *variations, unsigned int variations_length);
extern unsigned int hb_ot_layout_table_get_lookup_count(hb_face_t *face, hb_tag_t table_tag);
extern unsigned int hb_ot_layout_table_get_feature_tags(hb_face_t *face, hb_tag_t table_tag, unsigned int start_offset, unsigned int *feature_count, hb_tag_t *feature_tags);
*/
import "C"

import "unsafe"

// Variation is one axis setting in design units.
type Variation struct {
	Tag   uint32
	Value float32
}

// SetVariations applies tag/value settings (axes not named keep their default); an empty list
// removes the coordinates, like the port's Face.SetVariations.
func (f *Face) SetVariations(vs []Variation) {
	if len(vs) == 0 {
		C.hb_font_set_variations((*C.hb_font_t)(unsafe.Pointer(f.font)), nil, 0)
		return
	}
	cv := make([]C.hb_variation_t, len(vs))
	for i, v := range vs {
		cv[i] = C.hb_variation_t{tag: C.hb_tag_t(v.Tag), value: C.float(v.Value)}
	}
	C.hb_font_set_variations((*C.hb_font_t)(unsafe.Pointer(f.font)), &cv[0], C.uint(len(cv)))
}

// FeatureTags lists the feature tags of the GSUB (table = 'GSUB') or GPOS table.
func (f *Face) FeatureTags(table uint32) []uint32 {
	var out []uint32
	start := 0
	for {
		var buf [64]C.hb_tag_t
		n := C.uint(64)
		C.hb_ot_layout_table_get_feature_tags((*C.hb_face_t)(unsafe.Pointer(f.face)), C.hb_tag_t(table), C.uint(start), &n, &buf[0])
		for i := 0; i < int(n); i++ {
			out = append(out, uint32(buf[i]))
		}
		if n < 64 {
			return out
		}
		start += int(n)
	}
}

// LookupCount returns the number of lookups of the GSUB ('GSUB') or GPOS table as the reference
// sees it (0 when the table is missing or rejected by its sanitizer).
func (f *Face) LookupCount(table uint32) int {
	return int(C.hb_ot_layout_table_get_lookup_count((*C.hb_face_t)(unsafe.Pointer(f.face)), C.hb_tag_t(table)))
}
