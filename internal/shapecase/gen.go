package shapecase

import (
	"math"
	"math/bits"
	"os"
	"path/filepath"
	"sort"
	"strconv"
	"strings"
	"sync"
	"unicode"
	"unicode/utf8"

	"github.com/go-text/typesetting/font"
	ot "github.com/go-text/typesetting/font/opentype"
	"github.com/go-text/typesetting/font/opentype/tables"
	"github.com/go-text/typesetting/harfbuzz"
	"github.com/go-text/typesetting/language"
	"pgregory.net/rapid"

	"verif/internal/corpus"
	"verif/internal/synthfont"
	"verif/internal/textgen"
)

// ---- sources of choices: rapid draws (properties) or fuzz bytes (FuzzShape) ----

// Source yields bounded choices; both implementations are deterministic functions of their input.
type Source interface {
	// Intn returns a value in [0, n), n >= 1.
	Intn(label string, n int) int
}

// RapidSource draws from a rapid test. rapid's integer generators are deliberately biased toward
// small values (IntRange(0,99) is below 8 about half of the time), which would distort every
// weighted choice below; choices are therefore assembled from unbiased bits (rapid.Bool), which
// still shrink toward 0.
type RapidSource struct{ T *rapid.T }

var uniformGens = map[int]*rapid.Generator[int]{}

func uniform(n int) *rapid.Generator[int] {
	if g, ok := uniformGens[n]; ok {
		return g
	}
	k := bits.Len(uint(n-1)) + 3
	g := rapid.Custom(func(t *rapid.T) int {
		v := 0
		for i := 0; i < k; i++ {
			if rapid.Bool().Draw(t, "bit") {
				v |= 1 << i
			}
		}
		return v % n
	})
	uniformGens[n] = g
	return g
}

func (s RapidSource) Intn(label string, n int) int {
	if n <= 1 {
		return 0
	}
	return uniform(n).Draw(s.T, label)
}

// ByteSource consumes fuzz bytes; once exhausted every choice is 0.
type ByteSource struct {
	B []byte
	i int
}

func (s *ByteSource) next() int {
	if s.i >= len(s.B) {
		return 0
	}
	v := s.B[s.i]
	s.i++
	return int(v)
}

func (s *ByteSource) Intn(_ string, n int) int {
	if n <= 1 {
		return 0
	}
	v := s.next()
	if n > 256 {
		v = v<<8 | s.next()
	}
	if n > 1<<16 {
		v = v<<8 | s.next()
	}
	if n > 1<<24 {
		v = v<<8 | s.next()
	}
	return v % n
}

// ---- font pool ----

// FaceInfo is what the generator needs to know about a face.
type FaceInfo struct {
	Traits    corpus.Traits
	Alphabets []string // textgen alphabets matching the script tags of GSUB/GPOS (sorted)
	Features  []uint32 // feature tags of GSUB/GPOS (sorted, distinct)
	Complex   bool     // layout tables name a script handled by a complex shaper, or the face has morx
	Axes      []Axis   // fvar axes (variable fonts)
	HasDevice bool     // GPOS carries hinting Device tables (pixels per em matter)
}

// Axis is one variation axis of a face.
type Axis struct {
	Tag           string
	Min, Def, Max float32
}

// axesOf reads the fvar axes of a corpus face through the public table parser.
func axesOf(rel string, index int) []Axis {
	lds, err := corpus.Loaders(rel)
	if err != nil || index >= len(lds) {
		return nil
	}
	raw, err := lds[index].RawTable(ot.MustNewTag("fvar"))
	if err != nil {
		return nil
	}
	fv, _, err := tables.ParseFvar(raw)
	if err != nil {
		return nil
	}
	var out []Axis
	for _, a := range fv.FvarRecords.Axis {
		out = append(out, Axis{Tag: a.Tag.String(), Min: a.Minimum, Def: a.Default, Max: a.Maximum})
	}
	return out
}

// Pool is the corpus with its strata.
type Pool struct {
	All    []corpus.Face
	Info   []FaceInfo
	Names  []string // stratum names, sorted
	Strata [][]int  // indices into All
}

// OpenType script tag -> textgen alphabet.
var tagAlphabet = map[string]string{
	"arab": "arabic", "syrc": "syriac", "nko ": "nko", "mong": "mongolian", "hebr": "hebrew",
	"deva": "devanagari", "dev2": "devanagari", "beng": "bengali", "bng2": "bengali", "guru": "gurmukhi", "gur2": "gurmukhi",
	"gujr": "gujarati", "gjr2": "gujarati", "orya": "oriya", "ory2": "oriya", "taml": "tamil", "tml2": "tamil",
	"telu": "telugu", "tel2": "telugu", "knda": "kannada", "knd2": "kannada", "mlym": "malayalam", "mlm2": "malayalam",
	"sinh": "sinhala", "khmr": "khmer", "mymr": "myanmar", "mym2": "myanmar", "thai": "thai", "lao ": "lao", "tibt": "tibetan",
	"hang": "hangul", "jamo": "hangul", "hani": "cjk", "kana": "cjk", "latn": "latin", "grek": "greek", "cyrl": "cyrillic",
	"bali": "use", "java": "use", "lana": "use", "batk": "use", "brah": "use", "kthi": "use",
}

var complexAlphabets = map[string]bool{
	"arabic": true, "syriac": true, "nko": true, "mongolian": true, "hebrew": true, "devanagari": true, "bengali": true,
	"gurmukhi": true, "gujarati": true, "oriya": true, "tamil": true, "telugu": true, "kannada": true, "malayalam": true,
	"sinhala": true, "khmer": true, "myanmar": true, "thai": true, "lao": true, "tibetan": true, "hangul": true, "use": true,
}

var alphabetStratum = map[string]string{
	"arabic": "script:arabic-like", "syriac": "script:arabic-like", "nko": "script:arabic-like", "mongolian": "script:arabic-like",
	"hebrew": "script:hebrew", "devanagari": "script:indic", "bengali": "script:indic", "gurmukhi": "script:indic",
	"gujarati": "script:indic", "oriya": "script:indic", "tamil": "script:indic", "telugu": "script:indic", "kannada": "script:indic",
	"malayalam": "script:indic", "sinhala": "script:indic", "khmer": "script:khmer-myanmar", "myanmar": "script:khmer-myanmar",
	"thai": "script:thai-lao", "lao": "script:thai-lao", "tibetan": "script:use-tibetan", "use": "script:use-tibetan",
	"hangul": "script:hangul", "cjk": "script:cjk",
}

var (
	poolOnce sync.Once
	pool     *Pool
)

func layoutInfo(f *font.Font) (alph []string, feats []uint32, complex bool) {
	as := map[string]bool{}
	fs := map[uint32]bool{}
	for _, l := range []font.Layout{f.GSUB.Layout, f.GPOS.Layout} {
		for _, s := range l.Scripts {
			if a, ok := tagAlphabet[TagName(uint32(s.Tag))]; ok {
				as[a] = true
			} else if t := TagName(uint32(s.Tag)); t != "DFLT" && t != "dflt" {
				as["use"] = true // some other script: USE-like alphabets are the closest we have
			}
		}
		for _, ft := range l.Features {
			fs[uint32(ft.Tag)] = true
		}
	}
	for a := range as {
		alph = append(alph, a)
		if complexAlphabets[a] && a != "use" {
			complex = true
		}
	}
	sort.Strings(alph)
	for t := range fs {
		feats = append(feats, t)
	}
	sort.Slice(feats, func(i, j int) bool { return feats[i] < feats[j] })
	return alph, feats, complex
}

// ThePool indexes every loadable face of the corpus once per process.
func ThePool() *Pool {
	poolOnce.Do(func() {
		p := &Pool{All: corpus.All()}
		perFile := map[string]int{}
		for _, f := range p.All {
			perFile[f.File]++
		}
		strata := map[string][]int{}
		for i, f := range p.All {
			tr := corpus.TraitsOf(f.File, f.Index)
			alph, feats, complex := layoutInfo(f.Face.Font)
			fi := FaceInfo{Traits: tr, Alphabets: alph, Features: feats, Complex: complex || tr.Morx}
			if tr.Fvar {
				fi.Axes = axesOf(f.File, f.Index)
			}
			p.Info = append(p.Info, fi)
			add := func(s string) { strata[s] = append(strata[s], i) }
			add("all")
			if tr.GSUB {
				add("gsub")
			}
			if tr.GPOS {
				add("gpos")
			}
			if tr.Morx {
				add("morx")
			}
			if tr.Kerx {
				add("kerx")
			}
			if tr.Kern {
				add("kern")
			}
			if tr.Fvar {
				add("fvar")
			}
			if tr.CFF {
				add("cff")
			}
			if tr.CFF2 {
				add("cff2")
			}
			if tr.Bitmap || tr.SVG {
				add("bitmap-svg")
			}
			if tr.Vertical {
				add("vertical")
			}
			if perFile[f.File] > 1 {
				add("collection")
			}
			if !tr.GSUB && !tr.GPOS && !tr.Morx && !tr.Kerx && !tr.Kern {
				add("nolayout")
			}
			seen := map[string]bool{}
			for _, a := range alph {
				if s, ok := alphabetStratum[a]; ok && !seen[s] {
					seen[s] = true
					add(s)
				}
			}
		}
		for n := range strata {
			p.Names = append(p.Names, n)
		}
		sort.Strings(p.Names)
		for _, n := range p.Names {
			p.Strata = append(p.Strata, strata[n])
		}
		pool = p
	})
	return pool
}

// DrawFace draws a face index: a stratum first, then a face of the stratum (so that rare
// containers / tables / scripts are as likely as common ones).
func (p *Pool) DrawFace(s Source) int {
	st := p.Strata[s.Intn("stratum", len(p.Strata))]
	return st[s.Intn("face", len(st))]
}

// ---- options ----

// Opts tunes the generator for a property.
type Opts struct {
	MaxLen    int  // maximum text length
	ValidOnly bool // C12: valid scalar values only, in-range bounds, shaping API only
	Spacing   bool // C12: draw spacing values and run-position flags
	NoHB      bool // shaping API only
	// SynthPositioning restricts DrawSynth to the generated fonts with positioning tables (C12)
	SynthPositioning bool
	// Long runs (beyond the library's internal constants: 64-entry AAT ligature stack, 32/64-glyph
	// context limits, 5-rune context, ...): LongPct percent of the cases (default 6; 2.5 x that on faces
	// with morx or a complex-shaper script) get a run of 65..LongMax runes (default 600) built by
	// repeating a few short units with variation. LongPct < 0 disables the class.
	LongPct int
	LongMax int
}

var commonFeatures = []string{
	"kern", "liga", "frac", "smcp", "vert", "calt", "ccmp", "locl", "mark", "mkmk", "init", "medi", "fina", "rlig", "dlig",
	"salt", "aalt", "numr", "dnom", "vrt2", "vkrn", "rand", "ss01", "cv01", "curs", "dist", "abvm", "blwm", "half", "pres",
	"vpal", "palt", "vhal", "halt", "vkna", "kern", "vkrn",
}

func tagOf(s string) uint32 {
	return uint32(s[0])<<24 | uint32(s[1])<<16 | uint32(s[2])<<8 | uint32(s[3])
}

var someScripts = []language.Script{
	language.Latin, language.Arabic, language.Hebrew, language.Devanagari, language.Bengali, language.Tamil, language.Malayalam,
	language.Khmer, language.Myanmar, language.Thai, language.Lao, language.Hangul, language.Tibetan, language.Mongolian,
	language.Syriac, language.Nko, language.Sinhala, language.Javanese, language.Balinese, language.Han, language.Hiragana,
	language.Greek, language.Cyrillic, language.Adlam, language.Kannada, language.Telugu, language.Gujarati, language.Gurmukhi, language.Oriya,
	language.Script(0x51616167), // Qaag (Zawgyi)
}

var oddScripts = []uint32{0, uint32(language.Unknown), uint32(language.Inherited), 0xFFFFFFFF, 0x20202020, 0x4D617468 /* Math */}

var alphabetLanguages = map[string][]string{
	"arabic": {"ar", "fa", "ur", "sd", "ks"}, "syriac": {"syr"}, "hebrew": {"he", "yi"}, "devanagari": {"hi", "mr", "ne", "sa"},
	"bengali": {"bn", "as"}, "tamil": {"ta"}, "thai": {"th"}, "lao": {"lo"}, "khmer": {"km"}, "myanmar": {"my"}, "hangul": {"ko"},
	"cjk": {"ja", "zh-hans", "zh-hant", "zh-hk"}, "latin": {"tr", "az", "ro", "nl", "vi", "de", "ca", "mh", "lt"},
	"cyrillic": {"sr", "ru", "bg", "mk"}, "greek": {"el"}, "tibetan": {"bo", "dz"}, "mongolian": {"mn"},
}

var oddLanguages = []string{
	"und", "x-hbot-41424344", "x-hbsc-61726162", "en-fonipa", "zh-hant-hk", "qaa", "a", "-", "en_US", "fr-x-hbot-4C4D4E4F",
	"und-fonnapa", "zzzzzzzzzzzzzzzzzzzzzzzzzzzzzzzzzzzzzzzzzzzzzzzzzzzzzzzzzzzzzzzzzzzzzzzzzzzz", "ar-Syrc", "i-navajo", "sr-Latn", "1234",
}

var fixedSizes = []int32{64, 12 * 64, 16 * 64, 72 * 64, 1000 * 64, 4096 * 64, 2048 * 64}

var glyphOverrides = []uint32{0, 0, 0, 1, 2, 3, 50, 0xFFFF, 0x10000, 0xFFFFFFFF}

// SpacingValues are the spacing amounts of C12: zero, odd/even of both signs, large.
var SpacingValues = []int32{0, 1, -1, 3, -3, 7, 2, -2, 64, -64, 65, -65, 640, 1000 * 64, -1000 * 64, 100001, 1 << 24}

// Params draws every parameter of the case except font and text.
func Params(s Source, c *Case, info *FaceInfo, o Opts) {
	n := len(c.Text)
	c.API = APIShaping
	if !o.ValidOnly && !o.NoHB && s.Intn("api", 100) >= 55 {
		c.API = APIHarfbuzz
	}
	// run bounds
	sub := func() {
		// mostly a non-empty run strictly inside the text; sometimes empty / at the very end
		if n == 0 || s.Intn("emptyrun", 8) == 0 {
			c.RunStart = s.Intn("start", n+1)
			c.RunEnd = c.RunStart
			return
		}
		c.RunStart = s.Intn("start", n)
		c.RunEnd = c.RunStart + 1 + s.Intn("runlen", n-c.RunStart)
	}
	c.RunStart, c.RunEnd = 0, n
	switch k := s.Intn("bounds", 10); {
	case k <= 4:
	case k <= 7 || k == 9:
		sub()
	default:
		if c.API == APIHarfbuzz || o.ValidOnly {
			sub()
			break
		}
		switch s.Intn("hostilebounds", 8) {
		case 0: // swapped, both inside the text
			sub()
			c.RunStart, c.RunEnd = c.RunEnd, c.RunStart
		case 1:
			c.RunStart, c.RunEnd = -1-s.Intn("neg", 6), s.Intn("end", n+1)
		case 2:
			c.RunStart, c.RunEnd = s.Intn("start", n+1), n+1+s.Intn("beyond", 6)
		case 3:
			c.RunStart, c.RunEnd = n+1+s.Intn("beyond", 6), n+8+s.Intn("beyond2", 6)
		case 4:
			c.RunStart, c.RunEnd = -9-s.Intn("neg", 6), -1-s.Intn("neg2", 6)
		case 5:
			c.RunStart, c.RunEnd = -1<<31, 1<<31
		case 6:
			c.RunStart, c.RunEnd = math.MaxInt64, math.MinInt64
		default:
			c.RunStart, c.RunEnd = n+3, -2
		}
	}
	// direction
	switch k := s.Intn("dir", 100); {
	case k < 30:
		c.Dir = 0
	case k < 55:
		c.Dir = 1
	case k < 85:
		c.Dir = 2
	default:
		c.Dir = 3
	}
	c.Orient = 0
	if c.Dir >= 2 {
		switch k := s.Intn("orient", 4); {
		case k == 0:
			c.Orient = 0
		case k == 1:
			c.Orient = 1
		default:
			c.Orient = 2
		}
	}
	// script
	c.ScriptGuess, c.Script = false, 0
	switch k := s.Intn("script", 10); {
	case k <= 5:
		c.ScriptGuess = true
	case k == 6:
		c.Script = uint32(language.Common)
	case k <= 8:
		c.Script = uint32(someScripts[s.Intn("somescript", len(someScripts))])
	default:
		if o.ValidOnly {
			c.Script = uint32(language.Unknown)
		} else {
			c.Script = oddScripts[s.Intn("oddscript", len(oddScripts))]
		}
	}
	// language
	c.Language = ""
	switch k := s.Intn("lang", 8); {
	case k <= 2:
	case k == 3:
		c.Language = "en"
	case k <= 5:
		var cands []string
		for _, a := range info.Alphabets {
			cands = append(cands, alphabetLanguages[a]...)
		}
		if len(cands) == 0 {
			cands = alphabetLanguages["latin"]
		}
		c.Language = cands[s.Intn("scriptlang", len(cands))]
	default:
		c.Language = string(language.NewLanguage(oddLanguages[s.Intn("oddlang", len(oddLanguages))]))
	}
	// size
	switch k := s.Intn("size", 10); {
	case k <= 5:
		c.Size = fixedSizes[s.Intn("fixedsize", len(fixedSizes))]
	case k <= 7:
		c.Size = 64 + int32(s.Intn("frac100", 100*64))
	case k == 8:
		c.Size = 1 + int32(s.Intn("subpixel", 63))
	default:
		c.Size = 1 + int32(s.Intn("anysize", 4096*64))
	}
	// features
	c.Features = nil
	nf := 0
	if k := s.Intn("nfeat", 8); k >= 4 {
		nf = k - 3
	}
	for i := 0; i < nf; i++ {
		var f Feature
		switch k := s.Intn("feattag", 10); {
		case k <= 5 && len(info.Features) > 0:
			f.Tag = info.Features[s.Intn("fontfeat", len(info.Features))]
		case k <= 8:
			f.Tag = tagOf(commonFeatures[s.Intn("commonfeat", len(commonFeatures))])
		default:
			f.Tag = uint32(s.Intn("rt0", 256))<<24 | uint32(s.Intn("rt1", 256))<<16 | uint32(s.Intn("rt2", 256))<<8 | uint32(s.Intn("rt3", 256))
		}
		f.Name = TagName(f.Tag)
		switch k := s.Intn("featval", 10); {
		case k <= 2:
			f.Value = 0
		case k <= 6:
			f.Value = 1
		case k <= 8:
			f.Value = 2
		default:
			f.Value = []uint32{3, 255, 0xFFFF, 0xFFFFFFFF}[s.Intn("bigval", 4)]
		}
		if c.API == APIHarfbuzz && s.Intn("ranged", 10) < 4 {
			f.Ranged = true
			f.Start = s.Intn("fstart", n+2)
			f.End = s.Intn("fend", n+3)
		}
		c.Features = append(c.Features, f)
	}
	// harfbuzz-level knobs
	c.ClusterLevel, c.Flags, c.Invisible, c.NotFound, c.GuessProps, c.UpemScale, c.Ptem = 0, 0, 0, 0, false, false, 0
	if c.API == APIHarfbuzz {
		c.ClusterLevel = uint8(s.Intn("clusterlevel", 3))
		flag := func(label string, pct int, f harfbuzz.ShappingOptions) {
			if s.Intn(label, 100) >= 100-pct { // 0 (the shrink target, exhausted fuzz bytes) = flag off
				c.Flags |= uint16(f)
			}
		}
		flag("bot", 50, harfbuzz.Bot)
		flag("eot", 50, harfbuzz.Eot)
		flag("preserve", 20, harfbuzz.PreserveDefaultIgnorables)
		flag("remove", 30, harfbuzz.RemoveDefaultIgnorables)
		flag("nodotted", 15, harfbuzz.DoNotinsertDottedCircle)
		flag("concat", 20, harfbuzz.ProduceUnsafeToConcat)
		flag("tatweel", 15, harfbuzz.ProduceSafeToInsertTatweel)
		c.Invisible = glyphOverrides[s.Intn("invisible", len(glyphOverrides))]
		c.NotFound = glyphOverrides[s.Intn("notfound", len(glyphOverrides))]
		c.GuessProps = s.Intn("guessprops", 100) >= 85
		c.UpemScale = s.Intn("upemscale", 100) >= 70
		c.Ptem = []float32{0, 0, 0, float32(c.Size) / 64, 9, 144}[s.Intn("ptem", 6)]
		if s.Intn("yscale", 10) == 9 {
			c.YScale = []int32{1, 64, 1000, 2048, c.Scale() / 2, c.Scale() * 2}[s.Intn("yscalevalue", 6)]
		}
	}
	// alternative ways of filling the buffer (harfbuzz level)
	c.Fill, c.Clusters, c.CtxPre, c.CtxPost, c.Split = "", nil, false, false, nil
	if c.API == APIHarfbuzz {
		runLen := c.RunEnd - c.RunStart
		switch k := s.Intn("fill", 10); {
		case k <= 5:
		case k <= 8:
			// rune by rune with caller-chosen clusters: a base that is not 0, a stride, repeats
			// (several runes sharing a cluster, as with byte offsets of another encoding)
			c.Fill = FillAddRune
			cl := []int{0, 1, 5, 100, 1 << 20, c.RunStart}[s.Intn("clusterbase", 6)]
			stride := []int{1, 1, 2, 3, 7, 100}[s.Intn("clusterstride", 6)]
			repeats := s.Intn("clusterrepeats", 3) == 0
			c.Clusters = make([]int, runLen)
			for i := range c.Clusters {
				if i > 0 && !(repeats && s.Intn("samecluster", 3) == 0) {
					cl += stride
				}
				c.Clusters[i] = cl
			}
			c.CtxPre = s.Intn("ctxpre", 2) == 1
			c.CtxPost = s.Intn("ctxpost", 2) == 1
		default:
			c.Fill = FillSplit
			if runLen > 0 {
				a := s.Intn("split1", runLen+1)
				c.Split = []int{a}
				if s.Intn("split3", 2) == 1 {
					c.Split = append(c.Split, a+s.Intn("split2", runLen-a+1))
				}
			}
		}
	}
	// font instance (both levels): variations on variable fonts, pixels per em
	c.Vars, c.Coords, c.XPpem, c.YPpem = nil, nil, 0, 0
	if len(info.Axes) > 0 && s.Intn("instance", 10) < 6 {
		if s.Intn("normalized", 4) == 0 {
			for range info.Axes {
				c.Coords = append(c.Coords, []int{0, 16384, -16384, 8192, -8192, 1, -1, 4096, 12288, -12288}[s.Intn("coord", 10)])
			}
		} else {
			for _, a := range info.Axes {
				var v float32
				switch s.Intn("axismode", 8) {
				case 0:
					continue // axis not named: default
				case 1:
					v = a.Min
				case 2:
					v = a.Max
				case 3:
					v = a.Def
				case 4:
					v = (a.Def + a.Min) / 2
				case 5:
					v = (a.Def + a.Max) / 2
				case 6:
					v = a.Max + 100 // beyond the range: clamped
				default:
					v = a.Min + (a.Max-a.Min)*float32(s.Intn("axisfrac", 101))/100
				}
				c.Vars = append(c.Vars, Var{Tag: a.Tag, Value: v})
			}
		}
	}
	ppemPct := 12
	if info.Traits.Bitmap || info.HasDevice {
		ppemPct = 50
	}
	if s.Intn("ppem", 100) >= 100-ppemPct {
		vals := []int{8, 9, 10, 11, 12, 13, 14, 16, 18, 20, 24, 96, int(c.Size+63) / 64, 0xFFFF}
		c.XPpem = vals[s.Intn("xppem", len(vals))]
		c.YPpem = c.XPpem
		if s.Intn("yppemdiffers", 4) == 0 {
			c.YPpem = vals[s.Intn("yppem", len(vals))]
		}
	}
	// positioning features requested explicitly in vertical runs (kern is not a default there)
	if c.Dir >= 2 && c.Orient != 2 && s.Intn("verticalkern", 10) < 3 {
		tg := []string{"kern", "vkrn", "vpal", "palt", "kern"}[s.Intn("verticalfeature", 5)]
		c.Features = append(c.Features, Feature{Tag: tagOf(tg), Name: tg, Value: 1})
	}
	// spacing (C12)
	c.WordSpacing, c.LetterSpacing, c.StartRun, c.EndRun = 0, 0, false, false
	if o.Spacing {
		// a quarter of the cases leave one amount at zero so that each method is also seen alone
		if s.Intn("wordspacing0", 4) != 0 {
			c.WordSpacing = SpacingValues[s.Intn("wordspacing", len(SpacingValues))]
		}
		if s.Intn("letterspacing0", 4) != 0 {
			c.LetterSpacing = SpacingValues[s.Intn("letterspacing", len(SpacingValues))]
		}
		c.StartRun = s.Intn("startrun", 2) == 1
		c.EndRun = s.Intn("endrun", 2) == 1
	}
}

// ---- upstream (font, text) pairs ----

// Pair is one line of the upstream HarfBuzz expectation files shipped with the corpus: a text chosen
// to suit its font.
type Pair struct {
	Face int // index into ThePool().All
	Text []rune
}

var (
	pairsOnce sync.Once
	pairs     []Pair
)

// UpstreamPairs parses harfbuzz/harfbuzz_reference/*/tests/*.tests (sorted, deterministic).
func UpstreamPairs() []Pair {
	pairsOnce.Do(func() {
		p := ThePool()
		index := map[string]int{}
		for i, f := range p.All {
			if f.Index == 0 {
				index[f.File] = i
			}
		}
		root := filepath.Join(corpus.Dir(), "harfbuzz", "harfbuzz_reference")
		var files []string
		filepath.Walk(root, func(path string, info os.FileInfo, err error) error {
			if err == nil && !info.IsDir() && strings.HasSuffix(path, ".tests") {
				files = append(files, path)
			}
			return nil
		})
		sort.Strings(files)
		for _, fp := range files {
			b, err := os.ReadFile(fp)
			if err != nil {
				continue
			}
			for _, line := range strings.Split(string(b), "\n") {
				parts := strings.Split(line, ";")
				if len(parts) < 4 || strings.HasPrefix(parts[0], "#") {
					continue
				}
				rel, err := filepath.Rel(corpus.Dir(), filepath.Join(filepath.Dir(fp), parts[0]))
				if err != nil {
					continue
				}
				fi, ok := index[rel]
				if !ok {
					continue
				}
				var rs []rune
				for _, u := range strings.Split(parts[2], ",") {
					v, err := strconv.ParseUint(strings.TrimPrefix(strings.TrimSpace(u), "U+"), 16, 32)
					if err == nil {
						rs = append(rs, rune(v))
					}
				}
				if len(rs) > 0 {
					pairs = append(pairs, Pair{Face: fi, Text: rs})
				}
			}
		}
	})
	return pairs
}

// FontPoolSize is the size of the sorted sample of the font's own mapped runes used for text.
const FontPoolSize = 256

// Draw generates a case with rapid. face < 0 draws the face from the stratified pool.
func Draw(t *rapid.T, face int, o Opts) Case {
	p := ThePool()
	s := RapidSource{T: t}
	maxLen := o.MaxLen
	if maxLen <= 0 {
		maxLen = 64
	}
	var pair *Pair
	if up := UpstreamPairs(); face < 0 && len(up) > 0 && s.Intn("upstreampair", 8) == 0 {
		// a text the upstream suite shapes with this very font (reaches font-specific lookups that
		// random text seldom triggers)
		pair = &up[s.Intn("pair", len(up))]
		face = pair.Face
	}
	if face < 0 {
		face = p.DrawFace(s)
	}
	f := p.All[face]
	info := &p.Info[face]
	c := Case{Font: f.File, Index: f.Index}

	// long-run class
	longPct := o.LongPct
	if longPct == 0 {
		longPct = 6
	}
	if info.Traits.Morx || info.Complex {
		longPct = longPct * 5 / 2
	}
	if longPct > 0 && s.Intn("longrun", 100) >= 100-longPct { // 0 (shrink target) = ordinary class
		var must []rune
		if pair != nil {
			must = pair.Text
		}
		c.Text = longText(t, s, face, o, must)
		Params(s, &c, info, o)
		return c
	}

	if pair != nil {
		// the upstream text as is, cut, or with a generated prefix/suffix
		text := pair.Text
		switch s.Intn("pairedit", 4) {
		case 1:
			a := s.Intn("cutfrom", len(text))
			text = text[a : a+1+s.Intn("cutlen", len(text)-a)]
		case 2, 3:
			extra := textgen.Text(t, textgen.Opts{MaxLen: 6, FontPool: textgen.FontRunes(f.Face.Font, FontPoolSize), Hostile: 30, NoInvalid: o.ValidOnly})
			if s.Intn("prefix", 2) == 0 {
				text = append(append([]rune(nil), extra...), text...)
			} else {
				text = append(append([]rune(nil), text...), extra...)
			}
		}
		if len(text) > maxLen {
			text = text[:maxLen]
		}
		c.Text = append([]rune{}, text...)
		Params(s, &c, info, o)
		return c
	}
	scripts := []string(nil)
	// mostly the scripts the font was made for (plus latin); sometimes anything
	if len(info.Alphabets) > 0 && s.Intn("ownscripts", 10) < 7 {
		scripts = append(scripts, info.Alphabets...)
		scripts = append(scripts, "latin")
	}
	c.Text = textgen.Text(t, textgen.Opts{
		MaxLen: maxLen, FontPool: textgen.FontRunes(f.Face.Font, FontPoolSize), Scripts: scripts, Hostile: 12, NoInvalid: o.ValidOnly,
	})
	if len(c.Text) < 2 && s.Intn("allowshort", 4) != 0 {
		// textgen's lengths are strongly biased toward 0; keep empty and one-rune texts, but rarer
		c.Text = append(c.Text, textgen.Text(t, textgen.Opts{
			MaxLen: maxLen - len(c.Text), FontPool: textgen.FontRunes(f.Face.Font, FontPoolSize), Scripts: scripts, Hostile: 12, NoInvalid: o.ValidOnly,
		})...)
	}
	if s.Intn("markstacks", 6) == 0 {
		// stacks of several marks of one script on a base of that script (canonical and
		// script-specific mark reordering, mark-to-mark attachment, cluster merging of moved marks)
		names := scripts
		if len(names) == 0 {
			names = textgen.ScriptNames
		}
		for k := 1 + s.Intn("nstacks", 2); k > 0; k-- {
			stack := markStack(s, names[s.Intn("stackscript", len(names))])
			if len(stack) == 0 || len(c.Text)+len(stack) > maxLen {
				continue
			}
			at := s.Intn("stackat", len(c.Text)+1)
			c.Text = append(c.Text[:at:at], append(stack, c.Text[at:]...)...)
		}
	}
	if o.Spacing && len(c.Text) > 0 && s.Intn("separators", 3) == 0 {
		// C12: make sure the documented word separators (not only U+0020) occur
		for k := 1 + s.Intn("nsep", 3); k > 0 && len(c.Text) < maxLen; k-- {
			at := s.Intn("sepat", len(c.Text)+1)
			sep := WordSeparators[s.Intn("sep", len(WordSeparators))]
			c.Text = append(c.Text[:at], append([]rune{sep}, c.Text[at:]...)...)
		}
	}
	if c.Text == nil {
		c.Text = []rune{}
	}
	Params(s, &c, info, o)
	return c
}

var (
	alphabetMarksOnce sync.Once
	alphabetMarks     map[string][]rune
	alphabetBases     map[string][]rune
)

// markStack returns a base of the script followed by 2..4 marks of the same script's alphabet.
func markStack(s Source, script string) []rune {
	alphabetMarksOnce.Do(func() {
		alphabetMarks, alphabetBases = map[string][]rune{}, map[string][]rune{}
		for name, rs := range textgen.Alphabets {
			for _, r := range rs {
				if unicode.Is(unicode.M, r) {
					alphabetMarks[name] = append(alphabetMarks[name], r)
				} else if unicode.IsLetter(r) {
					alphabetBases[name] = append(alphabetBases[name], r)
				}
			}
		}
	})
	ms, bs := alphabetMarks[script], alphabetBases[script]
	if len(ms) == 0 || len(bs) == 0 {
		return nil
	}
	out := []rune{bs[s.Intn("stackbase", len(bs))]}
	for k := 2 + s.Intn("stackmarks", 3); k > 0; k-- {
		out = append(out, ms[s.Intn("stackmark", len(ms))])
	}
	return out
}

// ---- generated fonts ----

// DrawSynth generates a case on a generated font (internal/synthfont): the text is made mostly of
// the letters the generated lookups cover, repeated (short, medium and long runs), the parameters
// come from the same decoder as every other case, with the font's feature among the user features
// (on / off / ranged).
func DrawSynth(t *rapid.T, o Opts) Case {
	s := RapidSource{T: t}
	var sp synthfont.Spec
	switch {
	case o.SynthPositioning && s.Intn("synthpositioning", 5) != 0:
		// positioning rules with Device tables (all value-record fields, hinting deltas of the
		// three formats): the generated-rules kind restricted to GPOS
		sp = synthfont.DrawRuleSpec(s)
		for sp.Kind != synthfont.KindRulesGPOS {
			sp = synthfont.DrawRuleSpec(s)
		}
	case o.SynthPositioning:
		sp = synthfont.DrawSpec(s)
		for sp.Kind != synthfont.KindPairClasses {
			sp = synthfont.DrawSpec(s)
		}
	case s.Intn("synthrules", 4) == 0:
		sp = synthfont.DrawRuleSpec(s)
	default:
		sp = synthfont.DrawSpec(s)
	}
	c := Case{Synth: &sp, Font: "synth:" + sp.Kind}
	covered, other := sp.Letters()
	var n int
	switch k := s.Intn("synthlen", 10); {
	case k <= 3:
		n = 1 + s.Intn("synthshort", 8)
	case k <= 7:
		n = 9 + s.Intn("synthmedium", 56)
	default:
		n = 65 + s.Intn("synthlong", 236)
	}
	main := covered[s.Intn("synthmain", len(covered))]
	text := make([]rune, 0, n)
	for len(text) < n {
		switch k := s.Intn("synthpick", 20); {
		case k <= 12:
			text = append(text, main)
		case k <= 16:
			text = append(text, covered[s.Intn("synthcovered", len(covered))])
		case k <= 18:
			text = append(text, other[s.Intn("synthother", len(other))])
		default:
			r := textgen.Hostile[s.Intn("synthhostile", len(textgen.Hostile))]
			text = append(text, r)
		}
	}
	c.Text = cleanRunes(text, o.ValidOnly)
	info := &FaceInfo{Features: sp.FeatureTags(), HasDevice: sp.Kind == synthfont.KindRulesGPOS}
	if sp.Scripts >= 1 {
		info.Alphabets = []string{"latin"}
	}
	Params(s, &c, info, o)
	return c
}

// ---- long runs ----

// markSequences are combining sequences appended to a base: stacks that compose, reorder or
// ligate in many fonts (two marks that AAT/GSUB fonts ligate, canonical reordering pairs, a
// decomposing mark, script marks).
var markSequences = [][]rune{
	{0x0308, 0x0301}, {0x0301}, {0x0308}, {0x0300, 0x0301, 0x0302}, {0x0323, 0x0302}, {0x0327, 0x0301}, {0x0344}, {0x0301, 0x0323},
	{0x064E, 0x0651}, {0x0651, 0x0650}, {0x05BC, 0x05B0}, {0x093C, 0x094D}, {0x0E48, 0x0E33}, {0x0303, 0x0304, 0x0305, 0x0306}, {0x20DD}, {0xFE0F},
}

var ligatingSequences = [][]rune{
	[]rune("fi"), []rune("ffi"), []rune("ff"), []rune("fl"), []rune("ffl"), []rune("ft"), []rune("Th"), []rune("AV"), []rune("To"), []rune("--"), []rune("..."),
	{0x0644, 0x0627}, {0x0644, 0x0644, 0x0647}, {0x0915, 0x094D, 0x0937}, {0x1F1EB, 0x1F1F7}, {0x1F468, 0x200D, 0x1F469},
}

type fontClasses struct{ bases, marks []rune }

var (
	classesMu sync.Mutex
	classes   = map[int]*fontClasses{}
	pairsOf   map[int][]int
)

// classesOf splits the sample of the font's own runes into marks and others.
func classesOf(face int) *fontClasses {
	classesMu.Lock()
	defer classesMu.Unlock()
	if fc, ok := classes[face]; ok {
		return fc
	}
	fc := &fontClasses{}
	for _, r := range textgen.FontRunes(ThePool().All[face].Face.Font, FontPoolSize) {
		if unicode.Is(unicode.M, r) {
			fc.marks = append(fc.marks, r)
		} else {
			fc.bases = append(fc.bases, r)
		}
	}
	classes[face] = fc
	return fc
}

// pairsOfFace lists the upstream texts written for a face.
func pairsOfFace(face int) []int {
	classesMu.Lock()
	defer classesMu.Unlock()
	if pairsOf == nil {
		pairsOf = map[int][]int{}
		for i, pr := range UpstreamPairs() {
			pairsOf[pr.Face] = append(pairsOf[pr.Face], i)
		}
	}
	return pairsOf[face]
}

func cleanRunes(rs []rune, validOnly bool) []rune {
	if !validOnly {
		return rs
	}
	out := make([]rune, len(rs))
	for i, r := range rs {
		if r < 0 || r > 0x10FFFF || r >= 0xD800 && r <= 0xDFFF {
			r = 0xFFFD
		}
		out[i] = r
	}
	return out
}

// longText builds a run of 65..LongMax runes: an optional marks-first head, a body that repeats a
// few short units (one of them dominant, so that long homogeneous stretches occur) with occasional
// stray runes, and a tail that ends the run in a mark cluster or a ligating sequence, so that
// whatever a shaper stacks, counts or looks back over is exercised beyond its internal limits.
func longText(t *rapid.T, s Source, face int, o Opts, must []rune) []rune {
	p := ThePool()
	info := &p.Info[face]
	fc := classesOf(face)
	longMax := o.LongMax
	if longMax < 66 {
		longMax = 600
	}
	var target int
	switch k := s.Intn("longclass", 10); {
	case k <= 5:
		target = 65 + s.Intn("long65", 64)
	case k <= 8:
		target = 129 + s.Intn("long129", 172)
	default:
		target = 301 + s.Intn("long301", 300)
	}
	if target > longMax {
		target = longMax
	}
	alph := []string{"latin"}
	if len(info.Alphabets) > 0 {
		alph = info.Alphabets
	}
	base := func() rune {
		if len(fc.bases) > 0 && s.Intn("basefromfont", 4) != 0 {
			return fc.bases[s.Intn("fontbase", len(fc.bases))]
		}
		a := textgen.Alphabets[alph[s.Intn("basealph", len(alph))]]
		return a[s.Intn("baseletter", len(a))]
	}
	marks := func() []rune {
		if len(fc.marks) > 0 && s.Intn("marksfromfont", 3) == 0 {
			n := 1 + s.Intn("nfontmarks", 3)
			var out []rune
			for i := 0; i < n; i++ {
				out = append(out, fc.marks[s.Intn("fontmark", len(fc.marks))])
			}
			return out
		}
		return markSequences[s.Intn("markseq", len(markSequences))]
	}
	upstream := func() []rune {
		ids := pairsOfFace(face)
		if len(ids) == 0 {
			return textgen.Snippets[s.Intn("snippet", len(textgen.Snippets))]
		}
		tx := UpstreamPairs()[ids[s.Intn("facepair", len(ids))]].Text
		if len(tx) > 16 {
			a := s.Intn("paircut", len(tx)-15)
			tx = tx[a : a+16]
		}
		return tx
	}
	unit := func() []rune {
		switch s.Intn("unitkind", 8) {
		case 0, 1:
			return []rune{base()}
		case 2, 3:
			return append([]rune{base()}, marks()...)
		case 4:
			return textgen.Snippets[s.Intn("snippet", len(textgen.Snippets))]
		case 5:
			return upstream()
		case 6:
			return textgen.Text(t, textgen.Opts{MaxLen: 4, FontPool: fc.bases, Scripts: alph, Hostile: 25, NoInvalid: o.ValidOnly})
		default:
			return ligatingSequences[s.Intn("ligseq", len(ligatingSequences))]
		}
	}
	units := make([][]rune, 2+s.Intn("nunits", 4))
	for i := range units {
		if units[i] = unit(); len(units[i]) == 0 {
			units[i] = []rune{base()}
		}
	}
	if len(must) > 0 {
		if len(must) > 16 {
			must = must[:16]
		}
		units[0] = must
	}
	var out []rune
	if s.Intn("marksfirst", 3) == 0 {
		out = append(out, marks()...)
	}
	for len(out) < target-6 {
		switch k := s.Intn("bodypick", 10); {
		case k <= 5:
			out = append(out, units[0]...)
		case k <= 8:
			out = append(out, units[s.Intn("bodyunit", len(units))]...)
		default:
			if s.Intn("strayhostile", 2) == 0 {
				out = append(out, textgen.Hostile[s.Intn("hostile", len(textgen.Hostile))])
			} else {
				out = append(out, base())
			}
		}
	}
	// tail
	switch s.Intn("tailkind", 5) {
	case 0, 1:
		out = append(append(out, base()), marks()...)
	case 2:
		out = append(out, ligatingSequences[s.Intn("tailligseq", len(ligatingSequences))]...)
	case 3:
		out = append(out, upstream()...)
	default:
		out = append(out, units[s.Intn("tailunit", len(units))]...)
	}
	if s.Intn("afterspace", 3) == 0 {
		out = append(out, ' ', base())
	}
	if len(out) > longMax {
		out = out[:longMax]
	}
	return cleanRunes(append([]rune{}, out...), o.ValidOnly)
}

// WordSeparators is the list documented by shaping.Output.AddWordSpacing (CSS Text 3 word separators).
var WordSeparators = []rune{0x0020, 0x00A0, 0x1361, 0x10100, 0x10101, 0x1039F, 0x1091F}

// Decode turns fuzz input into a case: the face is fontIndex modulo the number of faces, the text
// is the UTF-8 decoding of text where every invalid byte selects a hostile rune, params feeds the
// same parameter decoder the rapid generator uses.
func Decode(fontIndex uint16, params, text []byte, o Opts) Case {
	p := ThePool()
	face := int(fontIndex) % len(p.All)
	f := p.All[face]
	c := Case{Font: f.File, Index: f.Index, Text: []rune{}}
	maxLen := o.MaxLen
	if maxLen <= 0 {
		maxLen = 64
	}
	for len(text) > 0 && len(c.Text) < maxLen {
		r, sz := utf8.DecodeRune(text)
		if r == utf8.RuneError && sz <= 1 {
			r = textgen.Hostile[int(text[0])%len(textgen.Hostile)]
			sz = 1
		}
		c.Text = append(c.Text, r)
		text = text[sz:]
	}
	Params(&ByteSource{B: params}, &c, &p.Info[face], o)
	return c
}
