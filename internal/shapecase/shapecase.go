// Package shapecase holds what the shaping properties C01 and C12 share: the decoded, JSON-able
// description of one shaping call (Case), the rapid generator of cases over the font corpus
// (stratified font draw, text from the font's own runes + script alphabets + hostile runes,
// parameters of DESIGN §1.6), the decoder of fuzz bytes into the same Case, and the executors that
// turn a Case into a call of shaping.(*HarfbuzzShaper).Shape or harfbuzz.(*Buffer).Shape.
//
// Every call uses a fresh shaper / buffer / harfbuzz.Font so that a case is reproducible alone
// (state carried between uses is property C13's business).
package shapecase

import (
	"fmt"
	"runtime/debug"
	"strings"

	"github.com/go-text/typesetting/di"
	"github.com/go-text/typesetting/font"
	ot "github.com/go-text/typesetting/font/opentype"
	"github.com/go-text/typesetting/font/opentype/tables"
	"github.com/go-text/typesetting/harfbuzz"
	"github.com/go-text/typesetting/language"
	"github.com/go-text/typesetting/shaping"
	"golang.org/x/image/math/fixed"

	"verif/internal/corpus"
	"verif/internal/synthfont"
)

const (
	APIShaping  = "shaping"
	APIHarfbuzz = "harfbuzz"
)

// Feature is one user feature. Ranged features exist only at the harfbuzz level.
type Feature struct {
	Tag    uint32 `json:"tag"`
	Name   string `json:"name,omitempty"` // informational (Tag printed), ignored when decoding
	Value  uint32 `json:"value"`
	Ranged bool   `json:"ranged,omitempty"`
	Start  int    `json:"start,omitempty"`
	End    int    `json:"end,omitempty"`
}

// Case is one shaping call, decoded.
type Case struct {
	API string `json:"api"`
	// Synth, when set, describes a generated font (internal/synthfont) used instead of a corpus
	// face; Font is then "synth:<kind>" (informational) and Index 0.
	Synth *synthfont.Spec `json:"synth,omitempty"`
	Font  string          `json:"font"`  // corpus-relative path
	Index int             `json:"index"` // face index in the file
	Text  []rune          `json:"text"`  // rune values as integers (may be invalid scalar values)
	// requested run; for API "harfbuzz" always 0 <= RunStart <= RunEnd <= len(Text)
	RunStart int `json:"run_start"`
	RunEnd   int `json:"run_end"`

	Dir    uint8 `json:"dir"`    // 0 LTR, 1 RTL, 2 TTB, 3 BTT
	Orient uint8 `json:"orient"` // vertical only: 0 not set, 1 upright, 2 sideways

	ScriptGuess bool      `json:"script_guess"` // script = first strong script of the run (else Common)
	Script      uint32    `json:"script"`       // used when !ScriptGuess
	Language    string    `json:"language"`
	Size        int32     `json:"size"` // fixed.Int26_6
	Features    []Feature `json:"features"`

	// harfbuzz level only
	ClusterLevel uint8   `json:"cluster_level,omitempty"`
	Flags        uint16  `json:"flags,omitempty"`
	Invisible    uint32  `json:"invisible,omitempty"`
	NotFound     uint32  `json:"not_found,omitempty"`
	GuessProps   bool    `json:"guess_props,omitempty"` // leave Props zero and call GuessSegmentProperties
	UpemScale    bool    `json:"upem_scale,omitempty"`  // keep the default scale (= upem) instead of ceil(Size)<<6
	Ptem         float32 `json:"ptem,omitempty"`

	// Alternative public ways of filling the buffer (harfbuzz level only). Fill "" is one
	// AddRunes(Text, RunStart, RunEnd-RunStart) call. Fill "addrune" appends the runes of the run one by
	// one with Buffer.AddRune(r, Clusters[i]) — caller-chosen cluster values, non-decreasing, possibly
	// repeated, not starting at 0 — optionally after installing the pre-context with a zero-length
	// AddRunes call (CtxPre) and followed by a zero-length AddRunes call that installs the post-context
	// (CtxPost); without them the buffer has no context. Fill "split" adds the run by consecutive
	// AddRunes calls cut at the offsets Split (relative to RunStart).
	Fill     string `json:"fill,omitempty"`
	Clusters []int  `json:"clusters,omitempty"`
	CtxPre   bool   `json:"ctx_pre,omitempty"`
	CtxPost  bool   `json:"ctx_post,omitempty"`
	Split    []int  `json:"split,omitempty"`
	// YScale, when not 0, is a vertical font scale different from the horizontal one (harfbuzz level)
	YScale int32 `json:"y_scale,omitempty"`

	// Font instance (both levels): variation settings in design units (Vars) or normalized
	// coordinates by axis order (Coords), and pixels per em (hinting Device tables apply). When any
	// is set the case gets its own font.Face over the shared font.
	Vars   []Var `json:"vars,omitempty"`
	Coords []int `json:"coords,omitempty"`
	XPpem  int   `json:"x_ppem,omitempty"`
	YPpem  int   `json:"y_ppem,omitempty"`

	// C12 only
	WordSpacing   int32 `json:"word_spacing,omitempty"`
	LetterSpacing int32 `json:"letter_spacing,omitempty"`
	StartRun      bool  `json:"start_run,omitempty"`
	EndRun        bool  `json:"end_run,omitempty"`
}

// Var is one variation setting in design units.
type Var struct {
	Tag   string  `json:"tag"`
	Value float32 `json:"value"`
}

// HasInstance tells whether the case carries font instance settings.
func (c *Case) HasInstance() bool {
	return len(c.Vars) > 0 || len(c.Coords) > 0 || c.XPpem != 0 || c.YPpem != 0
}

// TagName renders a tag for humans.
func TagName(t uint32) string {
	b := []byte{byte(t >> 24), byte(t >> 16), byte(t >> 8), byte(t)}
	for _, c := range b {
		if c < 0x20 || c > 0x7e {
			return fmt.Sprintf("0x%08x", t)
		}
	}
	return string(b)
}

// Face resolves the face of the case: the shared corpus (or generated) face, or — when the case
// carries instance settings — a fresh font.Face over the same font with the settings applied.
func (c *Case) Face() (*font.Face, error) {
	base, err := c.baseFace()
	if err != nil || !c.HasInstance() {
		return base, err
	}
	face := font.NewFace(base.Font)
	switch {
	case len(c.Vars) > 0:
		vs := make([]font.Variation, 0, len(c.Vars))
		for _, v := range c.Vars {
			if len(v.Tag) != 4 {
				return nil, fmt.Errorf("variation tag %q", v.Tag)
			}
			vs = append(vs, font.Variation{Tag: ot.MustNewTag(v.Tag), Value: v.Value})
		}
		face.SetVariations(vs)
	case len(c.Coords) > 0:
		cs := make([]tables.Coord, len(c.Coords))
		for i, v := range c.Coords {
			cs[i] = tables.Coord(v)
		}
		face.SetCoords(cs)
	}
	if c.XPpem != 0 || c.YPpem != 0 {
		face.SetPpem(uint16(c.XPpem), uint16(c.YPpem))
	}
	return face, nil
}

func (c *Case) baseFace() (*font.Face, error) {
	if c.Synth != nil {
		return synthfont.Face(*c.Synth)
	}
	faces, err := corpus.Faces(c.Font)
	if err != nil {
		return nil, err
	}
	if c.Index < 0 || c.Index >= len(faces) {
		return nil, fmt.Errorf("face index %d out of range for %s", c.Index, c.Font)
	}
	return faces[c.Index], nil
}

// InputClusters returns the cluster value the caller gives to every rune of the run (harfbuzz
// level): Clusters in "addrune" mode, the rune indices otherwise.
func (c *Case) InputClusters() []int {
	if c.Fill == FillAddRune {
		return c.Clusters
	}
	out := make([]int, 0, c.RunEnd-c.RunStart)
	for i := c.RunStart; i < c.RunEnd; i++ {
		out = append(out, i)
	}
	return out
}

// fill puts the run into the buffer the way the case says.
func (c *Case) fill(buf *harfbuzz.Buffer) {
	switch c.Fill {
	case FillAddRune:
		if len(c.Clusters) != c.RunEnd-c.RunStart {
			panic("shapecase: addrune case without one cluster per rune (generator bug)")
		}
		if c.CtxPre {
			buf.AddRunes(c.Text, c.RunStart, 0) // empty buffer, no item: installs the pre-context only
		}
		for i, r := range c.Text[c.RunStart:c.RunEnd] {
			buf.AddRune(r, c.Clusters[i])
		}
		if c.CtxPost {
			buf.AddRunes(c.Text, c.RunEnd, 0) // no item: installs the post-context only
		}
	case FillSplit:
		at := c.RunStart
		for _, cut := range c.Split {
			next := c.RunStart + cut
			if next < at || next > c.RunEnd {
				panic("shapecase: split offsets out of order (generator bug)")
			}
			buf.AddRunes(c.Text, at, next-at)
			at = next
		}
		buf.AddRunes(c.Text, at, c.RunEnd-at)
	default:
		buf.AddRunes(c.Text, c.RunStart, c.RunEnd-c.RunStart)
	}
}

// Fill modes.
const (
	FillAddRune = "addrune"
	FillSplit   = "split"
)

// Direction is the di.Direction of the case.
func (c *Case) Direction() di.Direction {
	d := di.Direction(c.Dir & 3)
	if d.IsVertical() && c.Orient != 0 {
		d.SetSideways(c.Orient == 2)
	}
	return d
}

// Backward tells whether the reading direction of the case runs toward the top left (RTL, BTT).
func (c *Case) Backward() bool { return c.Dir&1 != 0 }

// InRange tells whether the requested bounds lie within the text (0 <= start <= end <= len).
func (c *Case) InRange() bool {
	return 0 <= c.RunStart && c.RunStart <= c.RunEnd && c.RunEnd <= len(c.Text)
}

// Clamped returns the run shaping.Shape documents to shape: swapped when end < start, then each
// bound clamped to [0, len(Text)].
func (c *Case) Clamped() (start, end int) {
	start, end = c.RunStart, c.RunEnd
	if end < start {
		start, end = end, start
	}
	cl := func(v int) int {
		if v < 0 {
			return 0
		}
		if v > len(c.Text) {
			return len(c.Text)
		}
		return v
	}
	return cl(start), cl(end)
}

// GuessScript is the first strong, known script of the run, Common if there is none (the rule of
// harfbuzz.Buffer.GuessSegmentProperties).
func GuessScript(text []rune) language.Script {
	for _, r := range text {
		s := language.LookupScript(r)
		if s.Strong() && s != language.Unknown {
			return s
		}
	}
	return language.Common
}

// ResolvedScript is the script passed to the shaper.
func (c *Case) ResolvedScript() language.Script {
	if !c.ScriptGuess {
		return language.Script(c.Script)
	}
	s, e := c.Clamped()
	return GuessScript(c.Text[s:e])
}

// Input builds the shaping.Input of the case.
func (c *Case) Input(face *font.Face) shaping.Input {
	in := shaping.Input{
		Text:      c.Text,
		RunStart:  c.RunStart,
		RunEnd:    c.RunEnd,
		Direction: c.Direction(),
		Face:      face,
		Size:      fixed.Int26_6(c.Size),
		Script:    c.ResolvedScript(),
		Language:  language.Language(c.Language),
	}
	for _, f := range c.Features {
		in.FontFeatures = append(in.FontFeatures, shaping.FontFeature{Tag: ot.Tag(f.Tag), Value: f.Value})
	}
	return in
}

// Scale is the harfbuzz font scale shaping.Shape uses for the size of the case.
func (c *Case) Scale() int32 { return int32(fixed.Int26_6(c.Size).Ceil()) << 6 }

// Panic describes a recovered panic.
type Panic struct {
	Value string
	Site  string // innermost frames inside the library, "func (file:line) < func (file:line) ..."
	Stack string
}

func (p *Panic) String() string { return fmt.Sprintf("panic: %s\n  at %s", p.Value, p.Site) }

// Guard runs f and converts a panic into a *Panic.
func Guard(f func()) (p *Panic) {
	defer func() {
		if r := recover(); r != nil {
			st := string(debug.Stack())
			p = &Panic{Value: fmt.Sprint(r), Site: site(st), Stack: st}
		}
	}()
	f()
	return nil
}

// site extracts the innermost library frames of a stack trace.
func site(stack string) string {
	lines := strings.Split(stack, "\n")
	var out []string
	for i := 0; i+1 < len(lines) && len(out) < 4; i++ {
		fn := lines[i]
		loc := strings.TrimSpace(lines[i+1])
		if !strings.HasPrefix(fn, "github.com/go-text/typesetting/") || !strings.Contains(loc, ".go:") {
			continue
		}
		fn = strings.TrimPrefix(fn, "github.com/go-text/typesetting/")
		if k := strings.LastIndex(fn, "("); k > 0 {
			fn = fn[:k]
		}
		if k := strings.Index(loc, " +0x"); k > 0 {
			loc = loc[:k]
		}
		if k := strings.LastIndex(loc, "/"); k >= 0 {
			loc = loc[k+1:]
		}
		out = append(out, fn+" ("+loc+")")
		i++
	}
	return strings.Join(out, " < ")
}

// RunShaping executes the case through a fresh shaping.HarfbuzzShaper.
func RunShaping(c *Case, face *font.Face) (out shaping.Output, p *Panic) {
	p = Guard(func() {
		var sh shaping.HarfbuzzShaper
		out = sh.Shape(c.Input(face))
	})
	return out, p
}

// HBResult is what the harfbuzz-level call exposes.
type HBResult struct {
	Info      []harfbuzz.GlyphInfo
	Pos       []harfbuzz.GlyphPosition
	Direction harfbuzz.Direction // buffer direction after shaping (after guessing when GuessProps)
}

// RunHarfbuzz executes the case through a fresh harfbuzz.Buffer and harfbuzz.Font. The bounds of the
// case must be in range (AddRunes requires it).
func RunHarfbuzz(c *Case, face *font.Face) (res HBResult, p *Panic) {
	if !c.InRange() {
		panic("shapecase: harfbuzz-level case with out-of-range bounds (generator bug)")
	}
	p = Guard(func() {
		buf := harfbuzz.NewBuffer()
		buf.ClusterLevel = harfbuzz.ClusterLevel(c.ClusterLevel)
		buf.Flags = harfbuzz.ShappingOptions(c.Flags)
		buf.Invisible = harfbuzz.GID(c.Invisible)
		buf.NotFound = harfbuzz.GID(c.NotFound)
		c.fill(buf)
		if c.GuessProps {
			buf.GuessSegmentProperties()
		} else {
			buf.Props.Direction = c.Direction().Harfbuzz()
			buf.Props.Script = c.ResolvedScript()
			buf.Props.Language = language.Language(c.Language)
		}
		f := harfbuzz.NewFont(face)
		if !c.UpemScale {
			f.XScale = c.Scale()
			f.YScale = f.XScale
		}
		if c.YScale != 0 {
			f.YScale = c.YScale
		}
		f.Ptem = c.Ptem
		var feats []harfbuzz.Feature
		for _, ft := range c.Features {
			hf := harfbuzz.Feature{Tag: ot.Tag(ft.Tag), Value: ft.Value, Start: harfbuzz.FeatureGlobalStart, End: harfbuzz.FeatureGlobalEnd}
			if ft.Ranged {
				hf.Start, hf.End = ft.Start, ft.End
			}
			feats = append(feats, hf)
		}
		buf.Shape(f, feats)
		res = HBResult{Info: buf.Info, Pos: buf.Pos, Direction: buf.Props.Direction}
	})
	return res, p
}
