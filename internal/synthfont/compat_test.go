package synthfont

import (
	"crypto/sha256"
	"encoding/hex"
	"testing"
)

// the bytes of the fonts of the original six kinds are pinned: Spec JSON recorded in replay files
// of C01/C13/C17 must keep building the same font
const compatDigest = "629c9ad02a171f52ef14213dfda3bf325fa98de75d79633d8e58e73210f47239"

func TestCompatDigest(t *testing.T) {
	s := &seq{i: 11}
	h := sha256.New()
	for i := 0; i < 1500; i++ {
		sp := DrawSpec(s)
		b, err := Build(sp)
		if err != nil {
			t.Fatalf("%+v: %v", sp, err)
		}
		h.Write(b)
	}
	got := hex.EncodeToString(h.Sum(nil))
	if got != compatDigest {
		t.Fatalf("digest of 1500 generated fonts changed: %s", got)
	}
}
