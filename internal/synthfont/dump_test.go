package synthfont

import (
	"encoding/json"
	"fmt"
	"os"
	"testing"
)

// TestDump (development aid): SYNTH_SPEC=<json> prints the lookups the loader parsed.
func TestDump(t *testing.T) {
	s := os.Getenv("SYNTH_SPEC")
	if s == "" {
		t.Skip("set SYNTH_SPEC")
	}
	var sp Spec
	if err := json.Unmarshal([]byte(s), &sp); err != nil {
		t.Fatal(err)
	}
	f, err := Face(sp)
	if err != nil {
		t.Fatal(err)
	}
	for name, l := range map[string]interface{}{"GSUB": f.Font.GSUB, "GPOS": f.Font.GPOS} {
		fmt.Printf("%s %+v\n", name, l)
	}
	if p := os.Getenv("SYNTH_OUT"); p != "" {
		b, _ := Build(sp)
		os.WriteFile(p, b, 0o644)
	}
}
