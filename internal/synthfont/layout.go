package synthfont

import (
	"encoding/binary"
	"fmt"
	"sort"
)

// This file is a small serializer for OpenType Layout tables (GSUB / GPOS): scripts, features,
// lookups and the subtable formats the generators need. Everything it writes is valid per the
// OpenType specification (sorted coverage, sorted script/feature records, 16-bit offsets checked).

type buf struct{ b []byte }

func (w *buf) u16(v int) {
	w.b = binary.BigEndian.AppendUint16(w.b, uint16(v))
}
func (w *buf) u32(v uint32) { w.b = binary.BigEndian.AppendUint32(w.b, v) }
func (w *buf) put16(at, v int) {
	binary.BigEndian.PutUint16(w.b[at:], uint16(v))
}
func (w *buf) len() int { return len(w.b) }

// errOffset is returned when a structure does not fit 16-bit offsets.
var errOffset = fmt.Errorf("synthfont: table too large for 16-bit offsets")

// appendAt appends child blobs after a parent header and patches their offsets (relative to
// base) into the slots; identical blobs are shared.
func (w *buf) children(base int, slots []int, blobs [][]byte) error {
	seen := map[string]int{}
	for i, bl := range blobs {
		off, ok := seen[string(bl)]
		if !ok {
			off = w.len() - base
			seen[string(bl)] = off
			w.b = append(w.b, bl...)
		}
		if off > 0xFFFF {
			return errOffset
		}
		w.put16(slots[i], off)
	}
	return nil
}

func tag(s string) uint32 {
	for len(s) < 4 {
		s += " "
	}
	return uint32(s[0])<<24 | uint32(s[1])<<16 | uint32(s[2])<<8 | uint32(s[3])
}

// Coverage returns a coverage table (format 1) for the glyph set (sorted, deduplicated).
func Coverage(glyphs ...uint16) []byte {
	gs := sortedSet(glyphs)
	var w buf
	w.u16(1)
	w.u16(len(gs))
	for _, g := range gs {
		w.u16(int(g))
	}
	return w.b
}

func sortedSet(glyphs []uint16) []uint16 {
	gs := append([]uint16(nil), glyphs...)
	sort.Slice(gs, func(i, j int) bool { return gs[i] < gs[j] })
	out := gs[:0]
	for i, g := range gs {
		if i == 0 || g != gs[i-1] {
			out = append(out, g)
		}
	}
	return out
}

// ---- GSUB subtables ----

// SingleSubst2 maps from[i] -> to[i] (GSUB type 1 format 2).
func SingleSubst2(from, to []uint16) []byte {
	m := map[uint16]uint16{}
	for i, g := range from {
		m[g] = to[i]
	}
	gs := sortedSet(from)
	var w buf
	w.u16(2)
	w.u16(0) // coverage offset
	w.u16(len(gs))
	for _, g := range gs {
		w.u16(int(m[g]))
	}
	w.children(0, []int{2}, [][]byte{Coverage(gs...)})
	return w.b
}

// SingleSubst1 adds delta (mod 65536) to every covered glyph (GSUB type 1 format 1).
func SingleSubst1(glyphs []uint16, delta int) []byte {
	var w buf
	w.u16(1)
	w.u16(6)
	w.u16(delta)
	w.b = append(w.b, Coverage(glyphs...)...)
	return w.b
}

// glyphLists serializes "coverage + one glyph list per covered glyph" subtables (Multiple and
// Alternate substitution share the layout).
func glyphLists(from []uint16, lists [][]uint16) ([]byte, error) {
	m := map[uint16][]uint16{}
	for i, g := range from {
		m[g] = lists[i]
	}
	gs := sortedSet(from)
	var w buf
	w.u16(1)
	w.u16(0)
	w.u16(len(gs))
	slots := []int{2}
	blobs := [][]byte{Coverage(gs...)}
	for _, g := range gs {
		slots = append(slots, w.len())
		w.u16(0)
		var s buf
		s.u16(len(m[g]))
		for _, x := range m[g] {
			s.u16(int(x))
		}
		blobs = append(blobs, s.b)
	}
	if err := w.children(0, slots, blobs); err != nil {
		return nil, err
	}
	return w.b, nil
}

// MultipleSubst maps from[i] -> seqs[i] (GSUB type 2).
func MultipleSubst(from []uint16, seqs [][]uint16) ([]byte, error) { return glyphLists(from, seqs) }

// AlternateSubst maps from[i] -> alternates alts[i] (GSUB type 3).
func AlternateSubst(from []uint16, alts [][]uint16) ([]byte, error) { return glyphLists(from, alts) }

// Ligature is one ligature: Components (at least one glyph) -> Glyph.
type Ligature struct {
	Components []uint16
	Glyph      uint16
}

// LigatureSubst builds GSUB type 4; ligatures sharing a first component keep their order.
func LigatureSubst(ligs []Ligature) ([]byte, error) {
	byFirst := map[uint16][]Ligature{}
	var firsts []uint16
	for _, l := range ligs {
		if len(l.Components) == 0 {
			return nil, fmt.Errorf("synthfont: ligature without components")
		}
		f := l.Components[0]
		if _, ok := byFirst[f]; !ok {
			firsts = append(firsts, f)
		}
		byFirst[f] = append(byFirst[f], l)
	}
	gs := sortedSet(firsts)
	var w buf
	w.u16(1)
	w.u16(0)
	w.u16(len(gs))
	slots := []int{2}
	blobs := [][]byte{Coverage(gs...)}
	for _, g := range gs {
		slots = append(slots, w.len())
		w.u16(0)
		var set buf
		set.u16(len(byFirst[g]))
		var ls []int
		var lb [][]byte
		for _, l := range byFirst[g] {
			ls = append(ls, set.len())
			set.u16(0)
			var x buf
			x.u16(int(l.Glyph))
			x.u16(len(l.Components))
			for _, c := range l.Components[1:] {
				x.u16(int(c))
			}
			lb = append(lb, x.b)
		}
		if err := set.children(0, ls, lb); err != nil {
			return nil, err
		}
		blobs = append(blobs, set.b)
	}
	if err := w.children(0, slots, blobs); err != nil {
		return nil, err
	}
	return w.b, nil
}

// SeqLookup is a sequence lookup record: apply lookup Lookup at input position Index.
type SeqLookup struct{ Index, Lookup int }

// Context3 builds a (chaining) context subtable in format 3 (coverage based). With chain == false
// backtrack and lookahead must be empty (GSUB type 5 / GPOS type 7); otherwise GSUB type 6 / GPOS type
// 8. backtrack[0] is the glyph closest to the input, as in the file format. Each element is a glyph set.
func Context3(chain bool, backtrack, input, lookahead [][]uint16, records []SeqLookup) ([]byte, error) {
	if len(input) == 0 {
		return nil, fmt.Errorf("synthfont: context without input")
	}
	var w buf
	w.u16(3)
	var slots []int
	var blobs [][]byte
	covs := func(sets [][]uint16) {
		for _, set := range sets {
			slots = append(slots, w.len())
			w.u16(0)
			blobs = append(blobs, Coverage(set...))
		}
	}
	if chain {
		w.u16(len(backtrack))
		covs(backtrack)
		w.u16(len(input))
		covs(input)
		w.u16(len(lookahead))
		covs(lookahead)
		w.u16(len(records))
	} else {
		if len(backtrack)+len(lookahead) != 0 {
			return nil, fmt.Errorf("synthfont: plain context with backtrack/lookahead")
		}
		w.u16(len(input))
		w.u16(len(records))
		covs(input)
	}
	for _, r := range records {
		w.u16(r.Index)
		w.u16(r.Lookup)
	}
	if err := w.children(0, slots, blobs); err != nil {
		return nil, err
	}
	return w.b, nil
}

// ReverseChain builds GSUB type 8: from[i] -> to[i] when preceded by backtrack (closest first) and
// followed by lookahead.
func ReverseChain(from, to []uint16, backtrack, lookahead [][]uint16) ([]byte, error) {
	m := map[uint16]uint16{}
	for i, g := range from {
		m[g] = to[i]
	}
	gs := sortedSet(from)
	var w buf
	w.u16(1)
	slots := []int{w.len()}
	w.u16(0)
	blobs := [][]byte{Coverage(gs...)}
	for _, sets := range [][][]uint16{backtrack, lookahead} {
		w.u16(len(sets))
		for _, set := range sets {
			slots = append(slots, w.len())
			w.u16(0)
			blobs = append(blobs, Coverage(set...))
		}
	}
	w.u16(len(gs))
	for _, g := range gs {
		w.u16(int(m[g]))
	}
	if err := w.children(0, slots, blobs); err != nil {
		return nil, err
	}
	return w.b, nil
}

// ---- GPOS subtables ----

// classDef2 builds a class definition (format 2) from glyph -> class (class 0 entries are omitted).
func classDef2(classes map[uint16]int) []byte {
	var gs []uint16
	for g, c := range classes {
		if c != 0 {
			gs = append(gs, g)
		}
	}
	gs = sortedSet(gs)
	var w buf
	w.u16(2)
	w.u16(len(gs))
	for _, g := range gs {
		w.u16(int(g))
		w.u16(int(g))
		w.u16(classes[g])
	}
	return w.b
}

// PairPosClasses builds GPOS type 2 format 2: glyph classes on both sides, XAdvance adjustment of
// the first glyph given by adjust(class1, class2).
func PairPosClasses(class1, class2 map[uint16]int, n1, n2 int, adjust func(c1, c2 int) int) ([]byte, error) {
	var first []uint16
	for g := range class1 {
		first = append(first, g)
	}
	var w buf
	w.u16(2)
	w.u16(0)      // coverage
	w.u16(0x0004) // valueFormat1: XAdvance
	w.u16(0)      // valueFormat2
	w.u16(0)      // classDef1
	w.u16(0)      // classDef2
	w.u16(n1)
	w.u16(n2)
	for i := 0; i < n1; i++ {
		for j := 0; j < n2; j++ {
			w.u16(adjust(i, j))
		}
	}
	if err := w.children(0, []int{2, 8, 10}, [][]byte{Coverage(first...), classDef2(class1), classDef2(class2)}); err != nil {
		return nil, err
	}
	return w.b, nil
}

// SinglePos1 builds GPOS type 1 format 1: the same XAdvance adjustment for every covered glyph.
func SinglePos1(glyphs []uint16, xAdvance int) []byte {
	var w buf
	w.u16(1)
	w.u16(8)
	w.u16(0x0004)
	w.u16(xAdvance)
	w.b = append(w.b, Coverage(glyphs...)...)
	return w.b
}

// ---- lookups, features, scripts ----

// Lookup is one lookup of the lookup list.
type Lookup struct {
	Type      int // GSUB: 1 single, 2 multiple, 3 alternate, 4 ligature, 5 context, 6 chain, 8 reverse; GPOS: 1 single, 2 pair, 7 context, 8 chain
	Flag      int // lookup flags (0x0002 IgnoreBaseGlyphs, 0x0004 IgnoreLigatures, 0x0008 IgnoreMarks, 0x0010 UseMarkFilteringSet, 0xFF00 MarkAttachmentType)
	Subtables [][]byte
	MarkSet   int // index of the GDEF mark glyph set, written when Flag has 0x0010
}

// Feature lists the lookups of one feature tag.
type Feature struct {
	Tag     string
	Lookups []int
}

// Layout is a GSUB or GPOS table: every feature is attached to the default language system of
// every script.
type Layout struct {
	Scripts  []string // e.g. "DFLT", "latn"
	Features []Feature
	Lookups  []Lookup
}

// Bytes serializes the table (version 1.0).
func (l *Layout) Bytes() ([]byte, error) {
	feats := append([]Feature(nil), l.Features...)
	sort.SliceStable(feats, func(i, j int) bool { return tag(feats[i].Tag) < tag(feats[j].Tag) })
	scripts := append([]string(nil), l.Scripts...)
	sort.Slice(scripts, func(i, j int) bool { return tag(scripts[i]) < tag(scripts[j]) })
	for _, f := range feats {
		for _, li := range f.Lookups {
			if li < 0 || li >= len(l.Lookups) {
				return nil, fmt.Errorf("synthfont: feature %s names lookup %d of %d", f.Tag, li, len(l.Lookups))
			}
		}
	}

	// script list: all scripts share one Script table (default LangSys with every feature)
	var sl buf
	sl.u16(len(scripts))
	var slots []int
	for _, s := range scripts {
		sl.u32(tag(s))
		slots = append(slots, sl.len())
		sl.u16(0)
	}
	var st buf
	st.u16(4) // defaultLangSys offset
	st.u16(0) // langSysCount
	st.u16(0) // lookupOrder
	st.u16(0xFFFF)
	st.u16(len(feats))
	for i := range feats {
		st.u16(i)
	}
	blobs := make([][]byte, len(scripts))
	for i := range blobs {
		blobs[i] = st.b
	}
	if err := sl.children(0, slots, blobs); err != nil {
		return nil, err
	}

	// feature list
	var fl buf
	fl.u16(len(feats))
	slots, blobs = nil, nil
	for _, f := range feats {
		fl.u32(tag(f.Tag))
		slots = append(slots, fl.len())
		fl.u16(0)
		var ft buf
		ft.u16(0)
		ft.u16(len(f.Lookups))
		for _, li := range f.Lookups {
			ft.u16(li)
		}
		blobs = append(blobs, ft.b)
	}
	// features with identical lookup lists must not share a table position-dependently: sharing is legal
	if err := fl.children(0, slots, blobs); err != nil {
		return nil, err
	}

	// lookup list
	var ll buf
	ll.u16(len(l.Lookups))
	slots, blobs = nil, nil
	for _, lk := range l.Lookups {
		slots = append(slots, ll.len())
		ll.u16(0)
		var lb buf
		lb.u16(lk.Type)
		lb.u16(lk.Flag)
		lb.u16(len(lk.Subtables))
		var ss []int
		for range lk.Subtables {
			ss = append(ss, lb.len())
			lb.u16(0)
		}
		if lk.Flag&0x0010 != 0 {
			lb.u16(lk.MarkSet) // markFilteringSet follows the subtable offsets
		}
		if err := lb.children(0, ss, lk.Subtables); err != nil {
			return nil, err
		}
		blobs = append(blobs, lb.b)
	}
	// lookups are never shared (two identical lookups are still two entries of the list)
	for i, bl := range blobs {
		off := ll.len()
		if off > 0xFFFF {
			return nil, errOffset
		}
		ll.put16(slots[i], off)
		ll.b = append(ll.b, bl...)
	}

	var out buf
	out.u16(1)
	out.u16(0)
	out.u16(10)
	out.u16(10 + sl.len())
	out.u16(10 + sl.len() + fl.len())
	if 10+sl.len()+fl.len() > 0xFFFF {
		return nil, errOffset
	}
	out.b = append(out.b, sl.b...)
	out.b = append(out.b, fl.b...)
	out.b = append(out.b, ll.b...)
	return out.b, nil
}
