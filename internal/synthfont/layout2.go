package synthfont

import (
	"fmt"
	"sort"
)

// Further subtable formats (glyph- and class-based contexts, the GPOS attachment types) and a
// small GDEF, used by the generated-rules kinds of rules.go.

// CtxRule is one (chaining) context rule of format 1 (Back/Input/Look are glyph ids) or format 2
// (they are classes). Back[0] is the element closest to the input. No Records: an "ignore" rule.
type CtxRule struct {
	Back, Input, Look []uint16
	Records           []SeqLookup
}

func (r CtxRule) bytes(chain bool) []byte {
	var w buf
	if chain {
		w.u16(len(r.Back))
		for _, x := range r.Back {
			w.u16(int(x))
		}
		w.u16(len(r.Input))
		for _, x := range r.Input[1:] {
			w.u16(int(x))
		}
		w.u16(len(r.Look))
		for _, x := range r.Look {
			w.u16(int(x))
		}
		w.u16(len(r.Records))
	} else {
		w.u16(len(r.Input))
		w.u16(len(r.Records))
		for _, x := range r.Input[1:] {
			w.u16(int(x))
		}
	}
	for _, rec := range r.Records {
		w.u16(rec.Index)
		w.u16(rec.Lookup)
	}
	return w.b
}

func ruleSet(chain bool, rules []CtxRule) ([]byte, error) {
	var w buf
	w.u16(len(rules))
	var slots []int
	var blobs [][]byte
	for _, r := range rules {
		slots = append(slots, w.len())
		w.u16(0)
		blobs = append(blobs, r.bytes(chain))
	}
	// (rules are not shared even when identical: their order is significant, their bytes are not)
	for i, bl := range blobs {
		off := w.len()
		if off > 0xFFFF {
			return nil, errOffset
		}
		w.put16(slots[i], off)
		w.b = append(w.b, bl...)
	}
	return w.b, nil
}

func checkRules(chain bool, rules []CtxRule) error {
	for _, r := range rules {
		if len(r.Input) == 0 {
			return fmt.Errorf("synthfont: context rule without input")
		}
		if !chain && len(r.Back)+len(r.Look) != 0 {
			return fmt.Errorf("synthfont: plain context rule with backtrack/lookahead")
		}
	}
	return nil
}

// Context1 builds a (chaining) context subtable in format 1: rules on glyph ids, grouped by their
// first input glyph (the order of the rules of one glyph is kept).
func Context1(chain bool, rules []CtxRule) ([]byte, error) {
	if err := checkRules(chain, rules); err != nil {
		return nil, err
	}
	byFirst := map[uint16][]CtxRule{}
	var firsts []uint16
	for _, r := range rules {
		byFirst[r.Input[0]] = append(byFirst[r.Input[0]], r)
		firsts = append(firsts, r.Input[0])
	}
	gs := sortedSet(firsts)
	var w buf
	w.u16(1)
	w.u16(0)
	w.u16(len(gs))
	slots := []int{2}
	blobs := [][]byte{Coverage(gs...)}
	for _, g := range gs {
		slots = append(slots, w.len())
		w.u16(0)
		rs, err := ruleSet(chain, byFirst[g])
		if err != nil {
			return nil, err
		}
		blobs = append(blobs, rs)
	}
	if err := w.children(0, slots, blobs); err != nil {
		return nil, err
	}
	return w.b, nil
}

// Context2 builds a (chaining) context subtable in format 2: rules on classes. cov is the coverage
// (first input glyphs); inClasses classifies input glyphs, backClasses/lookClasses the context
// (chaining only). Rules are grouped by the class of their first input element.
func Context2(chain bool, cov []uint16, backClasses, inClasses, lookClasses map[uint16]int, rules []CtxRule) ([]byte, error) {
	if err := checkRules(chain, rules); err != nil {
		return nil, err
	}
	nclasses := 1
	for _, c := range inClasses {
		if c+1 > nclasses {
			nclasses = c + 1
		}
	}
	for _, r := range rules {
		// (a rule set for a class no glyph has is legal and never used)
		if c := int(r.Input[0]); c+1 > nclasses {
			nclasses = c + 1
		}
	}
	byClass := make([][]CtxRule, nclasses)
	for _, r := range rules {
		byClass[r.Input[0]] = append(byClass[r.Input[0]], r)
	}
	var w buf
	w.u16(2)
	slots := []int{w.len()}
	w.u16(0)
	blobs := [][]byte{Coverage(cov...)}
	if chain {
		for _, cd := range []map[uint16]int{backClasses, inClasses, lookClasses} {
			slots = append(slots, w.len())
			w.u16(0)
			blobs = append(blobs, classDef2(cd))
		}
	} else {
		slots = append(slots, w.len())
		w.u16(0)
		blobs = append(blobs, classDef2(inClasses))
	}
	w.u16(nclasses)
	var setSlots []int
	for range byClass {
		setSlots = append(setSlots, w.len())
		w.u16(0) // NULL when the class has no rule
	}
	for c, rs := range byClass {
		if len(rs) == 0 {
			continue
		}
		b, err := ruleSet(chain, rs)
		if err != nil {
			return nil, err
		}
		slots = append(slots, setSlots[c])
		blobs = append(blobs, b)
	}
	if err := w.children(0, slots, blobs); err != nil {
		return nil, err
	}
	return w.b, nil
}

// ---- GPOS ----

// Value is a value record; the fields present are chosen by a value format (1 XPlacement,
// 2 YPlacement, 4 XAdvance, 8 YAdvance, 0x10/0x20/0x40/0x80 the Device tables of the four).
type Value struct {
	XPla, YPla, XAdv, YAdv int
	Dev                    [4]*Device // hinting Device tables (nil: NULL offset)
}

// Device is a hinting Device table: Deltas[i] is the adjustment in pixels at Start+i pixels per
// em; Format 1, 2, 3 packs them in 2, 4, 8 bits.
type Device struct {
	Start, Format int
	Deltas        []int
}

func (d *Device) bytes() []byte {
	var w buf
	w.u16(d.Start)
	w.u16(d.Start + len(d.Deltas) - 1)
	w.u16(d.Format)
	bits := 1 << d.Format // 2, 4, 8
	per := 16 / bits
	for i := 0; i < len(d.Deltas); i += per {
		word := 0
		for k := 0; k < per; k++ {
			v := 0
			if i+k < len(d.Deltas) {
				v = d.Deltas[i+k]
			}
			word |= (v & (1<<bits - 1)) << (16 - bits*(k+1))
		}
		w.u16(word)
	}
	return w.b
}

// put writes the record; the offsets of its Device tables (relative to the table children() is
// later called for) are collected in slots/blobs.
func (v Value) put(w *buf, format int, slots *[]int, blobs *[][]byte) {
	for bit, x := range []int{v.XPla, v.YPla, v.XAdv, v.YAdv} {
		if format&(1<<bit) != 0 {
			w.u16(x)
		}
	}
	for k := 0; k < 4; k++ {
		if format&(0x10<<k) != 0 {
			at := w.len()
			w.u16(0)
			if v.Dev[k] != nil && slots != nil {
				*slots = append(*slots, at)
				*blobs = append(*blobs, v.Dev[k].bytes())
			}
		}
	}
}

// SinglePos2 builds GPOS type 1 format 2: one value per covered glyph.
func SinglePos2(glyphs []uint16, format int, values []Value) []byte {
	m := map[uint16]Value{}
	for i, g := range glyphs {
		m[g] = values[i]
	}
	gs := sortedSet(glyphs)
	var w buf
	w.u16(2)
	w.u16(0)
	w.u16(format)
	w.u16(len(gs))
	slots, blobs := []int{2}, [][]byte{Coverage(gs...)}
	for _, g := range gs {
		m[g].put(&w, format, &slots, &blobs)
	}
	w.children(0, slots, blobs)
	return w.b
}

// SinglePosValue builds GPOS type 1 format 1 with any value format.
func SinglePosValue(glyphs []uint16, format int, v Value) []byte {
	var w buf
	w.u16(1)
	w.u16(0)
	w.u16(format)
	slots, blobs := []int{2}, [][]byte{Coverage(glyphs...)}
	v.put(&w, format, &slots, &blobs)
	w.children(0, slots, blobs)
	return w.b
}

// Pair is one glyph pair of PairPos format 1.
type Pair struct {
	First, Second uint16
	V1, V2        Value
}

// PairPos1 builds GPOS type 2 format 1 (a later duplicate of a pair is dropped).
func PairPos1(format1, format2 int, pairs []Pair) ([]byte, error) {
	byFirst := map[uint16][]Pair{}
	var firsts []uint16
	for _, p := range pairs {
		dup := false
		for _, q := range byFirst[p.First] {
			dup = dup || q.Second == p.Second
		}
		if !dup {
			byFirst[p.First] = append(byFirst[p.First], p)
			firsts = append(firsts, p.First)
		}
	}
	gs := sortedSet(firsts)
	var w buf
	w.u16(1)
	w.u16(0)
	w.u16(format1 & 0xF) // (no Device tables in format 1: their offsets are relative to the pair set)
	w.u16(format2 & 0xF)
	w.u16(len(gs))
	slots := []int{2}
	blobs := [][]byte{Coverage(gs...)}
	for _, g := range gs {
		ps := byFirst[g]
		sort.Slice(ps, func(i, j int) bool { return ps[i].Second < ps[j].Second })
		slots = append(slots, w.len())
		w.u16(0)
		var s buf
		s.u16(len(ps))
		for _, p := range ps {
			s.u16(int(p.Second))
			p.V1.put(&s, format1&0xF, nil, nil)
			p.V2.put(&s, format2&0xF, nil, nil)
		}
		blobs = append(blobs, s.b)
	}
	if err := w.children(0, slots, blobs); err != nil {
		return nil, err
	}
	return w.b, nil
}

// PairPos2 builds GPOS type 2 format 2 with both value formats; value(c1, c2) gives the records.
func PairPos2(cov []uint16, class1, class2 map[uint16]int, n1, n2, format1, format2 int, value func(c1, c2 int) (Value, Value)) ([]byte, error) {
	var w buf
	w.u16(2)
	w.u16(0)
	w.u16(format1)
	w.u16(format2)
	w.u16(0)
	w.u16(0)
	w.u16(n1)
	w.u16(n2)
	slots, blobs := []int{2, 8, 10}, [][]byte{Coverage(cov...), classDef2(class1), classDef2(class2)}
	for i := 0; i < n1; i++ {
		for j := 0; j < n2; j++ {
			v1, v2 := value(i, j)
			v1.put(&w, format1, &slots, &blobs)
			v2.put(&w, format2, &slots, &blobs)
		}
	}
	if err := w.children(0, slots, blobs); err != nil {
		return nil, err
	}
	return w.b, nil
}

// Anchor is an attachment point (format 1); nil stands for a NULL offset.
type Anchor struct{ X, Y int }

func (a *Anchor) bytes() []byte {
	var w buf
	w.u16(1)
	w.u16(a.X)
	w.u16(a.Y)
	return w.b
}

// CursivePos builds GPOS type 3: entry and exit anchors (either may be nil) per glyph.
func CursivePos(glyphs []uint16, entry, exit []*Anchor) ([]byte, error) {
	type ee struct{ entry, exit *Anchor }
	m := map[uint16]ee{}
	for i, g := range glyphs {
		m[g] = ee{entry[i], exit[i]}
	}
	gs := sortedSet(glyphs)
	var w buf
	w.u16(1)
	w.u16(0)
	w.u16(len(gs))
	slots := []int{2}
	blobs := [][]byte{Coverage(gs...)}
	for _, g := range gs {
		for _, a := range []*Anchor{m[g].entry, m[g].exit} {
			at := w.len()
			w.u16(0)
			if a != nil {
				slots = append(slots, at)
				blobs = append(blobs, a.bytes())
			}
		}
	}
	if err := w.children(0, slots, blobs); err != nil {
		return nil, err
	}
	return w.b, nil
}

// MarkRecord gives the class and the anchor of one mark glyph.
type MarkRecord struct {
	Glyph  uint16
	Class  int
	Anchor Anchor
}

// MarkAttach builds GPOS type 4 (mark to base) or 6 (mark to mark): the layouts are the same.
// baseAnchors[i][c] is the anchor of bases[i] for mark class c (nil: none).
func MarkAttach(marks []MarkRecord, nclasses int, bases []uint16, baseAnchors [][]*Anchor) ([]byte, error) {
	ms := append([]MarkRecord(nil), marks...)
	sort.Slice(ms, func(i, j int) bool { return ms[i].Glyph < ms[j].Glyph })
	var markGlyphs []uint16
	for i, m := range ms {
		if i > 0 && ms[i-1].Glyph == m.Glyph {
			return nil, fmt.Errorf("synthfont: mark listed twice")
		}
		if m.Class >= nclasses {
			return nil, fmt.Errorf("synthfont: mark class out of range")
		}
		markGlyphs = append(markGlyphs, m.Glyph)
	}
	var ma buf
	ma.u16(len(ms))
	var slots []int
	var blobs [][]byte
	for _, m := range ms {
		ma.u16(m.Class)
		slots = append(slots, ma.len())
		ma.u16(0)
		a := m.Anchor
		blobs = append(blobs, a.bytes())
	}
	if err := ma.children(0, slots, blobs); err != nil {
		return nil, err
	}
	idx := map[uint16]int{}
	for i, g := range bases {
		idx[g] = i
	}
	bs := sortedSet(bases)
	var ba buf
	ba.u16(len(bs))
	slots, blobs = nil, nil
	for _, g := range bs {
		row := baseAnchors[idx[g]]
		for c := 0; c < nclasses; c++ {
			at := ba.len()
			ba.u16(0)
			if c < len(row) && row[c] != nil {
				slots = append(slots, at)
				blobs = append(blobs, row[c].bytes())
			}
		}
	}
	if err := ba.children(0, slots, blobs); err != nil {
		return nil, err
	}
	var w buf
	w.u16(1)
	w.u16(0)
	w.u16(0)
	w.u16(nclasses)
	w.u16(0)
	w.u16(0)
	if err := w.children(0, []int{2, 4, 8, 10}, [][]byte{Coverage(markGlyphs...), Coverage(bs...), ma.b, ba.b}); err != nil {
		return nil, err
	}
	return w.b, nil
}

// ---- GDEF ----

// GDEF builds a version 1.2 table: glyph classes (1 base, 2 ligature, 3 mark), mark attachment
// classes and mark glyph sets.
func GDEF(glyphClass, markAttachClass map[uint16]int, markSets [][]uint16) ([]byte, error) {
	var w buf
	w.u16(1)
	w.u16(2)
	w.u16(0) // glyphClassDef
	w.u16(0) // attachList
	w.u16(0) // ligCaretList
	w.u16(0) // markAttachClassDef
	w.u16(0) // markGlyphSetsDef
	var ms buf
	ms.u16(1)
	ms.u16(len(markSets))
	base := 4 + 4*len(markSets)
	var covs []byte
	for _, set := range markSets {
		ms.u32(uint32(base + len(covs)))
		covs = append(covs, Coverage(set...)...)
	}
	ms.b = append(ms.b, covs...)
	if err := w.children(0, []int{4, 10, 12}, [][]byte{classDef2(glyphClass), classDef2(markAttachClass), ms.b}); err != nil {
		return nil, err
	}
	return w.b, nil
}
