package synthfont

// Generated-rules kinds: the layout is not a fixed shape scaled by a few numbers (the six original
// kinds) but a random rule system drawn from Spec.Seed by a fixed pseudo-random generator, so that
// the Spec stays a small comparable JSON record. The knobs that matter for triage (number of
// top-level lookups, nesting depth of contextual lookups, feature, scripts) are Spec fields and
// shrink; everything else follows from the seed.
//
// Glyph repertoire (Roboto): letters a-h are what texts are made of, A-H and the digits 0-3 are
// products of substitutions, U+0305 U+033F U+0332 U+0333 are marks. The kinds bring their own GDEF
// (bases, ligatures, marks; two mark attachment classes; two mark glyph sets).

import "fmt"

const (
	// GSUB: contextual and chaining rules of formats 1, 2 and 3 with drawn backtrack/input/lookahead
	// lengths, rules without action ("ignore") before less constrained ones, nested to Spec.Depth
	// contextual levels, ending in Single / Multiple (empty sequence = deletion, 1 -> k) / Ligature /
	// Alternate lookups; drawn lookup flags (IgnoreMarks, IgnoreBaseGlyphs, IgnoreLigatures, mark
	// attachment type, mark filtering set)
	KindRulesGSUB = "gsub-rules"
	// GPOS: SinglePos, PairPos 1 and 2 (both value records), CursivePos, MarkBase, MarkMark with drawn
	// anchors, chained positioning with lookahead; plus (half of the fonts) a small GSUB of the
	// above kind below it
	KindRulesGPOS = "gpos-rules"
)

// RuleKinds lists the generated-rules kinds (not part of Kinds: DrawSpec keeps its distribution).
var RuleKinds = []string{KindRulesGSUB, KindRulesGPOS}

var ruleFeaturesGSUB = []string{"ccmp", "liga", "calt", "rlig", "locl", "clig", "rclt", "ss01", "dlig"}
var ruleFeaturesGPOS = []string{"kern", "mark", "mkmk", "curs", "dist", "abvm", "ss01"}

// DrawRuleSpec draws a Spec of one of the generated-rules kinds.
func DrawRuleSpec(s Chooser) Spec {
	sp := Spec{Kind: RuleKinds[s.Intn("rulekind", len(RuleKinds))]}
	if sp.Kind == KindRulesGSUB {
		sp.Feature = ruleFeaturesGSUB[s.Intn("rulefeature", len(ruleFeaturesGSUB))]
	} else {
		sp.Feature = ruleFeaturesGPOS[s.Intn("rulefeature", len(ruleFeaturesGPOS))]
	}
	sp.Scripts = s.Intn("rulescripts", 3)
	sp.N = 1 + s.Intn("ruletop", 4)
	sp.Depth = 1 + s.Intn("ruledepth", 10)
	sp.Seed = 1 + int64(s.Intn("ruleseed", 1<<30))
	if sp.Kind == KindRulesGPOS && s.Intn("rulemix", 2) == 0 {
		sp.Mix = 1
	}
	return sp
}

// rule letters
var (
	ruleLetters  = []rune("abcdefgh")
	ruleProducts = []rune("ABCDEFGH")
	ruleLigs     = []rune("0123")
	// marks without a precomposed form with any of the letters (the normaliser would otherwise
	// bring glyphs into the buffer the generated tables do not know): two above (ccc 230), two below
	// (ccc 220)
	ruleMarks = []rune{0x0305, 0x033F, 0x0332, 0x0333}
	// the other characters texts contain (Spec.Letters): separators, an uncovered letter, a product,
	// default ignorables
	ruleExtras = []rune{' ', '-', 'x', 'A', 0x200D, 0x200C, 0x034F, 0x00AD}
)

func isRuleKind(k string) bool { return k == KindRulesGSUB || k == KindRulesGPOS }

// splitmix64: fixed, so that a Spec means the same font for ever
type prng struct{ x uint64 }

func (p *prng) next() uint64 {
	p.x += 0x9E3779B97F4A7C15
	z := p.x
	z = (z ^ (z >> 30)) * 0xBF58476D1CE4E5B9
	z = (z ^ (z >> 27)) * 0x94D049BB133111EB
	return z ^ (z >> 31)
}
func (p *prng) n(n int) int {
	if n <= 1 {
		return 0
	}
	return int(p.next() % uint64(n))
}
func (p *prng) of(xs []uint16) uint16 { return xs[p.n(len(xs))] }
func (p *prng) subset(xs []uint16, min, max int) []uint16 {
	k := min + p.n(max-min+1)
	if k > len(xs) {
		k = len(xs)
	}
	perm := append([]uint16(nil), xs...)
	for i := len(perm) - 1; i > 0; i-- {
		j := p.n(i + 1)
		perm[i], perm[j] = perm[j], perm[i]
	}
	return perm[:k]
}

type ruleGlyphs struct {
	letters, products, ligs, marks []uint16
	every                          []uint16 // every glyph a text of Letters() can put in the buffer, .notdef included
}

func ruleRepertoire() ruleGlyphs {
	conv := func(rs []rune) []uint16 {
		var out []uint16
		for _, r := range rs {
			if x, ok := baseGlyph[r]; ok && x != 0 {
				out = append(out, x)
			}
		}
		return out
	}
	rg := ruleGlyphs{letters: conv(ruleLetters), products: conv(ruleProducts), ligs: conv(ruleLigs), marks: conv(ruleMarks)}
	rg.every = append(rg.every, 0)
	for _, l := range [][]uint16{rg.letters, rg.products, rg.ligs, rg.marks, conv(ruleExtras)} {
		rg.every = append(rg.every, l...)
	}
	return rg
}

func (rg ruleGlyphs) gdef() ([]byte, error) {
	class := map[uint16]int{}
	for _, x := range rg.letters {
		class[x] = 1
	}
	for _, x := range rg.products {
		class[x] = 1
	}
	for _, x := range rg.ligs {
		class[x] = 2
	}
	attach := map[uint16]int{}
	for i, x := range rg.marks {
		class[x] = 3
		attach[x] = 1 + i/2
	}
	half := (len(rg.marks) + 1) / 2
	return GDEF(class, attach, [][]uint16{rg.marks[:half], rg.marks[half:]})
}

var ruleFlags = []int{0, 0, 0, 0, 0x0008, 0x0008, 0x0002, 0x0004, 0x0010, 0x0010, 0x0100, 0x0200, 0x0008 | 0x0004}

func (p *prng) flag() (flag, set int) {
	flag = ruleFlags[p.n(len(ruleFlags))]
	if flag&0x10 != 0 {
		set = p.n(2)
	}
	return
}

var ctxLengths = []int{0, 0, 0, 1, 1, 1, 1, 2, 2, 3}

// rulesGSUB draws a GSUB table. depth contextual levels lie on the way from a top-level lookup to
// an action lookup.
func (sp Spec) rulesGSUB(p *prng, rg ruleGlyphs, feature string) (*Layout, error) {
	l := &Layout{Scripts: sp.scripts()}
	all := append(append([]uint16(nil), rg.letters...), rg.products...)
	anyGlyph := append(append([]uint16(nil), all...), rg.marks...)
	ntop := sp.N
	if ntop < 1 {
		ntop = 1
	}
	depth := sp.Depth
	if depth < 1 {
		depth = 1
	}
	// lookup indexes: [0, ntop) top level; [ntop, ntop+depth-1) the nested contextual chain;
	// then the action lookups
	chainStart := ntop
	actionStart := ntop + depth - 1
	nactions := 2 + p.n(4)
	action := func() int { return actionStart + p.n(nactions) }
	next := func(level int) int { // what contextual level `level` (1-based) calls
		if level >= depth {
			return action()
		}
		return chainStart + level - 1
	}

	// one contextual lookup; wide: its first input covers every letter (the nested levels must
	// match whatever the level above left at the position)
	context := func(level int, wide bool) (Lookup, error) {
		chain := p.n(3) != 0
		format := 1 + p.n(3)
		flag, set := 0, 0
		if !wide {
			flag, set = p.flag()
		}
		typ := 5
		if chain {
			typ = 6
		}
		length := func() int { return ctxLengths[p.n(len(ctxLengths))] }
		nrules := 1 + p.n(3)
		if wide {
			nrules = 1
		}
		type shape struct {
			back, input, look int
			records           []SeqLookup
		}
		var shapes []shape
		for i := 0; i < nrules; i++ {
			sh := shape{input: 1 + p.n(3)}
			if wide {
				// the nested levels are permissive (one input glyph, seldom a context), so that a
				// match at the top usually runs down the whole chain
				sh.input = 1
				if p.n(5) == 0 {
					sh.input = 2
				}
			}
			if chain {
				sh.back, sh.look = length(), length()
				if wide {
					sh.back, sh.look = 0, 0
					if p.n(5) == 0 {
						sh.back = 1
					}
					if p.n(5) == 0 {
						sh.look = 1
					}
				}
			}
			nrec := 1 + p.n(2)
			if !wide && i < nrules-1 && p.n(3) == 0 {
				nrec = 0 // "ignore": a matched rule without action shadows the later rules
			}
			for k := 0; k < nrec; k++ {
				idx := p.n(sh.input)
				if wide {
					idx = 0
				}
				sh.records = append(sh.records, SeqLookup{Index: idx, Lookup: next(level)})
			}
			shapes = append(shapes, sh)
		}
		// from the most to the least constrained: an earlier (longer) rule may shadow a later one
		for i := 0; i < len(shapes); i++ {
			for j := i + 1; j < len(shapes); j++ {
				if shapes[j].back+shapes[j].input+shapes[j].look > shapes[i].back+shapes[i].input+shapes[i].look {
					shapes[i], shapes[j] = shapes[j], shapes[i]
				}
			}
		}
		var st []byte
		var err error
		switch format {
		case 3:
			// one rule per subtable
			var sts [][]byte
			for _, sh := range shapes {
				sets := func(n int, first bool) [][]uint16 {
					out := make([][]uint16, n)
					for i := range out {
						if wide && first && i == 0 {
							out[i] = all
						} else if p.n(4) == 0 {
							out[i] = p.subset(anyGlyph, 1, 3)
						} else {
							out[i] = p.subset(rg.letters, 1, 4)
						}
					}
					return out
				}
				b, err := Context3(chain, sets(sh.back, false), sets(sh.input, true), sets(sh.look, false), sh.records)
				if err != nil {
					return Lookup{}, err
				}
				sts = append(sts, b)
			}
			return Lookup{Type: typ, Flag: flag, MarkSet: set, Subtables: sts}, nil
		case 1:
			var rules []CtxRule
			firsts := rg.letters
			if wide {
				firsts = all
			} else {
				firsts = p.subset(rg.letters, 1, 3)
			}
			for _, first := range firsts {
				for _, sh := range shapes {
					seq := func(n int) []uint16 {
						out := make([]uint16, n)
						for i := range out {
							out[i] = p.of(rg.letters)
							if p.n(8) == 0 {
								out[i] = p.of(anyGlyph)
							}
						}
						return out
					}
					r := CtxRule{Back: seq(sh.back), Input: seq(sh.input), Look: seq(sh.look), Records: sh.records}
					r.Input[0] = first
					rules = append(rules, r)
				}
			}
			st, err = Context1(chain, rules)
		default:
			// classes: a partition of the letters in 1-3 classes (+ class 0 for the rest)
			ncl := 2 + p.n(3)
			classes := map[uint16]int{}
			for _, x := range rg.letters {
				classes[x] = 1 + p.n(ncl-1)
			}
			if p.n(3) == 0 {
				for _, x := range rg.marks {
					classes[x] = 1 + p.n(ncl-1)
				}
			}
			cov := rg.letters
			if wide {
				cov = all
				for _, x := range rg.products {
					classes[x] = 1 + p.n(ncl-1)
				}
			}
			var rules []CtxRule
			for c := 1; c < ncl; c++ {
				for _, sh := range shapes {
					seq := func(n int) []uint16 {
						out := make([]uint16, n)
						for i := range out {
							out[i] = uint16(p.n(ncl))
							if wide || p.n(3) != 0 {
								out[i] = uint16(1 + p.n(ncl-1))
							}
						}
						return out
					}
					r := CtxRule{Back: seq(sh.back), Input: seq(sh.input), Look: seq(sh.look), Records: sh.records}
					r.Input[0] = uint16(c)
					rules = append(rules, r)
				}
			}
			st, err = Context2(chain, cov, classes, classes, classes, rules)
		}
		if err != nil {
			return Lookup{}, err
		}
		return Lookup{Type: typ, Flag: flag, MarkSet: set, Subtables: [][]byte{st}}, nil
	}

	for i := 0; i < ntop; i++ {
		// mostly contextual; sometimes a plain action or a reverse chain at top level
		switch k := p.n(8); {
		case k == 0 && depth == 1:
			lk, err := sp.ruleAction(p, rg)
			if err != nil {
				return nil, err
			}
			l.Lookups = append(l.Lookups, lk)
		case k == 1 && depth == 1:
			from := p.subset(rg.letters, 1, 3)
			to := make([]uint16, len(from))
			for j := range to {
				to[j] = p.of(all)
			}
			sets := func(n int) [][]uint16 {
				out := make([][]uint16, n)
				for j := range out {
					out[j] = p.subset(rg.letters, 1, 4)
				}
				return out
			}
			st, err := ReverseChain(from, to, sets(p.n(3)), sets(p.n(3)))
			if err != nil {
				return nil, err
			}
			flag, set := p.flag()
			l.Lookups = append(l.Lookups, Lookup{Type: 8, Flag: flag, MarkSet: set, Subtables: [][]byte{st}})
		default:
			lk, err := context(1, false)
			if err != nil {
				return nil, err
			}
			l.Lookups = append(l.Lookups, lk)
		}
	}
	for level := 2; level <= depth; level++ {
		lk, err := context(level, true)
		if err != nil {
			return nil, err
		}
		l.Lookups = append(l.Lookups, lk)
	}
	for i := 0; i < nactions; i++ {
		lk, err := sp.ruleAction(p, rg)
		if err != nil {
			return nil, err
		}
		l.Lookups = append(l.Lookups, lk)
	}
	top := make([]int, ntop)
	for i := range top {
		top[i] = i
	}
	l.Features = []Feature{{Tag: feature, Lookups: top}}
	return l, nil
}

// ruleAction draws a non-contextual GSUB lookup on the letters (and, for some, their products).
func (sp Spec) ruleAction(p *prng, rg ruleGlyphs) (Lookup, error) {
	all := append(append([]uint16(nil), rg.letters...), rg.products...)
	flag, set := 0, 0
	if p.n(4) == 0 {
		flag, set = p.flag()
	}
	from := p.subset(all, 2, len(all))
	switch p.n(8) {
	case 0, 1: // single
		to := make([]uint16, len(from))
		for i := range to {
			to[i] = p.of(all)
		}
		return Lookup{Type: 1, Flag: flag, MarkSet: set, Subtables: [][]byte{SingleSubst2(from, to)}}, nil
	case 2, 3, 4: // multiple: empty sequence (deletion), 1, 2 or 3 glyphs
		seqs := make([][]uint16, len(from))
		for i := range seqs {
			n := []int{0, 0, 1, 2, 2, 3}[p.n(6)]
			for k := 0; k < n; k++ {
				x := p.of(all)
				if p.n(6) == 0 && len(rg.marks) > 0 {
					x = p.of(rg.marks)
				}
				seqs[i] = append(seqs[i], x)
			}
		}
		st, err := MultipleSubst(from, seqs)
		return Lookup{Type: 2, Flag: flag, MarkSet: set, Subtables: [][]byte{st}}, err
	case 5, 6: // ligature
		var ligs []Ligature
		for i, n := 0, 1+p.n(4); i < n; i++ {
			comps := make([]uint16, 2+p.n(2))
			for k := range comps {
				comps[k] = p.of(rg.letters)
			}
			out := p.of(all)
			if len(rg.ligs) > 0 && p.n(2) == 0 {
				out = p.of(rg.ligs)
			}
			ligs = append(ligs, Ligature{Components: comps, Glyph: out})
		}
		st, err := LigatureSubst(ligs)
		return Lookup{Type: 4, Flag: flag, MarkSet: set, Subtables: [][]byte{st}}, err
	default: // alternate
		alts := make([][]uint16, len(from))
		for i := range alts {
			for k, n := 0, 1+p.n(3); k < n; k++ {
				alts[i] = append(alts[i], p.of(all))
			}
		}
		st, err := AlternateSubst(from, alts)
		return Lookup{Type: 3, Flag: flag, MarkSet: set, Subtables: [][]byte{st}}, err
	}
}

func (p *prng) value(format int) Value {
	v := Value{}
	// hinting Device tables (used with a ppem set): deltas for 8-20 pixels per em; with a design
	// value of zero next to them the adjustment exists at those sizes only
	for k := 0; k < 4; k++ {
		if format&(0x10<<k) != 0 && p.n(5) != 0 {
			f := 1 + p.n(3)
			lim := []int{0, 2, 8, 128}[f]
			d := &Device{Start: 8 + p.n(4), Format: f}
			for i, n := 0, 4+p.n(10); i < n; i++ {
				d.Deltas = append(d.Deltas, p.n(2*lim)-lim)
			}
			v.Dev[k] = d
		}
	}
	zero := format&0xF0 != 0 && p.n(2) == 0
	d := func() int {
		if zero {
			return 0
		}
		return (p.n(401) - 200) & 0xFFFF
	}
	if format&1 != 0 {
		v.XPla = d()
	}
	if format&2 != 0 {
		v.YPla = d()
	}
	if format&4 != 0 {
		v.XAdv = d()
	}
	if format&8 != 0 {
		v.YAdv = d()
	}
	return v
}

var valueFormats = []int{4, 4, 1, 2, 5, 3, 8, 6, 15, 0x44, 0x44, 0x40, 0x11, 0x22, 0x33, 0x88}

// rulesGPOS draws a GPOS table.
func (sp Spec) rulesGPOS(p *prng, rg ruleGlyphs) (*Layout, error) {
	l := &Layout{Scripts: sp.scripts()}
	all := append(append([]uint16(nil), rg.letters...), rg.products...)
	ntop := sp.N
	if ntop < 1 {
		ntop = 1
	}
	anchor := func() *Anchor {
		return &Anchor{X: (p.n(1201) - 100) & 0xFFFF, Y: (p.n(1601) - 300) & 0xFFFF}
	}
	single := func(glyphs []uint16) Lookup {
		f := valueFormats[p.n(len(valueFormats))]
		if p.n(2) == 0 {
			return Lookup{Type: 1, Subtables: [][]byte{SinglePosValue(glyphs, f, p.value(f))}}
		}
		vs := make([]Value, len(glyphs))
		for i := range vs {
			vs[i] = p.value(f)
		}
		return Lookup{Type: 1, Subtables: [][]byte{SinglePos2(glyphs, f, vs)}}
	}
	if sp.Mix == 1 {
		// its own generator: the lookups drawn below are those of the same Spec without the mix
		lks, err := sp.cursiveMix(&prng{x: uint64(sp.Seed)*0xD1342543DE82EF95 + 77}, rg)
		if err != nil {
			return nil, err
		}
		l.Lookups = append(l.Lookups, lks...)
	}
	nforced := len(l.Lookups)
	nested := -1 // index of a SinglePos lookup for chained positioning, appended at the end
	var pending []func(nestedIndex int) (Lookup, error)
	for i := 0; i < ntop; i++ {
		flag, set := p.flag()
		var lk Lookup
		var err error
		switch k := p.n(9); k {
		case 0:
			lk = single(p.subset(all, 1, 6))
		case 1: // pair format 1
			f1, f2 := valueFormats[p.n(len(valueFormats))], []int{0, 0, 4, 1, 2}[p.n(5)]
			var pairs []Pair
			for j, n := 0, 1+p.n(8); j < n; j++ {
				pairs = append(pairs, Pair{First: p.of(rg.letters), Second: p.of(rg.letters), V1: p.value(f1), V2: p.value(f2)})
			}
			var st []byte
			st, err = PairPos1(f1, f2, pairs)
			lk = Lookup{Type: 2, Subtables: [][]byte{st}}
		case 2: // pair format 2 (class 0 on both sides exists), possibly two subtables
			var sts [][]byte
			for s, ns := 0, 1+p.n(2); s < ns; s++ {
				// every glyph a text can produce has a non-zero second class: a second glyph of
				// class 0 is where libharfbuzz 6.0.0 (applies the record, flags the pair) and the
				// upstream the port tracks (returns false) are known to differ; that skew is the
				// corpus fonts' business (C05 skew:pairpos2-second-class-zero), not this generator's
				n1, n2 := 1+p.n(3), 2+p.n(2)
				c1, c2 := map[uint16]int{}, map[uint16]int{}
				for _, x := range rg.every {
					c2[x] = 1 + p.n(n2-1)
				}
				for _, x := range rg.letters {
					c1[x] = p.n(n1)
				}
				f1, f2 := valueFormats[p.n(len(valueFormats))], []int{0, 0, 4, 1, 2}[p.n(5)]
				vals := map[[2]int][2]Value{}
				for a := 0; a < n1; a++ {
					for b := 0; b < n2; b++ {
						vals[[2]int{a, b}] = [2]Value{p.value(f1), p.value(f2)}
					}
				}
				var st []byte
				st, err = PairPos2(p.subset(rg.letters, 2, len(rg.letters)), c1, c2, n1, n2, f1, f2, func(a, b int) (Value, Value) {
					v := vals[[2]int{a, b}]
					return v[0], v[1]
				})
				if err != nil {
					return nil, err
				}
				sts = append(sts, st)
			}
			lk = Lookup{Type: 2, Subtables: sts}
		case 3, 4: // cursive
			gs := p.subset(rg.letters, 2, len(rg.letters))
			entry, exit := make([]*Anchor, len(gs)), make([]*Anchor, len(gs))
			for j := range gs {
				if p.n(5) != 0 {
					entry[j] = anchor()
				}
				if p.n(5) != 0 {
					exit[j] = anchor()
				}
			}
			var st []byte
			st, err = CursivePos(gs, entry, exit)
			lk = Lookup{Type: 3, Subtables: [][]byte{st}}
			if p.n(2) == 0 {
				flag |= 0x0001 // RightToLeft
			}
		case 5, 6: // mark to base
			if len(rg.marks) == 0 {
				lk = single(rg.letters)
				break
			}
			ncl := 1 + p.n(2)
			var marks []MarkRecord
			for _, m := range p.subset(rg.marks, 1, len(rg.marks)) {
				marks = append(marks, MarkRecord{Glyph: m, Class: p.n(ncl), Anchor: *anchor()})
			}
			bases := p.subset(all, 2, len(all))
			rows := make([][]*Anchor, len(bases))
			for j := range rows {
				for c := 0; c < ncl; c++ {
					if p.n(6) == 0 {
						rows[j] = append(rows[j], nil)
					} else {
						rows[j] = append(rows[j], anchor())
					}
				}
			}
			var st []byte
			st, err = MarkAttach(marks, ncl, bases, rows)
			lk = Lookup{Type: 4, Subtables: [][]byte{st}}
			flag &^= 0x0008 | 0x0010 | 0xFF00 // the lookup is about marks
		case 7: // mark to mark
			if len(rg.marks) < 2 {
				lk = single(rg.letters)
				break
			}
			ncl := 1 + p.n(2)
			var marks []MarkRecord
			for _, m := range p.subset(rg.marks, 1, len(rg.marks)) {
				marks = append(marks, MarkRecord{Glyph: m, Class: p.n(ncl), Anchor: *anchor()})
			}
			bases := p.subset(rg.marks, 1, len(rg.marks))
			rows := make([][]*Anchor, len(bases))
			for j := range rows {
				for c := 0; c < ncl; c++ {
					rows[j] = append(rows[j], anchor())
				}
			}
			var st []byte
			st, err = MarkAttach(marks, ncl, bases, rows)
			lk = Lookup{Type: 6, Subtables: [][]byte{st}}
			flag &^= 0x0008 | 0x0010 | 0xFF00
		default: // chained positioning with backtrack / lookahead calling a SinglePos
			nested = 0
			back, look := ctxLengths[p.n(len(ctxLengths))], 1+p.n(2)
			in := 1 + p.n(2)
			sets := func(n int) [][]uint16 {
				out := make([][]uint16, n)
				for j := range out {
					out[j] = p.subset(rg.letters, 1, 4)
				}
				return out
			}
			b, i2, la := sets(back), sets(in), sets(look)
			idx := p.n(in)
			pending = append(pending, func(nestedIndex int) (Lookup, error) {
				st, err := Context3(true, b, i2, la, []SeqLookup{{Index: idx, Lookup: nestedIndex}})
				return Lookup{Type: 8, Subtables: [][]byte{st}}, err
			})
			lk = Lookup{Type: -1}
		}
		if err != nil {
			return nil, err
		}
		lk.Flag, lk.MarkSet = flag, set
		l.Lookups = append(l.Lookups, lk)
	}
	if nested >= 0 {
		nestedIndex := len(l.Lookups)
		l.Lookups = append(l.Lookups, single(rg.letters))
		k := 0
		for i := range l.Lookups {
			if l.Lookups[i].Type == -1 {
				lk, err := pending[k](nestedIndex)
				if err != nil {
					return nil, err
				}
				lk.Flag, lk.MarkSet = l.Lookups[i].Flag, l.Lookups[i].MarkSet
				l.Lookups[i] = lk
				k++
			}
		}
	}
	top := make([]int, nforced+ntop)
	for i := range top {
		top[i] = i
	}
	l.Features = []Feature{{Tag: sp.Feature, Lookups: top}}
	return l, nil
}

// cursiveMix (Spec.Mix 1): lookups in which attachments with a ZERO offset, attachments with a
// non-zero offset and plain placements meet:
//   - a CursivePos over all letters in which a "flat" subset shares one cross-stream coordinate
//     in every entry and exit anchor (a pair of flat letters attaches with offset zero; a pair with
//     another letter does not), with or without the RightToLeft flag;
//   - SinglePos (and sometimes PairPos) cross-stream placements on letters of both subsets: a
//     cursive parent or mark base moved by a lookup that attaches nothing;
//   - usually a MarkBase over the letters, so that a text can have a real attachment somewhere
//     else (after a space) or nowhere at all.
//
// Whether any glyph of a buffer made an attachment is buffer-wide state of the positioning pass:
// the whole text and a piece differ in it.
func (sp Spec) cursiveMix(q *prng, rg ruleGlyphs) ([]Lookup, error) {
	letters := rg.letters
	flat := q.subset(letters, 3, 6)
	isFlat := map[uint16]bool{}
	for _, x := range flat {
		isFlat[x] = true
	}
	y0 := (q.n(1201) - 300) & 0xFFFF
	x0 := (q.n(1001) - 100) & 0xFFFF
	flatBoth := q.n(3) == 0 // the main-direction coordinate is shared too (vertical text: X is cross-stream)
	rnd := func() *Anchor {
		return &Anchor{X: (q.n(1201) - 100) & 0xFFFF, Y: (q.n(1601) - 300) & 0xFFFF}
	}
	entry, exit := make([]*Anchor, len(letters)), make([]*Anchor, len(letters))
	for i, g := range letters {
		if isFlat[g] {
			entry[i], exit[i] = &Anchor{X: (q.n(400)) & 0xFFFF, Y: y0}, &Anchor{X: (600 + q.n(600)) & 0xFFFF, Y: y0}
			if flatBoth {
				entry[i].X, exit[i].X = x0, x0
			}
			continue
		}
		if q.n(6) != 0 {
			entry[i] = rnd()
		}
		if q.n(6) != 0 {
			exit[i] = rnd()
		}
	}
	cst, err := CursivePos(letters, entry, exit)
	if err != nil {
		return nil, err
	}
	cursive := Lookup{Type: 3, Subtables: [][]byte{cst}}
	if q.n(2) == 0 {
		cursive.Flag |= 0x0001 // RightToLeft
	}
	if q.n(3) == 0 {
		cursive.Flag |= 0x0008 // IgnoreMarks: a mark between two letters does not break the chain
	}
	// placements on letters of both subsets
	moved := append(q.subset(flat, 1, len(flat)), q.subset(letters, 1, 3)...)
	f := []int{2, 2, 3, 1, 2}[q.n(5)]
	vals := make([]Value, len(moved))
	for i := range vals {
		v := Value{}
		if f&1 != 0 {
			v.XPla = (q.n(301) - 150) & 0xFFFF
		}
		if f&2 != 0 {
			v.YPla = (50 + q.n(300)) & 0xFFFF
			if q.n(2) == 0 {
				v.YPla = (-50 - q.n(300)) & 0xFFFF
			}
		}
		vals[i] = v
	}
	place := Lookup{Type: 1, Subtables: [][]byte{SinglePos2(moved, f, vals)}}
	out := []Lookup{place, cursive}
	if q.n(2) == 0 {
		out = []Lookup{cursive, place}
	}
	if q.n(2) == 0 {
		var pairs []Pair
		for i, n := 0, 2+q.n(6); i < n; i++ {
			pairs = append(pairs, Pair{First: q.of(letters), Second: q.of(letters), V1: Value{YPla: (q.n(401) - 200) & 0xFFFF, XPla: (q.n(101) - 50) & 0xFFFF}})
		}
		pst, err := PairPos1(3, 0, pairs)
		if err != nil {
			return nil, err
		}
		out = append(out, Lookup{Type: 2, Subtables: [][]byte{pst}})
	}
	if q.n(3) != 0 && len(rg.marks) > 0 {
		var marks []MarkRecord
		for _, m := range rg.marks {
			marks = append(marks, MarkRecord{Glyph: m, Class: 0, Anchor: *rnd()})
		}
		bases := q.subset(letters, 3, len(letters))
		rows := make([][]*Anchor, len(bases))
		for i := range rows {
			rows[i] = []*Anchor{rnd()}
		}
		mst, err := MarkAttach(marks, 1, bases, rows)
		if err != nil {
			return nil, err
		}
		out = append(out, Lookup{Type: 4, Subtables: [][]byte{mst}})
	}
	return out, nil
}

// ruleLayouts builds the tables of a generated-rules Spec.
func (sp Spec) ruleLayouts() (gsub, gpos *Layout, gdef []byte, err error) {
	rg := ruleRepertoire()
	if len(rg.letters) < 4 || len(rg.products) < 4 {
		return nil, nil, nil, fmt.Errorf("synthfont: base font lacks the rule letters")
	}
	p := &prng{x: uint64(sp.Seed)*0x9E3779B97F4A7C15 + uint64(len(sp.Kind))}
	gdef, err = rg.gdef()
	if err != nil {
		return nil, nil, nil, err
	}
	switch sp.Kind {
	case KindRulesGSUB:
		gsub, err = sp.rulesGSUB(p, rg, sp.Feature)
	case KindRulesGPOS:
		gpos, err = sp.rulesGPOS(p, rg)
		if err == nil && p.n(2) == 0 {
			sub := sp
			sub.N = 1 + p.n(2)
			if sub.Depth > 2 {
				sub.Depth = 1 + p.n(2)
			}
			gsub, err = sub.rulesGSUB(p, rg, ruleFeaturesGSUB[p.n(4)])
		}
	}
	return gsub, gpos, gdef, err
}

// DrawText draws a text for a font of a generated-rules kind: mostly a working set of 2-5 of the
// letters the lookups are about (so that rules meet their contexts), with marks, separators,
// default ignorables and uncovered letters in between.
func (sp Spec) DrawText(s Chooser, maxLen int) []rune {
	covered, other := sp.Letters()
	nwork := 2 + s.Intn("textworkset", 4)
	work := make([]rune, nwork)
	for i := range work {
		work[i] = covered[s.Intn("textworkletter", len(covered))]
	}
	n := 1 + s.Intn("textlen", maxLen)
	out := make([]rune, 0, n)
	for len(out) < n {
		switch k := s.Intn("textkind", 20); {
		case k < 13:
			out = append(out, work[s.Intn("textletter", len(work))])
		case k < 15:
			out = append(out, covered[s.Intn("textanyletter", len(covered))])
		case k < 17 && len(out) > 0:
			out = append(out, ruleMarks[s.Intn("textmark", len(ruleMarks))])
		case k < 18 || sp.Mix == 1 && k < 19:
			// (the cursive mix wants short groups: attachments of one group must not reach the next)
			out = append(out, []rune{' ', '-', ' '}[s.Intn("textsep", 3)])
		default:
			out = append(out, other[s.Intn("textother", len(other))])
		}
	}
	return out
}

// Nesting:
// the number of contextual levels on the way to an action (Spec.Depth for the GSUB kind, else 0).
func (sp Spec) Nesting() int {
	if sp.Kind == KindRulesGSUB && sp.Depth >= 1 {
		return sp.Depth
	}
	return 0
}
