// Package synthfont builds small VALID fonts in memory whose layout tables are generated: the
// outlines, cmap and metrics of a corpus font (Roboto) are kept, its GSUB (and optionally GPOS) table
// is replaced by tables written by the serializer of layout.go, and the file is assembled with
// opentype.WriteTTF. The point is legal-but-unusual fonts that stress the internal constants of the
// shaper (buffer length and operation budgets, 64-glyph context limit, nesting limit 6, recursion),
// which no corpus font reaches; corrupt fonts are property C09's business, not this package's.
//
// A font is described by a Spec (a JSON-able parameter record, so that a failing case can be
// replayed from its decoded form); Build/Face are deterministic functions of the Spec.
package synthfont

import (
	"bytes"
	"fmt"
	"sort"
	"sync"

	"github.com/go-text/typesetting/font"
	ot "github.com/go-text/typesetting/font/opentype"

	"verif/internal/corpus"
)

// BaseFont is the corpus font whose glyphs, cmap and metrics are reused.
const BaseFont = "harfbuzz/perf_reference/fonts/Roboto-Regular.ttf"

// Kinds of generated layout.
const (
	KindMultipleChain   = "multiple-chain"   // N top-level MultipleSubst lookups in one feature (doubling/tripling)
	KindGrowShrink      = "grow-shrink"      // alternating MultipleSubst and LigatureSubst of the products; long ligatures
	KindChainContext    = "chain-context"    // (Chain)Context format 3 with long sequences, nested lookups, recursion
	KindReverseChain    = "reverse-chain"    // ReverseChainSingleSubst with long context
	KindSingleAlternate = "single-alternate" // SingleSubst with wrapping delta / AlternateSubst with many alternates
	KindPairClasses     = "pair-classes"     // GPOS PairPos format 2 with many classes (+ SinglePos)
)

// Kinds lists the kinds in a fixed order.
var Kinds = []string{KindMultipleChain, KindGrowShrink, KindChainContext, KindReverseChain, KindSingleAlternate, KindPairClasses}

// Spec describes one generated font.
type Spec struct {
	Kind    string `json:"kind"`
	N       int    `json:"n"`                 // number of chained lookups / of classes
	Factor  int    `json:"factor,omitempty"`  // growth factor of a multiple substitution (2..4)
	Back    int    `json:"back,omitempty"`    // backtrack length
	Input   int    `json:"input,omitempty"`   // input length (contexts), component count (long ligature)
	Look    int    `json:"look,omitempty"`    // lookahead length
	Depth   int    `json:"depth,omitempty"`   // number of nested context lookups below the top one
	Recurse int    `json:"recurse,omitempty"` // 0 none, 1 the innermost context calls the top lookup, 2 two lookups call each other
	Chain   bool   `json:"chain,omitempty"`   // chaining context (type 6) rather than context (type 5)
	Inner   int    `json:"inner,omitempty"`   // innermost action: 0 single, 1 multiple (grow), 2 ligature (shrink)
	Feature string `json:"feature"`           // feature tag of the top-level lookups
	Scripts int    `json:"scripts,omitempty"` // 0 DFLT, 1 latn, 2 both
	Flag    int    `json:"flag,omitempty"`    // lookup flag of the top-level lookups (0 or 0x8 IgnoreMarks)
	Alt     int    `json:"alt,omitempty"`     // number of alternates / variant selector
	Wide    bool   `json:"wide,omitempty"`    // coverage sets hold several glyphs instead of one
	Seed    int64  `json:"seed,omitempty"`    // generated-rules kinds (rules.go): everything not named by a field is drawn from it
	Mix     int    `json:"mix,omitempty"`     // gpos-rules: 1 puts a cursive / placement / mark mix in front of the drawn lookups (rules.go)
}

// Chooser yields bounded choices (shapecase.Source satisfies it).
type Chooser interface {
	Intn(label string, n int) int
}

// interesting lengths around the internal constants
var lengths = []int{0, 1, 2, 3, 5, 8, 16, 31, 32, 33, 62, 63, 64, 65, 66, 70, 100}

var featureTags = []string{"ccmp", "liga", "calt", "rlig", "locl", "clig", "dlig", "salt", "ss01", "rand", "smcp", "aalt"}

// DrawSpec draws a Spec.
func DrawSpec(s Chooser) Spec {
	sp := Spec{Kind: Kinds[s.Intn("synthkind", len(Kinds))]}
	sp.Feature = featureTags[s.Intn("synthfeature", len(featureTags))]
	sp.Scripts = s.Intn("synthscripts", 3)
	sp.Wide = s.Intn("synthwide", 3) == 0
	if s.Intn("synthflag", 4) == 0 {
		sp.Flag = 0x0008
	}
	length := func(label string) int { return lengths[s.Intn(label, len(lengths))] }
	switch sp.Kind {
	case KindMultipleChain:
		sp.N = 1 + s.Intn("nlookups", 20)
		sp.Factor = 2 + s.Intn("factor", 3)
		sp.Alt = s.Intn("variant", 3)
	case KindGrowShrink:
		sp.N = 1 + s.Intn("nlookups", 20)
		sp.Factor = 2 + s.Intn("factor", 2)
		sp.Input = 2 + s.Intn("ligcomponents", 4)
		if s.Intn("longlig", 3) == 0 {
			sp.Input = length("ligcomponentslong")
			if sp.Input < 2 {
				sp.Input = 2
			}
		}
		sp.Alt = s.Intn("variant", 3)
	case KindChainContext:
		sp.Chain = s.Intn("chain", 3) != 0
		sp.Input = length("input")
		if sp.Input == 0 {
			sp.Input = 1
		}
		if sp.Chain {
			sp.Back = length("back")
			sp.Look = length("look")
		}
		sp.Depth = s.Intn("depth", 9)
		sp.Recurse = s.Intn("recurse", 3)
		sp.Inner = s.Intn("inner", 3)
		sp.N = 1 + s.Intn("ntop", 3)
		sp.Factor = 2 + s.Intn("factor", 2)
	case KindReverseChain:
		sp.Back = length("back")
		sp.Look = length("look")
		sp.N = 1 + s.Intn("ntop", 3)
	case KindSingleAlternate:
		sp.Alt = []int{1, 2, 3, 16, 255, 256, 300, 1000}[s.Intn("nalternates", 8)]
		sp.N = 1 + s.Intn("ntop", 3)
		sp.Factor = s.Intn("deltavariant", 3)
	case KindPairClasses:
		sp.N = []int{1, 2, 5, 13, 26}[s.Intn("nclasses", 5)]
		sp.Alt = []int{1, 2, 5, 13, 26}[s.Intn("nclasses2", 5)]
		sp.Feature = []string{"kern", "dist", "kern", "palt"}[s.Intn("posfeature", 4)]
	}
	return sp
}

// Letters returns the runes whose glyphs the generated lookups cover (texts for the font should be
// made mostly of them) followed by a few runes they do not cover.
func (sp Spec) Letters() (covered, other []rune) {
	if isRuleKind(sp.Kind) {
		return ruleLetters, append(append([]rune{}, ruleMarks...), ruleExtras...)
	}
	switch sp.Kind {
	case KindPairClasses:
		return []rune("abcdefghijklmnopqrstuvwxyz"), []rune{' ', 'A', '1', 0x0301}
	}
	if sp.Wide {
		return []rune("abc"), []rune{'x', ' ', 'A', 0x0301, 0x0308}
	}
	return []rune("ab"), []rune{'c', 'x', ' ', 0x0301, 0x0308}
}

// ---- base font ----

var (
	baseOnce   sync.Once
	baseTables map[string][]byte
	baseGlyph  map[rune]uint16
	baseNum    int
	baseErr    error
)

var keptTables = []string{"cmap", "glyf", "loca", "head", "hhea", "hmtx", "maxp", "name", "OS/2", "post", "GDEF"}

func loadBase() {
	b, err := corpus.Bytes(BaseFont)
	if err != nil {
		baseErr = err
		return
	}
	ld, err := ot.NewLoader(bytes.NewReader(b))
	if err != nil {
		baseErr = err
		return
	}
	baseTables = map[string][]byte{}
	for _, t := range keptTables {
		raw, err := ld.RawTable(ot.MustNewTag(t))
		if err != nil {
			baseErr = fmt.Errorf("synthfont: base font lacks %s: %v", t, err)
			return
		}
		baseTables[t] = raw
	}
	face, err := font.ParseTTF(bytes.NewReader(b))
	if err != nil {
		baseErr = err
		return
	}
	baseGlyph = map[rune]uint16{}
	for r := rune(0x20); r < 0x7F; r++ {
		if g, ok := face.NominalGlyph(r); ok {
			baseGlyph[r] = uint16(g)
		}
	}
	for _, r := range append(append([]rune{}, ruleMarks...), ruleExtras...) {
		if g, ok := face.NominalGlyph(r); ok {
			baseGlyph[r] = uint16(g)
		}
	}
	baseNum = int(uint16(baseTables["maxp"][4])<<8 | uint16(baseTables["maxp"][5]))
}

func g(r rune) uint16 { return baseGlyph[r] }

// ---- generators ----

func (sp Spec) scripts() []string {
	switch sp.Scripts {
	case 1:
		return []string{"latn"}
	case 2:
		return []string{"DFLT", "latn"}
	}
	return []string{"DFLT"}
}

// set returns the coverage set standing for "the letter a" (or a wider class).
func (sp Spec) set() []uint16 {
	if sp.Wide {
		return []uint16{g('a'), g('b'), g('c')}
	}
	return []uint16{g('a')}
}

func repeat(set []uint16, n int) [][]uint16 {
	out := make([][]uint16, n)
	for i := range out {
		out[i] = set
	}
	return out
}

func times(x uint16, n int) []uint16 {
	out := make([]uint16, n)
	for i := range out {
		out[i] = x
	}
	return out
}

func must(b []byte, err error) []byte {
	if err != nil {
		panic(err)
	}
	return b
}

// layouts builds the GSUB and GPOS tables of the Spec (nil when absent).
func (sp Spec) layouts() (gsub, gpos *Layout) {
	a, b, c := g('a'), g('b'), g('c')
	top := func(n int) []int {
		out := make([]int, n)
		for i := range out {
			out[i] = i
		}
		return out
	}
	switch sp.Kind {
	case KindMultipleChain:
		l := &Layout{Scripts: sp.scripts()}
		for i := 0; i < sp.N; i++ {
			var st []byte
			switch sp.Alt {
			case 0: // a -> a a (a)
				st = must(MultipleSubst([]uint16{a}, [][]uint16{times(a, sp.Factor)}))
			case 1: // a -> a b.., b -> b a..: everything keeps growing
				sa, sb := times(b, sp.Factor), times(a, sp.Factor)
				sa[0], sb[0] = a, b
				st = must(MultipleSubst([]uint16{a, b}, [][]uint16{sa, sb}))
			default: // alternate lookups grow a and b
				if i%2 == 0 {
					st = must(MultipleSubst([]uint16{a}, [][]uint16{append(times(a, sp.Factor-1), b)}))
				} else {
					st = must(MultipleSubst([]uint16{b}, [][]uint16{append(times(b, sp.Factor-1), a)}))
				}
			}
			l.Lookups = append(l.Lookups, Lookup{Type: 2, Flag: sp.Flag, Subtables: [][]byte{st}})
		}
		l.Features = []Feature{{Tag: sp.Feature, Lookups: top(sp.N)}}
		return l, nil

	case KindGrowShrink:
		l := &Layout{Scripts: sp.scripts()}
		for i := 0; i < sp.N; i++ {
			if i%2 == 0 {
				seq := times(a, sp.Factor)
				if sp.Alt == 1 {
					seq[len(seq)-1] = b
				}
				l.Lookups = append(l.Lookups, Lookup{Type: 2, Flag: sp.Flag, Subtables: [][]byte{must(MultipleSubst([]uint16{a}, [][]uint16{seq}))}})
				continue
			}
			var ligs []Ligature
			switch sp.Alt {
			case 1:
				ligs = []Ligature{{Components: []uint16{a, b}, Glyph: a}}
			case 2: // a long ligature first, then a short one
				ligs = []Ligature{{Components: times(a, sp.Input), Glyph: b}, {Components: []uint16{a, a}, Glyph: a}}
			default:
				ligs = []Ligature{{Components: times(a, sp.Input), Glyph: a}}
			}
			l.Lookups = append(l.Lookups, Lookup{Type: 4, Flag: sp.Flag, Subtables: [][]byte{must(LigatureSubst(ligs))}})
		}
		l.Features = []Feature{{Tag: sp.Feature, Lookups: top(sp.N)}}
		return l, nil

	case KindChainContext:
		l := &Layout{Scripts: sp.scripts()}
		set := sp.set()
		typ := 5
		if sp.Chain {
			typ = 6
		}
		// lookups 0..N-1: the top contexts; then Depth nested contexts; then the innermost action
		first := sp.N
		innermost := sp.N + sp.Depth
		next := func(level int) int { // lookup called by nested level `level`
			if level == sp.Depth-1 {
				if sp.Recurse == 1 {
					return 0
				}
				return innermost
			}
			return first + level + 1
		}
		positions := func(n int) []int {
			ps := []int{0}
			if n > 2 {
				ps = append(ps, n/2)
			}
			if n > 1 {
				ps = append(ps, n-1)
			}
			return ps
		}
		for i := 0; i < sp.N; i++ {
			var recs []SeqLookup
			target := innermost
			if sp.Depth > 0 {
				target = first
			}
			for _, p := range positions(sp.Input) {
				recs = append(recs, SeqLookup{Index: p, Lookup: target})
			}
			if sp.Depth == 0 && sp.Recurse == 1 {
				recs = append(recs, SeqLookup{Index: 0, Lookup: 0}) // direct self recursion
			}
			st := must(Context3(sp.Chain, repeat(set, sp.Back), repeat(set, sp.Input), repeat(set, sp.Look), recs))
			l.Lookups = append(l.Lookups, Lookup{Type: typ, Flag: sp.Flag, Subtables: [][]byte{st}})
		}
		for d := 0; d < sp.Depth; d++ {
			recs := []SeqLookup{{Index: 0, Lookup: next(d)}}
			if d == sp.Depth-1 && sp.Recurse == 1 {
				recs = append(recs, SeqLookup{Index: 0, Lookup: innermost})
			}
			if sp.Recurse == 2 && d > 0 {
				recs = append(recs, SeqLookup{Index: 0, Lookup: first + d - 1}) // calls its caller back
			}
			st := must(Context3(false, nil, repeat(set, 1), nil, recs))
			l.Lookups = append(l.Lookups, Lookup{Type: 5, Subtables: [][]byte{st}})
		}
		switch sp.Inner {
		case 1:
			l.Lookups = append(l.Lookups, Lookup{Type: 2, Subtables: [][]byte{must(MultipleSubst([]uint16{a}, [][]uint16{times(a, sp.Factor)}))}})
		case 2:
			l.Lookups = append(l.Lookups, Lookup{Type: 4, Subtables: [][]byte{must(LigatureSubst([]Ligature{{Components: []uint16{a, a}, Glyph: a}}))}})
		default:
			l.Lookups = append(l.Lookups, Lookup{Type: 1, Subtables: [][]byte{SingleSubst2([]uint16{a, b}, []uint16{b, a})}})
		}
		l.Features = []Feature{{Tag: sp.Feature, Lookups: top(sp.N)}}
		return l, nil

	case KindReverseChain:
		l := &Layout{Scripts: sp.scripts()}
		set := sp.set()
		for i := 0; i < sp.N; i++ {
			from, to := []uint16{a}, []uint16{b}
			if sp.Wide || i%2 == 1 {
				from, to = []uint16{a, b}, []uint16{b, a}
			}
			st := must(ReverseChain(from, to, repeat(set, sp.Back), repeat(set, sp.Look)))
			l.Lookups = append(l.Lookups, Lookup{Type: 8, Flag: sp.Flag, Subtables: [][]byte{st}})
		}
		l.Features = []Feature{{Tag: sp.Feature, Lookups: top(sp.N)}}
		return l, nil

	case KindSingleAlternate:
		l := &Layout{Scripts: sp.scripts()}
		last := uint16(baseNum - 1)
		for i := 0; i < sp.N; i++ {
			switch (i + sp.Factor) % 3 {
			case 0: // delta that wraps around 65536 and still lands on a valid glyph: a -> b
				l.Lookups = append(l.Lookups, Lookup{Type: 1, Flag: sp.Flag, Subtables: [][]byte{SingleSubst1([]uint16{a}, int(b)-int(a)+0x10000)}})
			case 1: // the largest glyph id of the font
				l.Lookups = append(l.Lookups, Lookup{Type: 1, Flag: sp.Flag, Subtables: [][]byte{SingleSubst2([]uint16{b, c}, []uint16{last, a})}})
			default:
				alts := make([]uint16, sp.Alt)
				for k := range alts {
					alts[k] = uint16(1 + (int(a)+k)%(baseNum-1))
				}
				l.Lookups = append(l.Lookups, Lookup{Type: 3, Flag: sp.Flag, Subtables: [][]byte{must(AlternateSubst([]uint16{a, b}, [][]uint16{alts, alts[:1]}))}})
			}
		}
		l.Features = []Feature{{Tag: sp.Feature, Lookups: top(sp.N)}}
		return l, nil

	case KindPairClasses:
		l := &Layout{Scripts: sp.scripts()}
		c1, c2 := map[uint16]int{}, map[uint16]int{}
		for i, r := range "abcdefghijklmnopqrstuvwxyz" {
			c1[g(r)] = i % sp.N
			c2[g(r)] = (i * 7) % sp.Alt
		}
		st := must(PairPosClasses(c1, c2, sp.N, sp.Alt, func(i, j int) int { return ((i*31+j*17)%401 - 200) & 0xFFFF }))
		l.Lookups = []Lookup{
			{Type: 2, Flag: sp.Flag, Subtables: [][]byte{st}},
			{Type: 1, Subtables: [][]byte{SinglePos1([]uint16{a, b}, 50)}},
		}
		l.Features = []Feature{{Tag: sp.Feature, Lookups: []int{0, 1}}}
		return nil, l
	}
	return nil, nil
}

// FeatureTags lists the feature tags the generated tables define.
func (sp Spec) FeatureTags() []uint32 { return []uint32{tag(sp.Feature)} }

// Build returns the bytes of the font file.
func Build(sp Spec) (out []byte, err error) {
	baseOnce.Do(loadBase)
	if baseErr != nil {
		return nil, baseErr
	}
	defer func() {
		if r := recover(); r != nil {
			err = fmt.Errorf("synthfont: %v", r)
		}
	}()
	known := isRuleKind(sp.Kind)
	for _, k := range Kinds {
		known = known || k == sp.Kind
	}
	if !known {
		return nil, fmt.Errorf("synthfont: unknown kind %q", sp.Kind)
	}
	tabs := map[string][]byte{}
	for k, v := range baseTables {
		tabs[k] = v
	}
	var gsub, gpos *Layout
	if isRuleKind(sp.Kind) {
		var gdef []byte
		gsub, gpos, gdef, err = sp.ruleLayouts()
		if err != nil {
			return nil, err
		}
		tabs["GDEF"] = gdef
	} else {
		gsub, gpos = sp.layouts()
	}
	for name, l := range map[string]*Layout{"GSUB": gsub, "GPOS": gpos} {
		if l == nil {
			continue
		}
		b, err := l.Bytes()
		if err != nil {
			return nil, err
		}
		tabs[name] = b
	}
	var list []ot.Table
	for k, v := range tabs {
		// pad to a multiple of four, as the specification requires of table data
		for len(v)%4 != 0 {
			v = append(v[:len(v):len(v)], 0)
		}
		list = append(list, ot.Table{Tag: ot.MustNewTag(k), Content: v})
	}
	sort.Slice(list, func(i, j int) bool { return list[i].Tag < list[j].Tag })
	return ot.WriteTTF(list), nil
}

var (
	faceMu    sync.Mutex
	faceCache = map[Spec]*font.Face{}
)

// Face builds and parses the font of the Spec (a small cache keeps recent ones; the returned
// face is shared: callers that change variations or ppem must font.NewFace(face.Font)).
func Face(sp Spec) (*font.Face, error) {
	faceMu.Lock()
	defer faceMu.Unlock()
	if f, ok := faceCache[sp]; ok {
		return f, nil
	}
	b, err := Build(sp)
	if err != nil {
		return nil, err
	}
	f, err := font.ParseTTF(bytes.NewReader(b))
	if err != nil {
		return nil, fmt.Errorf("synthfont: generated font rejected by the loader: %v", err)
	}
	if len(faceCache) >= 64 {
		faceCache = map[Spec]*font.Face{}
	}
	faceCache[sp] = f
	return f, nil
}
