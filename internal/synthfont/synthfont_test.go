package synthfont

import (
	"testing"
)

type seq struct{ i int }

func (s *seq) Intn(_ string, n int) int {
	s.i = s.i*1103515245 + 12345
	v := (s.i >> 8) % n
	if v < 0 {
		v = -v
	}
	return v
}

// every drawn Spec must build and be accepted by the loader
func TestBuildAll(t *testing.T) {
	s := &seq{i: 7}
	kinds := map[string]int{}
	for i := 0; i < 3000; i++ {
		sp := DrawSpec(s)
		f, err := Face(sp)
		if err != nil {
			t.Fatalf("%+v: %v", sp, err)
		}
		n := len(f.Font.GSUB.Lookups) + len(f.Font.GPOS.Lookups)
		if n == 0 {
			t.Fatalf("%+v: no lookups parsed", sp)
		}
		kinds[sp.Kind]++
	}
	t.Log(kinds)
}

// every drawn generated-rules Spec must build, be accepted by the loader with every lookup, and
// be deterministic
func TestBuildRules(t *testing.T) {
	s := &seq{i: 3}
	kinds := map[string]int{}
	types := map[int]int{}
	for i := 0; i < 3000; i++ {
		sp := DrawRuleSpec(s)
		b1, err := Build(sp)
		if err != nil {
			t.Fatalf("%+v: %v", sp, err)
		}
		b2, _ := Build(sp)
		if string(b1) != string(b2) {
			t.Fatalf("%+v: not deterministic", sp)
		}
		f, err := Face(sp)
		if err != nil {
			t.Fatalf("%+v: %v", sp, err)
		}
		gsub, gpos, _, _ := sp.ruleLayouts()
		want := 0
		if gsub != nil {
			want += len(gsub.Lookups)
			for _, l := range gsub.Lookups {
				types[l.Type]++
			}
		}
		if gpos != nil {
			want += len(gpos.Lookups)
			for _, l := range gpos.Lookups {
				types[100+l.Type]++
			}
		}
		if n := len(f.Font.GSUB.Lookups) + len(f.Font.GPOS.Lookups); n != want || n == 0 {
			t.Fatalf("%+v: %d lookups parsed, %d written", sp, n, want)
		}
		if f.Font.GDEF.GlyphClassDef == nil {
			t.Fatalf("%+v: GDEF classes not parsed", sp)
		}
		kinds[sp.Kind]++
	}
	t.Log(kinds, types)
}
