package synthfont

import (
	"testing"
)

type seq struct{ i int }

func (s *seq) Intn(_ string, n int) int {
	s.i = s.i*1103515245 + 12345
	v := (s.i >> 8) % n
	if v < 0 {
		v = -v
	}
	return v
}

// every drawn Spec must build and be accepted by the loader
func TestBuildAll(t *testing.T) {
	s := &seq{i: 7}
	kinds := map[string]int{}
	for i := 0; i < 3000; i++ {
		sp := DrawSpec(s)
		f, err := Face(sp)
		if err != nil {
			t.Fatalf("%+v: %v", sp, err)
		}
		n := len(f.Font.GSUB.Lookups) + len(f.Font.GPOS.Lookups)
		if n == 0 {
			t.Fatalf("%+v: no lookups parsed", sp)
		}
		kinds[sp.Kind]++
	}
	t.Log(kinds)
}
