package uaxref

// Mini-UBA for property C08: a spec-direct implementation of the part of UAX #9 that applies to
// paragraphs made only of the bidi classes L, R, EN and WS, without explicit formatting characters
// (a single isolating run sequence at the paragraph embedding level). Rules W7, N1, N2, I1, I2
// and L1 (end of paragraph) are the only ones that can fire on such text: W1–W6 need NSM, AL, ES,
// CS, ET or AN; N0 needs brackets; X1–X10 need explicit formatting characters.
//
// Rule L2 (reordering from levels) is provided separately and is written literally from the rule
// text, independently of the reversal scheme used by the library.

// BidiClass is one of the four classes the mini-UBA understands.
type BidiClass uint8

const (
	BidiL  BidiClass = iota // strong left-to-right
	BidiR                   // strong right-to-left (Hebrew letters; never AL)
	BidiEN                  // European number
	BidiWS                  // whitespace (neutral)
)

// MiniBidiClass classifies the runes the C08 generator uses; ok is false for anything else.
func MiniBidiClass(r rune) (c BidiClass, ok bool) {
	switch {
	case r >= 'a' && r <= 'z', r >= 'A' && r <= 'Z',
		r >= 0x03B1 && r <= 0x03C9, // Greek small letters
		r >= 0x0430 && r <= 0x044F, // Cyrillic small letters
		r >= 0x3041 && r <= 0x3096: // Hiragana (upright in vertical text)
		return BidiL, true
	case r >= 0x05D0 && r <= 0x05EA:
		return BidiR, true
	case r >= '0' && r <= '9':
		return BidiEN, true
	case r == ' ':
		return BidiWS, true
	}
	return 0, false
}

// MiniBidiLevels returns the resolved embedding level of every character of one paragraph with
// the given paragraph level (0 or 1). l1AtEnd applies rule L1 to the end of the paragraph (the
// trailing whitespace of the paragraph is reset to the paragraph level), as an implementation that
// treats the whole paragraph as one line does.
func MiniBidiLevels(classes []BidiClass, paraLevel int, l1AtEnd bool) []int {
	n := len(classes)
	e := paraLevel
	embDir := BidiL // direction of the embedding level = sos = eos (single level run)
	if e%2 == 1 {
		embDir = BidiR
	}
	t := make([]BidiClass, n)
	copy(t, classes)

	// W7: search backward from each EN for the first strong type (R, L or sos); if L, EN -> L.
	for i := 0; i < n; i++ {
		if classes[i] != BidiEN {
			continue
		}
		strong := embDir
		for j := i - 1; j >= 0; j-- {
			if classes[j] == BidiL || classes[j] == BidiR {
				strong = classes[j]
				break
			}
		}
		if strong == BidiL {
			t[i] = BidiL
		}
	}

	// N1/N2 on each maximal sequence of neutrals. European numbers count as R for N1.
	asStrong := func(c BidiClass) BidiClass {
		if c == BidiEN {
			return BidiR
		}
		return c
	}
	res := make([]BidiClass, n)
	copy(res, t)
	for i := 0; i < n; {
		if t[i] != BidiWS {
			i++
			continue
		}
		j := i
		for j < n && t[j] == BidiWS {
			j++
		}
		lead, trail := embDir, embDir
		if i > 0 {
			lead = asStrong(t[i-1])
		}
		if j < n {
			trail = asStrong(t[j])
		}
		dir := embDir // N2
		if lead == trail {
			dir = lead // N1
		}
		for k := i; k < j; k++ {
			res[k] = dir
		}
		i = j
	}

	// I1 / I2
	levels := make([]int, n)
	for i, c := range res {
		if e%2 == 0 {
			switch c {
			case BidiL:
				levels[i] = e
			case BidiR:
				levels[i] = e + 1
			case BidiEN:
				levels[i] = e + 2
			}
		} else {
			switch c {
			case BidiR:
				levels[i] = e
			case BidiL, BidiEN:
				levels[i] = e + 1
			}
		}
	}

	// L1 (end of paragraph only): trailing whitespace gets the paragraph level.
	if l1AtEnd {
		for i := n - 1; i >= 0 && classes[i] == BidiWS; i-- {
			levels[i] = e
		}
	}
	return levels
}

// L2Order applies rule L2 of UAX #9 to the levels of the items of one line, given in logical
// order: "from the highest level found in the text to the lowest odd level on each line,
// including intermediate levels not actually present in the text, reverse any contiguous sequence
// of characters that are at that level or higher". It returns the visual order: order[v] is the
// logical index of the item displayed at visual position v (0 = leftmost).
func L2Order(levels []int) []int {
	n := len(levels)
	order := make([]int, n)
	for i := range order {
		order[i] = i
	}
	if n == 0 {
		return order
	}
	highest, lowestOdd := -1, -1
	for _, l := range levels {
		if l > highest {
			highest = l
		}
		if l%2 == 1 && (lowestOdd == -1 || l < lowestOdd) {
			lowestOdd = l
		}
	}
	if lowestOdd == -1 {
		return order
	}
	for k := highest; k >= lowestOdd; k-- {
		for i := 0; i < n; {
			if levels[order[i]] < k {
				i++
				continue
			}
			j := i
			for j < n && levels[order[j]] >= k {
				j++
			}
			for a, b := i, j-1; a < b; a, b = a+1, b-1 {
				order[a], order[b] = order[b], order[a]
			}
			i = j
		}
	}
	return order
}

// ---------------------------------------------------------------------------------------------
// Explicit directional formatting (rules X1–X10 restricted to what the C08 generator produces:
// LRE, RLE, LRO, RLO, PDF, LRI, RLI, FSI, PDI over the classes L, R, EN, WS; no overflow of the
// directional status stack, which the generator keeps at depth <= a few levels).
// ---------------------------------------------------------------------------------------------

const (
	BidiLRE BidiClass = iota + 4
	BidiRLE
	BidiLRO
	BidiRLO
	BidiPDF
	BidiLRI
	BidiRLI
	BidiFSI
	BidiPDI
)

// MiniBidiClassX is MiniBidiClass extended with the explicit formatting characters.
func MiniBidiClassX(r rune) (BidiClass, bool) {
	switch r {
	case 0x202A:
		return BidiLRE, true
	case 0x202B:
		return BidiRLE, true
	case 0x202C:
		return BidiPDF, true
	case 0x202D:
		return BidiLRO, true
	case 0x202E:
		return BidiRLO, true
	case 0x2066:
		return BidiLRI, true
	case 0x2067:
		return BidiRLI, true
	case 0x2068:
		return BidiFSI, true
	case 0x2069:
		return BidiPDI, true
	}
	return MiniBidiClass(r)
}

// IsBidiFormat reports whether c is an explicit formatting character.
func IsBidiFormat(c BidiClass) bool { return c >= BidiLRE && c <= BidiPDI }

func removedByX9(c BidiClass) bool { return c >= BidiLRE && c <= BidiPDF }
func isIsolateInit(c BidiClass) bool {
	return c == BidiLRI || c == BidiRLI || c == BidiFSI
}

// matchingPDI returns, for every isolate initiator, the index of its matching PDI (BD9), -1 when
// there is none; and for every PDI the index of its initiator, -1 when unmatched.
func matchingPDI(classes []BidiClass) (match []int) {
	match = make([]int, len(classes))
	for i := range match {
		match[i] = -1
	}
	var stack []int
	for i, c := range classes {
		switch {
		case isIsolateInit(c):
			stack = append(stack, i)
		case c == BidiPDI:
			if n := len(stack); n > 0 {
				match[stack[n-1]] = i
				match[i] = stack[n-1]
				stack = stack[:n-1]
			}
		}
	}
	return match
}

// firstStrongLevel applies P2/P3 to classes[from:to]: the level (0/1) of the first character of
// class L or R that is not inside an isolate; def when there is none.
func firstStrongLevel(classes []BidiClass, match []int, from, to, def int) int {
	for i := from; i < to; i++ {
		switch c := classes[i]; {
		case c == BidiL:
			return 0
		case c == BidiR:
			return 1
		case isIsolateInit(c):
			if match[i] == -1 {
				return def // P2: the rest of the paragraph is skipped
			}
			i = match[i]
		}
	}
	return def
}

// MiniParagraphLevel applies P2/P3 (what an implementation does when no paragraph level is
// imposed): 1 when the first strong character outside isolates is R, else 0.
func MiniParagraphLevel(classes []BidiClass) int {
	return firstStrongLevel(classes, matchingPDI(classes), 0, len(classes), 0)
}

// MiniBidiLevelsX resolves the embedding levels of a paragraph over the classes L, R, EN, WS and
// the explicit formatting characters, at the given paragraph level. Characters removed by X9
// (embedding/override initiators and PDF) get the level of the preceding character (the paragraph
// level at the start), as the reference implementation does for reporting; with l1AtEnd the
// trailing whitespace and formatting characters of the paragraph are reset to the paragraph level.
func MiniBidiLevelsX(classes []BidiClass, paraLevel int, l1AtEnd bool) []int {
	n := len(classes)
	match := matchingPDI(classes)
	type entry struct {
		level    int
		override BidiClass // BidiWS = neutral, BidiL or BidiR
		isolate  bool
	}
	stack := []entry{{paraLevel, BidiWS, false}}
	levels := make([]int, n)
	types := make([]BidiClass, n) // class after X6 overrides; FSI/LRI/RLI/PDI stay themselves
	nextOdd := func(l int) int { return l + 1 + l%2 }
	nextEven := func(l int) int { return l + 2 - l%2 }
	validIsolates := 0
	applyOverride := func(i int, c BidiClass) {
		types[i] = c
		if o := stack[len(stack)-1].override; o != BidiWS {
			types[i] = o
		}
	}
	for i, c := range classes {
		top := stack[len(stack)-1]
		switch c {
		case BidiRLE:
			stack = append(stack, entry{nextOdd(top.level), BidiWS, false})
			types[i] = c
		case BidiLRE:
			stack = append(stack, entry{nextEven(top.level), BidiWS, false})
			types[i] = c
		case BidiRLO:
			stack = append(stack, entry{nextOdd(top.level), BidiR, false})
			types[i] = c
		case BidiLRO:
			stack = append(stack, entry{nextEven(top.level), BidiL, false})
			types[i] = c
		case BidiRLI, BidiLRI, BidiFSI:
			levels[i] = top.level
			applyOverride(i, BidiWS) // X5a–c: an isolate initiator is a neutral, subject to the override
			rtl := c == BidiRLI
			if c == BidiFSI {
				end := n
				if match[i] != -1 {
					end = match[i]
				}
				rtl = firstStrongLevel(classes, match, i+1, end, 0) == 1
			}
			if rtl {
				stack = append(stack, entry{nextOdd(top.level), BidiWS, true})
			} else {
				stack = append(stack, entry{nextEven(top.level), BidiWS, true})
			}
			validIsolates++
		case BidiPDI:
			if match[i] != -1 && validIsolates > 0 {
				for !stack[len(stack)-1].isolate {
					stack = stack[:len(stack)-1]
				}
				stack = stack[:len(stack)-1]
				validIsolates--
			}
			levels[i] = stack[len(stack)-1].level
			// X6a also resets the type of a PDI to L or R under an active override. x/text (the
			// implementation itemization uses and this reference is compared with) leaves it
			// neutral; the PDI is invisible, so only the run it is reported in depends on this,
			// and the convention of x/text is followed, as for the characters removed by X9.
			types[i] = c
		case BidiPDF:
			types[i] = c
			if !top.isolate && len(stack) >= 2 {
				stack = stack[:len(stack)-1]
			}
		default:
			levels[i] = top.level
			applyOverride(i, c)
		}
	}

	// emb keeps the explicit embedding levels (X1–X8); levels receives the resolved ones
	emb := append([]int(nil), levels...)

	// X9/X10: level runs over the characters that are not removed, chained into isolating run
	// sequences through isolate initiators and their matching PDIs.
	var kept []int
	for i, c := range classes {
		if !removedByX9(c) {
			kept = append(kept, i)
		}
	}
	var runs [][]int // level runs, as lists of indices
	for k := 0; k < len(kept); {
		j := k
		for j < len(kept) && emb[kept[j]] == emb[kept[k]] {
			j++
		}
		runs = append(runs, kept[k:j])
		k = j
	}
	runStartingAt := map[int]int{}
	for ri, r := range runs {
		runStartingAt[r[0]] = ri
	}
	dirOfLevel := func(l int) BidiClass {
		if l%2 == 1 {
			return BidiR
		}
		return BidiL
	}
	posInKept := map[int]int{}
	for k, i := range kept {
		posInKept[i] = k
	}
	for _, r := range runs {
		first := r[0]
		if classes[first] == BidiPDI && match[first] != -1 {
			continue // continues the sequence of its initiator
		}
		seq := append([]int(nil), r...)
		for {
			last := seq[len(seq)-1]
			if !isIsolateInit(classes[last]) || match[last] == -1 {
				break
			}
			nri, ok := runStartingAt[match[last]]
			if !ok {
				break
			}
			seq = append(seq, runs[nri]...)
		}
		lvl := emb[seq[0]]
		// sos / eos
		before, after := paraLevel, paraLevel
		if k := posInKept[seq[0]]; k > 0 {
			before = emb[kept[k-1]]
		}
		last := seq[len(seq)-1]
		if !(isIsolateInit(classes[last]) && match[last] == -1) {
			if k := posInKept[last]; k+1 < len(kept) {
				after = emb[kept[k+1]]
			}
		}
		sos, eos := dirOfLevel(max(lvl, before)), dirOfLevel(max(lvl, after))
		embDir := dirOfLevel(lvl)

		t := make([]BidiClass, len(seq))
		for k, i := range seq {
			t[k] = types[i]
			if isIsolateInit(t[k]) || t[k] == BidiPDI {
				t[k] = BidiWS // neutral isolate formatting character
			}
		}
		// W7
		w := append([]BidiClass(nil), t...)
		for k := range t {
			if t[k] != BidiEN {
				continue
			}
			strong := sos
			for j := k - 1; j >= 0; j-- {
				if t[j] == BidiL || t[j] == BidiR {
					strong = t[j]
					break
				}
			}
			if strong == BidiL {
				w[k] = BidiL
			}
		}
		// N1 / N2
		asStrong := func(c BidiClass) BidiClass {
			if c == BidiEN {
				return BidiR
			}
			return c
		}
		res := append([]BidiClass(nil), w...)
		for k := 0; k < len(w); {
			if w[k] != BidiWS {
				k++
				continue
			}
			j := k
			for j < len(w) && w[j] == BidiWS {
				j++
			}
			lead, trail := sos, eos
			if k > 0 {
				lead = asStrong(w[k-1])
			}
			if j < len(w) {
				trail = asStrong(w[j])
			}
			d := embDir
			if lead == trail {
				d = lead
			}
			for x := k; x < j; x++ {
				res[x] = d
			}
			k = j
		}
		// I1 / I2
		for k, i := range seq {
			switch {
			case lvl%2 == 0 && res[k] == BidiR:
				levels[i] = lvl + 1
			case lvl%2 == 0 && res[k] == BidiEN:
				levels[i] = lvl + 2
			case lvl%2 == 1 && (res[k] == BidiL || res[k] == BidiEN):
				levels[i] = lvl + 1
			}
		}
	}

	// characters removed by X9: level of the preceding character
	for i, c := range classes {
		if removedByX9(c) {
			if i == 0 {
				levels[i] = paraLevel
			} else {
				levels[i] = levels[i-1]
			}
		}
	}
	// L1 at the end of the paragraph: whitespace and formatting characters
	if l1AtEnd {
		for i := n - 1; i >= 0 && (classes[i] == BidiWS || IsBidiFormat(classes[i])); i-- {
			levels[i] = paraLevel
		}
	}
	return levels
}
