package uaxref

// Mini-UBA for property C08: a spec-direct implementation of the part of UAX #9 that applies to
// paragraphs made only of the bidi classes L, R, EN and WS, without explicit formatting characters
// (a single isolating run sequence at the paragraph embedding level). Rules W7, N1, N2, I1, I2
// and L1 (end of paragraph) are the only ones that can fire on such text: W1–W6 need NSM, AL, ES,
// CS, ET or AN; N0 needs brackets; X1–X10 need explicit formatting characters.
//
// Rule L2 (reordering from levels) is provided separately and is written literally from the rule
// text, independently of the reversal scheme used by the library.

// BidiClass is one of the four classes the mini-UBA understands.
type BidiClass uint8

const (
	BidiL  BidiClass = iota // strong left-to-right
	BidiR                   // strong right-to-left (Hebrew letters; never AL)
	BidiEN                  // European number
	BidiWS                  // whitespace (neutral)
)

// MiniBidiClass classifies the runes the C08 generator uses; ok is false for anything else.
func MiniBidiClass(r rune) (c BidiClass, ok bool) {
	switch {
	case r >= 'a' && r <= 'z', r >= 'A' && r <= 'Z',
		r >= 0x03B1 && r <= 0x03C9, // Greek small letters
		r >= 0x0430 && r <= 0x044F: // Cyrillic small letters
		return BidiL, true
	case r >= 0x05D0 && r <= 0x05EA:
		return BidiR, true
	case r >= '0' && r <= '9':
		return BidiEN, true
	case r == ' ':
		return BidiWS, true
	}
	return 0, false
}

// MiniBidiLevels returns the resolved embedding level of every character of one paragraph with
// the given paragraph level (0 or 1). l1AtEnd applies rule L1 to the end of the paragraph (the
// trailing whitespace of the paragraph is reset to the paragraph level), as an implementation that
// treats the whole paragraph as one line does.
func MiniBidiLevels(classes []BidiClass, paraLevel int, l1AtEnd bool) []int {
	n := len(classes)
	e := paraLevel
	embDir := BidiL // direction of the embedding level = sos = eos (single level run)
	if e%2 == 1 {
		embDir = BidiR
	}
	t := make([]BidiClass, n)
	copy(t, classes)

	// W7: search backward from each EN for the first strong type (R, L or sos); if L, EN -> L.
	for i := 0; i < n; i++ {
		if classes[i] != BidiEN {
			continue
		}
		strong := embDir
		for j := i - 1; j >= 0; j-- {
			if classes[j] == BidiL || classes[j] == BidiR {
				strong = classes[j]
				break
			}
		}
		if strong == BidiL {
			t[i] = BidiL
		}
	}

	// N1/N2 on each maximal sequence of neutrals. European numbers count as R for N1.
	asStrong := func(c BidiClass) BidiClass {
		if c == BidiEN {
			return BidiR
		}
		return c
	}
	res := make([]BidiClass, n)
	copy(res, t)
	for i := 0; i < n; {
		if t[i] != BidiWS {
			i++
			continue
		}
		j := i
		for j < n && t[j] == BidiWS {
			j++
		}
		lead, trail := embDir, embDir
		if i > 0 {
			lead = asStrong(t[i-1])
		}
		if j < n {
			trail = asStrong(t[j])
		}
		dir := embDir // N2
		if lead == trail {
			dir = lead // N1
		}
		for k := i; k < j; k++ {
			res[k] = dir
		}
		i = j
	}

	// I1 / I2
	levels := make([]int, n)
	for i, c := range res {
		if e%2 == 0 {
			switch c {
			case BidiL:
				levels[i] = e
			case BidiR:
				levels[i] = e + 1
			case BidiEN:
				levels[i] = e + 2
			}
		} else {
			switch c {
			case BidiR:
				levels[i] = e
			case BidiL, BidiEN:
				levels[i] = e + 1
			}
		}
	}

	// L1 (end of paragraph only): trailing whitespace gets the paragraph level.
	if l1AtEnd {
		for i := n - 1; i >= 0 && classes[i] == BidiWS; i-- {
			levels[i] = e
		}
	}
	return levels
}

// L2Order applies rule L2 of UAX #9 to the levels of the items of one line, given in logical
// order: "from the highest level found in the text to the lowest odd level on each line,
// including intermediate levels not actually present in the text, reverse any contiguous sequence
// of characters that are at that level or higher". It returns the visual order: order[v] is the
// logical index of the item displayed at visual position v (0 = leftmost).
func L2Order(levels []int) []int {
	n := len(levels)
	order := make([]int, n)
	for i := range order {
		order[i] = i
	}
	if n == 0 {
		return order
	}
	highest, lowestOdd := -1, -1
	for _, l := range levels {
		if l > highest {
			highest = l
		}
		if l%2 == 1 && (lowestOdd == -1 || l < lowestOdd) {
			lowestOdd = l
		}
	}
	if lowestOdd == -1 {
		return order
	}
	for k := highest; k >= lowestOdd; k-- {
		for i := 0; i < n; {
			if levels[order[i]] < k {
				i++
				continue
			}
			j := i
			for j < n && levels[order[j]] >= k {
				j++
			}
			for a, b := i, j-1; a < b; a, b = a+1, b-1 {
				order[a], order[b] = order[b], order[a]
			}
			i = j
		}
	}
	return order
}
