package uaxref

import (
	"unicode"

	ucd "github.com/go-text/typesetting/unicodedata"
)

type gb = *unicode.RangeTable

// GraphemeBreaks: boundary flags for positions 0..n (UAX#29 GB1-GB13, GB999; no GB9c).
func GraphemeBreaks(text []rune) []bool {
	n := len(text)
	out := make([]bool, n+1)
	out[0], out[n] = true, true // GB1, GB2
	if n == 0 {
		return out
	}
	c := make([]gb, n)
	for i, r := range text {
		c[i] = ucd.LookupGraphemeBreakClass(r)
	}
	isPic := func(i int) bool { return unicode.Is(ucd.Extended_Pictographic, text[i]) }
	for i := 1; i < n; i++ {
		a, b := c[i-1], c[i]
		out[i] = func() bool {
			// GB3
			if a == ucd.GraphemeBreakCR && b == ucd.GraphemeBreakLF {
				return false
			}
			// GB4, GB5
			if in(a, ucd.GraphemeBreakControl, ucd.GraphemeBreakCR, ucd.GraphemeBreakLF) ||
				in(b, ucd.GraphemeBreakControl, ucd.GraphemeBreakCR, ucd.GraphemeBreakLF) {
				return true
			}
			// GB6
			if a == ucd.GraphemeBreakL && in(b, ucd.GraphemeBreakL, ucd.GraphemeBreakV, ucd.GraphemeBreakLV, ucd.GraphemeBreakLVT) {
				return false
			}
			// GB7
			if in(a, ucd.GraphemeBreakLV, ucd.GraphemeBreakV) && in(b, ucd.GraphemeBreakV, ucd.GraphemeBreakT) {
				return false
			}
			// GB8
			if in(a, ucd.GraphemeBreakLVT, ucd.GraphemeBreakT) && b == ucd.GraphemeBreakT {
				return false
			}
			// GB9, GB9a, GB9b
			if in(b, ucd.GraphemeBreakExtend, ucd.GraphemeBreakZWJ, ucd.GraphemeBreakSpacingMark) {
				return false
			}
			if a == ucd.GraphemeBreakPrepend {
				return false
			}
			// GB11: ExtPict Extend* ZWJ × ExtPict
			if isPic(i) && a == ucd.GraphemeBreakZWJ {
				j := i - 2
				for j >= 0 && c[j] == ucd.GraphemeBreakExtend {
					j--
				}
				if j >= 0 && isPic(j) {
					return false
				}
			}
			// GB12, GB13
			if a == ucd.GraphemeBreakRegional_Indicator && b == ucd.GraphemeBreakRegional_Indicator {
				cnt := 0
				for j := i - 1; j >= 0 && c[j] == ucd.GraphemeBreakRegional_Indicator; j-- {
					cnt++
				}
				if cnt%2 == 1 {
					return false
				}
			}
			return true
		}()
	}
	return out
}

type wb = *unicode.RangeTable

// WordBreaks: boundary flags for positions 0..n (UAX#29 WB1-WB16, WB999) on the library's
// merged classes (NewlineCRLF = CR|LF|Newline, ExtendFormat = Extend|Format|ZWJ).
func WordBreaks(text []rune) []bool {
	n := len(text)
	out := make([]bool, n+1)
	out[0], out[n] = true, true
	if n == 0 {
		return out
	}
	c := make([]wb, n)
	for i, r := range text {
		c[i] = ucd.LookupWordBreakClass(r)
	}
	ahletter := func(x wb) bool { return x == ucd.WordBreakALetter || x == ucd.WordBreakHebrew_Letter }
	// skip: index of the previous rune that is not ExtendFormat, starting at j (inclusive), going left,
	// stopping (not skipping) across... WB4 does not apply after sot, CR, LF, Newline: X (Extend|Format|ZWJ)* -> X
	// where X is any char except Newline/CR/LF. So an ExtendFormat directly after a Newline is itself a base.
	isAttached := func(i int) bool { // text[i] is ExtendFormat attached to a preceding base by WB4
		if c[i] != ucd.WordBreakExtendFormat || i == 0 {
			return false
		}
		// find the start of the ExtendFormat run
		j := i
		for j-1 >= 0 && c[j-1] == ucd.WordBreakExtendFormat {
			j--
		}
		// run is text[j..i]; char before the run is j-1
		if j == 0 {
			// run starts at sot: the first element is a base (cannot attach to sot), the rest attach to it
			return i != 0
		}
		if c[j-1] == ucd.WordBreakNewlineCRLF {
			// first of the run is a base, the others attach to it
			return i != j
		}
		return true
	}
	prevBase := func(i int) int { // greatest k < i with text[k] not attached; -1 if none
		for k := i - 1; k >= 0; k-- {
			if !isAttached(k) {
				return k
			}
		}
		return -1
	}
	nextBase := func(i int) int { // smallest k > i not attached
		for k := i + 1; k < n; k++ {
			if !isAttached(k) {
				return k
			}
		}
		return -1
	}
	cl := func(k int) wb {
		if k < 0 || k >= n {
			return nil
		}
		return c[k]
	}
	for i := 1; i < n; i++ {
		out[i] = func() bool {
			a, b := c[i-1], c[i]
			// WB3
			if text[i-1] == '\r' && text[i] == '\n' {
				return false
			}
			// WB3a, WB3b
			if a == ucd.WordBreakNewlineCRLF || b == ucd.WordBreakNewlineCRLF {
				return true
			}
			// WB3c
			if text[i-1] == 0x200D && unicode.Is(ucd.Extended_Pictographic, text[i]) {
				return false
			}
			// WB3d
			if a == ucd.WordBreakWSegSpace && b == ucd.WordBreakWSegSpace {
				return false
			}
			// WB4
			if b == ucd.WordBreakExtendFormat {
				return false
			}
			// from now on, use bases
			p1 := prevBase(i)
			p2 := -1
			if p1 >= 0 {
				p2 = prevBase(p1)
			}
			n1 := nextBase(i)
			A, AA, B, BB := cl(p1), cl(p2), b, cl(n1)
			if n1 < 0 {
				BB = nil
			}
			if p2 < 0 {
				AA = nil
			}
			// WB5
			if ahletter(A) && ahletter(B) {
				return false
			}
			// WB6
			if ahletter(A) && in(B, ucd.WordBreakMidLetter, ucd.WordBreakMidNumLet, ucd.WordBreakSingle_Quote) && ahletter(BB) {
				return false
			}
			// WB7
			if ahletter(AA) && in(A, ucd.WordBreakMidLetter, ucd.WordBreakMidNumLet, ucd.WordBreakSingle_Quote) && ahletter(B) {
				return false
			}
			// WB7a
			if A == ucd.WordBreakHebrew_Letter && B == ucd.WordBreakSingle_Quote {
				return false
			}
			// WB7b
			if A == ucd.WordBreakHebrew_Letter && B == ucd.WordBreakDouble_Quote && BB == ucd.WordBreakHebrew_Letter {
				return false
			}
			// WB7c
			if AA == ucd.WordBreakHebrew_Letter && A == ucd.WordBreakDouble_Quote && B == ucd.WordBreakHebrew_Letter {
				return false
			}
			// WB8, WB9, WB10
			if A == ucd.WordBreakNumeric && B == ucd.WordBreakNumeric {
				return false
			}
			if ahletter(A) && B == ucd.WordBreakNumeric {
				return false
			}
			if A == ucd.WordBreakNumeric && ahletter(B) {
				return false
			}
			// WB11
			if AA == ucd.WordBreakNumeric && in(A, ucd.WordBreakMidNum, ucd.WordBreakMidNumLet, ucd.WordBreakSingle_Quote) && B == ucd.WordBreakNumeric {
				return false
			}
			// WB12
			if A == ucd.WordBreakNumeric && in(B, ucd.WordBreakMidNum, ucd.WordBreakMidNumLet, ucd.WordBreakSingle_Quote) && BB == ucd.WordBreakNumeric {
				return false
			}
			// WB13
			if A == ucd.WordBreakKatakana && B == ucd.WordBreakKatakana {
				return false
			}
			// WB13a
			if (ahletter(A) || in(A, ucd.WordBreakNumeric, ucd.WordBreakKatakana, ucd.WordBreakExtendNumLet)) && B == ucd.WordBreakExtendNumLet {
				return false
			}
			// WB13b
			if A == ucd.WordBreakExtendNumLet && (ahletter(B) || in(B, ucd.WordBreakNumeric, ucd.WordBreakKatakana)) {
				return false
			}
			// WB15, WB16
			if A == ucd.WordBreakRegional_Indicator && B == ucd.WordBreakRegional_Indicator {
				cnt := 0
				for k := p1; k >= 0 && c[k] == ucd.WordBreakRegional_Indicator; k = prevBase(k) {
					cnt++
				}
				if cnt%2 == 1 {
					return false
				}
			}
			return true
		}()
	}
	return out
}
