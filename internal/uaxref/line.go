// Package uaxref: spec-direct (quadratic, scan-based) reference for UAX#14 (Unicode 14/15.0 rule set,
// Example 7 tailoring of LB13/LB25) and UAX#29, applied to the library's character classes.
package uaxref

import (
	"unicode"

	ucd "github.com/go-text/typesetting/unicodedata"
)

type Brk uint8

const (
	No Brk = iota
	Allowed
	Mandatory
)

type lb = *unicode.RangeTable

func in(c lb, set ...lb) bool {
	for _, s := range set {
		if c == s {
			return true
		}
	}
	return false
}

// resolved class after LB1
func lbClass(r rune) lb {
	c := ucd.LookupLineBreakClass(r)
	switch c {
	case ucd.BreakAI, ucd.BreakSG, ucd.BreakXX:
		return ucd.BreakAL
	case ucd.BreakSA:
		gc := ucd.LookupType(r)
		if gc == unicode.Mn || gc == unicode.Mc {
			return ucd.BreakCM
		}
		return ucd.BreakAL
	case ucd.BreakCJ:
		return ucd.BreakNS
	}
	return c
}

// LineBreaks returns, for i in 0..len(text), the break status at position i
// (between text[i-1] and text[i]). Position 0 is No (LB2), position len is Mandatory (LB3).
func LineBreaks(text []rune) []Brk {
	n := len(text)
	out := make([]Brk, n+1)
	if n == 0 {
		out[0] = Mandatory // sot/eot coincide; the library sets both: LB2 clears then LB3 sets
		return out
	}
	c := make([]lb, n)
	for i, r := range text {
		c[i] = lbClass(r)
	}
	hard := func(x lb) bool {
		return in(x, ucd.BreakBK, ucd.BreakCR, ucd.BreakLF, ucd.BreakNL, ucd.BreakSP, ucd.BreakZW)
	}
	isCMZ := func(x lb) bool { return x == ucd.BreakCM || x == ucd.BreakZWJ }
	// LB9/LB10: attached[i] true if text[i] is CM/ZWJ absorbed into a preceding base.
	attached := make([]bool, n)
	eff := make([]lb, n)
	for i := 0; i < n; i++ {
		eff[i] = c[i]
		if isCMZ(c[i]) {
			if i == 0 || hard(c[i-1]) {
				eff[i] = ucd.BreakAL // LB10
			} else {
				attached[i] = true // LB9 (note c[i-1] may itself be attached or LB10'd: still X)
			}
		}
	}
	// reduced sequence
	var idx []int // indices of non attached runes
	pos := make([]int, n)
	for i := 0; i < n; i++ {
		if !attached[i] {
			pos[i] = len(idx)
			idx = append(idx, i)
		} else {
			pos[i] = -1
		}
	}
	cls := func(k int) lb { // class at reduced index k, nil if out of range
		if k < 0 || k >= len(idx) {
			return nil
		}
		return eff[idx[k]]
	}
	run := func(k int) rune { return text[idx[k]] }

	out[0] = No
	out[n] = Mandatory
	for i := 1; i < n; i++ {
		out[i] = decide(text, c, attached, i, pos, cls, run, len(idx))
	}
	return out
}

func decide(text []rune, c []lb, attached []bool, i int, pos []int, cls func(int) lb, run func(int) rune, nred int) Brk {
	a, b := c[i-1], c[i]
	// LB4
	if a == ucd.BreakBK {
		return Mandatory
	}
	// LB5
	if a == ucd.BreakCR && b == ucd.BreakLF {
		return No
	}
	if in(a, ucd.BreakCR, ucd.BreakLF, ucd.BreakNL) {
		return Mandatory
	}
	// LB6
	if in(b, ucd.BreakBK, ucd.BreakCR, ucd.BreakLF, ucd.BreakNL) {
		return No
	}
	// LB7
	if in(b, ucd.BreakSP, ucd.BreakZW) {
		return No
	}
	// LB8: ZW SP* ÷
	{
		j := i - 1
		for j >= 0 && c[j] == ucd.BreakSP {
			j--
		}
		if j >= 0 && c[j] == ucd.BreakZW {
			return Allowed
		}
	}
	// LB8a: ZWJ ×
	if a == ucd.BreakZWJ {
		return No
	}
	// LB9: do not break inside X (CM|ZWJ)*
	if attached[i] {
		return No
	}
	// from here on, work on the reduced sequence: boundary before reduced index k
	k := pos[i]
	L1, L2 := cls(k-1), cls(k-2)
	R0, R1 := cls(k), cls(k+1)
	_ = L2
	// class before SP* (reduced)
	beforeSP := func() lb {
		j := k - 1
		for j >= 0 && cls(j) == ucd.BreakSP {
			j--
		}
		return cls(j)
	}
	// LB11
	if L1 == ucd.BreakWJ || R0 == ucd.BreakWJ {
		return No
	}
	// LB12
	if L1 == ucd.BreakGL {
		return No
	}
	// LB12a
	if R0 == ucd.BreakGL && !in(L1, ucd.BreakSP, ucd.BreakBA, ucd.BreakHY) {
		return No
	}
	// LB13 (tailored)
	if R0 == ucd.BreakEX {
		return No
	}
	if in(R0, ucd.BreakCL, ucd.BreakCP, ucd.BreakIS, ucd.BreakSY) && L1 != ucd.BreakNU {
		return No
	}
	// LB14
	if beforeSP() == ucd.BreakOP {
		return No
	}
	// LB15
	if beforeSP() == ucd.BreakQU && R0 == ucd.BreakOP {
		return No
	}
	// LB16
	if in(beforeSP(), ucd.BreakCL, ucd.BreakCP) && R0 == ucd.BreakNS {
		return No
	}
	// LB17
	if beforeSP() == ucd.BreakB2 && R0 == ucd.BreakB2 {
		return No
	}
	// LB18
	if L1 == ucd.BreakSP {
		return Allowed
	}
	// LB19
	if L1 == ucd.BreakQU || R0 == ucd.BreakQU {
		return No
	}
	// LB20
	if L1 == ucd.BreakCB || R0 == ucd.BreakCB {
		return Allowed
	}
	// LB21
	if in(R0, ucd.BreakBA, ucd.BreakHY, ucd.BreakNS) || L1 == ucd.BreakBB {
		return No
	}
	// LB21a
	if L2 == ucd.BreakHL && in(L1, ucd.BreakHY, ucd.BreakBA) {
		return No
	}
	// LB21b
	if L1 == ucd.BreakSY && R0 == ucd.BreakHL {
		return No
	}
	// LB22
	if R0 == ucd.BreakIN {
		return No
	}
	// LB23
	if in(L1, ucd.BreakAL, ucd.BreakHL) && R0 == ucd.BreakNU {
		return No
	}
	if L1 == ucd.BreakNU && in(R0, ucd.BreakAL, ucd.BreakHL) {
		return No
	}
	// LB23a
	if L1 == ucd.BreakPR && in(R0, ucd.BreakID, ucd.BreakEB, ucd.BreakEM) {
		return No
	}
	if in(L1, ucd.BreakID, ucd.BreakEB, ucd.BreakEM) && R0 == ucd.BreakPO {
		return No
	}
	// LB24
	if in(L1, ucd.BreakPR, ucd.BreakPO) && in(R0, ucd.BreakAL, ucd.BreakHL) {
		return No
	}
	if in(L1, ucd.BreakAL, ucd.BreakHL) && in(R0, ucd.BreakPR, ucd.BreakPO) {
		return No
	}
	// LB25 (Example 7)
	{
		// (PR | PO) × ( OP | HY )? NU
		if in(L1, ucd.BreakPR, ucd.BreakPO) {
			if R0 == ucd.BreakNU {
				return No
			}
			if in(R0, ucd.BreakOP, ucd.BreakHY) && R1 == ucd.BreakNU {
				return No
			}
		}
		// ( OP | HY ) × NU
		if in(L1, ucd.BreakOP, ucd.BreakHY) && R0 == ucd.BreakNU {
			return No
		}
		// NU × (NU | SY | IS)
		if L1 == ucd.BreakNU && in(R0, ucd.BreakNU, ucd.BreakSY, ucd.BreakIS) {
			return No
		}
		// NU (NU | SY | IS)* × (NU | SY | IS | CL | CP )
		numBefore := func(j int) bool { // is cls(..j) ending a NU (NU|SY|IS)* sequence
			for j >= 0 && in(cls(j), ucd.BreakSY, ucd.BreakIS) {
				j--
			}
			return j >= 0 && cls(j) == ucd.BreakNU
		}
		if in(R0, ucd.BreakNU, ucd.BreakSY, ucd.BreakIS, ucd.BreakCL, ucd.BreakCP) && numBefore(k-1) {
			return No
		}
		// NU (NU | SY | IS)* (CL | CP)? × (PO | PR)
		if in(R0, ucd.BreakPO, ucd.BreakPR) {
			j := k - 1
			if in(cls(j), ucd.BreakCL, ucd.BreakCP) {
				if numBefore(j - 1) {
					return No
				}
			}
			if numBefore(k - 1) {
				return No
			}
		}
	}
	// LB26
	if L1 == ucd.BreakJL && in(R0, ucd.BreakJL, ucd.BreakJV, ucd.BreakH2, ucd.BreakH3) {
		return No
	}
	if in(L1, ucd.BreakJV, ucd.BreakH2) && in(R0, ucd.BreakJV, ucd.BreakJT) {
		return No
	}
	if in(L1, ucd.BreakJT, ucd.BreakH3) && R0 == ucd.BreakJT {
		return No
	}
	// LB27
	if in(L1, ucd.BreakJL, ucd.BreakJV, ucd.BreakJT, ucd.BreakH2, ucd.BreakH3) && R0 == ucd.BreakPO {
		return No
	}
	if L1 == ucd.BreakPR && in(R0, ucd.BreakJL, ucd.BreakJV, ucd.BreakJT, ucd.BreakH2, ucd.BreakH3) {
		return No
	}
	// LB28
	if in(L1, ucd.BreakAL, ucd.BreakHL) && in(R0, ucd.BreakAL, ucd.BreakHL) {
		return No
	}
	// LB29
	if L1 == ucd.BreakIS && in(R0, ucd.BreakAL, ucd.BreakHL) {
		return No
	}
	// LB30
	if in(L1, ucd.BreakAL, ucd.BreakHL, ucd.BreakNU) && R0 == ucd.BreakOP && !unicode.Is(ucd.LargeEastAsian, run(k)) {
		return No
	}
	if L1 == ucd.BreakCP && !unicode.Is(ucd.LargeEastAsian, run(k-1)) && in(R0, ucd.BreakAL, ucd.BreakHL, ucd.BreakNU) {
		return No
	}
	// LB30a
	if R0 == ucd.BreakRI {
		cnt := 0
		for j := k - 1; j >= 0 && cls(j) == ucd.BreakRI; j-- {
			cnt++
		}
		if cnt%2 == 1 {
			return No
		}
	}
	// LB30b
	if R0 == ucd.BreakEM {
		if L1 == ucd.BreakEB {
			return No
		}
		if p := run(k - 1); unicode.Is(ucd.Extended_Pictographic, p) && ucd.LookupType(p) == nil {
			return No
		}
	}
	// LB31
	return Allowed
}
