#!/usr/bin/env python3
"""known_findings.json maintenance: kf.py fixed <id> <commit> | kf.py list | kf.py rm <id>"""
import json, os, sys, fcntl
P = os.path.join(os.path.dirname(os.path.abspath(__file__)), "known_findings.json")
def load():
    return json.load(open(P))
def save(d):
    tmp = P + ".tmp"
    json.dump(d, open(tmp, "w"), indent=1, ensure_ascii=False)
    os.replace(tmp, P)
a = sys.argv[1:]
d = load()
if a[0] == "list":
    for f in d["findings"]:
        print(f["property"], f["status"], f["id"], f.get("commit", ""))
elif a[0] == "fixed":
    for f in d["findings"]:
        if f["id"] == a[1]:
            f["status"] = "fixed"; f["commit"] = a[2]
            if not f["what"].startswith("fixed:"):
                f["what"] = "fixed: property=%s %s %s" % (f["property"], a[2], f["what"])
            print("fixed", a[1])
    save(d)
elif a[0] == "rm":
    d["findings"] = [f for f in d["findings"] if f["id"] != a[1]]
    save(d)
