#!/usr/bin/env python3
"""Regenerates MANIFEST.json from checks.json (single source of truth for commands and levels)."""
import json, os, subprocess
ROOT = os.path.dirname(os.path.abspath(__file__))
cfg = {"properties": {}}
for d in sorted(os.listdir(os.path.join(ROOT, "props"))):
    f = os.path.join(ROOT, "props", d, "check.json")
    if os.path.exists(f):
        cfg["properties"].update(json.load(open(f))["properties"])
props = [json.loads(l) for l in open(os.path.join(ROOT, "properties.jsonl")) if l.strip()]
hooks = subprocess.run(["git", "-C", "/repo", "log", "--format=%H %s"], capture_output=True, text=True).stdout.splitlines()
hook_commits = [l.split()[0] for l in hooks if " verif hook" in l]
checks, na = [], []
for p in props:
    pid = p["id"]
    pc = cfg["properties"].get(pid)
    if not pc or pc.get("disabled") or not pc.get("ready"):
        na.append({"property_id": pid, "reason": (pc or {}).get("na_reason", cfg.get("na_reasons", {}).get(pid, "check not built yet in this session; design in DESIGN.md section 2"))})
        continue
    m = pc["manifest"]
    c = {
        "property_id": pid,
        "quick_cmd": "./run %s quick" % pid,
        "thorough_cmd": "./run %s thorough" % pid,
        "evidence_file": "/verif/evidence/%s.json" % pid,
        "replay_cmd_template": "./run %s --replay {path}" % pid,
        "engine": "run",
        "level_claimed": {"category": pc["level"], "text": m["level_text"], "design_ref": m.get("design_ref", "DESIGN.md section 2, " + pid)},
        "level_note": m["level_note"],
        "technique": m["technique"],
    }
    checks.append(c)
man = {
    "version": 1,
    "setup_cmd": "./run setup",
    "hooks": {
        "guard": "verif",
        "enable": "go build tag: every check compiles its test package with `go test -c -tags verif` in the /verif module, whose go.mod replaces github.com/go-text/typesetting by /repo (current working tree)",
        "baseline_off_cmd": "cd /repo && go test -vet=off -count=1 -timeout 25m ./...",
        "source_commits": hook_commits,
        "add_only": True,
    },
    "engines": [{"name": "run", "path": "/verif/run", "serves_properties": [c["property_id"] for c in checks],
                 "kind_free_text": "python driver: builds the Go property package of the property against /repo with tag verif, runs replay tier + rapid/enumerator/fuzz shards as separate processes, merges counters into evidence, prints VIOLATION/KNOWN-FINDING lines"}],
    "checks": checks,
    "not_applicable": na,
    "notes": "Technique family: property-based testing and fuzzing (pgregory.net/rapid v1.3.0 generators and state machines, exhaustive small-scope enumerators, native go fuzzing in thorough tiers). Known findings: /verif/known_findings.json. Seeded breakages used for sensitivity: /verif/seeded/.",
}
json.dump(man, open(os.path.join(ROOT, "MANIFEST.json"), "w"), indent=1)
print("checks:", [c["property_id"] for c in checks], "not_applicable:", [x["property_id"] for x in na])
