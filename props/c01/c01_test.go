// Package c01 decides property C01: shaping is total and accounts for every input rune.
//
// Generated cases (font of the corpus × text × run bounds × direction/orientation × script ×
// language × size × features, and at the harfbuzz level cluster level × buffer flags × glyph
// overrides) are executed at both API levels, each under recover() with a journal entry written
// before the call (so that a hang or a fatal runtime error is attributed by the driver), and the
// result is checked against the validity predicate of the property statement.
package c01

import (
	"encoding/json"
	"fmt"
	"os"
	"path/filepath"
	"regexp"
	"sort"
	"strconv"
	"strings"
	"testing"
	"time"
	"unicode"

	"github.com/go-text/typesetting/di"
	"github.com/go-text/typesetting/font"
	"github.com/go-text/typesetting/font/opentype/tables"
	"github.com/go-text/typesetting/harfbuzz"
	"github.com/go-text/typesetting/shaping"
	ucd "github.com/go-text/typesetting/unicodedata"
	"pgregory.net/rapid"

	"verif/internal/ev"
	sc "verif/internal/shapecase"
	"verif/internal/textgen"
)

// TestMain is ev.Main(m), except in the worker processes of native fuzzing: `go test -fuzz` runs
// several copies of this binary with the same environment, and their concurrent flushes would
// interleave in the one $VERIF_OUT/counters.json (seen: the driver could not parse it). Workers
// therefore keep fail.json (atomic rename) but write neither counters nor journal; the
// coordinator process flushes as usual.
func TestMain(m *testing.M) {
	for _, a := range os.Args[1:] {
		if strings.HasPrefix(a, "-test.fuzzworker") {
			fuzzWorker = true
			os.Exit(m.Run())
		}
	}
	ev.Main(m)
}

var fuzzWorker bool

const (
	checkName = "shape"
	// slowLimit is the watchdog of DESIGN §1.5: ≥ 1000 × the typical case time (a ≤ 64-rune shaping
	// takes well under 5 ms). A slow case is re-measured before it is reported.
	slowLimit = 6 * time.Second
	// hangLimit is the in-process watchdog (see checkCase).
	hangLimit = 10 * time.Second
)

func maxLenForTier() int { return ev.Scale(64, 512) }

// sizeBudget is the output-size clause: 4 × the library's own growth budget max(64·n, 16384).
func sizeBudget(n int) int {
	b := 64 * n
	if b < 16384 {
		b = 16384
	}
	return 4 * b
}

var hostileSet = func() map[rune]bool {
	m := map[rune]bool{}
	for _, r := range textgen.Hostile {
		m[r] = true
	}
	// plain spaces / combining marks of the hostile list are kept: they are there to stress clusters
	return m
}()

func validRune(r rune) bool { return r >= 0 && r <= 0x10FFFF && !(r >= 0xD800 && r <= 0xDFFF) }

// summary is what the oracle learned about one result (for classification).
type summary struct {
	glyphs       int
	merged       bool   // some cluster has RuneCount != 1 (shaping) / covers several runes (harfbuzz)
	multi        bool   // some cluster has more than one glyph
	nonMonotone2 bool   // cluster level 2 result that is not monotone (allowed)
	excluded     string // id of the known finding that explains a clause this case fails
}

// checkShapingOutput is the validity predicate of C01 on a shaping.Output.
func checkShapingOutput(c *sc.Case, out *shaping.Output) (summary, error) {
	var s summary
	start, end := c.Clamped()
	n := end - start
	s.glyphs = len(out.Glyphs)
	if len(out.Glyphs) > sizeBudget(n) {
		if s.excluded = sizeExcuse(c, out.Face, len(out.Glyphs), n); s.excluded == "" {
			return s, fmt.Errorf("output has %d glyphs for a run of %d runes (budget %d)", len(out.Glyphs), n, sizeBudget(n))
		}
	}
	// the output reports exactly the requested rune range
	if out.Runes.Offset != c.RunStart || out.Runes.Count != c.RunEnd-c.RunStart {
		return s, fmt.Errorf("Output.Runes = {Offset %d, Count %d}, requested {%d, %d}", out.Runes.Offset, out.Runes.Count, c.RunStart, c.RunEnd-c.RunStart)
	}
	if !c.InRange() {
		return s, nil // the remaining clauses are stated for run bounds lying within the text
	}
	backward := c.Direction().Progression() == di.TowardTopLeft
	gs := out.Glyphs
	for i, g := range gs {
		if g.ClusterIndex < start || g.ClusterIndex >= end {
			return s, fmt.Errorf("glyph %d: cluster %d outside the run [%d,%d)", i, g.ClusterIndex, start, end)
		}
		if i > 0 {
			p := gs[i-1].ClusterIndex
			if !backward && g.ClusterIndex < p || backward && g.ClusterIndex > p {
				if ev.Known(findingLevel0Upstream) {
					cl := make([]int, len(gs))
					for k := range gs {
						cl[k] = gs[k].ClusterIndex
					}
					if upstreamNonMonotoneSignature(c, cl, backward) {
						// the rune/glyph counts are derived from monotone clusters: nothing further to judge
						s.excluded = findingLevel0Upstream
						return s, nil
					}
				}
				return s, fmt.Errorf("glyph %d: cluster %d after %d is not monotone in the reading direction (backward=%v)", i, g.ClusterIndex, p, backward)
			}
		}
	}
	sum := 0
	for i := 0; i < len(gs); {
		j := i + 1
		for j < len(gs) && gs[j].ClusterIndex == gs[i].ClusterIndex {
			j++
		}
		for k := i; k < j; k++ {
			if gs[k].RuneCount != gs[i].RuneCount || gs[k].GlyphCount != gs[i].GlyphCount {
				return s, fmt.Errorf("cluster %d (glyphs %d..%d): glyph %d has RuneCount/GlyphCount %d/%d, glyph %d has %d/%d",
					gs[i].ClusterIndex, i, j-1, i, gs[i].RuneCount, gs[i].GlyphCount, k, gs[k].RuneCount, gs[k].GlyphCount)
			}
		}
		if gs[i].GlyphCount != j-i {
			return s, fmt.Errorf("cluster %d (glyphs %d..%d): GlyphCount %d, actual size %d", gs[i].ClusterIndex, i, j-1, gs[i].GlyphCount, j-i)
		}
		if gs[i].RuneCount != 1 {
			s.merged = true
		}
		if j-i != 1 {
			s.multi = true
		}
		sum += gs[i].RuneCount
		i = j
	}
	if len(gs) > 0 && sum != n {
		return s, fmt.Errorf("rune counts of the clusters sum to %d, run length is %d", sum, n)
	}
	return s, nil
}

// checkHarfbuzzResult is the validity predicate of C01 on the buffer after harfbuzz.Buffer.Shape.
func checkHarfbuzzResult(c *sc.Case, face *font.Face, res *sc.HBResult) (summary, error) {
	var s summary
	n := c.RunEnd - c.RunStart
	s.glyphs = len(res.Info)
	if len(res.Info) != len(res.Pos) {
		return s, fmt.Errorf("len(Info) = %d, len(Pos) = %d", len(res.Info), len(res.Pos))
	}
	if len(res.Info) > sizeBudget(n) {
		if s.excluded = sizeExcuse(c, face, len(res.Info), n); s.excluded == "" {
			return s, fmt.Errorf("output has %d glyphs for a run of %d runes (budget %d)", len(res.Info), n, sizeBudget(n))
		}
	}
	backward := res.Direction == harfbuzz.RightToLeft || res.Direction == harfbuzz.BottomToTop
	monotone := true
	distinct := map[int]bool{}
	// the clauses speak about the cluster values the caller gave: the rune indices with AddRunes,
	// arbitrary non-decreasing values with AddRune
	input := c.InputClusters()
	given := make(map[int]bool, len(input))
	for _, v := range input {
		given[v] = true
	}
	for i, g := range res.Info {
		if !given[g.Cluster] {
			if c.Fill == sc.FillAddRune {
				return s, fmt.Errorf("glyph %d: cluster %d is none of the cluster values given to AddRune (%d..%d)", i, g.Cluster, input[0], input[len(input)-1])
			}
			return s, fmt.Errorf("glyph %d: cluster %d outside the run [%d,%d)", i, g.Cluster, c.RunStart, c.RunEnd)
		}
		distinct[g.Cluster] = true
		if i > 0 {
			p := res.Info[i-1].Cluster
			if p == g.Cluster {
				s.multi = true
			}
			if !backward && g.Cluster < p || backward && g.Cluster > p {
				monotone = false
				if harfbuzz.ClusterLevel(c.ClusterLevel) != harfbuzz.Characters {
					if s.excluded != "" {
						continue
					}
					if ev.Known(findingLevel1Reverse) && level1ReverseSignature(c, res) {
						// weaker predicate checked by the matcher: monotone once graphemes are merged
						s.excluded = findingLevel1Reverse
						continue
					}
					if id := upstreamFinding(c.ClusterLevel); ev.Known(id) {
						cl := make([]int, len(res.Info))
						for k := range res.Info {
							cl[k] = res.Info[k].Cluster
						}
						if upstreamNonMonotoneSignature(c, cl, backward) {
							s.excluded = id
							continue
						}
					}
					return s, fmt.Errorf("glyph %d: cluster %d after %d is not monotone (cluster level %d, backward=%v)", i, g.Cluster, p, c.ClusterLevel, backward)
				}
			}
		}
	}
	s.nonMonotone2 = !monotone && s.excluded == ""
	// Rune accounting at the default cluster level, which is what shaping.Shape builds RuneCount on
	// (countClusters: the counts sum to end − lowest cluster): merged or deleted characters hand
	// their cluster to a neighbour, so the lowest cluster — first glyph in reading order — is the
	// first rune of the run.
	if harfbuzz.ClusterLevel(c.ClusterLevel) == harfbuzz.MonotoneGraphemes && len(res.Info) > 0 && s.excluded == "" {
		first := res.Info[0].Cluster
		if backward {
			first = res.Info[len(res.Info)-1].Cluster
		}
		if first != input[0] {
			return s, fmt.Errorf("cluster level 0: lowest cluster is %d, the first input item has cluster %d: input items before it are not accounted for by any output cluster", first, input[0])
		}
	}
	s.merged = len(res.Info) > 0 && len(distinct) < len(given)
	return s, nil
}

// execute runs the case once; returns the oracle verdict (kind tells which clause failed), the
// recovered panic if any, and the elapsed time of the call alone.
func execute(c *sc.Case, face *font.Face) (s summary, verdict error, p *sc.Panic, elapsed time.Duration) {
	t0 := time.Now()
	switch c.API {
	case sc.APIHarfbuzz:
		var res sc.HBResult
		res, p = sc.RunHarfbuzz(c, face)
		elapsed = time.Since(t0)
		if p != nil {
			return s, fmt.Errorf("%s", p), p, elapsed
		}
		s, verdict = checkHarfbuzzResult(c, face, &res)
	default:
		var out shaping.Output
		out, p = sc.RunShaping(c, face)
		elapsed = time.Since(t0)
		if p != nil {
			return s, fmt.Errorf("%s", p), p, elapsed
		}
		s, verdict = checkShapingOutput(c, &out)
	}
	return s, verdict, nil, elapsed
}

// ---- known findings: matchers that identify the defect, not the property ----
//
// A matcher is consulted only when the finding is listed as open in known_findings.json
// (ev.Known); otherwise the case is reported as a violation. Panic findings are identified by
// panic site (innermost library frames) + message class, as DESIGN §1.7 prescribes.

const (
	findingPositionsNotInSync = "C01-positions-not-in-sync-before-positioning"
	findingArabicConcat       = "C01-arabic-concat-no-prev"
	findingIndicBaseAtEnd     = "C01-indic-final-reordering-base-at-end"
	findingLevel1Reverse      = "C01-level1-reverse-graphemes"
	findingMorxLengthBudget   = "C01-morx-insertion-length-budget"
	findingGSUBLengthBudget   = "C01-gsub-multiple-length-budget"
	findingReverseLookupIdx   = "C01-reverse-lookup-cursor"
	findingLevel1Upstream     = "C01-level1-upstream-non-monotone"
	findingLevel0Upstream     = "C01-level0-upstream-non-monotone"
)

// opsBudget is the library's operation budget max(1024·n, 16384): the only limit on AAT insertions.
func opsBudget(n int) int {
	b := 1024 * n
	if b < 16384 {
		b = 16384
	}
	return b
}

// morxGrowthSignature: the face has a morx table and the output, although beyond the length budget,
// is within what the operation budget lets morx insert (weaker predicate that is still checked).
func morxGrowthSignature(c *sc.Case, glyphs, n int) bool {
	info := faceInfo(c)
	return info != nil && info.Traits.Morx && glyphs <= n+opsBudget(n)+64
}

// maxMultipleSeq is the longest output sequence of the GSUB multiple substitutions of the font (0 if none).
func maxMultipleSeq(f *font.Font) int {
	m := 0
	for _, l := range f.GSUB.Lookups {
		for _, st := range l.Subtables {
			if ms, ok := st.(tables.MultipleSubs); ok {
				for _, sq := range ms.Sequences {
					if len(sq.SubstituteGlyphIDs) > m {
						m = len(sq.SubstituteGlyphIDs)
					}
				}
			}
		}
	}
	return m
}

// gsubGrowthSignature: the face has a GSUB multiple substitution (the only GSUB lookup that grows the
// buffer) and the output, although beyond the length budget, is within what the operation budget
// allows (every applied substitution costs at least one operation and adds at most maxSeq-1 glyphs).
func gsubGrowthSignature(face *font.Face, glyphs, n int) bool {
	m := maxMultipleSeq(face.Font)
	return m >= 2 && glyphs <= n+opsBudget(n)*(m-1)+64
}

// sizeExcuse returns the id of the listed finding that explains an output beyond the size budget.
func sizeExcuse(c *sc.Case, face *font.Face, glyphs, n int) string {
	if ev.Known(findingMorxLengthBudget) && morxGrowthSignature(c, glyphs, n) {
		return findingMorxLengthBudget
	}
	if ev.Known(findingGSUBLengthBudget) && gsubGrowthSignature(face, glyphs, n) {
		return findingGSUBLengthBudget
	}
	return ""
}

var faceIndex map[string]int

func faceInfo(c *sc.Case) *sc.FaceInfo {
	p := sc.ThePool()
	if faceIndex == nil {
		faceIndex = map[string]int{}
		for i := range p.All {
			faceIndex[fmt.Sprintf("%s#%d", p.All[i].File, p.All[i].Index)] = i
		}
	}
	if i, ok := faceIndex[fmt.Sprintf("%s#%d", c.Font, c.Index)]; ok {
		return &p.Info[i]
	}
	return nil
}

var indexEqLength = regexp.MustCompile(`index out of range \[(\d+)\] with length (\d+)`)

// knownPanic returns the id of the finding whose signature the panic carries, or "".
func knownPanic(p *sc.Panic) string {
	frames := strings.Split(p.Site, " < ")
	inner := func(i int, fn string) bool { return i < len(frames) && strings.HasPrefix(frames[i], fn+" ") }
	switch {
	case (strings.Contains(p.Value, "slice bounds out of range") || strings.Contains(p.Value, "index out of range")) &&
		(inner(0, "harfbuzz.(*Buffer).reverseRange") || inner(0, "harfbuzz.(*Buffer).deleteGlyphsInplace")):
		// Pos indexed with Info's length before clearPositions has re-synchronised them
		return findingPositionsNotInSync
	case strings.Contains(p.Value, "index out of range [-1]") && inner(0, "harfbuzz.(*Buffer).findMinCluster") &&
		inner(1, "harfbuzz.(*Buffer).setGlyphFlags") && inner(2, "harfbuzz.(*Buffer).unsafeToConcat") && inner(3, "harfbuzz.applyArabicJoining"):
		return findingArabicConcat
	case strings.Contains(p.Value, "index out of range [-1]") && inner(0, "harfbuzz.(*Buffer).mergeClusters") &&
		inner(1, "harfbuzz.otLayoutDeleteGlyphsInplace"):
		// Buffer.idx left at -1 by applyBackward (reverse chaining lookup), read by the next in-place merge
		return findingReverseLookupIdx
	case inner(0, "harfbuzz.(*indicShapePlan).finalReorderingSyllableIndic"):
		// info[base] read with base == end == len(info)
		if m := indexEqLength.FindStringSubmatch(p.Value); m != nil && m[1] == m[2] {
			return findingIndicBaseAtEnd
		}
	}
	return ""
}

// graphemeStarts maps every rune index of the run to the index of the first rune of its grapheme,
// with HarfBuzz's own (simplified) notion of grapheme used when a buffer is reversed to its native
// direction: marks, ZWJ (+ a following Extended_Pictographic), emoji modifiers, the second of two
// regional indicators, halfwidth katakana sound marks and tag characters continue a grapheme.
func graphemeStarts(text []rune, start, end int) map[int]int {
	cont := make([]bool, end-start)
	ri := func(r rune) bool { return 0x1F1E6 <= r && r <= 0x1F1FF }
	for i := start; i < end; i++ {
		r := text[i]
		k := i - start
		switch {
		case unicode.Is(unicode.M, r):
			cont[k] = true
		case 0x1F3FB <= r && r <= 0x1F3FF:
			cont[k] = true
		case i != start && ri(r):
			if ri(text[i-1]) && !cont[k-1] {
				cont[k] = true
			}
		case r == 0x200D:
			cont[k] = true
			if i+1 < end && unicode.Is(ucd.Extended_Pictographic, text[i+1]) {
				i++
				cont[k+1] = true
			}
		case 0xFF9E <= r && r <= 0xFF9F || 0xE0020 <= r && r <= 0xE007F:
			cont[k] = true
		}
	}
	out := make(map[int]int, end-start)
	g := start
	for i := start; i < end; i++ {
		if !cont[i-start] {
			g = i
		}
		out[i] = g
	}
	return out
}

// nonMonotoneSteps lists the adjacent cluster pairs that break monotonicity.
func nonMonotoneSteps(clusters []int, backward bool) [][2]int {
	var out [][2]int
	for i := 1; i < len(clusters); i++ {
		p, g := clusters[i-1], clusters[i]
		if !backward && g < p || backward && g > p {
			out = append(out, [2]int{p, g})
		}
	}
	return out
}

// upstreamNonMonotoneSignature tells whether a non-monotone result at a monotone cluster level is
// what the reference implementation (libharfbuzz) returns for the same call: the same steps
// (previous cluster, cluster) break monotonicity in both. The port is then faithful to an upstream
// deviation from the documented level (seen after Indic/USE reordering of broken clusters), which is
// recorded as a finding without repair. Only the offending steps are compared, so that unrelated
// port/reference differences elsewhere in a long run (a hidden default ignorable, say — property
// C05's business) do not disable the matcher. A shaping.Shape call is given to the reference as the
// harfbuzz-level call it makes (level 0, no flags, global features).
func upstreamNonMonotoneSignature(c *sc.Case, clusters []int, backward bool) bool {
	h, ok := asHarfbuzzCall(c)
	if !ok {
		return false
	}
	if harfbuzz.ClusterLevel(h.ClusterLevel) == harfbuzz.Characters {
		return false
	}
	ref, ok := referenceClusters(&h)
	if !ok {
		return false
	}
	if h.Fill == sc.FillAddRune {
		// the reference numbers the items of the run 0, 1, 2…; translate to the caller's values
		// (a non-decreasing map: taking the minimum of a cluster commutes with it)
		off := 0
		if h.CtxPre {
			off = h.RunStart // the reference was given the pre-context: its item starts there
		}
		for i, v := range ref {
			v -= off
			if v < 0 || v >= len(h.Clusters) {
				return false
			}
			ref[i] = h.Clusters[v]
		}
	}
	a, b := nonMonotoneSteps(clusters, backward), nonMonotoneSteps(ref, backward)
	if len(a) == 0 || len(a) != len(b) {
		return false
	}
	for i := range a {
		if a[i] != b[i] {
			return false
		}
	}
	return true
}

func upstreamFinding(level uint8) string {
	if harfbuzz.ClusterLevel(level) == harfbuzz.MonotoneCharacters {
		return findingLevel1Upstream
	}
	return findingLevel0Upstream
}

// level1ReverseSignature tells whether a monotonicity failure at cluster level MonotoneCharacters
// is the one caused by reverseGraphemes not merging clusters: the cluster sequence becomes monotone
// as soon as every cluster value is replaced by the start of its grapheme.
func level1ReverseSignature(c *sc.Case, res *sc.HBResult) bool {
	if harfbuzz.ClusterLevel(c.ClusterLevel) != harfbuzz.MonotoneCharacters {
		return false
	}
	gs := graphemeStarts(c.Text, c.RunStart, c.RunEnd)
	backward := res.Direction == harfbuzz.RightToLeft || res.Direction == harfbuzz.BottomToTop
	for i := 1; i < len(res.Info); i++ {
		a, b := gs[res.Info[i-1].Cluster], gs[res.Info[i].Cluster]
		if !backward && b < a || backward && b > a {
			return false
		}
	}
	return true
}

// checkCase is the property: it is used by the rapid properties, the fuzz target and the replay.
func checkCase(t ev.TB, c sc.Case) {
	face, err := c.Face()
	if err != nil {
		t.Fatalf("case names a face the corpus cannot load: %v", err)
	}
	if c.API == sc.APIHarfbuzz && !c.InRange() {
		t.Fatalf("invalid case: harfbuzz-level call with out-of-range bounds")
	}
	if ev.Known(findingMorxLengthBudget) {
		// DESIGN §1.5 (3): once the finding is listed, the value class that triggers it (and costs
		// minutes per case: the growth is quadratic in time) is no longer executed, but counted
		start, end := c.Clamped()
		if info := faceInfo(&c); info != nil && info.Traits.Morx && end-start > 64 {
			ev.Excluded(findingMorxLengthBudget)
			ev.Case(false, c, "excluded:"+findingMorxLengthBudget+"(not executed)")
			return
		}
	}
	if !fuzzWorker {
		ev.Journal(checkName, c)
	}
	// In-process watchdog: a call that has not returned after hangLimit will most likely never
	// return (a case takes milliseconds; the slowest legitimate ones a second or two). The process
	// exits so that the journal names the case; the driver re-runs it alone and reports a violation
	// only if it fails again (a merely slow case on a loaded machine passes that second run).
	wd := time.AfterFunc(hangLimit, func() {
		fmt.Fprintf(os.Stderr, "C01 watchdog: shaping did not return within %v; exiting so that the journalled case is attributed\n", hangLimit)
		if fuzzWorker { // fuzz workers do not journal: leave the decoded case instead
			ev.WriteFail(checkName, c, fmt.Sprintf("shaping did not return within %v (watchdog)", hangLimit))
		}
		os.Exit(3)
	})
	s, verdict, pnc, elapsed := execute(&c, face)
	wd.Stop()
	if pnc != nil {
		if id := knownPanic(pnc); id != "" && ev.Known(id) {
			ev.JournalDone()
			ev.Excluded(id)
			ev.Case(false, c, "excluded:"+id)
			return
		}
	}
	if verdict == nil && elapsed > slowLimit {
		// deterministic confirmation before reporting a wall-clock observation
		_, _, _, again := execute(&c, face)
		if again > slowLimit {
			verdict = fmt.Errorf("shaping %d runes took %v and %v on re-measurement (limit %v)", len(c.Text), elapsed, again, slowLimit)
		} else {
			ev.Label("slow_unconfirmed")
			ev.Note("slow_unconfirmed: %v then %v for %s#%d", elapsed, again, c.Font, c.Index)
		}
	}
	ev.JournalDone()
	if os.Getenv("VERIF_DEBUG") != "" {
		dump(&c, face)
	}
	if verdict != nil {
		ev.Fail(t, checkName, c, "%v", verdict)
	}
	if s.excluded != "" {
		ev.Excluded(s.excluded)
		ev.Case(false, c, "excluded:"+s.excluded)
		return
	}
	classify(&c, s)
}

// dump prints the raw result of a case (VERIF_DEBUG=1, for triage).
func dump(c *sc.Case, face *font.Face) {
	if c.API == sc.APIHarfbuzz {
		res, p := sc.RunHarfbuzz(c, face)
		fmt.Printf("harfbuzz result (dir %v) panic=%v\n", res.Direction, p)
		for i, g := range res.Info {
			fmt.Printf("  %3d gid=%d cluster=%d mask=%#x\n", i, g.Glyph, g.Cluster, g.Mask)
		}
		return
	}
	out, p := sc.RunShaping(c, face)
	fmt.Printf("shaping result panic=%v runes=%+v advance=%d linebounds=%+v glyphbounds=%+v\n", p, out.Runes, out.Advance, out.LineBounds, out.GlyphBounds)
	for i, g := range out.Glyphs {
		fmt.Printf("  %3d %+v\n", i, g)
	}
}

func classify(c *sc.Case, s summary) {
	info := faceInfo(c)
	start, end := c.Clamped()
	hostile, invalid := false, false
	for _, r := range c.Text[start:end] {
		if hostileSet[r] {
			hostile = true
		}
		if !validRune(r) {
			invalid = true
		}
	}
	complexFont := info != nil && info.Complex
	// non-trivial rule of DESIGN C01
	nontrivial := end-start >= 2 && (s.merged || s.multi) || hostile || complexFont
	labels := []string{"api:" + c.API, "dir:" + []string{"ltr", "rtl", "ttb", "btt"}[c.Dir&3]}
	switch {
	case !c.InRange():
		labels = append(labels, "bounds:out-of-range-or-swapped")
	case start == 0 && end == len(c.Text):
		labels = append(labels, "bounds:whole")
	default:
		labels = append(labels, "bounds:sub-run")
	}
	if start == end {
		labels = append(labels, "run:empty")
	}
	if c.Synth != nil {
		labels = append(labels, "font:synth", "synth:"+c.Synth.Kind)
	}
	if end-start > 64 {
		labels = append(labels, "run:long(>64)")
		if info != nil && info.Traits.Morx {
			labels = append(labels, "run:long(>64)+font:morx")
		}
	}
	if c.Orient == 2 {
		labels = append(labels, "sideways")
	}
	if s.glyphs == 0 {
		labels = append(labels, "result:no-glyphs")
	}
	if s.merged {
		labels = append(labels, "result:merged-cluster")
	}
	if s.multi {
		labels = append(labels, "result:multi-glyph-cluster")
	}
	if s.nonMonotone2 {
		labels = append(labels, "result:level2-non-monotone")
	}
	if hostile {
		labels = append(labels, "text:hostile")
	}
	if invalid {
		labels = append(labels, "text:invalid-rune")
	}
	if len(c.Features) > 0 {
		labels = append(labels, "features:some")
	}
	if c.HasInstance() {
		if len(c.Vars) > 0 || len(c.Coords) > 0 {
			labels = append(labels, "instance:variations")
		}
		if c.XPpem != 0 || c.YPpem != 0 {
			labels = append(labels, "instance:ppem")
		}
	}
	if c.API == sc.APIHarfbuzz {
		switch c.Fill {
		case sc.FillAddRune:
			labels = append(labels, "fill:AddRune")
			if c.CtxPre || c.CtxPost {
				labels = append(labels, "fill:AddRune+context")
			}
			if len(c.Clusters) > 0 && c.Clusters[0] != 0 {
				labels = append(labels, "fill:AddRune-first-cluster-not-0")
			}
		case sc.FillSplit:
			labels = append(labels, "fill:AddRunes-split")
		default:
			labels = append(labels, "fill:AddRunes")
		}
		if c.YScale != 0 {
			labels = append(labels, "scale:x!=y")
		}
		labels = append(labels, "clusterlevel:"+strconv.Itoa(int(c.ClusterLevel)))
		if c.Flags&uint16(harfbuzz.RemoveDefaultIgnorables) != 0 {
			labels = append(labels, "flag:remove-ignorables")
		}
		if c.Flags&uint16(harfbuzz.PreserveDefaultIgnorables) != 0 {
			labels = append(labels, "flag:preserve-ignorables")
		}
		if c.Invisible != 0 || c.NotFound != 0 {
			labels = append(labels, "glyph-override")
		}
		if c.GuessProps {
			labels = append(labels, "guess-props")
		}
	}
	if info != nil {
		if info.Traits.Morx {
			labels = append(labels, "font:morx")
		}
		if info.Traits.Kerx {
			labels = append(labels, "font:kerx")
		}
		if info.Traits.GSUB {
			labels = append(labels, "font:gsub")
		}
		if info.Complex {
			labels = append(labels, "font:complex-script-or-morx")
		}
		if info.Traits.CFF || info.Traits.CFF2 {
			labels = append(labels, "font:cff")
		}
	}
	if nontrivial {
		labels = append(labels, "nontrivial")
	}
	ev.Case(nontrivial, c, labels...)
	if ev.WantSample() {
		ev.Sample(map[string]any{"case": c, "glyphs": s.glyphs, "merged": s.merged, "multi_glyph": s.multi})
	}
}

// TestPropShape: quick tier — stratified font draw per case; both API levels.
func TestPropShape(t *testing.T) {
	sc.ThePool()
	rapid.Check(t, func(t *rapid.T) {
		c := sc.Draw(t, -1, sc.Opts{MaxLen: maxLenForTier()})
		checkCase(t, c)
	})
}

// TestPropShapeSynth: generated fonts (internal/synthfont) whose layout tables stress the internal
// budgets and limits of the shaper (chains of growing lookups, grow/shrink, long and nested
// contexts with recursion, long reverse chains, large alternates, many pair classes).
func TestPropShapeSynth(t *testing.T) {
	rapid.Check(t, func(t *rapid.T) {
		c := sc.DrawSynth(t, sc.Opts{})
		checkCase(t, c)
	})
}

// TestPropShapeAllFaces: thorough tier — every loadable face of the corpus in turn (faces are
// partitioned over the shards), -rapid.checks cases per face.
func TestPropShapeAllFaces(t *testing.T) {
	p := sc.ThePool()
	shard, n := ev.Shard()
	for i := range p.All {
		if i%n != shard {
			continue
		}
		i := i
		t.Run(fmt.Sprintf("face%d", i), func(t *testing.T) {
			rapid.Check(t, func(t *rapid.T) {
				c := sc.Draw(t, i, sc.Opts{MaxLen: maxLenForTier()})
				checkCase(t, c)
			})
		})
		ev.Label("faces-iterated")
	}
}

// ---- native fuzzing (thorough tier only) ----

// upstreamSeeds returns every stride-th (font, text) pair of the upstream expectation files.
func upstreamSeeds(stride int) (fonts []uint16, texts [][]byte) {
	for i, pr := range sc.UpstreamPairs() {
		if i%stride == 0 {
			fonts = append(fonts, uint16(pr.Face))
			texts = append(texts, []byte(string(pr.Text)))
		}
	}
	return fonts, texts
}

// FuzzShape decodes (fontIndex, params, text) into the same structured case as the rapid
// generator and checks the same property.
func FuzzShape(f *testing.F) {
	p := sc.ThePool()
	paramSeeds := [][]byte{
		{},                                  // shaping, whole text, LTR, guessed script
		{0, 0, 40, 0, 0, 0, 0},              // RTL
		{0, 0, 60, 3, 0, 0, 0},              // TTB sideways
		{99, 0, 0, 0, 0, 0, 0, 1, 1, 1, 1},  // harfbuzz level
		{99, 6, 2, 1, 95, 0, 7, 7, 9, 5, 7}, // harfbuzz level, sub-run, BTT, features
		{0, 8, 0, 1, 2, 0},                  // shaping, hostile bounds
	}
	fonts, texts := upstreamSeeds(40)
	for i := range fonts {
		f.Add(fonts[i], paramSeeds[i%len(paramSeeds)], texts[i])
	}
	for i, sn := range textgen.Snippets {
		f.Add(uint16((i*37)%len(p.All)), paramSeeds[i%len(paramSeeds)], []byte(string(sn)))
	}
	var hostile []byte
	for i := 0; i < 256; i += 5 {
		hostile = append(hostile, 0x80|byte(i&0x7f)) // invalid UTF-8 bytes select hostile runes
	}
	for i := 0; i < 8; i++ {
		f.Add(uint16((i*97)%len(p.All)), paramSeeds[i%len(paramSeeds)], hostile[i*4:])
	}
	if !fuzzWorker {
		ev.Note("FuzzShape: cases executed by the fuzz worker processes are not in these counters (see TestMain); the go test log of the job reports the number of executions")
	}
	f.Fuzz(func(t *testing.T, fontIndex uint16, params []byte, text []byte) {
		c := sc.Decode(fontIndex, params, text, sc.Opts{MaxLen: maxLenForTier()})
		checkCase(t, c)
	})
}

// TestReplay re-runs saved cases without rapid.
func TestReplay(t *testing.T) {
	var files []string
	if p := ev.ReplayPath(); p != "" {
		files = []string{p}
	} else if d := os.Getenv("VERIF_REPLAY_DIR"); d != "" {
		files, _ = filepath.Glob(filepath.Join(d, "*.json"))
		sort.Strings(files)
	}
	for _, fp := range files {
		check, raw, err := ev.LoadReplay(fp)
		if err != nil {
			t.Fatalf("cannot load replay %s: %v", fp, err)
		}
		switch check {
		case checkName:
			var c sc.Case
			if err := json.Unmarshal(raw, &c); err != nil {
				t.Fatalf("cannot decode case of %s: %v", fp, err)
			}
			if c.Text == nil {
				c.Text = []rune{}
			}
			checkCase(t, c)
		case scalingCheck:
			replayScaling(t, raw)
		default:
			t.Fatalf("replay %s: unknown check %q", fp, check)
		}
	}
}
