package c01

import (
	"sync"

	"github.com/go-text/typesetting/harfbuzz"

	"verif/internal/corpus"
	"verif/internal/hbref"
	sc "verif/internal/shapecase"
	"verif/internal/synthfont"
)

// The reference implementation is consulted only by the matcher of the known finding
// C01-level1-upstream-non-monotone (never by the oracle itself).

var (
	refMu    sync.Mutex
	refFaces = map[string]*hbref.Face{}
)

func refFace(c *sc.Case) *hbref.Face {
	refMu.Lock()
	defer refMu.Unlock()
	key := c.Font + "#" + string(rune('0'+c.Index))
	if f, ok := refFaces[key]; ok {
		return f
	}
	var f *hbref.Face
	if b, err := corpus.Bytes(c.Font); err == nil && c.Index < hbref.FaceCount(b) {
		f = hbref.NewFace(b, c.Index)
	}
	refFaces[key] = f
	return f
}

// referenceClusters shapes a harfbuzz-level case with libharfbuzz and returns the cluster sequence.
func referenceClusters(c *sc.Case) ([]int, bool) {
	shape, done, ok := referenceCall(c)
	if !ok {
		return nil, false
	}
	defer done()
	out := shape()
	if !out.OK {
		return nil, false
	}
	cl := make([]int, len(out.Glyphs))
	for i, g := range out.Glyphs {
		cl[i] = int(g.Cluster)
	}
	return cl, true
}

// asHarfbuzzCall turns a shaping.Shape case into the harfbuzz-level call it makes (level 0, no
// flags, global features, sideways shaped horizontally); harfbuzz-level cases are returned as is.
func asHarfbuzzCall(c *sc.Case) (sc.Case, bool) {
	h := *c
	if c.API == sc.APIHarfbuzz {
		return h, true
	}
	if !c.InRange() {
		return h, false
	}
	h.API = sc.APIHarfbuzz
	h.ClusterLevel, h.Flags, h.Invisible, h.NotFound, h.GuessProps, h.UpemScale, h.Ptem = 0, 0, 0, 0, false, false, 0
	if h.Orient == 2 {
		h.Dir -= 2
	}
	h.Orient = 0
	return h, true
}

// referenceCall prepares the same call on libharfbuzz: same font bytes, text, run, direction,
// script, language, features, cluster level, flags, glyph overrides, scale. shape may be called
// several times; done releases what was allocated for the call.
func referenceCall(c *sc.Case) (shape func() hbref.Output, done func(), ok bool) {
	if c.API != sc.APIHarfbuzz || !c.InRange() {
		return nil, nil, false
	}
	// values that are not representable as hb_codepoint_t the same way (negative runes) are given
	// to the reference as U+FFFD: the cluster structure compared by the matcher does not depend
	// on which invalid value it was
	text := c.Text
	for i, r := range c.Text {
		if r < 0 {
			if &text[0] == &c.Text[0] {
				text = append([]rune(nil), c.Text...)
			}
			text[i] = 0xFFFD
		}
	}
	var f *hbref.Face
	done = func() {}
	itemOffset, itemLength := c.RunStart, c.RunEnd-c.RunStart
	if c.Fill == sc.FillAddRune {
		// rune by rune: the reference gets the run with exactly the context the case installs
		// and numbers its items from 0 (the caller of referenceClusters translates)
		lo, hi := c.RunStart, c.RunEnd
		if c.CtxPre {
			lo = 0
		}
		if c.CtxPost {
			hi = len(text)
		}
		text = append(make([]rune, 0, hi-lo+1), text[lo:hi]...)
		itemOffset -= lo
		if !c.CtxPre && itemOffset != 0 {
			return nil, nil, false
		}
	}
	if c.HasInstance() {
		// instance settings: a reference face of its own (the cached one is shared)
		var b []byte
		var err error
		if c.Synth != nil {
			b, err = synthfont.Build(*c.Synth)
		} else {
			b, err = corpus.Bytes(c.Font)
		}
		if err != nil || c.Index >= hbref.FaceCount(b) {
			return nil, nil, false
		}
		if f = hbref.NewFace(b, c.Index); f == nil {
			return nil, nil, false
		}
		done = f.Close
		switch {
		case len(c.Vars) > 0:
			vs := make([]hbref.Variation, len(c.Vars))
			for i, v := range c.Vars {
				vs[i] = hbref.Variation{Tag: hbref.Tag(v.Tag), Value: v.Value}
			}
			f.SetVariations(vs)
		case len(c.Coords) > 0:
			cs := make([]int32, len(c.Coords))
			for i, v := range c.Coords {
				cs[i] = int32(v)
			}
			f.SetNormalizedCoords(cs)
		}
		if c.XPpem != 0 || c.YPpem != 0 {
			f.SetPpem(c.XPpem, c.YPpem)
		}
	} else if c.Synth != nil {
		// generated font: built for this call only (not cached: the C side holds the bytes)
		b, err := synthfont.Build(*c.Synth)
		if err != nil {
			return nil, nil, false
		}
		f = hbref.NewFace(b, 0)
		if f == nil {
			return nil, nil, false
		}
		done = f.Close
	} else if f = refFace(c); f == nil {
		return nil, nil, false
	}
	// flag bits: the first five are shared; the port numbers ProduceUnsafeToConcat 0x20 and
	// ProduceSafeToInsertTatweel 0x40 where HarfBuzz has VERIFY 0x20, 0x40 and 0x80
	flags := int(c.Flags) & 0x1f
	if c.Flags&uint16(harfbuzz.ProduceUnsafeToConcat) != 0 {
		flags |= hbref.FlagProduceUnsafeToConcat
	}
	if c.Flags&uint16(harfbuzz.ProduceSafeToInsertTatweel) != 0 {
		flags |= 0x80
	}
	in := hbref.Input{
		Text: text, ItemOffset: itemOffset, ItemLength: itemLength,
		Flags: flags, ClusterLevel: int(c.ClusterLevel),
		Invisible: c.Invisible, NotFound: c.NotFound, SetNotFound: c.NotFound != 0,
	}
	if !c.GuessProps {
		in.Direction = int(c.Direction().Harfbuzz())
		in.Script = uint32(c.ResolvedScript())
		in.Language = c.Language
	}
	for _, ft := range c.Features {
		hf := hbref.Feature{Tag: ft.Tag, Value: ft.Value, Start: 0, End: 0xFFFFFFFF}
		if ft.Ranged {
			if ft.Start < 0 || ft.End < 0 {
				done()
				return nil, nil, false
			}
			hf.Start, hf.End = uint32(ft.Start), uint32(ft.End)
		}
		in.Features = append(in.Features, hf)
	}
	scale := int(c.Scale())
	if c.UpemScale {
		face, err := c.Face()
		if err != nil {
			done()
			return nil, nil, false
		}
		scale = int(face.Upem())
	}
	ptem := c.Ptem
	yScale := int(c.YScale)
	return func() hbref.Output {
		if yScale != 0 {
			f.SetScale(scale, yScale)
		} else {
			f.SetScale(scale, scale)
		}
		f.SetPtem(ptem)
		return f.Shape(in)
	}, done, true
}
