package c01

// Time-scaling clause of C01 ("shaping returns ... in time ... bounded by a budget proportional to the
// run length") for LONG homogeneous / periodic runs: the shapes for which a shaper's look-back or
// rescan loops turn super-linear (all marks, marks first, one base + N marks, all joiners, all default
// ignorables, all spaces, one letter, viramas, alternating pairs, a short unit repeated).
//
// The clause is decided without any wall-clock threshold: the same input shape is shaped at lengths
// 1k, 4k, 16k (and 64k while cheap), each length several times, keeping the MINIMUM thread CPU time
// (CLOCK_THREAD_CPUTIME_ID of a locked OS thread: time during which the thread is descheduled on a
// loaded machine does not count). A case is a violation only if
//   - at BOTH of the last two ×4 steps the time grows by more than superLinear (10; linear is 4,
//     n·log n about 4.6, quadratic 16), the threshold being raised by whatever the control run of plain
//     base letters — same font, API, direction and lengths, measured in the same process — shows above 4;
//   - and the time at the largest length is above floorCPU (0.25 s, far beyond scheduling noise) and
//     more than 8 × the control's;
//   - and a complete second measurement of the case reaches the same verdict.
// Sizes stop growing when the next one could exceed the per-measurement cap, so a quadratic shape is
// decided at 16k without ever running for tens of seconds. This job does not use the journal: if a
// measurement nevertheless trips the (long) watchdog the process exits without a decoded case, which
// the driver reports as inconclusive (exit 2), never as a violation.
//
// Upstream-inherited behaviour: every super-linear shape found on the unchanged tree so far is
// super-linear in libharfbuzz as well. The one open finding C01-upstream-super-linear is therefore
// matched per input, not per site: the reference shapes the same input at the same sizes (thread CPU
// of the cgo call, minimum of 3) and the case is excluded only if the reference is super-linear by the
// same criterion (floor 20 ms). A port that is super-linear where the reference is linear is a
// violation. The hot site of the port (sampled stacks) is informational.

import (
	"encoding/json"
	"fmt"
	"math"
	"os"
	"runtime"
	"strings"
	"syscall"
	"testing"
	"time"
	"unicode"
	"unsafe"

	"github.com/go-text/typesetting/font"

	"verif/internal/corpus"
	"verif/internal/ev"
	sc "verif/internal/shapecase"
	"verif/internal/textgen"
)

const (
	scalingCheck = "scaling"
	superLinear  = 10.0
	floorCPU     = 250 * time.Millisecond
	controlGap   = 8.0
	// a size is attempted only if 20 × the previous time (a ×4 step of a quadratic shape costs ×16)
	// stays below this cap
	measureCap = 6 * time.Second
	// watchdog of one measurement (wall clock; only guards against a true hang: inconclusive)
	scalingHang = 150 * time.Second
)

var scalingSizes = []int{1 << 10, 1 << 12, 1 << 14, 1 << 16}

// mustFonts are always part of the stratum (fonts with mark attachment, kerning, Arabic/Indic
// shaping, morx); the rest is drawn from the gpos/gsub/morx/kern strata of the pool.
var mustFonts = []string{
	"opentype/common/DejaVuSans.ttf",
	"harfbuzz/perf_reference/fonts/Roboto-Regular.ttf",
	"opentype/common/FreeSerif.ttf",
	"opentype/common/NotoSansArabic.ttf",
	"harfbuzz/perf_reference/fonts/Amiri-Regular.ttf",
	"harfbuzz/perf_reference/fonts/NotoSansDevanagari-Regular.ttf",
	"collections/Courier.dfont",
}

// scalingCase is the decoded case.
type scalingCase struct {
	Font  string `json:"font"`
	Index int    `json:"index"`
	Shape string `json:"shape"` // see buildShape
	A     rune   `json:"a"`     // the rune of the class under test (mark, joiner, ...)
	B     rune   `json:"b"`     // a base letter of the font
	Unit  []rune `json:"unit,omitempty"`
	API   string `json:"api"`
	Dir   uint8  `json:"dir"`
	Ctrl  rune   `json:"control"` // plain base letter of the control run
}

var scalingShapes = []string{"all-a", "a-then-base", "base-then-a", "alternate-base-a", "alternate-a-a2", "base+3a-repeated", "unit-repeated", "all-base"}

// buildShape returns the text of the shape at length n.
func (c *scalingCase) buildShape(n int) []rune {
	out := make([]rune, 0, n+4)
	switch c.Shape {
	case "all-a":
		for len(out) < n {
			out = append(out, c.A)
		}
	case "a-then-base":
		for len(out) < n-1 {
			out = append(out, c.A)
		}
		out = append(out, c.B)
	case "base-then-a":
		out = append(out, c.B)
		for len(out) < n {
			out = append(out, c.A)
		}
	case "alternate-base-a":
		for len(out) < n {
			out = append(out, c.B, c.A)
		}
	case "alternate-a-a2":
		for len(out) < n {
			out = append(out, c.A, c.A, c.B)
		}
	case "base+3a-repeated":
		for len(out) < n {
			out = append(out, c.B, c.A, c.A, c.A)
		}
	case "unit-repeated":
		u := c.Unit
		if len(u) == 0 {
			u = []rune{c.B, c.A}
		}
		for len(out) < n {
			out = append(out, u...)
		}
	default: // all-base
		for len(out) < n {
			out = append(out, c.B)
		}
	}
	return out[:n]
}

func (c *scalingCase) control(n int) []rune {
	out := make([]rune, n)
	for i := range out {
		out[i] = c.Ctrl
	}
	return out
}

func threadCPU() time.Duration {
	var ts syscall.Timespec
	const clockThreadCPUTimeID = 3
	syscall.Syscall(syscall.SYS_CLOCK_GETTIME, clockThreadCPUTimeID, uintptr(unsafe.Pointer(&ts)), 0)
	return time.Duration(ts.Sec)*time.Second + time.Duration(ts.Nsec)
}

// shapeOnce shapes text once on the current (locked) thread and returns the thread CPU time.
func (c *scalingCase) shapeOnce(face *font.Face, text []rune) (time.Duration, *sc.Panic) {
	k := sc.Case{API: c.API, Font: c.Font, Index: c.Index, Text: text, RunStart: 0, RunEnd: len(text), Dir: c.Dir, ScriptGuess: true, Size: 16 * 64}
	runtime.GC()
	wd := time.AfterFunc(scalingHang, func() {
		fmt.Fprintf(os.Stderr, "C01 scaling: one shaping of %d runes did not return within %v (inconclusive)\n", len(text), scalingHang)
		os.Exit(4)
	})
	defer wd.Stop()
	t0 := threadCPU()
	var p *sc.Panic
	if c.API == sc.APIHarfbuzz {
		_, p = sc.RunHarfbuzz(&k, face)
	} else {
		_, p = sc.RunShaping(&k, face)
	}
	return threadCPU() - t0, p
}

// series measures one text family at the growing sizes (minimum over repetitions).
func (c *scalingCase) series(face *font.Face, text func(n int) []rune) (times []time.Duration, p *sc.Panic) {
	for i, n := range scalingSizes {
		if i > 0 && times[i-1]*20 > measureCap {
			break
		}
		tx := text(n)
		best := time.Duration(math.MaxInt64)
		reps := 3
		for r := 0; r < reps; r++ {
			d, pp := c.shapeOnce(face, tx)
			if pp != nil {
				return times, pp
			}
			if d < best {
				best = d
			}
			if d > 2*time.Second {
				break
			}
			if d > 500*time.Millisecond {
				reps = 2
			}
		}
		times = append(times, best)
	}
	return times, nil
}

type scalingVerdict struct {
	Sizes    []int     `json:"sizes"`
	CaseMS   []float64 `json:"case_ms"`
	CtrlMS   []float64 `json:"control_ms"`
	Steps    []float64 `json:"case_x4_ratios"`
	CtrlStep []float64 `json:"control_x4_ratios"`
	Super    bool      `json:"super_linear"`
	Why      string    `json:"why,omitempty"`
}

func ms(ds []time.Duration) []float64 {
	out := make([]float64, len(ds))
	for i, d := range ds {
		out[i] = math.Round(float64(d)/1e4) / 100
	}
	return out
}

func ratios(ds []time.Duration) []float64 {
	var out []float64
	for i := 1; i < len(ds); i++ {
		a := ds[i-1]
		if a < 50*time.Microsecond {
			a = 50 * time.Microsecond
		}
		out = append(out, math.Round(100*float64(ds[i])/float64(a))/100)
	}
	return out
}

// measure runs case and control series and applies the clause once.
func (c *scalingCase) measure(face *font.Face) (v scalingVerdict, p *sc.Panic) {
	runtime.LockOSThread()
	defer runtime.UnlockOSThread()
	ct, p := c.series(face, c.control)
	if p != nil {
		return v, p
	}
	tt, p := c.series(face, c.buildShape)
	if p != nil {
		return v, p
	}
	return verdictOf(tt, ct, floorCPU, c.Shape == "all-base"), nil
}

// verdictOf applies the clause to one pair of series (case, control) measured at scalingSizes.
func verdictOf(tt, ct []time.Duration, floor time.Duration, isControlShape bool) (v scalingVerdict) {
	v = scalingVerdict{Sizes: scalingSizes[:len(tt)], CaseMS: ms(tt), CtrlMS: ms(ct), Steps: ratios(tt), CtrlStep: ratios(ct)}
	if len(tt) < 3 {
		v.Why = "fewer than three sizes measured"
		// the very first ×4 step already exceeded the cap: decide on the two points we have, strictly
		if len(tt) == 2 && tt[1] > floor && v.Steps[0] > 2*superLinear {
			v.Super = true
		}
		return v
	}
	k := len(tt)
	top := tt[k-1]
	// noise calibration: what the control shows above the linear ratio 4 raises the threshold
	thr := func(step int) float64 {
		f := 1.0
		if step < len(v.CtrlStep) && v.CtrlStep[step] > 4 {
			f = v.CtrlStep[step] / 4
		}
		return superLinear * f
	}
	s1, s2 := v.Steps[k-3], v.Steps[k-2]
	ctrlTop := time.Duration(0)
	if len(ct) >= k {
		ctrlTop = ct[k-1]
	} else if len(ct) > 0 {
		ctrlTop = ct[len(ct)-1]
	}
	switch {
	case s1 <= thr(k-3) || s2 <= thr(k-2):
		v.Why = "growth within the linear band"
	case top < floor:
		v.Why = "below the absolute floor"
	case !isControlShape && float64(top) < controlGap*float64(ctrlTop):
		v.Why = "not far from the control run"
	default:
		v.Super = true
	}
	return v
}

// ---- the reference implementation on the same input ----

const (
	findingUpstreamSuperLinear = "C01-upstream-super-linear"
	// the reference is C: its floor is lower than the port's, still far above timer noise
	refFloorCPU = 20 * time.Millisecond
	// one reference shaping must stay below about 20 s: a size is attempted only if 20 × the
	// previous time stays below this cap
	refMeasureCap = 20 * time.Second
)

// refSeries measures libharfbuzz on the same call (same font bytes, text, direction, script,
// language, features, cluster level, flags, scale) at the first nSizes sizes; thread CPU time of the
// locked thread (cgo calls run on the calling thread), minimum of up to three runs.
func (c *scalingCase) refSeries(text func(n int) []rune, nSizes int) (times []time.Duration, ok bool) {
	for i, n := range scalingSizes[:nSizes] {
		if i > 0 && times[i-1]*20 > refMeasureCap {
			break
		}
		tx := text(n)
		k := sc.Case{API: c.API, Font: c.Font, Index: c.Index, Text: tx, RunStart: 0, RunEnd: len(tx), Dir: c.Dir, ScriptGuess: true, Size: 16 * 64}
		h, comparable := asHarfbuzzCall(&k)
		if !comparable {
			return nil, false
		}
		shape, done, comparable := referenceCall(&h)
		if !comparable {
			return nil, false
		}
		best := time.Duration(math.MaxInt64)
		reps := 3
		for r := 0; r < reps; r++ {
			t0 := threadCPU()
			out := shape()
			d := threadCPU() - t0
			if !out.OK {
				done()
				return nil, false
			}
			if d < best {
				best = d
			}
			if d > 2*time.Second {
				break
			}
			if d > 500*time.Millisecond {
				reps = 2
			}
		}
		done()
		times = append(times, best)
	}
	return times, true
}

// referenceVerdict measures the reference (case and control) and applies the same clause; the
// reference counts as super-linear if one of two complete measurements says so.
func (c *scalingCase) referenceVerdict(nSizes int) (v scalingVerdict, ok bool) {
	runtime.LockOSThread()
	defer runtime.UnlockOSThread()
	for attempt := 0; attempt < 2; attempt++ {
		ct, ok1 := c.refSeries(c.control, nSizes)
		tt, ok2 := c.refSeries(c.buildShape, nSizes)
		if !ok1 || !ok2 || len(tt) == 0 {
			return v, false
		}
		v = verdictOf(tt, ct, refFloorCPU, c.Shape == "all-base")
		if v.Super {
			break
		}
	}
	return v, true
}

// checkScaling is the property for one case.
func checkScaling(t ev.TB, c scalingCase) {
	faces, err := facesOf(c.Font)
	if err != nil || c.Index >= len(faces) {
		t.Fatalf("scaling case names a face the corpus cannot load: %s#%d", c.Font, c.Index)
	}
	face := faces[c.Index]
	v, p := c.measure(face)
	if p != nil {
		ev.Fail(t, scalingCheck, c, "%v", p)
	}
	labels := []string{"scaling:shape:" + c.Shape, "scaling:api:" + c.API, "scaling:dir:" + []string{"ltr", "rtl", "ttb", "btt"}[c.Dir&3], "scaling:class:" + runeClass(c.A)}
	if len(v.Sizes) == len(scalingSizes) {
		labels = append(labels, "scaling:reached-64k")
	}
	if v.Super {
		// complete second measurement before reporting
		v2, p2 := c.measure(face)
		if p2 == nil && v2.Super {
			// where the time goes (sampled stacks of the shaping goroutine at the largest measured
			// size): informational, recorded in labels, samples and messages
			site, share, counts := c.hotSite(face, v.Sizes[len(v.Sizes)-1])
			labels = append(labels, "scaling:super-linear-site:"+site)
			// reference skew: libharfbuzz 6.0.0 is older than the upstream the port tracks and is itself
			// quadratic at sites that have since been repaired (upstream or in /repo). At those sites the
			// reference's slowness excuses nothing: a super-linear port there is a regression.
			repaired := ""
			for f, why := range repairedSites {
				if n := counts["samples"]; n > 0 && float64(counts["on-stack:"+f])/float64(n) >= 0.5 {
					repaired = f + " (" + why + ")"
				}
			}
			// the reference implementation on the SAME input decides whether this is the port's
			// own defect or behaviour inherited from upstream
			rv, comparable := c.referenceVerdict(len(v.Sizes))
			if comparable && rv.Super && repaired == "" && ev.Known(findingUpstreamSuperLinear) {
				ev.Excluded(findingUpstreamSuperLinear)
				ev.Case(false, c, append(labels, "excluded:"+findingUpstreamSuperLinear, "scaling:upstream-too:"+site+"/"+c.Shape+"/"+runeClass(c.A))...)
				ev.Sample(map[string]any{"scaling_case": c, "measured": v, "reference": rv, "site": site, "site_share": share, "excluded": findingUpstreamSuperLinear})
				ev.Note("scaling upstream-too: site %s shape %s class %s (%s U+%04X, %s, dir %d): port ms %v steps %v | libharfbuzz ms %v steps %v (control ms %v)",
					site, c.Shape, runeClass(c.A), c.Font[strings.LastIndex(c.Font, "/")+1:], c.A, c.API, c.Dir, v.CaseMS, v.Steps, rv.CaseMS, rv.Steps, rv.CtrlMS)
				return
			}
			refText := ""
			if repaired != "" {
				refText = "at least half of the sampled stacks are inside " + repaired + ", where the reference's own slowness is not an excuse; "
			} else {
				refText = ""
			}
			if !comparable {
				refText += "the reference could not be consulted for this input"
			} else {
				refText += fmt.Sprintf("libharfbuzz on the same input: ms %v (x4 steps %v), control ms %v: super-linear=%v (%s)", rv.CaseMS, rv.Steps, rv.CtrlMS, rv.Super, rv.Why)
			}
			ev.Fail(t, scalingCheck, c, "time grows super-linearly with the run length: sizes %v, case ms %v (x4 steps %v), control ms %v (x4 steps %v); confirmed by a second measurement: case ms %v (x4 steps %v); %.0f%% of the sampled stacks are in %s; %s",
				v.Sizes, v.CaseMS, v.Steps, v.CtrlMS, v.CtrlStep, v2.CaseMS, v2.Steps, 100*share, site, refText)
		}
		labels = append(labels, "scaling:super-linear-unconfirmed")
		ev.Note("scaling: super-linear verdict not confirmed by the second measurement for %s %s: %v then %v", c.Font, c.Shape, v.Steps, v2.Steps)
	}
	if len(v.Steps) > 0 {
		mx := 0.0
		for _, s := range v.Steps {
			mx = math.Max(mx, s)
		}
		switch {
		case mx > superLinear:
			labels = append(labels, "scaling:max-step>10")
		case mx > 6:
			labels = append(labels, "scaling:max-step:6-10")
		default:
			labels = append(labels, "scaling:max-step<=6")
		}
	}
	ev.Case(c.Shape != "all-base", c, labels...)
	ev.Sample(map[string]any{"scaling_case": c, "measured": v})
}

// repairedSites: functions whose quadratic behaviour (present in libharfbuzz 6.0.0) has been
// repaired in the tree under test; on the unchanged tree they are linear, so this list cannot raise
// an alarm there.
var repairedSites = map[string]string{
	"harfbuzz.(*otApplyContext).applyGPOSMarkToBase":     "the last-base cache makes the backward search for a base linear, also while no base has been found",
	"harfbuzz.(*otApplyContext).applyGPOSMarkToLigature": "the last-base cache makes the backward search for a ligature linear, also while none has been found",
	"harfbuzz.propagateAttachmentOffsets":                "running sums of the advances, /repo bf1f393",
	"harfbuzz.kern":                                      "no rescan of a skipped tail, /repo 2f92b6f",
}

// sites that are on every stack (entry points, drivers of the lookup loop) or mere helpers
// (iterator steps, predicates) do not name a site; the innermost other harfbuzz function
// of a sample does
var genericSites = map[string]bool{}

func init() {
	for _, f := range []string{"(*Buffer).Shape", "(*shapePlan).execute", "(*shaperOpentype).shape", "(*otContext).substituteBeforePosition",
		"(*otContext).substituteAfterPosition", "(*otContext).position", "(*otContext).positionComplex", "(*otMap).apply", "(*otMap).substitute", "(*otMap).position",
		"(*otShapePlan).substitute", "(*otShapePlan).position", "(*otApplyContext).applyString", "(*otApplyContext).applyForward", "(*otApplyContext).applyBackward",
		"(*skippingIterator).next", "(*skippingIterator).prev", "(*skippingIterator).match", "otApplyContextMatcher.maySkip", "otApplyContextMatcher.mayMatch",
		"(*otApplyContext).checkGlyphProperty", "(*GlyphInfo).setCluster", "(*GlyphInfo).isDefaultIgnorableAndNotHidden", "(*otLayoutLookupAccelerator).apply"} {
		genericSites["harfbuzz."+f] = true
	}
}

// hotSite samples the stack of the goroutine shaping the case at length n (runtime.Stack every 2 ms)
// and returns the library function that is, most often, the innermost non-generic harfbuzz frame,
// with the share of the samples it accounts for.
func (c *scalingCase) hotSite(face *font.Face, n int) (string, float64, map[string]int) {
	text := c.buildShape(n)
	done := make(chan struct{})
	go func() {
		defer close(done)
		c.shapeOnce(face, text)
	}()
	counts := map[string]int{}
	total := 0
	// onStack[f]: samples with f anywhere on the stack, stored in counts under "on-stack:"+f
	buf := make([]byte, 1<<20)
	const prefix = "github.com/go-text/typesetting/"
	for {
		select {
		case <-done:
			best, bn := "unknown", 0
			for f, k := range counts {
				if strings.HasPrefix(f, "on-stack:") || f == "samples" {
					continue
				}
				if k > bn || k == bn && f < best {
					best, bn = f, k
				}
			}
			if total == 0 {
				return best, 0, counts
			}
			return best, float64(bn) / float64(total), counts
		case <-time.After(2 * time.Millisecond):
		}
		st := string(buf[:runtime.Stack(buf, true)])
		for _, g := range strings.Split(st, "\n\n") {
			if !strings.Contains(g, "(*scalingCase).shapeOnce") || !strings.Contains(g, prefix+"harfbuzz.") {
				continue
			}
			total++
			innermost := false
			seen := map[string]bool{}
			for _, line := range strings.Split(g, "\n") {
				if !strings.HasPrefix(line, prefix+"harfbuzz.") {
					continue
				}
				fn := strings.TrimPrefix(line, prefix)
				if k := strings.LastIndex(fn, "("); k > 0 {
					fn = fn[:k]
				}
				fn = strings.TrimSuffix(fn, "...")
				if !seen[fn] {
					seen[fn] = true
					counts["on-stack:"+fn]++
				}
				if genericSites[fn] || innermost {
					continue
				}
				counts[fn]++ // frames are listed innermost first
				innermost = true
			}
			counts["samples"] = total
			break
		}
	}
}

func facesOf(rel string) ([]*font.Face, error) { return corpus.Faces(rel) }

func runeClass(r rune) string {
	switch {
	case unicode.Is(unicode.M, r):
		return "mark"
	case r == 0x200C || r == 0x200D:
		return "joiner"
	case r == 0x200B || r == 0x00AD || r == 0x034F || r == 0x2060 || r == 0xFEFF || r >= 0xFE00 && r <= 0xFE0F:
		return "default-ignorable"
	case unicode.IsSpace(r):
		return "space"
	case unicode.IsLetter(r):
		return "letter"
	case unicode.IsDigit(r):
		return "digit"
	default:
		return "other"
	}
}

// classRunes picks, for a face, the runes of each class under test: its own marks first (sample of
// the cmap), standard marks, viramas, joiners, default ignorables, spaces, a second letter, a digit.
func classRunes(f *font.Face) (as []rune, base rune) {
	pool := textgen.FontRunes(f.Font, sc.FontPoolSize)
	has := func(r rune) bool { _, ok := f.NominalGlyph(r); return ok }
	var marks, letters []rune
	for _, r := range pool {
		if unicode.Is(unicode.M, r) {
			marks = append(marks, r)
		} else if unicode.IsLetter(r) {
			letters = append(letters, r)
		}
	}
	base = 'a'
	if !has(base) {
		if len(letters) > 0 {
			base = letters[len(letters)/2]
		} else if len(pool) > 0 {
			base = pool[len(pool)/2]
		}
	}
	add := func(rs ...rune) {
		for _, r := range rs {
			as = append(as, r)
		}
	}
	for _, r := range []rune{0x0301, 0x064E, 0x0651, 0x05B8, 0x093C, 0x094D, 0x0E48, 0x302A} {
		if has(r) {
			add(r)
		}
	}
	if len(marks) > 0 {
		add(marks[0], marks[len(marks)/2], marks[len(marks)-1])
	}
	if len(as) == 0 {
		add(0x0301) // not mapped: fallback mark handling of the shaper
	}
	add(0x200D, 0x200C, 0x00AD, 0x200B, 0xFE0F, ' ', 0x00A0, 0)
	if len(letters) > 1 {
		add(letters[0], letters[len(letters)-1])
	}
	if has('1') {
		add('1')
	}
	return as, base
}

// scalingCases enumerates the cases of this run deterministically from VERIF_SEED: every must-font ×
// every shape (class rune, API and direction rotating with the seed), plus seeded draws over the
// gpos / gsub / morx / kern / kerx strata.
func scalingCases(extra int) []scalingCase {
	p := sc.ThePool()
	rnd := ev.NewRand(uint64(ev.Seed())*0x9E3779B97F4A7C15 + 77)
	index := map[string]int{}
	for i := range p.All {
		if _, ok := index[p.All[i].File]; !ok {
			index[p.All[i].File] = i
		}
	}
	var faces []int
	for _, m := range mustFonts {
		if i, ok := index[m]; ok {
			faces = append(faces, i)
		}
	}
	must := len(faces)
	var strata [][]int
	for i, n := range p.Names {
		switch n {
		case "gpos", "gsub", "morx", "kern", "kerx", "script:arabic-like", "script:indic", "script:hebrew", "script:thai-lao", "script:use-tibetan", "script:khmer-myanmar":
			strata = append(strata, p.Strata[i])
		}
	}
	for k := 0; k < extra && len(strata) > 0; k++ {
		st := strata[rnd.Intn(len(strata))]
		faces = append(faces, st[rnd.Intn(len(st))])
	}
	var out []scalingCase
	apis := []string{sc.APIShaping, sc.APIHarfbuzz}
	for fi, face := range faces {
		f := p.All[face]
		as, base := classRunes(f.Face)
		shapes := scalingShapes
		if fi >= must { // drawn fonts: three shapes each
			shapes = []string{scalingShapes[rnd.Intn(len(scalingShapes))], scalingShapes[rnd.Intn(3)], "unit-repeated"}
		}
		for si, sh := range shapes {
			c := scalingCase{Font: f.File, Index: f.Index, Shape: sh, B: base, Ctrl: base}
			c.A = as[rnd.Intn(len(as))]
			if si < 3 && rnd.Intn(4) != 0 { // the mark-run shapes mostly use a mark of the font
				c.A = as[rnd.Intn(minInt(3, len(as)))]
			}
			c.API = apis[rnd.Intn(2)]
			c.Dir = []uint8{0, 1, 0, 1, 2, 3}[rnd.Intn(6)]
			if sh == "unit-repeated" {
				sn := textgen.Snippets[rnd.Intn(len(textgen.Snippets))]
				c.Unit = append([]rune{}, sn...)
			}
			out = append(out, c)
		}
	}
	return out
}

func minInt(a, b int) int {
	if a < b {
		return a
	}
	return b
}

// TestPropTimeScaling: kind enum; the cases of the run are partitioned over the shards.
func TestPropTimeScaling(t *testing.T) {
	cases := scalingCases(ev.Scale(14, 120))
	shard, n := ev.Shard()
	for i, c := range cases {
		if i%n != shard {
			continue
		}
		checkScaling(t, c)
	}
}

func replayScaling(t *testing.T, raw json.RawMessage) {
	var c scalingCase
	if err := json.Unmarshal(raw, &c); err != nil {
		t.Fatalf("cannot decode scaling case: %v", err)
	}
	checkScaling(t, c)
}
