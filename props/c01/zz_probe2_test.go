package c01

import (
	"fmt"
	"testing"

	"verif/internal/hbref"
	sc "verif/internal/shapecase"
	"verif/internal/synthfont"
)

func cmp(sp synthfont.Spec, text []rune, feat bool) {
	c := sc.Case{API: sc.APIHarfbuzz, Synth: &sp, Text: text, RunEnd: len(text), ScriptGuess: true, Size: 64 * 16, Language: "en"}
	var rfe []hbref.Feature
	if feat {
		c.Features = []sc.Feature{{Tag: sp.FeatureTags()[0], Value: 1}}
		rfe = []hbref.Feature{{Tag: sp.FeatureTags()[0], Value: 1, End: 0xFFFFFFFF}}
	}
	face, _ := c.Face()
	res, _ := sc.RunHarfbuzz(&c, face)
	b, _ := synthfont.Build(sp)
	rf := hbref.NewFace(b, 0)
	rf.SetScale(int(c.Scale()), int(c.Scale()))
	out := rf.Shape(hbref.Input{Text: text, ItemLength: len(text), Direction: hbref.DirLTR, Script: uint32(c.ResolvedScript()), Language: "en", Features: rfe})
	rf.Close()
	fmt.Printf("%+v %q\n port:", sp, string(text))
	for i, g := range res.Info {
		fmt.Printf(" %d+%d", g.Glyph, res.Pos[i].XAdvance)
	}
	fmt.Printf("\n ref: ")
	for _, g := range out.Glyphs {
		fmt.Printf(" %d+%d", g.ID, g.XAdvance)
	}
	fmt.Println()
}

func TestProbeSynthDiff(t *testing.T) {
	cmp(synthfont.Spec{Kind: "reverse-chain", N: 2, Back: 2, Feature: "locl"}, []rune("aaaaaa"), false)
	cmp(synthfont.Spec{Kind: "reverse-chain", N: 2, Back: 2, Feature: "locl"}, []rune("xxbbbb"), false)
	cmp(synthfont.Spec{Kind: "reverse-chain", N: 2, Back: 2, Feature: "locl"}, []rune("xabbbb"), false)
}
