package c01

import (
	"fmt"
	"testing"
	"time"
	"strings"

	"github.com/go-text/typesetting/shaping"
	"golang.org/x/image/math/fixed"
	"verif/internal/corpus"
)

func TestProbeG3b(t *testing.T) {
	faces, _ := corpus.Faces("harfbuzz/harfbuzz_reference/text-rendering-tests/fonts/TestGSUBThree.ttf")
	face := faces[0]
	for _, s := range []string{"lol", strings.Repeat("lol", 20), strings.Repeat("lol ", 20), strings.Repeat("lol", 100), "l" + strings.Repeat("o", 100) + "l", strings.Repeat("lool", 75), strings.Repeat("lol ", 75), strings.Repeat("l ol", 75)} {
		text := []rune(s)
		t0 := time.Now()
		var sh shaping.HarfbuzzShaper
		out := sh.Shape(shaping.Input{Text: text, RunEnd: len(text), Face: face, Size: fixed.I(16), Script: 0x4c61746e})
		fmt.Printf("%.12q.. n=%d -> %d glyphs in %v (budget %d)\n", s, len(text), len(out.Glyphs), time.Since(t0), sizeBudget(len(text)))
	}
}
