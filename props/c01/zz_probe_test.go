package c01

import (
	"encoding/json"
	"fmt"
	"os"
	"strings"
	"testing"

	"verif/internal/ev"
	sc "verif/internal/shapecase"
)

// ddmin over the text of a replay file; the failure class is the first 12 chars of the verdict.
func TestProbeMin(t *testing.T) {
	_, raw, _ := ev.LoadReplay(os.Getenv("PROBE"))
	var c sc.Case
	json.Unmarshal(raw, &c)
	face, _ := c.Face()
	whole := c.RunStart == 0 && c.RunEnd == len(c.Text)
	_, v0, _, _ := execute(&c, face)
	if v0 == nil {
		fmt.Println("does not fail")
		return
	}
	class := strings.SplitN(v0.Error(), "\n", 2)[0]
	if len(class) > 14 {
		class = class[:14]
	}
	fails := func(text []rune) bool {
		d := c
		d.Text = text
		if whole {
			d.RunStart, d.RunEnd = 0, len(text)
		} else if d.RunEnd > len(text) {
			return false
		}
		_, v, _, _ := execute(&d, face)
		return v != nil && strings.HasPrefix(v.Error(), class)
	}
	text := append([]rune(nil), c.Text...)
	for chunk := len(text) / 2; chunk >= 1; {
		removed := false
		for i := 0; i+chunk <= len(text); {
			cand := append(append([]rune(nil), text[:i]...), text[i+chunk:]...)
			if fails(cand) {
				text = cand
				removed = true
			} else {
				i += chunk
			}
		}
		if !removed || chunk > len(text) {
			chunk /= 2
		}
	}
	c.Text = text
	if whole {
		c.RunStart, c.RunEnd = 0, len(text)
	}
	_, v, _, _ := execute(&c, face)
	b, _ := json.Marshal(c)
	fmt.Printf("minimal (%d runes): %v\n%s\n", len(text), v, b)
	for _, r := range text {
		fmt.Printf("U+%04X ", r)
	}
	fmt.Println()
}
