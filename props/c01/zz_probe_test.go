package c01

import (
	"fmt"
	"testing"

	"verif/internal/hbref"
	sc "verif/internal/shapecase"
	"verif/internal/synthfont"
)

type lcg struct{ i int }

func (s *lcg) Intn(_ string, n int) int {
	s.i = s.i*1103515245 + 12345
	v := (s.i >> 8) % n
	if v < 0 {
		v = -v
	}
	return v
}

// cross-check of the serializer: libharfbuzz must accept the generated tables and substitute like the port
func TestProbeSynthRef(t *testing.T) {
	s := &lcg{i: 3}
	same, diff, bykind := 0, 0, map[string][2]int{}
	for i := 0; i < 400; i++ {
		sp := synthfont.DrawSpec(s)
		text := []rune("aaaabaaaaaaaaaaaaaaaaaaaaaaaaaaaaaaaaaaaaaaaaaaaaaaaaaaaaaaaaaaaaaaaaaaaaaaaaaaaaab")[:3+s.Intn("", 78)]
		c := sc.Case{API: sc.APIHarfbuzz, Synth: &sp, Text: text, RunEnd: len(text), ScriptGuess: true, Size: 64 * 16, Language: "en",
			Features: []sc.Feature{{Tag: sp.FeatureTags()[0], Value: 1}}}
		face, err := c.Face()
		if err != nil {
			t.Fatal(err)
		}
		res, p := sc.RunHarfbuzz(&c, face)
		if p != nil {
			t.Fatalf("%+v: %v", sp, p)
		}
		b, _ := synthfont.Build(sp)
		rf := hbref.NewFace(b, 0)
		rf.SetScale(int(c.Scale()), int(c.Scale()))
		out := rf.Shape(hbref.Input{Text: text, ItemLength: len(text), Direction: hbref.DirLTR, Script: uint32(c.ResolvedScript()), Language: "en",
			Features: []hbref.Feature{{Tag: sp.FeatureTags()[0], Value: 1, End: 0xFFFFFFFF}}})
		rf.Close()
		eq := len(out.Glyphs) == len(res.Info)
		for k := 0; eq && k < len(res.Info); k++ {
			eq = uint32(res.Info[k].Glyph) == out.Glyphs[k].ID && int32(res.Pos[k].XAdvance) == out.Glyphs[k].XAdvance
		}
		v := bykind[sp.Kind]
		if eq {
			same++
			v[0]++
		} else {
			diff++
			v[1]++
			if diff <= 6 {
				fmt.Printf("DIFF %+v n=%d: port %d glyphs, ref %d glyphs (ok=%v)\n", sp, len(text), len(res.Info), len(out.Glyphs), out.OK)
			}
		}
		bykind[sp.Kind] = v
	}
	fmt.Println("same", same, "diff", diff, bykind)
}
