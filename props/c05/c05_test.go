package c05

import (
	"encoding/json"
	"fmt"
	"os"
	"path/filepath"
	"sort"
	"strings"
	"testing"
	"unicode"

	"github.com/go-text/typesetting/language"
	"pgregory.net/rapid"

	"verif/internal/ev"
)

func TestMain(m *testing.M) { ev.Main(m) }

// failure carries everything a reader needs next to the decoded case.
type failure struct {
	Case  *Case  `json:"case"`
	Class string `json:"class,omitempty"`
	Port  string `json:"port,omitempty"`
	Ref   string `json:"reference,omitempty"`
	Note  string `json:"note,omitempty"`
}

// checkCase is the whole property for one decoded case: differential against the reference,
// metamorphic identities on the port alone, font functions at the variation coordinates.
// survey != nil collects disagreements instead of failing (development/triage aid).
func checkCase(t ev.TB, fe *fontEntry, c *Case, survey func(class string, f failure)) {
	if err := c.wellFormed(); err != nil {
		t.Fatalf("malformed case: %v", err)
	}
	fail := func(check, class string, port, ref []G, format string, args ...any) {
		f := failure{Case: c, Class: class, Port: fmtGlyphs(port), Ref: fmtGlyphs(ref), Note: fmt.Sprintf(format, args...)}
		if survey != nil {
			survey(check+":"+class, f)
			return
		}
		ev.Fail(t, check, c, "%s#%d %s: %s\n port %s\n ref  %s", c.Font, c.Index, check, f.Note, f.Port, f.Ref)
	}

	got, perr := shapePort(fe, c)
	want := shapeRef(fe, c)
	defer resetRef(fe)

	labels := []string{"dir_" + dirName(want.Dir), fmt.Sprintf("cluster_level_%d", c.Cluster)}
	if len(c.Features) > 0 {
		labels = append(labels, "features")
		for _, f := range c.Features {
			if f.Start != 0 || f.End >= 0 {
				labels = append(labels, "feature_ranged")
				break
			}
		}
	}
	if len(c.Vars) > 0 {
		labels = append(labels, "variations")
	}
	if len(c.Coords) > 0 {
		labels = append(labels, "normalized_coords_given")
	}
	if got.font != nil {
		for _, v := range got.font.Face().Coords() {
			if v != 0 {
				labels = append(labels, "variable_non_default_instance")
				break
			}
		}
	}
	if c.XPpem != 0 || c.YPpem != 0 {
		labels = append(labels, "ppem_set")
		if fe.device {
			labels = append(labels, "ppem_set_font_has_device_tables")
		}
	}
	if c.Ptem != 0 {
		labels = append(labels, "ptem_set")
	}
	if c.Offset > 0 || c.Length < len(c.Text) {
		labels = append(labels, "subrun")
	}
	if c.Script == "" {
		labels = append(labels, "script_guessed")
	}
	if c.Flags&3 != 3 {
		labels = append(labels, "flags_not_bot_eot")
	}
	if c.Flags&12 != 0 {
		labels = append(labels, "flags_default_ignorables")
	}
	labels = append(labels, "font_"+stratum(fe.traits))
	if fe.synth != nil {
		labels = append(labels, synthLabels(fe, c, want.Dir)...)
	}
	labels = append(labels, textLabels(fe, c)...)
	if c.Invisible != 0 {
		labels = append(labels, "invisible_glyph_set")
	}
	if c.NotFound != 0 {
		labels = append(labels, "not_found_glyph_set")
	}

	if perr != nil {
		ev.Case(true, c, append(labels, "port_panic")...)
		if id := knownPanic(fe, c, perr); id != "" {
			ev.Excluded(id)
			return
		}
		fail("panic", "panic", nil, want.Glyphs, "the port panics where the reference shapes: %v", perr)
		return
	}
	nontrivial := len(c.Features) > 0 || len(c.Vars) > 0 || !isIdentityMapping(fe, c, got)
	ev.Case(nontrivial, c, labels...)
	if ev.WantSample() {
		ev.Sample(map[string]any{"case": c, "output": fmtGlyphs(got.Glyphs)})
	}

	// segment properties guessed identically? (input to the shaper, Unicode data version)
	if uint32(got.Script) != want.Script || int(got.Dir) != want.Dir {
		ev.Label("guessed_properties_differ")
		if cls := triageGuess(fe, c, got, want); cls != "" {
			ev.Excluded(cls)
			return
		}
		fail("guess", "segment-properties", got.Glyphs, want.Glyphs, "guessed script/direction differ: port %08x/%d reference %08x/%d", uint32(got.Script), got.Dir, want.Script, want.Dir)
		return
	}

	excludedDiff := false
	if !sameGlyphs(got.Glyphs, want.Glyphs) {
		cls := triage(fe, c, got, want)
		if cls.id != "" {
			ev.Label("disagree_" + cls.id)
			if cls.excluded {
				ev.Excluded(cls.id)
				excludedDiff = true
			}
		}
		if !excludedDiff {
			fail("shape", cls.id, got.Glyphs, want.Glyphs, "glyph sequences differ")
			return
		}
	} else {
		// glyph flags: labelled only on corpus fonts (C18 owns them); on generated fonts, where both
		// sides read the same small rule system, unsafe-to-break and (when requested) unsafe-to-
		// concat are part of the comparison
		// (unsafe-to-concat, requested by flag 0x40, is labelled only: libharfbuzz 6.0.0 predates
		// part of the places where the upstream the port tracks produces it, e.g. the class-0 exit
		// of PairPos format 2 and the failing paths of context matching)
		mask := uint32(1)
		if c.Flags&0x40 != 0 {
			for i := range got.Glyphs {
				if got.Glyphs[i].Flags&2 != want.Glyphs[i].Flags&2 {
					ev.Label("unsafe_to_concat_flag_differs")
					break
				}
			}
		}
		for i := range got.Glyphs {
			if got.Glyphs[i].Flags&mask != want.Glyphs[i].Flags&mask {
				ev.Label("unsafe_to_break_flag_differs")
				if fe.synth != nil {
					if cls := triageFlags(fe, c, got, want); cls != "" {
						ev.Excluded(cls)
						break
					}
					fail("flags", "glyph-flags", got.Glyphs, want.Glyphs, "glyph flags differ at glyph %d (port %d, reference %d; 1 unsafe-to-break, 2 unsafe-to-concat)", i, got.Glyphs[i].Flags&mask, want.Glyphs[i].Flags&mask)
					return
				}
				break
			}
		}
	}

	// ---- metamorphic identities (port only; the reference is consulted only to make sure the
	// identity is one upstream really has for this input) ----
	checkMeta(fe, c, got.Glyphs, fail)

	// ---- second clause: font functions at the drawn coordinates ----
	if len(fe.axes) > 0 && !excludedDiff && c.XPpem == 0 && c.YPpem == 0 {
		checkFontFuncs(fe, c, got, fail)
	}
}

var complexAlphabetScripts = map[language.Script]bool{}

func init() {
	for _, s := range []language.Script{language.Arabic, language.Syriac, language.Nko, language.Mongolian, language.Hebrew, language.Devanagari,
		language.Bengali, language.Gurmukhi, language.Gujarati, language.Oriya, language.Tamil, language.Telugu, language.Kannada, language.Malayalam,
		language.Sinhala, language.Khmer, language.Myanmar, language.Thai, language.Lao, language.Tibetan, language.Hangul, language.Balinese,
		language.Javanese, language.Tai_Tham, language.Batak, language.Brahmi, language.Kaithi} {
		complexAlphabetScripts[s] = true
	}
}

// textLabels classifies the item text: do joiners / ignorables / marks sit *inside* words, between
// letters a complex shaper and the font's contextual lookups work on?
func textLabels(fe *fontEntry, c *Case) []string {
	item := c.item()
	var out []string
	seen := map[string]bool{}
	add := func(l string) {
		if !seen[l] {
			seen[l] = true
			out = append(out, l)
		}
	}
	for _, l := range syllLabels(item) {
		add(l)
	}
	complexLetter := func(r rune) bool { return unicode.IsLetter(r) && complexAlphabetScripts[language.LookupScript(r)] }
	for i, r := range item {
		inner := i > 0 && i+1 < len(item)
		switch {
		case r == 0x200D && inner && complexLetter(item[i-1]) && complexLetter(item[i+1]):
			add("zwj_inside_complex_word")
			if fe.rich.contextual > 0 {
				add("zwj_inside_complex_word_font_has_contextual_lookups")
			}
		case r == 0x200C && inner && complexLetter(item[i-1]) && complexLetter(item[i+1]):
			add("zwnj_inside_complex_word")
		case (r == 0x034F || r >= 0xFE00 && r <= 0xFE0F || r >= 0x180B && r <= 0x180D || r == 0x2060 || r == 0x00AD || r == 0x200B) && inner &&
			unicode.IsLetter(item[i-1]) && unicode.IsLetter(item[i+1]):
			add("ignorable_inside_word")
		case isMarkRune(r) && inner && unicode.IsLetter(item[i-1]) && unicode.IsLetter(item[i+1]):
			add("mark_inside_word")
		case r == 0x2007 || r >= 0x2000 && r <= 0x200A || r == 0x202F || r == 0x205F || r == 0x3000:
			if _, ok := fe.face.NominalGlyph(r); !ok {
				add("fallback_space")
			}
		}
		if (r == 0x200D || r == 0x200C) && inner && unicode.IsLetter(item[i-1]) && unicode.IsLetter(item[i+1]) {
			add("joiner_inside_word")
		}
	}
	if fe.rich.rich() {
		add("font_rich")
	}
	return out
}

func dirName(d int) string {
	switch d {
	case 4:
		return "ltr"
	case 5:
		return "rtl"
	case 6:
		return "ttb"
	case 7:
		return "btt"
	}
	return "invalid"
}

// isIdentityMapping: the output is exactly cmap(rune) -> glyph, one glyph per rune in order, with
// the nominal advance and no offset (horizontal), i.e. no lookup, reordering, attachment, kerning
// or fallback fired. Vertical text always has origin offsets; there only the glyph sequence and
// one-to-one clusters are looked at.
func isIdentityMapping(fe *fontEntry, c *Case, got portResult) bool {
	item := c.item()
	if len(got.Glyphs) != len(item) {
		return false
	}
	backward := got.Dir == 5 || got.Dir == 7
	for i, g := range got.Glyphs {
		k := i
		if backward {
			k = len(item) - 1 - i
		}
		gid, ok := fe.face.NominalGlyph(item[k])
		if !ok {
			gid = harfbuzzGID(uint32(c.NotFound))
		}
		if g.ID != uint32(gid) || g.Cluster != c.Offset+k {
			return false
		}
		if got.Dir == 4 || got.Dir == 5 {
			if g.XOff != 0 || g.YOff != 0 || g.YAdv != 0 || g.XAdv != got.font.GlyphHAdvance(gid) {
				return false
			}
		}
	}
	return true
}

// ---- metamorphic identities ----

func checkMeta(fe *fontEntry, c *Case, base []G, fail func(check, class string, port, ref []G, format string, args ...any)) {
	run := func(name string, d *Case, cmp func(a, b []G) bool, refBase *Case) {
		r, err := shapePort(fe, d)
		if err != nil {
			if id := knownPanic(fe, d, err); id != "" {
				ev.Excluded(id)
				return
			}
			fail("meta-"+name, "panic", nil, base, "variant panics: %v (variant %s)", err, mustJSON(d))
			return
		}
		ev.Label("meta_" + name)
		if cmp(r.Glyphs, base) {
			return
		}
		// does the reference have this identity on this input?
		a, b := shapeRef(fe, refBase), shapeRef(fe, d)
		resetRef(fe)
		if !cmp(b.Glyphs, a.Glyphs) {
			ev.Label("meta_" + name + "_not_held_by_reference")
			return
		}
		// port(A) != port(B) while ref(A) == ref(B): one of the two disagrees with the reference;
		// when that disagreement belongs to a triaged class the identity failure has the same root
		for _, pair := range []struct {
			c   *Case
			ref refResult
		}{{refBase, a}, {d, b}} {
			pr, err := shapePort(fe, pair.c)
			if err != nil || sameGlyphs(pr.Glyphs, pair.ref.Glyphs) {
				continue
			}
			if cl := triage(fe, pair.c, pr, pair.ref); cl.excluded {
				ev.Label("meta_" + name + "_rooted_in_" + cl.id)
				ev.Excluded(cl.id)
				return
			}
		}
		fail("meta-"+name, name, r.Glyphs, base, "metamorphic identity broken by the port (and held by the reference); variant %s", mustJSON(d))
	}
	// (a) an unknown feature tag changes nothing
	{
		tag := "zq9x"
		known := false
		for _, f := range fe.feats {
			if f == tag {
				known = true
			}
		}
		if !known && len(c.Features) < 3 {
			d := *c
			d.Features = append(append([]Feat(nil), c.Features...), Feat{Tag: tag, Value: 1, Start: 0, End: -1})
			run("unknown_feature", &d, sameGlyphs, c)
		}
	}
	// (b) a global feature equals the same feature over the one range [0, len)
	for i, f := range c.Features {
		if f.Start == 0 && f.End == -1 {
			d := *c
			d.Features = append([]Feat(nil), c.Features...)
			d.Features[i].End = len(c.Text)
			run("global_as_range", &d, sameGlyphs, c)
			break
		}
	}
	// (c) variations equal to the axis defaults equal no variations
	if len(fe.axes) > 0 && len(c.Coords) == 0 {
		allDefault := true
		for _, v := range c.Vars {
			for _, a := range fe.axes {
				if a.Tag == v.Tag && a.Def != v.Value {
					allDefault = false
				}
			}
		}
		if allDefault {
			d := *c
			if len(c.Vars) == 0 {
				for i, a := range fe.axes {
					if i < 8 {
						d.Vars = append(d.Vars, Var{Tag: a.Tag, Value: a.Def})
					}
				}
			} else {
				d.Vars = nil
			}
			run("default_variations", &d, sameGlyphs, c)
		}
	}
	// (d) the cluster level changes clusters, not glyphs or positions
	{
		d := *c
		d.Cluster = (c.Cluster + 1) % 3
		run("cluster_level", &d, sameButClusters, c)
	}
}

func mustJSON(v any) string {
	b, _ := json.Marshal(v)
	return string(b)
}

// ---- second clause (basic version; C10 owns the exhaustive one) ----

func checkFontFuncs(fe *fontEntry, c *Case, got portResult, fail func(check, class string, port, ref []G, format string, args ...any)) {
	setRefVars(fe, c)
	seen := map[uint32]bool{}
	n := 0
	for _, g := range got.Glyphs {
		if seen[g.ID] || n >= 12 {
			continue
		}
		seen[g.ID] = true
		n++
		ev.Label("fontfuncs_glyph")
		pa, ra := got.font.GlyphHAdvance(harfbuzzGID(g.ID)), fe.hb.HAdvance(g.ID)
		if pa != ra {
			if id := triageAdvance(fe, c, g.ID, pa, ra); id != "" {
				ev.Excluded(id)
			} else {
				fail("hadvance", "hadvance", nil, nil, "glyph %d: GlyphHAdvance port %d reference %d", g.ID, pa, ra)
				return
			}
		}
		pe, pok := got.font.GlyphExtents(harfbuzzGID(g.ID))
		re, rok := fe.hb.GlyphExtents(g.ID)
		if pok != rok || pok && (pe.XBearing != re.XBearing || pe.YBearing != re.YBearing || pe.Width != re.Width || pe.Height != re.Height) {
			if id := triageExtents(fe, c, g.ID, pe, pok, re, rok); id != "" {
				ev.Excluded(id)
			} else {
				fail("extents", "extents", nil, nil, "glyph %d: GlyphExtents port %+v,%v reference %+v,%v", g.ID, pe, pok, re, rok)
				return
			}
		}
	}
}

// ---- tests ----

func fontsPerShard() int { return ev.Scale(12, 46) }

// TestPropShape: the rapid property.
func TestPropShape(t *testing.T) {
	requireReference()
	fonts := pickFonts(fontsPerShard())
	if len(fonts) == 0 {
		fmt.Println("INFRASTRUCTURE: no corpus font available to this shard")
		os.Exit(2)
	}
	cum := fontWeights(fonts)
	rapid.Check(t, func(t *rapid.T) {
		fe, c := genCase(t, fonts, cum)
		checkCase(t, fe, c, nil)
	})
}

// TestSurvey (development / triage aid, not part of any tier): C05_SURVEY=<file> runs N cases per
// font over every corpus font and writes every disagreement, without failing.
func TestSurvey(t *testing.T) {
	out := os.Getenv("C05_SURVEY")
	if out == "" {
		t.Skip("set C05_SURVEY")
	}
	requireReference()
	nfonts := 100000
	if os.Getenv("C05_SURVEY_QUICK") != "" { // the font sample of one quick shard (VERIF_SHARD/VERIF_NSHARDS)
		nfonts = fontsPerShard()
	}
	fonts := pickFonts(nfonts)
	f, err := os.Create(out)
	if err != nil {
		t.Fatal(err)
	}
	defer f.Close()
	enc := json.NewEncoder(f)
	counts := map[string]int{}
	perFont := map[string]map[string]int{}
	cum := fontWeights(fonts)
	rapid.Check(t, func(t *rapid.T) {
		fe, c := genCase(t, fonts, cum)
		checkCase(t, fe, c, func(class string, fl failure) {
			counts[class]++
			if perFont[class] == nil {
				perFont[class] = map[string]int{}
			}
			perFont[class][c.Font]++
			enc.Encode(map[string]any{"class": class, "failure": fl})
		})
	})
	var ks []string
	for k := range counts {
		ks = append(ks, k)
	}
	sort.Strings(ks)
	for _, k := range ks {
		t.Logf("%-40s %6d cases in %d fonts", k, counts[k], len(perFont[k]))
	}
}

// TestReplay re-runs saved cases (one file when VERIF_REPLAY is set, else every file of the replay
// directory) through the same property function, without rapid.
func TestReplay(t *testing.T) {
	requireReference()
	var files []string
	if p := ev.ReplayPath(); p != "" {
		files = []string{p}
	} else if d := os.Getenv("VERIF_REPLAY_DIR"); d != "" {
		files, _ = filepath.Glob(filepath.Join(d, "*.json"))
		sort.Strings(files)
	}
	for _, p := range files {
		_, raw, err := ev.LoadReplay(p)
		if err != nil {
			t.Fatalf("replay %s: %v", p, err)
		}
		var c Case
		if err := json.Unmarshal(raw, &c); err != nil {
			t.Fatalf("replay %s: %v", p, err)
		}
		fe, err := caseFont(&c)
		if err != nil {
			t.Fatalf("replay %s: %v", p, err)
		}
		if !fe.hbOK {
			t.Logf("replay %s: font excluded (loaders differ: %s)", p, fe.note)
			continue
		}
		checkCase(t, fe, &c, nil)
	}
}

// TestOne (triage aid): C05_CASE='<case json>' prints what both sides produce for one case.
func TestOne(t *testing.T) {
	s := os.Getenv("C05_CASE")
	if s == "" {
		t.Skip("set C05_CASE")
	}
	requireReference()
	var c Case
	if err := json.Unmarshal([]byte(s), &c); err != nil {
		t.Fatal(err)
	}
	fe, err := caseFont(&c)
	if err != nil {
		t.Fatal(err)
	}
	got, perr := shapePort(fe, &c)
	want := shapeRef(fe, &c)
	resetRef(fe)
	t.Logf("font scripts=%v feats=%v axes=%v space=%v hbOK=%v", fe.scripts, fe.feats, fe.axes, fe.space, fe.hbOK)
	t.Logf("text %U item [%d,%d)", c.runes(), c.Offset, c.Offset+c.Length)
	t.Logf("port err=%v script=%08x dir=%d\n  %s", perr, uint32(got.Script), got.Dir, fmtGlyphs(got.Glyphs))
	t.Logf("ref  ok=%v script=%08x dir=%d\n  %s", want.OK, want.Script, want.Dir, fmtGlyphs(want.Glyphs))
	for _, r := range c.item() {
		g, ok := fe.face.NominalGlyph(r)
		hg, hok := fe.hb.NominalGlyph(r)
		name, _ := fe.hb.GlyphName(hg)
		t.Logf("  %U port gid %d,%v  ref gid %d,%v %s", r, g, ok, hg, hok, name)
	}
	if perr == nil {
		setRefVars(fe, &c)
		seen := map[uint32]bool{}
		for _, g := range append(append([]G(nil), got.Glyphs...), want.Glyphs...) {
			if seen[g.ID] {
				continue
			}
			seen[g.ID] = true
			pe, pok := got.font.GlyphExtents(harfbuzzGID(g.ID))
			re, rok := fe.hb.GlyphExtents(g.ID)
			t.Logf("  glyph %d: port adv %d ext %+v,%v | ref adv %d ext %+v,%v", g.ID, got.font.GlyphHAdvance(harfbuzzGID(g.ID)), pe, pok, fe.hb.HAdvance(g.ID), re, rok)
		}
		resetRef(fe)
	}
	if os.Getenv("C05_CHECK") != "" {
		checkCase(t, fe, &c, nil)
	}
}

// disagree reports whether the two sides differ on the case (panic counts as differing).
func disagree(fe *fontEntry, c *Case) bool {
	got, err := shapePort(fe, c)
	want := shapeRef(fe, c)
	resetRef(fe)
	if err != nil {
		return knownPanic(fe, c, err) == ""
	}
	if sameGlyphs(got.Glyphs, want.Glyphs) {
		return false
	}
	if os.Getenv("C05_MIN_RAW") != "" {
		return true
	}
	return !triage(fe, c, got, want).excluded // only disagreements no triaged class explains
}

// minimize greedily simplifies a disagreeing case while it keeps disagreeing (triage aid).
func minimize(fe *fontEntry, c Case) Case {
	try := func(d Case) bool {
		if d.wellFormed() != nil {
			return false
		}
		if disagree(fe, &d) {
			c = d
			return true
		}
		return false
	}
	for changed := true; changed; {
		changed = false
		if c.Offset != 0 || c.Length != len(c.Text) { // drop the context
			d := c
			d.Text = append([]int(nil), c.Text[c.Offset:c.Offset+c.Length]...)
			for i := range d.Features {
				if d.Features[i].Start >= c.Offset {
					d.Features[i].Start -= c.Offset
				}
				if d.Features[i].End >= c.Offset {
					d.Features[i].End -= c.Offset
				}
			}
			d.Offset = 0
			changed = try(d) || changed
		}
		for i := 0; i < len(c.Text); i++ { // delete runes
			if c.Offset != 0 || c.Length != len(c.Text) {
				break
			}
			d := c
			d.Text = append(append([]int(nil), c.Text[:i]...), c.Text[i+1:]...)
			d.Length = len(d.Text)
			d.Features = nil
			for _, f := range c.Features {
				if f.Start > i {
					f.Start--
				}
				if f.End > i {
					f.End--
				}
				d.Features = append(d.Features, f)
			}
			if try(d) {
				changed = true
				i--
			}
		}
		for i := range c.Features {
			d := c
			d.Features = append(append([]Feat(nil), c.Features[:i]...), c.Features[i+1:]...)
			if try(d) {
				changed = true
				break
			}
		}
		for i := range c.Vars {
			d := c
			d.Vars = append(append([]Var(nil), c.Vars[:i]...), c.Vars[i+1:]...)
			if try(d) {
				changed = true
				break
			}
		}
		for _, f := range []func(d *Case){
			func(d *Case) { d.Invisible = 0 }, func(d *Case) { d.NotFound = 0 },
			func(d *Case) { d.Flags = 3 }, func(d *Case) { d.Cluster = 0 }, func(d *Case) { d.Lang = "" }, func(d *Case) { d.Script = "" },
			func(d *Case) {
				if d.Dir != 4 {
					d.Dir = 0
				}
			}, func(d *Case) { d.Dir = 4 },
		} {
			d := c
			f(&d)
			if mustJSON(d) != mustJSON(c) && try(d) {
				changed = true
			}
		}
		for i := range c.Features { // simplify feature ranges
			if c.Features[i].Start != 0 || c.Features[i].End != -1 {
				d := c
				d.Features = append([]Feat(nil), c.Features...)
				d.Features[i].Start, d.Features[i].End = 0, -1
				changed = try(d) || changed
			}
		}
	}
	return c
}

// TestMinimize (triage aid): C05_CASE='<case json>' prints the greedily minimised case.
func TestMinimize(t *testing.T) {
	s := os.Getenv("C05_CASE")
	if s == "" {
		t.Skip("set C05_CASE")
	}
	requireReference()
	var c Case
	if err := json.Unmarshal([]byte(s), &c); err != nil {
		t.Fatal(err)
	}
	fe, err := caseFont(&c)
	if err != nil {
		t.Fatal(err)
	}
	if !disagree(fe, &c) {
		t.Log("the two sides agree on this case")
		return
	}
	m := minimize(fe, c)
	got, perr := shapePort(fe, &m)
	want := shapeRef(fe, &m)
	resetRef(fe)
	fmt.Printf("MIN %s\n text %U\n port %s %v\n ref  %s\n", mustJSON(m), m.runes(), fmtGlyphs(got.Glyphs), perr, fmtGlyphs(want.Glyphs))
}

// TestMinimizeSurvey (triage aid): C05_SURVEY_IN=<survey file> minimises every recorded shape
// disagreement and prints the minimal cases.
func TestMinimizeSurvey(t *testing.T) {
	in := os.Getenv("C05_SURVEY_IN")
	if in == "" {
		t.Skip("set C05_SURVEY_IN")
	}
	requireReference()
	b, err := os.ReadFile(in)
	if err != nil {
		t.Fatal(err)
	}
	seen := map[string]bool{}
	for _, line := range strings.Split(string(b), "\n") {
		var row struct {
			Class   string  `json:"class"`
			Failure failure `json:"failure"`
		}
		if json.Unmarshal([]byte(line), &row) != nil || row.Failure.Case == nil || !strings.HasPrefix(row.Class, "shape") {
			continue
		}
		c := *row.Failure.Case
		fe, err := caseFont(&c)
		if err != nil || !disagree(fe, &c) {
			continue
		}
		m := minimize(fe, c)
		k := mustJSON(m)
		if seen[k] {
			continue
		}
		seen[k] = true
		got, perr := shapePort(fe, &m)
		want := shapeRef(fe, &m)
		resetRef(fe)
		fmt.Printf("MIN %s\n text %U\n port %s %v\n ref  %s\n", k, m.runes(), fmtGlyphs(got.Glyphs), perr, fmtGlyphs(want.Glyphs))
	}
}
