package c05

import (
	"sort"

	"pgregory.net/rapid"

	"verif/internal/corpus"
	"verif/internal/ev"
	"verif/internal/textgen"
)

// ---- font pool of this process ----

type fontRef struct {
	Rel   string
	Index int
}

func stratum(tr corpus.Traits) string {
	switch {
	case tr.Morx:
		return "morx"
	case tr.Kerx:
		return "kerx"
	case tr.Fvar && (tr.GSUB || tr.GPOS):
		return "fvar+layout"
	case tr.Fvar:
		return "fvar"
	case tr.GSUB && tr.GPOS && (tr.CFF || tr.CFF2):
		return "cff+layout"
	case tr.GSUB && tr.GPOS:
		return "gsub+gpos"
	case tr.GSUB:
		return "gsub"
	case tr.GPOS:
		return "gpos"
	case tr.Kern:
		return "kern"
	default:
		return "plain"
	}
}

// allFontRefs lists (file, face index) of every corpus file, reading only table directories.
func allFontRefs() (refs []fontRef, strata map[string][]int) {
	strata = map[string][]int{}
	for _, rel := range corpus.Files() {
		lds, err := corpus.Loaders(rel)
		if err != nil {
			continue
		}
		for i := range lds {
			tr := corpus.TraitsOf(rel, i)
			strata[stratum(tr)] = append(strata[stratum(tr)], len(refs))
			refs = append(refs, fontRef{rel, i})
		}
	}
	return refs, strata
}

// pickFonts draws the stratified font sample of this shard: n fonts, round-robin over the strata,
// order inside a stratum shuffled by (VERIF_SEED); shards take disjoint slices of each stratum.
// Fonts the port cannot load are skipped (C09 owns loading).
func pickFonts(n int) []*fontEntry {
	refs, strata := allFontRefs()
	shard, nshards := ev.Shard()
	rnd := ev.NewRand(uint64(ev.Seed())*0x9E3779B1 + 77)
	names := make([]string, 0, len(strata))
	for k := range strata {
		names = append(names, k)
	}
	sort.Strings(names)
	var order []int // global order: round robin over shuffled strata
	lists := make([][]int, len(names))
	for i, k := range names {
		l := append([]int(nil), strata[k]...)
		for j := len(l) - 1; j > 0; j-- {
			m := rnd.Intn(j + 1)
			l[j], l[m] = l[m], l[j]
		}
		lists[i] = l
	}
	for more := true; more; {
		more = false
		for i := range lists {
			if len(lists[i]) > 0 {
				order = append(order, lists[i][0])
				lists[i] = lists[i][1:]
				more = true
			}
		}
	}
	var out []*fontEntry
	for k := shard; k < len(order) && len(out) < n; k += nshards {
		r := refs[order[k]]
		fe, err := loadFont(r.Rel, r.Index)
		if err != nil {
			ev.Label("font_port_rejects")
			continue
		}
		if !fe.hbOK {
			// loader difference: the reference does not load the face (or sees another glyph count)
			ev.Label("font_excluded_reference_rejects")
			ev.Note("font excluded, loaders differ: %s#%d: %s", r.Rel, r.Index, fe.note)
			continue
		}
		out = append(out, fe)
	}
	return out
}

// ---- case generator ----

var commonFeatures = []string{"kern", "liga", "frac", "smcp", "vert", "dlig", "calt", "clig", "onum", "sups", "numr", "dnom", "ccmp", "locl", "mark", "mkmk", "init", "rlig", "salt", "ss01", "aalt", "zero", "tnum", "c2sc", "hlig", "curs", "rtlm", "ltrm", "rclt"}

var someScripts = []string{"Latn", "Arab", "Deva", "Hebr", "Zyyy", "Zzzz", "Hang", "Thai", "Khmr", "Mymr", "Beng", "Cyrl", "Grek", "Mong", "Syrc", "Taml", "Hani", "Bali", "Zinh", "Qaag"}

var someLangs = []string{"en", "ar", "fa", "ur", "sd", "hi", "mr", "ne", "sr", "ro", "tr", "az", "nl", "de", "zh-hans", "zh-hant", "ja", "ko", "vi", "he", "th", "ml", "ta", "x-hbot-54524b20", "und", "xyz", "fr-ca", "ks-arab", "mo", "pl", "ca", "el-polyton", "ga", "lt"}

func genFeature(t *rapid.T, fe *fontEntry, n int) Feat {
	var tag string
	k := rapid.IntRange(0, 99).Draw(t, "featSrc")
	switch {
	case k < 60 && len(fe.feats) > 0:
		tag = rapid.SampledFrom(fe.feats).Draw(t, "featTag")
	case k < 95:
		tag = rapid.SampledFrom(commonFeatures).Draw(t, "featCommon")
	default:
		tag = rapid.StringMatching(`[a-z]{2}[a-z0-9]{2}`).Draw(t, "featRandom")
	}
	f := Feat{Tag: tag, Value: rapid.SampledFrom([]uint32{1, 1, 1, 0, 0, 2, 3}).Draw(t, "featValue"), Start: 0, End: -1}
	if rapid.IntRange(0, 2).Draw(t, "featRanged") == 0 {
		f.Start = rapid.IntRange(0, n+1).Draw(t, "featStart")
		if rapid.IntRange(0, 3).Draw(t, "featOpenEnd") != 0 {
			f.End = rapid.IntRange(f.Start, n+2).Draw(t, "featEnd")
		}
	}
	return f
}

func genVars(t *rapid.T, fe *fontEntry) []Var {
	if len(fe.axes) == 0 {
		return nil
	}
	mode := rapid.SampledFrom([]string{"none", "default", "min", "max", "random", "random", "random", "outofrange", "mixed"}).Draw(t, "varMode")
	if mode == "none" {
		return nil
	}
	var out []Var
	for i, a := range fe.axes {
		if i >= 8 {
			break
		}
		m := mode
		if m == "mixed" {
			m = rapid.SampledFrom([]string{"skip", "default", "min", "max", "random", "outofrange"}).Draw(t, "axisMode")
		}
		var v float32
		switch m {
		case "skip":
			continue
		case "default":
			v = a.Def
		case "min":
			v = a.Min
		case "max":
			v = a.Max
		case "outofrange":
			d := float32(rapid.IntRange(1, 2000).Draw(t, "oor"))
			if rapid.Bool().Draw(t, "oorHigh") {
				v = a.Max + d
			} else {
				v = a.Min - d
			}
		default:
			if a.Max > a.Min {
				// quarter-unit grid: exactly representable, avoids depending on float formatting
				steps := int((a.Max - a.Min) * 4)
				if steps < 1 {
					steps = 1
				}
				if steps > 1<<20 {
					steps = 1 << 20
				}
				v = a.Min + (a.Max-a.Min)*float32(rapid.IntRange(0, steps).Draw(t, "axisStep"))/float32(steps)
			} else {
				v = a.Def
			}
		}
		out = append(out, Var{Tag: a.Tag, Value: v})
	}
	return out
}

func genCase(t *rapid.T, fonts []*fontEntry) (*fontEntry, *Case) {
	fe := fonts[rapid.IntRange(0, len(fonts)-1).Draw(t, "font")]
	c := &Case{Font: fe.rel, Index: fe.index}
	opts := textgen.Opts{MaxLen: ev.Scale(32, 64), FontPool: fe.pool, Hostile: 10, NoInvalid: true}
	// mostly the scripts the font is made for; sometimes any (fallback paths, .notdef)
	if len(fe.scripts) > 0 && rapid.IntRange(0, 9).Draw(t, "ownScripts") < 8 {
		opts.Scripts = fe.scripts
	}
	text := textgen.Text(t, opts)
	c.Text = make([]int, len(text))
	for i, r := range text {
		c.Text[i] = int(r)
	}
	c.Offset, c.Length = 0, len(text)
	if len(text) > 1 && rapid.IntRange(0, 3).Draw(t, "subrun") == 0 {
		c.Offset = rapid.IntRange(0, len(text)-1).Draw(t, "itemOffset")
		c.Length = rapid.IntRange(0, len(text)-c.Offset).Draw(t, "itemLength")
	}
	c.Dir = rapid.SampledFrom([]int{0, 0, 0, 0, 4, 4, 5, 5, 6, 7}).Draw(t, "direction")
	switch rapid.IntRange(0, 9).Draw(t, "scriptMode") {
	case 0, 1, 2, 3, 4:
		// guessed
	case 5, 6, 7:
		if len(fe.scripts) > 0 {
			c.Script = alphabetScript[rapid.SampledFrom(fe.scripts).Draw(t, "ownScript")][0]
		} else {
			c.Script = "Latn"
		}
	default:
		c.Script = rapid.SampledFrom(someScripts).Draw(t, "script")
	}
	switch rapid.IntRange(0, 9).Draw(t, "langMode") {
	case 0, 1, 2, 3:
	case 4, 5:
		if len(fe.scripts) > 0 {
			c.Lang = alphabetScript[rapid.SampledFrom(fe.scripts).Draw(t, "ownLang")][1]
		} else {
			c.Lang = "en"
		}
	default:
		c.Lang = rapid.SampledFrom(someLangs).Draw(t, "lang")
	}
	nf := rapid.SampledFrom([]int{0, 0, 0, 1, 1, 2, 3}).Draw(t, "nfeatures")
	for i := 0; i < nf; i++ {
		c.Features = append(c.Features, genFeature(t, fe, len(text)))
	}
	c.Vars = genVars(t, fe)
	c.Cluster = rapid.SampledFrom([]int{0, 0, 0, 1, 2}).Draw(t, "clusterLevel")
	c.Flags = rapid.SampledFrom([]int{3, 3, 3, 3, 0, 1, 2, 3 | 4, 3 | 8, 3 | 4 | 8, 4, 8, 1 | 8, 2 | 4}).Draw(t, "flags")
	return fe, c
}
