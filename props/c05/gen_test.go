package c05

import (
	"encoding/binary"
	"os"
	"path/filepath"
	"sort"
	"strconv"
	"strings"
	"sync"
	"unicode"

	ot "github.com/go-text/typesetting/font/opentype"

	"pgregory.net/rapid"

	"verif/internal/corpus"
	"verif/internal/ev"
	"verif/internal/textgen"
)

// ---- font pool of this process ----

type fontRef struct {
	Rel   string
	Index int
}

func stratum(tr corpus.Traits) string {
	switch {
	case tr.Morx:
		return "morx"
	case tr.Kerx:
		return "kerx"
	case tr.Fvar && (tr.GSUB || tr.GPOS):
		return "fvar+layout"
	case tr.Fvar:
		return "fvar"
	case tr.GSUB && tr.GPOS && (tr.CFF || tr.CFF2):
		return "cff+layout"
	case tr.GSUB && tr.GPOS:
		return "gsub+gpos"
	case tr.GSUB:
		return "gsub"
	case tr.GPOS:
		return "gpos"
	case tr.Kern:
		return "kern"
	default:
		return "plain"
	}
}

// fontRef richness: number of GSUB+GPOS lookups and of contextual / chaining lookups, read from
// the raw tables (lookup headers only; extension lookups are followed).
type richness struct {
	lookups, contextual int
	complexScript       bool
}

func (r richness) score() int {
	s := r.lookups + 4*r.contextual
	if r.complexScript {
		s += 20
	}
	return s
}

// rich: enough lookups and at least one contextual one (84 faces of the pinned corpus).
func (r richness) rich() bool { return r.contextual >= 1 && r.lookups >= 10 }

func be16(b []byte, o int) int {
	if o < 0 || o+2 > len(b) {
		return 0
	}
	return int(binary.BigEndian.Uint16(b[o:]))
}

var simpleScriptTags = map[string]bool{"DFLT": true, "dflt": true, "latn": true, "grek": true, "cyrl": true, "hani": true, "kana": true, "armn": true, "geor": true, "math": true}

func layoutStats(b []byte, isGPOS bool, r *richness) {
	if len(b) < 10 {
		return
	}
	sl, ll := be16(b, 4), be16(b, 8)
	for i, n := 0, be16(b, sl); i < n; i++ {
		if o := sl + 2 + 6*i; o+4 <= len(b) && !simpleScriptTags[string(b[o:o+4])] {
			r.complexScript = true
		}
	}
	n := be16(b, ll)
	r.lookups += n
	ext, ctxA, ctxB := 7, 5, 6
	if isGPOS {
		ext, ctxA, ctxB = 9, 7, 8
	}
	for i := 0; i < n; i++ {
		lo := ll + be16(b, ll+2+2*i)
		typ := be16(b, lo)
		if typ == ext && be16(b, lo+4) > 0 {
			typ = be16(b, lo+be16(b, lo+6)+2)
		}
		if typ == ctxA || typ == ctxB {
			r.contextual++
		}
	}
}

// allFontRefs lists (file, face index) of every corpus file with its stratum and layout richness,
// reading only table directories and the lookup headers of GSUB/GPOS.
func allFontRefs() (refs []fontRef, strata map[string][]int, rich []richness) {
	strata = map[string][]int{}
	for _, rel := range corpus.Files() {
		lds, err := corpus.Loaders(rel)
		if err != nil {
			continue
		}
		for i, ld := range lds {
			has := func(s string) bool { return ld.HasTable(ot.MustNewTag(s)) }
			tr := corpus.Traits{
				GSUB: has("GSUB"), GPOS: has("GPOS"), Morx: has("morx") || has("mort"), Kerx: has("kerx"), Kern: has("kern"),
				Fvar: has("fvar"), CFF: has("CFF "), CFF2: has("CFF2"), Glyf: has("glyf"),
			}
			var r richness
			for _, tg := range []string{"GSUB", "GPOS"} {
				if raw, err := ld.RawTable(ot.MustNewTag(tg)); err == nil {
					layoutStats(raw, tg == "GPOS", &r)
				}
			}
			strata[stratum(tr)] = append(strata[stratum(tr)], len(refs))
			refs = append(refs, fontRef{rel, i})
			rich = append(rich, r)
		}
	}
	return refs, strata, rich
}

// pickFonts draws the font sample of this shard: n fonts.
//
// Half of the slots go to the "rich" tier (faces with >= 10 lookups and >= 1 contextual/chaining
// lookup, ordered by score, at most two faces per collection file): with 16 shards x 6 slots the
// whole tier (Amiri, the Noto Nastaliq Urdu copies, Noto Indic fonts, Commissioner, Estedad, ...)
// is part of (nearly) every quick run; only the assignment to shards rotates with VERIF_SEED.
// The other half is the stratified sample as before: round-robin over the strata, order inside a
// stratum shuffled by VERIF_SEED, shards take disjoint slices. Fonts the port cannot load are
// skipped (C09 owns loading).
func pickFonts(n int) []*fontEntry {
	refs, strata, rich := allFontRefs()
	shard, nshards := ev.Shard()
	rnd := ev.NewRand(uint64(ev.Seed())*0x9E3779B1 + 77)

	var richIdx []int
	perFile := map[string]int{}
	all := make([]int, len(refs))
	for i := range all {
		all[i] = i
	}
	sort.SliceStable(all, func(a, b int) bool { return rich[all[a]].score() > rich[all[b]].score() })
	for _, i := range all {
		if rich[i].rich() && perFile[refs[i].Rel] < 2 {
			perFile[refs[i].Rel]++
			richIdx = append(richIdx, i)
		}
	}
	taken := map[int]bool{}
	var chosen []int
	if len(richIdx) > 0 {
		rot := rnd.Intn(nshards)
		for k := (shard + rot) % nshards; k < len(richIdx) && len(chosen) < n/2; k += nshards {
			chosen = append(chosen, richIdx[k])
			taken[richIdx[k]] = true
		}
	}

	names := make([]string, 0, len(strata))
	for k := range strata {
		names = append(names, k)
	}
	sort.Strings(names)
	var order []int // global order: round robin over shuffled strata
	lists := make([][]int, len(names))
	for i, k := range names {
		l := append([]int(nil), strata[k]...)
		for j := len(l) - 1; j > 0; j-- {
			m := rnd.Intn(j + 1)
			l[j], l[m] = l[m], l[j]
		}
		lists[i] = l
	}
	for more := true; more; {
		more = false
		for i := range lists {
			if len(lists[i]) > 0 {
				order = append(order, lists[i][0])
				lists[i] = lists[i][1:]
				more = true
			}
		}
	}
	for k := shard; k < len(order); k += nshards {
		if !taken[order[k]] {
			chosen = append(chosen, order[k])
		}
	}
	var out []*fontEntry
	for _, i := range chosen {
		if len(out) >= n {
			break
		}
		r := refs[i]
		fe, err := loadFont(r.Rel, r.Index)
		if err != nil {
			ev.Label("font_port_rejects")
			continue
		}
		if !fe.hbOK {
			// loader difference: the reference does not load the face (or sees another glyph count)
			ev.Label("font_excluded_reference_rejects")
			ev.Note("font excluded, loaders differ: %s#%d: %s", r.Rel, r.Index, fe.note)
			continue
		}
		fe.rich = rich[i]
		if rich[i].rich() {
			ev.Label("font_rich_tier")
		}
		out = append(out, fe)
	}
	return out
}

// fontWeights: how often a font of the shard is drawn relative to the others: fonts with many
// (contextual) lookups have more behaviour to compare.
func fontWeights(fonts []*fontEntry) (cum []int) {
	total := 0
	for _, fe := range fonts {
		w := 2
		if fe.rich.rich() {
			w += 1 + fe.rich.score()/60
			if w > 5 {
				w = 5
			}
		}
		total += w
		cum = append(cum, total)
	}
	return cum
}

// ---- upstream test strings of the corpus, by font ----

var (
	upstreamOnce  sync.Once
	upstreamTexts map[string][][]rune
)

// upstreamFor returns the texts the upstream expectation files (harfbuzz_reference/*/tests/*.tests,
// lines "font;options;text;expected") shape with this font: sequences the font's own lookups
// are known to react to.
func upstreamFor(rel string) [][]rune {
	upstreamOnce.Do(func() {
		upstreamTexts = map[string][][]rune{}
		root := corpus.Dir()
		files, _ := filepath.Glob(filepath.Join(root, "harfbuzz", "harfbuzz_reference", "*", "tests", "*.tests"))
		sort.Strings(files)
		for _, f := range files {
			b, err := os.ReadFile(f)
			if err != nil {
				continue
			}
			for _, line := range strings.Split(string(b), "\n") {
				if strings.HasPrefix(line, "#") {
					continue
				}
				parts := strings.Split(line, ";")
				if len(parts) < 4 {
					continue
				}
				font := parts[0]
				if i := strings.IndexByte(font, '@'); i >= 0 {
					font = font[:i]
				}
				rel, err := filepath.Rel(root, filepath.Join(filepath.Dir(f), font))
				if err != nil {
					continue
				}
				var text []rune
				ok := true
				for _, u := range strings.Split(parts[2], ",") {
					u = strings.TrimPrefix(strings.TrimSpace(u), "U+")
					v, err := strconv.ParseInt(u, 16, 32)
					if err != nil || v < 0 || v > 0x10FFFF || v >= 0xD800 && v <= 0xDFFF {
						ok = false
						break
					}
					text = append(text, rune(v))
				}
				if ok && len(text) > 0 && len(text) <= 48 && len(upstreamTexts[rel]) < 400 {
					upstreamTexts[rel] = append(upstreamTexts[rel], text)
				}
			}
		}
	})
	return upstreamTexts[rel]
}

// ---- case generator ----

var commonFeatures = []string{"kern", "liga", "frac", "smcp", "vert", "dlig", "calt", "clig", "onum", "sups", "numr", "dnom", "ccmp", "locl", "mark", "mkmk", "init", "rlig", "salt", "ss01", "aalt", "zero", "tnum", "c2sc", "hlig", "curs", "rtlm", "ltrm", "rclt"}

var someScripts = []string{"Latn", "Arab", "Deva", "Hebr", "Zyyy", "Zzzz", "Hang", "Thai", "Khmr", "Mymr", "Beng", "Cyrl", "Grek", "Mong", "Syrc", "Taml", "Hani", "Bali", "Zinh", "Qaag"}

var someLangs = []string{"en", "ar", "fa", "ur", "sd", "hi", "mr", "ne", "sr", "ro", "tr", "az", "nl", "de", "zh-hans", "zh-hant", "ja", "ko", "vi", "he", "th", "ml", "ta", "x-hbot-54524b20", "und", "xyz", "fr-ca", "ks-arab", "mo", "pl", "ca", "el-polyton", "ga", "lt"}

func genFeature(t *rapid.T, fe *fontEntry, n int) Feat {
	var tag string
	k := rapid.IntRange(0, 99).Draw(t, "featSrc")
	switch {
	case k < 60 && len(fe.feats) > 0:
		tag = rapid.SampledFrom(fe.feats).Draw(t, "featTag")
	case k < 95:
		tag = rapid.SampledFrom(commonFeatures).Draw(t, "featCommon")
	default:
		tag = rapid.StringMatching(`[a-z]{2}[a-z0-9]{2}`).Draw(t, "featRandom")
	}
	f := Feat{Tag: tag, Value: rapid.SampledFrom([]uint32{1, 1, 1, 0, 0, 2, 3}).Draw(t, "featValue"), Start: 0, End: -1}
	if rapid.IntRange(0, 2).Draw(t, "featRanged") == 0 {
		f.Start = rapid.IntRange(0, n+1).Draw(t, "featStart")
		if rapid.IntRange(0, 3).Draw(t, "featOpenEnd") != 0 {
			f.End = rapid.IntRange(f.Start, n+2).Draw(t, "featEnd")
		}
	}
	return f
}

func genVars(t *rapid.T, fe *fontEntry) []Var {
	if len(fe.axes) == 0 {
		return nil
	}
	mode := rapid.SampledFrom([]string{"none", "default", "min", "max", "random", "random", "random", "outofrange", "mixed"}).Draw(t, "varMode")
	if mode == "none" {
		return nil
	}
	var out []Var
	for i, a := range fe.axes {
		if i >= 8 {
			break
		}
		m := mode
		if m == "mixed" {
			m = rapid.SampledFrom([]string{"skip", "default", "min", "max", "random", "outofrange"}).Draw(t, "axisMode")
		}
		var v float32
		switch m {
		case "skip":
			continue
		case "default":
			v = a.Def
		case "min":
			v = a.Min
		case "max":
			v = a.Max
		case "outofrange":
			d := float32(rapid.IntRange(1, 2000).Draw(t, "oor"))
			if rapid.Bool().Draw(t, "oorHigh") {
				v = a.Max + d
			} else {
				v = a.Min - d
			}
		default:
			if a.Max > a.Min {
				// quarter-unit grid: exactly representable, avoids depending on float formatting
				steps := int((a.Max - a.Min) * 4)
				if steps < 1 {
					steps = 1
				}
				if steps > 1<<20 {
					steps = 1 << 20
				}
				v = a.Min + (a.Max-a.Min)*float32(rapid.IntRange(0, steps).Draw(t, "axisStep"))/float32(steps)
			} else {
				v = a.Def
			}
		}
		out = append(out, Var{Tag: a.Tag, Value: v})
	}
	return out
}

// joiners: default ignorables and joiners that lookups have to step over (or not).
var joiners = []rune{0x200D, 0x200D, 0x200D, 0x200D, 0x200C, 0x200C, 0x034F, 0xFE00, 0xFE0F, 0xFE01, 0x180B, 0x2060, 0x00AD, 0x061C, 0x200B, 0x200E, 0x0640, 0x25CC}

// fallbackSpaces: the spaces the shaper synthesises when the font lacks them.
var fallbackSpaces = []rune{0x2007, 0x2007, 0x2008, 0x2009, 0x2002, 0x2003, 0x2004, 0x2005, 0x2006, 0x200A, 0x202F, 0x205F, 0x3000, 0x00A0, 0x2000, 0x2001}

func isMarkRune(r rune) bool { return unicode.In(r, unicode.Mn, unicode.Mc, unicode.Me) }

// genJoinerText builds text out of units the font's own lookups react to — a text of the upstream
// expectation files for this font, a word from an alphabet of the font's scripts, a snippet, a
// window of the font's cmap — and inserts joiners, default ignorables, variation selectors and
// marks at inner positions of the units (between letters), so that contextual / chaining /
// ligature lookups have to step over them. Units are separated by a space, a fallback space or
// nothing.
func genJoinerText(t *rapid.T, fe *fontEntry, maxLen int) []rune {
	scripts := fe.scripts
	if len(scripts) == 0 {
		scripts = textgen.ScriptNames
	}
	var out []rune
	nunits := rapid.IntRange(1, 4).Draw(t, "nunits")
	for u := 0; u < nunits && len(out) < maxLen; u++ {
		var unit []rune
		var marks []rune
		src := rapid.IntRange(0, 9).Draw(t, "unitSource")
		alphabet := textgen.Alphabets[rapid.SampledFrom(scripts).Draw(t, "unitScript")]
		for _, r := range alphabet {
			if isMarkRune(r) {
				marks = append(marks, r)
			}
		}
		switch {
		case src < 4 && len(fe.upstream) > 0:
			unit = append(unit, rapid.SampledFrom(fe.upstream).Draw(t, "upstreamText")...)
			if len(unit) > 12 { // a window of a long test string
				o := rapid.IntRange(0, len(unit)-12).Draw(t, "upstreamOffset")
				unit = unit[o : o+rapid.IntRange(2, 12).Draw(t, "upstreamLen")]
			}
		case src < 7:
			n := rapid.IntRange(2, 6).Draw(t, "wordLen")
			for i := 0; i < n; i++ {
				unit = append(unit, rapid.SampledFrom(alphabet).Draw(t, "wordRune"))
			}
		case src < 8:
			unit = append(unit, rapid.SampledFrom(textgen.Snippets).Draw(t, "snippet")...)
		default:
			if len(fe.pool) > 0 {
				c := rapid.IntRange(0, len(fe.pool)-1).Draw(t, "poolCentre")
				lo, hi := c-20, c+20
				if lo < 0 {
					lo = 0
				}
				if hi > len(fe.pool) {
					hi = len(fe.pool)
				}
				n := rapid.IntRange(2, 6).Draw(t, "poolWordLen")
				for i := 0; i < n; i++ {
					unit = append(unit, rapid.SampledFrom(fe.pool[lo:hi]).Draw(t, "poolRune"))
				}
			} else {
				unit = append(unit, rapid.SampledFrom(alphabet).Draw(t, "wordRune1"), rapid.SampledFrom(alphabet).Draw(t, "wordRune2"))
			}
		}
		// insertions at inner positions
		if len(unit) >= 2 {
			nins := rapid.SampledFrom([]int{0, 1, 1, 1, 2, 3}).Draw(t, "ninserts")
			for k := 0; k < nins; k++ {
				pos := rapid.IntRange(1, len(unit)-1).Draw(t, "insertPos")
				var ins rune
				if len(marks) > 0 && rapid.IntRange(0, 3).Draw(t, "insertMark") == 0 {
					ins = rapid.SampledFrom(marks).Draw(t, "mark")
				} else {
					ins = rapid.SampledFrom(joiners).Draw(t, "joiner")
				}
				unit = append(unit[:pos], append([]rune{ins}, unit[pos:]...)...)
			}
		}
		out = append(out, unit...)
		switch rapid.IntRange(0, 9).Draw(t, "separator") {
		case 0, 1, 2, 3:
			out = append(out, ' ')
		case 4, 5:
			out = append(out, rapid.SampledFrom(fallbackSpaces).Draw(t, "fallbackSpace"))
		case 6:
			out = append(out, rapid.SampledFrom([]rune{'1', '2', '.', ',', '-', 0x060C, 0x0964, '/', 0x2044}).Draw(t, "punct"))
		}
	}
	if len(out) > maxLen {
		out = out[:maxLen]
	}
	return out
}

func genCase(t *rapid.T, fonts []*fontEntry, cum []int) (*fontEntry, *Case) {
	// a solid stratum of generated fonts (synth_test.go): 1 case in 6
	if rapid.IntRange(0, 5).Draw(t, "synthStratum") == 0 {
		return genSynthCase(t)
	}
	w := rapid.IntRange(0, cum[len(cum)-1]-1).Draw(t, "font")
	fe := fonts[sort.SearchInts(cum, w+1)]
	c := &Case{Font: fe.rel, Index: fe.index}
	opts := textgen.Opts{MaxLen: ev.Scale(32, 64), FontPool: fe.pool, Hostile: 10, NoInvalid: true}
	// mostly the scripts the font is made for; sometimes any (fallback paths, .notdef)
	if len(fe.scripts) > 0 && rapid.IntRange(0, 9).Draw(t, "ownScripts") < 8 {
		opts.Scripts = fe.scripts
	}
	var text []rune
	joinerShare := 3 // of 10
	if fe.rich.complexScript || fe.rich.rich() || len(fe.upstream) > 0 {
		joinerShare = 5
	}
	// low-frequency stratum: long homogeneous texts of one syllabic script or of pieces of the
	// upstream test texts of the font (syll_test.go): sizes beyond the shapers' internal counters
	long := false
	var syll *syllScript
	if (len(fe.syll) > 0 || len(fe.units) > 0) && rapid.IntRange(0, 19).Draw(t, "syllableText") == 0 {
		long = true
		var units [][]rune
		if len(fe.units) > 0 && (len(fe.syll) == 0 || rapid.Bool().Draw(t, "upstreamUnits")) {
			units = fe.units
		}
		if len(fe.syll) > 0 {
			syll = rapid.SampledFrom(fe.syll).Draw(t, "syllableScript")
		}
		text, _ = genSyllableText(t, syll, units, ev.Scale(1, 2))
		if units != nil {
			syll = nil
		}
	} else if rapid.IntRange(0, 9).Draw(t, "textMode") < joinerShare {
		text = genJoinerText(t, fe, opts.MaxLen)
	} else {
		text = textgen.Text(t, opts)
	}
	c.Text = make([]int, len(text))
	for i, r := range text {
		c.Text[i] = int(r)
	}
	c.Offset, c.Length = 0, len(text)
	if len(text) > 1 && !long && rapid.IntRange(0, 3).Draw(t, "subrun") == 0 {
		c.Offset = rapid.IntRange(0, len(text)-1).Draw(t, "itemOffset")
		c.Length = rapid.IntRange(0, len(text)-c.Offset).Draw(t, "itemLength")
	}
	c.Dir = rapid.SampledFrom([]int{0, 0, 0, 0, 4, 4, 5, 5, 6, 7}).Draw(t, "direction")
	switch sm := rapid.IntRange(0, 9).Draw(t, "scriptMode"); {
	case syll != nil && sm < 8:
		if sm < 4 {
			c.Script = syll.tag
		}
	case sm <= 4:
		// guessed
	case sm >= 5 && sm <= 7:
		if len(fe.scripts) > 0 {
			c.Script = alphabetScript[rapid.SampledFrom(fe.scripts).Draw(t, "ownScript")][0]
		} else {
			c.Script = "Latn"
		}
	default:
		c.Script = rapid.SampledFrom(someScripts).Draw(t, "script")
	}
	switch rapid.IntRange(0, 9).Draw(t, "langMode") {
	case 0, 1, 2, 3:
	case 4, 5:
		if len(fe.scripts) > 0 {
			c.Lang = alphabetScript[rapid.SampledFrom(fe.scripts).Draw(t, "ownLang")][1]
		} else {
			c.Lang = "en"
		}
	default:
		c.Lang = rapid.SampledFrom(someLangs).Draw(t, "lang")
	}
	nf := rapid.SampledFrom([]int{0, 0, 0, 1, 1, 2, 3}).Draw(t, "nfeatures")
	for i := 0; i < nf; i++ {
		c.Features = append(c.Features, genFeature(t, fe, len(text)))
	}
	c.Vars = genVars(t, fe)
	genInstanceExtras(t, fe, c)
	c.Cluster = rapid.SampledFrom([]int{0, 0, 0, 1, 2}).Draw(t, "clusterLevel")
	c.Flags = rapid.SampledFrom([]int{3, 3, 3, 3, 0, 1, 2, 3 | 4, 3 | 8, 3 | 4 | 8, 4, 8, 1 | 8, 2 | 4}).Draw(t, "flags")
	// invisible / not-found glyphs: mostly unset; otherwise a valid glyph id of the font
	if fe.nglyphs > 1 {
		if rapid.IntRange(0, 7).Draw(t, "setInvisible") == 0 {
			c.Invisible = rapid.IntRange(1, minInt(fe.nglyphs-1, 0xFFFF)).Draw(t, "invisible")
		}
		if rapid.IntRange(0, 7).Draw(t, "setNotFound") == 0 {
			c.NotFound = rapid.IntRange(1, minInt(fe.nglyphs-1, 0xFFFF)).Draw(t, "notFound")
		}
	}
	return fe, c
}

func minInt(a, b int) int {
	if a < b {
		return a
	}
	return b
}

// genInstanceExtras: normalized coordinates instead of design-space settings (a fifth of the
// cases on variable fonts), pixels per em (Device tables), point size (trak).
func genInstanceExtras(t *rapid.T, fe *fontEntry, c *Case) {
	if len(fe.axes) > 0 && rapid.IntRange(0, 4).Draw(t, "normalizedCoords") == 0 {
		c.Vars = nil
		for range fe.axes {
			c.Coords = append(c.Coords, rapid.SampledFrom([]int{0, 16384, -16384, 8192, -8192, 1, -1, 4096, 12288, -12288}).Draw(t, "coord"))
		}
		if rapid.IntRange(0, 2).Draw(t, "coordRandom") == 0 {
			for i := range c.Coords {
				c.Coords[i] = rapid.IntRange(-16384, 16384).Draw(t, "coordValue")
			}
		}
	}
	ppemShare := 4 // of 20
	if fe.device {
		ppemShare = 16
	}
	if rapid.IntRange(0, 19).Draw(t, "ppemMode") < ppemShare {
		c.XPpem = rapid.SampledFrom([]int{8, 9, 10, 11, 12, 13, 14, 15, 16, 17, 18, 19, 20, 24, 32, 100}).Draw(t, "xppem")
		c.YPpem = c.XPpem
		if rapid.IntRange(0, 3).Draw(t, "ppemAnisotropic") == 0 {
			c.YPpem = rapid.SampledFrom([]int{0, 9, 12, 16, 20}).Draw(t, "yppem")
		}
	}
	if rapid.IntRange(0, 9).Draw(t, "ptemMode") == 0 {
		c.Ptem = rapid.SampledFrom([]float32{6, 9, 12, 24, 72, 144}).Draw(t, "ptem")
	}
}
