// Package c05 decides property C05: the shaper output of go-text/typesetting/harfbuzz equals the
// output of the reference HarfBuzz implementation (libharfbuzz through internal/hbref), for
// generated (font, text, direction, script, language, features, variations, cluster level, flags,
// sub-run) inputs.
package c05

import (
	"encoding/binary"
	"fmt"
	"os"
	"runtime/debug"
	"sort"
	"strings"
	"sync"

	"github.com/go-text/typesetting/font"
	ot "github.com/go-text/typesetting/font/opentype"
	"github.com/go-text/typesetting/font/opentype/tables"
	"github.com/go-text/typesetting/harfbuzz"
	"github.com/go-text/typesetting/language"

	"verif/internal/corpus"
	"verif/internal/hbref"
	"verif/internal/synthfont"
	"verif/internal/textgen"
)

// ---- the decoded case (what replay files carry) ----

type Feat struct {
	Tag   string `json:"tag"`
	Value uint32 `json:"value"`
	Start int    `json:"start"`
	End   int    `json:"end"` // -1: global end
}

type Var struct {
	Tag   string  `json:"tag"`
	Value float32 `json:"value"`
}

type Case struct {
	Font     string `json:"font"`  // corpus-relative path
	Index    int    `json:"index"` // face index in the file
	Text     []int  `json:"text"`  // scalar values
	Offset   int    `json:"item_offset"`
	Length   int    `json:"item_length"`
	Dir      int    `json:"direction"` // 0 guess, 4 LTR, 5 RTL, 6 TTB, 7 BTT
	Script   string `json:"script"`    // "" guess, else ISO 15924 tag
	Lang     string `json:"language"`  // "" unset
	Features []Feat `json:"features"`
	Vars     []Var  `json:"variations"`
	Cluster  int    `json:"cluster_level"`
	Flags    int    `json:"flags"` // 1 BOT, 2 EOT, 4 PRESERVE_DEFAULT_IGNORABLES, 8 REMOVE_DEFAULT_IGNORABLES
	// Invisible: glyph replacing default ignorables (0: unset, the space glyph is used).
	// NotFound: glyph for unmapped characters (0: default .notdef).
	Invisible int `json:"invisible_glyph,omitempty"`
	NotFound  int `json:"not_found_glyph,omitempty"`
	// Synth: the font is generated from this record (internal/synthfont) instead of read from the
	// corpus; Font is then a readable name only. Flags may carry 0x40 PRODUCE_UNSAFE_TO_CONCAT.
	Synth *synthfont.Spec `json:"synth,omitempty"`
	// further instance settings: normalized coordinates by axis order (instead of Vars), pixels
	// per em (hinting Device tables of GPOS/GDEF apply), point size (trak)
	Coords []int   `json:"normalized_coords,omitempty"`
	XPpem  int     `json:"x_ppem,omitempty"`
	YPpem  int     `json:"y_ppem,omitempty"`
	Ptem   float32 `json:"ptem,omitempty"`
}

// instanceSet: the case shapes with settings that need a Face of its own.
func (c *Case) instanceSet() bool {
	return len(c.Vars) > 0 || len(c.Coords) > 0 || c.XPpem != 0 || c.YPpem != 0 || c.Ptem != 0
}

func (c *Case) runes() []rune {
	out := make([]rune, len(c.Text))
	for i, v := range c.Text {
		out[i] = rune(v)
	}
	return out
}

func (c *Case) item() []rune { return c.runes()[c.Offset : c.Offset+c.Length] }

// wellFormed validates a (replayed) case against the preconditions of Buffer.AddRunes and of the
// generator (valid scalar values only).
func (c *Case) wellFormed() error {
	if c.Offset < 0 || c.Length < 0 || c.Offset+c.Length > len(c.Text) {
		return fmt.Errorf("item bounds out of range")
	}
	for _, r := range c.Text {
		if r < 0 || r > 0x10FFFF || (r >= 0xD800 && r <= 0xDFFF) {
			return fmt.Errorf("invalid scalar value %#x", r)
		}
	}
	if c.Dir != 0 && (c.Dir < 4 || c.Dir > 7) {
		return fmt.Errorf("invalid direction")
	}
	if c.Invisible < 0 || c.Invisible > 0xFFFF || c.NotFound < 0 || c.NotFound > 0xFFFF {
		return fmt.Errorf("invalid invisible / not-found glyph")
	}
	if c.Script != "" && len(c.Script) != 4 {
		return fmt.Errorf("invalid script")
	}
	for _, f := range c.Features {
		if len(f.Tag) != 4 || f.Start < 0 || f.End < -1 {
			return fmt.Errorf("invalid feature")
		}
	}
	for _, v := range c.Vars {
		if len(v.Tag) != 4 || v.Value != v.Value {
			return fmt.Errorf("invalid variation")
		}
	}
	for _, v := range c.Coords {
		if v < -16384 || v > 16384 {
			return fmt.Errorf("invalid normalized coordinate")
		}
	}
	if len(c.Vars) > 0 && len(c.Coords) > 0 || c.XPpem < 0 || c.XPpem > 0xFFFF || c.YPpem < 0 || c.YPpem > 0xFFFF || c.Ptem != c.Ptem || c.Ptem < 0 {
		return fmt.Errorf("invalid instance settings")
	}
	return nil
}

func tag32(s string) uint32 { return binary.BigEndian.Uint32([]byte(s)) }

// ---- fonts ----

type axis struct {
	Tag           string
	Min, Def, Max float32
}

type fontEntry struct {
	rel        string
	index      int
	face       *font.Face // shared, never mutated: cases create their own Face over face.Font
	hb         *hbref.Face
	traits     corpus.Traits
	axes       []axis
	feats      []string // feature tags of GSUB and GPOS (sorted, unique)
	pool       []rune   // runes the port's cmap maps (sorted sample)
	scripts    []string // textgen alphabets the font is made for
	space      bool     // font maps U+0020
	hbOK       bool     // the reference loads the face with the same glyph count
	note       string
	rich       richness      // layout richness (set by pickFonts; zero for replayed fonts)
	upstream   [][]rune      // texts of the upstream expectation files for this font
	units      [][]rune      // short pieces of them (syll_test.go)
	syll       []*syllScript // syllabic scripts the font covers (syll_test.go)
	nglyphs    int
	hbFont     *harfbuzz.Font  // cached Font for cases without variations
	device     bool            // GPOS carries hinting Device tables
	synth      *synthfont.Spec // generated font (synth_test.go)
	synthFacts synthFacts
}

var (
	fontMu    sync.Mutex
	fontCache = map[string]*fontEntry{}
)

var otScriptToAlphabet = map[string]string{
	"arab": "arabic", "syrc": "syriac", "nko ": "nko", "mong": "mongolian", "hebr": "hebrew",
	"deva": "devanagari", "dev2": "devanagari", "beng": "bengali", "bng2": "bengali", "guru": "gurmukhi", "gur2": "gurmukhi",
	"gujr": "gujarati", "gjr2": "gujarati", "orya": "oriya", "ory2": "oriya", "taml": "tamil", "tml2": "tamil",
	"telu": "telugu", "tel2": "telugu", "knda": "kannada", "knd2": "kannada", "mlym": "malayalam", "mlm2": "malayalam",
	"sinh": "sinhala", "khmr": "khmer", "mymr": "myanmar", "mym2": "myanmar", "thai": "thai", "lao ": "lao", "tibt": "tibetan",
	"hang": "hangul", "jamo": "hangul", "hani": "cjk", "kana": "cjk", "bali": "use", "java": "use", "lana": "use", "batk": "use",
	"brah": "use", "kthi": "use", "latn": "latin", "grek": "greek", "cyrl": "cyrillic",
}

// alphabetScript: ISO 15924 script and a typical language of each textgen alphabet.
var alphabetScript = map[string][2]string{
	"latin": {"Latn", "en"}, "greek": {"Grek", "el"}, "cyrillic": {"Cyrl", "sr"}, "arabic": {"Arab", "ar"}, "syriac": {"Syrc", "syr"},
	"nko": {"Nkoo", "nqo"}, "mongolian": {"Mong", "mn"}, "hebrew": {"Hebr", "he"}, "devanagari": {"Deva", "hi"}, "bengali": {"Beng", "bn"},
	"gurmukhi": {"Guru", "pa"}, "gujarati": {"Gujr", "gu"}, "oriya": {"Orya", "or"}, "tamil": {"Taml", "ta"}, "telugu": {"Telu", "te"},
	"kannada": {"Knda", "kn"}, "malayalam": {"Mlym", "ml"}, "sinhala": {"Sinh", "si"}, "khmer": {"Khmr", "km"}, "myanmar": {"Mymr", "my"},
	"thai": {"Thai", "th"}, "lao": {"Laoo", "lo"}, "tibetan": {"Tibt", "bo"}, "hangul": {"Hang", "ko"}, "cjk": {"Hani", "zh-hans"},
	"use": {"Bali", "ban"}, "emoji": {"Zyyy", "en"},
}

func loadFont(rel string, index int) (*fontEntry, error) {
	key := fmt.Sprintf("%s#%d", rel, index)
	fontMu.Lock()
	defer fontMu.Unlock()
	if fe, ok := fontCache[key]; ok {
		return fe, nil
	}
	faces, err := corpus.Faces(rel)
	if err != nil {
		return nil, fmt.Errorf("port cannot load %s: %v", rel, err)
	}
	if index < 0 || index >= len(faces) {
		return nil, fmt.Errorf("face index %d out of range for %s", index, rel)
	}
	data, err := corpus.Bytes(rel)
	if err != nil {
		return nil, err
	}
	fe := &fontEntry{rel: rel, index: index, face: faces[index], traits: corpus.TraitsOf(rel, index)}
	if hbref.FaceCount(data) > index {
		fe.hb = hbref.NewFace(data, index)
		fe.hbOK = fe.hb.GlyphCount() > 0 && fe.hb.Upem == int(fe.face.Upem())
		if !fe.hbOK {
			fe.note = fmt.Sprintf("reference sees %d glyphs / upem %d, port upem %d", fe.hb.GlyphCount(), fe.hb.Upem, fe.face.Upem())
		}
	} else {
		fe.note = "reference does not see this face index"
	}
	// loader precondition: the character map must be one both loaders select the same way. The
	// reference (like upstream) only selects Unicode / Microsoft subtables; the port additionally
	// falls back to "the first subtable, whatever it is" (Macintosh encodings decoded as MacRoman).
	if lds, err := corpus.Loaders(rel); err == nil && index < len(lds) {
		if raw, err := lds[index].RawTable(ot.MustNewTag("cmap")); err == nil {
			if cm, _, err := tables.ParseCmap(raw); err == nil {
				unicode := false
				for _, r := range cm.Records {
					if _, isUVS := r.Subtable.(tables.CmapSubtable14); isUVS {
						continue
					}
					p, e := int(r.PlatformID), int(r.EncodingID)
					if p == 3 && (e == 0 || e == 1 || e == 10) || p == 0 && (e <= 4 || e == 6) {
						unicode = true
					}
				}
				if !unicode && fe.hbOK {
					fe.hbOK = false
					fe.note = "cmap has no Unicode/Microsoft subtable: the port falls back to a Macintosh subtable, the reference maps nothing"
				}
			}
		}
	}
	// axes, through the public table parser
	if lds, err := corpus.Loaders(rel); err == nil && index < len(lds) {
		if raw, err := lds[index].RawTable(ot.MustNewTag("fvar")); err == nil {
			if fv, _, err := tables.ParseFvar(raw); err == nil {
				for _, a := range fv.FvarRecords.Axis {
					fe.axes = append(fe.axes, axis{Tag: a.Tag.String(), Min: a.Minimum, Def: a.Default, Max: a.Maximum})
				}
			}
		}
	}
	seen := map[string]bool{}
	scriptSeen := map[string]bool{}
	for _, l := range []font.Layout{fe.face.GSUB.Layout, fe.face.GPOS.Layout} {
		for _, f := range l.Features {
			if s := f.Tag.String(); !seen[s] && len(s) == 4 {
				seen[s] = true
				fe.feats = append(fe.feats, s)
			}
		}
		for _, s := range l.Scripts {
			if a, ok := otScriptToAlphabet[s.Tag.String()]; ok {
				scriptSeen[a] = true
			}
		}
	}
	sort.Strings(fe.feats)
	fe.pool = textgen.FontRunes(fe.face.Font, 400)
	// alphabets the cmap covers substantially
	for _, name := range textgen.ScriptNames {
		al := textgen.Alphabets[name]
		n := 0
		for _, r := range al {
			if _, ok := fe.face.NominalGlyph(r); ok {
				n++
			}
		}
		if n >= 8 || n*3 >= len(al) {
			scriptSeen[name] = true
		}
	}
	for s := range scriptSeen {
		fe.scripts = append(fe.scripts, s)
	}
	sort.Strings(fe.scripts)
	_, fe.space = fe.face.NominalGlyph(' ')
	if index == 0 {
		fe.upstream = upstreamFor(rel)
		fe.units = upstreamUnits(fe.upstream)
	}
	fe.device = !fe.traits.Fvar && hasHintingDevices(fe.face)
	fe.syll = syllScriptsFor(func(r rune) bool { _, ok := fe.face.NominalGlyph(r); return ok })
	if fe.hb != nil {
		fe.nglyphs = fe.hb.GlyphCount()
	}
	fontCache[key] = fe
	return fe, nil
}

// ---- shaping on both sides ----

// G is one output glyph, the tuple the property statement compares.
type G struct {
	ID      uint32 `json:"g"`
	Cluster int    `json:"cl"`
	XAdv    int32  `json:"ax"`
	YAdv    int32  `json:"ay"`
	XOff    int32  `json:"dx"`
	YOff    int32  `json:"dy"`
	Flags   uint32 `json:"fl"`
}

func (g G) same(o G) bool {
	return g.ID == o.ID && g.Cluster == o.Cluster && g.XAdv == o.XAdv && g.YAdv == o.YAdv && g.XOff == o.XOff && g.YOff == o.YOff
}

func sameGlyphs(a, b []G) bool {
	if len(a) != len(b) {
		return false
	}
	for i := range a {
		if !a[i].same(b[i]) {
			return false
		}
	}
	return true
}

// samePositions ignores clusters (cluster-level identity).
func sameButClusters(a, b []G) bool {
	if len(a) != len(b) {
		return false
	}
	for i := range a {
		x, y := a[i], b[i]
		x.Cluster, y.Cluster = 0, 0
		if !x.same(y) {
			return false
		}
	}
	return true
}

func fmtGlyphs(gs []G) string {
	var sb strings.Builder
	sb.WriteByte('[')
	for i, g := range gs {
		if i > 0 {
			sb.WriteByte('|')
		}
		fmt.Fprintf(&sb, "%d=%d", g.ID, g.Cluster)
		if g.XOff != 0 || g.YOff != 0 {
			fmt.Fprintf(&sb, "@%d,%d", g.XOff, g.YOff)
		}
		fmt.Fprintf(&sb, "+%d", g.XAdv)
		if g.YAdv != 0 {
			fmt.Fprintf(&sb, ",%d", g.YAdv)
		}
		if g.Flags&3 != 0 {
			fmt.Fprintf(&sb, "#%d", g.Flags&3)
		}
	}
	sb.WriteByte(']')
	return sb.String()
}

type portResult struct {
	Glyphs []G
	Script language.Script
	Dir    harfbuzz.Direction
	font   *harfbuzz.Font
}

// langOf: an unset language is what the reference sees in a process that never called
// setlocale: hb_language_get_default() = "c". Both sides get the same tag.
func langOf(c *Case) string {
	if c.Lang == "" {
		return "c"
	}
	return c.Lang
}

func portFeatures(fs []Feat) []harfbuzz.Feature {
	var out []harfbuzz.Feature
	for _, f := range fs {
		end := f.End
		if end < 0 {
			end = harfbuzz.FeatureGlobalEnd
		}
		out = append(out, harfbuzz.Feature{Tag: ot.MustNewTag(f.Tag), Value: f.Value, Start: f.Start, End: end})
	}
	return out
}

// shapePort shapes with the port: a fresh Face (own variation state), a fresh Font at scale = upem,
// a fresh Buffer. A panic is returned as an error.
func shapePort(fe *fontEntry, c *Case) (res portResult, perr error) {
	defer func() {
		if r := recover(); r != nil {
			perr = &panicError{val: fmt.Sprint(r), stack: panicSite(debug.Stack())}
		}
	}()
	// A harfbuzz.Font only depends on the font.Font (documented as suitable for caching): without
	// variations one Font per corpus face is reused (building the lookup accelerators of a rich
	// font for every case dominates the run time otherwise); with variations the case gets its
	// own Face (own coordinates) and Font. The Buffer is always fresh.
	var hf *harfbuzz.Font
	if !c.instanceSet() {
		if fe.hbFont == nil {
			fe.hbFont = harfbuzz.NewFont(font.NewFace(fe.face.Font))
		}
		hf = fe.hbFont
	} else {
		face := font.NewFace(fe.face.Font)
		if len(c.Vars) > 0 {
			vs := make([]font.Variation, len(c.Vars))
			for i, v := range c.Vars {
				vs[i] = font.Variation{Tag: ot.MustNewTag(v.Tag), Value: v.Value}
			}
			face.SetVariations(vs)
		} else if len(c.Coords) > 0 {
			cs := make([]tables.Coord, len(c.Coords))
			for i, v := range c.Coords {
				cs[i] = tables.Coord(v)
			}
			face.SetCoords(cs)
		}
		if c.XPpem != 0 || c.YPpem != 0 {
			face.SetPpem(uint16(c.XPpem), uint16(c.YPpem))
		}
		hf = harfbuzz.NewFont(face)
		hf.Ptem = c.Ptem
	}
	buf := harfbuzz.NewBuffer()
	buf.AddRunes(c.runes(), c.Offset, c.Length)
	buf.Props.Direction = harfbuzz.Direction(c.Dir)
	if c.Script != "" {
		s, err := language.ParseScript(c.Script)
		if err != nil {
			return res, err
		}
		buf.Props.Script = s
	}
	buf.Props.Language = language.NewLanguage(langOf(c))
	buf.Flags = harfbuzz.ShappingOptions(c.Flags & 0xF)
	if c.Flags&0x40 != 0 { // (the port numbers its options without upstream's VERIFY bit)
		buf.Flags |= harfbuzz.ProduceUnsafeToConcat
	}
	buf.ClusterLevel = harfbuzz.ClusterLevel(c.Cluster)
	buf.Invisible = harfbuzz.GID(c.Invisible)
	buf.NotFound = harfbuzz.GID(c.NotFound)
	buf.GuessSegmentProperties()
	res.Script, res.Dir = buf.Props.Script, buf.Props.Direction
	buf.Shape(hf, portFeatures(c.Features))
	res.font = hf
	res.Glyphs = make([]G, len(buf.Info))
	for i, inf := range buf.Info {
		p := buf.Pos[i]
		res.Glyphs[i] = G{ID: uint32(inf.Glyph), Cluster: inf.Cluster, XAdv: p.XAdvance, YAdv: p.YAdvance, XOff: p.XOffset, YOff: p.YOffset,
			Flags: inf.Mask & 0x7}
	}
	return res, nil
}

type refResult struct {
	Glyphs []G
	Script uint32
	Dir    int
	OK     bool
}

func refInput(c *Case, extraFlags int) hbref.Input {
	in := hbref.Input{Text: c.runes(), ItemOffset: c.Offset, ItemLength: c.Length, Direction: c.Dir, Language: langOf(c),
		Flags: c.Flags&0x4F | extraFlags, ClusterLevel: c.Cluster}
	if c.Script != "" {
		in.Script = tag32(c.Script)
	}
	in.Invisible = uint32(c.Invisible)
	if c.NotFound != 0 {
		in.NotFound, in.SetNotFound = uint32(c.NotFound), true
	}
	for _, f := range c.Features {
		end := uint32(0xFFFFFFFF)
		if f.End >= 0 {
			end = uint32(f.End)
		}
		in.Features = append(in.Features, hbref.Feature{Tag: tag32(f.Tag), Value: f.Value, Start: uint32(f.Start), End: end})
	}
	return in
}

func setRefVars(fe *fontEntry, c *Case) {
	vs := make([]hbref.Variation, len(c.Vars))
	for i, v := range c.Vars {
		vs[i] = hbref.Variation{Tag: tag32(v.Tag), Value: v.Value}
	}
	fe.hb.SetVariations(vs)
	if len(c.Vars) == 0 && len(c.Coords) > 0 {
		cs := make([]int32, len(c.Coords))
		for i, v := range c.Coords {
			cs[i] = int32(v)
		}
		fe.hb.SetNormalizedCoords(cs)
	}
	fe.hb.SetPpem(c.XPpem, c.YPpem)
	fe.hb.SetPtem(c.Ptem)
}

// shapeRef shapes with libharfbuzz ("ot" shaper, scale = upem). The reference font keeps the
// variations of the case until resetRef.
func shapeRef(fe *fontEntry, c *Case) refResult {
	setRefVars(fe, c)
	out := fe.hb.Shape(refInput(c, 0))
	r := refResult{Script: out.Script, Dir: out.Direction, OK: out.OK, Glyphs: make([]G, len(out.Glyphs))}
	for i, g := range out.Glyphs {
		r.Glyphs[i] = G{ID: g.ID, Cluster: int(g.Cluster), XAdv: g.XAdvance, YAdv: g.YAdvance, XOff: g.XOffset, YOff: g.YOffset, Flags: g.Mask}
	}
	return r
}

func resetRef(fe *fontEntry) {
	fe.hb.SetVariations(nil)
	fe.hb.SetPpem(0, 0)
	fe.hb.SetPtem(0)
}

// requireReference exits the process as an infrastructure failure (never a pass, never a
// violation) when the reference library is not usable.
func requireReference() {
	v := hbref.Version()
	if v == "" || v[0] < '0' || v[0] > '9' {
		fmt.Println("INFRASTRUCTURE: libharfbuzz reference not available")
		os.Exit(2)
	}
}

// panicError carries the panic value and the innermost frames of the library at the panic site
// (the identity of a totality finding).
type panicError struct {
	val   string
	stack []string
}

func (p *panicError) Error() string { return "panic: " + p.val + " at " + strings.Join(p.stack, " < ") }

// panicSite extracts the function names of the go-text frames below the panic, innermost first.
func panicSite(stack []byte) []string {
	var out []string
	lines := strings.Split(string(stack), "\n")
	seenPanic := false
	for _, l := range lines {
		if strings.HasPrefix(l, "panic(") {
			seenPanic = true
			continue
		}
		if !seenPanic || strings.HasPrefix(l, "\t") {
			continue
		}
		if i := strings.Index(l, "github.com/go-text/typesetting/"); i >= 0 {
			fn := l[i+len("github.com/go-text/typesetting/"):]
			if j := strings.LastIndex(fn, "("); j > 0 {
				fn = fn[:j]
			}
			out = append(out, fn)
			if len(out) == 4 {
				break
			}
		}
	}
	return out
}
