package c05

// Generated fonts (internal/synthfont, generated-rules kinds): lookup structures the corpus lacks
// (contextual rules of all formats nested up to ten levels, rules without action, deletions, 1 -> k,
// lookup flags with mark filtering sets, every attachment type with drawn anchors). The SAME bytes
// are given to the port's loader and to libharfbuzz.

import (
	"bytes"
	"fmt"
	"reflect"
	"sort"
	"sync"

	"github.com/go-text/typesetting/font"
	"github.com/go-text/typesetting/font/opentype/tables"
	"pgregory.net/rapid"

	"verif/internal/corpus"
	"verif/internal/ev"
	"verif/internal/hbref"
	"verif/internal/synthfont"
)

var (
	synthMu    sync.Mutex
	synthCache = map[synthfont.Spec]*fontEntry{}
)

// synthFacts: what the generated tables contain (labels).
type synthFacts struct {
	deletion, oneToMany, ignoreRule, markFilter, ignoreFlags bool
	formats                                                  [4]bool // context formats 1-3 seen
}

func synthName(sp synthfont.Spec) string {
	return fmt.Sprintf("synth:%s/%s/n%d/d%d/s%d/m%d/%d", sp.Kind, sp.Feature, sp.N, sp.Depth, sp.Scripts, sp.Mix, sp.Seed)
}

// loadSynth builds the font of the Spec and loads it on both sides.
func loadSynth(sp synthfont.Spec) (*fontEntry, error) {
	synthMu.Lock()
	defer synthMu.Unlock()
	if fe, ok := synthCache[sp]; ok {
		return fe, nil
	}
	data, err := synthfont.Build(sp)
	if err != nil {
		return nil, err
	}
	face, err := font.ParseTTF(bytes.NewReader(data))
	if err != nil {
		return nil, fmt.Errorf("generated font rejected by the port's loader: %v", err)
	}
	fe := &fontEntry{rel: synthName(sp), face: face, synth: &sp}
	fe.traits = corpus.Traits{GSUB: len(face.GSUB.Lookups) > 0, GPOS: len(face.GPOS.Lookups) > 0, Glyf: true}
	fe.hb = hbref.NewFace(data, 0)
	fe.hbOK = fe.hb.GlyphCount() > 0 && fe.hb.Upem == int(face.Upem())
	if !fe.hbOK {
		return nil, fmt.Errorf("reference rejects the generated font")
	}
	// both loaders must have kept every lookup (a table one of them drops would make the
	// comparison one between different fonts: a generator error, not a finding)
	if g, p := fe.hb.LookupCount(tag32("GSUB")), fe.hb.LookupCount(tag32("GPOS")); g != len(face.GSUB.Lookups) || p != len(face.GPOS.Lookups) {
		return nil, fmt.Errorf("lookup counts differ: port GSUB %d GPOS %d, reference %d %d", len(face.GSUB.Lookups), len(face.GPOS.Lookups), g, p)
	}
	seen := map[string]bool{}
	for _, l := range []font.Layout{face.GSUB.Layout, face.GPOS.Layout} {
		for _, f := range l.Features {
			if s := f.Tag.String(); !seen[s] {
				seen[s] = true
				fe.feats = append(fe.feats, s)
			}
		}
	}
	sort.Strings(fe.feats)
	covered, _ := sp.Letters()
	fe.pool = covered
	fe.scripts = []string{"latin"}
	fe.space = true
	fe.nglyphs = fe.hb.GlyphCount()
	for _, l := range face.GSUB.Lookups {
		if l.LookupOptions.Flag&0x10 != 0 {
			fe.synthFacts.markFilter = true
		}
		if l.LookupOptions.Flag&0x0E != 0 {
			fe.synthFacts.ignoreFlags = true
		}
		for _, st := range l.Subtables {
			switch s := st.(type) {
			case tables.MultipleSubs:
				for _, seq := range s.Sequences {
					if len(seq.SubstituteGlyphIDs) == 0 {
						fe.synthFacts.deletion = true
					}
					if len(seq.SubstituteGlyphIDs) > 1 {
						fe.synthFacts.oneToMany = true
					}
				}
			}
		}
	}
	fe.device = hasHintingDevices(face)
	if len(synthCache) >= 512 {
		synthCache = map[synthfont.Spec]*fontEntry{}
	}
	synthCache[sp] = fe
	return fe, nil
}

// caseFont loads the font a decoded case names.
func caseFont(c *Case) (*fontEntry, error) {
	if c.Synth != nil {
		return loadSynth(*c.Synth)
	}
	return loadFont(c.Font, c.Index)
}

type randChooser struct{ r *ev.Rand }

func (c randChooser) Intn(_ string, n int) int { return c.r.Intn(n) }

type rapidChooser struct{ t *rapid.T }

func (c rapidChooser) Intn(label string, n int) int { return rapid.IntRange(0, n-1).Draw(c.t, label) }

// synthPool: the generated fonts of this shard (seeded; a pool rather than one font per case keeps
// the cost of building and loading fonts small against the shaping itself).
var (
	synthPoolOnce sync.Once
	synthPool     []synthfont.Spec
)

func synthSpecs() []synthfont.Spec {
	synthPoolOnce.Do(func() {
		shard, _ := ev.Shard()
		r := ev.NewRand(uint64(ev.Seed())*0x51ED27 + uint64(shard)*7919 + 505)
		for len(synthPool) < ev.Scale(96, 320) {
			sp := synthfont.DrawRuleSpec(randChooser{r})
			if _, err := loadSynth(sp); err != nil {
				// a generator error must not hide: infrastructure failure
				fmt.Printf("INFRASTRUCTURE: generated font %+v: %v\n", sp, err)
				panic("synthfont")
			}
			synthPool = append(synthPool, sp)
		}
	})
	return synthPool
}

// genSynthCase draws a case on a generated font.
func genSynthCase(t *rapid.T) (*fontEntry, *Case) {
	specs := synthSpecs()
	sp := specs[rapid.IntRange(0, len(specs)-1).Draw(t, "synthFont")]
	fe, err := loadSynth(sp)
	if err != nil {
		t.Fatalf("generated font: %v", err)
	}
	c := &Case{Font: fe.rel, Synth: &sp}
	text := sp.DrawText(rapidChooser{t}, ev.Scale(24, 48))
	c.Text = make([]int, len(text))
	for i, r := range text {
		c.Text[i] = int(r)
	}
	c.Offset, c.Length = 0, len(text)
	if len(text) > 2 && rapid.IntRange(0, 5).Draw(t, "subrun") == 0 {
		c.Offset = rapid.IntRange(0, len(text)-1).Draw(t, "itemOffset")
		c.Length = rapid.IntRange(1, len(text)-c.Offset).Draw(t, "itemLength")
	}
	// native and reversed directions alike
	c.Dir = rapid.SampledFrom([]int{0, 4, 4, 5, 5, 5, 6, 7}).Draw(t, "direction")
	c.Script = rapid.SampledFrom([]string{"", "", "Latn", "Latn", "Zyyy", "Grek"}).Draw(t, "script")
	if rapid.IntRange(0, 4).Draw(t, "langMode") == 0 {
		c.Lang = rapid.SampledFrom([]string{"en", "tr", "sr"}).Draw(t, "lang")
	}
	nf := rapid.SampledFrom([]int{0, 0, 0, 1, 1, 2}).Draw(t, "nfeatures")
	for i := 0; i < nf; i++ {
		c.Features = append(c.Features, genFeature(t, fe, len(text)))
	}
	c.Cluster = rapid.SampledFrom([]int{0, 0, 1, 1, 2}).Draw(t, "clusterLevel")
	c.Flags = rapid.SampledFrom([]int{3, 3, 3, 3, 0, 1, 2, 3 | 4, 3 | 8}).Draw(t, "flags")
	if rapid.IntRange(0, 3).Draw(t, "produceUnsafeToConcat") == 0 {
		c.Flags |= 0x40
	}
	genInstanceExtras(t, fe, c)
	return fe, c
}

// synthLabels: per kind / nesting depth / deletion / reversed direction.
func synthLabels(fe *fontEntry, c *Case, dir int) []string {
	sp := fe.synth
	out := []string{"synth_font", "synth_kind_" + sp.Kind}
	if sp.Mix == 1 {
		out = append(out, "synth_cursive_mix")
	}
	if d := sp.Nesting(); d > 0 {
		out = append(out, fmt.Sprintf("synth_nesting_depth_%02d", d))
		if d > 6 {
			out = append(out, "synth_nesting_deeper_than_6")
		}
	}
	if fe.synthFacts.deletion {
		out = append(out, "synth_font_has_deletion")
	}
	if fe.synthFacts.oneToMany {
		out = append(out, "synth_font_has_one_to_many")
	}
	if fe.synthFacts.markFilter {
		out = append(out, "synth_font_has_mark_filtering_set")
	}
	if fe.synthFacts.ignoreFlags {
		out = append(out, "synth_font_has_ignore_flags")
	}
	switch dir {
	case 5, 7:
		out = append(out, "synth_reversed_direction")
	case 6:
		out = append(out, "synth_vertical_direction")
	}
	return out
}

// hintingDevices counts the hinting Device tables (ppem-indexed deltas) reachable from v: value
// records and anchors of GPOS, caret values of GDEF; class-based pair records are kept as raw
// bytes by the loader, there the value format tells.
func hintingDevices(v reflect.Value, depth int, n *int) {
	if depth > 30 || *n > 0 {
		return
	}
	if v.Type() == reflect.TypeOf(tables.ValueFormat(0)) && v.Uint()&0x00F0 != 0 {
		*n++
		return
	}
	switch v.Kind() {
	case reflect.Interface, reflect.Ptr:
		if !v.IsNil() {
			hintingDevices(v.Elem(), depth+1, n)
		}
	case reflect.Struct:
		if v.Type() == reflect.TypeOf(tables.DeviceHinting{}) {
			*n++
			return
		}
		for i := 0; i < v.NumField(); i++ {
			hintingDevices(v.Field(i), depth+1, n)
		}
	case reflect.Slice, reflect.Array:
		if k := v.Type().Elem().Kind(); k == reflect.Uint8 || k == reflect.Uint16 || k == reflect.Int8 || k == reflect.Int16 || k == reflect.Uint32 {
			return
		}
		for i := 0; i < v.Len(); i++ {
			hintingDevices(v.Index(i), depth+1, n)
		}
	}
}

// hasHintingDevices: GPOS or GDEF of a non-variable face carry hinting Device tables (in a
// variable font the same offsets are variation indexes).
func hasHintingDevices(face *font.Face) bool {
	n := 0
	hintingDevices(reflect.ValueOf(face.GPOS.Lookups), 0, &n)
	if n == 0 {
		hintingDevices(reflect.ValueOf(face.GDEF), 0, &n)
	}
	return n > 0
}
