package c05

// Triage of disagreements with the reference (DESIGN §1.7). Every class here was re-found by this
// check on the pinned tree, minimised, and decided by reading the port, the behaviour of the live
// reference, and the upstream material shipped in the corpus module. Three kinds:
//
//   finding   genuine port defect, listed in known_findings.json under the id; the exclusion is
//             active only while ev.Known(id) (status "open") — once the fix is applied and the entry
//             is "fixed" the cases are checked strictly again.
//   skew      libharfbuzz 6.0.0 differs from the upstream version the port tracks (evidence in the
//             comment); excluded by the stated structural precondition, counted.
//   loader    the two font loaders accept different things; excluded by precondition, counted.
//
// A matcher always has two parts: a structural precondition on the *input* (font, text, options)
// and the weakest comparison that still has to hold (e.g. "equal except offsets"), so that any
// other difference on the same input is still reported.

import (
	"strings"
	"unicode"

	"github.com/go-text/typesetting/font"
	ot "github.com/go-text/typesetting/font/opentype"
	"github.com/go-text/typesetting/font/opentype/tables"
	"github.com/go-text/typesetting/harfbuzz"
	"github.com/go-text/typesetting/language"
	ucd "github.com/go-text/typesetting/unicodedata"

	"verif/internal/corpus"
	"verif/internal/ev"
	"verif/internal/hbref"
	"verif/internal/synthfont"
)

func harfbuzzGID(g uint32) harfbuzz.GID { return harfbuzz.GID(g) }

type class struct {
	id       string
	excluded bool
}

// finding ids (proposed entries of known_findings.json)
const (
	fPanicPositions   = "C05-panic-positions-out-of-step"
	fPanicIndic       = "C05-panic-indic-final-reordering"
	fReverseGraphemes = "C05-reverse-graphemes-cluster-level"
	fVOrigin          = "C05-vorigin-variable-no-vmtx"
	fCmapZero         = "C05-cmap-glyph-zero-found"
	fEmptyExtents     = "C05-empty-glyph-extents"
	fPairPos2         = "C05-pairpos2-class-count"
	fFeatureVars      = "C05-feature-variations-drop-features"
	fArabicMCM        = "C05-arabic-mcm-below-class"
	fExtentsOther     = "C05-glyph-extents-other"
	fVarRounding      = "C05-variable-metrics-rounding"
	fVOriginFloor     = "C05-vorigin-half-diff-truncation"
	fVorgVar          = "C05-vorg-variation-delta-missing"
	fPanicReverseIdx  = "C05-panic-cursor-after-reverse-lookup"
	fGenCatRanges     = "C05-general-category-first-last-ranges"
	fMarkBaseCache    = "C05-mark-base-cache-not-reset"
	fOldUyghur        = "C05-old-uyghur-direction"
	fInvisible        = "C05-invisible-glyph-ignored"
	fFigureSpace      = "C05-figure-space-last-digit"
	fMyanmarFlags     = "C05-myanmar-consonant-flags"
	fMyanmarLocl      = "C05-myanmar-locl-ccmp-per-syllable"
	fZawgyiMorx       = "C05-zawgyi-morx-dumber-shaper"
	fAttachDepth      = "C05-attachment-chain-depth-limit"
	fNesting          = "C05-lookup-nesting-level"
	fDeviceDelta      = "C05-device-delta-scale-truncation"
	fTrakRounding     = "C05-trak-tracking-rounding"
)

// unconditional (skew / loader / unspecified) classes
const (
	sArabicFallback = "skew:arabic-fallback-synthesis"
	sUseUnassigned  = "skew:use-unassigned-is-word-joiner"
	sOpBudget       = "unspecified:operation-budget-exhausted"
	sAATRanges      = "skew:aat-feature-ranges"
	sPairClass0     = "skew:pairpos2-second-class-zero"
	sMarkBaseMask   = "skew:markbase-search-past-masked-glyph"
	sMarkBaseMulti  = "skew:markbase-after-multiple-subst"
	sTifinaghRTL    = "skew:tifinagh-direction-neutral"
	sIndicPrefOOB   = "unspecified:indic-user-pref-base-past-syllable"
	lBitmapOnly     = "loader:bitmap-only-extents"
)

// ---- font-level facts used by the matchers (computed once per font) ----

type fontFacts struct {
	done            bool
	layoutDropped   bool // the port's GSUB/GPOS lookup count differs from the reference's
	cmapZeroFound   bool // the port's cmap reports glyph 0 as a found mapping for some probed rune
	noArabicGSUB    bool // GSUB has none of the Arabic positional features
	arabicMarkLig   bool // the fallback mark-ligature lookup of the port would be non-empty
	mapsNUL         bool // U+0000 is mapped to a glyph
	monoBitmaps     bool // EBLC/EBDT or bloc/bdat strikes (not read by the reference's font functions)
	hasVORG         bool
	featureVarTable bool
	markAttach      bool // GPOS has a MarkBasePos or MarkLigPos lookup
	multipleSubst   bool // GSUB has a MultipleSubst lookup
}

var factsCache = map[*fontEntry]*fontFacts{}

var cmapProbe = []rune{0x20, 0xA0, 0x25CC, 0x2010, 0x2011, 0x2D, 0x41, 0x61, 0x30, 0x0, 0x9, 0xA, 0xD, 0x200B, 0x200C, 0x200D, 0x2028, 0x2029, 0xFFFD}

func facts(fe *fontEntry) *fontFacts {
	if f, ok := factsCache[fe]; ok {
		return f
	}
	f := &fontFacts{done: true}
	factsCache[fe] = f
	f.layoutDropped = len(fe.face.GSUB.Lookups) != fe.hb.LookupCount(tag32("GSUB")) || len(fe.face.GPOS.Lookups) != fe.hb.LookupCount(tag32("GPOS"))
	for _, r := range append(append([]rune(nil), cmapProbe...), fe.pool...) {
		if g, ok := fe.face.NominalGlyph(r); ok && g == 0 {
			f.cmapZeroFound = true
			break
		}
	}
	f.noArabicGSUB = true
	for _, t := range fe.feats {
		switch t {
		case "init", "medi", "fina", "isol", "med2", "fin2", "fin3":
			f.noArabicGSUB = false
		}
	}
	has := func(r rune) bool { _, ok := fe.face.NominalGlyph(r); return ok }
	// the port's arabicLigatureMarkTable: SHADDA + {FATHATAN, DAMMATAN, FATHA, DAMMA, KASRA}
	for _, e := range [][2]rune{{0x064B, 0xF2EE}, {0x064C, 0xFC5E}, {0x064E, 0xFC60}, {0x064F, 0xFC61}, {0x0650, 0xFC62}} {
		if has(0x0651) && has(e[0]) && has(e[1]) {
			f.arabicMarkLig = true
		}
	}
	f.mapsNUL = has(0)
	if lds, err := corpus.Loaders(fe.rel); err == nil && fe.index < len(lds) {
		f.hasVORG = lds[fe.index].HasTable(ot.MustNewTag("VORG"))
		f.monoBitmaps = lds[fe.index].HasTable(ot.MustNewTag("EBLC")) || lds[fe.index].HasTable(ot.MustNewTag("bloc"))
	}
	f.featureVarTable = len(fe.face.GSUB.FeatureVariations) > 0 || len(fe.face.GPOS.FeatureVariations) > 0
	for _, l := range fe.face.GPOS.Lookups {
		for _, st := range l.Subtables {
			switch st.(type) {
			case tables.MarkBasePos, tables.MarkLigPos:
				f.markAttach = true
			}
		}
	}
	for _, l := range fe.face.GSUB.Lookups {
		for _, st := range l.Subtables {
			if _, ok := st.(tables.MultipleSubs); ok {
				f.multipleSubst = true
			}
		}
	}
	return f
}

// ---- small comparison helpers ----

type fieldMask int

const (
	fID fieldMask = 1 << iota
	fCluster
	fAdvance
	fOffset
)

// sameOn compares the listed fields only.
func sameOn(a, b []G, m fieldMask) bool {
	if len(a) != len(b) {
		return false
	}
	for i := range a {
		x, y := a[i], b[i]
		if m&fID != 0 && x.ID != y.ID || m&fCluster != 0 && x.Cluster != y.Cluster ||
			m&fAdvance != 0 && (x.XAdv != y.XAdv || x.YAdv != y.YAdv) || m&fOffset != 0 && (x.XOff != y.XOff || x.YOff != y.YOff) {
			return false
		}
	}
	return true
}

func abs32(v int32) int32 {
	if v < 0 {
		return -v
	}
	return v
}

// offsetsWithin: equal ids, clusters and advances; offsets differ by at most tol units.
func offsetsWithin(a, b []G, tol int32) bool {
	if !sameOn(a, b, fID|fCluster|fAdvance) {
		return false
	}
	for i := range a {
		if abs32(a[i].XOff-b[i].XOff) > tol || abs32(a[i].YOff-b[i].YOff) > tol {
			return false
		}
	}
	return true
}

func isAssigned(r rune) bool {
	for _, t := range unicode.Categories {
		if unicode.Is(t, r) {
			return true
		}
	}
	return false
}

// rtlScripts: the scripts whose horizontal direction is right-to-left (harfbuzz.go
// getHorizontalDirection / hb_script_get_horizontal_direction).
var rtlScripts = map[language.Script]bool{
	language.Arabic: true, language.Hebrew: true, language.Syriac: true, language.Thaana: true, language.Cypriot: true, language.Kharoshthi: true,
	language.Phoenician: true, language.Nko: true, language.Lydian: true, language.Avestan: true, language.Imperial_Aramaic: true,
	language.Inscriptional_Pahlavi: true, language.Inscriptional_Parthian: true, language.Old_South_Arabian: true, language.Old_Turkic: true,
	language.Samaritan: true, language.Mandaic: true, language.Meroitic_Cursive: true, language.Meroitic_Hieroglyphs: true, language.Manichaean: true,
	language.Mende_Kikakui: true, language.Nabataean: true, language.Old_North_Arabian: true, language.Palmyrene: true, language.Psalter_Pahlavi: true,
	language.Hatran: true, language.Adlam: true, language.Hanifi_Rohingya: true, language.Old_Sogdian: true, language.Sogdian: true,
	language.Elymaic: true, language.Chorasmian: true, language.Yezidi: true,
}

var bidiNeutralHorizontal = map[language.Script]bool{language.Old_Hungarian: true, language.Old_Italic: true, language.Runic: true, language.Tifinagh: true}

// graphemesReversed: ensureNativeDirection reverses the buffer by grapheme for this
// (script, direction).
func graphemesReversed(script language.Script, dir harfbuzz.Direction) bool {
	switch dir {
	case harfbuzz.LeftToRight:
		return rtlScripts[script]
	case harfbuzz.RightToLeft:
		return !rtlScripts[script] && !bidiNeutralHorizontal[script]
	case harfbuzz.BottomToTop:
		return true
	}
	return false
}

// useScripts: the scripts the Universal Shaping Engine may handle (ot_shape_complex.go).
var useScripts = map[language.Script]bool{
	language.Bengali: true, language.Devanagari: true, language.Gujarati: true, language.Gurmukhi: true, language.Kannada: true,
	language.Malayalam: true, language.Oriya: true, language.Tamil: true, language.Telugu: true,
	language.Tibetan: true, language.Mongolian: true, language.Sinhala: true, language.Buhid: true, language.Hanunoo: true, language.Tagalog: true,
	language.Tagbanwa: true, language.Limbu: true, language.Tai_Le: true, language.Buginese: true, language.Kharoshthi: true, language.Syloti_Nagri: true,
	language.Tifinagh: true, language.Balinese: true, language.Nko: true, language.Phags_Pa: true, language.Cham: true, language.Kayah_Li: true,
	language.Lepcha: true, language.Rejang: true, language.Saurashtra: true, language.Sundanese: true, language.Egyptian_Hieroglyphs: true,
	language.Javanese: true, language.Kaithi: true, language.Meetei_Mayek: true, language.Tai_Tham: true, language.Tai_Viet: true, language.Batak: true,
	language.Brahmi: true, language.Mandaic: true, language.Chakma: true, language.Miao: true, language.Sharada: true, language.Takri: true,
	language.Duployan: true, language.Grantha: true, language.Khojki: true, language.Khudawadi: true, language.Mahajani: true, language.Manichaean: true,
	language.Modi: true, language.Pahawh_Hmong: true, language.Psalter_Pahlavi: true, language.Siddham: true, language.Tirhuta: true, language.Ahom: true,
	language.Multani: true, language.Adlam: true, language.Bhaiksuki: true, language.Marchen: true, language.Newa: true, language.Masaram_Gondi: true,
	language.Soyombo: true, language.Zanabazar_Square: true, language.Dogra: true, language.Gunjala_Gondi: true, language.Hanifi_Rohingya: true,
	language.Makasar: true, language.Medefaidrin: true, language.Old_Sogdian: true, language.Sogdian: true, language.Elymaic: true,
	language.Nandinagari: true, language.Nyiakeng_Puachue_Hmong: true, language.Wancho: true, language.Chorasmian: true, language.Dives_Akuru: true,
	language.Khitan_Small_Script: true, language.Yezidi: true,
}

// firstLastRange: letters whose general category UnicodeData.txt gives by a <First>/<Last> pair.
func firstLastRange(r rune) bool {
	for _, p := range [][2]rune{{0x3400, 0x4DBF}, {0x4E00, 0x9FFF}, {0xAC00, 0xD7A3}, {0x17000, 0x187F7}, {0x18D00, 0x18D08}, {0x20000, 0x2A6DF},
		{0x2A700, 0x2B739}, {0x2B740, 0x2B81D}, {0x2B820, 0x2CEA1}, {0x2CEB0, 0x2EBE0}, {0x30000, 0x3134A}, {0x31350, 0x323AF}} {
		if r >= p[0] && r <= p[1] {
			return true
		}
	}
	return false
}

// pairClass0Fallthrough: some GPOS lookup has a PairPos format 2 subtable that covers g1 and gives
// g2 class 0, followed by another subtable of the same lookup.
func pairClass0Fallthrough(fe *fontEntry, g1, g2 uint32) bool {
	for _, l := range fe.face.GPOS.Lookups {
		for k, st := range l.Subtables {
			if k == len(l.Subtables)-1 {
				break
			}
			pp, ok := st.(tables.PairPos)
			if !ok {
				continue
			}
			d, ok := pp.Data.(tables.PairPosData2)
			if !ok || d.Cov() == nil || d.ClassDef2 == nil {
				continue
			}
			if _, cov := d.Cov().Index(tables.GlyphID(g1)); !cov {
				continue
			}
			if cl, _ := d.ClassDef2.Class(tables.GlyphID(g2)); cl == 0 {
				return true
			}
		}
	}
	return false
}

// pairClass0Consumed: some PairPos format 2 subtable covers g1 and gives g2 class 0.
func pairClass0Consumed(fe *fontEntry, g1, g2 uint32) bool {
	for _, l := range fe.face.GPOS.Lookups {
		for _, st := range l.Subtables {
			pp, ok := st.(tables.PairPos)
			if !ok {
				continue
			}
			d, ok := pp.Data.(tables.PairPosData2)
			if !ok || d.Cov() == nil || d.ClassDef2 == nil {
				continue
			}
			if _, cov := d.Cov().Index(tables.GlyphID(g1)); !cov {
				continue
			}
			if cl, _ := d.ClassDef2.Class(tables.GlyphID(g2)); cl == 0 {
				return true
			}
		}
	}
	return false
}

// defaultIgnorable: Default_Ignorable_Code_Point as the shapers use it.
func defaultIgnorable(r rune) bool {
	switch {
	case r == 0x00AD, r == 0x034F, r == 0x061C, r >= 0x115F && r <= 0x1160, r >= 0x17B4 && r <= 0x17B5, r >= 0x180B && r <= 0x180F,
		r >= 0x200B && r <= 0x200F, r >= 0x202A && r <= 0x202E, r >= 0x2060 && r <= 0x206F, r == 0x3164, r >= 0xFE00 && r <= 0xFE0F,
		r == 0xFEFF, r == 0xFFA0, r >= 0xFFF0 && r <= 0xFFF8, r >= 0x1BCA0 && r <= 0x1BCA3, r >= 0x1D173 && r <= 0x1D17A,
		r >= 0xE0000 && r <= 0xE0FFF:
		return true
	}
	return false
}

var indicScripts = map[language.Script]bool{language.Bengali: true, language.Devanagari: true, language.Gujarati: true, language.Gurmukhi: true,
	language.Kannada: true, language.Malayalam: true, language.Oriya: true, language.Tamil: true, language.Telugu: true}

var mcmBelow = map[rune]bool{0x0655: true, 0x06E3: true, 0x08CF: true, 0x08D3: true}

func coordsSet(got portResult) bool { return got.font != nil && len(got.font.Face().Coords()) != 0 }

// extentsDiffer reports the glyphs of the two outputs for which GlyphExtents differs between the
// port (at the case's coordinates) and the reference (whose font currently carries the same
// variations), classified.
type extentsDiff struct {
	any, emptyGlyph, refNone, portNone, within1 bool
}

func extentsDiffer(fe *fontEntry, c *Case, got portResult, gs ...[]G) extentsDiff {
	var d extentsDiff
	d.within1 = true
	setRefVars(fe, c)
	seen := map[uint32]bool{}
	for _, l := range gs {
		for _, g := range l {
			if seen[g.ID] {
				continue
			}
			seen[g.ID] = true
			pe, pok := got.font.GlyphExtents(harfbuzzGID(g.ID))
			re, rok := fe.hb.GlyphExtents(g.ID)
			if pok == rok && pe.XBearing == re.XBearing && pe.YBearing == re.YBearing && pe.Width == re.Width && pe.Height == re.Height {
				continue
			}
			d.any = true
			switch {
			case pok && !rok:
				d.refNone = true
				d.within1 = false
			case !pok && rok:
				d.portNone = true
				d.within1 = false
			case pok && rok && re == (hbref.Extents{}) && pe.Width == 0 && pe.Height == 0 && pe.YBearing == 0:
				d.emptyGlyph = true
				d.within1 = false
			default:
				if abs32(pe.XBearing-re.XBearing) > 1 || abs32(pe.YBearing-re.YBearing) > 1 || abs32(pe.Width-re.Width) > 1 || abs32(pe.Height-re.Height) > 1 {
					d.within1 = false
				}
			}
		}
	}
	return d
}

// ---- the matchers ----

func knownPanic(fe *fontEntry, c *Case, err error) string {
	pe, ok := err.(*panicError)
	if !ok {
		return ""
	}
	// finding: Buffer.Pos is not kept in step with Buffer.Info before positioning (upstream's
	// have_positions is not ported); reverseRange / deleteGlyphsInplace index Pos with Info's
	// length after glyphs were inserted (dotted circle + non-native direction, morx insertions).
	// Identity of the finding: the panic site.
	if strings.Contains(pe.val, "slice bounds out of range") && len(pe.stack) > 0 &&
		(strings.HasSuffix(pe.stack[0], "reverseRange") || strings.HasSuffix(pe.stack[0], "deleteGlyphsInplace")) && ev.Known(fPanicPositions) {
		return fPanicPositions
	}
	// finding: after a reverse chaining substitution (applied backward) the buffer cursor is left
	// at -1; the next cluster merge that compares positions with the cursor (deleting default
	// ignorables at the start of the buffer) indexes Info[-1]. Upstream's unsigned cursor wraps
	// around instead.
	if strings.Contains(pe.val, "index out of range [-1]") && len(pe.stack) > 0 && strings.HasSuffix(pe.stack[0], "mergeClusters") && ev.Known(fPanicReverseIdx) {
		return fPanicReverseIdx
	}
	// finding (also C01-indic-final-reordering-base-at-end): info[base] read with base == end in
	// finalReorderingSyllableIndic (user feature 'pref' on a syllable ending in a halant).
	if strings.Contains(pe.val, "index out of range") && len(pe.stack) > 0 && strings.HasSuffix(pe.stack[0], "finalReorderingSyllableIndic") && ev.Known(fPanicIndic) {
		return fPanicIndic
	}
	return ""
}

func triageGuess(fe *fontEntry, c *Case, got portResult, want refResult) string {
	// finding: getHorizontalDirection does not list Old Uyghur (Unicode 14) among the
	// right-to-left scripts; upstream does.
	if c.Dir == 0 && got.Script == language.Old_Uyghur && uint32(got.Script) == want.Script && ev.Known(fOldUyghur) {
		return fOldUyghur
	}
	return ""
}

// fontLevel: classes where the whole shaping input differs between the two sides because of the
// loader; nothing of the output can be compared.
func fontLevel(fe *fontEntry, got portResult) class {
	f := facts(fe)
	switch {
	case f.layoutDropped && ev.Known(fPairPos2):
		// finding: a too strict Sanitize of one subtable discards the *whole* GPOS table: PairPos
		// format 2 with classDef.Extent() < class1Count (an unused trailing class is legal;
		// Amiri-Regular: 75 lookups in the reference, 0 in the port) and, since the resolved
		// extension subtables are sanitized too, SinglePos format 2 with fewer value records than
		// covered glyphs (NotoSansCJKjp-VF.otf: 13 lookups vs 0). Matcher: the port's lookup
		// count differs from the reference's.
		return class{fPairPos2, true}
	case f.cmapZeroFound && ev.Known(fCmapZero):
		// finding: cmap formats 0, 4 (delta), 6, 10, 12, 13 report a mapping to glyph 0 as found;
		// upstream treats glyph 0 as "not mapped" in every format (the font "has" a space glyph 0,
		// default ignorables are kept as glyph 0, ...).
		return class{fCmapZero, true}
	}
	if f.featureVarTable && got.font != nil && ev.Known(fFeatureVars) {
		// finding: when a FeatureVariations record matches the coordinates, every feature *not*
		// substituted by that record loses all its lookups (getFeatureLookupsWithVar returns nil
		// instead of the default feature).
		coords := got.font.Face().Coords()
		if fe.face.GSUB.FindVariationIndex(coords) != -1 || fe.face.GPOS.FindVariationIndex(coords) != -1 {
			return class{fFeatureVars, true}
		}
	}
	return class{}
}

func triage(fe *fontEntry, c *Case, got portResult, want refResult) class {
	port, ref := got.Glyphs, want.Glyphs
	f := facts(fe)
	if cl := fontLevel(fe, got); cl.id != "" {
		return cl
	}
	// finding: nested lookups are cut off at level 6 (upstream 64). Precondition: a generated font
	// whose Spec nests more than 6 contextual levels.
	if synthNestsDeeperThan6(fe) && ev.Known(fNesting) {
		return class{fNesting, true}
	}
	// unspecified: a runaway (AAT insertion loop, recursive lookups) stops when the operation /
	// length budget is exhausted; where exactly is not specified (upstream expects "*" for such
	// inputs, e.g. MORX-34: the port stops near 16384 glyphs, libharfbuzz 6.0.0 near 2000).
	// The two budgets are not computed alike (the port stops near 16384 glyphs, libharfbuzz 6.0.0
	// near 2000 on MORX-34; GSUB-3 "lol" differs in the last glyphs). Precondition: an output of
	// more than 32 glyphs per input rune (+256).
	if n := 32*c.Length + 256; len(port) > n || len(ref) > n {
		return class{sOpBudget, true}
	}
	// finding: with Buffer.Invisible set, hideDefaultIgnorables deletes the default ignorables
	// (as if the font had no space glyph) instead of replacing them by the invisible glyph.
	// Precondition: invisible glyph set, neither PRESERVE nor REMOVE flag, a default ignorable in
	// the item.
	if c.Invisible != 0 && c.Flags&12 == 0 && ev.Known(fInvisible) {
		for _, r := range c.item() {
			if defaultIgnorable(r) {
				// (deleting instead of replacing also merges clusters, which later steps such as
				// the Syriac stch stretching work on: nothing beyond the precondition is compared)
				return class{fInvisible, true}
			}
		}
	}
	// skew: Arabic fallback shaping synthesised from the cmap (script Arab, no Arabic GSUB
	// features). The port has three ligature lookups (3-component, 2-component, SHADDA mark
	// ligatures: arabicLigatureMarkTable, generated by the corpus module's port of
	// gen-arabic-table.py); libharfbuzz 6.0.0 has no mark-ligature lookup, and it builds bogus
	// one-component ligatures from the zero padding of its table when the font maps U+0000.
	if got.Script == language.Arabic && f.noArabicGSUB && (f.arabicMarkLig || f.mapsNUL) {
		return class{sArabicFallback, true}
	}
	// skew: the port's USE table (generated from the corpus module's port of gen-use-table.py:
	// "|| UGC == Cn") classes unassigned code points as WJ, which never starts a cluster, so a
	// following mark forms a broken cluster (dotted circle inserted when the font has one, no
	// pre-base reordering around the unassigned character); libharfbuzz 6.0.0 classes them O.
	// Precondition: USE script and an unassigned code point in the item. Weaker predicate: the
	// same multiset of glyph ids once dotted circles are removed.
	// skew: the port (like the upstream it tracks) lists Tifinagh with the scripts that have no
	// native horizontal direction (Old Hungarian, Old Italic, Runic: harfbuzz issue 1000), so a
	// right-to-left Tifinagh run is not reversed by grapheme; for libharfbuzz 6.0.0 Tifinagh is
	// natively left-to-right. Visible in the order of a mark and its base
	// (toys/Sbix1.ttf, RTL, U+2D4B U+0651). Precondition: script Tifinagh, direction RTL.
	if got.Script == language.Tifinagh && got.Dir == harfbuzz.RightToLeft {
		return class{sTifinaghRTL, true}
	}
	// unspecified: with a user feature 'pref' switched on for every glyph of an Indic syllable,
	// upstream's final reordering can take a trailing halant as the unformed pref candidate, walk
	// `base` to the end of the syllable and then write info[base] = POS_BASE_C *outside* the
	// syllable (the first glyph of the next one, or past the buffer); the port (since 29429d3)
	// checks the index. What upstream computes there is an accident of memory layout.
	// Precondition: Indic shaper script and a user feature pref with a non-zero value.
	if indicScripts[got.Script] {
		for _, ft := range c.Features {
			if ft.Tag == "pref" && ft.Value != 0 {
				return class{sIndicPrefOOB, true}
			}
		}
	}
	ranged := false
	for _, ft := range c.Features {
		if ft.Start != 0 || ft.End >= 0 {
			ranged = true
		}
	}
	// skew: user features with a cluster range on an AAT (morx) font: libharfbuzz 6.0.0 applies
	// them to the whole buffer, the upstream the port tracks honours the range
	// (in-house/tests/macos.tests:10, "--features=-liga[3:5]" on LucidaGrande, expects the ligature
	// to be suppressed inside the range only).
	if fe.traits.Morx && ranged {
		return class{sAATRanges, true}
	}
	// finding (reverse graphemes, see below) with ranged features: the unmerged clusters also
	// decide which glyphs a ranged feature covers.
	if c.Cluster == 1 && graphemesReversed(got.Script, got.Dir) && ranged && ev.Known(fReverseGraphemes) {
		return class{fReverseGraphemes, true}
	}
	// finding: Arabic "modifier combining marks" of class 220 are renumbered to the class of
	// the 230 ones (typo mcc26 for mcc22): fallback positioning puts them above, and since the
	// normaliser recomposes on the renumbered classes the glyphs themselves can differ
	// (NotoSansArabic: U+0626 U+0655 stays decomposed).
	for _, r := range c.item() {
		if mcmBelow[r] && ev.Known(fArabicMCM) {
			return class{fArabicMCM, true}
		}
	}
	// finding: the general-category tables of package unicodedata lack every range that
	// UnicodeData.txt gives as a <First>/<Last> pair (CJK ideographs, Hangul syllables, Tangut,
	// private use, surrogates): the shaper sees them as unassigned. Visible in
	// ensureNativeDirection: "left-to-right run of a right-to-left script with digits or regional
	// indicators and no letter keeps its direction" does not see those letters.
	if c.Dir == 4 && rtlScripts[got.Script] && ev.Known(fGenCatRanges) {
		trigger, rangeLetter, otherLetter := false, false, false
		for _, r := range c.item() {
			switch {
			case unicode.IsDigit(r) || r >= 0x1F1E6 && r <= 0x1F1FF:
				trigger = true
			case firstLastRange(r):
				rangeLetter = true
			case unicode.IsLetter(r):
				otherLetter = true
			}
		}
		if trigger && rangeLetter && !otherLetter {
			return class{fGenCatRanges, true}
		}
	}
	// finding: consonantFlagsMyanmar ORs the raw category value of Ra (15 = 0b1111) instead of
	// 1<<Ra: categories 1..3 (C, IV and DB = U+1037 DOT BELOW) count as consonants and Ra does
	// not, so the base of a Myanmar syllable is chosen wrongly (pre-base vowels are not moved in
	// U+1031 U+1031 U+1037). Precondition: Myanmar shaper and the item contains U+1037 or a Ra
	// (U+1004, U+101B, U+105A).
	// finding: with an AAT (morx) font upstream replaces every shaper that is not the default one
	// by the "dumber" shaper (default normalisation); the port tests the Go type, and its Zawgyi
	// shaper (script Qaag) is a complexShaperDefault{dumb, disableNorm}, so it is kept and
	// normalisation stays off (Courier.dfont#2, script Qaag, U+0057 U+0302: no composition).
	// Precondition: script Qaag and a morx font.
	if got.Script == language.Script(0x51616167) && fe.traits.Morx && ev.Known(fZawgyiMorx) {
		return class{fZawgyiMorx, true}
	}
	// finding: the Myanmar shaper enables locl and ccmp without the per-syllable flag (upstream:
	// F_PER_SYLLABLE, as the port's Khmer/Indic/USE shapers do): their contextual lookups match
	// across syllable boundaries (NotoNastaliqUrdu, script Mymr, U+0600 U+0661). Precondition:
	// Myanmar shaper and a GSUB with locl or ccmp.
	if got.Script == language.Myanmar && ev.Known(fMyanmarLocl) {
		for _, ft := range fe.feats {
			if ft == "locl" || ft == "ccmp" {
				return class{fMyanmarLocl, true}
			}
		}
	}
	if got.Script == language.Myanmar && ev.Known(fMyanmarFlags) {
		for _, r := range c.item() {
			if r == 0x1037 || r == 0x1004 || r == 0x101B || r == 0x105A {
				return class{fMyanmarFlags, true}
			}
		}
	}
	if useScripts[got.Script] {
		hasCn := false
		for _, r := range c.item() {
			if !isAssigned(r) {
				hasCn = true
			}
		}
		if hasCn {
			// the syllable segmentation differs, and with it every per-syllable feature, joining
			// form and reordering: nothing beyond the precondition is compared
			return class{sUseUnassigned, true}
		}
	}

	// The remaining classes leave the glyph sequence alone and change some fields only. Several
	// can apply to one case (e.g. bottom-to-top text at cluster level 1 with variations), so each
	// class whose structural precondition holds contributes the fields it is known to disturb and
	// the comparison is repeated on the rest.
	if len(port) != len(ref) {
		return class{}
	}
	var allowed fieldMask
	var offsetTol, advanceTol int32
	var ids []string
	add := func(id string, m fieldMask) {
		allowed |= m
		ids = append(ids, id)
	}
	vertical := got.Dir == harfbuzz.TopToBottom || got.Dir == harfbuzz.BottomToTop
	// finding: reverseGraphemes merges clusters for cluster level 0 instead of level 1
	// (upstream: cluster_level == MONOTONE_CHARACTERS): non-monotone clusters at level 1.
	if c.Cluster == 1 && graphemesReversed(got.Script, got.Dir) && !sameOn(port, ref, fCluster) && ev.Known(fReverseGraphemes) {
		add(fReverseGraphemes, fCluster)
	}
	// finding: vertical origin of a variable glyf font without vmtx/VORG: upstream derives the top
	// side bearing from the phantom points as soon as coordinates are set; the port only when vmtx
	// exists (y origin differs by hundreds of units).
	if vertical && coordsSet(got) && fe.traits.Glyf && !fe.traits.Vertical && !f.hasVORG && ev.Known(fVOrigin) {
		add(fVOrigin, fOffset)
	}
	// skew: PairPos format 2 whose second glyph has class 0: the port (like the upstream it was
	// ported from: "if (!klass2) { unsafe_to_concat; return false }") does not consume the pair;
	// libharfbuzz 6.0.0 applies the (zero) record and moves past the second glyph, so a skipped
	// glyph in between never becomes the first glyph of a pair. Visible only when a default
	// ignorable keeps its advance (PRESERVE_DEFAULT_IGNORABLES): U+0175 U+00AD U+0396 with
	// SourceSansPro-Regular.otf kerns the soft hyphen (291) or not (311).
	// The same skew without any skipped glyph: class kerning split over several subtables of one
	// lookup. For a pair (g1, g2) where an earlier PairPos format 2 subtable covers g1 with class 0
	// for g2, libharfbuzz 6.0.0 "applies" the zero record and stops, the port (like upstream since
	// issues 3824/3888) falls through to the next subtable (FreeSerif "i.": -30 only in the
	// port). Only the glyphs of such pairs may differ, and only in advances/offsets.
	// finding: propagateAttachmentOffsets follows an attachment chain (cursive / mark) to its end;
	// upstream stops at depth HB_MAX_NESTING_LEVEL (64) and leaves the offsets of the glyphs beyond
	// un-accumulated (in-house c4e48b08...ttf, U+0645 x 69: y offsets differ from the 65th glyph of
	// the chain on). Precondition: more than 64 glyphs, a GPOS with cursive or mark attachment
	// lookups; only offsets may differ.
	// finding: DeviceHinting.GetDelta computes pixels * (scale / ppem), dividing first, where
	// upstream computes pixels * scale / ppem: up to ppem-1 units of the scale are lost per pixel
	// (generated font gpos-rules seed 836445728, "b", ppem 9: x offset -499 vs -500).
	// Precondition: a ppem is set and the font's GPOS/GDEF carry hinting Device tables; only
	// advances and offsets may differ.
	if (c.XPpem != 0 || c.YPpem != 0) && fe.device && ev.Known(fDeviceDelta) {
		add(fDeviceDelta, fAdvance|fOffset)
	}
	// finding: applyTrak truncates the interpolated tracking value (int(x)) where upstream rounds
	// it half up (roundf = floorf(x + .5f)): one unit of difference in advance and offset
	// (TestTRAKOne.ttf, ptem 24: 470 vs 469). Precondition: a point size is set and the font has
	// a trak table.
	if c.Ptem != 0 && (len(fe.face.Trak.Horiz.SizeTable) > 0 || len(fe.face.Trak.Vert.SizeTable) > 0) && ev.Known(fTrakRounding) {
		add(fTrakRounding, fAdvance|fOffset)
	}
	if len(port) > 64 && !sameOn(port, ref, fOffset) && hasAttachmentLookups(fe) && ev.Known(fAttachDepth) {
		add(fAttachDepth, fOffset)
	}
	if sameOn(port, ref, fID|fCluster) && !sameOn(port, ref, fAdvance|fOffset) {
		affected := make([]bool, len(port))
		any := false
		for i := range port {
			for j := i + 1; j < len(port) && j <= i+3; j++ {
				if pairClass0Fallthrough(fe, port[i].ID, port[j].ID) || pairClass0Fallthrough(fe, port[j].ID, port[i].ID) {
					affected[i], affected[j], any = true, true, true
				}
				// third face of the same skew: with a second value record (ValueFormat2 != 0)
				// libharfbuzz 6.0.0 consumes the second glyph of the class-0 pair it "applied", so
				// that glyph is never the first glyph of the next pair (gpos2_2_font3.otf, glyphs
				// 19 x 30 then 20: the pair (19, 20) is kerned by the port only, or by both,
				// depending on the parity of the run); the port returns false and tries it
				// (and the plain face: a class-0 record with non-zero values, which only generated
				// fonts have, is applied by 6.0.0 and skipped by the port: gpos-rules seed 127592379,
				// "ba": 1233 vs 1150)
				for _, pr := range [][2]int{{i, j}, {j, i}} {
					if pairClass0Consumed(fe, port[pr[0]].ID, port[pr[1]].ID) {
						any = true
						for k := i; k <= j+3 && k < len(port); k++ {
							affected[k] = true
						}
					}
				}
			}
		}
		// (with REMOVE_DEFAULT_IGNORABLES the partner of the pair may be a default ignorable that is
		// gone from the output: its nominal glyph is tried as the second glyph of every glyph)
		if c.Flags&8 != 0 {
			for _, r := range c.item() {
				if !defaultIgnorable(r) {
					continue
				}
				g, _ := fe.face.NominalGlyph(r)
				for i := range port {
					if pairClass0Consumed(fe, port[i].ID, uint32(g)) {
						any = true
						for k := i; k <= i+3 && k < len(port); k++ {
							affected[k] = true
						}
					}
				}
			}
		}
		// (a glyph of an affected pair that is part of a cursive attachment chain hands its offset
		// on to the whole chain: with cursive lookups the offsets of the other glyphs are not compared)
		cursive := false
		for _, l := range fe.face.GPOS.Lookups {
			for _, st := range l.Subtables {
				if _, is := st.(tables.CursivePos); is {
					cursive = true
				}
			}
		}
		ok := any
		for i := range port {
			if affected[i] || port[i].same(ref[i]) {
				continue
			}
			if !(cursive && port[i].XAdv == ref[i].XAdv && port[i].YAdv == ref[i].YAdv) {
				ok = false
			}
		}
		if ok {
			return class{sPairClass0, true}
		}
	}
	if c.Flags&4 != 0 && len(fe.face.GPOS.Lookups) > 0 {
		for _, r := range c.item() {
			if defaultIgnorable(r) {
				add(sPairClass0, fAdvance|fOffset)
				break
			}
		}
	}
	// finding: the base cached by the mark-to-base / mark-to-ligature lookups (lastBase,
	// lastBaseUntil of the apply context) is not reset between lookups (upstream resets it in
	// set_lookup_mask): a mark can be attached to the base found by an earlier lookup, or not at
	// all. Estedad-VF.ttf, direction LTR, U+0639 U+0628 U+0651: the shadda is attached
	// (407,-500) by the reference only. Precondition: GPOS has MarkBasePos/MarkLigPos lookups;
	// only the offsets of GDEF mark glyphs differ.
	if f.markAttach && sameOn(port, ref, fID|fCluster|fAdvance) && (len(c.Features) > 0 || f.multipleSubst || ev.Known(fMarkBaseCache)) {
		onlyMarks := true
		spaceGlyph, _ := fe.face.NominalGlyph(' ')
		// a glyph counts as a mark when GDEF says so, or when a mark attachment lookup lists it as
		// the attaching glyph and the character it stands for is a mark (7a37dc4d...ttf, Thai, GDEF
		// without a class for it: U+0E01 U+0E34 U+0E01 U+0E34 with mark=0 on [1,3): the port
		// attaches the second U+0E34 to the first U+0E01)
		text := c.runes()
		isMark := func(g G) bool {
			if fe.face.GDEF.GlyphClassDef != nil {
				if cl, _ := fe.face.GDEF.GlyphClassDef.Class(tables.GlyphID(g.ID)); cl == 3 {
					return true
				}
			}
			// (the attaching glyph of a mark lookup is the one its mark coverage lists, whatever
			// GDEF says about it)
			for _, l := range fe.face.GPOS.Lookups {
				for _, st := range l.Subtables {
					var cov tables.Coverage
					switch m := st.(type) {
					case tables.MarkBasePos:
						cov = m.Cov()
					case tables.MarkLigPos:
						cov = m.Cov()
					}
					if cov != nil {
						if _, ok := cov.Index(tables.GlyphID(g.ID)); ok {
							return g.Cluster >= 0 && g.Cluster < len(text) && unicode.IsMark(text[g.Cluster])
						}
					}
				}
			}
			return false
		}
		for i := range port {
			if port[i].XOff != ref[i].XOff || port[i].YOff != ref[i].YOff {
				// (a hidden default ignorable between the mark and its base sits in the attachment
				// chain and moves with it: the space / invisible glyph counts like the mark)
				hidden := port[i].ID == uint32(spaceGlyph) || c.Invisible != 0 && port[i].ID == uint32(c.Invisible)
				if !isMark(port[i]) && !hidden {
					onlyMarks = false
				}
			}
		}
		switch {
		case onlyMarks && ev.Known(fMarkBaseCache):
			add(fMarkBaseCache, fOffset)
		case onlyMarks && f.multipleSubst:
			// skew: a mark after a later component of a MultipleSubst sequence: the port implements
			// upstream's fix for harfbuzz issue 4124 (2023: such a glyph is skipped in the search for
			// the base only when the base coverage does not contain it), libharfbuzz 6.0.0 (2022)
			// always skips it and attaches to the first glyph of the sequence. Verified by
			// experiment: with the unconditional skip the port gives the reference's offsets
			// (Amiri-Regular.ttf, U+06D3 U+08ED: mark at 220,-101 vs 573,-441). Precondition: GSUB
			// MultipleSubst and GPOS mark attachment lookups; only offsets of GDEF mark glyphs differ.
			add(sMarkBaseMulti, fOffset)
		case onlyMarks && len(c.Features) > 0:
			// skew: the backward search for the base of a mark (rewritten upstream in 2023 together
			// with the fix for issue 4124, and ported) walks past a glyph that does not carry the
			// lookup's mask (a user feature switched off on a range); libharfbuzz 6.0.0 stops there
			// and attaches nothing. in-house 85fe0be4...ttf, U+0A15 U+0009 U+2069 U+0A51 with
			// blwm=0 on [1,2): the port attaches the mark to U+0A15. A global user feature can
			// have the same effect when the shaper clears "its" mask bit, which after merging with
			// the user's global feature is the global bit (Indic "a ZWNJ disables HALF" with
			// half=1: 8116e5d8...ttf, RTL, U+094D U+200C U+00A0 U+091F). Precondition: a user
			// feature and mark attachment lookups; only offsets of GDEF mark glyphs differ.
			add(sMarkBaseMask, fOffset)
		}
	}
	// finding: the fallback advance of U+2007 FIGURE SPACE (font without that glyph) is taken from
	// the last digit the font has instead of the first (missing break in fallbackSpaces).
	if _, has := fe.face.NominalGlyph(0x2007); !has && ev.Known(fFigureSpace) {
		for _, r := range c.item() {
			if r == 0x2007 {
				add(fFigureSpace, fAdvance|fOffset)
				break
			}
		}
	}
	// finding: VORG vertical origins of a variable font are not varied (VVAR vertical-origin
	// delta-set mapping is not read).
	if vertical && coordsSet(got) && f.hasVORG && ev.Known(fVorgVar) {
		add(fVorgVar, fOffset)
	}
	// root cause "the font functions disagree on the extents of a glyph of the output": fallback
	// mark positioning is computed from the extents.
	if got.font != nil && sameOn(port, ref, fID) {
		d := extentsDiffer(fe, c, got, port, ref)
		resetRef(fe)
		switch {
		case !d.any:
		case d.refNone && f.monoBitmaps:
			// loader: the port reads extents from monochrome bitmap strikes (EBDT/bdat, ppem 0);
			// the reference's ot font functions do not read those tables and have no extents for a
			// glyph without outline (and then only zero the mark advances).
			add(lBitmapOnly, fOffset|fAdvance)
		case d.emptyGlyph && ev.Known(fEmptyExtents):
			// finding: an empty glyf glyph gets XBearing = lsb instead of zero extents.
			add(fEmptyExtents, fOffset)
		case d.within1 && coordsSet(got) && ev.Known(fVarRounding):
			offsetTol, advanceTol = 2, 1
			ids = append(ids, fVarRounding)
		case (d.portNone || !d.within1) && !d.emptyGlyph && ev.Known(fExtentsOther):
			// finding (owned by C10): no extents for CFF2 variable glyphs, COLR clip boxes, ...
			add(fExtentsOther, fOffset)
		}
	}
	// finding: rounding of variable-font metrics (vertical origin x = advance/2 computed on the
	// unrounded advance, y from truncated extents; extents width/height rounded separately): the
	// port follows an older upstream convention pinned by its own ported unit tests
	// (TestAdvanceTtVarCompV expects 291/1012 where libharfbuzz 6.0.0 gives 292/1013).
	if coordsSet(got) && (fe.traits.Glyf || fe.traits.CFF2) && offsetTol == 0 && ev.Known(fVarRounding) {
		// (also: deltas of HVAR advances and of GPOS variation devices are accumulated in another
		// order of float32 operations; one unit when the sum is close to a half)
		offsetTol, advanceTol = 2, 1
		ids = append(ids, fVarRounding)
	}
	// finding: vertical origin without vmtx/VORG: y = y_bearing + (ascender - descender + height) / 2
	// is truncated toward zero where upstream shifts (rounds toward -infinity): one unit off when
	// the sum is odd and y negative.
	if vertical && fe.traits.Glyf && !fe.traits.Vertical && !f.hasVORG && offsetTol == 0 && allowed&fOffset == 0 && ev.Known(fVOriginFloor) {
		offsetTol = 1
		ids = append(ids, fVOriginFloor)
	}
	if len(ids) == 0 {
		return class{}
	}
	must := (fID | fCluster | fAdvance | fOffset) &^ allowed
	if offsetTol > 0 {
		must &^= fOffset // compared with the tolerance below
	}
	if advanceTol > 0 {
		must &^= fAdvance
	}
	if !sameOn(port, ref, must) {
		return class{}
	}
	for i := range port {
		if allowed&fOffset == 0 && (abs32(port[i].XOff-ref[i].XOff) > offsetTol || abs32(port[i].YOff-ref[i].YOff) > offsetTol) {
			return class{}
		}
		if allowed&fAdvance == 0 && (abs32(port[i].XAdv-ref[i].XAdv) > advanceTol || abs32(port[i].YAdv-ref[i].YAdv) > advanceTol) {
			return class{}
		}
	}
	for _, id := range ids[1:] {
		ev.Excluded(id)
	}
	return class{ids[0], true}
}

func triageAdvance(fe *fontEntry, c *Case, gid uint32, port, ref int32) string { return "" }

func triageExtents(fe *fontEntry, c *Case, gid uint32, pe harfbuzz.GlyphExtents, pok bool, re hbref.Extents, rok bool) string {
	f := facts(fe)
	within1 := pok && rok && abs32(pe.XBearing-re.XBearing) <= 1 && abs32(pe.YBearing-re.YBearing) <= 1 && abs32(pe.Width-re.Width) <= 1 && abs32(pe.Height-re.Height) <= 1
	switch {
	case pok && !rok && f.monoBitmaps:
		return lBitmapOnly
	case pok && rok && re == (hbref.Extents{}) && pe.Width == 0 && pe.Height == 0 && pe.YBearing == 0 && ev.Known(fEmptyExtents):
		return fEmptyExtents
	case within1 && ev.Known(fVarRounding):
		return fVarRounding
	case !within1 && ev.Known(fExtentsOther):
		return fExtentsOther
	}
	return ""
}

var _ = font.NewFace
var _ = ucd.LookupCombiningClass

// hasAttachmentLookups: the GPOS table has a cursive, mark-to-base, mark-to-ligature or
// mark-to-mark subtable (the lookups that build attachment chains).
func hasAttachmentLookups(fe *fontEntry) bool {
	for _, l := range fe.face.GPOS.Lookups {
		for _, st := range l.Subtables {
			switch st.(type) {
			case tables.CursivePos, tables.MarkBasePos, tables.MarkLigPos, tables.MarkMarkPos:
				return true
			}
		}
	}
	return false
}

// triageFlags classifies a difference in glyph flags on a generated font ("" = unexplained).
func synthNestsDeeperThan6(fe *fontEntry) bool {
	if fe.synth == nil {
		return false
	}
	if fe.synth.Kind == synthfont.KindChainContext {
		return fe.synth.Depth >= 6 // Depth nested contexts + the action
	}
	return fe.synth.Nesting() > 6
}

func triageFlags(fe *fontEntry, c *Case, got portResult, want refResult) string {
	// unspecified: the same feature tag given twice with different ranges (one ranged, one global):
	// how the two settings combine is not documented; the glyphs agree, the port flags
	// unsafe-to-break where libharfbuzz 6.0.0 flags unsafe-to-concat only (generated font
	// gsub-rules seed 916410494, "aaa", clig=0 on [1,end) then clig=1 global). The port's flags are
	// the stronger ones. Precondition: two user features share a tag.
	for i := range c.Features {
		for j := i + 1; j < len(c.Features); j++ {
			if c.Features[i].Tag == c.Features[j].Tag {
				return "unspecified:duplicate-user-feature-tag-flags"
			}
		}
	}
	if synthNestsDeeperThan6(fe) && ev.Known(fNesting) {
		return fNesting
	}
	// skew:pairpos2-class-zero: 6.0.0 applies the class-0 record of PairPos format 2 (and flags the
	// pair unsafe-to-break when a value is not zero) where the port returns false; even when the
	// value is later overwritten (cursive attachment sets the offset) the flag stays
	port := got.Glyphs
	for i := range port {
		for j := i + 1; j < len(port) && j <= i+3; j++ {
			if pairClass0Consumed(fe, port[i].ID, port[j].ID) || pairClass0Consumed(fe, port[j].ID, port[i].ID) {
				return sPairClass0
			}
		}
	}
	return ""
}
