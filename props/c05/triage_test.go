package c05

import (
	"github.com/go-text/typesetting/harfbuzz"

	"verif/internal/hbref"
)

func harfbuzzGID(g uint32) harfbuzz.GID { return harfbuzz.GID(g) }

type class struct {
	id       string
	excluded bool
}

func knownPanic(fe *fontEntry, c *Case, err error) string { return "" }

func triageGuess(fe *fontEntry, c *Case, got portResult, want refResult) string { return "" }

func triage(fe *fontEntry, c *Case, port, ref []G) class { return class{} }

func triageAdvance(fe *fontEntry, c *Case, gid uint32, port, ref int32) string { return "" }

func triageExtents(fe *fontEntry, c *Case, gid uint32, pe harfbuzz.GlyphExtents, pok bool, re hbref.Extents, rok bool) string {
	return ""
}
