// Package c06 decides property C06: grapheme, word and line boundaries follow UAX #29 / UAX #14
// for every string; iterators yield consecutive non-empty segments that concatenate to the input;
// results do not depend on what the Segmenter processed before.
//
// Oracle: internal/uaxref, a spec-direct scan-based implementation of the rules (cross-checked on
// every case against the rule-traced second implementation in trace.go, and replayed against the
// Unicode conformance files first). Search: exhaustive enumeration of all short sequences of class
// representatives, shape-biased random strings, real-text fragments, Segmenter reuse histories.
package c06

import (
	"encoding/json"
	"fmt"
	"os"
	"path/filepath"
	"sort"
	"strconv"
	"strings"
	"testing"
	"unicode"

	"github.com/go-text/typesetting/segmenter"
	ucd "github.com/go-text/typesetting/unicodedata"

	"verif/internal/ev"
	"verif/internal/uaxref"
)

func TestMain(m *testing.M) { ev.Main(m) }

// infraFatal stops the process without a test failure: the driver reports it as an infrastructure
// problem (exit 2), never as a violation. Used when the oracle itself is found broken.
func infraFatal(format string, args ...any) {
	fmt.Printf("ORACLE/INFRASTRUCTURE PROBLEM (not a violation): "+format+"\n", args...)
	ev.Flush()
	os.Exit(3)
}

func repoDir() string {
	if d := os.Getenv("VERIF_REPO"); d != "" {
		return d
	}
	return "/repo"
}

// ---- cases ----

const (
	algoLine     = 1
	algoGrapheme = 2
	algoWord     = 4
	algoAll      = algoLine | algoGrapheme | algoWord
)

func algoMask(s string) int {
	switch s {
	case "line":
		return algoLine
	case "grapheme":
		return algoGrapheme
	case "word":
		return algoWord
	}
	return algoAll
}

func algoName(m int) string {
	switch m {
	case algoLine:
		return "line"
	case algoGrapheme:
		return "grapheme"
	case algoWord:
		return "word"
	}
	return "all"
}

type textCase struct {
	Algos   string   `json:"algos"` // line | grapheme | word | all
	Runes   []int32  `json:"runes"`
	Quoted  string   `json:"quoted"`
	Classes []string `json:"classes"` // informational: code point, line|grapheme|word signature
}

func mkCase(algos int, text []rune) textCase {
	rs := make([]int32, len(text))
	for i, r := range text {
		rs[i] = r
	}
	return textCase{Algos: algoName(algos), Runes: rs, Quoted: strconv.QuoteToASCII(string(text)), Classes: describe(text)}
}

// ---- per-rule hit counters (flushed as labels) ----

var (
	lineHits [nLineRules]int64
	gHits    [nGRules]int64
	wHits    [nWRules]int64
	lb10Hits int64
)

func flushHits() {
	for i, n := range lineHits {
		if n > 0 {
			ev.LabelN("rule:line:"+lineRuleNames[i], n)
		}
		lineHits[i] = 0
	}
	if lb10Hits > 0 {
		ev.LabelN("rule:line:LB10(applied)", lb10Hits)
		lb10Hits = 0
	}
	for i, n := range gHits {
		if n > 0 {
			ev.LabelN("rule:grapheme:"+gRuleNames[i], n)
		}
		gHits[i] = 0
	}
	for i, n := range wHits {
		if n > 0 {
			ev.LabelN("rule:word:"+wRuleNames[i], n)
		}
		wHits[i] = 0
	}
}

// ---- survey mode (development aid): VERIF_C06_SURVEY=1 collects every disagreement by class
// pattern instead of stopping at the first one, prints the histogram and then fails. ----

var (
	survey     = os.Getenv("VERIF_C06_SURVEY") != ""
	surveyHist = map[string]int{}
	surveyEx   = map[string]textCase{}
)

type failer struct {
	t     ev.TB
	check string
	algos int
	text  []rune
	hit   bool
}

func (f *failer) fail(key string, format string, args ...any) {
	f.hit = true
	c := mkCase(f.algos, f.text)
	if survey {
		if _, ok := surveyHist[key]; !ok {
			surveyEx[key] = c
		}
		surveyHist[key]++
		return
	}
	f.t.Helper()
	ev.Fail(f.t, f.check, c, format+"\n  text: %s\n  classes: %s", append(args, c.Quoted, strings.Join(c.Classes, ", "))...)
}

func surveyReport(t *testing.T) {
	if !survey || len(surveyHist) == 0 {
		return
	}
	keys := make([]string, 0, len(surveyHist))
	for k := range surveyHist {
		keys = append(keys, k)
	}
	sort.Strings(keys)
	for _, k := range keys {
		t.Logf("SURVEY %6d  %s   e.g. %s", surveyHist[k], k, surveyEx[k].Quoted)
	}
	first := surveyEx[keys[0]]
	ev.Fail(t, "survey", first, "%d disagreement patterns (survey mode)", len(keys))
}

// ---- the property on one text ----

type segRec struct {
	Off  int
	Len  int
	Mand bool
}

func patternKey(algo string, sigs func(rune) string, text []rune, i int, detail string) string {
	// class pattern around position i: up to 3 runes before, 1 after
	lo, hi := i-3, i+1
	if lo < 0 {
		lo = 0
	}
	if hi > len(text) {
		hi = len(text)
	}
	var sb strings.Builder
	sb.WriteString(algo + ": ")
	if lo > 0 {
		sb.WriteString("… ")
	}
	for k := lo; k < hi; k++ {
		if k == i {
			sb.WriteString("▮ ")
		}
		sb.WriteString(sigs(text[k]) + " ")
	}
	if i == hi {
		sb.WriteString("▮ ")
	}
	if hi < len(text) {
		sb.WriteString("… ")
	}
	sb.WriteString(detail)
	return sb.String()
}

func brkName(b uaxref.Brk) string {
	switch b {
	case uaxref.No:
		return "no break"
	case uaxref.Allowed:
		return "break allowed"
	}
	return "mandatory break"
}

// checkStructure checks the structural clause on a drained iterator (the drain is bounded: a
// correct iterator yields at most len(text) segments): segments are consecutive, non-empty, their
// Text equals the input slice at Offset, and they concatenate to the input.
func checkStructure(f *failer, what string, text []rune, segs []segRec, texts [][]rune, overrun bool) bool {
	n := len(text)
	if overrun {
		f.fail(what+": iterator does not terminate", "%s yields more than len(text)+1=%d segments", what, n+1)
		return false
	}
	end := 0
	for k, s := range segs {
		if s.Off != end {
			f.fail(what+": segments not consecutive", "%s segment %d has Offset %d, previous segment ended at %d", what, k, s.Off, end)
			return false
		}
		if s.Len == 0 {
			f.fail(what+": empty segment", "%s segment %d at offset %d is empty", what, k, s.Off)
			return false
		}
		if s.Off+s.Len > n {
			f.fail(what+": segment beyond input", "%s segment %d [%d,%d) exceeds the input length %d", what, k, s.Off, s.Off+s.Len, n)
			return false
		}
		for j, r := range texts[k] {
			if text[s.Off+j] != r {
				f.fail(what+": segment text differs from input", "%s segment %d Text[%d]=%U but input[%d]=%U", what, k, j, r, s.Off+j, text[s.Off+j])
				return false
			}
		}
		end = s.Off + s.Len
	}
	if end != n {
		f.fail(what+": segments do not cover the input", "%s segments end at %d, input length %d (%d segments)", what, end, n, len(segs))
		return false
	}
	return true
}

func libLines(seg *segmenter.Segmenter, n int) (segs []segRec, texts [][]rune, overrun bool) {
	it := seg.LineIterator()
	for it.Next() {
		l := it.Line()
		segs = append(segs, segRec{l.Offset, len(l.Text), l.IsMandatoryBreak})
		texts = append(texts, l.Text)
		if len(segs) > n+1 {
			return segs, texts, true
		}
	}
	return
}

func libGraphemes(seg *segmenter.Segmenter, n int) (segs []segRec, texts [][]rune, overrun bool) {
	it := seg.GraphemeIterator()
	for it.Next() {
		g := it.Grapheme()
		segs = append(segs, segRec{g.Offset, len(g.Text), false})
		texts = append(texts, g.Text)
		if len(segs) > n+1 {
			return segs, texts, true
		}
	}
	return
}

func libWords(seg *segmenter.Segmenter, n int) (segs []segRec, texts [][]rune, overrun bool) {
	it := seg.WordIterator()
	for it.Next() {
		w := it.Word()
		segs = append(segs, segRec{w.Offset, len(w.Text), false})
		texts = append(texts, w.Text)
		if len(segs) > n+1 {
			return segs, texts, true
		}
	}
	return
}

// libResult is everything the code under test produced for one text.
type libResult struct {
	lines, graphemes, words             []segRec
	lineTexts, graphemeTexts, wordTexts [][]rune
	lineOver, graphemeOver, wordOver    bool
	flags                               []bool
	panicked                            any
}

// runLib runs the code under test on a fresh Segmenter (history independence is a separate
// check); a panic is caught here, around the library calls only.
func runLib(algos int, text []rune) (res libResult) {
	defer func() {
		if r := recover(); r != nil {
			res.panicked = r
		}
	}()
	n := len(text)
	var seg segmenter.Segmenter
	seg.Init(text)
	if algos&algoLine != 0 {
		res.lines, res.lineTexts, res.lineOver = libLines(&seg, n)
	}
	if algos&algoGrapheme != 0 {
		res.graphemes, res.graphemeTexts, res.graphemeOver = libGraphemes(&seg, n)
	}
	if algos&algoWord != 0 {
		res.flags = seg.VerifWordBoundaries()
		res.words, res.wordTexts, res.wordOver = libWords(&seg, n)
	}
	return res
}

// checkText evaluates the property on one text for the selected algorithms. It returns whether the
// case is non-trivial (length >= 2 and a rule other than LB31 / GB999 / WB999 decides an interior
// position of one of the selected algorithms).
func checkText(t ev.TB, check string, algos int, text []rune) (nontrivial bool) {
	f := &failer{t: t, check: check, algos: algos, text: text}
	n := len(text)
	excluded := &exclSet{}
	lib := runLib(algos, text)
	if lib.panicked != nil {
		f.fail("panic", "panic in the segmenter: %v", lib.panicked)
		return false
	}

	if algos&algoLine != 0 {
		ref := uaxref.LineBreaks(text)
		tr, rules, l10 := traceLine(text)
		for i := range ref {
			if ref[i] != tr[i] {
				infraFatal("line reference and its traced twin disagree at %d on %U: %v vs %v (%s)", i, text, ref[i], tr[i], lineRuleNames[rules[i]])
			}
		}
		lb10Hits += int64(l10)
		for i := 1; i < n; i++ {
			lineHits[rules[i]]++
			if rules[i] != lb31 {
				nontrivial = true
			}
		}
		segs, texts, over := lib.lines, lib.lineTexts, lib.lineOver
		if checkStructure(f, "LineIterator", text, segs, texts, over) && n > 0 {
			got := make([]uaxref.Brk, n+1)
			for _, s := range segs {
				if s.Mand {
					got[s.Off+s.Len] = uaxref.Mandatory
				} else {
					got[s.Off+s.Len] = uaxref.Allowed
				}
			}
			for i := 1; i <= n; i++ {
				if got[i] != ref[i] {
					if id := knownLine(text, i, ref[i], got[i], rules[i]); id != "" && ev.Known(id) {
						excluded.add(id)
						continue // only this position is excused
					}
					f.fail(patternKey("line", lineSig, text, i, fmt.Sprintf("want %s (%s) got %s", brkName(ref[i]), lineRuleNames[rules[i]], brkName(got[i]))),
						"line break status at position %d: UAX #14 gives %q (rule %s), LineIterator gives %q", i, brkName(ref[i]), lineRuleNames[rules[i]], brkName(got[i]))
					break
				}
			}
		}
	}

	if algos&algoGrapheme != 0 {
		ref := uaxref.GraphemeBreaks(text)
		tr, rules := traceGrapheme(text)
		for i := range ref {
			if ref[i] != tr[i] {
				infraFatal("grapheme reference and its traced twin disagree at %d on %U (%s)", i, text, gRuleNames[rules[i]])
			}
		}
		for i := 1; i < n; i++ {
			gHits[rules[i]]++
			if rules[i] != gb999 {
				nontrivial = true
			}
		}
		segs, texts, over := lib.graphemes, lib.graphemeTexts, lib.graphemeOver
		if checkStructure(f, "GraphemeIterator", text, segs, texts, over) && n > 0 {
			gotb := make([]bool, n+1)
			gotb[0] = true
			for _, s := range segs {
				gotb[s.Off+s.Len] = true
			}
			for i := 1; i <= n; i++ {
				if gotb[i] != ref[i] {
					if id := knownGrapheme(text, i, ref[i], rules[i]); id != "" && ev.Known(id) {
						excluded.add(id)
						continue
					}
					f.fail(patternKey("grapheme", graphemeSig, text, i, fmt.Sprintf("want boundary=%v (%s)", ref[i], gRuleNames[rules[i]])),
						"grapheme boundary at position %d: UAX #29 gives %v (rule %s), GraphemeIterator gives %v", i, ref[i], gRuleNames[rules[i]], gotb[i])
					break
				}
			}
		}
	}

	if algos&algoWord != 0 {
		ref := uaxref.WordBreaks(text)
		tr, rules := traceWord(text)
		for i := range ref {
			if ref[i] != tr[i] {
				infraFatal("word reference and its traced twin disagree at %d on %U (%s)", i, text, wRuleNames[rules[i]])
			}
		}
		for i := 1; i < n; i++ {
			wHits[rules[i]]++
			if rules[i] != wb999 {
				nontrivial = true
			}
		}
		flags := lib.flags
		flagsOK := true
		if len(flags) != n+1 {
			f.fail("word: flag count", "segmenter holds %d word boundary flags for %d runes", len(flags), n)
			flagsOK = false
		}
		for i := 0; flagsOK && i <= n; i++ {
			if flags[i] != ref[i] {
				if id := knownWord(text, i, ref[i], rules[i]); id != "" && ev.Known(id) {
					excluded.add(id)
					continue
				}
				flagsOK = false
				f.fail(patternKey("word", wordSig, text, i, fmt.Sprintf("want boundary=%v (%s)", ref[i], wRuleNames[rules[i]])),
					"word boundary at position %d: UAX #29 gives %v (rule %s), the segmenter flags %v", i, ref[i], wRuleNames[rules[i]], flags[i])
			}
		}
		// WordIterator: exactly the inter-boundary segments that begin with a rune of the library's
		// `Word` table (unicodedata.Word: Alphabetic or General_Category Number), in order.
		if flagsOK {
			var want []segRec
			start := 0
			for i := 1; i <= n; i++ {
				if flags[i] { // equal to the reference except at positions excused by a listed finding
					if unicode.Is(ucd.Word, text[start]) {
						want = append(want, segRec{Off: start, Len: i - start})
					}
					start = i
				}
			}
			got, texts, over := lib.words, lib.wordTexts, lib.wordOver
			if over {
				f.fail("WordIterator: does not terminate", "WordIterator yields more than len(text)+1 words")
			} else {
				checkWords(f, text, flags, want, got, texts, excluded)
			}
		}
	}
	for _, id := range excluded.ids {
		ev.Excluded(id)
	}
	return nontrivial && n >= 2
}

func checkWords(f *failer, text []rune, flags []bool, want, got []segRec, texts [][]rune, excluded *exclSet) {
	if id := knownWordIter(text, flags, want, got); id != "" && ev.Known(id) {
		// weaker predicate checked by the matcher itself: exactly the words that the adjacency skip
		// loses are missing, every other word is returned correctly
		excluded.add(id)
		want = got
	}
	for k := 0; k < len(want) || k < len(got); k++ {
		switch {
		case k >= len(got):
			f.fail(patternKey("worditer", wordSig, text, want[k].Off, "word not returned"),
				"WordIterator returned %d words, missing the word [%d,%d) (between two consecutive UAX #29 word boundaries, starts with a Word rune)", len(got), want[k].Off, want[k].Off+want[k].Len)
			return
		case k >= len(want):
			f.fail(patternKey("worditer", wordSig, text, got[k].Off, "extra word"),
				"WordIterator returned an extra segment [%d,%d) that is not an inter-boundary segment starting with a Word rune", got[k].Off, got[k].Off+got[k].Len)
			return
		case want[k] != got[k]:
			f.fail(patternKey("worditer", wordSig, text, want[k].Off, "word skipped or wrong"),
				"WordIterator word %d is [%d,%d), expected [%d,%d) (next inter-boundary segment starting with a Word rune)", k, got[k].Off, got[k].Off+got[k].Len, want[k].Off, want[k].Off+want[k].Len)
			return
		}
		if got[k].Off+got[k].Len > len(text) || len(texts[k]) != got[k].Len {
			f.fail("worditer: bad slice", "WordIterator word %d has inconsistent Offset/Text", k)
			return
		}
		for j, r := range texts[k] {
			if text[got[k].Off+j] != r {
				f.fail("worditer: text differs", "WordIterator word %d Text[%d]=%U but input[%d]=%U", k, j, r, got[k].Off+j, text[got[k].Off+j])
				return
			}
		}
	}
}

// ---- 1. oracle self-test ----

func parseConformance(path string) (texts [][]rune, wants [][]bool) {
	b, err := os.ReadFile(path)
	if err != nil {
		infraFatal("cannot read conformance file: %v", err)
	}
	for _, line := range strings.Split(string(b), "\n") {
		if i := strings.IndexByte(line, '#'); i >= 0 {
			line = line[:i]
		}
		line = strings.TrimSpace(line)
		if line == "" {
			continue
		}
		var text []rune
		var want []bool
		for _, tok := range strings.Fields(line) {
			switch tok {
			case "×":
				want = append(want, false)
			case "÷":
				want = append(want, true)
			default:
				v, err := strconv.ParseUint(tok, 16, 32)
				if err != nil {
					infraFatal("bad token %q in %s", tok, path)
				}
				text = append(text, rune(v))
			}
		}
		if len(want) != len(text)+1 {
			infraFatal("malformed line in %s: %q", path, line)
		}
		texts = append(texts, text)
		wants = append(wants, want)
	}
	return
}

// TestOracleSelfTest replays the Unicode conformance files shipped with the repo through both
// reference implementations. A failure is a broken oracle (exit 2), never a violation.
func TestOracleSelfTest(t *testing.T) {
	dir := filepath.Join(repoDir(), "segmenter", "test")
	total := 0
	run := func(file string, f func([]rune) []bool, g func([]rune) []bool) {
		texts, wants := parseConformance(filepath.Join(dir, file))
		if len(texts) < 500 {
			infraFatal("%s: only %d samples", file, len(texts))
		}
		for k, text := range texts {
			a, b := f(text), g(text)
			for i, w := range wants[k] {
				if a[i] != w || b[i] != w {
					infraFatal("%s sample %U position %d: expected %v, uaxref %v, traced %v", file, text, i, w, a[i], b[i])
				}
			}
		}
		total += len(texts)
		ev.LabelN("selftest:"+file, int64(len(texts)))
	}
	run("LineBreakTest.txt", func(x []rune) []bool {
		r := uaxref.LineBreaks(x)
		o := make([]bool, len(r))
		for i, v := range r {
			o[i] = v != uaxref.No
		}
		return o
	}, func(x []rune) []bool {
		r, _, _ := traceLine(x)
		o := make([]bool, len(r))
		for i, v := range r {
			o[i] = v != uaxref.No
		}
		return o
	})
	run("GraphemeBreakTest.txt", uaxref.GraphemeBreaks, func(x []rune) []bool { r, _ := traceGrapheme(x); return r })
	run("WordBreakTest.txt", uaxref.WordBreaks, func(x []rune) []bool { r, _ := traceWord(x); return r })
	// the conformance samples are also library cases (the repo's own tests check only the boundary
	// positions; here additionally the mandatory flags and the iterator structure)
	var nt int64
	for _, file := range []string{"LineBreakTest.txt", "GraphemeBreakTest.txt", "WordBreakTest.txt"} {
		texts, _ := parseConformance(filepath.Join(dir, file))
		for _, text := range texts {
			if checkText(t, "conformance", algoAll, text) {
				nt++
			}
		}
	}
	ev.CaseEnum(int64(total), nt)
	flushHits()
	surveyReport(t)
}

// ---- 2. exhaustive enumerators ----

// enumerate checks every sequence over reps of length 0..maxLen; the space is partitioned between
// shards by the first two symbols.
func enumerate(t *testing.T, check string, algos int, reps []rune, maxLen int) {
	si, sn := ev.Shard()
	R := len(reps)
	ev.Note("%s: %d representatives, all sequences up to length %d (%.3g sequences over all shards)", check, R, maxLen, seqCount(R, maxLen))
	buf := make([]rune, maxLen)
	var total, nt int64
	eval := func(d int) {
		total++
		if checkText(t, check, algos, buf[:d]) {
			nt++
			if ev.WantSample() {
				ev.Sample(mkCase(algos, buf[:d]))
			}
		}
	}
	var rec func(d int)
	rec = func(d int) {
		eval(d)
		if d == maxLen {
			return
		}
		for _, r := range reps {
			buf[d] = r
			rec(d + 1)
		}
	}
	if si == 0 {
		eval(0)
	}
	for i, r := range reps {
		if maxLen < 1 {
			break
		}
		buf[0] = r
		if i%sn == si {
			eval(1)
		}
		if maxLen < 2 {
			continue
		}
		for j, r2 := range reps {
			if (i*R+j)%sn == si {
				buf[1] = r2
				rec(2)
			}
		}
	}
	ev.CaseEnum(total, nt)
	ev.LabelN("enum:"+check, total)
	flushHits()
	surveyReport(t)
}

func seqCount(r, l int) float64 {
	s, p := 0.0, 1.0
	for i := 0; i <= l; i++ {
		s += p
		p *= float64(r)
	}
	return s
}

func envLen(name string, def int) int {
	if s := os.Getenv(name); s != "" {
		if v, err := strconv.Atoi(s); err == nil && v >= 0 {
			return v
		}
	}
	return def
}

func TestEnumLine(t *testing.T) {
	enumerate(t, "enum-line", algoLine, repsBy(lineSig), envLen("C06_LINE_LEN", ev.Scale(4, 5)))
}

func TestEnumGrapheme(t *testing.T) {
	enumerate(t, "enum-grapheme", algoGrapheme, repsBy(graphemeSig), envLen("C06_GRAPHEME_LEN", ev.Scale(5, 6)))
}

func TestEnumWord(t *testing.T) {
	enumerate(t, "enum-word", algoWord, repsBy(wordSig), envLen("C06_WORD_LEN", ev.Scale(5, 6)))
}

// TestEnumJoint enumerates short sequences over the joint signature (raw line class before LB1,
// grapheme class, word class, Word property, the special runes) through all three algorithms.
func TestEnumJoint(t *testing.T) {
	reps := repsBy(jointSig)
	if si, _ := ev.Shard(); si == 0 {
		alphabetCoverage("enum-joint", reps)
	}
	enumerate(t, "enum-joint", algoAll, reps, envLen("C06_JOINT_LEN", 3))
}

// TestEnumCodePoints: value-specific paths (fast paths, range edges) show only at specific code
// points, which one representative per class never reaches. X = edgePoints() (all of U+0000..U+00FF,
// the four edges lo-1, lo, hi, hi+1 of every range of every table read by the segmenter, the
// encoding-length edges, U+10FFFF). Enumerated through all three algorithms:
//   - every pair (a, b) of U+0000..U+00FF,
//   - (x, r) and (r, x) for every x in X and every joint representative r,
//   - the triples (r, x, r'), (x, r, r'), (r, r', x) with r, r' over the representatives of each
//     algorithm (that algorithm only): completely for x <= U+00FF, and for the other x completely
//     in the thorough tier, a seed-dependent 1/12 sample in the quick tier.
func TestEnumCodePoints(t *testing.T) {
	si, sn := ev.Shard()
	X := edgePoints()
	joint := repsBy(jointSig)
	if si == 0 {
		alphabetCoverage("enum-codepoints", X)
	}
	perAlgo := []struct {
		algo int
		reps []rune
	}{{algoLine, repsBy(lineSig)}, {algoGrapheme, repsBy(graphemeSig)}, {algoWord, repsBy(wordSig)}}
	ev.Note("enum-codepoints: %d concrete code points (256 of them <= U+00FF) x %d joint representatives (pairs), x %d/%d/%d line/grapheme/word representatives (triples)",
		len(X), len(joint), len(perAlgo[0].reps), len(perAlgo[1].reps), len(perAlgo[2].reps))
	rnd := ev.NewRand(uint64(ev.Seed())*0x9E3779B97F4A7C15 + uint64(si) + 1)
	sampleDen := envLen("C06_CP_SAMPLE", ev.Scale(12, 1))
	var total, nt int64
	buf := make([]rune, 3)
	eval := func(algos int, n int) {
		total++
		if checkText(t, "enum-codepoints", algos, buf[:n]) {
			nt++
		}
	}
	for xi, x := range X {
		if xi%sn != si {
			continue
		}
		if x <= 0xFF {
			for b := rune(0); b <= 0xFF; b++ {
				buf[0], buf[1] = x, b
				eval(algoAll, 2)
			}
		}
		for _, r := range joint {
			buf[0], buf[1] = x, r
			eval(algoAll, 2)
			buf[0], buf[1] = r, x
			eval(algoAll, 2)
		}
		full := x <= 0xFF || sampleDen <= 1
		for _, pa := range perAlgo {
			for _, r1 := range pa.reps {
				for _, r2 := range pa.reps {
					if !full && rnd.Intn(sampleDen) != 0 {
						continue
					}
					buf[0], buf[1], buf[2] = r1, x, r2
					eval(pa.algo, 3)
					buf[0], buf[1], buf[2] = x, r1, r2
					eval(pa.algo, 3)
					buf[0], buf[1], buf[2] = r1, r2, x
					eval(pa.algo, 3)
				}
			}
		}
	}
	ev.CaseEnum(total, nt)
	ev.LabelN("enum:enum-codepoints", total)
	flushHits()
	surveyReport(t)
}

// ---- 6. replay ----

func TestReplay(t *testing.T) {
	var files []string
	if p := ev.ReplayPath(); p != "" {
		files = []string{p}
	} else if d := os.Getenv("VERIF_REPLAY_DIR"); d != "" {
		files, _ = filepath.Glob(filepath.Join(d, "*.json"))
		sort.Strings(files)
	}
	for _, p := range files {
		check, raw, err := ev.LoadReplay(p)
		if err != nil {
			t.Fatalf("cannot load replay %s: %v", p, err)
		}
		switch check {
		case "history":
			var hc histCase
			if err := json.Unmarshal(raw, &hc); err != nil {
				t.Fatalf("%s: %v", p, err)
			}
			checkHistory(t, hc)
			ev.Case(true, string(raw), "replay:history")
		default:
			var tc textCase
			if err := json.Unmarshal(raw, &tc); err != nil {
				t.Fatalf("%s: %v", p, err)
			}
			text := make([]rune, len(tc.Runes))
			for i, r := range tc.Runes {
				text[i] = r
			}
			nt := checkText(t, check, algoMask(tc.Algos), text)
			ev.Case(nt, string(raw), "replay:"+tc.Algos)
		}
	}
	flushHits()
}
