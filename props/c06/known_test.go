package c06

// Structural matchers of the genuine defects found on the pinned tree. Every one of them has a
// small patch in /verif/proposed_fixes (c06-*.patch); a matcher only becomes active when its id is
// listed with status "open" in known_findings.json (i.e. when the maintainers of the check decide
// to record the defect instead of repairing it). A matcher is consulted only at a position where the
// library already disagrees with the reference, excuses that single position (all other positions
// of the same text are still compared), and describes the mechanism of the defect, not the
// property.

import (
	"unicode"

	ucd "github.com/go-text/typesetting/unicodedata"

	"verif/internal/uaxref"
)

const (
	kfLB9Base      = "C06-lb30-lb9-base-rune"     // LB30/LB30b test the rune at i-1 instead of the base of X (CM|ZWJ)*
	kfLB25Look     = "C06-lb25-lookahead-cm"      // (PR|PO) × OP (CM|ZWJ)+ NU: one-rune look-ahead does not skip CM/ZWJ
	kfLB25Reopen   = "C06-lb25-nu-after-close"    // a NU right after NU..(CL|CP) does not open a new numeric sequence
	kfGB11Restart  = "C06-gb11-pict-after-pict"   // ExtPict directly after an emoji base does not start a new GB11 sequence
	kfWB7bExtend   = "C06-wb7b-dq-extend"         // HL DQ (Extend|Format|ZWJ)+ HL: raw previous rune compared with U+0022
	kfWB3cPreempts = "C06-wb3c-preempts-wb6"      // AHLetter Mid (..)* ZWJ [letter ∧ ExtPict]: WB3c branch skips the WB6/WB7b/WB12 removal
	kfWordIterAdj  = "C06-worditer-adjacent-word" // WordIterator skips a word that starts where the previous word ends
)

type exclSet struct{ ids []string }

func (e *exclSet) add(id string) {
	for _, x := range e.ids {
		if x == id {
			return
		}
	}
	e.ids = append(e.ids, id)
}

// lineContext: resolved classes and the LB9/LB10 reduction of the text.
type lineContext struct {
	c    []tbl
	red  []tbl // reduced sequence (X (CM|ZWJ)* → X, LB10 → AL)
	ridx []int // text index of each reduced element
	pos  []int // reduced index of text[i], -1 if absorbed by LB9
}

func newLineContext(text []rune) *lineContext {
	x := &lineContext{c: make([]tbl, len(text)), pos: make([]int, len(text))}
	for i, r := range text {
		x.c[i] = resolveLB1(r)
	}
	for i := range text {
		if x.c[i] == ucd.BreakCM || x.c[i] == ucd.BreakZWJ {
			if i == 0 || isIn(x.c[i-1], ucd.BreakBK, ucd.BreakCR, ucd.BreakLF, ucd.BreakNL, ucd.BreakSP, ucd.BreakZW) {
				x.pos[i] = len(x.red)
				x.red = append(x.red, ucd.BreakAL)
				x.ridx = append(x.ridx, i)
			} else {
				x.pos[i] = -1
			}
			continue
		}
		x.pos[i] = len(x.red)
		x.red = append(x.red, x.c[i])
		x.ridx = append(x.ridx, i)
	}
	return x
}

func (x *lineContext) at(k int) tbl {
	if k < 0 || k >= len(x.red) {
		return nil
	}
	return x.red[k]
}

// endsNum: the reduced sequence up to k ends with NU (NU|SY|IS)*; returns the reduced index of the
// first NU of the maximal such sequence, or -1.
func (x *lineContext) numStart(k int) int {
	j := k
	for j >= 0 && isIn(x.red[j], ucd.BreakSY, ucd.BreakIS) {
		j--
	}
	if j < 0 || x.red[j] != ucd.BreakNU {
		return -1
	}
	for j >= 0 && isIn(x.red[j], ucd.BreakNU, ucd.BreakSY, ucd.BreakIS) {
		j--
	}
	j++
	for x.red[j] != ucd.BreakNU {
		j++
	}
	return j
}

func knownLine(text []rune, i int, want, got uaxref.Brk, rule lineRule) string {
	if want != uaxref.No || got != uaxref.Allowed || i < 1 || i >= len(text) {
		return "" // all three line defects make the library allow a break that the rules forbid
	}
	x := newLineContext(text)
	k := x.pos[i]
	if k < 1 {
		return ""
	}
	base := x.ridx[k-1] // the base X of the "X (CM|ZWJ)*" that ends at i-1
	switch rule {
	case lb30b:
		// [ExtPict&Cn] (CM|ZWJ)+ × EM
		if base != i-1 && x.c[i] == ucd.BreakEM && isPicCn(text[base]) {
			return kfLB9Base
		}
	case lb30:
		// CP (CM|ZWJ)* CMwide × (AL|HL|NU): the library sees a wide previous rune
		if base != i-1 && x.red[k-1] == ucd.BreakCP && !isLEA(text[base]) && isLEA(text[i-1]) {
			return kfLB9Base
		}
	case lb25:
		// (PR|PO) × OP (CM|ZWJ)+ NU
		if isIn(x.red[k-1], ucd.BreakPR, ucd.BreakPO) && isIn(x.red[k], ucd.BreakOP, ucd.BreakHY) &&
			x.at(k+1) == ucd.BreakNU && x.ridx[k+1] > i+1 {
			return kfLB25Look
		}
		// closed numeric sequence, then NU (SY|IS|NU)* [(CL|CP)] × …  where the deciding sequence
		// starts with the NU that directly follows the closing CL/CP
		j := k - 1
		if isIn(x.red[k], ucd.BreakPR, ucd.BreakPO) && isIn(x.red[j], ucd.BreakCL, ucd.BreakCP) {
			j--
		}
		if j >= 0 {
			if s := x.numStart(j); s >= 2 && isIn(x.red[s-1], ucd.BreakCL, ucd.BreakCP) && x.numStart(s-2) >= 0 {
				return kfLB25Reopen
			}
		}
	}
	return ""
}

func knownGrapheme(text []rune, i int, want bool, rule gRule) string {
	if want || rule != gb11 || i < 3 {
		return ""
	}
	// ExtPict Extend* ExtPict Extend* ZWJ × ExtPict: the second ExtPict is seen while a sequence is
	// open, which closes it without opening the next one
	j := i - 2
	for j >= 0 && ucd.LookupGraphemeBreakClass(text[j]) == ucd.GraphemeBreakExtend {
		j--
	}
	if j < 1 || !isPic(text[j]) {
		return ""
	}
	j--
	for j >= 0 && ucd.LookupGraphemeBreakClass(text[j]) == ucd.GraphemeBreakExtend {
		j--
	}
	if j >= 0 && isPic(text[j]) {
		return kfGB11Restart
	}
	return ""
}

func knownWord(text []rune, i int, want bool, rule wRule) string {
	if want || i < 1 || i >= len(text) {
		return "" // both word defects leave a boundary that the rules remove
	}
	n := len(text)
	c := make([]tbl, n)
	for k, r := range text {
		c[k] = ucd.LookupWordBreakClass(r)
	}
	skipped := func(k int) bool { // ignored by WB4
		return k > 0 && k < n && c[k] == ucd.WordBreakExtendFormat && c[k-1] != ucd.WordBreakNewlineCRLF
	}
	next := func(k int) int {
		for k++; k < n && skipped(k); k++ {
		}
		return k
	}
	switch rule {
	case wb7b, wb7c:
		// HL × DQ (Extend|Format|ZWJ)+ × HL
		d := i
		if rule == wb7c {
			for d = i - 1; d > 0 && skipped(d); d-- {
			}
		}
		if text[d] == '"' && skipped(d+1) {
			return kfWB7bExtend
		}
	}
	switch rule {
	case wb6, wb7b, wb12:
		// X × Mid (Extend|Format)* ZWJ [Y ∧ ExtPict]: WB3c decides the position before Y and the
		// retroactive removal of the boundary before Mid is forgotten
		if y := next(i); y < n && text[y-1] == 0x200D && isPic(text[y]) {
			return kfWB3cPreempts
		}
	}
	return ""
}

// knownWordIter recognises exactly the output of the adjacency skip: after a word has been
// returned, the segment that starts at its end is never returned (whatever it starts with).
func knownWordIter(text []rune, flags []bool, want, got []segRec) string {
	if len(got) >= len(want) {
		return ""
	}
	var buggy []segRec
	start, justReturned := 0, false
	for i := 1; i <= len(text); i++ {
		if !flags[i] {
			continue
		}
		if !justReturned && unicode.Is(ucd.Word, text[start]) {
			buggy = append(buggy, segRec{Off: start, Len: i - start})
			justReturned = true
		} else {
			justReturned = false
		}
		start = i
	}
	if len(buggy) != len(got) {
		return ""
	}
	for k := range got {
		if got[k] != buggy[k] {
			return ""
		}
	}
	return kfWordIterAdj
}
