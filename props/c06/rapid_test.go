package c06

import (
	"fmt"
	"os"
	"path/filepath"
	"strings"
	"sync"
	"testing"

	"github.com/go-text/typesetting/segmenter"
	"pgregory.net/rapid"

	"verif/internal/ev"
)

// ---- 3. shape-biased random texts ----

var (
	u16   = rapid.Uint16()
	pct   = rapid.IntRange(0, 99)
	small = rapid.IntRange(0, 3)
)

func pick(t *rapid.T, p []rune) rune {
	if len(p) == 0 {
		return 'a'
	}
	return p[int(u16.Draw(t, "i"))%len(p)]
}

func pickStr(t *rapid.T, names ...string) string {
	return names[int(u16.Draw(t, "k"))%len(names)]
}

func chance(t *rapid.T, p int) bool { return pct.Draw(t, "p") < p }

// shapes are the rule-interaction patterns of DESIGN §2 C06; every shape returns a short chunk.
var shapeNames = []string{"any", "cm-chain", "spaces", "numeric", "ri", "hebrew", "midletter", "emoji", "hangul", "grapheme-misc",
	"katakana-enl", "wsegspace", "newline", "quotes-brackets", "real", "edge"}

// insPoint is a place of a generated chunk where the shape has a repeated element ("SP*",
// "(CM|ZWJ)*", "(NU|SY|IS)*", RI runs, Extend* ...): the long-structure generator inserts a long
// run of the same kind of element there.
type insPoint struct {
	at   int
	kind string // attach | CM | SP | num | RI | Extend | hangul | kat
}

// genChunk returns one chunk of the given shape. Class-based picks draw half of the time from the
// class representatives and half of the time from all concrete edge code points of that class
// (reps_test.go edgePoints). rec, when not nil, receives the repetition points of the chunk.
func genChunk(t *rapid.T, ps *poolSet, shape string, rec *[]insPoint) []rune {
	from := func(reps, wide map[string][]rune, names ...string) rune {
		n := pickStr(t, names...)
		if w := wide[n]; len(w) > 0 && chance(t, 50) {
			return pick(t, w)
		}
		return pick(t, reps[n])
	}
	L := func(names ...string) rune { return from(ps.line, ps.lineX, names...) }
	G := func(names ...string) rune { return from(ps.gr, ps.grX, names...) }
	W := func(names ...string) rune { return from(ps.wd, ps.wdX, names...) }
	anyRune := func() rune {
		if chance(t, 30) {
			return pick(t, ps.edge)
		}
		return pick(t, ps.all)
	}
	var out []rune
	add := func(rs ...rune) { out = append(out, rs...) }
	mark := func(kind string) {
		if rec != nil {
			*rec = append(*rec, insPoint{len(out), kind})
		}
	}
	// attach: (CM | Extend | Format | ZWJ)* after a base
	attach := func(p int) {
		mark("attach")
		for chance(t, p) && len(out) < 80 {
			switch small.Draw(t, "att") {
			case 0:
				add(L("CM"))
			case 1:
				add(0x200D)
			case 2:
				add(G("Extend"))
			default:
				add(pick(t, ps.extFmt))
			}
		}
	}
	switch shape {
	case "any":
		for k := 1 + small.Draw(t, "n"); k > 0; k-- {
			add(anyRune())
		}
	case "cm-chain": // X CM* ZWJ? Y
		add(anyRune())
		mark("CM")
		for k := small.Draw(t, "n"); k > 0; k-- {
			add(L("CM"))
		}
		if chance(t, 60) {
			add(0x200D)
		}
		if chance(t, 70) {
			add(anyRune())
		}
	case "spaces": // X SP* Y with the class pairs of LB8, LB14-LB17
		switch rapid.IntRange(0, 6).Draw(t, "sp") {
		case 0:
			add(L("OP", "OP+ea"))
		case 1:
			add(L("QU"))
		case 2:
			add(L("CL", "CP", "CP+ea"))
		case 3:
			add(L("B2"))
		case 4:
			add(L("ZW"))
		default:
			add(L("AL", "SP", "CM", "ZWJ", "BA", "HY", "GL"))
		}
		attach(25)
		mark("SP")
		for k := small.Draw(t, "n"); k > 0; k-- {
			add(L("SP"))
		}
		add(L("OP", "NS", "B2", "AL", "CM", "ZWJ", "GL", "QU", "CL", "ID", "B2", "NS"))
	case "numeric": // (PR|PO)? (OP|HY)? NU (NU|SY|IS)* (CL|CP)? (PR|PO)? ...
		if chance(t, 50) {
			add(L("PR", "PO"))
			attach(25)
		}
		if chance(t, 50) {
			add(L("OP", "HY", "OP+ea"))
			attach(25)
		}
		add(L("NU"))
		attach(20)
		mark("num")
		for k := small.Draw(t, "n"); k > 0; k-- {
			add(L("NU", "SY", "IS"))
			attach(15)
		}
		if chance(t, 60) {
			add(L("CL", "CP", "CP+ea"))
			attach(20)
		}
		if chance(t, 60) {
			add(L("PR", "PO", "NU", "CL", "CP"))
			attach(15)
		}
		if chance(t, 40) {
			add(L("NU", "PR", "PO", "AL", "CL", "CP", "SY", "IS"))
		}
	case "ri": // RI pairs split by Extend / ZWJ / Format
		mark("RI")
		for k := 1 + small.Draw(t, "n") + small.Draw(t, "m"); k > 0; k-- {
			add(L("RI"))
			attach(30)
		}
	case "hebrew":
		add(W("HebrewLetter"))
		attach(30)
		switch small.Draw(t, "h") {
		case 0:
			add(L("HY", "BA"))
			attach(25)
			add(anyRune())
		case 1:
			add('"')
			attach(30)
			add(W("HebrewLetter", "ALetter"))
		case 2:
			add(W("SQ", "MidLetter", "MidNumLet"))
			attach(30)
			if chance(t, 60) {
				add(W("HebrewLetter", "ALetter"))
			}
		default:
			add(L("SY"))
			add(W("HebrewLetter"))
		}
	case "midletter": // AL (ML|MNL|SQ) AL ; NU (MN|MNL|SQ) NU, with ExtendFormat sprinkled
		add(W("ALetter", "HebrewLetter", "Numeric"))
		attach(30)
		add(W("MidLetter", "MidNumLet", "SQ", "MidNum", "DQ"))
		attach(30)
		add(W("ALetter", "HebrewLetter", "Numeric"))
		if chance(t, 30) {
			add(W("MidLetter", "MidNumLet", "SQ", "MidNum"))
			add(W("ALetter", "Numeric"))
		}
	case "emoji": // ExtPict (Extend* ZWJ ExtPict)* ; EB EM ; [ExtPict&Cn] CM* EM
		switch small.Draw(t, "e") {
		case 0:
			add(L("EB", "ID+PicCn", "ID", "AL"))
			attach(30)
			add(L("EM"))
		default:
			add(pick(t, ps.pic))
			for k := small.Draw(t, "n"); k > 0; k-- {
				mark("Extend")
				for chance(t, 30) {
					add(G("Extend"))
				}
				if chance(t, 85) {
					add(0x200D)
				}
				if chance(t, 85) {
					add(pick(t, ps.pic))
				} else {
					add(anyRune())
				}
			}
			if chance(t, 30) {
				add(L("EM"))
			}
		}
	case "hangul":
		mark("hangul")
		for k := 2 + small.Draw(t, "n"); k > 0; k-- {
			add(G("L", "V", "T", "LV", "LVT"))
		}
		if chance(t, 30) {
			add(L("PO", "PR"))
		}
	case "grapheme-misc":
		switch small.Draw(t, "g") {
		case 0:
			add(G("Prepend"))
			add(anyRune())
		case 1:
			add(anyRune())
			add(G("SpacingMark"))
		case 2:
			add(G("Control", "CR", "LF"))
			add(G("Extend", "SpacingMark", "ZWJ", "Control", "LF"))
		default:
			add(G("Prepend"))
			add(G("Control", "CR", "Extend", "Prepend"))
		}
	case "katakana-enl":
		mark("kat")
		for k := 2 + small.Draw(t, "n"); k > 0; k-- {
			add(W("Katakana", "ExtendNumLet", "ALetter", "Numeric", "HebrewLetter"))
			attach(20)
		}
	case "wsegspace":
		add(W("WSegSpace"))
		attach(30)
		add(W("WSegSpace"))
	case "newline":
		add(L("CR", "LF", "NL", "BK"))
		if chance(t, 50) {
			add(L("LF", "CR", "CM", "ZWJ", "SP"))
		}
		attach(30)
	case "quotes-brackets":
		add(L("QU", "OP", "CL", "CP", "GL", "WJ", "BB", "CB", "IN", "EX", "NS", "IS", "SY", "BA", "HY", "B2"))
		attach(20)
		add(L("QU", "OP", "CL", "CP", "GL", "WJ", "BB", "CB", "IN", "EX", "NS", "AL", "HL", "NU", "ID", "SP"))
	case "real":
		s := realTexts()
		txt := s[int(u16.Draw(t, "s"))%len(s)]
		if len(txt) > 0 {
			a := int(u16.Draw(t, "a")) % len(txt)
			b := a + 2 + int(u16.Draw(t, "l"))%12
			if b > len(txt) {
				b = len(txt)
			}
			add(txt[a:b]...)
		}
	case "edge": // concrete edge code points (value-specific paths), not class representatives
		for k := 1 + small.Draw(t, "n"); k > 0; k-- {
			add(pick(t, ps.edge))
		}
	}
	return out
}

// genText builds a text of at most maxLen runes from chunks; labels receives the shapes used.
func genText(t *rapid.T, maxLen int, labels map[string]bool) []rune {
	ps := pools()
	target := rapid.IntRange(0, maxLen).Draw(t, "len")
	var out []rune
	for len(out) < target {
		shape := pickStr(t, shapeNames...)
		if labels != nil {
			labels[shape] = true
		}
		out = append(out, genChunk(t, ps, shape, nil)...)
	}
	if len(out) > maxLen {
		out = out[:maxLen]
	}
	return out
}

func TestPropRandom(t *testing.T) {
	defer flushHits()
	if si, _ := ev.Shard(); si == 0 {
		ps := pools()
		alphabetCoverage("rapid-pools", append(append([]rune(nil), ps.all...), ps.edge...))
	}
	rapid.Check(t, func(rt *rapid.T) {
		shapes := map[string]bool{}
		text := genText(rt, 64, shapes)
		nt := checkText(rt, "random", algoAll, text)
		labels := make([]string, 0, len(shapes)+1)
		for s := range shapes {
			labels = append(labels, "shape:"+s)
		}
		labels = append(labels, fmt.Sprintf("len:%02d-%02d", len(text)/16*16, len(text)/16*16+15))
		ev.Case(nt, string(text), labels...)
		if nt && ev.WantSample() {
			ev.Sample(mkCase(algoAll, text))
		}
	})
	surveyReport(t)
}

// ---- long structures (internal bounds / counters show only beyond a length) ----

var exactRunLens = []int{29, 30, 31, 32, 33, 63, 64, 65, 127, 128, 129, 255, 256, 257}

// shapes that contain repetition points, weighted towards the numeric / SP* / RI contexts
var longShapes = []string{"numeric", "numeric", "numeric", "spaces", "spaces", "ri", "ri", "emoji", "emoji", "cm-chain", "hebrew", "midletter",
	"wsegspace", "katakana-enl", "hangul", "quotes-brackets", "newline", "any"}

func repeatRune(r rune, k int) []rune {
	out := make([]rune, k)
	for i := range out {
		out[i] = r
	}
	return out
}

// longRun builds a run of k elements of the kind that repeats at an insertion point.
func longRun(t *rapid.T, ps *poolSet, kind string, k int) (run []rune, label string) {
	mixed := func(pools ...[]rune) []rune {
		out := make([]rune, k)
		for i := range out {
			out[i] = pick(t, pools[int(u16.Draw(t, "mix"))%len(pools)])
		}
		return out
	}
	zwj := []rune{0x200D}
	switch kind {
	case "attach":
		switch rapid.IntRange(0, 5).Draw(t, "attachkind") {
		case 0:
			return repeatRune(pick(t, ps.lineX["CM"]), k), "CM^k"
		case 1:
			return repeatRune(0x200D, k), "ZWJ^k"
		case 2:
			return repeatRune(pick(t, ps.grX["Extend"]), k), "Extend^k"
		case 3:
			return repeatRune(pick(t, ps.wdX["ExtFmt"]), k), "ExtFmt^k"
		case 4:
			return mixed(ps.line["CM"], zwj), "(CM|ZWJ)^k"
		default:
			return mixed(ps.line["CM"], zwj, ps.gr["Extend"], ps.extFmt), "(CM|ZWJ|Extend|Format)^k"
		}
	case "CM":
		return mixed(ps.lineX["CM"]), "CM^k"
	case "SP":
		return repeatRune(pick(t, ps.lineX["SP"]), k), "SP^k"
	case "num":
		if chance(t, 50) {
			return repeatRune(pick(t, ps.lineX["NU"]), k), "NU^k"
		}
		return mixed(ps.line["NU"], ps.line["NU"], ps.line["SY"], ps.line["IS"]), "(NU|SY|IS)^k"
	case "RI":
		if chance(t, 60) {
			return mixed(ps.lineX["RI"]), "RI^k"
		}
		out := make([]rune, 0, k)
		for len(out) < k {
			out = append(out, pick(t, ps.line["RI"]))
			if len(out) < k {
				out = append(out, pick(t, ps.gr["Extend"]))
			}
		}
		return out, "(RI Extend)^k"
	case "Extend":
		return repeatRune(pick(t, ps.grX["Extend"]), k), "Extend^k"
	case "hangul":
		return repeatRune(pick(t, ps.gr[pickStr(t, "L", "V", "T")]), k), "jamo^k"
	case "kat":
		return repeatRune(pick(t, ps.wd[pickStr(t, "Katakana", "ExtendNumLet", "ALetter", "Numeric")]), k), "wordchar^k"
	}
	// generic: any position of any shape
	switch rapid.IntRange(0, 3).Draw(t, "generic") {
	case 0:
		return repeatRune(pick(t, ps.line["ZW"]), k), "ZW^k"
	case 1:
		return repeatRune(pick(t, ps.line["SP"]), k), "SP^k(anywhere)"
	case 2:
		return repeatRune(pick(t, ps.line["NU"]), k), "NU^k(anywhere)"
	}
	return repeatRune(pick(t, ps.all), k), "rep^k(anywhere)"
}

// genLongText: a few ordinary chunks around one or two chunks in which one repetition point of the
// shape (or, sometimes, an arbitrary position) receives a long run.
func genLongText(t *rapid.T, labels map[string]bool) []rune {
	ps := pools()
	var out []rune
	ordinary := func() {
		for n := rapid.IntRange(0, 2).Draw(t, "ordinary"); n > 0; n-- {
			out = append(out, genChunk(t, ps, pickStr(t, shapeNames...), nil)...)
		}
	}
	ordinary()
	nLong := 1
	if chance(t, 30) {
		nLong = 2
	}
	for i := 0; i < nLong; i++ {
		k := rapid.IntRange(1, 100).Draw(t, "runlen")
		if nLong == 1 && chance(t, 50) {
			k = exactRunLens[rapid.IntRange(0, len(exactRunLens)-1).Draw(t, "exact")]
		}
		shape := pickStr(t, longShapes...)
		var pts []insPoint
		chunk := genChunk(t, ps, shape, &pts)
		pt := insPoint{at: rapid.IntRange(0, len(chunk)).Draw(t, "at"), kind: "generic"}
		if len(pts) > 0 && chance(t, 85) {
			pt = pts[rapid.IntRange(0, len(pts)-1).Draw(t, "point")]
		}
		run, label := longRun(t, ps, pt.kind, k)
		labels["long:"+shape+":"+label] = true
		switch {
		case k < 29:
			labels["runlen:<29"] = true
		case k <= 33:
			labels["runlen:29-33"] = true
		case k < 63:
			labels["runlen:34-62"] = true
		case k <= 65:
			labels["runlen:63-65"] = true
		case k <= 100:
			labels["runlen:66-100"] = true
		case k <= 129:
			labels["runlen:127-129"] = true
		default:
			labels["runlen:255-257"] = true
		}
		out = append(out, chunk[:pt.at]...)
		out = append(out, run...)
		out = append(out, chunk[pt.at:]...)
		ordinary()
	}
	return out
}

func TestPropLong(t *testing.T) {
	defer flushHits()
	rapid.Check(t, func(rt *rapid.T) {
		lab := map[string]bool{}
		text := genLongText(rt, lab)
		nt := checkText(rt, "long", algoAll, text)
		labels := make([]string, 0, len(lab)+1)
		for s := range lab {
			labels = append(labels, s)
		}
		labels = append(labels, fmt.Sprintf("longlen:%03d-%03d", len(text)/100*100, len(text)/100*100+99))
		ev.Case(nt, string(text), labels...)
	})
	surveyReport(t)
}

// ---- real text ----

var embeddedTexts = []string{
	"The quick (\"brown\") fox can't jump 32.3 feet, right? Prices: $1,234.56 + 12% (≈ 3/4) — e.g. http://example.com/a-b_c?d=1&e=2.",
	"L'élève m'a dit : « Qu'est-ce que c'est ? » — 1 234,56 € ; 50 %… n° 12 ; aujourd'hui, c.-à-d. l’été.",
	"שלום עולם, צה\"ל ומנכ\"ל אמרו: \"ב-5/3/2024 ה־15%\" כדי 'לבדוק' פרופ' א׳ ב״ג.",
	"و سأعرض مثال حي لهذا، من منا لم يتحمل جهد بدني شاق ١٢٣٫٤٥٪ إلا من أجل الحصول على ميزة أو فائدة؟",
	"ภาษาไทยไม่มีการเว้นวรรคระหว่างคำ ๑๒๓ บาท กำลังทดสอบการตัดคำ ก็ได้ น้ำใจ",
	"日本語のテキスト。「こんにちは」と言った、カタカナ・ひらがな。ｶﾀｶﾅ １２３円（税込）ー々ゃっ！？",
	"한국어 텍스트 (예: 100원) 각 ᄀ",
	"हिन्दी में पाठ — क्षत्रिय, श्री १२३ रुपये। कि की कृ",
	"Emoji: 👨‍👩‍👧‍👦 👍🏽 🇫🇷🇩🇪🇺 ❤️‍🔥 #️⃣ 1️⃣ ☺︎ 🏴󠁧󠁢󠁥󠁮󠁧󠁿 🤦🏼‍♂️",
	"áẹ̈ o‍b x­y z⁠w ​zero​ width nbsp nnbsp‑nb-hyphen — em—dash",
	"line1\r\nline2\nline3\rline4\u0085line5 line6 line7\vline8\f",
	"foo_bar baz3_4 1.5e-3 can't ''' a:b a.b 1,2 1;2 snake_case_ident __init__ x² ½",
	"tab\there  two  spaces   three　ideographic thin  ogham",
	"(a) [b] {c} ⟨d⟩ «e» “f” ‘g’ \"h\" 'i' —j— …k… ¡l! ¿m?",
	"Ελληνικά κείμενο, русский текст, ქართული, հայերեն, አማርኛ፣ ᏣᎳᎩ, မြန်မာ, ខ្មែរ, ລາວ, བོད་སྐད།",
}

var (
	realOnce sync.Once
	realList [][]rune
)

// realTexts: the embedded samples plus, as the repo's own benchmark does, the lines of the
// line-break conformance file taken as literal text (digits, '÷', '×', '#', brackets, names).
func realTexts() [][]rune {
	realOnce.Do(func() {
		for _, s := range embeddedTexts {
			realList = append(realList, []rune(s))
		}
		if b, err := os.ReadFile(filepath.Join(repoDir(), "segmenter", "test", "LineBreakTest.txt")); err == nil {
			lines := strings.Split(string(b), "\n")
			for i := 0; i < len(lines); i += 97 { // a fixed spread of ~80 lines
				if r := []rune(lines[i]); len(r) > 10 {
					realList = append(realList, r)
				}
			}
		}
	})
	return realList
}

func TestPropRealText(t *testing.T) {
	defer flushHits()
	rapid.Check(t, func(rt *rapid.T) {
		ps := pools()
		s := realTexts()
		k := rapid.IntRange(0, len(s)-1).Draw(rt, "sample")
		src := s[k]
		a := rapid.IntRange(0, len(src)-1).Draw(rt, "from")
		l := rapid.IntRange(1, 160).Draw(rt, "len")
		if a+l > len(src) {
			l = len(src) - a
		}
		text := append([]rune(nil), src[a:a+l]...)
		// a few foreign runes spliced in (real text next to hostile classes)
		for m := rapid.IntRange(0, 3).Draw(rt, "splices"); m > 0; m-- {
			p := rapid.IntRange(0, len(text)).Draw(rt, "at")
			x := pick(rt, ps.all)
			if chance(rt, 50) {
				x = pick(rt, ps.edge)
			}
			text = append(text[:p], append([]rune{x}, text[p:]...)...)
		}
		nt := checkText(rt, "realtext", algoAll, text)
		label := "real:embedded"
		if k >= len(embeddedTexts) {
			label = "real:conformance-file-line"
		}
		ev.Case(nt, string(text), label)
	})
	surveyReport(t)
}

// ---- 4. history independence ----

type histOp struct {
	// init  : Init with a freshly allocated copy of Texts[Arg]
	// inita : Init with the sub-slice Arena[Arg:N] of the one shared backing array
	// write : the caller overwrites Arena[Arg:Arg+len(Data)] in place
	// line | grapheme | word : create an iterator ; step : N Next calls on live iterator Arg (modulo)
	Op   string  `json:"op"`
	Arg  int     `json:"arg"`
	N    int     `json:"n"`
	Data []int32 `json:"data,omitempty"`
}

type histCase struct {
	Texts [][]int32 `json:"texts"`
	Arena []int32   `json:"arena,omitempty"` // initial content of the shared backing array
	Ops   []histOp  `json:"ops"`
}

type outRec struct {
	Off  int
	Text string
	Mand bool
}

type liveIter struct {
	kind string
	next func() (outRec, bool)
	got  []outRec
	done bool
}

func freshOutputs(text []rune) (lines, graphemes, words []outRec, flags []bool) {
	var seg segmenter.Segmenter
	seg.Init(text)
	for it := seg.LineIterator(); it.Next(); {
		l := it.Line()
		lines = append(lines, outRec{l.Offset, string(l.Text), l.IsMandatoryBreak})
	}
	for it := seg.GraphemeIterator(); it.Next(); {
		g := it.Grapheme()
		graphemes = append(graphemes, outRec{g.Offset, string(g.Text), false})
	}
	for it := seg.WordIterator(); it.Next(); {
		w := it.Word()
		words = append(words, outRec{w.Offset, string(w.Text), false})
	}
	return lines, graphemes, words, seg.VerifWordBoundaries()
}

// checkHistory runs the operations on ONE Segmenter and requires every iterator to produce exactly
// what the same kind of iterator produces on a fresh Segmenter initialised with a copy of the
// content the paragraph had when Init was called. Besides freshly allocated paragraphs, the
// caller (this test) keeps one backing array: it passes sub-slices of it to Init (the same slice
// again, the same slice after an in-place edit, overlapping slices of other lengths) and edits it
// in place between calls, as a text editor re-segmenting its buffer would.
//
// What is NOT demanded: nothing is said about iterators once their paragraph has been edited by
// the caller (whether Init copies its input is not documented): before an edit that touches the
// current paragraph all live iterators are drained and compared, and no iterator is created until
// the next Init. Returned Text slices are compared by value at the time of the call.
func checkHistory(t ev.TB, hc histCase) {
	// failures are recorded and raised outside the recover()-guarded region (rapid's Fatalf panics)
	failMsg := ""
	fail := func(format string, args ...any) {
		if failMsg == "" {
			failMsg = fmt.Sprintf(format, args...)
		}
	}
	toRunes := func(x []int32) []rune {
		out := make([]rune, len(x))
		for j, r := range x {
			out[j] = r
		}
		return out
	}
	texts := make([][]rune, len(hc.Texts))
	for i, x := range hc.Texts {
		texts[i] = toRunes(x)
	}
	arena := toRunes(hc.Arena)
	var (
		seg      segmenter.Segmenter
		live     []*liveIter
		have     bool   // an Init happened
		stale    bool   // the caller edited the current paragraph after Init
		curText  []rune // copy of the paragraph content at Init time
		curDesc  string
		curLo    = -1 // the current paragraph is arena[curLo:curHi] (-1: a fresh slice)
		curHi    = -1
		wantL    []outRec
		wantG    []outRec
		wantW    []outRec
		panicked any
	)
	step := func(it *liveIter, n int) {
		limit := len(curText) + 2
		for ; n != 0 && !it.done; n-- {
			r, ok := it.next()
			if !ok {
				it.done = true
				break
			}
			it.got = append(it.got, r)
			if len(it.got) > limit {
				it.done = true
			}
		}
	}
	equal := func(a, b []outRec) bool {
		if len(a) != len(b) {
			return false
		}
		for i := range a {
			if a[i] != b[i] {
				return false
			}
		}
		return true
	}
	drain := func(opIndex int) bool {
		for k, it := range live {
			step(it, -1)
			want := wantL
			switch it.kind {
			case "grapheme":
				want = wantG
			case "word":
				want = wantW
			}
			if !equal(it.got, want) {
				fail("before op %d: %s iterator #%d on the reused Segmenter (%s, %d runes) yields %v, a fresh Segmenter on the same content yields %v",
					opIndex, it.kind, k, curDesc, len(curText), it.got, want)
				return false
			}
		}
		live = live[:0]
		return true
	}
	// doInit: paragraph is what the caller passes; its content is snapshotted first
	doInit := func(oi int, paragraph []rune, desc string) bool {
		if have && !drain(oi) {
			return false
		}
		have, stale, curDesc = true, false, desc
		curText = append([]rune(nil), paragraph...)
		seg.Init(paragraph)
		var flags []bool
		wantL, wantG, wantW, flags = freshOutputs(curText)
		got := seg.VerifWordBoundaries()
		if len(got) != len(flags) {
			fail("op %d (%s): reused Segmenter holds %d word flags, a fresh one %d", oi, desc, len(got), len(flags))
			return false
		}
		for i := range got {
			if got[i] != flags[i] {
				fail("op %d (%s): word boundary flag %d differs between the reused (%v) and a fresh Segmenter (%v)", oi, desc, i, got[i], flags[i])
				return false
			}
		}
		return true
	}
	run := func() {
		defer func() {
			if r := recover(); r != nil {
				panicked = r
			}
		}()
		for oi, op := range hc.Ops {
			switch op.Op {
			case "init":
				if op.Arg < 0 || op.Arg >= len(texts) {
					continue
				}
				curLo, curHi = -1, -1
				// a freshly allocated slice for every call
				if !doInit(oi, append([]rune(nil), texts[op.Arg]...), fmt.Sprintf("fresh text %d", op.Arg)) {
					return
				}
			case "inita":
				lo, hi := op.Arg, op.N
				if lo < 0 || hi > len(arena) || lo > hi {
					continue
				}
				curLo, curHi = lo, hi
				if !doInit(oi, arena[lo:hi], fmt.Sprintf("arena[%d:%d]", lo, hi)) {
					return
				}
			case "write":
				lo, hi := op.Arg, op.Arg+len(op.Data)
				if lo < 0 || hi > len(arena) {
					continue
				}
				if have && curLo >= 0 && lo < curHi && hi > curLo { // touches the current paragraph
					if !drain(oi) {
						return
					}
					stale = true
				}
				for j, r := range op.Data {
					arena[lo+j] = r
				}
			case "line":
				if !have || stale {
					continue
				}
				it := seg.LineIterator()
				live = append(live, &liveIter{kind: "line", next: func() (outRec, bool) {
					if !it.Next() {
						return outRec{}, false
					}
					l := it.Line()
					return outRec{l.Offset, string(l.Text), l.IsMandatoryBreak}, true
				}})
			case "grapheme":
				if !have || stale {
					continue
				}
				it := seg.GraphemeIterator()
				live = append(live, &liveIter{kind: "grapheme", next: func() (outRec, bool) {
					if !it.Next() {
						return outRec{}, false
					}
					g := it.Grapheme()
					return outRec{g.Offset, string(g.Text), false}, true
				}})
			case "word":
				if !have || stale {
					continue
				}
				it := seg.WordIterator()
				live = append(live, &liveIter{kind: "word", next: func() (outRec, bool) {
					if !it.Next() {
						return outRec{}, false
					}
					w := it.Word()
					return outRec{w.Offset, string(w.Text), false}, true
				}})
			case "step":
				if len(live) == 0 || op.N <= 0 {
					continue
				}
				step(live[((op.Arg%len(live))+len(live))%len(live)], op.N)
			}
		}
		if have {
			drain(len(hc.Ops))
		}
	}
	run()
	if failMsg == "" && panicked != nil {
		failMsg = fmt.Sprintf("panic while reusing the Segmenter: %v", panicked)
	}
	if failMsg != "" {
		ev.Fail(t, "history", hc, "%s", failMsg)
	}
}

var histLens = []int{0, 1, 2, 3, 5, 9, 17, 33, 64, 150}

func toInt32(text []rune) []int32 {
	rs := make([]int32, len(text))
	for j, r := range text {
		rs[j] = r
	}
	return rs
}

// genExact generates exactly n runes.
func genExact(t *rapid.T, n int) []rune {
	out := make([]rune, 0, n)
	for tries := 0; len(out) < n && tries < 8; tries++ {
		out = append(out, genText(t, n-len(out), nil)...)
	}
	for len(out) < n {
		out = append(out, pick(t, pools().all))
	}
	return out[:n]
}

func TestPropHistory(t *testing.T) {
	rapid.Check(t, func(rt *rapid.T) {
		var hc histCase
		kinds := map[string]bool{}
		grow, shrink := false, false
		prevLen := -1
		note := func(n int) {
			if prevLen >= 0 && n > prevLen {
				grow = true
			}
			if prevLen >= 0 && n < prevLen {
				shrink = true
			}
			prevLen = n
		}
		// the caller's reusable buffer
		arenaLen := histLens[rapid.IntRange(2, len(histLens)-1).Draw(rt, "arenaclass")]
		arena := genExact(rt, arenaLen)
		hc.Arena = toInt32(arena)
		lastLo, lastHi := -1, -1
		inita := func(lo, hi int, label string) {
			hc.Ops = append(hc.Ops, histOp{Op: "inita", Arg: lo, N: hi})
			lastLo, lastHi = lo, hi
			kinds[label] = true
			note(hi - lo)
		}
		write := func(lo int, data []rune, label string) {
			if len(data) == 0 {
				return
			}
			hc.Ops = append(hc.Ops, histOp{Op: "write", Arg: lo, Data: toInt32(data)})
			kinds[label] = true
		}
		randomSlice := func() (int, int) {
			lo := rapid.IntRange(0, arenaLen).Draw(rt, "lo")
			hi := rapid.IntRange(lo, arenaLen).Draw(rt, "hi")
			return lo, hi
		}
		iterOps := func() {
			for m := rapid.IntRange(0, 7).Draw(rt, "nops"); m > 0; m-- {
				switch k := rapid.IntRange(0, 6).Draw(rt, "op"); k {
				case 0:
					hc.Ops = append(hc.Ops, histOp{Op: "line"})
					kinds["line"] = true
				case 1:
					hc.Ops = append(hc.Ops, histOp{Op: "grapheme"})
					kinds["grapheme"] = true
				case 2:
					hc.Ops = append(hc.Ops, histOp{Op: "word"})
					kinds["word"] = true
				case 3:
					// the caller edits its buffer somewhere while iterators may be live (an edit that
					// touches the current paragraph ends the use of its iterators, see checkHistory)
					lo := rapid.IntRange(0, arenaLen-1).Draw(rt, "wlo")
					n := rapid.IntRange(1, 4).Draw(rt, "wn")
					if lo+n > arenaLen {
						n = arenaLen - lo
					}
					write(lo, genExact(rt, n), "arena:edit-while-iterating")
				default:
					hc.Ops = append(hc.Ops, histOp{Op: "step", Arg: rapid.IntRange(0, 5).Draw(rt, "iter"), N: rapid.IntRange(1, 4).Draw(rt, "n")})
					kinds["interleaved-steps"] = true
				}
			}
		}
		nInits := rapid.IntRange(2, 7).Draw(rt, "ninits")
		for i := 0; i < nInits; i++ {
			mode := rapid.IntRange(0, 7).Draw(rt, "mode")
			if lastLo < 0 && mode >= 3 {
				mode = 2
			}
			switch mode {
			case 0, 1: // a freshly allocated paragraph
				maxLen := histLens[rapid.IntRange(0, len(histLens)-1).Draw(rt, "lenclass")]
				text := genText(rt, maxLen, nil)
				hc.Texts = append(hc.Texts, toInt32(text))
				hc.Ops = append(hc.Ops, histOp{Op: "init", Arg: len(hc.Texts) - 1})
				kinds["fresh-slice"] = true
				note(len(text))
			case 2: // some sub-slice of the buffer
				lo, hi := randomSlice()
				inita(lo, hi, "arena:sub-slice")
			case 3: // the same slice again, unchanged
				inita(lastLo, lastHi, "arena:same-slice-unchanged")
			case 4: // the same slice after an in-place edit (same backing array, same length)
				if n := lastHi - lastLo; n > 0 {
					if chance(rt, 50) {
						write(lastLo, genExact(rt, n), "arena:rewrite-whole-slice")
					} else {
						lo := rapid.IntRange(lastLo, lastHi-1).Draw(rt, "elo")
						k := rapid.IntRange(1, 3).Draw(rt, "ek")
						if lo+k > lastHi {
							k = lastHi - lo
						}
						write(lo, genExact(rt, k), "arena:edit-inside-slice")
					}
				}
				inita(lastLo, lastHi, "arena:same-slice-after-edit")
			case 5: // same start, other length (over the same array)
				hi := rapid.IntRange(lastLo, arenaLen).Draw(rt, "hi2")
				if chance(rt, 40) && lastHi > lastLo {
					write(lastLo, genExact(rt, 1), "arena:edit-first-rune")
				}
				inita(lastLo, hi, "arena:same-start-other-length")
			case 6: // an overlapping slice of the same length, shifted
				n := lastHi - lastLo
				lo := rapid.IntRange(0, arenaLen-n).Draw(rt, "shift")
				inita(lo, lo+n, "arena:same-length-shifted")
			default: // edit the previous paragraph, then segment something else
				if n := lastHi - lastLo; n > 0 {
					write(lastLo, genExact(rt, n), "arena:edit-previous-paragraph")
				}
				lo, hi := randomSlice()
				inita(lo, hi, "arena:sub-slice")
			}
			iterOps()
		}
		checkHistory(rt, hc)
		labels := []string{}
		for k := range kinds {
			labels = append(labels, "history:"+k)
		}
		if grow {
			labels = append(labels, "history:longer-after-shorter")
		}
		if shrink {
			labels = append(labels, "history:shorter-after-longer")
		}
		// non-trivial: at least two Inits with a non-empty paragraph, at least one iterator, and
		// either the length changes or the backing array is reused
		nonEmpty, reused := 0, 0
		for _, op := range hc.Ops {
			switch op.Op {
			case "init":
				if len(hc.Texts[op.Arg]) > 0 {
					nonEmpty++
				}
			case "inita":
				if op.N > op.Arg {
					nonEmpty++
					reused++
				}
			}
		}
		nt := nonEmpty >= 2 && (grow || shrink || reused >= 2) && (kinds["line"] || kinds["grapheme"] || kinds["word"])
		ev.Case(nt, hc, labels...)
		if nt && ev.WantSample() {
			ev.Sample(hc)
		}
	})
}
