package c06

import (
	"fmt"
	"math"
	"sort"
	"sync"
	"unicode"

	ucd "github.com/go-text/typesetting/unicodedata"

	"verif/internal/ev"
)

// ---- class names (for messages, labels and signatures) ----

var lineNames = map[tbl]string{ucd.BreakBK: "BK", ucd.BreakCR: "CR", ucd.BreakLF: "LF", ucd.BreakNL: "NL", ucd.BreakSP: "SP",
	ucd.BreakNU: "NU", ucd.BreakAL: "AL", ucd.BreakIS: "IS", ucd.BreakPR: "PR", ucd.BreakPO: "PO", ucd.BreakOP: "OP", ucd.BreakCL: "CL",
	ucd.BreakCP: "CP", ucd.BreakQU: "QU", ucd.BreakHY: "HY", ucd.BreakSG: "SG", ucd.BreakGL: "GL", ucd.BreakNS: "NS", ucd.BreakEX: "EX",
	ucd.BreakSY: "SY", ucd.BreakHL: "HL", ucd.BreakID: "ID", ucd.BreakIN: "IN", ucd.BreakBA: "BA", ucd.BreakBB: "BB", ucd.BreakB2: "B2",
	ucd.BreakZW: "ZW", ucd.BreakCM: "CM", ucd.BreakEB: "EB", ucd.BreakEM: "EM", ucd.BreakWJ: "WJ", ucd.BreakZWJ: "ZWJ", ucd.BreakH2: "H2",
	ucd.BreakH3: "H3", ucd.BreakJL: "JL", ucd.BreakJV: "JV", ucd.BreakJT: "JT", ucd.BreakRI: "RI", ucd.BreakCB: "CB", ucd.BreakAI: "AI",
	ucd.BreakCJ: "CJ", ucd.BreakSA: "SA", ucd.BreakXX: "XX"}

var gNames = map[tbl]string{nil: "Other", ucd.GraphemeBreakCR: "CR", ucd.GraphemeBreakControl: "Control", ucd.GraphemeBreakExtend: "Extend",
	ucd.GraphemeBreakL: "L", ucd.GraphemeBreakLF: "LF", ucd.GraphemeBreakLV: "LV", ucd.GraphemeBreakLVT: "LVT", ucd.GraphemeBreakPrepend: "Prepend",
	ucd.GraphemeBreakRegional_Indicator: "RI", ucd.GraphemeBreakSpacingMark: "SpacingMark", ucd.GraphemeBreakT: "T", ucd.GraphemeBreakV: "V",
	ucd.GraphemeBreakZWJ: "ZWJ"}

var wNames = map[tbl]string{nil: "Other", ucd.WordBreakALetter: "ALetter", ucd.WordBreakDouble_Quote: "DQ", ucd.WordBreakExtendFormat: "ExtFmt",
	ucd.WordBreakExtendNumLet: "ExtendNumLet", ucd.WordBreakHebrew_Letter: "HebrewLetter", ucd.WordBreakKatakana: "Katakana",
	ucd.WordBreakMidLetter: "MidLetter", ucd.WordBreakMidNum: "MidNum", ucd.WordBreakMidNumLet: "MidNumLet", ucd.WordBreakNewlineCRLF: "Newline",
	ucd.WordBreakNumeric: "Numeric", ucd.WordBreakRegional_Indicator: "RI", ucd.WordBreakSingle_Quote: "SQ", ucd.WordBreakWSegSpace: "WSegSpace"}

func isPic(r rune) bool   { return unicode.Is(ucd.Extended_Pictographic, r) }
func isPicCn(r rune) bool { return isPic(r) && ucd.LookupType(r) == nil }
func isLEA(r rune) bool   { return unicode.Is(ucd.LargeEastAsian, r) }

// lineSig: what the UAX #14 rules can distinguish about a rune (resolved class after LB1, East
// Asian width for OP/CP, [ExtPict&Cn]); lineSigRaw additionally keeps the unresolved class.
func lineSig(r rune) string {
	c := resolveLB1(r)
	s := lineNames[c]
	// (East Asian width is a rule input for OP and CP only, in LB30; it is kept for CM too, so that
	// the enumeration separates "the LB9 base is wide" from "the rune just before is wide")
	if (c == ucd.BreakOP || c == ucd.BreakCP || c == ucd.BreakCM) && isLEA(r) {
		s += "+ea"
	}
	if isPicCn(r) {
		s += "+PicCn"
	}
	return s
}

func lineSigRaw(r rune) string {
	raw := ucd.LookupLineBreakClass(r)
	s := lineSig(r)
	if raw != resolveLB1(r) {
		s += "<" + rawLineName(r)
	}
	return s
}

func graphemeSig(r rune) string {
	s := gNames[ucd.LookupGraphemeBreakClass(r)]
	if isPic(r) {
		s += "+Pic"
	}
	return s
}

func wordSig(r rune) string {
	s := wNames[ucd.LookupWordBreakClass(r)]
	if isPic(r) {
		s += "+Pic"
	}
	switch r {
	case '\r':
		s += "(CR)"
	case '\n':
		s += "(LF)"
	case 0x200D:
		s += "(ZWJ)"
	}
	if unicode.Is(ucd.Word, r) {
		s += "+W"
	}
	return s
}

func jointSig(r rune) string {
	s := lineSigRaw(r) + "|" + graphemeSig(r) + "|" + wordSig(r)
	if r == 0x2029 { // the library uses U+2029 as its end-of-text sentinel
		s += "|PS"
	}
	return s
}

func describe(text []rune) []string {
	out := make([]string, len(text))
	for i, r := range text {
		out[i] = fmt.Sprintf("U+%04X %s", r, jointSig(r))
	}
	return out
}

// ---- representatives ----

var (
	candOnce sync.Once
	cands    []rune
)

// candidates returns every code point at which one of the properties read by the segmenter may
// change value (starts of table ranges and the code points right after their ends): the smallest
// rune of every signature class is among them, so scanning them is equivalent to scanning all
// 0x110000 code points (surrogates are left out: they are not valid runes of a Go string).
func candidates() []rune {
	candOnce.Do(func() {
		set := map[rune]struct{}{0: {}}
		add := func(t *unicode.RangeTable) {
			if t == nil {
				return
			}
			for _, x := range t.R16 {
				if x.Stride == 1 {
					set[rune(x.Lo)] = struct{}{}
					set[rune(x.Hi)+1] = struct{}{}
					continue
				}
				for v := rune(x.Lo); v <= rune(x.Hi); v += rune(x.Stride) {
					set[v] = struct{}{}
					set[v+1] = struct{}{}
				}
			}
			for _, x := range t.R32 {
				if x.Stride == 1 {
					set[rune(x.Lo)] = struct{}{}
					set[rune(x.Hi)+1] = struct{}{}
					continue
				}
				for v := rune(x.Lo); v <= rune(x.Hi); v += rune(x.Stride) {
					set[v] = struct{}{}
					set[v+1] = struct{}{}
				}
			}
		}
		for _, t := range ucd.VerifLineBreaks() {
			add(t)
		}
		_, gs := ucd.VerifGraphemeBreaks()
		for _, t := range gs {
			add(t)
		}
		_, ws := ucd.VerifWordBreaks()
		for _, t := range ws {
			add(t)
		}
		add(ucd.Extended_Pictographic)
		add(ucd.LargeEastAsian)
		add(ucd.Word)
		for name, t := range unicode.Categories {
			if len(name) == 2 {
				add(t)
			}
		}
		for _, r := range []rune{'\r', '\n', '"', 0x200D, 0x2029} {
			set[r] = struct{}{}
			set[r+1] = struct{}{}
		}
		for r := range set {
			if r < 0 || r > 0x10FFFF { // lone surrogates are legal []rune values (class SG, resolved by LB1)
				continue
			}
			cands = append(cands, r)
		}
		sort.Slice(cands, func(i, j int) bool { return cands[i] < cands[j] })
	})
	return cands
}

// repsBy returns the smallest rune of every signature class, in code point order.
func repsBy(sig func(rune) string) []rune {
	seen := map[string]bool{}
	var out []rune
	for _, r := range candidates() {
		k := sig(r)
		if !seen[k] {
			seen[k] = true
			out = append(out, r)
		}
	}
	return out
}

// pools: runes grouped by class name, taken from the joint representatives, for the shape-biased
// random generator.
type poolSet struct {
	all    []rune
	line   map[string][]rune // by lineSig (resolved class, "+ea", "+PicCn")
	gr     map[string][]rune // by grapheme class name
	wd     map[string][]rune // by word class name
	pic    []rune            // Extended_Pictographic
	extFmt []rune            // word ExtendFormat
	// the same groupings over all concrete edge code points (edgePoints), representative first
	edge  []rune
	lineX map[string][]rune
	grX   map[string][]rune
	wdX   map[string][]rune
}

var (
	poolOnce sync.Once
	pool     poolSet
)

func pools() *poolSet {
	poolOnce.Do(func() {
		pool.all = repsBy(jointSig)
		pool.line, pool.gr, pool.wd = map[string][]rune{}, map[string][]rune{}, map[string][]rune{}
		for _, r := range pool.all {
			pool.line[lineSig(r)] = append(pool.line[lineSig(r)], r)
			g := gNames[ucd.LookupGraphemeBreakClass(r)]
			pool.gr[g] = append(pool.gr[g], r)
			w := wNames[ucd.LookupWordBreakClass(r)]
			pool.wd[w] = append(pool.wd[w], r)
			if isPic(r) {
				pool.pic = append(pool.pic, r)
			}
		}
		pool.extFmt = pool.wd["ExtFmt"]
		pool.edge = edgePoints()
		pool.lineX, pool.grX, pool.wdX = map[string][]rune{}, map[string][]rune{}, map[string][]rune{}
		for _, m := range []struct {
			src, dst map[string][]rune
		}{{pool.line, pool.lineX}, {pool.gr, pool.grX}, {pool.wd, pool.wdX}} {
			for k, v := range m.src {
				m.dst[k] = append(m.dst[k], v...)
			}
		}
		for _, r := range pool.edge {
			pool.lineX[lineSig(r)] = append(pool.lineX[lineSig(r)], r)
			g := gNames[ucd.LookupGraphemeBreakClass(r)]
			pool.grX[g] = append(pool.grX[g], r)
			w := wNames[ucd.LookupWordBreakClass(r)]
			pool.wdX[w] = append(pool.wdX[w], r)
		}
	})
	return &pool
}

// ---- concrete code points (value-specific fast paths show only at specific code points) ----

var (
	edgeOnce sync.Once
	edges    []rune
)

// edgePoints returns every code point of U+0000..U+00FF plus, for every range [lo,hi] of every
// table the segmenter reads (line, grapheme, word classes, Extended_Pictographic, LargeEastAsian,
// Word, general categories), the code points lo-1, lo, hi, hi+1 (for strided ranges additionally
// every member and its two neighbours when the range is small), plus the UTF-8/UTF-16 length
// edges and the last code point. Surrogates are left out.
func edgePoints() []rune {
	edgeOnce.Do(func() {
		set := map[rune]struct{}{}
		for r := rune(0); r <= 0xFF; r++ {
			set[r] = struct{}{}
		}
		around := func(v rune) {
			set[v-1] = struct{}{}
			set[v] = struct{}{}
			set[v+1] = struct{}{}
		}
		addRange := func(lo, hi, stride rune, members bool) {
			set[lo-1] = struct{}{}
			set[lo] = struct{}{}
			set[hi] = struct{}{}
			set[hi+1] = struct{}{}
			if stride > 1 && members && (hi-lo)/stride <= 64 {
				for v := lo; v <= hi; v += stride {
					around(v)
				}
			}
		}
		add := func(t *unicode.RangeTable, members bool) {
			if t == nil {
				return
			}
			for _, x := range t.R16 {
				addRange(rune(x.Lo), rune(x.Hi), rune(x.Stride), members)
			}
			for _, x := range t.R32 {
				addRange(rune(x.Lo), rune(x.Hi), rune(x.Stride), members)
			}
		}
		for _, t := range ucd.VerifLineBreaks() {
			add(t, true)
		}
		_, gs := ucd.VerifGraphemeBreaks()
		for _, t := range gs {
			add(t, true)
		}
		_, ws := ucd.VerifWordBreaks()
		for _, t := range ws {
			add(t, true)
		}
		add(ucd.Extended_Pictographic, true)
		add(ucd.LargeEastAsian, true)
		add(ucd.Word, true)
		for name, t := range unicode.Categories {
			if len(name) == 2 {
				add(t, false)
			}
		}
		for _, v := range []rune{0x7F, 0x80, 0xFF, 0x100, 0x7FF, 0x800, 0xFFFF, 0x10000, 0x10FFFF, 0x2028, 0x2029, 0x200D, 0x200B} {
			around(v)
		}
		// the middle member of every break class (first and last are range edges already)
		mid := func(t *unicode.RangeTable) {
			if m := tableMembers(t); len(m) > 0 {
				set[m[len(m)/2]] = struct{}{}
			}
		}
		for _, t := range ucd.VerifLineBreaks() {
			mid(t)
		}
		for _, t := range gs {
			mid(t)
		}
		for _, t := range ws {
			mid(t)
		}
		for r := range set {
			if r < 0 || r > 0x10FFFF { // lone surrogates stay: legal []rune values, class SG
				continue
			}
			edges = append(edges, r)
		}
		// values that are not code points at all (totality: every lookup must treat them alike)
		edges = append(edges, -1, math.MinInt32, 0x110000, math.MaxInt32)
		sort.Slice(edges, func(i, j int) bool { return edges[i] < edges[j] })
	})
	return edges
}

// ---- per-class coverage of the alphabets ----

// rawLineName is the library's line break class before LB1, with SA split by the general category
// that LB1 looks at.
func rawLineName(r rune) string {
	raw := ucd.LookupLineBreakClass(r)
	if raw == ucd.BreakSA {
		switch ucd.LookupType(r) {
		case unicode.Mn:
			return "SA-Mn"
		case unicode.Mc:
			return "SA-Mc"
		}
		return "SA-other"
	}
	return lineNames[raw]
}

func tableMembers(t *unicode.RangeTable) []rune {
	var out []rune
	if t == nil {
		return nil
	}
	for _, x := range t.R16 {
		for v := rune(x.Lo); v <= rune(x.Hi); v += rune(x.Stride) {
			out = append(out, v)
		}
	}
	for _, x := range t.R32 {
		for v := rune(x.Lo); v <= rune(x.Hi); v += rune(x.Stride) {
			out = append(out, v)
		}
	}
	return out
}

// alphabetCoverage counts, for every class of the library's three tables (line classes before
// LB1 incl. SG, AI, CJ, XX = not listed, SA split into Mn / Mc / other; grapheme and word classes
// incl. "Other"), how many runes of the alphabet have it, records the counts as labels
// "alphabet:<job>:<algo>:<class>" and stops the run as an infrastructure failure if a class that
// exists in the tables has no rune in the alphabet (a generator gap must not pass silently).
func alphabetCoverage(job string, alphabet []rune) {
	need := map[string]bool{"line:XX": true, "grapheme:Other": true, "word:Other": true}
	for _, t := range ucd.VerifLineBreaks() {
		for _, r := range tableMembers(t) {
			if ucd.LookupLineBreakClass(r) == t { // first table wins in the lookup
				need["line:"+rawLineName(r)] = true
			}
		}
	}
	_, gs := ucd.VerifGraphemeBreaks()
	for _, t := range gs {
		if len(tableMembers(t)) > 0 {
			need["grapheme:"+gNames[t]] = true
		}
	}
	_, ws := ucd.VerifWordBreaks()
	for _, t := range ws {
		if len(tableMembers(t)) > 0 {
			need["word:"+wNames[t]] = true
		}
	}
	have := map[string]int64{}
	for _, r := range alphabet {
		have["line:"+rawLineName(r)]++
		have["grapheme:"+gNames[ucd.LookupGraphemeBreakClass(r)]]++
		have["word:"+wNames[ucd.LookupWordBreakClass(r)]]++
	}
	keys := make([]string, 0, len(need))
	for k := range need {
		keys = append(keys, k)
	}
	sort.Strings(keys)
	for _, k := range keys {
		if have[k] == 0 {
			infraFatal("alphabet of %s has no rune of class %s", job, k)
		}
		ev.LabelN("alphabet:"+job+":"+k, have[k])
	}
}
