package c06

// Rule-traced second implementation of UAX #14 (Unicode 14/15.0 rule set with the Example-7
// tailoring of LB13/LB25) and UAX #29 (GB1-GB13, WB1-WB16), written from the rule text in the same
// scan-based style as internal/uaxref but returning, for every position, the name of the rule that
// decided it. It is used for the evidence (per-rule hit counts, non-triviality) and as a
// cross-check of the oracle: the boundaries computed here must equal those of internal/uaxref on
// every evaluated case, otherwise the run stops as an infrastructure failure (broken oracle), not
// as a violation.

import (
	"unicode"

	ucd "github.com/go-text/typesetting/unicodedata"

	"verif/internal/uaxref"
)

type tbl = *unicode.RangeTable

func isIn(c tbl, set ...tbl) bool {
	for _, s := range set {
		if c == s {
			return true
		}
	}
	return false
}

// ---------------------------------------------------------------------------------------------
// line

type lineRule uint8

const (
	lb2 lineRule = iota
	lb3
	lb4
	lb5
	lb6
	lb7
	lb8
	lb8a
	lb9
	lb11
	lb12
	lb12a
	lb13
	lb14
	lb15
	lb16
	lb17
	lb18
	lb19
	lb20
	lb21
	lb21a
	lb21b
	lb22
	lb23
	lb23a
	lb24
	lb25
	lb26
	lb27
	lb28
	lb29
	lb30
	lb30a
	lb30b
	lb31
	nLineRules
)

var lineRuleNames = [nLineRules]string{"LB2", "LB3", "LB4", "LB5", "LB6", "LB7", "LB8", "LB8a", "LB9", "LB11", "LB12", "LB12a", "LB13",
	"LB14", "LB15", "LB16", "LB17", "LB18", "LB19", "LB20", "LB21", "LB21a", "LB21b", "LB22", "LB23", "LB23a", "LB24", "LB25",
	"LB26", "LB27", "LB28", "LB29", "LB30", "LB30a", "LB30b", "LB31"}

// resolveLB1 is rule LB1 with the default resolutions.
func resolveLB1(r rune) tbl {
	c := ucd.LookupLineBreakClass(r)
	switch c {
	case ucd.BreakAI, ucd.BreakSG, ucd.BreakXX:
		return ucd.BreakAL
	case ucd.BreakSA:
		if gc := ucd.LookupType(r); gc == unicode.Mn || gc == unicode.Mc {
			return ucd.BreakCM
		}
		return ucd.BreakAL
	case ucd.BreakCJ:
		return ucd.BreakNS
	}
	return c
}

// traceLine returns the break status and deciding rule for positions 0..len(text); lb10 counts
// how many CM/ZWJ were turned into AL by LB10.
func traceLine(text []rune) (out []uaxref.Brk, rules []lineRule, lb10 int) {
	n := len(text)
	out = make([]uaxref.Brk, n+1)
	rules = make([]lineRule, n+1)
	out[0], rules[0] = uaxref.No, lb2
	out[n], rules[n] = uaxref.Mandatory, lb3
	if n == 0 {
		return
	}
	c := make([]tbl, n)
	for i, r := range text {
		c[i] = resolveLB1(r)
	}
	// LB9 / LB10: the reduced sequence keeps one element per "X (CM|ZWJ)*" with the class of X; a
	// CM/ZWJ that has no base (start of text, or after BK CR LF NL SP ZW) is an AL (LB10).
	red := make([]tbl, 0, n)  // classes of the reduced sequence
	ridx := make([]int, 0, n) // index in text of each reduced element
	pos := make([]int, n)     // reduced index of text[i], -1 if absorbed by LB9
	for i := 0; i < n; i++ {
		if c[i] == ucd.BreakCM || c[i] == ucd.BreakZWJ {
			if i == 0 || isIn(c[i-1], ucd.BreakBK, ucd.BreakCR, ucd.BreakLF, ucd.BreakNL, ucd.BreakSP, ucd.BreakZW) {
				pos[i] = len(red)
				red = append(red, ucd.BreakAL)
				ridx = append(ridx, i)
				lb10++
			} else {
				pos[i] = -1
			}
			continue
		}
		pos[i] = len(red)
		red = append(red, c[i])
		ridx = append(ridx, i)
	}
	at := func(k int) tbl {
		if k < 0 || k >= len(red) {
			return nil
		}
		return red[k]
	}
	for i := 1; i < n; i++ {
		out[i], rules[i] = decideLine(text, c, red, ridx, pos, at, i)
	}
	return
}

func decideLine(text []rune, c, red []tbl, ridx, pos []int, at func(int) tbl, i int) (uaxref.Brk, lineRule) {
	const (
		no  = uaxref.No
		yes = uaxref.Allowed
	)
	a, b := c[i-1], c[i]
	if a == ucd.BreakBK { // LB4: BK !
		return uaxref.Mandatory, lb4
	}
	if a == ucd.BreakCR && b == ucd.BreakLF { // LB5: CR × LF
		return no, lb5
	}
	if isIn(a, ucd.BreakCR, ucd.BreakLF, ucd.BreakNL) { // LB5: CR ! LF ! NL !
		return uaxref.Mandatory, lb5
	}
	if isIn(b, ucd.BreakBK, ucd.BreakCR, ucd.BreakLF, ucd.BreakNL) { // LB6
		return no, lb6
	}
	if isIn(b, ucd.BreakSP, ucd.BreakZW) { // LB7
		return no, lb7
	}
	// LB8: ZW SP* ÷
	j := i - 1
	for j >= 0 && c[j] == ucd.BreakSP {
		j--
	}
	if j >= 0 && c[j] == ucd.BreakZW {
		return yes, lb8
	}
	if a == ucd.BreakZWJ { // LB8a: ZWJ ×
		return no, lb8a
	}
	if pos[i] < 0 { // LB9: × (CM|ZWJ) inside X (CM|ZWJ)*
		return no, lb9
	}
	k := pos[i]
	l1, l2, r0, r1 := at(k-1), at(k-2), at(k), at(k+1)
	// the class before "SP*" on the left
	s := k - 1
	for s >= 0 && red[s] == ucd.BreakSP {
		s--
	}
	bsp := at(s)

	if l1 == ucd.BreakWJ || r0 == ucd.BreakWJ { // LB11
		return no, lb11
	}
	if l1 == ucd.BreakGL { // LB12
		return no, lb12
	}
	if r0 == ucd.BreakGL && !isIn(l1, ucd.BreakSP, ucd.BreakBA, ucd.BreakHY) { // LB12a
		return no, lb12a
	}
	// LB13 as tailored by Example 7: × EX ; [^NU] × (CL|CP|IS|SY)
	if r0 == ucd.BreakEX {
		return no, lb13
	}
	if isIn(r0, ucd.BreakCL, ucd.BreakCP, ucd.BreakIS, ucd.BreakSY) && l1 != ucd.BreakNU {
		return no, lb13
	}
	if bsp == ucd.BreakOP { // LB14
		return no, lb14
	}
	if bsp == ucd.BreakQU && r0 == ucd.BreakOP { // LB15
		return no, lb15
	}
	if isIn(bsp, ucd.BreakCL, ucd.BreakCP) && r0 == ucd.BreakNS { // LB16
		return no, lb16
	}
	if bsp == ucd.BreakB2 && r0 == ucd.BreakB2 { // LB17
		return no, lb17
	}
	if l1 == ucd.BreakSP { // LB18
		return yes, lb18
	}
	if l1 == ucd.BreakQU || r0 == ucd.BreakQU { // LB19
		return no, lb19
	}
	if l1 == ucd.BreakCB || r0 == ucd.BreakCB { // LB20
		return yes, lb20
	}
	if isIn(r0, ucd.BreakBA, ucd.BreakHY, ucd.BreakNS) || l1 == ucd.BreakBB { // LB21
		return no, lb21
	}
	if l2 == ucd.BreakHL && isIn(l1, ucd.BreakHY, ucd.BreakBA) { // LB21a
		return no, lb21a
	}
	if l1 == ucd.BreakSY && r0 == ucd.BreakHL { // LB21b
		return no, lb21b
	}
	if r0 == ucd.BreakIN { // LB22
		return no, lb22
	}
	alhl := func(x tbl) bool { return x == ucd.BreakAL || x == ucd.BreakHL }
	if alhl(l1) && r0 == ucd.BreakNU || l1 == ucd.BreakNU && alhl(r0) { // LB23
		return no, lb23
	}
	if l1 == ucd.BreakPR && isIn(r0, ucd.BreakID, ucd.BreakEB, ucd.BreakEM) ||
		isIn(l1, ucd.BreakID, ucd.BreakEB, ucd.BreakEM) && r0 == ucd.BreakPO { // LB23a
		return no, lb23a
	}
	prpo := func(x tbl) bool { return x == ucd.BreakPR || x == ucd.BreakPO }
	if prpo(l1) && alhl(r0) || alhl(l1) && prpo(r0) { // LB24
		return no, lb24
	}
	// LB25, Example 7:
	//   (PR | PO) × ( OP | HY )? NU
	//   ( OP | HY ) × NU
	//   NU × (NU | SY | IS)
	//   NU (NU | SY | IS)* × (NU | SY | IS | CL | CP )
	//   NU (NU | SY | IS)* (CL | CP)? × (PO | PR)
	if prpo(l1) && (r0 == ucd.BreakNU || isIn(r0, ucd.BreakOP, ucd.BreakHY) && r1 == ucd.BreakNU) {
		return no, lb25
	}
	if isIn(l1, ucd.BreakOP, ucd.BreakHY) && r0 == ucd.BreakNU {
		return no, lb25
	}
	// endsNum(j): red[..j] ends with NU (NU|SY|IS)*
	endsNum := func(j int) bool {
		for j >= 0 && isIn(red[j], ucd.BreakSY, ucd.BreakIS) {
			j--
		}
		return j >= 0 && red[j] == ucd.BreakNU
	}
	if isIn(r0, ucd.BreakNU, ucd.BreakSY, ucd.BreakIS, ucd.BreakCL, ucd.BreakCP) && endsNum(k-1) {
		return no, lb25
	}
	if prpo(r0) {
		if endsNum(k - 1) {
			return no, lb25
		}
		if isIn(l1, ucd.BreakCL, ucd.BreakCP) && endsNum(k-2) {
			return no, lb25
		}
	}
	// LB26
	if l1 == ucd.BreakJL && isIn(r0, ucd.BreakJL, ucd.BreakJV, ucd.BreakH2, ucd.BreakH3) ||
		isIn(l1, ucd.BreakJV, ucd.BreakH2) && isIn(r0, ucd.BreakJV, ucd.BreakJT) ||
		isIn(l1, ucd.BreakJT, ucd.BreakH3) && r0 == ucd.BreakJT {
		return no, lb26
	}
	// LB27
	hangul := func(x tbl) bool { return isIn(x, ucd.BreakJL, ucd.BreakJV, ucd.BreakJT, ucd.BreakH2, ucd.BreakH3) }
	if hangul(l1) && r0 == ucd.BreakPO || l1 == ucd.BreakPR && hangul(r0) {
		return no, lb27
	}
	if alhl(l1) && alhl(r0) { // LB28
		return no, lb28
	}
	if l1 == ucd.BreakIS && alhl(r0) { // LB29
		return no, lb29
	}
	// LB30
	if (alhl(l1) || l1 == ucd.BreakNU) && r0 == ucd.BreakOP && !unicode.Is(ucd.LargeEastAsian, text[ridx[k]]) {
		return no, lb30
	}
	if l1 == ucd.BreakCP && !unicode.Is(ucd.LargeEastAsian, text[ridx[k-1]]) && (alhl(r0) || r0 == ucd.BreakNU) {
		return no, lb30
	}
	// LB30a: sot (RI RI)* RI × RI ; [^RI] (RI RI)* RI × RI
	if r0 == ucd.BreakRI {
		cnt := 0
		for j := k - 1; j >= 0 && red[j] == ucd.BreakRI; j-- {
			cnt++
		}
		if cnt%2 == 1 {
			return no, lb30a
		}
	}
	// LB30b: EB × EM ; [\p{Extended_Pictographic}&\p{Cn}] × EM
	if r0 == ucd.BreakEM {
		if l1 == ucd.BreakEB {
			return no, lb30b
		}
		if p := text[ridx[k-1]]; unicode.Is(ucd.Extended_Pictographic, p) && ucd.LookupType(p) == nil {
			return no, lb30b
		}
	}
	return yes, lb31
}

// ---------------------------------------------------------------------------------------------
// grapheme

type gRule uint8

const (
	gb1 gRule = iota
	gb2
	gb3
	gb4
	gb5
	gb6
	gb7
	gb8
	gb9
	gb9a
	gb9b
	gb11
	gb12
	gb999
	nGRules
)

var gRuleNames = [nGRules]string{"GB1", "GB2", "GB3", "GB4", "GB5", "GB6", "GB7", "GB8", "GB9", "GB9a", "GB9b", "GB11", "GB12_13", "GB999"}

func traceGrapheme(text []rune) (out []bool, rules []gRule) {
	n := len(text)
	out = make([]bool, n+1)
	rules = make([]gRule, n+1)
	out[0], rules[0] = true, gb1
	out[n], rules[n] = true, gb2
	if n == 0 {
		return
	}
	c := make([]tbl, n)
	for i, r := range text {
		c[i] = ucd.LookupGraphemeBreakClass(r)
	}
	ctl := func(x tbl) bool {
		return x == ucd.GraphemeBreakControl || x == ucd.GraphemeBreakCR || x == ucd.GraphemeBreakLF
	}
	for i := 1; i < n; i++ {
		a, b := c[i-1], c[i]
		brk, rule := true, gb999
		switch {
		case a == ucd.GraphemeBreakCR && b == ucd.GraphemeBreakLF:
			brk, rule = false, gb3
		case ctl(a):
			brk, rule = true, gb4
		case ctl(b):
			brk, rule = true, gb5
		case a == ucd.GraphemeBreakL && isIn(b, ucd.GraphemeBreakL, ucd.GraphemeBreakV, ucd.GraphemeBreakLV, ucd.GraphemeBreakLVT):
			brk, rule = false, gb6
		case isIn(a, ucd.GraphemeBreakLV, ucd.GraphemeBreakV) && isIn(b, ucd.GraphemeBreakV, ucd.GraphemeBreakT):
			brk, rule = false, gb7
		case isIn(a, ucd.GraphemeBreakLVT, ucd.GraphemeBreakT) && b == ucd.GraphemeBreakT:
			brk, rule = false, gb8
		case b == ucd.GraphemeBreakExtend || b == ucd.GraphemeBreakZWJ:
			brk, rule = false, gb9
		case b == ucd.GraphemeBreakSpacingMark:
			brk, rule = false, gb9a
		case a == ucd.GraphemeBreakPrepend:
			brk, rule = false, gb9b
		default:
			// GB11: \p{Extended_Pictographic} Extend* ZWJ × \p{Extended_Pictographic}
			if a == ucd.GraphemeBreakZWJ && unicode.Is(ucd.Extended_Pictographic, text[i]) {
				j := i - 2
				for j >= 0 && c[j] == ucd.GraphemeBreakExtend {
					j--
				}
				if j >= 0 && unicode.Is(ucd.Extended_Pictographic, text[j]) {
					brk, rule = false, gb11
					break
				}
			}
			// GB12/GB13: (sot | [^RI]) (RI RI)* RI × RI
			if a == ucd.GraphemeBreakRegional_Indicator && b == ucd.GraphemeBreakRegional_Indicator {
				cnt := 0
				for j := i - 1; j >= 0 && c[j] == ucd.GraphemeBreakRegional_Indicator; j-- {
					cnt++
				}
				if cnt%2 == 1 {
					brk, rule = false, gb12
				}
			}
		}
		out[i], rules[i] = brk, rule
	}
	return
}

// ---------------------------------------------------------------------------------------------
// word

type wRule uint8

const (
	wb1 wRule = iota
	wb2
	wb3
	wb3a
	wb3b
	wb3c
	wb3d
	wb4
	wb5
	wb6
	wb7
	wb7a
	wb7b
	wb7c
	wb8
	wb9
	wb10
	wb11
	wb12
	wb13
	wb13a
	wb13b
	wb15
	wb999
	nWRules
)

var wRuleNames = [nWRules]string{"WB1", "WB2", "WB3", "WB3a", "WB3b", "WB3c", "WB3d", "WB4", "WB5", "WB6", "WB7", "WB7a", "WB7b", "WB7c",
	"WB8", "WB9", "WB10", "WB11", "WB12", "WB13", "WB13a", "WB13b", "WB15_16", "WB999"}

// traceWord works on the library's merged classes: NewlineCRLF = CR | LF | Newline and
// ExtendFormat = Extend | Format | ZWJ.
func traceWord(text []rune) (out []bool, rules []wRule) {
	n := len(text)
	out = make([]bool, n+1)
	rules = make([]wRule, n+1)
	out[0], rules[0] = true, wb1
	out[n], rules[n] = true, wb2
	if n == 0 {
		return
	}
	c := make([]tbl, n)
	for i, r := range text {
		c[i] = ucd.LookupWordBreakClass(r)
	}
	// WB4: X (Extend | Format | ZWJ)* → X, where X is not sot/CR/LF/Newline. skip[i] tells that
	// text[i] is ignored by WB5.. because it is an ExtendFormat following some X.
	skip := make([]bool, n)
	for i := 1; i < n; i++ {
		skip[i] = c[i] == ucd.WordBreakExtendFormat && c[i-1] != ucd.WordBreakNewlineCRLF
	}
	left := func(i int) int { // nearest kept index < i, or -1
		for i--; i >= 0 && skip[i]; i-- {
		}
		return i
	}
	right := func(i int) int { // nearest kept index > i, or -1
		for i++; i < n && skip[i]; i++ {
		}
		if i >= n {
			return -1
		}
		return i
	}
	at := func(i int) tbl {
		if i < 0 {
			return nil
		}
		return c[i]
	}
	ah := func(x tbl) bool { return x == ucd.WordBreakALetter || x == ucd.WordBreakHebrew_Letter }
	midLetter := func(x tbl) bool {
		return isIn(x, ucd.WordBreakMidLetter, ucd.WordBreakMidNumLet, ucd.WordBreakSingle_Quote)
	}
	midNum := func(x tbl) bool {
		return isIn(x, ucd.WordBreakMidNum, ucd.WordBreakMidNumLet, ucd.WordBreakSingle_Quote)
	}
	for i := 1; i < n; i++ {
		a, b := c[i-1], c[i]
		brk, rule := true, wb999
		switch {
		case text[i-1] == '\r' && text[i] == '\n':
			brk, rule = false, wb3
		case a == ucd.WordBreakNewlineCRLF:
			brk, rule = true, wb3a
		case b == ucd.WordBreakNewlineCRLF:
			brk, rule = true, wb3b
		case text[i-1] == 0x200D && unicode.Is(ucd.Extended_Pictographic, text[i]):
			brk, rule = false, wb3c
		case a == ucd.WordBreakWSegSpace && b == ucd.WordBreakWSegSpace:
			brk, rule = false, wb3d
		case b == ucd.WordBreakExtendFormat:
			brk, rule = false, wb4
		default:
			p1 := left(i)
			p2 := -1
			if p1 >= 0 {
				p2 = left(p1)
			}
			A, AA, B, BB := at(p1), at(p2), b, at(right(i))
			switch {
			case ah(A) && ah(B):
				brk, rule = false, wb5
			case ah(A) && midLetter(B) && ah(BB):
				brk, rule = false, wb6
			case ah(AA) && midLetter(A) && ah(B):
				brk, rule = false, wb7
			case A == ucd.WordBreakHebrew_Letter && B == ucd.WordBreakSingle_Quote:
				brk, rule = false, wb7a
			case A == ucd.WordBreakHebrew_Letter && B == ucd.WordBreakDouble_Quote && BB == ucd.WordBreakHebrew_Letter:
				brk, rule = false, wb7b
			case AA == ucd.WordBreakHebrew_Letter && A == ucd.WordBreakDouble_Quote && B == ucd.WordBreakHebrew_Letter:
				brk, rule = false, wb7c
			case A == ucd.WordBreakNumeric && B == ucd.WordBreakNumeric:
				brk, rule = false, wb8
			case ah(A) && B == ucd.WordBreakNumeric:
				brk, rule = false, wb9
			case A == ucd.WordBreakNumeric && ah(B):
				brk, rule = false, wb10
			case AA == ucd.WordBreakNumeric && midNum(A) && B == ucd.WordBreakNumeric:
				brk, rule = false, wb11
			case A == ucd.WordBreakNumeric && midNum(B) && BB == ucd.WordBreakNumeric:
				brk, rule = false, wb12
			case A == ucd.WordBreakKatakana && B == ucd.WordBreakKatakana:
				brk, rule = false, wb13
			case (ah(A) || isIn(A, ucd.WordBreakNumeric, ucd.WordBreakKatakana, ucd.WordBreakExtendNumLet)) && B == ucd.WordBreakExtendNumLet:
				brk, rule = false, wb13a
			case A == ucd.WordBreakExtendNumLet && (ah(B) || isIn(B, ucd.WordBreakNumeric, ucd.WordBreakKatakana)):
				brk, rule = false, wb13b
			case A == ucd.WordBreakRegional_Indicator && B == ucd.WordBreakRegional_Indicator:
				// WB15/WB16: (sot | [^RI]) (RI RI)* RI × RI
				cnt := 0
				for k := p1; k >= 0 && c[k] == ucd.WordBreakRegional_Indicator; k = left(k) {
					cnt++
				}
				if cnt%2 == 1 {
					brk, rule = false, wb15
				}
			}
		}
		out[i], rules[i] = brk, rule
	}
	return
}
