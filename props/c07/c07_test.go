// Package c07 decides property C07: itemization (shaping.Segmenter.Split, SplitByFace) partitions
// the text into uniform runs.
//
// Four searches share one oracle (oracle_test.go, a validity predicate written from the property
// statement and the doc comments of shaping/input.go):
//   - TestPropSplit: rapid property, one Split call on a fresh Segmenter per case;
//   - TestPropReuse: reuse-history machine, a sequence of Split calls on one Segmenter, every
//     result validated and compared with the result of a fresh Segmenter; a previous result is
//     only looked at until the next call (the documented invalidation point);
//   - TestEnumSmall: every string of length <= 4 (thorough: <= 5) over an 8-symbol alphabet x all
//     sub-ranges x directions x two fontmaps, on one shared Segmenter;
//   - TestPropSplitByFace: the face step alone (SplitByFace), including "the Face field of the
//     input is ignored".
package c07

import (
	"encoding/json"
	"fmt"
	"os"
	"path/filepath"
	"sort"
	"strings"
	"testing"

	"github.com/go-text/typesetting/di"
	"github.com/go-text/typesetting/language"
	"github.com/go-text/typesetting/shaping"
	"golang.org/x/text/unicode/bidi"
	"pgregory.net/rapid"

	"verif/internal/ev"
)

func TestMain(m *testing.M) { ev.Main(m) }

// callSplit runs Split under recover and returns a copy of the result.
func callSplit(seg *shaping.Segmenter, in shaping.Input, fm shaping.Fontmap) (out []shaping.Input, live []shaping.Input, pan any) {
	func() {
		defer func() {
			if r := recover(); r != nil {
				pan = r
			}
		}()
		live = seg.Split(in, fm)
	}()
	out = append([]shaping.Input(nil), live...)
	return
}

// runOne performs one Split call of the case on seg (nil: a fresh one), validates it, and (when
// seg is a reused one) compares with a fresh Segmenter. It returns the verdict and the live slice.
func runOne(seg *shaping.Segmenter, c *splitCase) (v verdict, live []shaping.Input) {
	b := c.build()
	reused := seg != nil
	if seg == nil {
		seg = new(shaping.Segmenter)
	}
	_, fm := c.Fontmap.build()
	out, live, pan := callSplit(seg, b.in, fm)
	if pan != nil {
		v.failf("panic", "Split panicked: %v", pan)
		return v, nil
	}
	v = validate(c, b, out)
	if reused && v.clause == "" {
		_, fm2 := c.Fontmap.build()
		fresh, _, pan := callSplit(new(shaping.Segmenter), b.in, fm2)
		if pan != nil {
			v.failf("panic", "Split on a fresh Segmenter panicked: %v", pan)
		} else if d := sameRuns(out, fresh); d != "" {
			v.failf("history", "result of the reused Segmenter differs from a fresh one: %s", d)
		}
	}
	return v, live
}

func record(c *splitCase, v *verdict) {
	labels := v.labels
	if v.nRuns >= 2 {
		labels = append(labels, "runs>=2")
	}
	if c.RunStart > 0 && v.mixed {
		labels = append(labels, "runstart>0_mixed_direction")
	}
	if c.RunStart > 0 {
		labels = append(labels, "runstart>0")
	}
	labels = append(labels, sizeLabels(c, v)...)
	if di.Direction(c.Direction).IsVertical() {
		labels = append(labels, "vertical")
	}
	if c.Fontmap.WithScript {
		labels = append(labels, "fontmap_with_setscript")
	}
	nt := v.nontrivial(c)
	var key any
	if nt {
		key = c.key()
	}
	ev.Case(nt, key, labels...)
	for _, id := range v.excluded {
		ev.Excluded(id)
	}
}

// sizeLabels classifies the case by the sizes that internal bounds depend on: the deepest
// nesting of still-open brackets in the range, the number of output runs, of paragraphs, the length.
func sizeLabels(c *splitCase, v *verdict) (labels []string) {
	depth, maxDepth, paras := 0, 0, 0
	for i := c.RunStart; i < c.RunEnd && i < len(c.Text); i++ {
		r := c.Text[i]
		if _, ok := trueOpen[r]; ok {
			depth++
			if depth > maxDepth {
				maxDepth = depth
			}
		} else if _, ok := trueClose[r]; ok && depth > 0 {
			depth--
		} else if isClassB(r) {
			paras++
		}
	}
	for _, b := range []int{16, 32, 33, 64, 65, 128} {
		if maxDepth >= b {
			labels = append(labels, fmt.Sprintf("open_brackets>=%d", b))
		}
	}
	for _, b := range []int{20, 100, 300} {
		if v.nRuns >= b {
			labels = append(labels, fmt.Sprintf("runs>=%d", b))
		}
	}
	for _, b := range []int{10, 50} {
		if paras >= b {
			labels = append(labels, fmt.Sprintf("paragraphs>=%d", b))
		}
	}
	for _, b := range []int{100, 300} {
		if c.RunEnd-c.RunStart >= b {
			labels = append(labels, fmt.Sprintf("range_len>=%d", b))
		}
	}
	return
}

func sample(c *splitCase, v *verdict) {
	if v.nontrivial(c) && ev.WantSample() {
		ev.Sample(map[string]any{"text": fmt.Sprintf("%+q", string(c.Text)), "range": []int{c.RunStart, c.RunEnd},
			"direction": dirString(di.Direction(c.Direction)), "language": c.Language, "fontmap": c.Fontmap, "runs": v.nRuns})
	}
}

// checkSplit is the single-call property body (shared with replay).
func checkSplit(t ev.TB, c *splitCase) {
	v, _ := runOne(nil, c)
	record(c, &v)
	if v.clause != "" {
		ev.Fail(t, "split", c.decorate(), "%s: %s\ncase: %+q [%d,%d) dir=%s lang=%q fontmap=%+v", v.clause, v.msg,
			string(c.Text), c.RunStart, c.RunEnd, dirString(di.Direction(c.Direction)), c.Language, c.Fontmap)
	}
	sample(c, &v)
}

// TestPropSplit: one call on a fresh Segmenter.
func TestPropSplit(t *testing.T) {
	loadFaces()
	rapid.Check(t, func(t *rapid.T) {
		shape := 0
		if k := rapid.IntRange(0, 9).Draw(t, "shape"); k >= 8 {
			shape = k - 7
		}
		checkSplit(t, genCase(t, shape))
	})
}

// TestPropDeep: deep well-nested bracket structures (depth up to ~130, with weight on 31/32/33,
// 63/64/65, ...) with script changes between openers and closers at various depths.
func TestPropDeep(t *testing.T) {
	loadFaces()
	rapid.Check(t, func(t *rapid.T) { checkSplit(t, genCase(t, shapeDeep)) })
}

// TestPropLong: long texts (80..600 runes) with many runs, paragraphs and long neutral stretches.
func TestPropLong(t *testing.T) {
	loadFaces()
	rapid.Check(t, func(t *rapid.T) { checkSplit(t, genCase(t, shapeLong)) })
}

// checkHistory is the reuse machine body (shared with replay).
func checkHistory(t ev.TB, h *histCase) {
	seg := new(shaping.Segmenter)
	var prevLive, prevSnap []shaping.Input
	decorated := func() *histCase {
		d := &histCase{}
		for i := range h.Steps {
			d.Steps = append(d.Steps, *h.Steps[i].decorate())
		}
		return d
	}
	for i := range h.Steps {
		c := &h.Steps[i]
		// the previous result is valid until the next call: it must still read the same
		if prevLive != nil {
			if d := sameRuns(prevLive, prevSnap); d != "" {
				ev.Fail(t, "reuse", decorated(), "step %d: the previous result changed before the next call: %s", i, d)
			}
		}
		v, live := runOne(seg, c)
		record(c, &v)
		ev.Label("reuse_step")
		if v.clause != "" {
			ev.Fail(t, "reuse", decorated(), "step %d/%d: %s: %s\ncase: %+q [%d,%d) dir=%s lang=%q fontmap=%+v", i+1, len(h.Steps), v.clause, v.msg,
				string(c.Text), c.RunStart, c.RunEnd, dirString(di.Direction(c.Direction)), c.Language, c.Fontmap)
		}
		sample(c, &v)
		prevLive = live
		prevSnap = append([]shaping.Input(nil), live...)
	}
}

// TestPropReuse: a history of Split calls on one Segmenter.
func TestPropReuse(t *testing.T) {
	loadFaces()
	rapid.Check(t, func(t *rapid.T) {
		n := rapid.IntRange(2, 6).Draw(t, "steps")
		h := &histCase{}
		for i := 0; i < n; i++ {
			shape := 0
			switch k := rapid.IntRange(0, 19).Draw(t, "shape"); {
			case k == 19: // size classes: 5 % of the steps
				shape = shapeDeep
				if rapid.IntRange(0, 2).Draw(t, "sizeClass") == 0 {
					shape = shapeLong
				}
			case k >= 13:
				shape = 2
			case k >= 8:
				shape = 1
			}
			h.Steps = append(h.Steps, *genCase(t, shape))
		}
		checkHistory(t, h)
	})
}

// ---------------------------------------------------------------------------------------------
// small-scope exhaustive enumeration

// enumAlphabet: L letter, R letter, European digit, an ASCII bracket pair, space (neutral, and not
// allowed to select a font), a paragraph separator, a second left-to-right script.
var enumAlphabet = []rune{'a', 0x05D0, '1', '(', ')', ' ', 0x2029, 0x0416}

func TestEnumSmall(t *testing.T) {
	loadFaces()
	shard, nshards := ev.Shard()
	maxLen := ev.Scale(4, 5)
	var unsetTTB = di.DirectionTTB
	dirs := []di.Direction{di.DirectionLTR, di.DirectionRTL, unsetTTB}
	fms := []fmSpec{{Kind: 3, K: 1, WithScript: false}, {Kind: 1, K: 0, WithScript: true}}
	seg := new(shaping.Segmenter)
	var total, nt int64
	idx := 0
	text := make([]rune, 0, maxLen)
	var rec func(n int)
	visit := func() {
		idx++
		if idx%nshards != shard {
			return
		}
		n := len(text)
		for s := 0; s <= n; s++ {
			for e := s; e <= n; e++ {
				for _, d := range dirs {
					for fi, f := range fms {
						if !ev.Thorough() && (idx+s+e)%len(fms) != fi {
							continue // quick tier: one of the two fontmaps per (string, range), alternating
						}
						c := &splitCase{Text: text, RunStart: s, RunEnd: e, Direction: uint8(d), Language: "", Size: 640, InputFace: -1, Fontmap: f}
						v, _ := runOne(seg, c)
						total++
						if v.nontrivial(c) {
							nt++
						}
						for _, id := range v.excluded {
							ev.Excluded(id)
						}
						if v.clause != "" {
							cc := *c
							cc.Text = append([]rune(nil), text...)
							ev.Fail(t, "split", cc.decorate(), "%s: %s\ncase: %+q [%d,%d) dir=%s fontmap=%+v", v.clause, v.msg, string(text), s, e, dirString(d), f)
						}
					}
				}
			}
		}
	}
	rec = func(n int) {
		visit()
		if n == maxLen {
			return
		}
		for _, r := range enumAlphabet {
			text = append(text, r)
			rec(n + 1)
			text = text[:len(text)-1]
		}
	}
	rec(0)
	ev.CaseEnum(total, nt)
	ev.LabelN("enum_case", total)
}

// ---------------------------------------------------------------------------------------------
// size-scaling enumerators: every depth / count up to a bound, on templates whose expected
// behaviour does not depend on the size (so that any internal bound or counter shows)

func enumRun(t *testing.T, seg *shaping.Segmenter, text []rune, start, end int, d di.Direction, f fmSpec, total, nt *int64) {
	c := &splitCase{Text: text, RunStart: start, RunEnd: end, Direction: uint8(d), Language: "", Size: 640, InputFace: -1, Fontmap: f}
	v, _ := runOne(seg, c)
	*total++
	if v.nontrivial(c) {
		*nt++
	}
	for _, id := range v.excluded {
		ev.Excluded(id)
	}
	for _, l := range sizeLabels(c, &v) {
		ev.Label(l)
	}
	if v.clause != "" {
		ev.Fail(t, "split", c.decorate(), "%s: %s\ncase: %+q [%d,%d) dir=%s fontmap=%+v", v.clause, v.msg, string(text), start, end, dirString(d), f)
	}
}

func rep(n int, rs ...rune) []rune {
	out := make([]rune, 0, n*len(rs))
	for i := 0; i < n; i++ {
		out = append(out, rs...)
	}
	return out
}

func cat(parts ...[]rune) []rune {
	var out []rune
	for _, p := range parts {
		out = append(out, p...)
	}
	return out
}

// checkDelimTable checks the library's table itself against independent data: sorted (it is
// binary-searched), an even number of entries, every Bidi_Paired_Bracket member (x/text) sits at
// the index parity of its type (opening = even), and the by-construction pairs (truePairs) are
// table pairs. This is what reveals a shifted table, which the bracket clause — now driven by the
// table — cannot see by itself.
func checkDelimTable(t ev.TB) {
	fail := func(format string, args ...any) {
		ev.Fail(t, "delimtable", map[string]any{"table": tableSource}, format, args...)
	}
	if tableSource == "" {
		ev.Note("paired delimiter table not readable under $VERIF_REPO: the bracket clause falls back to %d built-in pairs", len(truePairs))
		return
	}
	if !tableSorted {
		fail("pairedDelims is not strictly increasing (it is binary-searched)")
	}
	if len(libDelims) != 2*len(tablePairs) {
		fail("pairedDelims has %d distinct entries for %d pairs", len(libDelims), len(tablePairs))
	}
	for _, p := range tablePairs {
		for side, r := range p {
			if pr, _ := bidi.LookupRune(r); pr.IsBracket() && pr.IsOpeningBracket() != (side == 0) {
				fail("pairedDelims: %U (Bidi_Paired_Bracket_Type opening=%v) sits at a %s index (pair %U %U)", r, pr.IsOpeningBracket(), []string{"opener", "closer"}[side], p[0], p[1])
			}
			if language.LookupScript(r).Strong() {
				fail("pairedDelims: %U has the script %s and is therefore never looked up", r, language.LookupScript(r))
			}
		}
	}
	for _, p := range truePairs {
		if trueOpen[p[0]] != p[1] {
			fail("pairedDelims: %U and %U are not an (opener, closer) pair of the table", p[0], p[1])
		}
	}
}

// TestEnumPairs: every pair of the library's table x 8 script-change contexts x {LTR, RTL}: the
// closer must come back to the script of its opener (bracket clause of the oracle).
func TestEnumPairs(t *testing.T) {
	loadFaces()
	shard, _ := ev.Shard()
	if shard != 0 {
		return
	}
	checkDelimTable(t)
	seg := new(shaping.Segmenter)
	var total, nt int64
	fm := fmSpec{Kind: 1, K: 0, WithScript: true}
	const zhe, alef, beta = 0x0416, 0x05D0, 0x03B2
	for _, p := range tablePairs {
		o, c := p[0], p[1]
		texts := [][]rune{
			{'a', ' ', o, zhe, zhe, c, ' ', 'a'},        // Latin context, Cyrillic inside
			{'a', o, zhe, c},                            // closer last
			{o, 'a', ' ', zhe, c, zhe},                  // opener first (script resolved later)
			{'a', o, alef, c, 'a'},                      // pair crosses bidi run boundaries
			{alef, o, 'a', ' ', alef, 'a', c, alef},     // right-to-left context
			{'a', '(', o, zhe, c, zhe, ')', 'a'},        // inside another pair
			{'a', o, beta, '(', zhe, ')', zhe, c, beta}, // around another pair
			{'a', o, zhe, o, beta, c, beta, c, zhe},     // nested in itself
		}
		for _, tx := range texts {
			for _, d := range []di.Direction{di.DirectionLTR, di.DirectionRTL} {
				enumRun(t, seg, tx, 0, len(tx), d, fm, &total, &nt)
			}
		}
	}
	ev.CaseEnum(total, nt)
	ev.LabelN("enum_pairs_case", total)
	ev.LabelN("table_pairs", int64(len(tablePairs)))
}

// TestEnumDepth: every nesting depth 1..maxDepth on four templates x {LTR, RTL} x with/without
// leading context.
func TestEnumDepth(t *testing.T) {
	loadFaces()
	shard, nshards := ev.Shard()
	maxDepth := ev.Scale(140, 300)
	seg := new(shaping.Segmenter)
	var total, nt int64
	words := [][]rune{[]rune("a"), {0x03B1}, {0x0416}, {0x4E2D}, {0x05D0}}
	opens := []rune{'(', '[', '{', 0x300C, 0xFF08}
	closes := []rune{')', ']', '}', 0x300D, 0xFF09}
	fm := fmSpec{Kind: 1, K: 0, WithScript: true}
	for d := 1; d <= maxDepth; d++ {
		if d%nshards != shard {
			continue
		}
		var texts [][]rune
		// (1) one outer pair in a Latin context around d-1 pairs opened in a Greek context
		texts = append(texts, cat([]rune("x ["), []rune{0x03B1, ' '}, rep(d-1, '('), []rune{0x03B2}, rep(d-1, ')'), []rune{' ', 0x03B3, ']', ' ', 'y'}))
		// (2) a change of script and of bracket kind at every level (left-to-right scripts)
		// (3) the same with a right-to-left script among them
		for _, nw := range []int{4, 5} {
			var tx []rune
			for i := 0; i < d; i++ {
				tx = append(tx, words[i%nw]...)
				tx = append(tx, opens[i%len(opens)])
			}
			tx = append(tx, words[d%nw]...)
			for i := d - 1; i >= 0; i-- {
				tx = append(tx, closes[i%len(closes)])
				tx = append(tx, words[(i+2)%nw]...)
			}
			texts = append(texts, tx)
		}
		// (4) d sibling pairs inside one pair: many pushes, two open at most
		texts = append(texts, cat([]rune("a("), rep(d, '(', 0x0416, ')'), []rune{0x0416, ')', 'a'}))
		for _, tx := range texts {
			for _, dir := range []di.Direction{di.DirectionLTR, di.DirectionRTL} {
				enumRun(t, seg, tx, 0, len(tx), dir, fm, &total, &nt)
			}
			ctx := cat([]rune("(("), tx, []rune("))"))
			enumRun(t, seg, ctx, 2, 2+len(tx), di.DirectionLTR, fm, &total, &nt)
		}
	}
	ev.CaseEnum(total, nt)
	ev.LabelN("enum_depth_case", total)
}

// TestEnumScale: every count n = 1..maxN of script changes, direction changes, paragraphs, face
// changes, orientation changes, and every length of a neutral stretch.
func TestEnumScale(t *testing.T) {
	loadFaces()
	shard, nshards := ev.Shard()
	maxN := ev.Scale(320, 1100)
	seg := new(shaping.Segmenter)
	var total, nt int64
	seps := []rune{0x2029, '\n', 0x0085, '\r', 0x001C}
	byScript := fmSpec{Kind: 1, K: 0, WithScript: true}
	byRune := fmSpec{Kind: 2, K: 1, WithScript: false}
	unsetTTB := di.DirectionTTB
	for n := 1; n <= maxN; n++ {
		if n%nshards != shard {
			continue
		}
		var paras []rune
		for i := 0; i < n; i++ {
			if i%3 != 2 { // every third paragraph is empty
				paras = append(paras, words3[i%3]...)
			}
			paras = append(paras, seps[i%len(seps)])
		}
		type tc struct {
			text []rune
			fm   fmSpec
			dirs []di.Direction
		}
		hv := []di.Direction{di.DirectionLTR, di.DirectionRTL}
		cases := []tc{
			{rep(n, 'a', 0x0416), byScript, hv},                                              // 2n script runs
			{rep(n, 'a', 0x05D0), byScript, hv},                                              // 2n direction runs
			{rep(n, 'a', ' ', 0x05D0, '1'), byRune, hv},                                      // directions, digits, faces
			{paras, byScript, hv},                                                            // n paragraphs
			{cat([]rune("a"), rep(n, ' '), []rune{0x05D0}), byRune, hv},                      // neutral stretch
			{cat([]rune{0x05D0}, rep(n, '1', ','), []rune("a")), byScript, hv},               // digits
			{cat([]rune("a"), rep(n, 0x0301), []rune{0x0416}, rep(n, 0x0301)), byScript, hv}, // marks
			{rep(n, 'a', 'b', 'c'), byRune, hv},                                              // 3n face runs
			{rep(n, 'a', 0xFF21, 0x4E2D, 0xFF71), byScript, []di.Direction{unsetTTB}},        // orientation changes
		}
		for _, c := range cases {
			for _, dir := range c.dirs {
				enumRun(t, seg, c.text, 0, len(c.text), dir, c.fm, &total, &nt)
			}
			if len(c.text) > 4 {
				enumRun(t, seg, c.text, 1, len(c.text)-2, di.DirectionLTR, c.fm, &total, &nt)
			}
		}
	}
	ev.CaseEnum(total, nt)
	ev.LabelN("enum_scale_case", total)
}

var words3 = [][]rune{[]rune("ab"), {0x05D0, 0x05D1}, {0x0416}}

// ---------------------------------------------------------------------------------------------
// SplitByFace alone

type faceCase struct {
	Split  splitCase `json:"split"`
	Script string    `json:"script"` // 4-letter tag given in the input
}

func checkSplitByFace(t ev.TB, fc *faceCase) {
	c := &fc.Split
	b := c.build()
	sc, err := language.ParseScript(fc.Script)
	if err != nil {
		sc = language.Latin
	}
	b.in.Script = sc
	fail := func(format string, args ...any) {
		d := *fc
		d.Split = *c.decorate()
		ev.Fail(t, "splitbyface", d, format+"\ncase: %+q [%d,%d) input face #%d fontmap=%+v", append(args, string(c.Text), c.RunStart, c.RunEnd, c.InputFace, c.Fontmap)...)
	}
	call := func(in shaping.Input) (out []shaping.Input, pan any) {
		defer func() {
			if r := recover(); r != nil {
				pan = r
			}
		}()
		h, fm := c.Fontmap.build()
		h.hint = 0 // SplitByFace gives no script hint
		return shaping.SplitByFace(in, fm), nil
	}
	out, pan := call(b.in)
	if pan != nil {
		fail("SplitByFace panicked: %v", pan)
	}
	nt := len(out) >= 2
	var key any
	if nt {
		key = "face|" + c.key()
	}
	ev.Case(nt, key, "splitbyface")
	if len(out) == 0 {
		fail("no run returned")
	}
	text := b.in.Text
	if b.in.RunStart >= b.in.RunEnd {
		if len(out) != 1 || out[0].RunStart != b.in.RunStart || out[0].RunEnd != b.in.RunEnd {
			fail("empty range gave %s", describe(out))
		}
		return
	}
	pos := b.in.RunStart
	h, _ := c.Fontmap.build()
	for k, o := range out {
		if o.RunStart != pos || o.RunEnd <= o.RunStart {
			fail("runs not consecutive/non-empty: %s", describe(out))
		}
		pos = o.RunEnd
		if o.Direction != b.in.Direction || o.Script != b.in.Script || o.Language != b.in.Language || o.Size != b.in.Size ||
			len(o.Text) != len(text) || len(text) > 0 && &o.Text[0] != &text[0] || len(o.FontFeatures) != len(b.in.FontFeatures) {
			fail("run %d does not share the characteristics of the input: %s", k, describe(out))
		}
		for i := o.RunStart; i < o.RunEnd; i++ {
			if r := text[i]; !ignoreFaceChangeMirror(r) && facePool[h.pick(r)] != o.Face {
				fail("run %d: rune %d (%U) resolves to face #%d, not the run's: %s", k, i, r, h.pick(r), describe(out))
			}
		}
		if k > 0 && out[k-1].Face != o.Face && ignoreFaceChangeMirror(text[o.RunStart]) {
			fail("run %d starts with %U, which must not trigger a change of font: %s", k, text[o.RunStart], describe(out))
		}
	}
	if pos != b.in.RunEnd {
		fail("runs end at %d, RunEnd is %d", pos, b.in.RunEnd)
	}
	// "The 'Face' field of 'input' is ignored"
	if b.in.Face != nil {
		ev.Label("splitbyface_input_face_set")
		in2 := b.in
		in2.Face = nil
		out2, pan := call(in2)
		if pan != nil {
			fail("SplitByFace panicked: %v", pan)
		}
		if d := sameRuns(out, out2); d != "" {
			if ev.Known(findInputFace) {
				ev.Excluded(findInputFace)
				return
			}
			fail("the Face field of the input is documented as ignored, but the result depends on it (first: with the face, second: with nil): %s", d)
		}
	}
}

func TestPropSplitByFace(t *testing.T) {
	loadFaces()
	rapid.Check(t, func(t *rapid.T) {
		c := genCase(t, 0)
		if rapid.Bool().Draw(t, "withInputFace") {
			c.InputFace = rapid.IntRange(0, nFaces-1).Draw(t, "iface")
		}
		fc := &faceCase{Split: *c, Script: rapid.SampledFrom([]string{"Latn", "Hebr", "Arab", "Hani", "Zyyy"}).Draw(t, "script")}
		checkSplitByFace(t, fc)
	})
}

// ---------------------------------------------------------------------------------------------
// replay

func replayFile(t *testing.T, path string) {
	check, raw, err := ev.LoadReplay(path)
	if err != nil {
		t.Fatalf("replay %s: %v", path, err)
	}
	loadFaces()
	switch check {
	case "split":
		var c splitCase
		if err := json.Unmarshal(raw, &c); err != nil {
			t.Fatalf("replay %s: %v", path, err)
		}
		checkSplit(t, &c)
	case "reuse":
		var h histCase
		if err := json.Unmarshal(raw, &h); err != nil {
			t.Fatalf("replay %s: %v", path, err)
		}
		checkHistory(t, &h)
	case "splitbyface":
		var fc faceCase
		if err := json.Unmarshal(raw, &fc); err != nil {
			t.Fatalf("replay %s: %v", path, err)
		}
		checkSplitByFace(t, &fc)
	case "delimtable":
		checkDelimTable(t)
	default:
		t.Fatalf("replay %s: unknown check %q", path, check)
	}
}

// TestReplay re-runs saved cases without rapid.
func TestReplay(t *testing.T) {
	if p := ev.ReplayPath(); p != "" {
		replayFile(t, p)
		return
	}
	dir := os.Getenv("VERIF_REPLAY_DIR")
	if dir == "" {
		return
	}
	files, _ := filepath.Glob(filepath.Join(dir, "*.json"))
	sort.Strings(files)
	for _, f := range files {
		f := f
		t.Run(strings.TrimSuffix(filepath.Base(f), ".json"), func(t *testing.T) { replayFile(t, f) })
	}
}
