package c07

import (
	"fmt"
	"sync"
	"unicode"

	"github.com/go-text/typesetting/di"
	"github.com/go-text/typesetting/font"
	ot "github.com/go-text/typesetting/font/opentype"
	"github.com/go-text/typesetting/language"
	"github.com/go-text/typesetting/shaping"
	"golang.org/x/image/math/fixed"
	"pgregory.net/rapid"

	"verif/internal/corpus"
	"verif/internal/ev"
)

// ---------------------------------------------------------------------------------------------
// decoded case (what is written to fail.json / read by TestReplay)

type featSpec struct {
	Tag   string `json:"tag"`
	Value uint32 `json:"value"`
}

// fmSpec describes a harness Fontmap: a pure function (script hint, rune) -> index in the face
// pool; WithScript selects the implementation that also offers the optional SetScript method.
type fmSpec struct {
	Kind       int  `json:"kind"`
	K          int  `json:"k"`
	WithScript bool `json:"with_script"`
}

type splitCase struct {
	Text      []rune     `json:"text"`                  // runes as integers (may hold invalid values)
	Quoted    string     `json:"text_quoted,omitempty"` // for the reader only, never decoded
	RunStart  int        `json:"run_start"`
	RunEnd    int        `json:"run_end"`
	Direction uint8      `json:"direction"` // di.Direction bits
	Language  string     `json:"language"`
	Size      int32      `json:"size"`
	Features  []featSpec `json:"features,omitempty"`
	InputFace int        `json:"input_face"` // -1: nil, else index in the face pool
	Fontmap   fmSpec     `json:"fontmap"`
	Faces     []string   `json:"face_pool,omitempty"` // corpus files of the identities, for the reader
}

type histCase struct {
	Steps []splitCase `json:"steps"`
}

func (c *splitCase) key() string {
	return fmt.Sprintf("%v|%d|%d|%d|%s|%d|%v", c.Text, c.RunStart, c.RunEnd, c.Direction, c.Language, c.InputFace, c.Fontmap)
}

func (c *splitCase) decorate() *splitCase {
	d := *c
	d.Quoted = fmt.Sprintf("%+q", string(c.Text))
	d.Faces = faceNames
	return &d
}

// ---------------------------------------------------------------------------------------------
// face identities

var (
	faceOnce  sync.Once
	facePool  []*font.Face
	faceNames []string
)

var preferredFaces = []string{
	"harfbuzz/perf_reference/fonts/Roboto-Regular.ttf",
	"harfbuzz/perf_reference/fonts/Amiri-Regular.ttf",
	"harfbuzz/perf_reference/fonts/NotoSansDevanagari-Regular.ttf",
	"harfbuzz/fonts/SourceSansPro-Regular.otf",
}

const nFaces = 4

// loadFaces loads four corpus faces. They are used as identities (and, for fontmap kind 5, for
// their real cmap coverage); which rune goes to which face is decided by the harness predicate.
func loadFaces() {
	faceOnce.Do(func() {
		try := func(rel string) {
			if len(facePool) >= nFaces {
				return
			}
			for _, n := range faceNames {
				if n == rel {
					return
				}
			}
			fs, err := corpus.Faces(rel)
			if err != nil || len(fs) == 0 || fs[0] == nil {
				return
			}
			facePool = append(facePool, fs[0])
			faceNames = append(faceNames, rel)
		}
		for _, rel := range preferredFaces {
			try(rel)
		}
		for _, rel := range corpus.Files() {
			try(rel)
		}
		if len(facePool) < nFaces {
			panic("c07: fewer than 4 loadable corpus faces")
		}
	})
}

// ---------------------------------------------------------------------------------------------
// harness fontmaps

type harnessFM struct {
	spec  fmSpec
	hint  language.Script // last SetScript value (0: none)
	calls int
}

func scriptHash(s language.Script) int {
	v := uint32(s)
	v ^= v >> 15
	v *= 0x2c1b3c6d
	v ^= v >> 12
	return int(v & 0xffff)
}

func abs(i int) int {
	if i < 0 {
		return -i
	}
	return i
}

// pick is the coverage predicate: a pure function of (spec, hint, rune).
func (f *harnessFM) pick(r rune) int {
	k := abs(f.spec.K)
	switch f.spec.Kind {
	case 0: // single face
		return k % nFaces
	case 1: // by the rune's own script; neutral runes follow the hint when there is one
		s := language.LookupScript(r)
		if !s.Strong() && f.hint != 0 {
			s = f.hint
		}
		return (scriptHash(s) + k) % nFaces
	case 2: // by rune value: maximal fragmentation
		return (abs(int(r)) + k) % nFaces
	case 3: // by character class: spaces/controls get a face of their own
		switch {
		case unicode.IsSpace(r) || unicode.IsControl(r) || unicode.Is(unicode.Cf, r):
			return k % nFaces
		case unicode.IsLetter(r):
			return (k + 1) % nFaces
		case unicode.IsDigit(r):
			return (k + 2) % nFaces
		}
		return (k + 3) % nFaces
	case 4: // by hint only (by rune value without hint)
		if f.hint != 0 {
			return (scriptHash(f.hint) + k) % nFaces
		}
		return (abs(int(r))/3 + k) % nFaces
	default: // 5: real cmap coverage, like shaping.SplitByFontGlyphs, pool rotated by K
		for i := 0; i < nFaces; i++ {
			j := (i + k) % nFaces
			if _, ok := facePool[j].NominalGlyph(r); ok {
				return j
			}
		}
		return k % nFaces
	}
}

const nFMKinds = 6

func (f *harnessFM) ResolveFace(r rune) *font.Face {
	f.calls++
	return facePool[f.pick(r)]
}

// harnessFMScript additionally implements shaping.FontmapScript.
type harnessFMScript struct{ *harnessFM }

func (f harnessFMScript) SetScript(s language.Script) { f.hint = s }

var (
	_ shaping.Fontmap       = (*harnessFM)(nil)
	_ shaping.FontmapScript = harnessFMScript{}
)

func (s fmSpec) build() (*harnessFM, shaping.Fontmap) {
	h := &harnessFM{spec: s}
	if s.WithScript {
		return h, harnessFMScript{h}
	}
	return h, h
}

// ---------------------------------------------------------------------------------------------
// building the library input from a case

type built struct {
	in       shaping.Input
	pristine []rune                // copy of the text
	feats    []shaping.FontFeature // copy of the features
}

func safeTag(s string) ot.Tag {
	b := []byte(s + "    ")[:4]
	return ot.Tag(uint32(b[0])<<24 | uint32(b[1])<<16 | uint32(b[2])<<8 | uint32(b[3]))
}

func (c *splitCase) build() built {
	loadFaces()
	text := make([]rune, len(c.Text))
	copy(text, c.Text)
	var feats []shaping.FontFeature
	for _, f := range c.Features {
		feats = append(feats, shaping.FontFeature{Tag: safeTag(f.Tag), Value: f.Value})
	}
	in := shaping.Input{
		Text: text, RunStart: c.RunStart, RunEnd: c.RunEnd,
		Direction: di.Direction(c.Direction), Language: language.Language(c.Language),
		Size: fixed.Int26_6(c.Size), FontFeatures: feats,
		// Script is an output of Split; give it a value that must be overwritten
		Script: language.Tibetan,
	}
	if c.InputFace >= 0 {
		in.Face = facePool[c.InputFace%nFaces]
	}
	return built{in: in, pristine: append([]rune(nil), text...), feats: append([]shaping.FontFeature(nil), feats...)}
}

// ---------------------------------------------------------------------------------------------
// alphabet

var (
	gLatin    = []rune("abcxyzAZ")
	gCyrillic = []rune("Ждя")
	gGreek    = []rune("αβΩ")
	gHebrew   = []rune("אבגש")
	gArabic   = []rune("ابتلم")
	gEuDigits = []rune("0123456789")
	gArDigits = []rune{0x0660, 0x0661, 0x0662, 0x0669, 0x06F1, 0x06F2} // AN and extended (EN)
	gNumPunct = []rune{'.', ',', ':', '/', '+', '-', '%', '$', '#', 0x066B, 0x066C, 0x00A3, 0x20AC, 0x2212}
	gSpaces   = []rune{' ', ' ', ' ', ' ', 0x00A0, 0x3000, 0x2009, '\t', 0x2028, 0x1680}
	gPunct    = []rune{'!', '?', ';', '*', '&', '@', '_', '"', '\'', 0x3001, 0x3002, 0x30FB, 0x060C, 0x061B, 0x05BE, 0x2026, 0x2014}
	gCJK      = []rune{0x4E2D, 0x6587, 0x3042, 0x3044, 0x30A2, 0x30A4, 0x30FC, 0xD55C, 0xAE00, 0x3105, 0xA000, 0x1820}
	// runes whose vertical orientation differs from the main orientation of their script
	gVertExc = []rune{0xFF21, 0xFF41, 0x2160, 0x2170, 0xFF71, 0xFF9D, 0xFF66, 0xFFA1, 0xFFDA, 0x1400, 0x1401}
	gMarks   = []rune{0x0301, 0x0300, 0x05B4, 0x064E, 0x0651, 0x3099, 0x20DD, 0xFE0F, 0xFE00, 0xE0100, 0x0483}
	gEmoji   = []rune{0x1F600, 0x1F469, 0x200D, 0x1F3FD, 0x2764, 0x1F1EB, 0x1F1F7, 0x00A9}
	// bidi class B (paragraph separators)
	gParaSeps = []rune{0x2029, 0x2029, 0x0085, '\n', '\n', '\r', 0x001C, 0x001D, 0x001E}
	gBidiCtl  = []rune{0x200E, 0x200F, 0x061C, 0x202A, 0x202B, 0x202C, 0x202D, 0x202E, 0x2066, 0x2067, 0x2068, 0x2069}
	gOdd      = []rune{0, 0xFFFD, 0x0378, 0xE000, 0xD800, 0x110000, -1, 0x10FFFF, 0x00AD, 0xFEFF, 0x001F, 0x000B, 0x7FFFFFFF}
	// delimiters the oracle does not pair itself (the bracket clause is skipped when one occurs)
	gOtherDelims = []rune{'<', '>', 0x201A, 0x201B, 0x201E, 0x2E42, 0x301D, 0x301E, 0x301F, 0xFD3E, 0xFD3F}
)

// truePairs are opening/closing pairs by their Unicode meaning (Bidi_Paired_Bracket pairs and the
// unambiguous quotation pairs); the oracle's notion of "matched brackets".
var truePairs = [][2]rune{
	{'(', ')'}, {'[', ']'}, {'{', '}'}, {0x00AB, 0x00BB}, {0x2018, 0x2019}, {0x201C, 0x201D}, {0x2039, 0x203A},
	{0xFF08, 0xFF09}, {0xFF3B, 0xFF3D}, {0xFF5B, 0xFF5D}, {0x300C, 0x300D}, {0x300E, 0x300F}, {0x3010, 0x3011},
	{0x3008, 0x3009}, {0x300A, 0x300B}, {0x3014, 0x3015}, {0x27E8, 0x27E9}, {0x207D, 0x207E},
}

// drawPair draws a delimiter pair: half of the time one of the favoured true pairs (ASCII most
// often), otherwise any pair of the library's table, uniformly.
func drawPair(t *rapid.T, label string) [2]rune {
	k := rapid.IntRange(0, 2*len(genPairIdx)-1).Draw(t, label)
	if k < len(genPairIdx) || len(tablePairs) == 0 {
		return truePairs[genPairIdx[k%len(genPairIdx)]]
	}
	return tablePairs[rapid.IntRange(0, len(tablePairs)-1).Draw(t, label+"Table")]
}

// pairs the generator favours (ASCII most often)
var genPairIdx = []int{0, 0, 0, 0, 1, 1, 2, 3, 4, 5, 5, 6, 7, 8, 9, 10, 10, 11, 12, 13, 14, 15, 16, 17}

type wordScript struct {
	runes  []rune
	weight int
}

var wordScripts = []wordScript{
	{gLatin, 28}, {gHebrew, 20}, {gArabic, 14}, {gCyrillic, 10}, {gGreek, 4}, {gCJK, 14}, {gVertExc, 6}, {gEuDigits, 4},
}

func pickWordScript(t *rapid.T) []rune {
	total := 0
	for _, w := range wordScripts {
		total += w.weight
	}
	v := rapid.IntRange(0, total-1).Draw(t, "script")
	for _, w := range wordScripts {
		if v < w.weight {
			return w.runes
		}
		v -= w.weight
	}
	return gLatin
}

func one(t *rapid.T, rs []rune, label string) rune {
	return rs[rapid.IntRange(0, len(rs)-1).Draw(t, label)]
}

type textGen struct {
	out    []rune
	budget int
}

func (g *textGen) emit(rs ...rune) {
	g.out = append(g.out, rs...)
	g.budget -= len(rs)
}

func (g *textGen) word(t *rapid.T) {
	rs := pickWordScript(t)
	n := rapid.IntRange(1, 3).Draw(t, "wordlen")
	for i := 0; i < n; i++ {
		g.emit(one(t, rs, "letter"))
	}
}

func (g *textGen) seq(t *rapid.T, depth int) {
	n := rapid.IntRange(1, 4).Draw(t, "units")
	for i := 0; i < n && g.budget > 0; i++ {
		k := rapid.IntRange(0, 99).Draw(t, "unit")
		switch {
		case k < 30:
			g.word(t)
		case k < 37:
			nd := rapid.IntRange(1, 3).Draw(t, "ndigits")
			ds := gEuDigits
			if rapid.IntRange(0, 3).Draw(t, "arabicDigits") == 0 {
				ds = gArDigits
			}
			for j := 0; j < nd; j++ {
				if j > 0 && rapid.IntRange(0, 3).Draw(t, "numpunct") == 0 {
					g.emit(one(t, gNumPunct, "np"))
				}
				g.emit(one(t, ds, "digit"))
			}
		case k < 49:
			g.emit(one(t, gSpaces, "space"))
		case k < 55:
			g.emit(one(t, gPunct, "punct"))
		case k < 72:
			if depth >= 3 {
				g.word(t)
				break
			}
			p := drawPair(t, "pair")
			g.emit(p[0])
			g.seq(t, depth+1)
			g.emit(p[1])
		case k < 76: // a lone delimiter (unmatched, wrongly nested, or one the oracle does not pair)
			switch rapid.IntRange(0, 4).Draw(t, "lone") {
			case 0:
				g.emit(one(t, gOtherDelims, "otherdelim"))
			default:
				p := drawPair(t, "pair")
				g.emit(p[rapid.IntRange(0, 1).Draw(t, "side")])
			}
		case k < 81:
			g.emit(one(t, gParaSeps, "parasep"))
		case k < 85:
			if depth < 3 && rapid.Bool().Draw(t, "isolate") {
				g.emit(one(t, []rune{0x2066, 0x2067, 0x2068, 0x202A, 0x202B, 0x202E}, "open"))
				g.seq(t, depth+1)
				g.emit(one(t, []rune{0x2069, 0x202C}, "close"))
			} else {
				g.emit(one(t, gBidiCtl, "bidictl"))
			}
		case k < 89:
			g.emit(one(t, gMarks, "mark"))
		case k < 92:
			g.emit(one(t, gEmoji, "emoji"))
		case k < 97:
			if rapid.Bool().Draw(t, "exc") {
				g.emit(one(t, gVertExc, "vertexc"))
			} else {
				g.emit(one(t, gCJK, "cjk"))
			}
		case k < 99:
			g.emit(one(t, gOdd, "odd"))
		default:
			g.emit(rune(rapid.IntRange(0, 0x10FFFF).Draw(t, "any")))
		}
	}
}

// Size classes: internal bounds, counters and buffer growth only show beyond a size.
const (
	shapeDeep = 3 // deep well-nested bracket structure with script changes at various depths
	shapeLong = 4 // long text: many runs, many paragraphs, long stretches of neutrals
)

// boundaryDepths are values around which fixed-size stacks/counters typically sit.
var boundaryDepths = []int{7, 8, 9, 15, 16, 17, 31, 32, 33, 63, 64, 65, 127, 128, 129}

func drawDepth(t *rapid.T) int {
	switch k := rapid.IntRange(0, 9).Draw(t, "depthClass"); {
	case k < 4:
		return rapid.IntRange(4, 80).Draw(t, "depth")
	case k < 7:
		return boundaryDepths[rapid.IntRange(0, len(boundaryDepths)-1).Draw(t, "depthBoundary")]
	default:
		return rapid.IntRange(8, 40).Draw(t, "depthSmall")
	}
}

var (
	ltrWordScripts = [][]rune{gLatin, gCyrillic, gGreek, gCJK}
	allWordScripts = [][]rune{gLatin, gCyrillic, gGreek, gCJK, gHebrew, gArabic, gLatin, gHebrew}
)

func (g *textGen) wordOf(t *rapid.T, pool [][]rune) {
	rs := pool[rapid.IntRange(0, len(pool)-1).Draw(t, "wscript")]
	n := rapid.IntRange(1, 2).Draw(t, "wlen")
	for i := 0; i < n; i++ {
		g.emit(one(t, rs, "letter"))
	}
}

// deep emits prefix, d nested openers (mixed kinds), an inner word, the d closers, suffix; words
// of other scripts are inserted after openers / before closers at the outermost level, at a few
// marked depths and at random ones, so that an opener and its closer see different scripts at
// many depths; optional sibling pairs make the number of pushes exceed the depth.
func (g *textGen) deep(t *rapid.T) {
	d := drawDepth(t)
	pool := ltrWordScripts
	if rapid.IntRange(0, 9).Draw(t, "deepRTL") < 4 {
		pool = allWordScripts
	}
	kindMode := rapid.IntRange(0, 2).Draw(t, "kindMode")
	k0 := drawPair(t, "kind0")
	k1 := drawPair(t, "kind1")
	pWord := []int{0, 4, 12, 35}[rapid.IntRange(0, 3).Draw(t, "pWord")]
	pSibling := []int{0, 0, 6, 20}[rapid.IntRange(0, 3).Draw(t, "pSibling")]
	marked := map[int]bool{}
	if rapid.IntRange(0, 9).Draw(t, "markOuter") < 8 {
		marked[0] = true
	}
	for i, n := 0, rapid.IntRange(0, 4).Draw(t, "nMarked"); i < n; i++ {
		marked[rapid.IntRange(0, d-1).Draw(t, "marked")] = true
	}
	g.wordOf(t, pool)
	if rapid.Bool().Draw(t, "sp") {
		g.emit(' ')
	}
	closers := make([]rune, 0, d)
	for i := 0; i < d; i++ {
		k := k0
		switch kindMode {
		case 1:
			if i%2 == 1 {
				k = k1
			}
		case 2:
			k = drawPair(t, "kind")
		}
		g.emit(k[0])
		closers = append(closers, k[1])
		v := rapid.IntRange(0, 99).Draw(t, "after")
		if marked[i] || v < pWord {
			g.wordOf(t, pool)
		}
		if v >= 100-pSibling {
			g.emit(k1[0])
			g.wordOf(t, pool)
			g.emit(k1[1])
		}
	}
	g.wordOf(t, pool)
	if rapid.Bool().Draw(t, "inner2") {
		g.emit(' ')
		g.wordOf(t, pool)
	}
	for i := d - 1; i >= 0; i-- {
		v := rapid.IntRange(0, 99).Draw(t, "before")
		if marked[i] && v < 60 || v < pWord {
			g.wordOf(t, pool)
		}
		g.emit(closers[i])
	}
	if rapid.IntRange(0, 3).Draw(t, "suffix") > 0 {
		g.emit(' ')
		g.wordOf(t, pool)
	}
}

// long emits 80..600 runes made of stretches: alternating-script words (many script, direction
// and face changes), many short paragraphs, long runs of neutrals / marks / digits, and ordinary
// nested material.
func (g *textGen) long(t *rapid.T) {
	target := rapid.IntRange(80, 600).Draw(t, "longLen")
	for len(g.out) < target {
		n := rapid.IntRange(5, 150).Draw(t, "stretch")
		if n > target-len(g.out) {
			n = target - len(g.out)
		}
		end := len(g.out) + n
		switch rapid.IntRange(0, 6).Draw(t, "stretchKind") {
		case 0: // one-rune words, script changes at every rune
			a := allWordScripts[rapid.IntRange(0, len(allWordScripts)-1).Draw(t, "a")]
			b := allWordScripts[rapid.IntRange(0, len(allWordScripts)-1).Draw(t, "b")]
			ra, rb := one(t, a, "ra"), one(t, b, "rb")
			for len(g.out) < end {
				g.emit(ra, rb)
			}
		case 1: // random short words
			for len(g.out) < end {
				g.wordOf(t, allWordScripts)
				if rapid.IntRange(0, 2).Draw(t, "sep") == 0 {
					g.emit(one(t, gSpaces, "space"))
				}
			}
		case 2: // many paragraphs
			for len(g.out) < end {
				if rapid.IntRange(0, 3).Draw(t, "emptyPara") > 0 {
					g.wordOf(t, allWordScripts)
				}
				g.emit(one(t, gParaSeps, "parasep"))
			}
		case 3: // a long run of one neutral / mark / digit
			var r rune
			switch rapid.IntRange(0, 4).Draw(t, "neutralKind") {
			case 0:
				r = one(t, gSpaces, "space")
			case 1:
				r = one(t, gMarks, "mark")
			case 2:
				r = one(t, gEuDigits, "digit")
			case 3:
				r = one(t, gArDigits, "ardigit")
			default:
				r = one(t, gPunct, "punct")
			}
			for len(g.out) < end {
				g.emit(r)
			}
		case 4: // mixed neutrals
			pool := [][]rune{gSpaces, gMarks, gEuDigits, gArDigits, gPunct, gNumPunct, gBidiCtl}
			for len(g.out) < end {
				g.emit(one(t, pool[rapid.IntRange(0, len(pool)-1).Draw(t, "npool")], "neutral"))
			}
		case 5: // vertical-orientation changes
			for len(g.out) < end {
				g.emit(one(t, gVertExc, "vertexc"), one(t, gLatin, "latin"), one(t, gCJK, "cjk"))
			}
		default: // ordinary material
			for len(g.out) < end {
				g.seq(t, 0)
			}
		}
	}
}

// genText draws a text. shape: 0 normal, 1 ends with an unclosed opener, 2 starts with an
// unopened closer (these two make one use of a Segmenter observable in the next one if the
// delimiter stack is not cleared), 3 deep nesting, 4 long text.
func genText(t *rapid.T, maxLen int, shape int) []rune {
	g := &textGen{budget: maxLen}
	p := drawPair(t, "shapepair")
	switch shape {
	case shapeDeep:
		g.budget = 1 << 20
		g.deep(t)
		return g.out
	case shapeLong:
		g.budget = 1 << 20
		g.long(t)
		return g.out
	case 1:
		g.seq(t, 1)
		g.emit(p[0])
		if rapid.Bool().Draw(t, "tail") {
			g.word(t)
		}
	case 2:
		g.word(t)
		g.emit(p[1])
		g.seq(t, 1)
	default:
		units := rapid.IntRange(0, 12).Draw(t, "top")
		if units > 4 {
			units = 1 + units%4
		}
		for i := 0; i < units && g.budget > 0; i++ {
			g.seq(t, 0)
		}
	}
	if len(g.out) > maxLen {
		g.out = g.out[:maxLen]
	}
	return g.out
}

var (
	genLangs    = []string{"", "", "", "en", "fr", "ar", "he", "ja", "ru", "fr-be", "tl", "ko", "EN_us", "xxxx", "zz-yy", "qqq", "zh"}
	genFeatTags = []string{"liga", "kern", "frac", "smcp"}
)

func genDirection(t *rapid.T) di.Direction {
	k := rapid.IntRange(0, 99).Draw(t, "dir")
	var d di.Direction
	switch {
	case k < 34:
		return di.DirectionLTR
	case k < 56:
		return di.DirectionRTL
	case k < 72:
		return di.DirectionTTB
	case k < 80:
		return di.DirectionBTT
	case k < 86:
		d = di.DirectionTTB
		d.SetSideways(true)
	case k < 92:
		d = di.DirectionTTB
		d.SetSideways(false)
	case k < 96:
		d = di.DirectionBTT
		d.SetSideways(true)
	default:
		d = di.DirectionBTT
		d.SetSideways(false)
	}
	return d
}

// genCase draws one Split call.
func genCase(t *rapid.T, shape int) *splitCase {
	maxLen := ev.Scale(40, 96)
	c := &splitCase{InputFace: -1}
	c.Text = genText(t, maxLen, shape)
	n := len(c.Text)
	switch k := rapid.IntRange(0, 99).Draw(t, "range"); {
	case k < 35 || shape != 0 && k < 80 || shape >= shapeDeep && k < 90:
		c.RunStart, c.RunEnd = 0, n
	case k < 39:
		c.RunStart = rapid.IntRange(0, n).Draw(t, "empty")
		c.RunEnd = c.RunStart
	default:
		c.RunStart = rapid.IntRange(0, n).Draw(t, "start")
		c.RunEnd = rapid.IntRange(c.RunStart, n).Draw(t, "end")
		if c.RunEnd == c.RunStart && n > 0 { // empty ranges have their own class
			if c.RunStart == n {
				c.RunStart--
			} else {
				c.RunEnd++
			}
		}
	}
	c.Direction = uint8(genDirection(t))
	c.Language = genLangs[rapid.IntRange(0, len(genLangs)-1).Draw(t, "lang")]
	c.Size = int32(rapid.SampledFrom([]int{0, 1, 640, 768, 1 << 20, -64}).Draw(t, "size"))
	nf := rapid.IntRange(0, 4).Draw(t, "nfeat") - 2
	for i := 0; i < nf; i++ {
		c.Features = append(c.Features, featSpec{Tag: genFeatTags[rapid.IntRange(0, len(genFeatTags)-1).Draw(t, "tag")], Value: uint32(rapid.IntRange(0, 2).Draw(t, "val"))})
	}
	if rapid.IntRange(0, 9).Draw(t, "inputface") == 0 {
		c.InputFace = rapid.IntRange(0, nFaces-1).Draw(t, "iface")
	}
	c.Fontmap = fmSpec{
		Kind:       rapid.IntRange(0, nFMKinds-1).Draw(t, "fmkind"),
		K:          rapid.IntRange(0, 7).Draw(t, "fmk"),
		WithScript: rapid.Bool().Draw(t, "fmscript"),
	}
	return c
}
