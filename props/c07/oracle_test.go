package c07

import (
	"fmt"
	"os"
	"path/filepath"
	"regexp"
	"strconv"
	"strings"
	"unicode"
	"unicode/utf8"

	"github.com/go-text/typesetting/di"
	"github.com/go-text/typesetting/harfbuzz"
	"github.com/go-text/typesetting/language"
	"github.com/go-text/typesetting/shaping"
	ucd "github.com/go-text/typesetting/unicodedata"
	"golang.org/x/text/unicode/bidi"

	"verif/internal/ev"
)

// Finding ids (structural matchers below; active only when listed "open" in known_findings.json).
const (
	// x/text bidi.Paragraph handles one paragraph; splitByBidi maps only the first one.
	findParagraphs = "C07-bidi-later-paragraphs"
	// splitByScript overwrites the already resolved script of open delimiters when a new bidi run
	// resolves its script.
	findStackOverwrite = "C07-delim-script-overwritten"
	// pairedDelims is shifted by one entry between U+2E42 and U+301F.
	findDelimTable = "C07-paired-delims-misaligned"
	// splitByFace starts from input.Face although the doc says the field is ignored.
	findInputFace = "C07-input-face-not-ignored"
)

// ---------------------------------------------------------------------------------------------
// mirrors of unexported library items

// ignoreFaceChangeMirror mirrors the documented predicate of shaping.ignoreFaceChange (unexported):
// control, surrogate, line/paragraph separators, space separators except U+1680, and what HarfBuzz
// treats as default ignorable never trigger a change of font.
func ignoreFaceChangeMirror(r rune) bool {
	return unicode.Is(unicode.Cc, r) || unicode.Is(unicode.Cs, r) || unicode.Is(unicode.Zl, r) || unicode.Is(unicode.Zp, r) ||
		(unicode.Is(unicode.Zs, r) && r != 0x1680) || harfbuzz.IsDefaultIgnorable(r)
}

// The library documents which characters are paired delimiters by its table
// shaping/paired_delims_table.go (pairedDelims, unexported: even index = opener, next index = its
// closer). The check reads that table from the source file of the tree under test ($VERIF_REPO,
// default /repo) — no hook is needed — so that the bracket clause (the MECHANISM: a closer follows
// the script of its opener) covers every pair of the table, whatever the general category of its
// members (Ps/Pe, Pi/Pf quotes, Sm like < >). tablePairs is that list; trueOpen/trueClose are the
// lookup maps the oracle uses. truePairs (gen_test.go) stays as the by-construction anchor the
// table itself is checked against (TestEnumPairs).
var (
	tablePairs  [][2]rune
	tableSorted bool
	tableSource string // "" when the table could not be read (the oracle then falls back to truePairs)
	libDelims   = map[rune]bool{}
	trueOpen    = map[rune]rune{}
	trueClose   = map[rune]rune{}
)

func readDelimTable() (vals []rune, path string) {
	root := os.Getenv("VERIF_REPO")
	if root == "" {
		root = "/repo"
	}
	path = filepath.Join(root, "shaping", "paired_delims_table.go")
	b, err := os.ReadFile(path)
	if err != nil {
		return nil, ""
	}
	src := string(b)
	i := strings.Index(src, "pairedDelims")
	if i < 0 {
		return nil, ""
	}
	src = src[i:]
	o, c := strings.Index(src, "{"), strings.Index(src, "}")
	if o < 0 || c < o {
		return nil, ""
	}
	for _, m := range regexp.MustCompile(`0[xX][0-9a-fA-F]+`).FindAllString(src[o:c], -1) {
		x, err := strconv.ParseInt(m[2:], 16, 32)
		if err != nil {
			return nil, ""
		}
		vals = append(vals, rune(x))
	}
	return vals, path
}

func init() {
	vals, path := readDelimTable()
	if len(vals) >= 2 {
		tableSource = path
		tableSorted = true
		for i, r := range vals {
			libDelims[r] = true
			if i > 0 && vals[i-1] >= r {
				tableSorted = false
			}
		}
		for i := 0; i+1 < len(vals); i += 2 {
			tablePairs = append(tablePairs, [2]rune{vals[i], vals[i+1]})
		}
	} else {
		tablePairs = append(tablePairs, truePairs...)
		for _, p := range truePairs {
			libDelims[p[0]], libDelims[p[1]] = true, true
		}
	}
	for _, p := range tablePairs {
		trueOpen[p[0]] = p[1]
		trueClose[p[1]] = p[0]
	}
}

func isAnyDelimiter(r rune) bool {
	return libDelims[r] || unicode.In(r, unicode.Ps, unicode.Pe, unicode.Pi, unicode.Pf)
}

// vertAnchor: UAX #50 Vertical_Orientation of the strong-script runes of the generator's
// alphabet, by construction (U/Tu -> upright=false, R/Tr -> sideways=true). It anchors the
// orientation clause independently of unicodedata.LookupVerticalOrientation.
var vertAnchor = map[rune]bool{}

func init() {
	for _, rs := range [][]rune{gLatin, gCyrillic, gGreek, gHebrew, gArabic} {
		for _, r := range rs {
			vertAnchor[r] = true
		}
	}
	for _, r := range []rune{0x4E2D, 0x6587, 0x3042, 0x3044, 0x30A2, 0x30A4, 0xD55C, 0xAE00, 0x3105, 0xA000} {
		vertAnchor[r] = false
	}
	vertAnchor[0x1820] = true // Mongolian: R
	for _, r := range []rune{0xFF21, 0xFF41, 0x2160, 0x2170, 0x1401} {
		vertAnchor[r] = false // U inside sideways scripts (Latin) / main orientation of Canadian syllabics
	}
	for _, r := range []rune{0xFF71, 0xFF9D, 0xFF66, 0xFFA1, 0xFFDA, 0x1400} {
		vertAnchor[r] = true // R inside upright scripts
	}
}

// ---------------------------------------------------------------------------------------------
// reference computations

func toValid(r rune) rune {
	if !utf8.ValidRune(r) {
		return utf8.RuneError // what string([]rune) produces
	}
	return r
}

func isClassB(r rune) bool {
	p, _ := bidi.LookupRune(toValid(r))
	return p.Class() == bidi.B
}

func realScript(s language.Script) bool {
	return s != language.Common && s != language.Inherited && s != language.Unknown
}

// refParity computes, for every position of text[start:end], the parity of the embedding level
// given by a FRESH x/text Paragraph applied to each paragraph separately (UAX #9 P1), with the
// same default direction option the library documents to derive from the input direction.
// -1: no demand (the class-B separator itself, or x/text gave no ordering for that paragraph).
func refParity(text []rune, start, end int, def bidi.Direction) (par []int8, panicked bool) {
	par = make([]int8, end-start)
	for i := range par {
		par[i] = -1
	}
	defer func() {
		if r := recover(); r != nil {
			panicked = true
		}
	}()
	p0 := start
	for p0 < end {
		p1 := p0
		for p1 < end && !isClassB(text[p1]) {
			p1++
		}
		if p1 > p0 {
			var para bidi.Paragraph
			para.SetString(string(text[p0:p1]), bidi.DefaultDirection(def))
			o, err := para.Order()
			if err == nil {
				for i := 0; i < o.NumRuns(); i++ {
					run := o.Run(i)
					s, e := run.Pos()
					v := int8(0)
					if run.Direction() == bidi.RightToLeft {
						v = 1
					}
					for k := s; k <= e && p0+k < p1; k++ {
						par[p0+k-start] = v
					}
				}
			}
		}
		p0 = p1 + 1 // skip the separator
	}
	return par, false
}

type bracketPair struct{ open, close int }

type bracketInfo struct {
	pairs      []bracketPair
	wellNested bool // every closer matches the innermost open one (unclosed openers at the end allowed)
	unknown    bool // contains a delimiter the oracle cannot pair (only when the library table is unreadable)
	misaligned bool // retired (finding C07-paired-delims-misaligned is fixed; the table is now checked by TestEnumPairs)
	any        bool
}

func analyseBrackets(text []rune, start, end int) bracketInfo {
	bi := bracketInfo{wellNested: true}
	var stack []int
	for i := start; i < end; i++ {
		r := text[i]
		if _, ok := trueOpen[r]; ok {
			bi.any = true
			stack = append(stack, i)
			continue
		}
		if o, ok := trueClose[r]; ok {
			bi.any = true
			if n := len(stack); n > 0 && text[stack[n-1]] == o {
				bi.pairs = append(bi.pairs, bracketPair{stack[n-1], i})
				stack = stack[:n-1]
			} else {
				bi.wellNested = false
			}
			continue
		}
		// a Ps/Pe/Pi/Pf character outside the library's table is an ordinary neutral for the
		// library; only without the table (fallback list) can the oracle not tell
		if tableSource == "" && isAnyDelimiter(r) && !language.LookupScript(r).Strong() {
			bi.unknown = true
		}
	}
	return bi
}

// ---------------------------------------------------------------------------------------------
// the validity predicate

type verdict struct {
	clause string // "" when the output is valid
	msg    string

	nRuns      int
	mixed      bool // both level parities occur in the range
	spanScript bool // a matched bracket pair spans a change of script
	labels     []string
	excluded   []string
}

func (v *verdict) failf(clause, format string, args ...any) {
	if v.clause == "" {
		v.clause = clause
		v.msg = fmt.Sprintf(format, args...)
	}
}

func (v *verdict) nontrivial(c *splitCase) bool {
	return v.nRuns >= 2 || c.RunStart > 0 && v.mixed || v.spanScript
}

func dirString(d di.Direction) string {
	s := "LTR"
	switch {
	case !d.IsVertical() && d.Progression() == di.TowardTopLeft:
		s = "RTL"
	case d.IsVertical() && d.Progression() == di.FromTopLeft:
		s = "TTB"
	case d.IsVertical():
		s = "BTT"
	}
	if d.HasVerticalOrientation() {
		if d.IsSideways() {
			s += "+sideways"
		} else {
			s += "+upright"
		}
	}
	return fmt.Sprintf("%s(%d)", s, uint8(d))
}

func describe(out []shaping.Input) string {
	s := ""
	for _, o := range out {
		fi := -1
		for i, f := range facePool {
			if f == o.Face {
				fi = i
			}
		}
		s += fmt.Sprintf("[%d,%d) %s %s %q face#%d | ", o.RunStart, o.RunEnd, dirString(o.Direction), o.Script, o.Language, fi)
	}
	return s
}

// validate checks one Split result against the statement of C07.
func validate(c *splitCase, b built, out []shaping.Input) (v verdict) {
	in := b.in
	text := in.Text
	v.nRuns = len(out)

	// --- text, size, features untouched
	if len(text) != len(b.pristine) {
		v.failf("untouched", "input text length changed")
		return
	}
	for i := range text {
		if text[i] != b.pristine[i] {
			v.failf("untouched", "input text modified at %d", i)
			return
		}
	}
	if len(out) == 0 {
		v.failf("cover", "no run returned")
		return
	}
	for k, o := range out {
		if len(o.Text) != len(text) || len(text) > 0 && &o.Text[0] != &text[0] {
			v.failf("untouched", "run %d: Text is not the input's slice", k)
		}
		if o.Size != in.Size {
			v.failf("untouched", "run %d: Size %d, input %d", k, o.Size, in.Size)
		}
		if len(o.FontFeatures) != len(in.FontFeatures) || len(in.FontFeatures) > 0 && &o.FontFeatures[0] != &in.FontFeatures[0] {
			v.failf("untouched", "run %d: FontFeatures is not the input's slice", k)
		}
	}
	for i, f := range in.FontFeatures {
		if f != b.feats[i] {
			v.failf("untouched", "input FontFeatures[%d] modified", i)
		}
	}
	if v.clause != "" {
		return
	}

	// --- empty range: one (empty) run, as the library's own tests document
	if in.RunStart >= in.RunEnd {
		v.labels = append(v.labels, "empty_range")
		if len(out) != 1 || out[0].RunStart != in.RunStart || out[0].RunEnd != in.RunEnd {
			v.failf("cover", "empty range [%d,%d) gave %s", in.RunStart, in.RunEnd, describe(out))
		} else if out[0].Direction.IsVertical() != in.Direction.IsVertical() {
			v.failf("direction", "empty range: axis changed")
		}
		return
	}

	// --- consecutive, non-empty, covering
	pos := in.RunStart
	for k, o := range out {
		if o.RunStart != pos {
			v.failf("cover", "run %d starts at %d, expected %d: %s", k, o.RunStart, pos, describe(out))
			return
		}
		if o.RunEnd <= o.RunStart {
			v.failf("cover", "run %d is empty or reversed [%d,%d): %s", k, o.RunStart, o.RunEnd, describe(out))
			return
		}
		if o.RunEnd > in.RunEnd {
			v.failf("cover", "run %d ends at %d beyond RunEnd %d: %s", k, o.RunEnd, in.RunEnd, describe(out))
			return
		}
		pos = o.RunEnd
	}
	if pos != in.RunEnd {
		v.failf("cover", "runs end at %d, RunEnd is %d: %s", pos, in.RunEnd, describe(out))
		return
	}
	runOf := make([]int, in.RunEnd-in.RunStart) // position -> run index
	for k, o := range out {
		for i := o.RunStart; i < o.RunEnd; i++ {
			runOf[i-in.RunStart] = k
		}
	}

	// --- direction
	def := bidi.LeftToRight
	if in.Direction.Progression() == di.TowardTopLeft {
		def = bidi.RightToLeft
	}
	par, refPanicked := refParity(text, in.RunStart, in.RunEnd, def)
	if refPanicked {
		v.labels = append(v.labels, "xtext_panic")
	}
	firstB := -1 // first class-B character followed by more text
	for i := in.RunStart; i < in.RunEnd-1; i++ {
		if isClassB(text[i]) {
			firstB = i
			break
		}
	}
	exemptAfter := in.RunEnd
	if firstB >= 0 {
		v.labels = append(v.labels, "multi_paragraph")
		if ev.Known(findParagraphs) {
			v.excluded = append(v.excluded, findParagraphs)
			exemptAfter = firstB + 1 // direction demanded only in the first paragraph
		}
	}
	seen := [2]bool{}
	for i := in.RunStart; i < in.RunEnd; i++ {
		if p := par[i-in.RunStart]; p >= 0 {
			seen[p] = true
		}
	}
	v.mixed = seen[0] && seen[1]
	vertical := in.Direction.IsVertical()
	resolveOrientation := vertical && !in.Direction.HasVerticalOrientation()
	for k, o := range out {
		d := o.Direction
		if d.IsVertical() != vertical {
			v.failf("direction", "run %d: axis changed (%s, input %s)", k, dirString(d), dirString(in.Direction))
		}
		if !vertical && d != di.DirectionLTR && d != di.DirectionRTL {
			v.failf("direction", "run %d: horizontal input gave direction bits %s", k, dirString(d))
		}
		if vertical && !resolveOrientation && (!d.HasVerticalOrientation() || d.IsSideways() != in.Direction.IsSideways()) {
			v.failf("direction", "run %d: fixed orientation not preserved (%s, input %s)", k, dirString(d), dirString(in.Direction))
		}
		want := int8(0)
		if d.Progression() == di.TowardTopLeft {
			want = 1
		}
		for i := o.RunStart; i < o.RunEnd && i < exemptAfter; i++ {
			if p := par[i-in.RunStart]; p >= 0 && p != want {
				v.failf("direction", "run %d %s: rune %d (%U) has reference level parity %d (fresh x/text bidi on its own paragraph, default %v): %s",
					k, dirString(d), i, text[i], p, def, describe(out))
				break
			}
		}
	}

	// --- script
	for k, o := range out {
		for i := o.RunStart; i < o.RunEnd; i++ {
			s := language.LookupScript(text[i])
			if realScript(s) && s != o.Script {
				v.failf("script", "run %d has script %s but rune %d (%U) has script %s: %s", k, o.Script, i, text[i], s, describe(out))
				break
			}
		}
	}
	// a run's script comes from one of the runes or from a bracket (resolved from its opener) of
	// the stretch of consecutive runs sharing that script (face and orientation splitting cut
	// script runs further, so the witness may lie in a neighbour)
	for k := 0; k < len(out); {
		e := k
		for e+1 < len(out) && out[e+1].Script == out[k].Script {
			e++
		}
		if sc := out[k].Script; sc != language.Common {
			witness := false
			for i := out[k].RunStart; i < out[e].RunEnd && !witness; i++ {
				witness = language.LookupScript(text[i]) == sc || isAnyDelimiter(text[i])
			}
			if !witness {
				v.failf("script", "runs %d..%d have script %s but contain no rune of that script and no delimiter: %s", k, e, sc, describe(out))
			}
		}
		k = e + 1
	}

	// neutral characters follow their context: a run left without a script (Common) is not
	// adjacent, in the same direction and paragraph, to a run with a script
	for k, o := range out {
		if o.Script.Strong() {
			continue
		}
		for _, j := range []int{k - 1, k + 1} {
			if j < 0 || j >= len(out) || !out[j].Script.Strong() || out[j].Direction.Progression() != o.Direction.Progression() {
				continue
			}
			boundary := o.RunStart
			if j > k {
				boundary = o.RunEnd
			}
			if isClassB(text[boundary-1]) {
				continue
			}
			v.failf("script", "run %d is left with script %s although the adjacent run %d of the same direction has script %s: %s", k, o.Script, j, out[j].Script, describe(out))
		}
	}

	// --- matched brackets follow the script of their opener (well-nested texts only)
	bi := analyseBrackets(text, in.RunStart, in.RunEnd)
	switch {
	case !bi.any:
	case bi.unknown:
		v.labels = append(v.labels, "brackets_unpaired_kind")
	case !bi.wellNested:
		v.labels = append(v.labels, "brackets_not_well_nested")
	default:
		v.labels = append(v.labels, "brackets_well_nested")
	}
	checkPairs := bi.any && !bi.unknown && bi.wellNested
	if checkPairs && bi.misaligned {
		v.labels = append(v.labels, "brackets_cjk")
		if ev.Known(findDelimTable) {
			v.excluded = append(v.excluded, findDelimTable)
			checkPairs = false
		}
	}
	for _, p := range bi.pairs {
		ko, kc := runOf[p.open-in.RunStart], runOf[p.close-in.RunStart]
		for k := ko; k < kc; k++ {
			if out[k].Script != out[k+1].Script {
				v.spanScript = true
			}
		}
		if !checkPairs {
			continue
		}
		so, sc := out[ko].Script, out[kc].Script
		if so == sc || !so.Strong() || !sc.Strong() {
			continue
		}
		// structural matcher of findStackOverwrite: a bidi run boundary (level parity change
		// or paragraph boundary) lies between the opener and the closer
		crosses := false
		for i := p.open + 1; i <= p.close; i++ {
			a, b := par[i-1-in.RunStart], par[i-in.RunStart]
			if a != b || a < 0 {
				crosses = true
				break
			}
		}
		if crosses && ev.Known(findStackOverwrite) {
			v.excluded = append(v.excluded, findStackOverwrite)
			continue
		}
		v.failf("brackets", "closing bracket %U at %d lies in a run of script %s, its opener %U at %d in a run of script %s (well nested text; pair crosses a bidi run boundary: %v): %s",
			text[p.close], p.close, sc, text[p.open], p.open, so, crosses, describe(out))
	}
	if v.spanScript {
		v.labels = append(v.labels, "pair_spans_script_change")
	}

	// --- vertical orientation
	if resolveOrientation {
		v.labels = append(v.labels, "orientation_resolved")
		for k, o := range out {
			if !o.Direction.HasVerticalOrientation() {
				v.failf("orientation", "run %d: orientation not resolved for vertical text: %s", k, describe(out))
				continue
			}
			vo := ucd.LookupVerticalOrientation(o.Script)
			for i := o.RunStart; i < o.RunEnd; i++ {
				r := text[i]
				if want := vo.Orientation(r); want != o.Direction.IsSideways() {
					v.failf("orientation", "run %d (script %s) sideways=%v but LookupVerticalOrientation gives %v for rune %d (%U): %s",
						k, o.Script, o.Direction.IsSideways(), want, i, r, describe(out))
					break
				}
				if want, ok := vertAnchor[r]; ok && language.LookupScript(r) == o.Script && want != o.Direction.IsSideways() {
					v.failf("orientation", "run %d (script %s) sideways=%v but UAX #50 gives sideways=%v for rune %d (%U): %s",
						k, o.Script, o.Direction.IsSideways(), want, i, r, describe(out))
					break
				}
			}
		}
	}

	// --- face
	fm, _ := c.Fontmap.build()
	for k, o := range out {
		if o.Face == nil {
			v.failf("face", "run %d has no face: %s", k, describe(out))
			continue
		}
		fm.hint = 0
		if c.Fontmap.WithScript {
			fm.hint = o.Script
		}
		for i := o.RunStart; i < o.RunEnd; i++ {
			r := text[i]
			if ignoreFaceChangeMirror(r) {
				continue
			}
			if want := facePool[fm.pick(r)]; want != o.Face {
				v.failf("face", "run %d: rune %d (%U) resolves to face #%d, not the run's: %s", k, i, r, fm.pick(r), describe(out))
				break
			}
		}
		// a rune that must not trigger a change of font does not start a run that differs from
		// the previous one only by its face
		if k > 0 {
			p := out[k-1]
			if p.Direction == o.Direction && p.Script == o.Script && p.Face != o.Face &&
				ignoreFaceChangeMirror(text[o.RunStart]) && !isClassB(text[o.RunStart-1]) {
				v.failf("face", "run %d starts with %U, which must not trigger a change of font, and differs from run %d only by its face: %s",
					k, text[o.RunStart], k-1, describe(out))
			}
		}
	}

	// --- language
	inLang := in.Language
	if inLang == "" {
		inLang = "en"
	}
	id, known := language.NewLangID(inLang)
	replaced := false
	if !known {
		v.labels = append(v.labels, "language_unknown")
	}
	for k, o := range out {
		if !known {
			if o.Language != in.Language {
				v.failf("language", "run %d: unknown language %q replaced by %q", k, in.Language, o.Language)
			}
			continue
		}
		rid, ok := language.NewLangID(o.Language)
		if !ok {
			v.failf("language", "run %d: language %q is not known to the library (input %q)", k, o.Language, in.Language)
			continue
		}
		repl := language.ScriptToLang[o.Script]
		if !rid.UseScript(o.Script) && repl != 0 && rid != repl {
			v.failf("language", "run %d: language %q does not use script %s although a replacement (%q) exists", k, o.Language, o.Script, repl.Language())
		}
		if id.UseScript(o.Script) && rid != id {
			v.failf("language", "run %d: language %q is compatible with script %s but was replaced by %q", k, inLang, o.Script, o.Language)
		}
		if rid != id && !replaced {
			replaced = true
			v.labels = append(v.labels, "language_replaced")
		}
	}
	return
}

// sameRuns compares two results field by field.
func sameRuns(a, b []shaping.Input) string {
	if len(a) != len(b) {
		return fmt.Sprintf("%d runs vs %d runs:\n   %s\n   %s", len(a), len(b), describe(a), describe(b))
	}
	for i := range a {
		x, y := a[i], b[i]
		if x.RunStart != y.RunStart || x.RunEnd != y.RunEnd || x.Direction != y.Direction || x.Script != y.Script ||
			x.Language != y.Language || x.Face != y.Face || x.Size != y.Size || len(x.Text) != len(y.Text) ||
			len(x.Text) > 0 && &x.Text[0] != &y.Text[0] || len(x.FontFeatures) != len(y.FontFeatures) {
			return fmt.Sprintf("run %d differs:\n   %s\n   %s", i, describe(a), describe(b))
		}
	}
	return ""
}
