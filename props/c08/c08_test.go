// Package c08 decides property C08: the visual order of the runs of a wrapped line follows rule
// L2 of UAX #9 for the runs' embedding levels and the paragraph direction (also with a truncator
// appended), and trailing-whitespace trimming hits the glyph that is visually last in paragraph
// direction.
//
// Two generators:
//
//   - TestPropSynthetic — exhaustive small scope: every sequence of 1..7 runs with levels
//     paragraph-level..3, both paragraph directions, truncator off/appended/real truncation, one
//     line and every two-line split, three whitespace masks. The wrapper receives single-glyph
//     runs whose Direction is the level parity (all that itemization delivers).
//   - TestPropPipeline — rapid: paragraphs built from L words, Hebrew words, European numbers and
//     spaces whose levels are known through the mini-UBA of internal/uaxref (cross-checked against
//     x/text on every paragraph), through Segmenter.Split → HarfbuzzShaper.Shape → LineWrapper.
//
// Level sequences a UBA cannot produce: resolved levels are never below the paragraph level, so
// only sequences with every level >= paragraph level are enumerated (levels 0..3 for an LTR
// paragraph, 1..3 for an RTL one). Every such sequence is producible by the full algorithm with
// explicit embeddings (X1–X8 can open several levels without intervening text), so none of them
// is excluded.
package c08

import (
	"encoding/json"
	"fmt"
	"os"
	"path/filepath"
	"sort"
	"strings"
	"testing"

	"github.com/go-text/typesetting/di"
	"github.com/go-text/typesetting/font"
	"github.com/go-text/typesetting/language"
	"github.com/go-text/typesetting/shaping"
	"golang.org/x/image/math/fixed"
	"golang.org/x/text/unicode/bidi"
	"pgregory.net/rapid"

	"verif/internal/corpus"
	"verif/internal/ev"
	"verif/internal/uaxref"
)

func TestMain(m *testing.M) { ev.Main(m) }

// findingDeep is the known finding: only the parity of the bidi level survives itemization
// (Output.Direction), so a line containing text at level >= paragraph level + 2 cannot be ordered.
const findingDeep = "C08-deep-levels"

// findingFast is the known finding: the single-run fast path of WrapParagraph returns the run
// without the post-processing every other line gets: VisualIndex is not resolved (it stays what
// the caller's Output carried) and trailing whitespace is not trimmed.
const findingFast = "C08-fastpath-unprocessed"

// findingVert is the known finding: computeBidiOrdering compares the whole di.Direction byte of a
// run with WrapConfig.Direction, so a vertical run whose orientation bits (orientation set /
// sideways) differ from the configuration's is ordered as if it ran against the paragraph although
// it has the paragraph's own progression.
const findingVert = "C08-vertical-orientation-bits"

// harnessBug reports a defect of the check itself (not of the library): the process exits with a
// status the driver classifies as infrastructure, never as a violation.
func harnessBug(format string, args ...any) {
	fmt.Fprintf(os.Stderr, "HARNESS BUG (C08): "+format+"\n", args...)
	ev.Flush()
	os.Exit(3)
}

func dirOf(rtl bool) di.Direction {
	if rtl {
		return di.DirectionRTL
	}
	return di.DirectionLTR
}

// dirWith builds a direction from its facets: progression (rtl = toward the top left), axis, and
// for vertical text the orientation bits: 0 not set, 1 upright, 2 sideways.
func dirWith(rtl, vertical bool, orient int) di.Direction {
	if !vertical {
		return dirOf(rtl)
	}
	d := di.DirectionTTB
	if rtl {
		d = di.DirectionBTT
	}
	switch orient {
	case 1:
		d.SetSideways(false)
	case 2:
		d.SetSideways(true)
	}
	return d
}

// axisAdvance is the advance of a glyph along the axis of its run.
func axisAdvance(run *shaping.Output, g *shaping.Glyph) fixed.Int26_6 {
	if run.Direction.IsVertical() {
		return g.YAdvance
	}
	return g.XAdvance
}

// ---------------------------------------------------------------------------------------------
// the oracle for one line
// ---------------------------------------------------------------------------------------------

// lineCtx is what the oracle knows about the paragraph a line was cut from.
type lineCtx struct {
	// paraRTL: the progression of the paragraph direction is toward the top left (RTL or BTT)
	paraRTL bool
	// paraDir is WrapConfig.Direction as given to the wrapper (with its orientation bits)
	paraDir di.Direction
	// level of every rune of the paragraph (true UBA levels)
	levels []int
	// isTruncator recognises the truncator run (only ever accepted as logically last run)
	isTruncator func(run *shaping.Output) bool
	// pristine advance and whitespace-ness of the glyph of a cluster, before wrapping
	glyphOf func(cluster int) (adv fixed.Int26_6, ws bool, ok bool)
	// trimming enabled
	trim bool
	// tag prefixes the labels ("syn" / "pipe")
	tag string
	// fastPath: the structural matcher of C08-fastpath-unprocessed holds for this paragraph
	// (WrapParagraph, a single input run, no mandatory break, the run fits the width, not
	// TextContinues with TruncateAfterLines == 1)
	fastPath bool
	// inputVisualIndex is the (stale) VisualIndex the input runs carried into the wrapper
	inputVisualIndex int32
}

type lineStats struct {
	nontrivial bool // >= 2 runs of different direction
	maxDelta   int  // max level - paragraph level over the text of the line
	skipped    string
}

type failFn func(format string, args ...any)

// checkLine evaluates every clause of C08 on one returned line.
func checkLine(line shaping.Line, cx *lineCtx, fail failFn) (st lineStats) {
	n := len(line)
	if n == 0 {
		st.skipped = "empty_line"
		return st
	}
	e := 0
	if cx.paraRTL {
		e = 1
	}
	// --- clause 1: VisualIndex is a permutation of 0..n-1
	vi := make([]int, n)
	seen := make([]bool, n)
	for i := range line {
		v := int(line[i].VisualIndex)
		if cx.fastPath && n == 1 && v != 0 && line[i].VisualIndex == cx.inputVisualIndex && ev.Known(findingFast) {
			// known finding: the fast path hands the caller's stale VisualIndex back; continue with
			// the index post-processing assigns to a single run
			ev.Excluded(findingFast)
			ev.Label(cx.tag + "_fastpath_stale_visualindex")
			v = 0
		}
		vi[i] = v
		if v < 0 || v >= n || seen[v] {
			fail("VisualIndex is not a permutation of 0..%d: %v", n-1, visualIndices(line))
			return st
		}
		seen[v] = true
	}
	// --- identify truncator and text runs
	nText := n
	hasTrunc := false
	if cx.isTruncator != nil && cx.isTruncator(&line[n-1]) {
		nText = n - 1
		hasTrunc = true
	}
	// the text runs must be a contiguous logical slice of the paragraph (precondition of L2 on a
	// line; its violation is the business of C02, not C08)
	for i := 0; i < nText; i++ {
		r := line[i].Runes
		if r.Count <= 0 || r.Offset < 0 || r.Offset+r.Count > len(cx.levels) {
			st.skipped = "malformed_run_range"
			return st
		}
		if i > 0 && line[i-1].Runes.Offset+line[i-1].Runes.Count != r.Offset {
			st.skipped = "noncontiguous_runs"
			return st
		}
	}
	// --- per run: direction is the parity of the levels of its text
	reduced := make([]int, 0, n) // parity-reduced level per run (paragraph level or +1)
	dirs := map[di.Progression]bool{}
	for i := 0; i < nText; i++ {
		r := line[i].Runes
		rtl := line[i].Direction.Progression() == di.TowardTopLeft
		for k := r.Offset; k < r.Offset+r.Count; k++ {
			lv := cx.levels[k]
			if (lv%2 == 1) != rtl {
				fail("run %d (runes %d..%d, direction %v) contains rune %d at embedding level %d: run direction is not the level parity",
					i, r.Offset, r.Offset+r.Count-1, line[i].Direction, k, lv)
				return st
			}
			if lv-e > st.maxDelta {
				st.maxDelta = lv - e
			}
		}
		lv := e
		if rtl != cx.paraRTL {
			lv = e + 1
		}
		reduced = append(reduced, lv)
		dirs[line[i].Direction.Progression()] = true
	}
	// the truncator is a run like the others, logically last: at paragraph level when it was shaped
	// in the paragraph direction, one level above otherwise (its Direction is all the wrapper knows)
	truncLevel := e
	if hasTrunc {
		if (line[n-1].Direction.Progression() == di.TowardTopLeft) != cx.paraRTL {
			truncLevel = e + 1
			ev.Label(cx.tag + "_line_with_opposite_direction_truncator")
		}
		reduced = append(reduced, truncLevel)
		dirs[line[n-1].Direction.Progression()] = true
	}
	st.nontrivial = n >= 2 && len(dirs) >= 2

	// --- clause 2a: agreement with L2 over the parity-reduced levels (always demanded)
	order := uaxref.L2Order(reduced)
	want := make([]int, n)
	for v, logical := range order {
		want[logical] = v
	}
	vertExcluded := false
	for i := range want {
		if want[i] == vi[i] {
			continue
		}
		// Structural matcher of C08-vertical-orientation-bits: some run of the line (truncator
		// included) has the paragraph's progression but not its Direction byte. The weaker
		// predicate still demanded there: L2 over the levels the byte comparison yields.
		matches := false
		byteLevels := make([]int, n)
		for k := range line {
			same := line[k].Direction == cx.paraDir
			if !same && (line[k].Direction.Progression() == di.TowardTopLeft) == cx.paraRTL {
				matches = true
			}
			byteLevels[k] = e
			if !same {
				byteLevels[k] = e + 1
			}
		}
		if matches && ev.Known(findingVert) {
			ok := true
			for v, logical := range uaxref.L2Order(byteLevels) {
				if vi[logical] != v {
					ok = false
				}
			}
			if ok {
				ev.Excluded(findingVert)
				ev.Label(cx.tag + "_line_orientation_bits_misordered")
				vertExcluded = true
				break
			}
		}
		fail("VisualIndex %v differs from rule L2 over the runs' levels %v (paragraph level %d, paragraph direction %d, run directions %v): want %v",
			vi, reduced, e, cx.paraDir, runDirections(line), want)
		return st
	}

	// --- clause 2b: agreement with L2 over the true levels, rune by rune
	// visual rune order implied by the wrapper: runs by VisualIndex, runes inside a run by the
	// run's direction; the truncator is one item (-1) at paragraph level.
	var implied []int
	byVisual := make([]int, n)
	for i, v := range vi {
		byVisual[v] = i
	}
	for _, i := range byVisual {
		if hasTrunc && i == n-1 {
			implied = append(implied, -1)
			continue
		}
		r := line[i].Runes
		if line[i].Direction.Progression() == di.TowardTopLeft {
			for k := r.Offset + r.Count - 1; k >= r.Offset; k-- {
				implied = append(implied, k)
			}
		} else {
			for k := r.Offset; k < r.Offset+r.Count; k++ {
				implied = append(implied, k)
			}
		}
	}
	var items, itemLevels []int
	if nText > 0 {
		start := line[0].Runes.Offset
		end := line[nText-1].Runes.Offset + line[nText-1].Runes.Count
		for k := start; k < end; k++ {
			items = append(items, k)
			itemLevels = append(itemLevels, cx.levels[k])
		}
	}
	if hasTrunc {
		items = append(items, -1)
		itemLevels = append(itemLevels, truncLevel)
	}
	trueOrder := uaxref.L2Order(itemLevels)
	misordered := len(trueOrder) != len(implied)
	for v := 0; !misordered && v < len(trueOrder); v++ {
		if items[trueOrder[v]] != implied[v] {
			misordered = true
		}
	}
	deep := st.maxDelta >= 2 // the structural matcher of C08-deep-levels
	if deep {
		ev.Label(cx.tag + "_line_deep")
	}
	if vertExcluded {
		// already counted under C08-vertical-orientation-bits; the rune order is wrong by the same defect
	} else if misordered {
		if deep && ev.Known(findingDeep) {
			ev.Excluded(findingDeep)
			ev.Label(cx.tag + "_line_deep_misordered")
		} else {
			wantRunes := make([]int, len(trueOrder))
			for v := range trueOrder {
				wantRunes[v] = items[trueOrder[v]]
			}
			fail("visual order of the line's text (rune indices left to right, -1 = truncator) is %v, rule L2 over the embedding levels %v demands %v (paragraph level %d, run VisualIndex %v)",
				implied, itemLevels, wantRunes, e, vi)
			return st
		}
	} else if deep {
		ev.Label(cx.tag + "_line_deep_ordered_correctly")
	}

	// --- clause 3: trailing-whitespace trimming
	if cx.glyphOf != nil {
		checkTrim(line, nText, vi, cx, fail)
	}
	return st
}

func runDirections(line shaping.Line) []int {
	out := make([]int, len(line))
	for i := range line {
		out[i] = int(line[i].Direction)
	}
	return out
}

func visualIndices(line shaping.Line) []int {
	out := make([]int, len(line))
	for i := range line {
		out[i] = int(line[i].VisualIndex)
	}
	return out
}

// checkTrim: with trimming enabled, exactly one glyph of the line may have lost its advance: the
// glyph at the paragraph-direction end of the text run that is visually last in paragraph
// direction, and only if it is whitespace; every other glyph keeps the advance it was shaped with.
func checkTrim(line shaping.Line, nText int, vi []int, cx *lineCtx, fail failFn) {
	if nText == 0 {
		return
	}
	target := -1
	for i := 0; i < nText; i++ {
		if target == -1 || (!cx.paraRTL && vi[i] > vi[target]) || (cx.paraRTL && vi[i] < vi[target]) {
			target = i
		}
	}
	targetGlyph := -1
	if g := len(line[target].Glyphs); g > 0 {
		targetGlyph = g - 1
		if cx.paraRTL {
			targetGlyph = 0
		}
	}
	for i := 0; i < nText; i++ {
		var sum fixed.Int26_6
		for gi := range line[i].Glyphs {
			g := &line[i].Glyphs[gi]
			gAdv := axisAdvance(&line[i], g)
			sum += gAdv
			adv, ws, ok := cx.glyphOf(g.ClusterIndex)
			if !ok {
				ev.Label(cx.tag + "_trim_glyph_unmapped")
				continue
			}
			wantAdv := adv
			isTarget := i == target && gi == targetGlyph
			if cx.trim && isTarget && ws {
				wantAdv = 0
				ev.Label(cx.tag + "_trim_hit")
			} else if isTarget {
				ev.Label(cx.tag + "_trim_target_not_space")
			}
			if gAdv != wantAdv && isTarget && cx.fastPath && cx.trim && ws && gAdv == adv && ev.Known(findingFast) {
				ev.Excluded(findingFast)
				ev.Label(cx.tag + "_fastpath_not_trimmed")
				continue
			}
			if gAdv != wantAdv {
				what := "is not the visually last glyph in paragraph direction"
				if isTarget {
					what = fmt.Sprintf("is the visually last glyph in paragraph direction (whitespace=%v, trimming enabled=%v)", ws, cx.trim)
				}
				fail("glyph %d of run %d (cluster %d, VisualIndex %d of %v) %s: advance %d, shaped advance %d, want %d",
					gi, i, g.ClusterIndex, vi[i], vi, what, gAdv, adv, wantAdv)
				return
			}
		}
		if i == target && line[i].Advance != sum {
			fail("run %d (visually last): Advance %d is not the sum of its glyph advances %d after trimming", i, line[i].Advance, sum)
			return
		}
	}
}

// ---------------------------------------------------------------------------------------------
// synthetic enumerator
// ---------------------------------------------------------------------------------------------

const (
	synStaleVI   = -7      // VisualIndex the synthetic runs carry into the wrapper (must be overwritten)
	synAdv       = 10      // advance of every synthetic glyph, in pixels
	synTruncGID  = 0xFFF0  // glyph id of the synthetic truncator
	synHugeWidth = 1 << 20 // "unlimited" line width
	synRune      = '一'     // ID class: a UAX #14 break opportunity between any two runs
)

// synCase is one case of the enumerator (decoded; also the replay format).
type synCase struct {
	ParaRTL bool  `json:"para_rtl"`
	Levels  []int `json:"levels"` // embedding level of run i
	// Glyphs[i] is the number of glyphs (= runes, one cluster each) of run i; nil: one glyph per
	// run. The glyphs of a right-to-left run are stored in visual order (descending cluster).
	Glyphs []int `json:"glyphs,omitempty"`
	// TruncMode 0: no truncation. 1: TruncateAfterLines = number of lines, TextContinues (truncator
	// appended after the complete text). 2: TruncateAfterLines = 1 with a width for Split runs plus
	// the truncator (text really truncated).
	TruncMode int `json:"trunc_mode"`
	// Split 0: unlimited width. j > 0: first line width = j glyph advances, later lines unlimited
	// (there is a UAX #14 break opportunity between any two glyphs, also inside a run).
	Split int `json:"split"`
	// WSMask bit k set: the glyph of rune (cluster) k of the paragraph is whitespace (Width 0).
	WSMask uint `json:"ws_mask"`
	// WSList: further whitespace runes (paragraphs of more than 64 runes).
	WSList      []int `json:"ws_list,omitempty"`
	DisableTrim bool  `json:"disable_trim"`
	// TruncOpp: the truncator run has the direction opposite to the paragraph's.
	TruncOpp bool `json:"trunc_opposite,omitempty"`
	// WrapParagraph: use LineWrapper.WrapParagraph with the first-line width for every line
	// instead of successive WrapNextLine calls.
	WrapParagraph bool `json:"wrap_paragraph"`
	// Vertical: the paragraph and its runs are vertical (TTB for even levels, BTT for odd ones).
	// The orientation bits of WrapConfig.Direction (CfgOrient), of every run (RunOrient[i]) and of
	// the truncator (TruncOrient) are independent: 0 not set, 1 upright, 2 sideways. Glyphs advance
	// along y: by -10 (what the shaper produces) on unlimited lines, by +10 when a width limits the
	// line, because the wrapper compares the signed sum of the advances with maxWidth (C04's business).
	Vertical    bool  `json:"vertical,omitempty"`
	CfgOrient   int   `json:"cfg_orient,omitempty"`
	RunOrient   []int `json:"run_orient,omitempty"`
	TruncOrient int   `json:"trunc_orient,omitempty"`
}

// synSign is the sign of the synthetic glyph advances.
func (c *synCase) synSign() int {
	if c.Vertical && c.Split == 0 && c.TruncMode != 2 {
		return -1
	}
	return 1
}

// isWS tells whether the glyph of rune k is whitespace.
func (c *synCase) wsSet() func(k int) bool {
	var list map[int]bool
	if len(c.WSList) > 0 {
		list = make(map[int]bool, len(c.WSList))
		for _, k := range c.WSList {
			list[k] = true
		}
	}
	mask := c.WSMask
	return func(k int) bool { return k >= 0 && k < 64 && mask>>uint(k)&1 == 1 || list[k] }
}

// synRuns builds the runs, the paragraph text and the embedding level of every rune.
func synRuns(c synCase) (runs []shaping.Output, text []rune, runeLevels []int) {
	n := len(c.Levels)
	isWS := c.wsSet()
	runs = make([]shaping.Output, n)
	off := 0
	for i, lv := range c.Levels {
		k := 1
		if c.Glyphs != nil {
			k = c.Glyphs[i]
		}
		rtl := lv%2 == 1
		glyphs := make([]shaping.Glyph, k)
		for j := 0; j < k; j++ {
			cluster := off + j
			if rtl {
				cluster = off + k - 1 - j
			}
			w := fixed.I(8)
			if isWS(cluster) {
				w = 0
			}
			glyphs[j] = shaping.Glyph{
				Width: w, Height: -w, YBearing: fixed.I(8), XAdvance: fixed.I(synAdv),
				ClusterIndex: cluster, RuneCount: 1, GlyphCount: 1, GlyphID: font.GID(cluster + 1),
			}
			if c.Vertical {
				glyphs[j].XAdvance, glyphs[j].YAdvance = 0, fixed.I(synAdv*c.synSign())
			}
			text = append(text, synRune)
			runeLevels = append(runeLevels, lv)
		}
		orient := 0
		if c.RunOrient != nil {
			orient = c.RunOrient[i]
		}
		runs[i] = shaping.Output{
			Advance:     fixed.I(synAdv * k * c.synSign()),
			Size:        fixed.I(16),
			Direction:   dirWith(rtl, c.Vertical, orient),
			Runes:       shaping.Range{Offset: off, Count: k},
			Glyphs:      glyphs,
			VisualIndex: synStaleVI,
		}
		off += k
	}
	return runs, text, runeLevels
}

// runSynthetic wraps one synthetic paragraph and checks every returned line. It reports whether a
// non-trivial line was seen.
func runSynthetic(t ev.TB, c synCase) (nontrivial bool) {
	failing := false
	fail := func(format string, args ...any) {
		t.Helper()
		failing = true
		ev.Fail(t, "synthetic", c, "%s", fmt.Sprintf(format, args...))
	}
	defer func() {
		if r := recover(); r != nil {
			if failing {
				panic(r) // rapid's own control flow after Fatalf
			}
			ev.Fail(t, "synthetic", c, "panic: %v", r)
		}
	}()
	n := len(c.Levels)
	e := 0
	if c.ParaRTL {
		e = 1
	}
	for _, lv := range c.Levels {
		if lv < e {
			harnessBug("synthetic case with level %d below paragraph level %d", lv, e)
		}
	}
	if c.Glyphs != nil && len(c.Glyphs) != n {
		harnessBug("synthetic case with %d runs and %d glyph counts", n, len(c.Glyphs))
	}
	runs, text, runeLevels := synRuns(c)
	nRunes := len(text)
	isWS := c.wsSet()
	if c.RunOrient != nil && len(c.RunOrient) != n {
		harnessBug("synthetic case with %d runs and %d run orientations", n, len(c.RunOrient))
	}
	trunc := shaping.Output{
		Advance: fixed.I(synAdv * c.synSign()), Size: fixed.I(16), Direction: dirWith(c.ParaRTL != c.TruncOpp, c.Vertical, c.TruncOrient),
		Glyphs:      []shaping.Glyph{{Width: fixed.I(8), Height: -fixed.I(8), XAdvance: fixed.I(synAdv), GlyphID: synTruncGID, GlyphCount: 1}},
		VisualIndex: -9,
	}
	if c.Vertical {
		trunc.Glyphs[0].XAdvance, trunc.Glyphs[0].YAdvance = 0, fixed.I(synAdv*c.synSign())
	}
	cfg := shaping.WrapConfig{Direction: dirWith(c.ParaRTL, c.Vertical, c.CfgOrient), DisableTrailingWhitespaceTrim: c.DisableTrim}
	first := synHugeWidth
	if c.Split > 0 {
		first = c.Split * synAdv
	}
	switch c.TruncMode {
	case 1:
		cfg.Truncator = trunc
		cfg.TextContinues = true
		cfg.TruncateAfterLines = 1
		if c.Split > 0 {
			cfg.TruncateAfterLines = 2
		}
	case 2:
		cfg.Truncator = trunc
		cfg.TruncateAfterLines = 1
		first = c.Split*synAdv + synAdv
	}
	cx := &lineCtx{
		paraRTL: c.ParaRTL,
		paraDir: cfg.Direction,
		levels:  runeLevels,
		isTruncator: func(run *shaping.Output) bool {
			return c.TruncMode != 0 && len(run.Glyphs) == 1 && run.Glyphs[0].GlyphID == synTruncGID
		},
		glyphOf: func(cluster int) (fixed.Int26_6, bool, bool) {
			if cluster < 0 || cluster >= nRunes {
				return 0, false, false
			}
			return fixed.I(synAdv * c.synSign()), isWS(cluster), true
		},
		trim: !c.DisableTrim,
		tag:  "syn",
	}
	cx.fastPath = c.WrapParagraph && n == 1 && !(cfg.TextContinues && cfg.TruncateAfterLines == 1) && synAdv*nRunes*c.synSign() <= first
	cx.inputVisualIndex = synStaleVI
	var w shaping.LineWrapper
	var paraLines []shaping.Line
	if c.WrapParagraph {
		paraLines, _ = w.WrapParagraph(cfg, first, text, shaping.NewSliceIterator(runs))
	} else {
		w.Prepare(cfg, text, shaping.NewSliceIterator(runs))
	}
	width := first
	for iter := 0; iter < nRunes+3; iter++ {
		var wl shaping.WrappedLine
		var done bool
		if c.WrapParagraph {
			if iter >= len(paraLines) {
				break
			}
			wl.Line, done = paraLines[iter], iter == len(paraLines)-1
		} else {
			wl, done = w.WrapNextLine(width)
		}
		width = synHugeWidth
		st := checkLine(wl.Line, cx, fail)
		if st.skipped != "" {
			ev.Label("syn_" + st.skipped)
		} else {
			ev.Label(fmt.Sprintf("syn_line_maxdelta=%d", st.maxDelta))
			if st.nontrivial {
				nontrivial = true
				ev.Label("syn_line_nontrivial")
			}
			if m := len(wl.Line); m > 0 && cx.isTruncator(&wl.Line[m-1]) {
				ev.Label("syn_line_with_truncator")
			}
			if c.Glyphs != nil && len(wl.Line) == 1 && (wl.Line[0].Direction.Progression() == di.TowardTopLeft) != c.ParaRTL {
				ev.Label("syn_multi_line_lone_opposite_run")
			}
			switch m := len(wl.Line); {
			case m > 100:
				ev.Label("syn_line_runs>100")
			case m > 64:
				ev.Label("syn_line_runs=65..100")
			case m > 32:
				ev.Label("syn_line_runs=33..64")
			case m > 16:
				ev.Label("syn_line_runs=17..32")
			case m > 7:
				ev.Label("syn_line_runs=8..16")
			}
		}
		if done {
			break
		}
	}
	return nontrivial
}

func popcountMask(n int) uint { return 1<<uint(n) - 1 }

// enumerate calls f for every level sequence of 1..maxRuns runs with levels paragraph level..maxLevel.
func enumerate(maxRuns, maxLevel int, f func(paraRTL bool, levels []int)) {
	for _, rtl := range []bool{false, true} {
		e := 0
		if rtl {
			e = 1
		}
		base := maxLevel - e + 1
		for n := 1; n <= maxRuns; n++ {
			levels := make([]int, n)
			total := 1
			for i := 0; i < n; i++ {
				total *= base
			}
			for idx := 0; idx < total; idx++ {
				x := idx
				for i := 0; i < n; i++ {
					levels[i] = e + x%base
					x /= base
				}
				f(rtl, levels)
			}
		}
	}
}

// TestPropSynthetic is the exhaustive enumerator (complete in both tiers for 1..7 runs with levels
// up to 3; the thorough tier adds 8 runs and levels up to 5 for up to 6 runs).
func TestPropSynthetic(t *testing.T) {
	shard, nshards := ev.Shard()
	rng := ev.NewRand(uint64(ev.Seed())*0x9E3779B9 + uint64(shard))
	var total, nt int64
	seqNo := 0
	one := func(rtl bool, levels []int) {
		seqNo++
		if seqNo%nshards != shard {
			return
		}
		n := len(levels)
		lv := append([]int(nil), levels...)
		all := popcountMask(n)
		masks := []uint{0, all, uint(rng.Uint64()) & all}
		run := func(c synCase) {
			total++
			if runSynthetic(t, c) {
				nt++
			}
			if total%50021 == 0 {
				ev.Sample(c)
			}
		}
		for truncMode := 0; truncMode <= 1; truncMode++ {
			for split := 0; split < n; split++ {
				for _, m := range masks {
					run(synCase{ParaRTL: rtl, Levels: lv, TruncMode: truncMode, Split: split, WSMask: m})
				}
			}
		}
		for split := 0; split < n; split++ {
			run(synCase{ParaRTL: rtl, Levels: lv, TruncMode: 1, Split: split, WSMask: masks[0], TruncOpp: true})
		}
		for split := 1; split < n; split++ {
			run(synCase{ParaRTL: rtl, Levels: lv, TruncMode: 2, Split: split, WSMask: masks[2], TruncOpp: true})
			run(synCase{ParaRTL: rtl, Levels: lv, TruncMode: 2, Split: split, WSMask: masks[0]})
			run(synCase{ParaRTL: rtl, Levels: lv, TruncMode: 2, Split: split, WSMask: masks[2]})
		}
		run(synCase{ParaRTL: rtl, Levels: lv, TruncMode: 0, Split: 0, WSMask: all, DisableTrim: true})
		for truncMode := 0; truncMode <= 1; truncMode++ {
			run(synCase{ParaRTL: rtl, Levels: lv, TruncMode: truncMode, Split: 0, WSMask: all, WrapParagraph: true})
			run(synCase{ParaRTL: rtl, Levels: lv, TruncMode: truncMode, Split: (n + 1) / 2, WSMask: masks[2], WrapParagraph: true})
		}
	}
	enumerate(7, 3, one)
	if ev.Thorough() {
		enumerate(8, 3, func(rtl bool, levels []int) {
			if len(levels) == 8 {
				one(rtl, levels)
			}
		})
		enumerate(6, 5, func(rtl bool, levels []int) {
			for _, l := range levels {
				if l > 3 {
					one(rtl, levels)
					return
				}
			}
		})
	}
	ev.CaseEnum(total, nt)
}

// synMultiVariants runs one (level sequence, glyph counts, whitespace mask) through both APIs, with
// and without truncator, on one line and on first-line widths of every (or, when sparse, a few)
// glyph counts, with trimming on and off.
func synMultiVariants(t *testing.T, rtl bool, lv, counts []int, mask uint, sparse bool, rng *ev.Rand, run func(synCase)) {
	g := 0
	for _, k := range counts {
		g += k
	}
	base := synCase{ParaRTL: rtl, Levels: lv, Glyphs: counts, WSMask: mask}
	splits := make([]int, 0, g)
	if sparse {
		splits = append(splits, 0, 1+rng.Intn(g), 1+rng.Intn(g))
	} else {
		for sp := 0; sp < g; sp++ {
			splits = append(splits, sp)
		}
	}
	for truncMode := 0; truncMode <= 1; truncMode++ {
		for _, sp := range splits {
			c := base
			c.TruncMode, c.Split = truncMode, sp
			run(c)
		}
		// WrapParagraph: unlimited, exact fit (fast path with a finite width), half
		for _, sp := range []int{0, g, (g + 1) / 2} {
			c := base
			c.TruncMode, c.Split, c.WrapParagraph = truncMode, sp, true
			run(c)
		}
	}
	for _, sp := range splits {
		if sp == 0 || sparse && sp > 1 {
			continue
		}
		c := base
		c.TruncMode, c.Split = 2, sp
		run(c)
	}
	for _, wp := range []bool{false, true} {
		c := base
		c.DisableTrim, c.WrapParagraph = true, wp
		run(c)
	}
}

// TestPropSyntheticMulti: runs with several glyphs, so that "which end of which run" matters for
// the trimming clause and lines are also cut inside runs. Exhaustive part: every level sequence of
// 1..3 runs (levels up to 3, both paragraph directions) x two seeded tuples of glyph counts in 2..4
// x every combination of {first glyph, last glyph} of every run being whitespace (interior glyphs
// seeded) x {WrapNextLine, WrapParagraph (fast path included)} x truncator off/appended/truncating
// x every first-line width x trimming on/off. Sampled part: seeded level sequences of 4..7 runs
// with 1..4 glyphs per run and a seeded whitespace mask.
func TestPropSyntheticMulti(t *testing.T) {
	shard, nshards := ev.Shard()
	rng := ev.NewRand(uint64(ev.Seed())*0x2545F491 + 77)
	var total, nt int64
	run := func(c synCase) {
		total++
		if runSynthetic(t, c) {
			nt++
		}
		if total%20011 == 0 {
			ev.Sample(c)
		}
	}
	seqNo := 0
	enumerate(3, 3, func(rtl bool, levels []int) {
		seqNo++
		mine := seqNo%nshards == shard
		n := len(levels)
		lv := append([]int(nil), levels...)
		for rep := 0; rep < 2; rep++ {
			// the generator state advances identically in every shard
			counts := make([]int, n)
			g := 0
			for i := range counts {
				counts[i] = 2 + rng.Intn(3)
				g += counts[i]
			}
			interior := uint(rng.Uint64())
			if !mine {
				continue
			}
			for ends := 0; ends < 1<<uint(2*n); ends++ {
				mask := uint(0)
				off := 0
				for i, k := range counts {
					for j := 1; j < k-1; j++ {
						mask |= interior >> uint(off+j) & 1 << uint(off+j)
					}
					if ends>>uint(2*i)&1 == 1 {
						mask |= 1 << uint(off)
					}
					if ends>>uint(2*i+1)&1 == 1 {
						mask |= 1 << uint(off+k-1)
					}
					off += k
				}
				synMultiVariants(t, rtl, lv, counts, mask, false, rng2(ev.Seed(), seqNo, rep, ends), run)
			}
		}
	})
	ev.CaseEnum(total, nt)
	// sampled longer sequences (may repeat: counted distinct by key)
	nSample := ev.Scale(6000, 60000)
	for s := 0; s < nSample; s++ {
		rtl := rng.Intn(2) == 1
		e := 0
		if rtl {
			e = 1
		}
		n := 4 + rng.Intn(4)
		lv := make([]int, n)
		counts := make([]int, n)
		g := 0
		for i := range lv {
			lv[i] = e + rng.Intn(4-e)
			counts[i] = 1 + rng.Intn(4)
			g += counts[i]
		}
		mask := uint(rng.Uint64()) & (1<<uint(g) - 1)
		if rng.Intn(4) == 0 {
			mask = 1<<uint(g) - 1
		}
		sub := rng2(ev.Seed(), -1, s, 0)
		if s%nshards != shard {
			continue
		}
		synMultiVariants(t, rtl, lv, counts, mask, true, sub, func(c synCase) {
			ev.Case(runSynthetic(t, c), fmt.Sprintf("%+v", c))
		})
	}
}

// TestPropSyntheticVertical: vertical paragraphs whose runs, truncator and WrapConfig.Direction
// carry independent orientation bits (not set / upright / sideways), as Segmenter.Split produces
// for mixed scripts (it sets the bits of every run from its script while the caller's
// WrapConfig.Direction usually is the plain DirectionTTB). The level of a run comes from its
// progression alone. Every level sequence of 1..4 runs (levels up to 3, both progressions) x the
// three configurations x every orientation pattern of the runs (1..3 runs; 12 seeded patterns for
// 4 runs) x single- and multi-glyph runs x truncator off / appended with each orientation and
// either progression / truncating x one line and one split x both APIs x trimming on/off.
func TestPropSyntheticVertical(t *testing.T) {
	shard, nshards := ev.Shard()
	var total, nt int64
	run := func(c synCase) {
		total++
		if runSynthetic(t, c) {
			nt++
		}
		if total%30011 == 0 {
			ev.Sample(c)
		}
	}
	seqNo := 0
	enumerate(4, 3, func(rtl bool, levels []int) {
		seqNo++
		if seqNo%nshards != shard {
			return
		}
		n := len(levels)
		lv := append([]int(nil), levels...)
		r := rng2(ev.Seed(), -11, seqNo, n)
		nPat := 1
		for i := 0; i < n; i++ {
			nPat *= 3
		}
		pats := make([]int, 0, nPat)
		if n <= 3 {
			for p := 0; p < nPat; p++ {
				pats = append(pats, p)
			}
		} else {
			for k := 0; k < 12; k++ {
				pats = append(pats, r.Intn(nPat))
			}
		}
		for cfgOrient := 0; cfgOrient < 3; cfgOrient++ {
			for _, p := range pats {
				orient := make([]int, n)
				x := p
				for i := range orient {
					orient[i] = x % 3
					x /= 3
				}
				base := synCase{ParaRTL: rtl, Levels: lv, Vertical: true, CfgOrient: cfgOrient, RunOrient: orient}
				var counts []int
				g := n
				if r.Intn(2) == 0 {
					counts = make([]int, n)
					g = 0
					for i := range counts {
						counts[i] = 1 + r.Intn(3)
						g += counts[i]
					}
					base.Glyphs = counts
				}
				base.WSMask = uint(r.Uint64()) & (1<<uint(g) - 1)
				if r.Intn(3) == 0 {
					base.WSMask = 1<<uint(g) - 1
				}
				for _, wp := range []bool{false, true} {
					c := base
					c.WrapParagraph = wp
					run(c)
					c.TruncMode, c.TruncOrient = 1, r.Intn(3)
					run(c)
					c.TruncOpp = true
					c.TruncOrient = r.Intn(3)
					run(c)
					if g > 1 {
						c = base
						c.WrapParagraph, c.Split = wp, 1+r.Intn(g-1)
						run(c)
						c.TruncMode, c.TruncOrient = 1, r.Intn(3)
						run(c)
					}
				}
				if g > 1 {
					c := base
					c.TruncMode, c.Split, c.TruncOrient = 2, 1+r.Intn(g-1), r.Intn(3)
					run(c)
				}
				c := base
				c.DisableTrim = true
				run(c)
			}
		}
	})
	ev.CaseEnum(total, nt)
}

// TestPropSyntheticLong: sizes beyond the internal constants of the wrapper. Seeded samples of
// level sequences with many runs per line: 8..80 runs and the sizes around 16, 32, 64 and 100
// (the capacity of the wrapper's line buffer), single- and multi-glyph runs, two-level and
// four-level sequences with persistent stretches, one line and split lines, truncator
// off/appended (either direction)/truncating, both paragraph directions, both wrapping APIs.
func TestPropSyntheticLong(t *testing.T) {
	shard, nshards := ev.Shard()
	var sizes []int
	special := []int{15, 16, 17, 18, 31, 32, 33, 63, 64, 65, 99, 100, 101, 130}
	for rep := 0; rep < ev.Scale(30, 100); rep++ {
		sizes = append(sizes, special...)
	}
	rng := ev.NewRand(uint64(ev.Seed())*0x51ED2701 + 5)
	for i := 0; i < ev.Scale(1000, 5000); i++ {
		sizes = append(sizes, 8+rng.Intn(73))
	}
	for si, n := range sizes {
		r := rng2(ev.Seed(), -7, si, n)
		if si%nshards != shard {
			continue
		}
		rtl := r.Intn(2) == 1
		e := 0
		if rtl {
			e = 1
		}
		span := 4 - e // levels e..3
		if r.Intn(2) == 0 {
			span = 2 // levels e, e+1: nothing deep, the true-level clause decides every line
		}
		multi := r.Intn(2) == 0 && n <= 80
		lv := make([]int, n)
		var counts []int
		if multi {
			counts = make([]int, n)
		}
		g := 0
		for i := range lv {
			if i > 0 && r.Intn(2) == 0 {
				lv[i] = lv[i-1]
			} else {
				lv[i] = e + r.Intn(span)
			}
			k := 1
			if multi {
				k = 1 + r.Intn(3)
				counts[i] = k
			}
			g += k
		}
		base := synCase{ParaRTL: rtl, Levels: lv, Glyphs: counts}
		all := r.Intn(4) == 0
		for k := 0; k < g; k++ {
			if all || r.Intn(4) == 0 {
				if k < 64 {
					base.WSMask |= 1 << uint(k)
				} else {
					base.WSList = append(base.WSList, k)
				}
			}
		}
		run := func(c synCase) {
			ev.Case(runSynthetic(t, c), fmt.Sprintf("%+v", c), fmt.Sprintf("syn_long_runs=%d", n/16*16))
			if ev.WantSample() && n <= 20 {
				ev.Sample(c)
			}
		}
		for _, wp := range []bool{false, true} {
			for truncMode := 0; truncMode <= 1; truncMode++ {
				c := base
				c.WrapParagraph, c.TruncMode = wp, truncMode
				run(c)
				c.Split = 1 + r.Intn(g)
				run(c)
			}
		}
		c := base
		c.TruncMode, c.TruncOpp = 1, true
		run(c)
		c = base
		c.TruncMode, c.Split = 2, 1+r.Intn(g)
		run(c)
		c.TruncOpp = true
		c.Split = 1 + r.Intn(g)
		run(c)
	}
}

// rng2 derives an independent deterministic generator for one enumerated item, so that every shard
// sees the same values whatever part of the space it skips.
func rng2(seed int64, a, b, c int) *ev.Rand {
	return ev.NewRand(uint64(seed)*0x9E3779B97F4A7C15 ^ uint64(a+2)*0xC2B2AE3D27D4EB4F ^ uint64(b+1)*0x165667B19E3779F9 ^ uint64(c+1)*0x27D4EB2F165667C5)
}

// ---------------------------------------------------------------------------------------------
// real pipeline
// ---------------------------------------------------------------------------------------------

// pipeCase is one by-construction paragraph (decoded; also the replay format).
type pipeCase struct {
	Font      string `json:"font"` // corpus-relative path
	FontIndex int    `json:"font_index"`
	// SplitFaces: the runes of the second half of each alphabet resolve to the other font of
	// pipeFonts, which splits runs without changing levels.
	SplitFaces bool   `json:"split_faces"`
	ParaRTL    bool   `json:"para_rtl"`
	Text       []int  `json:"text"` // runes
	TextStr    string `json:"text_string,omitempty"`
	// Widths are used cyclically as maxWidth of successive WrapNextLine calls (pixels).
	Widths             []int `json:"widths"`
	TruncateAfterLines int   `json:"truncate_after_lines"`
	TextContinues      bool  `json:"text_continues"`
	BreakPolicy        int   `json:"break_policy"`
	DisableTrim        bool  `json:"disable_trim"`
	// WrapParagraph: use LineWrapper.WrapParagraph with Widths[0] instead of WrapNextLine calls.
	WrapParagraph bool `json:"wrap_paragraph"`
	// Vertical: Input.Direction and WrapConfig.Direction are vertical (TTB, or BTT with ParaRTL).
	// Orientation bits (0 not set, 1 upright, 2 sideways) of Input.Direction (InputOrient: when
	// not set, Segmenter.Split resolves them per run from the script: sideways for Latin or
	// Hebrew, upright for Hiragana), of WrapConfig.Direction (CfgOrient) and of the direction the
	// truncator is shaped in (TruncOrient), all independent.
	Vertical    bool `json:"vertical,omitempty"`
	InputOrient int  `json:"input_orient,omitempty"`
	CfgOrient   int  `json:"cfg_orient,omitempty"`
	TruncOrient int  `json:"trunc_orient,omitempty"`
}

// vertFont covers Latin, Greek, Cyrillic, Hebrew, digits and Hiragana.
const vertFont = "opentype/common/mplus-1p-regular.ttf"

var pipeFonts = []string{"opentype/common/DejaVuSans.ttf", "opentype/common/FreeSerif.ttf"}

type oneFace struct{ f *font.Face }

func (o oneFace) ResolveFace(rune) *font.Face { return o.f }

type faceInfo struct {
	face     *font.Face
	ellipsis font.GID
}

var faceCache = map[string]*faceInfo{}

// loadFace returns a corpus face that covers Latin letters, digits, space, Hebrew and the
// ellipsis; anything else is a harness problem.
func loadFace(rel string, index int) *faceInfo {
	key := fmt.Sprintf("%s#%d", rel, index)
	if fi, ok := faceCache[key]; ok {
		return fi
	}
	faces, err := corpus.Faces(rel)
	if err != nil || index < 0 || index >= len(faces) {
		harnessBug("cannot load corpus font %s#%d: %v", rel, index, err)
	}
	f := faces[index]
	for _, r := range "azAZ09 את…αωая" {
		if _, ok := f.NominalGlyph(r); !ok {
			harnessBug("corpus font %s lacks %U", rel, r)
		}
	}
	g, _ := f.NominalGlyph('…')
	fi := &faceInfo{face: f, ellipsis: g}
	faceCache[key] = fi
	return fi
}

var (
	pipeShaper shaping.HarfbuzzShaper
	pipeSeg    shaping.Segmenter
	pipeBidi   bidi.Paragraph
)

// crossCheckXText compares the parity of the mini-UBA levels with the runs of x/text (the
// implementation itemization uses). Disagreement is a defect of the harness.
func crossCheckXText(text []rune, paraRTL bool, levels []int) {
	def := bidi.LeftToRight
	if paraRTL {
		def = bidi.RightToLeft
	}
	pipeBidi.SetString(string(text), bidi.DefaultDirection(def))
	o, err := pipeBidi.Order()
	if err != nil {
		harnessBug("x/text bidi failed on %q: %v", string(text), err)
	}
	covered := 0
	for i := 0; i < o.NumRuns(); i++ {
		r := o.Run(i)
		start, end := r.Pos()
		if start != covered {
			harnessBug("x/text runs not consecutive on %q: run %d starts at %d, expected %d", string(text), i, start, covered)
		}
		for k := start; k <= end; k++ {
			if k >= len(levels) || (levels[k]%2 == 1) != (r.Direction() == bidi.RightToLeft) {
				harnessBug("mini-UBA disagrees with x/text on %q (paragraph rtl=%v) at rune %d: mini levels %v, x/text run %d [%d..%d] direction %v",
					string(text), paraRTL, k, levels, i, start, end, r.Direction())
			}
		}
		covered = end + 1
	}
	if covered != len(text) {
		harnessBug("x/text runs cover %d of %d runes of %q", covered, len(text), string(text))
	}
}

func pipeKey(c pipeCase) string {
	return fmt.Sprintf("%s|%v|%v|%v|%v|%d|%v|%d|%v|%v|%v%d%d%d", c.Font, c.SplitFaces, c.ParaRTL, c.Text, c.Widths, c.TruncateAfterLines, c.TextContinues, c.BreakPolicy, c.DisableTrim, c.WrapParagraph, c.Vertical, c.InputOrient, c.CfgOrient, c.TruncOrient)
}

// runPipeline shapes and wraps one paragraph through the real pipeline and checks every line.
func runPipeline(t ev.TB, c pipeCase) {
	c.TextStr = string(intsToRunes(c.Text))
	failing := false
	fail := func(format string, args ...any) {
		t.Helper()
		failing = true
		ev.Fail(t, "pipeline", c, "%s", fmt.Sprintf(format, args...))
	}
	defer func() {
		if r := recover(); r != nil {
			if failing {
				panic(r) // rapid's own control flow after Fatalf
			}
			ev.Fail(t, "pipeline", c, "panic: %v", r)
		}
	}()
	fi := loadFace(c.Font, c.FontIndex)
	text := intsToRunes(c.Text)
	if len(text) == 0 || len(c.Widths) == 0 {
		harnessBug("empty pipeline case")
	}
	classes := make([]uaxref.BidiClass, len(text))
	onlyRAndSpace := true
	hasFormat := false
	for i, r := range text {
		cl, ok := uaxref.MiniBidiClassX(r)
		if !ok {
			harnessBug("rune %U outside the mini-UBA classes", r)
		}
		classes[i] = cl
		if cl != uaxref.BidiR && cl != uaxref.BidiWS {
			onlyRAndSpace = false
		}
		if uaxref.IsBidiFormat(cl) {
			hasFormat = true
		}
	}
	// P2/P3: first strong character outside isolates (embedding initiators are skipped, their
	// content is not)
	firstStrong := uaxref.BidiL
	if uaxref.MiniParagraphLevel(classes) == 1 {
		firstStrong = uaxref.BidiR
	}
	// Level at which itemization resolves the paragraph. Segmenter.splitByBidi passes
	// Input.Direction to x/text as bidi.DefaultDirection: right-to-left forces paragraph level 1,
	// but left-to-right is only a default that the first strong character overrides (rules P2/P3).
	e := 0
	if c.ParaRTL {
		e = 1
	}
	if !c.ParaRTL && firstStrong == uaxref.BidiR {
		// Input.Direction = WrapConfig.Direction = LTR but x/text resolves the levels of an RTL
		// paragraph. With L words or numbers present, the order the levels demand and the order
		// WrapConfig.Direction demands differ (itemization's business, not generated). With Hebrew
		// words and spaces only (no formatting), every rune is at level 1 whichever way the paragraph is read (one
		// right-to-left embedding; the spaces join it because x/text resolves them in an RTL
		// paragraph), so the run order and, through WrapConfig.Direction, the trimming clause are
		// well defined: such a paragraph is the "lone opposite-direction run" of an LTR line.
		if !onlyRAndSpace {
			harnessBug("LTR paragraph whose first strong character is R and that contains more than R and spaces: %q", string(text))
		}
		e = 1
		ev.Label("pipe_para_ltr_config_resolved_rtl")
	}
	levels := uaxref.MiniBidiLevelsX(classes, e, true)
	if hasFormat {
		ev.Label("pipe_para_with_explicit_formatting")
	} else {
		// the two implementations of the mini-UBA must agree on plain text
		plain := uaxref.MiniBidiLevels(classes, e, true)
		for i := range plain {
			if plain[i] != levels[i] {
				harnessBug("MiniBidiLevels %v and MiniBidiLevelsX %v disagree on %q", plain, levels, string(text))
			}
		}
	}
	crossCheckXText(text, c.ParaRTL, levels)

	const size = 16
	paraDir := dirWith(c.ParaRTL, c.Vertical, c.InputOrient)
	cfgDir := dirWith(c.ParaRTL, c.Vertical, c.CfgOrient)
	if c.Vertical {
		ev.Label("pipe_para_vertical")
	}
	in := shaping.Input{Text: text, RunStart: 0, RunEnd: len(text), Direction: paraDir, Face: fi.face,
		Size: fixed.I(size), Script: language.Latin, Language: "en"}
	var fm shaping.Fontmap = oneFace{fi.face}
	if c.SplitFaces {
		other := pipeFonts[0]
		if c.Font == other {
			other = pipeFonts[1]
		}
		fm = splitFaces{fi.face, loadFace(other, 0).face}
	}
	inputs := pipeSeg.Split(in, fm)
	outs := make([]shaping.Output, len(inputs))
	type pristine struct {
		adv   fixed.Int26_6
		ws    bool
		count int
	}
	glyphs := map[int]*pristine{}
	for i := range inputs {
		outs[i] = pipeShaper.Shape(inputs[i])
		for _, g := range outs[i].Glyphs {
			p := glyphs[g.ClusterIndex]
			if p == nil {
				p = &pristine{}
				glyphs[g.ClusterIndex] = p
			}
			p.count++
			p.adv = axisAdvance(&outs[i], &g)
			// invisible glyphs: U+0020 and the explicit formatting characters (default ignorables,
			// shaped to an empty glyph without advance)
			isSpace := g.ClusterIndex >= 0 && g.ClusterIndex < len(text) && g.RuneCount == 1 &&
				(text[g.ClusterIndex] == ' ' || uaxref.IsBidiFormat(classes[g.ClusterIndex]))
			p.ws = isSpace
			empty := g.Width == 0
			if c.Vertical {
				empty = g.Height == 0 // what the wrapper tests for vertical runs
			}
			if isSpace != empty {
				// the wrapper recognises whitespace by an empty glyph; the fonts used satisfy
				// "space <=> empty glyph" for the generated alphabet
				harnessBug("font %s: glyph of %U has width %d height %d", c.Font, text[g.ClusterIndex], g.Width, g.Height)
			}
		}
	}
	cfg := shaping.WrapConfig{
		Direction: cfgDir, TruncateAfterLines: c.TruncateAfterLines, TextContinues: c.TextContinues,
		BreakPolicy: shaping.LineBreakPolicy(c.BreakPolicy), DisableTrailingWhitespaceTrim: c.DisableTrim,
	}
	if c.TruncateAfterLines > 0 {
		ell := []rune{'…'}
		cfg = cfg.WithTruncator(&pipeShaper, shaping.Input{Text: ell, RunStart: 0, RunEnd: 1, Direction: dirWith(c.ParaRTL, c.Vertical, c.TruncOrient),
			Face: fi.face, Size: fixed.I(size), Script: language.Common, Language: "en"})
	}
	cx := &lineCtx{
		paraRTL: c.ParaRTL,
		paraDir: cfgDir,
		levels:  levels,
		isTruncator: func(run *shaping.Output) bool {
			// the glyphs of the shaped truncator (in vertical text the ellipsis is substituted by its
			// vertical form); no generated text contains an ellipsis
			if c.TruncateAfterLines == 0 || len(run.Glyphs) == 0 || len(run.Glyphs) != len(cfg.Truncator.Glyphs) {
				return false
			}
			for k := range run.Glyphs {
				if run.Glyphs[k].GlyphID != cfg.Truncator.Glyphs[k].GlyphID {
					return false
				}
			}
			return true
		},
		glyphOf: func(cluster int) (fixed.Int26_6, bool, bool) {
			p := glyphs[cluster]
			if p == nil || p.count != 1 {
				return 0, false, false
			}
			return p.adv, p.ws, true
		},
		trim: !c.DisableTrim,
		tag:  "pipe",
	}
	cx.fastPath = c.WrapParagraph && len(outs) == 1 && !(cfg.TextContinues && cfg.TruncateAfterLines == 1) &&
		outs[0].Advance.Ceil() <= c.Widths[0]
	var w shaping.LineWrapper
	var paraLines []shaping.Line
	if c.WrapParagraph {
		paraLines, _ = w.WrapParagraph(cfg, c.Widths[0], text, shaping.NewSliceIterator(outs))
		ev.Label("pipe_api_wrapparagraph")
		if cx.fastPath {
			ev.Label("pipe_api_wrapparagraph_fastpath")
		}
	} else {
		w.Prepare(cfg, text, shaping.NewSliceIterator(outs))
	}
	anyNT := false
	maxDelta := 0
	lines := 0
	// the wrapper may return an empty line without progress (C02–C04); bound the loop
	for iter := 0; iter < 2*len(text)+4; iter++ {
		var wl shaping.WrappedLine
		var done bool
		if c.WrapParagraph {
			if iter >= len(paraLines) {
				break
			}
			wl.Line, done = paraLines[iter], iter == len(paraLines)-1
		} else {
			wl, done = w.WrapNextLine(c.Widths[iter%len(c.Widths)])
		}
		st := checkLine(wl.Line, cx, fail)
		if st.skipped != "" {
			ev.Label("pipe_" + st.skipped)
		} else {
			lines++
			ev.Label(fmt.Sprintf("pipe_line_maxdelta=%d", st.maxDelta))
			ev.Label(fmt.Sprintf("pipe_line_runs=%d", min(len(wl.Line), 6)))
			if len(wl.Line) > 16 {
				ev.Label("pipe_line_runs>16")
			}
			if hasFormat {
				ev.Label(fmt.Sprintf("pipe_fmt_line_maxdelta=%d", min(st.maxDelta, 4)))
				if st.nontrivial {
					ev.Label(fmt.Sprintf("pipe_fmt_line_nontrivial_maxdelta=%d", min(st.maxDelta, 4)))
				}
			}
			if st.nontrivial {
				anyNT = true
				ev.Label("pipe_line_nontrivial")
			}
			if st.maxDelta > maxDelta {
				maxDelta = st.maxDelta
			}
			if m := len(wl.Line); cx.isTruncator(&wl.Line[m-1]) {
				ev.Label("pipe_line_with_truncator")
			}
			if len(wl.Line) == 1 && (wl.Line[0].Direction.Progression() == di.TowardTopLeft) != c.ParaRTL {
				ev.Label("pipe_line_lone_opposite_run")
				if cx.fastPath {
					ev.Label("pipe_line_lone_opposite_run_fastpath")
				}
			}
		}
		if done {
			break
		}
	}
	ev.Case(anyNT, pipeKey(c), fmt.Sprintf("pipe_para_maxdelta=%d", min(maxDelta, 8)), fmt.Sprintf("pipe_para_lines=%d", min(lines, 5)),
		map[bool]string{false: "pipe_para_ltr", true: "pipe_para_rtl"}[c.ParaRTL])
	if ev.WantSample() {
		ev.Sample(c)
	}
}

func intsToRunes(a []int) []rune {
	out := make([]rune, len(a))
	for i, v := range a {
		out[i] = rune(v)
	}
	return out
}

func runesToInts(a []rune) []int {
	out := make([]int, len(a))
	for i, v := range a {
		out[i] = int(v)
	}
	return out
}

// alphabets, each in two halves: with SplitFaces the second half resolves to the other font, so a
// word drawn from one half is one run and adjacent words of the same direction become separate
// runs at the same level (as do words of different scripts).
var (
	alphaLatin    = [2][]rune{[]rune("abcdeghklmABCDEGH"), []rune("nopqrstuvwxyzNOPQRSTU")}
	alphaGreek    = [2][]rune{[]rune("αβγδεζηθικλμ"), []rune("νξοπρστυφχψω")}
	alphaCyrillic = [2][]rune{[]rune("абвгдежзийклмно"), []rune("прстуфхцчшщъыьэюя")}
	alphaHebrew   = [2][]rune{[]rune("אבגדהוזחטיךכ"), []rune("לםמןנסעףפץצקרשת")}
	alphaDigits   = [2][]rune{[]rune("01234"), []rune("56789")}
)

func secondHalf(r rune) bool {
	for _, a := range [][2][]rune{alphaLatin, alphaGreek, alphaCyrillic, alphaHebrew, alphaDigits} {
		for _, x := range a[1] {
			if x == r {
				return true
			}
		}
	}
	return false
}

type splitFaces struct{ a, b *font.Face }

func (s splitFaces) ResolveFace(r rune) *font.Face {
	if secondHalf(r) {
		return s.b
	}
	return s.a
}

// explicit formatting characters
const (
	cLRE, cRLE, cPDF, cLRO, cRLO = 0x202A, 0x202B, 0x202C, 0x202D, 0x202E
	cLRI, cRLI, cFSI, cPDI       = 0x2066, 0x2067, 0x2068, 0x2069
)

// pgen builds the text of one paragraph.
type pgen struct {
	t       *rapid.T
	text    []rune
	paraRTL bool
	// fmtMode 0: no explicit formatting. 1: "shallow": groups whose content stays at paragraph
	// level + 1 (LTR paragraph: RLO around anything, RLE/RLI/FSI around Hebrew words; RTL paragraph:
	// LRO around anything, LRE/LRI/FSI around L words), not nested. 2: any initiator around any
	// content, nested up to depth 2, terminators sometimes missing or of the wrong kind.
	fmtMode int
	// irregular: one group of the paragraph at most is left unterminated or gets a terminator of
	// the wrong kind (every further one would add a nesting level for the rest of the paragraph)
	irregular bool
}

func (g *pgen) word(kind int) {
	t := g.t
	word := func(alpha [2][]rune, maxLen int, label string) []rune {
		half := rapid.IntRange(0, 1).Draw(t, label+"_half")
		return rapid.SliceOfN(rapid.SampledFrom(alpha[half]), 1, maxLen).Draw(t, label)
	}
	switch kind {
	case 0:
		switch rapid.IntRange(0, 3).Draw(t, "l_script") {
		case 0:
			g.text = append(g.text, word(alphaGreek, 4, "greek")...)
		case 1:
			g.text = append(g.text, word(alphaCyrillic, 4, "cyrillic")...)
		default:
			g.text = append(g.text, word(alphaLatin, 4, "latin")...)
		}
	case 1:
		g.text = append(g.text, word(alphaHebrew, 4, "hebrew")...)
	case 3:
		g.text = append(g.text, rapid.SliceOfN(rapid.SampledFrom(alphaKana), 1, 3).Draw(t, "kana")...)
	default:
		g.text = append(g.text, word(alphaDigits, 3, "number")...)
	}
}

// alphaKana: class L, upright in vertical text (every other generated letter is sideways), only
// used with vertFont.
var alphaKana = []rune("あいうえおかきくけこ")

func (g *pgen) sep() {
	switch rapid.IntRange(0, 9).Draw(g.t, "sep") {
	case 0, 1: // no separator
	case 2:
		g.text = append(g.text, ' ', ' ')
	default:
		g.text = append(g.text, ' ')
	}
}

// seq emits n units (words, numbers or, with explicit formatting, groups) with separators.
func (g *pgen) seq(n int, kinds []int, depth int, groups bool) {
	for i := 0; i < n; i++ {
		if i > 0 {
			g.sep()
		}
		if groups && rapid.IntRange(0, 3).Draw(g.t, "group") == 0 {
			g.group(depth)
			continue
		}
		g.word(rapid.SampledFrom(kinds).Draw(g.t, "kind"))
	}
}

var allKinds = []int{0, 0, 0, 1, 1, 1, 1, 2, 2, 2}

func (g *pgen) group(depth int) {
	t := g.t
	var opener rune
	kinds := allKinds
	if g.fmtMode == 1 {
		if !g.paraRTL {
			opener = rapid.SampledFrom([]rune{cRLO, cRLO, cRLO, cRLE, cRLI, cFSI}).Draw(t, "opener")
			if opener == cRLO {
				// mostly L words of several scripts: right-to-left runs made of left-to-right letters
				kinds = []int{0, 0, 0, 0, 1, 2}
			} else {
				kinds = []int{1}
			}
		} else {
			opener = rapid.SampledFrom([]rune{cLRO, cLRO, cLRO, cLRE, cLRI, cFSI}).Draw(t, "opener")
			if opener != cLRO {
				kinds = []int{0}
			}
		}
	} else {
		opener = rapid.SampledFrom([]rune{cLRE, cRLE, cLRO, cRLO, cLRI, cRLI, cFSI}).Draw(t, "opener")
	}
	g.text = append(g.text, opener)
	if rapid.IntRange(0, 5).Draw(t, "space_after_opener") == 0 {
		g.text = append(g.text, ' ')
	}
	g.seq(rapid.IntRange(1, 4).Draw(t, "group_units"), kinds, depth+1, g.fmtMode == 2 && depth+1 < 2)
	if rapid.IntRange(0, 5).Draw(t, "space_before_closer") == 0 {
		g.text = append(g.text, ' ')
	}
	closer := rune(cPDF)
	if opener == cLRI || opener == cRLI || opener == cFSI {
		closer = cPDI
	}
	if g.fmtMode == 2 && !g.irregular {
		switch rapid.IntRange(0, 9).Draw(t, "closer") {
		case 0:
			g.irregular = true
			return // not terminated: lasts to the end of the paragraph (or of the enclosing isolate)
		case 1:
			g.irregular = true
			closer = cPDF + cPDI - closer // terminator of the other kind: has no effect on this group
		}
	}
	g.text = append(g.text, closer)
}

// genPipeCase builds a paragraph from units {L word, R word (Hebrew), European number, spaces},
// optionally grouped by explicit directional formatting characters.
func genPipeCase(t *rapid.T) pipeCase {
	if rapid.IntRange(0, 4).Draw(t, "mono") == 0 {
		return genMonoCase(t)
	}
	c := pipeCase{FontIndex: 0}
	c.Font = rapid.SampledFrom(pipeFonts).Draw(t, "font")
	c.SplitFaces = rapid.Bool().Draw(t, "split_faces")
	c.ParaRTL = rapid.Bool().Draw(t, "para_rtl")
	g := &pgen{t: t, paraRTL: c.ParaRTL}
	g.fmtMode = rapid.SampledFrom([]int{0, 0, 0, 1, 1, 1, 2, 2}).Draw(t, "fmt_mode")
	vertical := rapid.IntRange(0, 5).Draw(t, "vertical") == 0
	if vertical {
		// vertical paragraph: the orientation bits of the input, of the configuration and of the
		// truncator are drawn independently; Hiragana words make the Segmenter mix upright and
		// sideways runs on one line when the input leaves the orientation open
		c.Vertical = true
		c.Font = vertFont
		c.InputOrient = rapid.SampledFrom([]int{0, 0, 0, 1, 2}).Draw(t, "input_orient")
		c.CfgOrient = rapid.IntRange(0, 2).Draw(t, "cfg_orient")
		c.TruncOrient = rapid.IntRange(0, 2).Draw(t, "trunc_orient")
		g.fmtMode = 0
	}
	nUnits := rapid.IntRange(1, 10).Draw(t, "units")
	if rapid.IntRange(0, 9).Draw(t, "many_units") == 0 {
		// lines with more runs than any internal constant of the wrapper (16, 32)
		nUnits = rapid.IntRange(11, 40).Draw(t, "units_many")
	}
	kinds := allKinds
	if vertical {
		kinds = []int{0, 0, 3, 3, 3, 1, 1, 2}
	}
	if g.fmtMode == 1 && !c.ParaRTL {
		// keep the top level of a "shallow" LTR paragraph at levels 0 and 1: no numbers (a number
		// after Hebrew is at level 2), and half of the time no Hebrew at all, so that the only
		// right-to-left content comes from the explicit formatting
		kinds = []int{0, 0, 0, 1}
		if rapid.Bool().Draw(t, "no_hebrew") {
			kinds = []int{0}
		}
	}
	if rapid.IntRange(0, 9).Draw(t, "lead_space") == 0 {
		g.text = append(g.text, ' ')
	}
	g.seq(nUnits, kinds, 0, g.fmtMode > 0)
	if rapid.IntRange(0, 4).Draw(t, "trail_space") == 0 {
		g.text = append(g.text, ' ')
	}
	text := g.text
	if !c.ParaRTL {
		// construct (not filter): x/text resolves an LTR paragraph only when the first strong
		// character outside isolates is L (or there is none)
		classes := make([]uaxref.BidiClass, len(text))
		for i, r := range text {
			classes[i], _ = uaxref.MiniBidiClassX(r)
		}
		if uaxref.MiniParagraphLevel(classes) == 1 {
			lead := rapid.SliceOfN(rapid.SampledFrom(alphaLatin[0]), 1, 4).Draw(t, "lead_latin")
			text = append(append(lead, ' '), text...)
		}
	}
	c.Text = runesToInts(text)
	// glyph advances are about 10 px at size 16: widths from "one glyph" to "everything on one line"
	nW := rapid.IntRange(1, 3).Draw(t, "nwidths")
	full := 11*len(text) + 20
	for i := 0; i < nW; i++ {
		// two thirds of the widths in the upper part: lines with several runs are the interesting ones
		lo := 8
		if rapid.IntRange(0, 2).Draw(t, "wide") > 0 {
			lo = full / 3
		}
		c.Widths = append(c.Widths, rapid.IntRange(lo, full).Draw(t, "width"))
	}
	if rapid.IntRange(0, 2).Draw(t, "truncating") == 0 {
		c.TruncateAfterLines = rapid.IntRange(1, 3).Draw(t, "truncate_after")
		c.TextContinues = rapid.Bool().Draw(t, "text_continues")
	}
	c.BreakPolicy = rapid.SampledFrom([]int{0, 0, 0, 1, 2}).Draw(t, "break_policy")
	c.DisableTrim = rapid.IntRange(0, 7).Draw(t, "disable_trim") == 0
	c.WrapParagraph = rapid.IntRange(0, 3).Draw(t, "wrap_paragraph") == 0
	return c
}

// genMonoCase builds a paragraph whose words all have the same direction: 1..3 Latin words or 1..3
// Hebrew words, with 0..2 leading and trailing spaces, in a paragraph of the same or of the
// opposite direction, mostly at a width that holds everything (single-run paragraphs take the
// fast path of WrapParagraph). Levels by construction:
//   - RTL paragraph (forced by Input.Direction), Latin only: words and inner spaces at level 2,
//     leading/trailing spaces at level 1 (N2, L1): not "deep" (2 = paragraph level + 1);
//   - LTR paragraph, Hebrew only: x/text resolves an RTL paragraph (first strong character),
//     everything at level 1: one right-to-left run on a left-to-right line (see runPipeline);
//   - same direction: everything at the paragraph level, a single run with spaces at its ends.
func genMonoCase(t *rapid.T) pipeCase {
	c := pipeCase{FontIndex: 0}
	c.Font = rapid.SampledFrom(pipeFonts).Draw(t, "font")
	c.ParaRTL = rapid.Bool().Draw(t, "para_rtl")
	alpha := alphaLatin
	if rapid.Bool().Draw(t, "hebrew_words") {
		alpha = alphaHebrew
	}
	// one half of the alphabet only: SplitFaces then never splits the words into several runs
	half := rapid.IntRange(0, 1).Draw(t, "half")
	c.SplitFaces = rapid.IntRange(0, 3).Draw(t, "split_faces") == 0
	var text []rune
	spaces := func(label string, lo int) {
		for k := rapid.IntRange(lo, 2).Draw(t, label); k > 0; k-- {
			text = append(text, ' ')
		}
	}
	spaces("lead_spaces", 0)
	nWords := rapid.IntRange(1, 3).Draw(t, "words")
	for i := 0; i < nWords; i++ {
		if i > 0 {
			spaces("inner_spaces", 1)
		}
		text = append(text, rapid.SliceOfN(rapid.SampledFrom(alpha[half]), 1, 4).Draw(t, "word")...)
	}
	spaces("trail_spaces", 0)
	c.Text = runesToInts(text)
	full := 11*len(text) + 20
	if rapid.IntRange(0, 2).Draw(t, "fits") > 0 {
		c.Widths = []int{full + rapid.IntRange(0, 50).Draw(t, "slack")}
	} else {
		for i := rapid.IntRange(1, 2).Draw(t, "nwidths"); i > 0; i-- {
			c.Widths = append(c.Widths, rapid.IntRange(8, full).Draw(t, "width"))
		}
	}
	if rapid.IntRange(0, 3).Draw(t, "truncating") == 0 {
		c.TruncateAfterLines = rapid.IntRange(1, 2).Draw(t, "truncate_after")
		c.TextContinues = rapid.Bool().Draw(t, "text_continues")
	}
	c.BreakPolicy = rapid.SampledFrom([]int{0, 0, 1, 2}).Draw(t, "break_policy")
	c.DisableTrim = rapid.IntRange(0, 7).Draw(t, "disable_trim") == 0
	c.WrapParagraph = rapid.Bool().Draw(t, "wrap_paragraph")
	return c
}

// TestPropPipeline: by-construction paragraphs through Split → Shape → Wrap at random widths.
func TestPropPipeline(t *testing.T) {
	rapid.Check(t, func(t *rapid.T) {
		runPipeline(t, genPipeCase(t))
	})
}

// knownExamples: the minimal inputs of finding C08-deep-levels, evaluated in every run so that the
// evidence shows the finding is (still) present, plus fixed regression paragraphs.
var knownPipeExamples = []pipeCase{
	// minimal real example of the finding: a number inside Hebrew inside an LTR paragraph
	{Font: pipeFonts[0], ParaRTL: false, Text: runesToInts([]rune("a א1ב")), Widths: []int{10000}},
	{Font: pipeFonts[0], ParaRTL: false, Text: runesToInts([]rune("abc אבג 123 דהו def")), Widths: []int{10000}},
	{Font: pipeFonts[0], ParaRTL: true, Text: runesToInts([]rune("אבג abc 123 דהו ")), Widths: []int{60, 10000}},
	{Font: pipeFonts[1], ParaRTL: true, Text: runesToInts([]rune("abc אבג 12 de")), Widths: []int{10000}, TruncateAfterLines: 1, TextContinues: true},
	// minimal example of C08-fastpath-no-trim: one run that fits, trailing space
	{Font: pipeFonts[0], ParaRTL: false, Text: runesToInts([]rune("abc ")), Widths: []int{10000}, WrapParagraph: true},
	{Font: pipeFonts[0], ParaRTL: true, Text: runesToInts([]rune("אבג ")), Widths: []int{10000}, WrapParagraph: true},
	// a lone run of the direction opposite to the paragraph's, spaces at both ends of the run
	{Font: pipeFonts[0], ParaRTL: false, Text: runesToInts([]rune(" אבג  ")), Widths: []int{10000}, WrapParagraph: true},
	{Font: pipeFonts[0], ParaRTL: false, Text: runesToInts([]rune("  אבג דה ")), Widths: []int{10000}},
	{Font: pipeFonts[1], ParaRTL: true, Text: runesToInts([]rune("abc de")), Widths: []int{10000}, WrapParagraph: true},
	{Font: pipeFonts[1], ParaRTL: true, Text: runesToInts([]rune(" abc de ")), Widths: []int{45, 10000}},
	// vertical text: the Segmenter sets orientation bits on every run, the configuration has none
	{Font: vertFont, ParaRTL: false, Vertical: true, Text: runesToInts([]rune("aあ")), Widths: []int{10000}},
	{Font: vertFont, ParaRTL: false, Vertical: true, Text: runesToInts([]rune("ab あい אב ")), Widths: []int{10000}, CfgOrient: 2},
	{Font: vertFont, ParaRTL: true, Vertical: true, Text: runesToInts([]rune("ab あい אב ")), Widths: []int{10000}, InputOrient: 1, CfgOrient: 1, TruncateAfterLines: 1, TextContinues: true, TruncOrient: 2},
	// explicit formatting: the only right-to-left content comes from an override / embedding / isolate
	{Font: pipeFonts[0], ParaRTL: false, Text: runesToInts([]rune("ab \u202Ecd эю\u202C gh")), Widths: []int{10000}},
	{Font: pipeFonts[0], ParaRTL: false, Text: runesToInts([]rune("ab \u2067אב גד\u2069 gh")), Widths: []int{10000}, SplitFaces: true},
	{Font: pipeFonts[1], ParaRTL: true, Text: runesToInts([]rune("אב \u202Dגד 12 ab\u202C הו")), Widths: []int{70, 10000}},
	{Font: pipeFonts[1], ParaRTL: true, Text: runesToInts([]rune("אב \u202Aab \u202Eγδ cd\u202C ef\u202C 34")), Widths: []int{10000}},
}

// TestPropExamples runs the fixed examples (part of the synthetic job).
func TestPropExamples(t *testing.T) {
	for _, c := range knownPipeExamples {
		runPipeline(t, c)
	}
	// synthetic minimal example of the finding: levels 1,2,1 in an LTR paragraph
	runSynthetic(t, synCase{ParaRTL: false, Levels: []int{1, 2, 1}})
	ev.CaseEnum(1, 1)
}

// ---------------------------------------------------------------------------------------------
// replay
// ---------------------------------------------------------------------------------------------

func replayFile(t *testing.T, path string) {
	check, raw, err := ev.LoadReplay(path)
	if err != nil {
		t.Fatalf("cannot load replay %s: %v", path, err)
	}
	switch check {
	case "synthetic":
		var c synCase
		if err := json.Unmarshal(raw, &c); err != nil {
			t.Fatalf("replay %s: %v", path, err)
		}
		runSynthetic(t, c)
	case "pipeline":
		var c pipeCase
		if err := json.Unmarshal(raw, &c); err != nil {
			t.Fatalf("replay %s: %v", path, err)
		}
		runPipeline(t, c)
	default:
		t.Fatalf("replay %s: unknown check %q", path, check)
	}
}

// TestReplay re-runs saved cases through the same property functions, without rapid.
func TestReplay(t *testing.T) {
	if p := ev.ReplayPath(); p != "" {
		replayFile(t, p)
		return
	}
	dir := os.Getenv("VERIF_REPLAY_DIR")
	if dir == "" {
		return
	}
	files, _ := filepath.Glob(filepath.Join(dir, "*.json"))
	sort.Strings(files)
	for _, f := range files {
		if strings.HasSuffix(f, ".json") {
			replayFile(t, f)
		}
	}
}
