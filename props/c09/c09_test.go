// Package c09 decides property C09: font loading and querying are total on arbitrary bytes.
//
// Generators: structure-aware fault injection over corpus files (enumerated, sampled in quick),
// rapid-driven multi-edit mutation, native fuzz targets (thorough). Oracle: no panic, bounded
// allocation per step, bounded wall time, no goroutine left behind (oracle_test.go).
package c09

import (
	"encoding/hex"
	"encoding/json"
	"fmt"
	"os"
	"path/filepath"
	"sort"
	"strconv"
	"strings"
	"testing"
	"time"

	"github.com/go-text/typesetting/font"
	"github.com/go-text/typesetting/font/cff"
	"github.com/go-text/typesetting/font/opentype/tables"
	"pgregory.net/rapid"

	"verif/internal/corpus"
	"verif/internal/ev"
)

func TestMain(m *testing.M) { ev.Main(m) }

const (
	checkName   = "mutant"
	costUnitKiB = 1024 // fonts whose unmutated run allocates more get proportionally fewer mutants
)

func envInt(name string, def int) int {
	if s := os.Getenv(name); s != "" {
		if v, err := strconv.Atoi(s); err == nil {
			return v
		}
	}
	return def
}

// ---- corpus view ----

type fontInfo struct {
	Rel  string
	Size int
	Sig  string // container kind + interesting tables: the stratum of the font
}

var (
	allFonts   []fontInfo
	smallFonts []fontInfo // < 200 KB
	layouts    = map[string]*layout{}
)

const smallLimit = 200 << 10

var interesting = []string{"GSUB", "GPOS", "GDEF", "morx", "mort", "kerx", "kern", "fvar", "gvar", "HVAR", "MVAR", "avar", "CFF ", "CFF2", "glyf",
	"CBLC", "EBLC", "bloc", "sbix", "SVG ", "vmtx", "VORG", "post", "ankr", "trak", "feat", "ltag"}

func loadCorpus(tb testing.TB) {
	if allFonts != nil {
		return
	}
	for _, rel := range corpus.Files() {
		st, err := os.Stat(corpus.Abs(rel))
		if err != nil {
			continue
		}
		fi := fontInfo{Rel: rel, Size: int(st.Size())}
		if fi.Size < smallLimit {
			b, err := baseBytes(rel)
			if err != nil {
				continue
			}
			l := parseLayout(b)
			layouts[rel] = l
			has := map[string]bool{}
			for _, t := range l.Tables {
				has[t.Tag] = true
			}
			sig := l.Kind
			for _, tag := range interesting {
				if has[tag] {
					sig += "," + strings.TrimSpace(tag)
				}
			}
			fi.Sig = sig
			smallFonts = append(smallFonts, fi)
		}
		allFonts = append(allFonts, fi)
	}
	if len(allFonts) < 100 {
		tb.Fatalf("font corpus not found (VERIF_CORPUS=%q): %d files", os.Getenv("VERIF_CORPUS"), len(allFonts))
	}
}

func layoutOf(rel string) (*layout, []byte, error) {
	b, err := baseBytes(rel)
	if err != nil {
		return nil, nil, err
	}
	if l, ok := layouts[rel]; ok {
		return l, b, nil
	}
	l := parseLayout(b)
	if len(b) < 1<<20 {
		layouts[rel] = l
	}
	return l, b, nil
}

// stratified draws k fonts so that every stratum (container kind + table set) is visited before
// any is visited twice; containers other than plain sfnt always come first.
func stratified(fonts []fontInfo, k int, rnd *ev.Rand) []fontInfo {
	groups := map[string][]fontInfo{}
	var sigs []string
	for _, f := range fonts {
		if _, ok := groups[f.Sig]; !ok {
			sigs = append(sigs, f.Sig)
		}
		groups[f.Sig] = append(groups[f.Sig], f)
	}
	sort.Slice(sigs, func(i, j int) bool {
		ci, cj := !strings.HasPrefix(sigs[i], "sfnt"), !strings.HasPrefix(sigs[j], "sfnt")
		if ci != cj {
			return ci
		}
		return sigs[i] < sigs[j]
	})
	// shuffle the sfnt strata (deterministically) so that different seeds visit different ones first
	nc := 0
	for nc < len(sigs) && !strings.HasPrefix(sigs[nc], "sfnt") {
		nc++
	}
	rest := sigs[nc:]
	for i := len(rest) - 1; i > 0; i-- {
		j := rnd.Intn(i + 1)
		rest[i], rest[j] = rest[j], rest[i]
	}
	var out []fontInfo
	for round := 0; len(out) < k; round++ {
		progressed := false
		for _, s := range sigs {
			g := groups[s]
			if len(g) == 0 {
				continue
			}
			progressed = true
			j := rnd.Intn(len(g))
			out = append(out, g[j])
			g[j] = g[len(g)-1]
			groups[s] = g[:len(g)-1]
			if len(out) >= k {
				break
			}
		}
		if !progressed {
			break
		}
	}
	return out
}

// ---- evaluation of one case ----

func caseKey(c Case) string {
	var sb strings.Builder
	sb.WriteString(c.Target)
	sb.WriteString(c.Font)
	sb.WriteString(c.Hex)
	for _, e := range c.Edits {
		fmt.Fprintf(&sb, "|%s,%d,%d,%d,%s,%d", e.Op, e.Off, e.Val, e.Len, e.Hex, e.Rep)
	}
	return sb.String()
}

// evaluate runs the oracle on a case, records evidence and returns the finding (nil if the case
// passed or matched a listed known finding).
func evaluate(c Case, cat string) *Finding {
	base, err := bytesOf(Case{Font: c.Font, Hex: c.Hex})
	if err != nil {
		return &Finding{Kind: "harness", Site: "bytesOf", Raw: err.Error()}
	}
	data := base
	if len(c.Edits) > 0 {
		data = applyEdits(base, c.Edits)
	}
	mutated := c.Hex != "" || len(c.Edits) > 0 && !(len(data) == len(base) && string(data) == string(base))
	if mutated && c.Target == "" && ev.Known(genReaders) && damagedBigLayoutTable(base, data) {
		// value class of the listed finding (see genReaders): not generated while it is open,
		// because such a case can make the process run out of memory instead of being measured
		ev.Excluded(genReaders)
		ev.Label("excluded:big_layout_table_damaged")
		return nil
	}
	ev.Journal(checkName, c)
	var out outcome
	switch c.Target {
	case "cff":
		out = runProgram(data, cffProgram)
	case "cmap":
		out = runProgram(data, cmapProgram)
	default:
		out = runData(data)
	}
	ev.JournalDone()
	labels := []string{"cat:" + cat}
	switch {
	case !mutated:
		labels = append(labels, "unmutated")
	case out.Loaded:
		labels = append(labels, "mutant_loaded", "loaded:"+cat)
	default:
		labels = append(labels, "mutant_rejected")
	}
	if out.MaxStep > 16<<20 {
		labels = append(labels, "step_alloc>16MiB")
	}
	if out.Wall.Seconds() > 1 {
		labels = append(labels, "case>1s")
	}
	ev.Case(mutated && out.Loaded, caseKey(c), labels...)
	if mutated && out.Loaded && ev.WantSample() {
		ev.Sample(map[string]any{"case": c, "faces": out.Faces, "steps": out.Steps, "max_step_alloc": out.MaxStep})
	}
	if f := out.Finding; f != nil {
		id := f.ID()
		ev.Label("finding:" + id + " [" + f.Msg + "]")
		if ev.Known(id) {
			ev.Excluded(id)
			if os.Getenv("C09_STACK") != "" { // triage aid
				fmt.Fprintf(os.Stderr, "excluded by known finding %s: %s\n", id, f)
			}
			return nil
		}
		return f
	}
	return nil
}

// bigLayoutTable is the size above which a damaged layout table is not fed to the loader while
// the finding genReaders is listed as open (quadratic growth: 32 KiB can demand at most ~100 MiB).
const bigLayoutTable = 32 << 10

var nestedOffsetTables = map[string]bool{"GSUB": true, "GPOS": true, "GDEF": true, "morx": true, "kerx": true, "CBLC": true, "EBLC": true, "bloc": true}

// damagedBigLayoutTable is the structural matcher of the input class of genReaders: the mutant has
// a table read by the nested-offset generated readers that is larger than bigLayoutTable and is
// not byte-identical to the table with the same tag of the pristine font.
func damagedBigLayoutTable(base, data []byte) bool {
	if len(data) <= bigLayoutTable {
		return false
	}
	lm := parseLayout(data)
	var lb *layout
	for _, t := range lm.Tables {
		if !nestedOffsetTables[t.Tag] || t.Len <= bigLayoutTable || lm.Kind == "woff" {
			continue
		}
		if lb == nil {
			lb = parseLayout(base)
		}
		same := false
		for _, o := range lb.Tables {
			if o.Tag == t.Tag && o.Font == t.Font && o.Len == t.Len && string(base[o.Off:o.Off+o.Len]) == string(data[t.Off:t.Off+t.Len]) {
				same = true
				break
			}
		}
		if !same {
			return true
		}
	}
	return false
}

// collector lets enumerators search behind the first finding: violations are collected per site
// and the test fails at the end (or early, when enough was collected) with the first of them.
type collector struct {
	t        *testing.T
	first    *Finding
	firstC   Case
	sites    map[string]int
	total    int
	allocs   int
	stopped  bool
	maxTotal int
}

func newCollector(t *testing.T) *collector {
	return &collector{t: t, sites: map[string]int{}, maxTotal: envInt("C09_MAX_FINDINGS", 40)}
}

func (co *collector) add(c Case, f *Finding) {
	if f == nil {
		return
	}
	id := f.ID() + " [" + f.Msg + "]"
	if co.sites[id] == 0 {
		// one decoded case per site, for triage (the driver only looks at fail.json)
		if dir := ev.OutDir(); dir != "" {
			d := filepath.Join(dir, "findings")
			os.MkdirAll(d, 0o755)
			b, _ := json.MarshalIndent(map[string]any{"property": "C09", "check": checkName, "message": f.String(), "case": c, "finding": f}, "", " ")
			os.WriteFile(filepath.Join(d, ev.ShortHash([]byte(id))+".json"), b, 0o644)
		}
	}
	co.sites[id]++
	co.total++
	if f.Kind == "alloc" {
		co.allocs++
	}
	if co.first == nil || len(c.Edits) < len(co.firstC.Edits) {
		co.first, co.firstC = f, c
	}
	if co.total >= co.maxTotal || co.allocs >= 3 || f.Kind == "harness" {
		co.stopped = true
	}
}

func (co *collector) finish() {
	if co.first == nil {
		return
	}
	var ids []string
	for id, n := range co.sites {
		ids = append(ids, fmt.Sprintf("%s x%d", id, n))
	}
	sort.Strings(ids)
	ev.Fail(co.t, checkName, co.firstC, "%s\n%d violations at %d distinct sites in this shard:\n  %s", co.first, co.total, len(co.sites), strings.Join(ids, "\n  "))
}

// ---- TestPropBaseline: the unmutated corpus passes the oracle (calibrates the limits) ----

func TestPropBaseline(t *testing.T) {
	loadCorpus(t)
	shard, n := ev.Shard()
	fonts := smallFonts
	if ev.Thorough() {
		fonts = allFonts
	}
	co := newCollector(t)
	for i, f := range fonts {
		if i%n != shard || co.stopped {
			continue
		}
		co.add(Case{Font: f.Rel}, evaluate(Case{Font: f.Rel, Note: "unmutated"}, "baseline"))
	}
	// The container kinds are a stratum of every run, whatever the seed: every WOFF, collection
	// (ttc / otc), dfont and CFF2 font of the corpus and one plain TrueType and one CFF font get, next
	// to the unmutated run above, a handful of light mutants (directory / header fields, shortened
	// tables, recompressed WOFF bodies) so that the whole query program runs on fonts of each
	// container that still load.
	if shard == 0 {
		seenKind := map[string]bool{}
		for fi, f := range smallFonts {
			l, data, err := layoutOf(f.Rel)
			if err != nil || co.stopped {
				continue
			}
			kind := l.Kind
			if kind == "sfnt" {
				kind = "ttf"
				for _, tb := range l.Tables {
					if tb.Tag == "CFF " {
						kind = "otf"
					}
					if tb.Tag == "CFF2" {
						kind = "cff2"
					}
				}
				if kind != "cff2" && seenKind[kind] {
					continue // one plain TrueType and one CFF font; every other kind entirely
				}
			}
			seenKind[kind] = true
			ev.Label("container:" + kind)
			frnd := ev.NewRand(uint64(fi)*0x9E3779B97F4A7C15 + 0xC0)
			var light []mutant
			for _, m := range enumerate(data, l, frnd, 0) {
				if m.Cat == catDir || m.Cat == catShorten || m.Cat == catHeader {
					light = append(light, m)
				}
			}
			light = sample(light, 30, frnd)
			if l.Kind == "woff" {
				for _, tb := range l.Tables {
					for k := 0; k < 3; k++ {
						if m, ok := woffBodyMutant(data, l, tb, 2*frnd.Intn(16), 2, uint32(frnd.Intn(4))); ok {
							light = append(light, m)
						}
					}
				}
			}
			for _, m := range light {
				c := Case{Font: f.Rel, Edits: m.Edits, Note: "container stratum: " + m.Note}
				co.add(c, evaluate(c, "container:"+kind))
			}
		}
	}
	co.finish()
}

// ---- TestPropInject: systematic fault injection ----

// share of each category in a sampled font (quick tier); the remainder goes to optional tables
var shares = []struct {
	cat   string
	share float64
}{{catTrunc, 0.08}, {catHeader, 0.05}, {catDir, 0.09}, {catShorten, 0.18}, {catStruct, 0.10}, {catReqField, 0.08}, {catOptField, 0.42}}

func sample(ms []mutant, k int, rnd *ev.Rand) []mutant {
	if k >= len(ms) {
		return ms
	}
	ms = append([]mutant(nil), ms...)
	for i := 0; i < k; i++ {
		j := i + rnd.Intn(len(ms)-i)
		ms[i], ms[j] = ms[j], ms[i]
	}
	return ms[:k]
}

func TestPropInject(t *testing.T) {
	loadCorpus(t)
	shard, n := ev.Shard()
	rnd := ev.NewRand(uint64(ev.Seed())*0x9E3779B97F4A7C15 + 0xC09)
	var fonts []fontInfo
	perFont := envInt("C09_PER_FONT", 400)
	nRandomPos := envInt("C09_RANDOM_POS", 8)
	if ev.Thorough() {
		fonts = append(fonts, allFonts...)
		// largest first so that shards are balanced
		sort.SliceStable(fonts, func(i, j int) bool { return fonts[i].Size > fonts[j].Size })
	} else {
		fonts = stratified(smallFonts, envInt("C09_FONTS", 40), rnd)
	}
	co := newCollector(t)
	for i, f := range fonts {
		if i%n != shard || co.stopped {
			continue
		}
		l, data, err := layoutOf(f.Rel)
		if err != nil {
			t.Fatalf("reading %s: %v", f.Rel, err)
		}
		frnd := ev.NewRand(uint64(ev.Seed())<<20 ^ uint64(i)*0x9E3779B97F4A7C15 ^ uint64(len(data)))
		// the cost of one case on this font is estimated by the bytes the unmutated font makes
		// the program allocate (deterministic, unlike time): expensive fonts (multi-megabyte
		// files, fonts whose state machines run to the operation limit) get fewer mutants
		base := runData(data)
		if base.Finding != nil {
			co.add(Case{Font: f.Rel}, base.Finding)
			continue
		}
		budget := perFont
		switch kib := base.Alloc >> 10; {
		case kib < 256:
			ev.Label("base_alloc<256K")
		case kib < 1024:
			ev.Label("base_alloc<1M")
		default:
			ev.Label("base_alloc>=1M")
		}
		if cost := int(base.Alloc >> 10); cost > costUnitKiB {
			budget = perFont * costUnitKiB / cost
			if budget < 40 {
				budget = 40
			}
			ev.Label("font_budget_reduced")
		}
		all := enumerate(data, l, frnd, nRandomPos)
		byCat := map[string][]mutant{}
		for _, m := range all {
			byCat[m.Cat] = append(byCat[m.Cat], m)
		}
		ev.LabelN("enumerated_mutants", int64(len(all)))
		var chosen []mutant
		left := budget
		for _, s := range shares {
			if s.cat == catOptField {
				continue
			}
			k := int(s.share * float64(budget))
			got := sample(byCat[s.cat], k, frnd)
			chosen = append(chosen, got...)
			left -= len(got)
		}
		chosen = append(chosen, sample(byCat[catOptField], left, frnd)...)
		if l.Kind == "woff" {
			for _, tb := range l.Tables {
				for k := 0; k < 24; k++ {
					w := 2 + 2*frnd.Intn(2)
					vals := specialValues(w, tb.Len, l.NumGlyphs)
					if m, ok := woffBodyMutant(data, l, tb, 2*frnd.Intn(32), w, vals[frnd.Intn(len(vals))]); ok {
						chosen = append(chosen, m)
					}
				}
			}
		}
		t0 := time.Now()
		for _, m := range chosen {
			if co.stopped {
				break
			}
			c := Case{Font: f.Rel, Edits: m.Edits, Note: m.Note}
			co.add(c, evaluate(c, m.Cat))
		}
		if d := time.Since(t0); d > 5*time.Second {
			ev.Note("slow font: %s (%d bytes): %d mutants in %.1fs", f.Rel, f.Size, len(chosen), d.Seconds())
		}
	}
	co.finish()
}

// ---- TestPropRandom: rapid-driven combinations of 1-4 edits ----

func genEdit(rt *rapid.T, l *layout, data []byte) (Edit, string) {
	kind := rapid.SampledFrom([]string{"field", "field", "field", "field", "field", "shorten", "dir", "byte", "byte", "bit", "trunc"}).Draw(rt, "kind")
	if len(l.Tables) == 0 && (kind == "field" || kind == "shorten") || len(l.Dir)+len(l.Hdr) == 0 && kind == "dir" {
		kind = "byte"
	}
	value := func(w int, sizes ...int) uint32 {
		switch rapid.IntRange(0, 3).Draw(rt, "valkind") {
		case 0:
			if w == 2 {
				return uint32(rapid.Uint16().Draw(rt, "v16"))
			}
			return rapid.Uint32().Draw(rt, "v32")
		case 1: // small perturbation of a plausible count
			return uint32(rapid.IntRange(0, 300).Draw(rt, "small"))
		default:
			vals := specialValues(w, sizes...)
			return vals[rapid.IntRange(0, len(vals)-1).Draw(rt, "special")]
		}
	}
	switch kind {
	case "field":
		// optional tables three times as likely as required ones
		var idx []int
		for i, t := range l.Tables {
			if t.Len < 2 {
				continue
			}
			idx = append(idx, i)
			if !t.Required {
				idx = append(idx, i, i)
			}
		}
		if len(idx) == 0 {
			break
		}
		t := l.Tables[idx[rapid.IntRange(0, len(idx)-1).Draw(rt, "table")]]
		hi := t.Len - 2
		if rapid.IntRange(0, 9).Draw(rt, "head") < 6 && hi > 62 {
			hi = 62
		}
		p := rapid.IntRange(0, hi).Draw(rt, "pos") &^ 1
		w := 2
		if p+4 <= t.Len && rapid.Bool().Draw(rt, "wide") {
			w = 4
		}
		v := value(w, t.Len, t.Len-p, l.NumGlyphs)
		return Edit{Op: setOp(w), Off: t.Off + p, Val: v}, fmt.Sprintf("%s+%d", t.Tag, p)
	case "shorten":
		t := l.Tables[rapid.IntRange(0, len(l.Tables)-1).Draw(rt, "table")]
		n := rapid.IntRange(0, t.Len).Draw(rt, "len")
		pos := t.LenPos
		if t.ZLenPos >= 0 {
			pos = t.ZLenPos
		}
		return Edit{Op: "set32", Off: pos, Val: uint32(n)}, fmt.Sprintf("%s len=%d", t.Tag, n)
	case "dir":
		fs := append(append([]field(nil), l.Dir...), l.Hdr...)
		f := fs[rapid.IntRange(0, len(fs)-1).Draw(rt, "field")]
		return Edit{Op: setOp(f.W), Off: f.Off, Val: value(f.W, l.Size, l.Size-f.Rel)}, "dir/hdr " + f.Role
	case "bit":
		off := rapid.IntRange(0, len(data)-1).Draw(rt, "off")
		return Edit{Op: "xor8", Off: off, Val: 1 << uint(rapid.IntRange(0, 7).Draw(rt, "bit"))}, "bitflip"
	case "trunc":
		if len(l.Cuts) > 0 && rapid.Bool().Draw(rt, "structural") {
			return Edit{Op: "trunc", Off: l.Cuts[rapid.IntRange(0, len(l.Cuts)-1).Draw(rt, "cut")]}, "trunc"
		}
		return Edit{Op: "trunc", Off: rapid.IntRange(0, len(data)-1).Draw(rt, "cut")}, "trunc"
	}
	off := rapid.IntRange(0, len(data)-1).Draw(rt, "off")
	return Edit{Op: "set8", Off: off, Val: uint32(rapid.IntRange(0, 255).Draw(rt, "byte"))}, "byte"
}

func TestPropRandom(t *testing.T) {
	loadCorpus(t)
	fonts := smallFonts
	// tiny fonts are drawn more often (cheaper, and a field hit is more likely to matter)
	var tiny []fontInfo
	for _, f := range fonts {
		if f.Size < 20<<10 {
			tiny = append(tiny, f)
		}
	}
	rapid.Check(t, func(rt *rapid.T) {
		var f fontInfo
		if rapid.IntRange(0, 9).Draw(rt, "pool") < 8 {
			f = tiny[rapid.IntRange(0, len(tiny)-1).Draw(rt, "font")]
		} else {
			f = fonts[rapid.IntRange(0, len(fonts)-1).Draw(rt, "font")]
		}
		l, data, err := layoutOf(f.Rel)
		if err != nil || len(data) == 0 {
			rt.Fatalf("reading %s: %v", f.Rel, err)
		}
		ne := rapid.IntRange(1, 4).Draw(rt, "nedits")
		c := Case{Font: f.Rel}
		var notes []string
		for i := 0; i < ne; i++ {
			e, note := genEdit(rt, l, data)
			c.Edits = append(c.Edits, e)
			notes = append(notes, note)
		}
		c.Note = strings.Join(notes, "; ")
		if f := evaluate(c, catRandom); f != nil {
			ev.Fail(rt, checkName, c, "%s", f)
		}
	})
}

// ---- table-level programs (fuzz targets FuzzCFF / FuzzCmap) ----

func runProgram(data []byte, prog func([]byte, *runner) bool) outcome {
	startWatchdog()
	r := &runner{limit: allocFloor + allocPerByte*uint64(len(data))}
	caseStart.Store(nowNanos())
	loaded := prog(data, r)
	caseStart.Store(0)
	return outcome{Loaded: loaded, Finding: r.finding, Steps: r.steps, MaxStep: r.maxStep}
}

func cffProgram(data []byte, r *runner) (loaded bool) {
	var f *cff.CFF
	r.do("cff.Parse", func() { f, _ = cff.Parse(data) })
	if f != nil {
		loaded = true
		n := len(f.Charstrings)
		r.do("cff.LoadGlyph", func() {
			for _, g := range glyphSet(n) {
				segs, _, _ := f.LoadGlyph(tables.GlyphID(g))
				sink += len(segs) + len(f.GlyphName(g))
			}
		})
	}
	var f2 *cff.CFF2
	r.do("cff.ParseCFF2", func() { f2, _ = cff.ParseCFF2(data) })
	if f2 != nil {
		loaded = true
		n := len(f2.Charstrings)
		r.do("cff2.LoadGlyph", func() {
			for _, g := range glyphSet(n) {
				segs, _, _ := f2.LoadGlyph(tables.GlyphID(g), nil)
				sink += len(segs)
			}
		})
	}
	return loaded
}

func cmapProgram(data []byte, r *runner) (loaded bool) {
	r.do("cmap", func() {
		tb, _, err := tables.ParseCmap(data)
		if err != nil {
			return
		}
		cm, uv, err := font.ProcessCmap(tb, tables.FPNone)
		if err != nil || cm == nil {
			return
		}
		loaded = true
		for _, ch := range probeRunes {
			g, _ := cm.Lookup(ch)
			g2, _ := uv.GetGlyphVariant(ch, 0xFE00)
			sink += int(g + g2)
		}
		it := cm.Iter()
		for k := 0; k < maxCmapIter && it.Next(); k++ {
			ch, g := it.Char()
			sink += int(ch) + int(g)
		}
	})
	return loaded
}

// ---- native fuzz targets (thorough tier) ----

func fuzzSeeds(f *testing.F, want func(fontInfo) bool, limit int) {
	loadCorpus(f)
	rnd := ev.NewRand(uint64(ev.Seed()) + 77)
	var pool []fontInfo
	for _, fi := range smallFonts {
		if fi.Size < 12<<10 && want(fi) {
			pool = append(pool, fi)
		}
	}
	for _, fi := range stratified(pool, limit, rnd) {
		if b, err := baseBytes(fi.Rel); err == nil {
			f.Add(b)
		}
	}
}

func fuzzOne(t *testing.T, target string, data []byte) {
	if len(data) > 1<<20 {
		return
	}
	c := Case{Target: target, Hex: hex.EncodeToString(data), Note: "native fuzzing input"}
	if f := evaluate(c, "fuzz"); f != nil {
		ev.Fail(t, checkName, c, "%s", f)
	}
}

func FuzzParseTTF(f *testing.F) {
	fuzzSeeds(f, func(fi fontInfo) bool { return strings.HasPrefix(fi.Sig, "sfnt") || strings.HasPrefix(fi.Sig, "woff") }, 80)
	f.Fuzz(func(t *testing.T, data []byte) { fuzzOne(t, "", data) })
}

func FuzzParseTTC(f *testing.F) {
	fuzzSeeds(f, func(fi fontInfo) bool { return strings.HasPrefix(fi.Sig, "ttc") || strings.HasPrefix(fi.Sig, "dfont") }, 20)
	f.Fuzz(func(t *testing.T, data []byte) { fuzzOne(t, "", data) })
}

// tableSeeds adds the bodies of one table of the small corpus fonts.
func tableSeeds(f *testing.F, tags ...string) {
	loadCorpus(f)
	n := 0
	for _, fi := range smallFonts {
		l, data, err := layoutOf(fi.Rel)
		if err != nil || l.Kind == "woff" {
			continue
		}
		for _, t := range l.Tables {
			for _, tag := range tags {
				if t.Tag == tag && t.Len > 0 && t.Len < 16<<10 && n < 120 {
					f.Add(append([]byte(nil), data[t.Off:t.Off+t.Len]...))
					n++
				}
			}
		}
	}
}

func FuzzCFF(f *testing.F) {
	tableSeeds(f, "CFF ", "CFF2")
	f.Fuzz(func(t *testing.T, data []byte) { fuzzOne(t, "cff", data) })
}

func FuzzCmap(f *testing.F) {
	tableSeeds(f, "cmap")
	f.Fuzz(func(t *testing.T, data []byte) { fuzzOne(t, "cmap", data) })
}

// ---- TestReplay ----

func TestReplay(t *testing.T) {
	var files []string
	if p := ev.ReplayPath(); p != "" {
		files = []string{p}
	} else if dir := os.Getenv("VERIF_REPLAY_DIR"); dir != "" {
		files, _ = filepath.Glob(filepath.Join(dir, "*.json"))
		sort.Strings(files)
	}
	for _, p := range files {
		check, raw, err := ev.LoadReplay(p)
		if err != nil {
			t.Fatalf("%s: %v", p, err)
		}
		if check != checkName {
			t.Fatalf("%s: unknown check %q", p, check)
		}
		var c Case
		if err := json.Unmarshal(raw, &c); err != nil {
			t.Fatalf("%s: %v", p, err)
		}
		if f := evaluate(c, "replay"); f != nil {
			ev.Fail(t, checkName, c, "%s", f)
		}
		t.Logf("replayed %s: passed", filepath.Base(p))
	}
}
