package c09

// CFF-structure-aware mutation family ("cff-structured"): byte and field mutations almost never
// produce valid Type 2 charstring control flow, so this family parses the minimal structure of a
// 'CFF ' / 'CFF2' table (header, Name / Top DICT / String / Global Subr INDEX, CharStrings INDEX,
// Private DICTs and their local Subr INDEX, FDArray) and rewrites subroutines and charstrings IN
// PLACE with well-formed programs: self recursion, cycles, call chains around the nesting limit,
// operand-stack stress, charstrings without endchar, CFF2 vsindex/blend with extreme counts. The
// charstring of a glyph that the query program loads is made to call the rewritten subroutine, so
// the program is actually executed. A mutant is still a list of (small) byte edits on a corpus font.

import (
	"encoding/binary"
	"encoding/hex"
	"fmt"
	"sort"
	"strings"
	"testing"

	"verif/internal/ev"
)

const catCFF = "cff-structured"

// ---- Type 2 / DICT number encoding ----

func encodeNum(v int) []byte {
	switch {
	case v >= -107 && v <= 107:
		return []byte{byte(v + 139)}
	case v >= 108 && v <= 1131:
		v -= 108
		return []byte{byte(247 + v>>8), byte(v)}
	case v >= -1131 && v <= -108:
		v = -v - 108
		return []byte{byte(251 + v>>8), byte(v)}
	default:
		if v > 32767 {
			v = 32767
		}
		if v < -32768 {
			v = -32768
		}
		return []byte{28, byte(uint16(int16(v)) >> 8), byte(v)}
	}
}

func subrBias(count int) int {
	switch {
	case count < 1240:
		return 107
	case count < 33900:
		return 1131
	default:
		return 32768
	}
}

const (
	opHstem     = 1
	opRlineto   = 5
	opRrcurveto = 8
	opCallsubr  = 10
	opReturn    = 11
	opEndchar   = 14
	opVsindex   = 15
	opBlend     = 16
	opHstemhm   = 18
	opHintmask  = 19
	opRmoveto   = 21
	opCallgsubr = 29
)

// ---- minimal CFF structure ----

type cffIndex struct {
	Pos      int // absolute position of the INDEX in the file
	Count    int
	OffSize  int
	OffArr   int   // absolute position of the offset array
	DataBase int   // item i is d[DataBase+Offs[i] : DataBase+Offs[i+1]]
	Offs     []int // count+1 offsets (1-based as stored)
	End      int   // absolute position after the INDEX
}

type cffInfo struct {
	V2          bool
	Start, Len  int
	GSubrs      *cffIndex
	CharStrings *cffIndex
	LSubrs      []*cffIndex // local subroutines of every Private DICT
	// inner structures walked by the "walked" family (absolute positions, 0 if absent / predefined)
	FDSelect, Charset, Encoding int
	NFD                         int // number of font dicts of the FDArray
	Dicts                       []cffDict
}

// cffDict is the extent of one DICT of the table (absolute positions).
type cffDict struct {
	Kind       string // top | private | fontdict
	Start, End int
}

func readIndex(d []byte, pos int, count32 bool, limit int) *cffIndex {
	ix := &cffIndex{Pos: pos}
	if count32 {
		v, ok := be32(d, pos)
		if !ok {
			return nil
		}
		ix.Count, pos = v, pos+4
	} else {
		v, ok := be16(d, pos)
		if !ok {
			return nil
		}
		ix.Count, pos = v, pos+2
	}
	if ix.Count == 0 {
		ix.End = pos
		return ix
	}
	if pos >= limit || ix.Count > 1<<20 {
		return nil
	}
	ix.OffSize = int(d[pos])
	if ix.OffSize < 1 || ix.OffSize > 4 {
		return nil
	}
	ix.OffArr = pos + 1
	ix.DataBase = ix.OffArr + (ix.Count+1)*ix.OffSize - 1
	if ix.DataBase+1 > limit {
		return nil
	}
	for i := 0; i <= ix.Count; i++ {
		v := 0
		for _, b := range d[ix.OffArr+i*ix.OffSize : ix.OffArr+(i+1)*ix.OffSize] {
			v = v<<8 | int(b)
		}
		if v < 1 || i > 0 && v < ix.Offs[i-1] || ix.DataBase+v > limit {
			return nil
		}
		ix.Offs = append(ix.Offs, v)
	}
	ix.End = ix.DataBase + ix.Offs[ix.Count]
	return ix
}

func (ix *cffIndex) item(d []byte, i int) []byte {
	return d[ix.DataBase+ix.Offs[i] : ix.DataBase+ix.Offs[i+1]]
}

// dictOps scans a DICT and returns the operands of every operator (escaped operators as 1200+b).
func dictOps(b []byte) map[int][]int {
	out := map[int][]int{}
	var st []int
	for i := 0; i < len(b); {
		x := b[i]
		switch {
		case x == 28 && i+3 <= len(b):
			st = append(st, int(int16(binary.BigEndian.Uint16(b[i+1:]))))
			i += 3
		case x == 29 && i+5 <= len(b):
			st = append(st, int(int32(binary.BigEndian.Uint32(b[i+1:]))))
			i += 5
		case x == 30:
			i++
			for i < len(b) && b[i]&0xf != 0xf && b[i]>>4 != 0xf {
				i++
			}
			i++
			st = append(st, 0)
		case x >= 32 && x <= 246:
			st = append(st, int(x)-139)
			i++
		case x >= 247 && x <= 250 && i+2 <= len(b):
			st = append(st, (int(x)-247)*256+int(b[i+1])+108)
			i += 2
		case x >= 251 && x <= 254 && i+2 <= len(b):
			st = append(st, -(int(x)-251)*256-int(b[i+1])-108)
			i += 2
		case x <= 27:
			op := int(x)
			i++
			if x == 12 && i < len(b) {
				op = 1200 + int(b[i])
				i++
			}
			out[op] = st
			st = nil
		default:
			return out // 28/29 truncated, 31, 255: stop
		}
	}
	return out
}

// parseCFF reads the structure of the CFF / CFF2 table t of the font d (nil if it is not
// understood: the family only needs fonts it can rewrite reliably).
func parseCFF(d []byte, t tableRef) (info *cffInfo) {
	defer func() {
		if recover() != nil {
			info = nil
		}
	}()
	T, limit := t.Off, t.Off+t.Len
	if t.Len < 8 {
		return nil
	}
	info = &cffInfo{V2: t.Tag == "CFF2", Start: T, Len: t.Len}
	private := func(priv []int, fdBase int) {
		// Private DICT operator: size offset
		if len(priv) != 2 || priv[0] <= 0 || priv[1] <= 0 || T+priv[1]+priv[0] > limit {
			return
		}
		info.Dicts = append(info.Dicts, cffDict{"private", T + priv[1], T + priv[1] + priv[0]})
		ops := dictOps(d[T+priv[1] : T+priv[1]+priv[0]])
		if s := ops[19]; len(s) == 1 && s[0] > 0 {
			if ix := readIndex(d, T+priv[1]+s[0], info.V2, limit); ix != nil && ix.Count > 0 {
				info.LSubrs = append(info.LSubrs, ix)
			}
		}
	}
	var top map[int][]int
	if info.V2 {
		hdr, topLen := int(d[T+2]), int(binary.BigEndian.Uint16(d[T+3:]))
		if T+hdr+topLen > limit {
			return nil
		}
		top = dictOps(d[T+hdr : T+hdr+topLen])
		info.Dicts = append(info.Dicts, cffDict{"top", T + hdr, T + hdr + topLen})
		info.GSubrs = readIndex(d, T+hdr+topLen, true, limit)
	} else {
		if d[T] != 1 {
			return nil
		}
		name := readIndex(d, T+int(d[T+2]), false, limit)
		if name == nil {
			return nil
		}
		tops := readIndex(d, name.End, false, limit)
		if tops == nil || tops.Count != 1 {
			return nil
		}
		top = dictOps(tops.item(d, 0))
		info.Dicts = append(info.Dicts, cffDict{"top", tops.DataBase + tops.Offs[0], tops.DataBase + tops.Offs[1]})
		str := readIndex(d, tops.End, false, limit)
		if str == nil {
			return nil
		}
		info.GSubrs = readIndex(d, str.End, false, limit)
	}
	if info.GSubrs == nil {
		return nil
	}
	cs := top[17]
	if len(cs) != 1 || cs[0] <= 0 {
		return nil
	}
	info.CharStrings = readIndex(d, T+cs[0], info.V2, limit)
	if info.CharStrings == nil || info.CharStrings.Count == 0 {
		return nil
	}
	private(top[18], 0)
	if v := top[1237]; len(v) == 1 && v[0] > 0 && T+v[0] < limit {
		info.FDSelect = T + v[0]
	}
	if v := top[15]; len(v) == 1 && v[0] > 2 && T+v[0] < limit {
		info.Charset = T + v[0]
	}
	if v := top[16]; len(v) == 1 && v[0] > 1 && T+v[0] < limit {
		info.Encoding = T + v[0]
	}
	if fda := top[1236]; len(fda) == 1 && fda[0] > 0 { // FDArray: one Private DICT per font dict
		if fds := readIndex(d, T+fda[0], info.V2, limit); fds != nil {
			info.NFD = fds.Count
			for i := 0; i < fds.Count && i < 64; i++ {
				if i < 4 || i == fds.Count-1 {
					info.Dicts = append(info.Dicts, cffDict{"fontdict", fds.DataBase + fds.Offs[i], fds.DataBase + fds.Offs[i+1]})
				}
				private(dictOps(fds.item(d, i))[18], 0)
			}
		}
	}
	return info
}

// rewrite sets the given items of the INDEX to exactly the given bytes, in place (the INDEX keeps
// its size): item k > 0 is right-aligned in its slot, what is left of the slot joins the end of
// item k-1 (dead code after its return / endchar) and, if the new content is longer than the slot,
// the items before it are cut; item 0 is left-aligned. Returns the byte edits, or false if the
// content does not fit.
func (ix *cffIndex) rewrite(d []byte, items map[int][]byte) ([]Edit, bool) {
	offs := append([]int(nil), ix.Offs...)
	var keys []int
	for k := range items {
		if k < 0 || k >= ix.Count {
			return nil, false
		}
		keys = append(keys, k)
	}
	sort.Sort(sort.Reverse(sort.IntSlice(keys)))
	type placed struct{ start, n int }
	where := map[int]placed{}
	for _, k := range keys {
		m := len(items[k])
		if k == 0 {
			newEnd := 1 + m
			if newEnd > offs[ix.Count] {
				return nil, false
			}
			for _, j := range keys {
				if j > 0 && where[j].start < newEnd {
					return nil, false
				}
			}
			offs[1] = newEnd
			for j := 2; j <= ix.Count; j++ {
				if offs[j] < newEnd {
					offs[j] = newEnd
				}
			}
			where[0] = placed{1, m}
			continue
		}
		start := offs[k+1] - m
		if start < 1 {
			return nil, false
		}
		for j := 1; j < k; j++ {
			if offs[j] > start {
				offs[j] = start
			}
		}
		offs[k] = start
		where[k] = placed{start, m}
	}
	var edits []Edit
	// changed offset entries, consecutive ones merged
	for j := 0; j <= ix.Count; {
		if offs[j] == ix.Offs[j] {
			j++
			continue
		}
		first := j
		var buf []byte
		for j <= ix.Count && offs[j] != ix.Offs[j] {
			for s := ix.OffSize - 1; s >= 0; s-- {
				buf = append(buf, byte(offs[j]>>(8*uint(s))))
			}
			j++
		}
		edits = append(edits, Edit{Op: "splice", Off: ix.OffArr + first*ix.OffSize, Len: len(buf), Hex: hex.EncodeToString(buf)})
	}
	sort.Ints(keys)
	for _, k := range keys {
		if p := where[k]; p.n > 0 {
			edits = append(edits, Edit{Op: "splice", Off: ix.DataBase + p.start, Len: p.n, Hex: hex.EncodeToString(items[k])})
		}
	}
	return edits, true
}

// ---- programs ----

// prog builds a Type 2 program and its readable form.
type prog struct {
	b    []byte
	text []string
}

func (p *prog) num(vs ...int) *prog {
	for _, v := range vs {
		p.b = append(p.b, encodeNum(v)...)
		p.text = append(p.text, fmt.Sprint(v))
	}
	return p
}

func (p *prog) nums(n, v int) *prog {
	for i := 0; i < n; i++ {
		p.b = append(p.b, encodeNum(v+i%7)...)
	}
	p.text = append(p.text, fmt.Sprintf("%dx<num>", n))
	return p
}

var opNames = map[byte]string{opHstem: "hstem", opRlineto: "rlineto", opRrcurveto: "rrcurveto", opCallsubr: "callsubr", opReturn: "return",
	opEndchar: "endchar", opVsindex: "vsindex", opBlend: "blend", opHstemhm: "hstemhm", opHintmask: "hintmask", opRmoveto: "rmoveto", opCallgsubr: "callgsubr"}

func (p *prog) op(o byte) *prog {
	p.b = append(p.b, o)
	p.text = append(p.text, opNames[o])
	return p
}

func (p *prog) raw(bs ...byte) *prog {
	p.b = append(p.b, bs...)
	p.text = append(p.text, "raw:"+hex.EncodeToString(bs))
	return p
}

// subrRef names a subroutine: global or local, index k, in an INDEX with count entries.
type subrRef struct {
	global bool
	k      int
	count  int
}

func (s subrRef) String() string {
	if s.global {
		return fmt.Sprintf("gsubr%d", s.k)
	}
	return fmt.Sprintf("subr%d", s.k)
}

func (p *prog) call(s subrRef) *prog {
	p.b = append(p.b, encodeNum(s.k-subrBias(s.count))...)
	o := byte(opCallsubr)
	if s.global {
		o = opCallgsubr
	}
	p.b = append(p.b, o)
	p.text = append(p.text, fmt.Sprintf("%d(%s) %s", s.k-subrBias(s.count), s, opNames[o]))
	return p
}

func (p *prog) String() string { return "[" + strings.Join(p.text, " ") + "]" }

// cffSpec is one structured mutant before it is turned into byte edits.
type cffSpec struct {
	family string
	subrs  map[subrRef]*prog
	glyphs map[int]*prog
}

// build turns a spec into edits on the font.
func (info *cffInfo) build(d []byte, s cffSpec) (mutant, bool) {
	var edits []Edit
	var notes []string
	g, l := map[int][]byte{}, map[int][]byte{}
	var refs []subrRef
	for r := range s.subrs {
		refs = append(refs, r)
	}
	sort.Slice(refs, func(i, j int) bool {
		if refs[i].global != refs[j].global {
			return refs[i].global
		}
		return refs[i].k < refs[j].k
	})
	for _, r := range refs {
		if r.global {
			g[r.k] = s.subrs[r].b
		} else {
			l[r.k] = s.subrs[r].b
		}
		notes = append(notes, fmt.Sprintf("%s:=%s", r, s.subrs[r]))
	}
	if len(g) > 0 {
		e, ok := info.GSubrs.rewrite(d, g)
		if !ok {
			return mutant{}, false
		}
		edits = append(edits, e...)
	}
	if len(l) > 0 {
		// the same local subroutines in every Private DICT (the glyph may use any of them)
		n := 0
		for _, ix := range info.LSubrs {
			if e, ok := ix.rewrite(d, l); ok {
				edits = append(edits, e...)
				n++
			}
		}
		if n == 0 {
			return mutant{}, false
		}
	}
	if len(s.glyphs) > 0 {
		cs := map[int][]byte{}
		var gids []int
		for gid := range s.glyphs {
			gids = append(gids, gid)
		}
		sort.Ints(gids)
		for _, gid := range gids {
			cs[gid] = s.glyphs[gid].b
			notes = append(notes, fmt.Sprintf("glyph%d:=%s", gid, s.glyphs[gid]))
		}
		e, ok := info.CharStrings.rewrite(d, cs)
		if !ok {
			return mutant{}, false
		}
		edits = append(edits, e...)
	}
	return mutant{Cat: catCFF, Edits: edits, Note: "cff:" + s.family + " " + strings.Join(notes, "; ")}, true
}

// cffMutants enumerates the structured mutants of one font.
func cffMutants(d []byte, info *cffInfo) []mutant {
	var out []mutant
	add := func(s cffSpec) {
		if m, ok := info.build(d, s); ok {
			out = append(out, m)
		}
	}
	n := info.CharStrings.Count
	gset := map[int]bool{}
	var glyphs []int
	for _, g := range []int{0, 1, n / 2, n - 1} {
		if g >= 0 && g < n && !gset[g] {
			gset[g] = true
			glyphs = append(glyphs, g)
		}
	}
	end := func(p *prog) *prog { // what terminates a charstring / a subroutine in this format
		if info.V2 {
			return p
		}
		return p.op(opEndchar)
	}
	ret := func(p *prog) *prog {
		if info.V2 {
			return p
		}
		return p.op(opReturn)
	}
	// the subroutine sets available: local (smallest count over the Private DICTs) and global
	type pool struct {
		global bool
		count  int
	}
	var pools []pool
	if len(info.LSubrs) > 0 {
		c := info.LSubrs[0].Count
		for _, ix := range info.LSubrs {
			if ix.Count < c {
				c = ix.Count
			}
		}
		pools = append(pools, pool{false, c})
	}
	if info.GSubrs.Count > 0 {
		pools = append(pools, pool{true, info.GSubrs.Count})
	}
	caller := func(g int, s subrRef) map[int]*prog { return map[int]*prog{g: end((&prog{}).call(s))} }

	for _, pl := range pools {
		ks := map[int]bool{}
		var idx []int
		for _, k := range []int{0, 1, pl.count / 2, pl.count - 1} {
			if k >= 0 && k < pl.count && !ks[k] {
				ks[k] = true
				idx = append(idx, k)
			}
		}
		ref := func(k int) subrRef { return subrRef{pl.global, k, pl.count} }
		for gi, g := range glyphs {
			for ki, k := range idx {
				s := ref(k)
				// (a) self recursion: only / ends with / starts with the call, tail and non-tail
				add(cffSpec{"self-tail-only", map[subrRef]*prog{s: (&prog{}).call(s)}, caller(g, s)})
				if (gi+ki)%2 == 0 {
					add(cffSpec{"self-then-return", map[subrRef]*prog{s: ret((&prog{}).call(s))}, caller(g, s)})
					add(cffSpec{"self-ends-with", map[subrRef]*prog{s: (&prog{}).num(10, 20).op(opRlineto).call(s)}, caller(g, s)})
				} else {
					add(cffSpec{"self-starts-with", map[subrRef]*prog{s: ret((&prog{}).call(s).num(10, 20).op(opRlineto))}, caller(g, s)})
					// the caller itself ends with the call (no endchar): tail call from the charstring
					add(cffSpec{"self-tail-caller-no-endchar", map[subrRef]*prog{s: (&prog{}).call(s)}, map[int]*prog{g: (&prog{}).num(5, 5).op(opRmoveto).call(s)}})
				}
				// (b) cycles k -> k+1 -> k
				if k+1 < pl.count {
					s2 := ref(k + 1)
					add(cffSpec{"cycle-tail", map[subrRef]*prog{s: (&prog{}).call(s2), s2: (&prog{}).call(s)}, caller(g, s)})
					if (gi+ki)%2 == 1 {
						add(cffSpec{"cycle-return", map[subrRef]*prog{s: ret((&prog{}).call(s2)), s2: ret((&prog{}).num(1, 2).op(opRlineto).call(s))}, caller(g, s)})
					}
				}
			}
			// (d) deep but finite chains around the nesting limit
			for _, depth := range []int{9, 10, 11, 12} {
				if depth > pl.count {
					continue
				}
				for _, tail := range []bool{true, false} {
					if (gi+depth)%2 == 0 != tail && len(glyphs) > 1 {
						continue
					}
					subrs := map[subrRef]*prog{}
					for i := 0; i < depth-1; i++ {
						p := (&prog{}).call(ref(i + 1))
						if !tail {
							p = ret(p.num(1, 1).op(opRlineto))
						}
						subrs[ref(i)] = p
					}
					subrs[ref(depth-1)] = ret((&prog{}).num(10, 20).op(opRlineto))
					fam := fmt.Sprintf("chain-%d-nontail", depth)
					if tail {
						fam = fmt.Sprintf("chain-%d-tail", depth)
					}
					add(cffSpec{fam, subrs, caller(g, ref(0))})
				}
			}
			// (e) operand-stack stress inside a subroutine
			for _, cnt := range []int{48, 49, 96, 513, 514} {
				if (cnt+gi)%2 == 0 {
					s := ref(idx[gi%len(idx)])
					add(cffSpec{fmt.Sprintf("stack-%d-in-subr", cnt), map[subrRef]*prog{s: ret((&prog{}).nums(cnt, 1))},
						map[int]*prog{g: end((&prog{}).call(s).op(opRlineto))}})
				}
			}
		}
		// recursion across the two subroutine sets
		if len(pools) == 2 && !pl.global {
			l, gl := subrRef{false, 0, pools[0].count}, subrRef{true, 0, pools[1].count}
			for _, g := range glyphs {
				add(cffSpec{"cycle-local-global", map[subrRef]*prog{l: (&prog{}).call(gl), gl: (&prog{}).call(l)}, caller(g, l)})
			}
		}
	}
	for gi, g := range glyphs {
		// (e) operand-stack stress in the charstring
		for ci, cnt := range []int{47, 48, 49, 50, 96, 192, 512, 513, 514, 600} {
			ops := []byte{opRlineto, opRrcurveto, opEndchar, opRmoveto, opHstemhm}
			o := ops[(ci+gi)%len(ops)]
			p := (&prog{}).nums(cnt, 1).op(o)
			if o != opEndchar {
				p = end(p)
			}
			add(cffSpec{fmt.Sprintf("stack-%d", cnt), nil, map[int]*prog{g: p}})
		}
		add(cffSpec{"hintmask-many-stems", nil, map[int]*prog{g: end((&prog{}).nums(96, 1).op(opHstemhm).nums(96, 3).op(opHintmask).raw(0xFF, 0xFF))}})
		add(cffSpec{"hintmask-truncated", nil, map[int]*prog{g: (&prog{}).nums(40, 1).op(opHstemhm).op(opHintmask)}})
		// (f) charstrings without endchar
		add(cffSpec{"no-endchar", nil, map[int]*prog{g: (&prog{}).num(10, 20).op(opRmoveto).num(30, 40).op(opRlineto)}})
		add(cffSpec{"only-operands", nil, map[int]*prog{g: (&prog{}).num(1, 2, 3)}})
		add(cffSpec{"return-at-top-level", nil, map[int]*prog{g: (&prog{}).num(1, 2).op(opRmoveto).op(opReturn)}})
		add(cffSpec{"call-invalid-subr", nil, map[int]*prog{g: end((&prog{}).num(32000).op(opCallsubr).num(-32000).op(opCallgsubr))}})
		add(cffSpec{"escape-truncated", nil, map[int]*prog{g: (&prog{}).num(1).raw(12)}})
		add(cffSpec{"number-truncated", nil, map[int]*prog{g: (&prog{}).num(1).raw(28, 1)}})
		// (g) CFF2 variation operators with extreme counts
		if info.V2 {
			for _, v := range []int{0, 1, -1, 255, 32767} {
				add(cffSpec{"vsindex", nil, map[int]*prog{g: (&prog{}).num(v).op(opVsindex).num(1, 2).op(opRmoveto)}})
			}
			for _, v := range []int{0, 1, 2, -1, 255, 512, 32767} {
				add(cffSpec{"blend", nil, map[int]*prog{g: (&prog{}).num(1, 2, 3, 4, v).op(opBlend).op(opRmoveto)}})
				add(cffSpec{"blend-full-stack", nil, map[int]*prog{g: (&prog{}).nums(500, 1).num(v).op(opBlend).op(opRlineto)}})
			}
			add(cffSpec{"blend-empty-stack", nil, map[int]*prog{g: (&prog{}).op(opBlend)}})
		}
	}
	return out
}

// ---- DICT-level edits (Top DICT, Private DICTs, Font DICTs; CFF and CFF2) ----

type dictOperand struct {
	pos, n int // absolute position and encoded length
	val    int
	isReal bool
}

type dictEntry struct {
	opPos, opLen int // absolute position of the operator (2 bytes when escaped)
	op           int // escaped operators as 1200+b
	operands     []dictOperand
}

// dictEntries scans the DICT d[start:end] keeping the position of every operand and operator.
func dictEntries(d []byte, start, end int) []dictEntry {
	var out []dictEntry
	var st []dictOperand
	for i := start; i < end; {
		x := d[i]
		switch {
		case x == 28 && i+3 <= end:
			st = append(st, dictOperand{i, 3, int(int16(binary.BigEndian.Uint16(d[i+1:]))), false})
			i += 3
		case x == 29 && i+5 <= end:
			st = append(st, dictOperand{i, 5, int(int32(binary.BigEndian.Uint32(d[i+1:]))), false})
			i += 5
		case x == 30:
			j := i + 1
			for j < end && d[j]&0xf != 0xf && d[j]>>4 != 0xf {
				j++
			}
			j++
			st = append(st, dictOperand{i, j - i, 0, true})
			i = j
		case x >= 32 && x <= 246:
			st = append(st, dictOperand{i, 1, int(x) - 139, false})
			i++
		case x >= 247 && x <= 250 && i+2 <= end:
			st = append(st, dictOperand{i, 2, (int(x)-247)*256 + int(d[i+1]) + 108, false})
			i += 2
		case x >= 251 && x <= 254 && i+2 <= end:
			st = append(st, dictOperand{i, 2, -(int(x)-251)*256 - int(d[i+1]) - 108, false})
			i += 2
		case x <= 27:
			e := dictEntry{opPos: i, opLen: 1, op: int(x), operands: st}
			i++
			if x == 12 && i < end {
				e.op, e.opLen = 1200+int(d[i]), 2
				i++
			}
			out = append(out, e)
			st = nil
		default:
			return out
		}
	}
	return out
}

// encodeDictNum encodes v in exactly n bytes: the shortest encoding, preceded by as many `0`
// operands as needed (a well-formed DICT with extra leading operands; the readers use the last
// ones). ok is false when v does not fit.
func encodeDictNum(v, n int) ([]byte, bool) {
	var enc []byte
	switch {
	case v >= -107 && v <= 107, v >= 108 && v <= 1131, v >= -1131 && v <= -108:
		enc = encodeNum(v)
	case v >= -32768 && v <= 32767:
		enc = []byte{28, byte(uint16(int16(v)) >> 8), byte(v)}
	default:
		enc = []byte{29, byte(uint32(int32(v)) >> 24), byte(uint32(int32(v)) >> 16), byte(uint32(int32(v)) >> 8), byte(v)}
	}
	if len(enc) > n {
		return nil, false
	}
	out := make([]byte, 0, n)
	for len(out)+len(enc) < n {
		out = append(out, 139) // operand 0
	}
	return append(out, enc...), true
}

var dictOpNames = map[int]string{0: "version", 1: "Notice", 2: "FullName", 3: "FamilyName", 4: "Weight", 5: "FontBBox", 6: "BlueValues", 7: "OtherBlues",
	10: "StdHW", 11: "StdVW", 13: "UniqueID", 14: "XUID", 15: "charset", 16: "Encoding", 17: "CharStrings", 18: "Private", 19: "Subrs", 20: "defaultWidthX",
	21: "nominalWidthX", 22: "vsindex", 23: "blend", 24: "vstore", 1206: "CharstringType", 1207: "FontMatrix", 1230: "ROS", 1234: "CIDCount", 1236: "FDArray",
	1237: "FDSelect", 1238: "FontName"}

func dictOpName(op int) string {
	if n, ok := dictOpNames[op]; ok {
		return fmt.Sprintf("%d(%s)", op, n)
	}
	return fmt.Sprint(op)
}

// operators that take an offset (last operand) / a size or count
var dictOffsetOps = map[int]bool{15: true, 16: true, 17: true, 18: true, 19: true, 24: true, 1236: true, 1237: true}

// dictEdit is one in-place edit of a DICT with its description.
type dictEdit struct {
	e    Edit
	note string
}

// dictEdits lists the single DICT-level edits of one DICT.
func (info *cffInfo) dictEdits(d []byte, dc cffDict) []dictEdit {
	var out []dictEdit
	T := info.Start
	// starts of the other structures of the table, relative to the table (targets for offsets)
	targets := []int{0, 1, 2, info.GSubrs.Pos - T, info.CharStrings.Pos - T, info.CharStrings.DataBase - T, info.Len - 1, info.Len, info.Len + 1}
	if info.FDSelect != 0 {
		targets = append(targets, info.FDSelect-T)
	}
	if info.Charset != 0 {
		targets = append(targets, info.Charset-T)
	}
	for _, l := range info.LSubrs {
		targets = append(targets, l.Pos-T)
		break
	}
	for _, o := range info.Dicts {
		if o.Start != dc.Start {
			targets = append(targets, o.Start-T)
		}
	}
	for _, e := range dictEntries(d, dc.Start, dc.End) {
		n := len(e.operands)
		// (a) rewrite the operator into another one taking the same operands; 13 (UniqueID), 14 (XUID)
		// and 12 23 (BaseFontBlend) are ignored by the readers: that deletes the entry
		var cands []int
		if e.opLen == 1 {
			switch n {
			case 1:
				cands = []int{13, 15, 16, 17, 19, 20, 24, 4, 10}
			case 2:
				cands = []int{14, 18, 5, 6}
			default:
				cands = []int{14, 5, 6, 18, 7}
			}
		} else {
			switch n {
			case 1:
				cands = []int{1200, 1206, 1234, 1236, 1237, 1238, 1205, 1217}
			case 3:
				cands = []int{1223, 1230, 1207}
			default:
				cands = []int{1223, 1207, 1230, 1212}
			}
		}
		for _, c := range cands {
			if c == e.op {
				continue
			}
			ed := Edit{Op: "set8", Off: e.opPos, Val: uint32(c)}
			if e.opLen == 2 {
				ed = Edit{Op: "set8", Off: e.opPos + 1, Val: uint32(c - 1200)}
			}
			out = append(out, dictEdit{ed, fmt.Sprintf("%s op %s->%s", dc.Kind, dictOpName(e.op), dictOpName(c))})
		}
		// (b) operands
		for k, o := range e.operands {
			if o.isReal {
				continue
			}
			var vals []int
			switch {
			case dictOffsetOps[e.op] && k == n-1: // an offset
				vals = append(vals, targets...)
				vals = append(vals, o.val+1, o.val-1, -1, 32767, 1<<31-1)
			case e.op == 18 || e.op == 1206 || e.op == 1234 || e.op == 1230: // size / type / count
				vals = []int{0, 1, 2, o.val + 1, o.val - 1, -1, info.Len, 32767, 65535, 1<<31 - 1}
			default:
				vals = []int{0, -1, 32767, o.val + 1}
			}
			seen := map[int]bool{o.val: true}
			for _, v := range vals {
				if seen[v] {
					continue
				}
				seen[v] = true
				if enc, ok := encodeDictNum(v, o.n); ok {
					out = append(out, dictEdit{Edit{Op: "splice", Off: o.pos, Len: o.n, Hex: hex.EncodeToString(enc)},
						fmt.Sprintf("%s op %s operand[%d] %d->%d", dc.Kind, dictOpName(e.op), k, o.val, v)})
				}
			}
		}
	}
	return out
}

// cffDictMutants: every single DICT-level edit, and pairs of edits inside one DICT / across the
// DICTs of the table (sampled).
func cffDictMutants(d []byte, info *cffInfo, rnd interface{ Intn(int) int }, nPairs int) []mutant {
	var out []mutant
	var all []dictEdit
	for _, dc := range info.Dicts {
		all = append(all, info.dictEdits(d, dc)...)
	}
	for _, e := range all {
		out = append(out, mutant{Cat: catCFF, Edits: []Edit{e.e}, Note: "cff:dict " + e.note})
	}
	for k := 0; k < nPairs && len(all) >= 2; k++ {
		a, b := all[rnd.Intn(len(all))], all[rnd.Intn(len(all))]
		if a.e.Off == b.e.Off {
			continue
		}
		out = append(out, mutant{Cat: catCFF, Edits: []Edit{a.e, b.e}, Note: "cff:dict-pair " + a.note + " + " + b.note})
	}
	return out
}

// ---- the test ----

type cffFont struct {
	fontInfo
	info *cffInfo
}

// cffFonts lists the small corpus fonts whose CFF / CFF2 table this family understands.
func cffFonts(tb testing.TB) []cffFont {
	loadCorpus(tb)
	var out []cffFont
	for _, f := range smallFonts {
		if f.Size > 64<<10 {
			continue // the short hang watchdog of this job is calibrated for fonts that load in a few ms
		}
		l, data, err := layoutOf(f.Rel)
		if err != nil || l.Kind == "woff" {
			continue
		}
		for _, t := range l.Tables {
			if (t.Tag == "CFF " || t.Tag == "CFF2") && t.Font == 0 {
				if info := parseCFF(data, t); info != nil {
					out = append(out, cffFont{f, info})
				}
				break
			}
		}
	}
	return out
}

// TestPropCFFStructured: well-formed Type 2 control flow written into the subroutines and
// charstrings of corpus fonts; same oracle as every other case (no panic, allocation limits, hang
// detection through the in-process watchdog + journal + replay).
func TestPropCFFStructured(t *testing.T) {
	fonts := cffFonts(t)
	if len(fonts) < 20 {
		t.Fatalf("only %d CFF fonts understood by the structure parser", len(fonts))
	}
	shard, n := ev.Shard()
	rnd := ev.NewRand(uint64(ev.Seed())*0x9E3779B97F4A7C15 + 0xCFF)
	perFont := envInt("C09_CFF_PER_FONT", 120)
	nFonts := envInt("C09_CFF_FONTS", 100)
	var chosen []cffFont
	if ev.Thorough() {
		chosen = fonts
	} else {
		// every CFF2 / CID / global-subr font (rare strata), then a seeded sample of the others
		var rare, common []cffFont
		for _, f := range fonts {
			if f.info.V2 || f.info.GSubrs.Count > 0 || len(f.info.LSubrs) != 1 {
				rare = append(rare, f)
			} else {
				common = append(common, f)
			}
		}
		chosen = append(chosen, rare...)
		for i := len(common) - 1; i > 0; i-- {
			j := rnd.Intn(i + 1)
			common[i], common[j] = common[j], common[i]
		}
		for _, f := range common {
			if len(chosen) >= nFonts {
				break
			}
			chosen = append(chosen, f)
		}
	}
	co := newCollector(t)
	for i, f := range chosen {
		if i%n != shard || co.stopped {
			continue
		}
		data, err := baseBytes(f.Rel)
		if err != nil {
			t.Fatalf("reading %s: %v", f.Rel, err)
		}
		all := cffMutants(data, f.info)
		ev.LabelN("cff_enumerated_mutants", int64(len(all)))
		switch {
		case f.info.V2:
			ev.Label("cff_font:CFF2")
		case f.info.GSubrs.Count > 0:
			ev.Label("cff_font:with_gsubrs")
		case len(f.info.LSubrs) > 0:
			ev.Label("cff_font:with_lsubrs")
		default:
			ev.Label("cff_font:no_subrs")
		}
		frnd := ev.NewRand(uint64(ev.Seed())<<20 ^ uint64(i)*0x9E3779B97F4A7C15 ^ uint64(len(data)))
		// DICT-level edits: a few on every font, (nearly) all of them on every eighth font and on
		// the rare strata (CFF2, CID-keyed, global subroutines)
		dictBudget := envInt("C09_CFF_DICT_PER_FONT", 15)
		if i%8 == 0 || f.info.V2 || f.info.NFD > 0 || ev.Thorough() {
			dictBudget = envInt("C09_CFF_DICT_FULL", 260)
		}
		dictAll := cffDictMutants(data, f.info, frnd, 80)
		ev.LabelN("cff_dict_enumerated_mutants", int64(len(dictAll)))
		cases := append(sample(all, perFont, frnd), sample(dictAll, dictBudget, frnd)...)
		for _, m := range cases {
			if co.stopped {
				break
			}
			fam := strings.SplitN(strings.TrimPrefix(m.Note, "cff:"), " ", 2)[0]
			// chain-9-tail ... -> chain; stack-513 -> stack
			if j := strings.IndexByte(fam, '-'); j > 0 && (strings.HasPrefix(fam, "chain") || strings.HasPrefix(fam, "stack")) {
				fam = fam[:j]
			}
			ev.Label("cff:" + fam)
			c := Case{Font: f.Rel, Edits: m.Edits, Note: m.Note}
			co.add(c, evaluate(c, m.Cat))
		}
	}
	co.finish()
}
