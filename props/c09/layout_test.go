package c09

// Structure-walking mutants ("walked" family): instead of fixed offsets from the start of a table,
// the OpenType layout structure (GSUB / GPOS ScriptList, LangSys records incl. the non-default
// ones, FeatureList, LookupList, lookup subtables incl. extensions, Coverage and ClassDef tables,
// sequence lookup records, GDEF) and the inner CFF structures (FDSelect formats 0/3/4, charset,
// encoding) are walked, and the fields that INDEX OTHER ARRAYS (feature / lookup / font dict / class
// / coverage indices), the counts and the offsets found on the way are edited: single edits with
// the values around the bound of the indexed array, and PAIRS of coordinated edits inside one
// structure (one record, one table).

import (
	"fmt"
	"strings"
	"testing"

	"verif/internal/ev"
)

const catWalked = "walked"

// wfield is one field found by a walker.
type wfield struct {
	Off, W int    // absolute position, width in bytes (1, 2 or 4)
	Kind   string // index | count | offset | glyph | value
	Bound  int    // index/value: size of the indexed array; offset: length of the enclosing table; glyph: glyph count
	Group  string // the structure it belongs to (pairs are formed inside a group)
	Name   string
}

type walker struct {
	d      []byte
	fields []wfield
	limit  int // end of the table
}

func (w *walker) u8(o int) (int, bool) {
	if o < 0 || o >= w.limit || o >= len(w.d) {
		return 0, false
	}
	return int(w.d[o]), true
}

func (w *walker) u16(o int) (int, bool) {
	if o < 0 || o+2 > w.limit {
		return 0, false
	}
	return be16(w.d, o)
}

func (w *walker) u32(o int) (int, bool) {
	if o < 0 || o+4 > w.limit {
		return 0, false
	}
	return be32(w.d, o)
}

func (w *walker) add(off, width int, kind string, bound int, group, name string) {
	if off >= 0 && off+width <= w.limit && off+width <= len(w.d) {
		w.fields = append(w.fields, wfield{off, width, kind, bound, group, name})
	}
}

// pick returns a few indices of an array of n elements: first, second, middle, one before last,
// last (so non-first and non-default records are always visited).
func pick(n int) []int {
	var out []int
	seen := map[int]bool{}
	for _, i := range []int{0, 1, n / 2, n - 2, n - 1} {
		if i >= 0 && i < n && !seen[i] {
			seen[i] = true
			out = append(out, i)
		}
	}
	return out
}

// ---- OpenType layout ----

func (w *walker) coverage(c int, group string, nGlyphs int) {
	format, ok := w.u16(c)
	count, ok2 := w.u16(c + 2)
	if !ok || !ok2 {
		return
	}
	g := group + "/coverage"
	w.add(c, 2, "value", 2, g, "format")
	w.add(c+2, 2, "count", 0, g, "count")
	for _, i := range pick(count) {
		if format == 1 {
			w.add(c+4+2*i, 2, "glyph", nGlyphs, g, fmt.Sprintf("glyph[%d]", i))
		} else {
			w.add(c+4+6*i, 2, "glyph", nGlyphs, g, fmt.Sprintf("range[%d].start", i))
			w.add(c+6+6*i, 2, "glyph", nGlyphs, g, fmt.Sprintf("range[%d].end", i))
			w.add(c+8+6*i, 2, "value", count, g, fmt.Sprintf("range[%d].startCoverageIndex", i))
		}
	}
}

func (w *walker) classDef(c int, group string, nGlyphs, nClasses int) {
	format, ok := w.u16(c)
	if !ok {
		return
	}
	g := group + "/classdef"
	w.add(c, 2, "value", 2, g, "format")
	if format == 1 {
		count, _ := w.u16(c + 4)
		w.add(c+2, 2, "glyph", nGlyphs, g, "startGlyph")
		w.add(c+4, 2, "count", 0, g, "glyphCount")
		for _, i := range pick(count) {
			w.add(c+6+2*i, 2, "value", nClasses, g, fmt.Sprintf("class[%d]", i))
		}
		return
	}
	count, _ := w.u16(c + 2)
	w.add(c+2, 2, "count", 0, g, "rangeCount")
	for _, i := range pick(count) {
		w.add(c+4+6*i, 2, "glyph", nGlyphs, g, fmt.Sprintf("range[%d].start", i))
		w.add(c+6+6*i, 2, "glyph", nGlyphs, g, fmt.Sprintf("range[%d].end", i))
		w.add(c+8+6*i, 2, "value", nClasses, g, fmt.Sprintf("range[%d].class", i))
	}
}

// offset16 records an Offset16 field at pos relative to base and returns the target (0 if NULL).
func (w *walker) offset16(pos, base int, group, name string) int {
	v, ok := w.u16(pos)
	if !ok {
		return 0
	}
	w.add(pos, 2, "offset", w.limit-base, group, name)
	if v == 0 {
		return 0
	}
	return base + v
}

func (w *walker) seqLookupRecords(pos, count int, group string, nLookups, seqLen int) {
	for _, i := range pick(count) {
		w.add(pos+4*i, 2, "index", seqLen, group, fmt.Sprintf("seqLookup[%d].sequenceIndex", i))
		w.add(pos+4*i+2, 2, "index", nLookups, group, fmt.Sprintf("seqLookup[%d].lookupListIndex", i))
	}
}

func (w *walker) subtable(st int, isGPOS bool, typ int, group string, nGlyphs, nLookups int, depth int) {
	format, ok := w.u16(st)
	if !ok {
		return
	}
	w.add(st, 2, "value", 3, group, "format")
	ext := 7
	if isGPOS {
		ext = 9
	}
	if typ == ext {
		w.add(st+2, 2, "value", ext, group, "extensionLookupType")
		w.add(st+4, 4, "offset", w.limit-st, group, "extensionOffset")
		et, _ := w.u16(st + 2)
		eo, ok := w.u32(st + 4)
		if ok && depth == 0 && eo != 0 {
			w.subtable(st+eo, isGPOS, et, group+"/ext", nGlyphs, nLookups, 1)
		}
		return
	}
	context, chain := 5, 6
	if isGPOS {
		context, chain = 7, 8
	}
	switch {
	case typ == context && format == 3:
		gc, _ := w.u16(st + 2)
		sc, _ := w.u16(st + 4)
		w.add(st+2, 2, "count", 0, group, "glyphCount")
		w.add(st+4, 2, "count", 0, group, "seqLookupCount")
		for _, i := range pick(gc) {
			if c := w.offset16(st+6+2*i, st, group, fmt.Sprintf("coverage[%d]", i)); c != 0 && i == 0 {
				w.coverage(c, group, nGlyphs)
			}
		}
		w.seqLookupRecords(st+6+2*gc, sc, group, nLookups, gc)
	case typ == chain && format == 3:
		p := st + 2
		inputCount := 0
		for k, name := range []string{"backtrack", "input", "lookahead"} {
			n, ok := w.u16(p)
			if !ok {
				return
			}
			w.add(p, 2, "count", 0, group, name+"Count")
			for _, i := range pick(n) {
				if c := w.offset16(p+2+2*i, st, group, fmt.Sprintf("%sCoverage[%d]", name, i)); c != 0 && i == 0 && k == 1 {
					w.coverage(c, group, nGlyphs)
				}
			}
			if k == 1 {
				inputCount = n
			}
			p += 2 + 2*n
		}
		sc, _ := w.u16(p)
		w.add(p, 2, "count", 0, group, "seqLookupCount")
		w.seqLookupRecords(p+2, sc, group, nLookups, inputCount)
	default:
		// every other subtable format starts with: format, coverageOffset
		if c := w.offset16(st+2, st, group, "coverage"); c != 0 {
			w.coverage(c, group, nGlyphs)
		}
		w.add(st+4, 2, "count", 0, group, "count/+4")
		switch {
		case (typ == context || typ == chain) && format == 2:
			n := 1
			if typ == chain {
				n = 3
			}
			for i := 0; i < n; i++ {
				if c := w.offset16(st+4+2*i, st, group, fmt.Sprintf("classDef[%d]", i)); c != 0 {
					w.classDef(c, group, nGlyphs, 4)
				}
			}
			w.add(st+4+2*n, 2, "count", 0, group, "ruleSetCount")
		case isGPOS && typ == 2 && format == 2:
			c1, _ := w.u16(st + 12)
			c2, _ := w.u16(st + 14)
			if c := w.offset16(st+8, st, group, "classDef1"); c != 0 {
				w.classDef(c, group+"/1", nGlyphs, c1)
			}
			if c := w.offset16(st+10, st, group, "classDef2"); c != 0 {
				w.classDef(c, group+"/2", nGlyphs, c2)
			}
			w.add(st+12, 2, "count", 0, group, "class1Count")
			w.add(st+14, 2, "count", 0, group, "class2Count")
		case isGPOS && typ >= 4 && typ <= 6:
			if c := w.offset16(st+4, st, group, "coverage2"); c != 0 {
				w.coverage(c, group+"/2", nGlyphs)
			}
			w.add(st+6, 2, "count", 0, group, "markClassCount")
			w.offset16(st+8, st, group, "markArray")
			w.offset16(st+10, st, group, "baseArray")
		}
	}
}

func (w *walker) langSys(ls int, group string, nFeatures int) {
	count, ok := w.u16(ls + 4)
	if !ok {
		return
	}
	w.add(ls+2, 2, "index", nFeatures, group, "requiredFeatureIndex")
	w.add(ls+4, 2, "count", 0, group, "featureIndexCount")
	for _, i := range pick(count) {
		w.add(ls+6+2*i, 2, "index", nFeatures, group, fmt.Sprintf("featureIndices[%d]", i))
	}
}

// walkLayout walks a GSUB or GPOS table.
func walkLayout(d []byte, t tableRef, nGlyphs int) []wfield {
	w := &walker{d: d, limit: t.Off + t.Len}
	T := t.Off
	isGPOS := t.Tag == "GPOS"
	sl := w.offset16(T+4, T, t.Tag+"/header", "scriptList")
	fl := w.offset16(T+6, T, t.Tag+"/header", "featureList")
	ll := w.offset16(T+8, T, t.Tag+"/header", "lookupList")
	nFeatures, _ := w.u16(fl)
	nLookups, _ := w.u16(ll)
	if sl != 0 {
		ns, _ := w.u16(sl)
		w.add(sl, 2, "count", 0, t.Tag+"/scriptList", "scriptCount")
		for _, i := range pick(ns) {
			g := fmt.Sprintf("%s/script[%d]", t.Tag, i)
			s := w.offset16(sl+2+6*i+4, sl, g, "scriptOffset")
			if s == 0 {
				continue
			}
			if ls := w.offset16(s, s, g, "defaultLangSys"); ls != 0 {
				w.langSys(ls, g+"/default", nFeatures)
			}
			nl, _ := w.u16(s + 2)
			w.add(s+2, 2, "count", 0, g, "langSysCount")
			for _, j := range pick(nl) {
				gl := fmt.Sprintf("%s/langSys[%d]", g, j)
				if ls := w.offset16(s+4+6*j+4, s, gl, "langSysOffset"); ls != 0 {
					w.langSys(ls, gl, nFeatures)
				}
			}
		}
	}
	if fl != 0 {
		w.add(fl, 2, "count", 0, t.Tag+"/featureList", "featureCount")
		for _, i := range pick(nFeatures) {
			g := fmt.Sprintf("%s/feature[%d]", t.Tag, i)
			f := w.offset16(fl+2+6*i+4, fl, g, "featureOffset")
			if f == 0 {
				continue
			}
			n, _ := w.u16(f + 2)
			w.add(f+2, 2, "count", 0, g, "lookupIndexCount")
			for _, k := range pick(n) {
				w.add(f+4+2*k, 2, "index", nLookups, g, fmt.Sprintf("lookupListIndices[%d]", k))
			}
		}
	}
	if ll != 0 {
		w.add(ll, 2, "count", 0, t.Tag+"/lookupList", "lookupCount")
		for _, i := range pick(nLookups) {
			g := fmt.Sprintf("%s/lookup[%d]", t.Tag, i)
			lk := w.offset16(ll+2+2*i, ll, g, "lookupOffset")
			if lk == 0 {
				continue
			}
			typ, _ := w.u16(lk)
			flag, _ := w.u16(lk + 2)
			n, _ := w.u16(lk + 4)
			w.add(lk, 2, "value", 9, g, "lookupType")
			w.add(lk+2, 2, "value", 0x10, g, "lookupFlag")
			w.add(lk+4, 2, "count", 0, g, "subTableCount")
			if flag&0x10 != 0 {
				w.add(lk+6+2*n, 2, "index", 1, g, "markFilteringSet")
			}
			for _, j := range pick(n) {
				gs := fmt.Sprintf("%s/subtable[%d]", g, j)
				if st := w.offset16(lk+6+2*j, lk, gs, "subtableOffset"); st != 0 && (j == 0 || j == n-1) {
					w.subtable(st, isGPOS, typ, gs, nGlyphs, nLookups, 0)
				}
			}
		}
	}
	return w.fields
}

func walkGDEF(d []byte, t tableRef, nGlyphs int) []wfield {
	w := &walker{d: d, limit: t.Off + t.Len}
	T := t.Off
	minor, _ := w.u16(T + 2)
	if c := w.offset16(T+4, T, "GDEF/header", "glyphClassDef"); c != 0 {
		w.classDef(c, "GDEF/glyphClass", nGlyphs, 5)
	}
	w.offset16(T+6, T, "GDEF/header", "attachList")
	w.offset16(T+8, T, "GDEF/header", "ligCaretList")
	if c := w.offset16(T+10, T, "GDEF/header", "markAttachClassDef"); c != 0 {
		w.classDef(c, "GDEF/markAttachClass", nGlyphs, 256)
	}
	if minor >= 2 {
		if m := w.offset16(T+12, T, "GDEF/header", "markGlyphSetsDef"); m != 0 {
			n, _ := w.u16(m + 2)
			w.add(m+2, 2, "count", 0, "GDEF/markGlyphSets", "markGlyphSetCount")
			for _, i := range pick(n) {
				w.add(m+4+4*i, 4, "offset", w.limit-m, "GDEF/markGlyphSets", fmt.Sprintf("coverageOffset[%d]", i))
				if o, ok := w.u32(m + 4 + 4*i); ok && o != 0 && i == 0 {
					w.coverage(m+o, "GDEF/markGlyphSets", nGlyphs)
				}
			}
		}
	}
	return w.fields
}

// ---- inner CFF structures: FDSelect, charset, encoding ----

func walkCFFInner(d []byte, t tableRef) []wfield {
	info := parseCFF(d, t)
	if info == nil || info.V2 && info.FDSelect == 0 {
		return nil
	}
	w := &walker{d: d, limit: t.Off + t.Len}
	nGlyphs := info.CharStrings.Count
	if p := info.FDSelect; p != 0 {
		format, _ := w.u8(p)
		g := "CFF/FDSelect"
		w.add(p, 1, "value", 4, g, "format")
		switch format {
		case 0:
			for _, i := range pick(nGlyphs) {
				w.add(p+1+i, 1, "index", info.NFD, g, fmt.Sprintf("fds[%d]", i))
			}
		case 3:
			n, _ := w.u16(p + 1)
			w.add(p+1, 2, "count", 0, g, "nRanges")
			for _, i := range pick(n) {
				w.add(p+3+3*i, 2, "glyph", nGlyphs, g, fmt.Sprintf("range[%d].first", i))
				w.add(p+5+3*i, 1, "index", info.NFD, g, fmt.Sprintf("range[%d].fd", i))
			}
			w.add(p+3+3*n, 2, "glyph", nGlyphs, g, "sentinel")
		case 4:
			n, _ := w.u32(p + 1)
			w.add(p+1, 4, "count", 0, g, "nRanges")
			for _, i := range pick(n) {
				w.add(p+5+6*i, 4, "glyph", nGlyphs, g, fmt.Sprintf("range[%d].first", i))
				w.add(p+9+6*i, 2, "index", info.NFD, g, fmt.Sprintf("range[%d].fd", i))
			}
			w.add(p+5+6*n, 4, "glyph", nGlyphs, g, "sentinel")
		}
	}
	if p := info.Charset; p != 0 { // (0, 1, 2 are the predefined charsets)
		format, _ := w.u8(p)
		g := "CFF/charset"
		w.add(p, 1, "value", 2, g, "format")
		switch format {
		case 0:
			for _, i := range pick(nGlyphs - 1) {
				w.add(p+1+2*i, 2, "value", 391, g, fmt.Sprintf("sid[%d]", i))
			}
		case 1, 2:
			sz := 2 + format // first SID, nLeft (1 or 2 bytes)
			for i := 0; i < 3; i++ {
				w.add(p+1+sz*i, 2, "value", 391, g, fmt.Sprintf("range[%d].first", i))
				w.add(p+3+sz*i, format, "count", nGlyphs, g, fmt.Sprintf("range[%d].nLeft", i))
			}
		}
	}
	if p := info.Encoding; p != 0 { // (0, 1 are the predefined encodings)
		format, _ := w.u8(p)
		n, _ := w.u8(p + 1)
		g := "CFF/encoding"
		w.add(p, 1, "value", 1, g, "format")
		w.add(p+1, 1, "count", 0, g, "nCodes/nRanges")
		for _, i := range pick(n) {
			if format&0x7f == 0 {
				w.add(p+2+i, 1, "value", 256, g, fmt.Sprintf("code[%d]", i))
			} else {
				w.add(p+2+2*i, 1, "value", 256, g, fmt.Sprintf("range[%d].first", i))
				w.add(p+3+2*i, 1, "count", 256, g, fmt.Sprintf("range[%d].nLeft", i))
			}
		}
	}
	return w.fields
}

// ---- bitmap location tables (CBLC / EBLC / bloc) ----

func walkBitmapLoc(d []byte, t tableRef, nGlyphs int) []wfield {
	w := &walker{d: d, limit: t.Off + t.Len}
	T := t.Off
	nSizes, _ := w.u32(T + 4)
	w.add(T+4, 4, "count", 0, t.Tag+"/header", "numSizes")
	for _, i := range pick(nSizes) {
		rec := T + 8 + 48*i
		g := fmt.Sprintf("%s/size[%d]", t.Tag, i)
		arr, ok := w.u32(rec)
		nSub, _ := w.u32(rec + 8)
		if !ok {
			break
		}
		w.add(rec, 4, "offset", t.Len, g, "indexSubTableArrayOffset")
		w.add(rec+8, 4, "count", 0, g, "numberOfIndexSubTables")
		w.add(rec+40, 2, "glyph", nGlyphs, g, "startGlyphIndex")
		w.add(rec+42, 2, "glyph", nGlyphs, g, "endGlyphIndex")
		for _, j := range pick(nSub) {
			e := T + arr + 8*j
			gs := fmt.Sprintf("%s/subtable[%d]", g, j)
			add, ok := w.u32(e + 4)
			if !ok {
				break
			}
			w.add(e, 2, "glyph", nGlyphs, gs, "firstGlyph")
			w.add(e+2, 2, "glyph", nGlyphs, gs, "lastGlyph")
			w.add(e+4, 4, "offset", t.Len-arr, gs, "additionalOffsetToIndexSubtable")
			st := T + arr + add
			w.add(st, 2, "value", 4, gs, "indexFormat")
			w.add(st+2, 2, "value", 19, gs, "imageFormat")
			w.add(st+4, 4, "offset", t.Len, gs, "imageDataOffset")
			w.add(st+8, 4, "count", 0, gs, "numGlyphs/imageSize/offset[0]")
		}
	}
	return w.fields
}

// walkHeader treats the first twelve 16-bit fields of a table that has no walker of its own as one
// structure of counts / sizes, so that pairs of coordinated header edits (a record size with a
// record count, a format with a count ...) are generated with near-size values.
func walkHeader(d []byte, t tableRef) []wfield {
	w := &walker{d: d, limit: t.Off + t.Len}
	for p := 0; p < 24 && p+2 <= t.Len; p += 2 {
		w.add(t.Off+p, 2, "size", t.Len-p-2, "hdr/"+strings.TrimSpace(t.Tag), fmt.Sprintf("+%d", p))
	}
	return w.fields
}

// ---- mutants from walked fields ----

func (f wfield) cur(d []byte) int {
	v := 0
	for _, b := range d[f.Off : f.Off+f.W] {
		v = v<<8 | int(b)
	}
	return v
}

// values lists the adversarial values of a field, the most telling first.
func (f wfield) values(d []byte, siblings []wfield) []int {
	max := 1<<(8*uint(f.W)) - 1
	cur := f.cur(d)
	var vs []int
	switch f.Kind {
	case "index":
		vs = []int{f.Bound, f.Bound + 1, max, f.Bound - 1, 200, max - 1}
	case "count":
		vs = []int{cur + 1, 0, max, 1, cur - 1, f.Bound}
	case "offset":
		vs = []int{0, f.Bound, f.Bound - 1, 1, 2, cur + 2, cur - 2, max}
		for _, s := range siblings { // the offset of another record of the same structure
			if s.Kind == "offset" && s.Off != f.Off && s.W == f.W {
				vs = append(vs, s.cur(d))
				break
			}
		}
	case "glyph":
		vs = []int{0, max, f.Bound, cur + 1, cur - 1, f.Bound - 1}
		for _, s := range siblings { // the value of another glyph field of the same structure (e.g. sentinel := range[i].first)
			if s.Kind == "glyph" && s.Off != f.Off && s.W == f.W {
				vs = append(vs, s.cur(d))
			}
		}
	case "size": // a count or a record size in a table header; Bound = bytes left after the field
		vs = []int{1, f.Bound - 2, 0, f.Bound, max, f.Bound - 4, 2, f.Bound - 8, cur + 1}
	default: // value
		vs = []int{f.Bound, max, 0, f.Bound + 1, 1, cur + 1}
	}
	var out []int
	seen := map[int]bool{cur: true}
	for _, v := range vs {
		if v < 0 || v > max || seen[v] {
			continue
		}
		seen[v] = true
		out = append(out, v)
	}
	return out
}

func (f wfield) edit(v int) Edit {
	switch f.W {
	case 1:
		return Edit{Op: "set8", Off: f.Off, Val: uint32(v)}
	case 2:
		return Edit{Op: "set16", Off: f.Off, Val: uint32(v)}
	}
	return Edit{Op: "set32", Off: f.Off, Val: uint32(v)}
}

// walkedMutants builds the single edits and the pairs of coordinated edits (inside one group).
func walkedMutants(d []byte, fields []wfield, rnd interface{ Intn(int) int }, maxPairsPerGroup int) []mutant {
	var out []mutant
	groups := map[string][]wfield{}
	var order []string
	for _, f := range fields {
		if _, ok := groups[f.Group]; !ok {
			order = append(order, f.Group)
		}
		groups[f.Group] = append(groups[f.Group], f)
	}
	for _, g := range order {
		fs := groups[g]
		vals := make([][]int, len(fs))
		for i, f := range fs {
			vals[i] = f.values(d, fs)
			for _, v := range vals[i] {
				out = append(out, mutant{Cat: catWalked, Edits: []Edit{f.edit(v)}, Note: fmt.Sprintf("walked:single %s %s=%#x", g, f.Name, v)})
			}
		}
		// pairs: every pair of fields of the structure, with a few of their values
		type pair struct{ i, j, a, b int }
		var pairs []pair
		for i := range fs {
			for j := i + 1; j < len(fs); j++ {
				for a := 0; a < len(vals[i]) && a < 3; a++ {
					for b := 0; b < len(vals[j]) && b < 3; b++ {
						pairs = append(pairs, pair{i, j, vals[i][a], vals[j][b]})
					}
				}
				// glyph fields also take each other's value (sentinel := range[k].first, start := end ...)
				if fs[i].Kind == "glyph" && fs[j].Kind == "glyph" {
					for b := 0; b < len(vals[j]) && b < 2; b++ {
						pairs = append(pairs, pair{i, j, fs[j].cur(d), vals[j][b]})
					}
				}
			}
		}
		// glyph := sibling value combined with an index beyond its bound (two cooperating corruptions)
		for i := range fs {
			if fs[i].Kind != "glyph" {
				continue
			}
			for k := range fs {
				if fs[k].Kind != "glyph" || k == i {
					continue
				}
				for j := range fs {
					if fs[j].Kind == "index" && len(vals[j]) > 0 {
						lo, hi := i, j
						a, b := fs[k].cur(d), vals[j][0]
						if lo > hi {
							lo, hi, a, b = j, i, b, a
						}
						pairs = append(pairs, pair{lo, hi, a, b})
					}
				}
			}
		}
		maxPairsPerGroup := maxPairsPerGroup
		if strings.HasPrefix(g, "CFF/") {
			maxPairsPerGroup *= 20 // few fonts have these structures: take (nearly) all the pairs
		}
		if strings.HasPrefix(g, "hdr/") {
			maxPairsPerGroup *= 3
		}
		if len(pairs) > maxPairsPerGroup {
			for i := 0; i < maxPairsPerGroup; i++ {
				j := i + rnd.Intn(len(pairs)-i)
				pairs[i], pairs[j] = pairs[j], pairs[i]
			}
			pairs = pairs[:maxPairsPerGroup]
		}
		for _, p := range pairs {
			if p.a == fs[p.i].cur(d) && p.b == fs[p.j].cur(d) {
				continue
			}
			out = append(out, mutant{Cat: catWalked, Edits: []Edit{fs[p.i].edit(p.a), fs[p.j].edit(p.b)},
				Note: fmt.Sprintf("walked:pair %s %s=%#x, %s=%#x", g, fs[p.i].Name, p.a, fs[p.j].Name, p.b)})
		}
	}
	return out
}

// walkFont walks every structure this family knows in one font.
func walkFont(d []byte, l *layout) []wfield {
	var fields []wfield
	for _, t := range l.Tables {
		if t.Font != 0 {
			continue
		}
		switch t.Tag {
		case "GSUB", "GPOS":
			fields = append(fields, walkLayout(d, t, l.NumGlyphs)...)
		case "GDEF":
			fields = append(fields, walkGDEF(d, t, l.NumGlyphs)...)
		case "CFF ", "CFF2":
			fields = append(fields, walkCFFInner(d, t)...)
		case "CBLC", "EBLC", "bloc":
			fields = append(fields, walkBitmapLoc(d, t, l.NumGlyphs)...)
		case "glyf", "loca", "hmtx", "vmtx", "cvt ", "fpgm", "prep", "name", "DSIG", "CBDT", "EBDT", "bdat", "gasp":
			// bulk data or no header of counts
		default:
			if !t.Required && t.Len >= 8 {
				fields = append(fields, walkHeader(d, t)...)
			}
		}
	}
	return fields
}

// TestPropWalked: single and paired edits of the index / count / offset fields found by walking
// the layout and CFF structures of small corpus fonts.
func TestPropWalked(t *testing.T) {
	loadCorpus(t)
	shard, n := ev.Shard()
	rnd := ev.NewRand(uint64(ev.Seed())*0x9E3779B97F4A7C15 + 0x3A1CED)
	perFont := envInt("C09_WALKED_PER_FONT", 400)
	nFonts := envInt("C09_WALKED_FONTS", 120)
	// fonts with something to walk; the rare CID-keyed CFF fonts first, then a stratified sample
	var rare, rest []fontInfo
	for _, f := range smallFonts {
		l, data, err := layoutOf(f.Rel)
		if err != nil || l.Kind == "woff" || f.Size > 100<<10 && !ev.Thorough() {
			continue
		}
		cid := false
		walkable := false
		for _, tb := range l.Tables {
			switch tb.Tag {
			case "GSUB", "GPOS", "GDEF", "CBLC", "EBLC", "bloc", "MVAR", "HVAR", "fvar", "avar", "kern", "morx", "kerx":
				walkable = true
			case "CFF ", "CFF2":
				if info := parseCFF(data, tb); info != nil && (info.FDSelect != 0 || info.Charset != 0 || info.Encoding != 0) {
					walkable = true
					cid = info.FDSelect != 0
				}
			}
		}
		switch {
		case cid:
			rare = append(rare, f)
		case walkable:
			rest = append(rest, f)
		}
	}
	fonts := rare
	if ev.Thorough() {
		fonts = append(fonts, rest...)
	} else {
		fonts = append(fonts, stratified(rest, nFonts-len(rare), rnd)...)
	}
	co := newCollector(t)
	for i, f := range fonts {
		if i%n != shard || co.stopped {
			continue
		}
		l, data, err := layoutOf(f.Rel)
		if err != nil {
			t.Fatalf("reading %s: %v", f.Rel, err)
		}
		frnd := ev.NewRand(uint64(ev.Seed())<<20 ^ uint64(i)*0x9E3779B97F4A7C15 ^ uint64(len(data)))
		fields := walkFont(data, l)
		all := walkedMutants(data, fields, frnd, 40)
		ev.LabelN("walked_fields", int64(len(fields)))
		ev.LabelN("walked_enumerated_mutants", int64(len(all)))
		base := runData(data)
		if base.Finding != nil {
			co.add(Case{Font: f.Rel}, base.Finding)
			continue
		}
		budget := perFont
		if cost := int(base.Alloc >> 10); cost > costUnitKiB {
			budget = perFont * costUnitKiB / cost
			if budget < 40 {
				budget = 40
			}
		}
		// the mutants of the rare inner CFF structures are all taken, the others are sampled
		var chosen, others []mutant
		for _, m := range all {
			if strings.Contains(m.Note, " CFF/FDSelect ") {
				chosen = append(chosen, m)
			} else {
				others = append(others, m)
			}
		}
		chosen = append(chosen, sample(others, budget, frnd)...)
		for _, m := range chosen {
			if co.stopped {
				break
			}
			// label: walked:<single|pair>:<top-level structure>
			parts := strings.Fields(m.Note)
			top := strings.SplitN(parts[1], "[", 2)[0]
			if k := strings.Index(top, "/"); k > 0 {
				if k2 := strings.Index(top[k+1:], "/"); k2 > 0 {
					top = top[:k+1+k2]
				}
			}
			ev.Label(parts[0] + ":" + top)
			if strings.Contains(m.Note, "langSys[") {
				ev.Label("walked:non-default-langsys")
			}
			c := Case{Font: f.Rel, Edits: m.Edits, Note: m.Note}
			co.add(c, evaluate(c, m.Cat))
		}
	}
	co.finish()
}
