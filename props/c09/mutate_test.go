package c09

// Structure-aware fault injection: an independent, tolerant parser of the container structure
// (sfnt / TTC / WOFF / dfont) that yields the positions of every header and directory field and
// the extent of every table, and the mutation descriptors built on it. A mutant is always
// described by its base font and a short list of edits, never by its bytes.

import (
	"bytes"
	"compress/zlib"
	"encoding/binary"
	"encoding/hex"
	"fmt"
	"io"
	"sort"
)

// Edit is one byte-level change. Edits that do not fit the current data are ignored (so that every
// edit list is applicable: shrinking and replay can never produce an invalid case).
type Edit struct {
	Op  string `json:"op"`            // trunc | set8 | set16 | set32 | xor8 | splice | append (at the end of the data)
	Off int    `json:"off"`           // position (trunc: new length)
	Val uint32 `json:"val,omitempty"` // value for set*/xor8 (big endian)
	Len int    `json:"len,omitempty"` // splice: number of bytes removed at Off
	Hex string `json:"hex,omitempty"` // splice / append: bytes inserted
	Rep int    `json:"rep,omitempty"` // append: the bytes are repeated Rep times (0 = once): keeps large regular bodies small
}

// Case is the decoded form of a mutant: base font + edits, or raw bytes for tiny inputs.
type Case struct {
	Target string `json:"target,omitempty"` // "" (font file) | "cff" | "cmap": table-level fuzz targets
	Font   string `json:"font,omitempty"`   // corpus-relative path of the base font
	Hex    string `json:"hex,omitempty"`    // raw input (used instead of Font when non-empty)
	Edits  []Edit `json:"edits,omitempty"`
	Note   string `json:"note,omitempty"` // what the generator intended (class of the mutation)
}

func applyEdits(base []byte, edits []Edit) []byte {
	data := append([]byte(nil), base...)
	for _, e := range edits {
		switch e.Op {
		case "trunc":
			if e.Off >= 0 && e.Off < len(data) {
				data = data[:e.Off]
			}
		case "set8":
			if e.Off >= 0 && e.Off+1 <= len(data) {
				data[e.Off] = byte(e.Val)
			}
		case "xor8":
			if e.Off >= 0 && e.Off+1 <= len(data) {
				data[e.Off] ^= byte(e.Val)
			}
		case "set16":
			if e.Off >= 0 && e.Off+2 <= len(data) {
				binary.BigEndian.PutUint16(data[e.Off:], uint16(e.Val))
			}
		case "set32":
			if e.Off >= 0 && e.Off+4 <= len(data) {
				binary.BigEndian.PutUint32(data[e.Off:], e.Val)
			}
		case "append":
			ins, err := hex.DecodeString(e.Hex)
			if err != nil || e.Rep < 0 || e.Rep > 1<<20 || len(ins)*e.Rep > 8<<20 {
				continue
			}
			data = append(data, ins...)
			for k := 1; k < e.Rep; k++ {
				data = append(data, ins...)
			}
		case "splice":
			ins, err := hex.DecodeString(e.Hex)
			if err != nil || e.Off < 0 || e.Len < 0 || e.Off > len(data) || e.Off+e.Len > len(data) {
				continue
			}
			out := make([]byte, 0, len(data)-e.Len+len(ins))
			out = append(out, data[:e.Off]...)
			out = append(out, ins...)
			out = append(out, data[e.Off+e.Len:]...)
			data = out
		}
	}
	return data
}

// ---- container structure ----

type field struct {
	Off, W int    // position and width (2 or 4) of a big-endian field
	Role   string // "", "offset", "length", "count", "tag"
	Rel    int    // for "length" fields of a directory entry: absolute start of the table
}

type tableRef struct {
	Font           int    // index of the font inside the container
	Tag            string // table tag
	Entry          int    // file position of the directory entry
	TagPos         int    // position of the tag field
	OffPos, LenPos int    // positions of the 32-bit offset and (stored) length fields
	ZLenPos        int    // WOFF: position of the original-length field, else -1
	Off, Len       int    // body as stored in the file, clipped to the file
	Required       bool   // cmap / head / maxp: NewFont fails when they are invalid
}

type layout struct {
	Kind      string // sfnt | ttc | woff | dfont | unknown
	Size      int
	Hdr       []field // container header, collection header, resource map
	Dir       []field // directory entry fields (other than those reachable through Tables)
	Tables    []tableRef
	Cuts      []int // interesting truncation lengths
	NumGlyphs int   // maxp.numGlyphs of the first font (0 if unknown)
}

func be16(d []byte, o int) (int, bool) {
	if o < 0 || o+2 > len(d) {
		return 0, false
	}
	return int(binary.BigEndian.Uint16(d[o:])), true
}

func be32(d []byte, o int) (int, bool) {
	if o < 0 || o+4 > len(d) {
		return 0, false
	}
	return int(binary.BigEndian.Uint32(d[o:])), true
}

func isRequired(tag string) bool { return tag == "cmap" || tag == "head" || tag == "maxp" }

func (l *layout) clip(off, n int) (int, int) {
	if off > l.Size {
		off = l.Size
	}
	if off+n > l.Size {
		n = l.Size - off
	}
	return off, n
}

// parseSfnt records the header, directory and tables of one sfnt resource starting at base.
// rel is added to table offsets (dfont resources use offsets relative to the resource).
func (l *layout) parseSfnt(d []byte, base, rel, fontIndex int) {
	nt, ok := be16(d, base+4)
	if !ok {
		return
	}
	l.Hdr = append(l.Hdr, field{base, 4, "tag", 0}, field{base + 4, 2, "count", 0}, field{base + 6, 2, "", 0},
		field{base + 8, 2, "", 0}, field{base + 10, 2, "", 0})
	for i := 0; i <= 12; i++ {
		l.Cuts = append(l.Cuts, base+i)
	}
	for i := 0; i < nt; i++ {
		e := base + 12 + 16*i
		if e+16 > len(d) {
			break
		}
		off, _ := be32(d, e+8)
		n, _ := be32(d, e+12)
		co, cn := l.clip(off+rel, n)
		tag := string(d[e : e+4])
		l.Tables = append(l.Tables, tableRef{Font: fontIndex, Tag: tag, Entry: e, TagPos: e, OffPos: e + 8, LenPos: e + 12, ZLenPos: -1,
			Off: co, Len: cn, Required: isRequired(tag)})
		l.Dir = append(l.Dir, field{e, 4, "tag", 0}, field{e + 4, 4, "", 0}, field{e + 8, 4, "offset", 0}, field{e + 12, 4, "length", off + rel})
		l.Cuts = append(l.Cuts, e, e+1, e+4, e+8, e+12, e+15)
	}
}

func (l *layout) parseWoff(d []byte) {
	for _, f := range []field{{0, 4, "tag", 0}, {4, 4, "tag", 0}, {8, 4, "length", 0}, {12, 2, "count", 0}, {14, 2, "", 0}, {16, 4, "length", 0},
		{20, 2, "", 0}, {22, 2, "", 0}, {24, 4, "offset", 0}, {28, 4, "length", 0}, {32, 4, "length", 0}, {36, 4, "offset", 0}, {40, 4, "length", 0}} {
		l.Hdr = append(l.Hdr, f)
		l.Cuts = append(l.Cuts, f.Off, f.Off+1)
	}
	nt, ok := be16(d, 12)
	if !ok {
		return
	}
	for i := 0; i < nt; i++ {
		e := 44 + 20*i
		if e+20 > len(d) {
			break
		}
		off, _ := be32(d, e+4)
		n, _ := be32(d, e+8)
		co, cn := l.clip(off, n)
		tag := string(d[e : e+4])
		l.Tables = append(l.Tables, tableRef{Font: 0, Tag: tag, Entry: e, TagPos: e, OffPos: e + 4, LenPos: e + 8, ZLenPos: e + 12,
			Off: co, Len: cn, Required: isRequired(tag)})
		l.Dir = append(l.Dir, field{e, 4, "tag", 0}, field{e + 4, 4, "offset", 0}, field{e + 8, 4, "length", off}, field{e + 12, 4, "length", 0}, field{e + 16, 4, "", 0})
		l.Cuts = append(l.Cuts, e, e+1, e+4, e+8, e+12, e+16, e+19)
	}
}

func (l *layout) parseTTC(d []byte) {
	l.Hdr = append(l.Hdr, field{0, 4, "tag", 0}, field{4, 2, "", 0}, field{6, 2, "", 0}, field{8, 4, "count", 0})
	for i := 0; i <= 12; i++ {
		l.Cuts = append(l.Cuts, i)
	}
	n, ok := be32(d, 8)
	if !ok {
		return
	}
	for i := 0; i < n && i < 64; i++ {
		p := 12 + 4*i
		o, ok := be32(d, p)
		if !ok {
			break
		}
		l.Hdr = append(l.Hdr, field{p, 4, "offset", 0})
		l.Cuts = append(l.Cuts, p, p+2)
		if o < len(d) {
			l.parseSfnt(d, o, 0, i)
		}
	}
}

// parseDfont follows the Macintosh resource-fork format (same reading as the library's
// parseDfont, written independently): header, resource map, type list, 'sfnt' reference list.
func (l *layout) parseDfont(d []byte) {
	for i := 0; i < 16; i += 4 {
		l.Hdr = append(l.Hdr, field{i, 4, map[int]string{0: "offset", 4: "offset", 8: "length", 12: "length"}[i], 0})
		l.Cuts = append(l.Cuts, i, i+2)
	}
	mapOff, ok := be32(d, 4)
	if !ok {
		return
	}
	l.Hdr = append(l.Hdr, field{mapOff + 24, 2, "offset", 0}, field{mapOff + 26, 2, "offset", 0})
	l.Cuts = append(l.Cuts, mapOff, mapOff+16, mapOff+24, mapOff+25, mapOff+26, mapOff+28)
	tl, ok := be16(d, mapOff+24)
	if !ok {
		return
	}
	tcount, ok := be16(d, mapOff+tl)
	if !ok {
		return
	}
	l.Hdr = append(l.Hdr, field{mapOff + tl, 2, "count", 0})
	l.Cuts = append(l.Cuts, mapOff+tl, mapOff+tl+1, mapOff+tl+2)
	fi := 0
	for i := 0; i <= tcount && i < 32; i++ {
		e := mapOff + tl + 2 + 8*i
		if e+8 > len(d) {
			break
		}
		l.Hdr = append(l.Hdr, field{e, 4, "tag", 0}, field{e + 4, 2, "count", 0}, field{e + 6, 2, "offset", 0})
		l.Cuts = append(l.Cuts, e, e+4, e+6, e+7)
		if string(d[e:e+4]) != "sfnt" {
			continue
		}
		cnt, _ := be16(d, e+4)
		ro, _ := be16(d, e+6)
		for j := 0; j <= cnt && j < 32; j++ {
			r := mapOff + tl + ro + 12*j
			if r+12 > len(d) {
				break
			}
			l.Hdr = append(l.Hdr, field{r, 2, "", 0}, field{r + 2, 2, "offset", 0}, field{r + 4, 4, "offset", 0}, field{r + 8, 4, "", 0})
			l.Cuts = append(l.Cuts, r, r+4, r+5, r+8, r+11)
			o, _ := be32(d, r+4)
			o = o&0xffffff + 0x100 + 4
			if o < len(d) {
				l.Cuts = append(l.Cuts, o-4, o-2)
				l.parseSfnt(d, o, o, fi)
			}
			fi++
		}
	}
}

func parseLayout(d []byte) *layout {
	l := &layout{Kind: "unknown", Size: len(d)}
	if len(d) >= 4 {
		switch magic := binary.BigEndian.Uint32(d); {
		case magic == 0x774F4646: // wOFF
			l.Kind = "woff"
			l.parseWoff(d)
		case magic == 0x74746366: // ttcf
			l.Kind = "ttc"
			l.parseTTC(d)
		case magic == 0x00000100:
			l.Kind = "dfont"
			l.parseDfont(d)
		default:
			l.Kind = "sfnt"
			l.parseSfnt(d, 0, 0, 0)
		}
	}
	for _, t := range l.Tables {
		l.Cuts = append(l.Cuts, t.Off, t.Off+1, t.Off+2, t.Off+4, t.Off+6, t.Off+8, t.Off+12, t.Off+16, t.Off+32,
			t.Off+t.Len/2, t.Off+t.Len-1, t.Off+t.Len)
		if t.Tag == "maxp" && t.Font == 0 && l.Kind != "woff" {
			l.NumGlyphs, _ = be16(d, t.Off+4)
		}
	}
	l.Cuts = append(l.Cuts, l.Size-1, l.Size-2, l.Size-4)
	sort.Ints(l.Cuts)
	cuts := l.Cuts[:0]
	for i, c := range l.Cuts {
		if c < 0 || c >= l.Size || i > 0 && c == l.Cuts[i-1] {
			continue
		}
		cuts = append(cuts, c)
	}
	l.Cuts = cuts
	return l
}

// ---- mutation descriptors ----

// mutation categories (used for stratified sampling and labels)
const (
	catTrunc    = "trunc"     // file truncated at a structural boundary
	catHeader   = "header"    // container header / collection header / resource map field
	catDir      = "directory" // table directory field
	catShorten  = "shorten"   // directory length of one table reduced (truncation inside the table)
	catStruct   = "structure" // swapped bodies, duplicated tags, overlapping tables
	catReqField = "field_required"
	catOptField = "field_optional"
	catRandom   = "random" // random byte / bit mutations
	catWoffBody = "woff_body"
)

type mutant struct {
	Cat   string
	Edits []Edit
	Note  string
}

func setOp(w int) string {
	if w == 2 {
		return "set16"
	}
	return "set32"
}

func curVal(d []byte, off, w int) (uint32, bool) {
	if w == 2 {
		v, ok := be16(d, off)
		return uint32(v), ok
	}
	v, ok := be32(d, off)
	return uint32(v), ok
}

// specialValues lists the values of the fault model for a field of width w: the fixed extremes and
// the values near the relevant size (table length for fields inside a table, file size / distance
// to the end of file for directory fields) and near the glyph count.
func specialValues(w int, sizes ...int) []uint32 {
	vals := []uint32{0, 1, 0x7FFF, 0xFFFF}
	if w == 4 {
		vals = append(vals, 0xFFFFFFFF, 0x7FFFFFFF, 0x80000000, 0x10000)
	} else {
		vals = append(vals, 0x8000, 0xFFFE)
	}
	for _, s := range sizes {
		for d := -1; d <= 1; d++ {
			v := s + d
			if v < 0 {
				continue
			}
			if w == 2 {
				v &= 0xFFFF
			}
			vals = append(vals, uint32(v))
		}
	}
	// dedup, keep order
	out := vals[:0]
	seen := map[uint32]bool{}
	for _, v := range vals {
		if !seen[v] {
			seen[v] = true
			out = append(out, v)
		}
	}
	return out
}

var shortLengths = []int{0, 1, 2, 3, 4, 5, 6, 8, 10, 12, 14, 16, 18, 20, 24, 28, 32, 36, 40, 48, 53, 54, 64, 78, 96}

// enumerate builds every mutant of the systematic fault model for one font. nRandomPos is the
// number of random aligned positions mutated in each table beyond its first 64 bytes.
func enumerate(d []byte, l *layout, rnd interface{ Intn(int) int }, nRandomPos int) []mutant {
	var out []mutant
	add := func(cat, note string, edits ...Edit) {
		out = append(out, mutant{Cat: cat, Edits: edits, Note: note})
	}
	// 1. truncation
	for _, c := range l.Cuts {
		add(catTrunc, fmt.Sprintf("truncate to %d of %d", c, l.Size), Edit{Op: "trunc", Off: c})
	}
	// 2. header and directory fields
	fieldMutants := func(cat string, f field, what string) {
		cur, ok := curVal(d, f.Off, f.W)
		if !ok {
			return
		}
		sizes := []int{l.Size}
		if f.Role == "length" && f.Rel > 0 && f.Rel <= l.Size {
			sizes = append(sizes, l.Size-f.Rel)
		}
		for _, v := range specialValues(f.W, sizes...) {
			if v == cur {
				continue
			}
			add(cat, fmt.Sprintf("%s @%d u%d=%#x", what, f.Off, 8*f.W, v), Edit{Op: setOp(f.W), Off: f.Off, Val: v})
		}
	}
	for _, f := range l.Hdr {
		fieldMutants(catHeader, f, "header "+f.Role)
	}
	for _, f := range l.Dir {
		fieldMutants(catDir, f, "directory "+f.Role)
	}
	// 3. one table shortened through its directory length
	for _, t := range l.Tables {
		lens := append([]int(nil), shortLengths...)
		lens = append(lens, t.Len/2, t.Len-1, t.Len-2, t.Len-4)
		seen := map[int]bool{}
		for _, n := range lens {
			if n < 0 || n >= t.Len || seen[n] {
				continue
			}
			seen[n] = true
			edits := []Edit{{Op: "set32", Off: t.LenPos, Val: uint32(n)}}
			if t.ZLenPos >= 0 {
				edits = []Edit{{Op: "set32", Off: t.ZLenPos, Val: uint32(n)}}
			}
			add(catShorten, fmt.Sprintf("%s length %d -> %d", t.Tag, t.Len, n), edits...)
		}
	}
	// 4. structure: swapped bodies, duplicated tags, overlapping tables
	for i, a := range l.Tables {
		for j, b := range l.Tables {
			if i == j || a.Font != b.Font {
				continue
			}
			ao, _ := curVal(d, a.OffPos, 4)
			al, _ := curVal(d, a.LenPos, 4)
			bo, _ := curVal(d, b.OffPos, 4)
			bl, _ := curVal(d, b.LenPos, 4)
			if i < j {
				edits := []Edit{{Op: "set32", Off: a.OffPos, Val: bo}, {Op: "set32", Off: a.LenPos, Val: bl},
					{Op: "set32", Off: b.OffPos, Val: ao}, {Op: "set32", Off: b.LenPos, Val: al}}
				if a.ZLenPos >= 0 {
					az, _ := curVal(d, a.ZLenPos, 4)
					bz, _ := curVal(d, b.ZLenPos, 4)
					edits = append(edits, Edit{Op: "set32", Off: a.ZLenPos, Val: bz}, Edit{Op: "set32", Off: b.ZLenPos, Val: az})
				}
				add(catStruct, fmt.Sprintf("swap bodies %s <-> %s", a.Tag, b.Tag), edits...)
			}
			// the body of a also serves as b (a keeps its tag): a body read as another table
			if a.ZLenPos < 0 {
				add(catStruct, fmt.Sprintf("%s points at the body of %s", b.Tag, a.Tag),
					Edit{Op: "set32", Off: b.OffPos, Val: ao}, Edit{Op: "set32", Off: b.LenPos, Val: al})
			}
			// duplicated tag: entry a takes the tag of b (the first entry wins)
			tb, _ := curVal(d, b.TagPos, 4)
			add(catStruct, fmt.Sprintf("entry %s retagged %s (duplicate tag)", a.Tag, b.Tag), Edit{Op: "set32", Off: a.TagPos, Val: tb})
			// overlap: b starts inside a, keeping its length
			if a.Len >= 4 && a.ZLenPos < 0 {
				for _, delta := range []int{2, a.Len / 2 &^ 1} {
					add(catStruct, fmt.Sprintf("%s overlaps %s at +%d", b.Tag, a.Tag, delta), Edit{Op: "set32", Off: b.OffPos, Val: ao + uint32(delta)})
				}
			}
		}
	}
	// 5. fields inside tables: every 16/32-bit field of the first 64 bytes + random aligned positions
	if l.Kind != "woff" {
		for _, t := range l.Tables {
			cat := catOptField
			if t.Required {
				cat = catReqField
			}
			var pos []int
			for p := 0; p < 64 && p+2 <= t.Len; p += 2 {
				pos = append(pos, p)
			}
			if t.Len > 66 {
				for k := 0; k < nRandomPos; k++ {
					pos = append(pos, 64+2*rnd.Intn((t.Len-64)/2))
				}
			}
			for _, p := range pos {
				for _, w := range []int{2, 4} {
					if w == 4 && (p%4 != 0 && p < 64 || p+4 > t.Len) {
						continue
					}
					cur, ok := curVal(d, t.Off+p, w)
					if !ok {
						continue
					}
					for _, v := range specialValues(w, t.Len, t.Len-p, l.NumGlyphs) {
						if v == cur {
							continue
						}
						add(cat, fmt.Sprintf("%s+%d u%d=%#x", t.Tag, p, 8*w, v), Edit{Op: setOp(w), Off: t.Off + p, Val: v})
					}
				}
			}
		}
	}
	return out
}

// woffBodyMutant re-compresses a mutated copy of the decompressed body of table t: the new zlib
// stream is appended to the file and the directory entry is pointed at it.
func woffBodyMutant(d []byte, l *layout, t tableRef, p, w int, v uint32) (mutant, bool) {
	zlen, _ := be32(d, t.ZLenPos)
	var body []byte
	if t.Len < zlen {
		r, err := zlib.NewReader(bytes.NewReader(d[t.Off : t.Off+t.Len]))
		if err != nil {
			return mutant{}, false
		}
		body, err = io.ReadAll(io.LimitReader(r, 1<<20))
		if err != nil {
			return mutant{}, false
		}
	} else {
		body = append([]byte(nil), d[t.Off:t.Off+t.Len]...)
	}
	if p+w > len(body) {
		return mutant{}, false
	}
	if w == 2 {
		binary.BigEndian.PutUint16(body[p:], uint16(v))
	} else {
		binary.BigEndian.PutUint32(body[p:], v)
	}
	var zb bytes.Buffer
	zw := zlib.NewWriter(&zb)
	zw.Write(body)
	zw.Close()
	if zb.Len() >= len(body) { // must stay "compressed" for the reader to inflate it
		return mutant{}, false
	}
	return mutant{Cat: catWoffBody, Note: fmt.Sprintf("woff %s+%d u%d=%#x (recompressed)", t.Tag, p, 8*w, v), Edits: []Edit{
		{Op: "splice", Off: len(d), Len: 0, Hex: hex.EncodeToString(zb.Bytes())},
		{Op: "set32", Off: t.OffPos, Val: uint32(len(d))},
		{Op: "set32", Off: t.LenPos, Val: uint32(zb.Len())},
	}}, true
}
