package c09

// The oracle of C09: load + fixed query program under recover, per-step allocation accounting,
// wall-clock watchdog, goroutine accounting. A violation is identified by its SITE: for a panic the
// innermost frame of go-text/typesetting on the panicking stack + the message class; for an
// allocation excess the typesetting frame that allocated most bytes (measured in a second run with
// runtime.MemProfileRate = 1).

import (
	"bytes"
	"encoding/hex"
	"fmt"
	"math"
	"os"
	"regexp"
	"runtime"
	"runtime/debug"
	"runtime/metrics"
	"sort"
	"strconv"
	"strings"
	"sync/atomic"
	"time"

	"github.com/go-text/typesetting/di"
	"github.com/go-text/typesetting/font"
	ot "github.com/go-text/typesetting/font/opentype"
	"github.com/go-text/typesetting/font/opentype/tables"
	"github.com/go-text/typesetting/fontscan"
	"github.com/go-text/typesetting/harfbuzz"
	"github.com/go-text/typesetting/language"
	"github.com/go-text/typesetting/shaping"
	"golang.org/x/image/math/fixed"

	"verif/internal/corpus"
	"verif/internal/ev"
)

const (
	allocFloor     = 64 << 20 // bytes
	allocPerByte   = 64
	slowLimit      = 20 * time.Second
	maxCmapIter    = 2000
	modulePrefix   = "github.com/go-text/typesetting/"
	harnessPackage = "verif/props/c09"
)

// Finding is one violation of the totality contract.
type Finding struct {
	Kind  string `json:"kind"`  // panic | alloc | slow | goroutine
	Step  string `json:"step"`  // step of the load/query program
	Site  string `json:"site"`  // function identifying the defect
	Where string `json:"where"` // file:line of the site (information only)
	Msg   string `json:"msg"`   // message class (digits normalised)
	Raw   string `json:"raw"`   // full message
}

// genReaders is the known-finding id of one structural class of allocation findings: the bytes
// were allocated by one of the generated table readers (font/opentype/tables/*_gen.go). These
// readers decode every referenced subtable eagerly and bound each single array by the table
// length, so records whose offsets point at overlapping data multiply the total (quadratic in the
// table size). Which Parse* function tops the profile depends on the input, hence one id.
const genReaders = "C09-alloc:generated-readers-overlapping-offsets"

// ID is the known-finding identifier of the site: C09-<kind>:<site>.
func (f *Finding) ID() string {
	if f.Kind == "alloc" && strings.Contains(f.Where, "_gen.go:") && strings.HasPrefix(f.Site, "font/opentype/tables.") {
		return genReaders
	}
	return "C09-" + f.Kind + ":" + f.Site
}

func (f *Finding) String() string {
	return fmt.Sprintf("%s in step %q at %s (%s): %s", f.Kind, f.Step, f.Site, f.Where, f.Raw)
}

var digits = regexp.MustCompile(`0x[0-9a-fA-F]+|-?\d+`)

func msgClass(s string) string {
	s = digits.ReplaceAllString(s, "N")
	if len(s) > 100 {
		s = s[:100]
	}
	return s
}

// panicSite walks the stack of the panicking goroutine (called from a deferred function).
func panicSite() (site, where string) {
	pcs := make([]uintptr, 96)
	n := runtime.Callers(3, pcs)
	frames := runtime.CallersFrames(pcs[:n])
	var firstUser, firstUserWhere string
	for {
		fr, more := frames.Next()
		fn := fr.Function
		if fn != "" && !strings.HasPrefix(fn, "runtime.") && firstUser == "" && !strings.Contains(fn, harnessPackage+".(*runner).do") {
			firstUser, firstUserWhere = fn, fmt.Sprintf("%s:%d", shortFile(fr.File), fr.Line)
		}
		if strings.HasPrefix(fn, modulePrefix) {
			return strings.TrimPrefix(fn, modulePrefix), fmt.Sprintf("%s:%d", shortFile(fr.File), fr.Line)
		}
		if !more {
			break
		}
	}
	return firstUser, firstUserWhere
}

func shortFile(p string) string {
	for _, marker := range []string{"/font/", "/harfbuzz/", "/shaping/", "/fontscan/", "/language/", "/props/"} {
		if i := strings.LastIndex(p, marker); i >= 0 {
			return p[i+1:]
		}
	}
	return p
}

// ---- allocation counter (cumulative bytes allocated; same quantity as MemStats.TotalAlloc, read
// without stopping the world; small-object counts are flushed per span, an error far below the
// 64 MiB floor) ----

var allocSample = []metrics.Sample{{Name: "/gc/heap/allocs:bytes"}}

func totalAlloc() uint64 {
	metrics.Read(allocSample)
	return allocSample[0].Value.Uint64()
}

// ---- watchdog ----

var (
	caseStart   atomic.Int64 // unix nanos of the running case, 0 when idle
	watchdogRun atomic.Bool
)

// watchdogLimit: a case still running after this is a hang: the process exits and the journal
// names it (the driver then confirms by replaying the case alone). 60 s by default; the job of
// the CFF-structured family, whose cases take milliseconds, sets C09_WATCHDOG_S to a few seconds
// so that a hang is reported within the quick budget.
var watchdogLimit = 60 * time.Second

func startWatchdog() {
	if !watchdogRun.CompareAndSwap(false, true) {
		return
	}
	if s, err := strconv.Atoi(os.Getenv("C09_WATCHDOG_S")); err == nil && s > 0 {
		watchdogLimit = time.Duration(s) * time.Second
	}
	go func() {
		for {
			time.Sleep(500 * time.Millisecond)
			if s := caseStart.Load(); s != 0 && time.Since(time.Unix(0, s)) > watchdogLimit {
				// the journal (written before the case started) names the culprit; the driver
				// re-runs it alone and reports it only if it hangs again
				fmt.Fprintf(os.Stderr, "C09 watchdog: case still running after %s; exiting so that the driver can confirm it by replay\n", watchdogLimit)
				os.Exit(3)
			}
		}
	}()
}

func nowNanos() int64 { return time.Now().UnixNano() }

// ---- runner ----

type runner struct {
	limit   uint64
	finding *Finding
	steps   int
	maxStep uint64 // largest per-step allocation seen
	total   uint64 // bytes allocated by all the steps
}

// do executes one step under recover and allocation accounting; returns false if it violated.
func (r *runner) do(step string, f func()) (ok bool) {
	if r.finding != nil {
		return false
	}
	r.steps++
	a0 := totalAlloc()
	defer func() {
		if rec := recover(); rec != nil {
			site, where := panicSite()
			raw := fmt.Sprint(rec)
			if os.Getenv("C09_STACK") != "" { // triage aid
				fmt.Fprintf(os.Stderr, "panic: %s\n%s\n", raw, debug.Stack())
			}
			r.finding = &Finding{Kind: "panic", Step: step, Site: site, Where: where, Msg: msgClass(raw), Raw: raw}
			ok = false
		}
	}()
	t0 := time.Now()
	f()
	d := totalAlloc() - a0
	if dt := time.Since(t0); dt > 10*time.Millisecond && os.Getenv("C09_STACK") != "" { // triage aid
		fmt.Fprintf(os.Stderr, "step %s: %s, %d bytes allocated\n", step, dt, d)
	}
	r.total += d
	if d > r.maxStep {
		r.maxStep = d
	}
	if d > r.limit {
		r.finding = &Finding{Kind: "alloc", Step: step, Site: "?", Msg: "allocation out of proportion",
			Raw: fmt.Sprintf("step allocated %d bytes, limit %d (64 MiB + 64 x input)", d, r.limit)}
		return false
	}
	return true
}

var sink int

// runes at the ends of the code spaces of the cmap formats
var edgeRunes = []rune{0xFFEF, 0xFFF0, 0xFFFE, 0x10FFF0, 0x10FFFE, 0x7FFFFFFF, -0x80000000}

var probeRunes = []rune{0, 0x20, 'A', 'a', 0xE9, 0x3A9, 0x627, 0x915, 0x4E00, 0xFFFF, 0x10000, 0x1F600, 0x10FFFF, -1, 0x110000}

// outcome of one case
type outcome struct {
	Loaded  bool
	Faces   int
	Finding *Finding
	Steps   int
	MaxStep uint64
	Alloc   uint64 // bytes allocated by all the steps (a deterministic proxy of the cost of the case)
	Wall    time.Duration
}

// loadAndQuery is the fixed program. It is the only place where the code under test is called.
func loadAndQuery(data []byte, r *runner) (loaded bool, nFaces int) {
	var faces []*font.Face
	var err error
	if !r.do("ParseTTC", func() { faces, err = font.ParseTTC(bytes.NewReader(data)) }) {
		return false, 0
	}
	// the single-font entry point on the same bytes
	r.do("ParseTTF", func() {
		if f, e := font.ParseTTF(bytes.NewReader(data)); e == nil && f != nil {
			sink += int(f.Upem())
		}
	})
	if err != nil || r.finding != nil {
		return false, 0
	}
	var lds []*ot.Loader
	r.do("NewLoaders", func() { lds, _ = ot.NewLoaders(bytes.NewReader(data)) })
	for i, face := range faces {
		if r.finding != nil {
			break
		}
		if face == nil {
			r.finding = &Finding{Kind: "panic", Step: "ParseTTC", Site: "font.ParseTTC", Msg: "nil face without error", Raw: "nil face without error"}
			break
		}
		var ld *ot.Loader
		if i < len(lds) {
			ld = lds[i]
		}
		queryFace(face, ld, r)
	}
	return true, len(faces)
}

func glyphSet(n int) []font.GID {
	gs := []font.GID{0, 1, font.GID(n / 2), font.GID(n - 1), font.GID(n), 0xFFFF}
	if n == 0 {
		gs[3] = 0
	}
	// gids around the lengths of the fixed arrays a font may fall back to (predefined CFF charsets
	// of 87 / 166 / 229 entries, 256-entry encodings), when the font has that many glyphs
	for _, g := range []int{86, 87, 165, 166, 228, 229, 255, 256} {
		if g < n-1 {
			gs = append(gs, font.GID(g))
		}
	}
	return gs
}

func queryFace(face *font.Face, ld *ot.Loader, r *runner) {
	ft := face.Font
	// number of glyphs and variation axes, read through the loader like NewFont does
	n := 0
	var axes []tables.VariationAxisRecord
	if ld != nil {
		r.do("maxp/fvar", func() {
			raw, _ := ld.RawTable(ot.MustNewTag("maxp"))
			if mp, _, err := tables.ParseMaxp(raw); err == nil {
				n = int(mp.NumGlyphs)
			}
			raw, _ = ld.RawTable(ot.MustNewTag("fvar"))
			fv, _, _ := tables.ParseFvar(raw)
			axes = fv.FvarRecords.Axis
		})
	}
	glyphs := glyphSet(n)

	// --- cmap: lookups + bounded iteration
	var first, spread, long []rune
	r.do("cmap", func() {
		for _, ch := range probeRunes {
			g, ok := ft.Cmap.Lookup(ch)
			g2, ok2 := ft.NominalGlyph(ch)
			if g != g2 || ok != ok2 {
				sink++
			}
			for _, vs := range []rune{0xFE00, 0xFE0F, 0xE0100, 0x180B} {
				g, _ := ft.VariationGlyph(ch, vs)
				sink += int(g)
			}
		}
		for _, ch := range edgeRunes {
			g, _ := ft.Cmap.Lookup(ch)
			g2, _ := ft.VariationGlyph(ch, 0xE01EF)
			sink += int(g + g2)
		}
		// the range view of the cmap (used by font scanning to build the rune coverage)
		if rr, ok := ft.Cmap.(font.CmapRuneRanger); ok {
			ranges := rr.RuneRanges(nil)
			sink += len(rr.RuneRanges(ranges[:0])) // with a reused buffer
		}
		it := ft.Cmap.Iter()
		var seen []rune
		// the whole cmap is iterated (a consumer such as a coverage builder does): only the first
		// entries are kept for the strings. A cmap of a loaded font can yield at most one entry per
		// segment / group member; an iteration that does not end is caught by the watchdog.
		for k := 0; it.Next(); k++ {
			ch, g := it.Char()
			sink += int(g)
			if k < maxCmapIter {
				seen = append(seen, ch)
			}
		}
		for _, ch := range seen {
			if ch > 0x20 && len(first) < 8 {
				first = append(first, ch)
			}
		}
		if len(seen) > 0 {
			for k := 0; k < 8; k++ {
				spread = append(spread, seen[(k*len(seen))/8])
			}
		}
		// a longer run of consecutive cmap entries (contextual lookups of the test fonts need
		// their neighbours): up to 64 runes
		for _, ch := range seen {
			if ch >= 0x20 && len(long) < 64 {
				long = append(long, ch)
			}
		}
		for _, ch := range first {
			g, _ := ft.NominalGlyph(ch)
			sink += int(g)
		}
	})
	if len(first) == 0 {
		first = []rune{'a', 'b', ' ', 'f', 'i'}
	}

	metricsSteps := func(tag string) {
		r.do("advances"+tag, func() {
			for _, g := range glyphs {
				sink += int(face.HorizontalAdvance(g))
				sink += int(face.VerticalAdvance(g))
				x, y, _ := face.GlyphHOrigin(g)
				x2, y2, _ := face.GlyphVOrigin(g)
				sink += int(x + y + x2 + y2)
			}
		})
		r.do("extents"+tag, func() {
			for _, g := range glyphs {
				e, _ := face.GlyphExtents(g)
				sink += int(e.Width)
			}
			e1, _ := face.FontHExtents()
			e2, _ := face.FontVExtents()
			sink += int(e1.Ascender + e2.Ascender)
			for m := font.UnderlinePosition; m <= font.XHeight; m++ {
				sink += int(face.LineMetric(m))
			}
		})
		r.do("GlyphData"+tag, func() {
			for _, g := range glyphs {
				switch gd := face.GlyphData(g).(type) {
				case font.GlyphOutline:
					sink += len(gd.Segments)
				case font.GlyphBitmap:
					sink += len(gd.Data)
				case font.GlyphSVG:
					sink += len(gd.Source)
				}
			}
		})
	}
	metricsSteps("")
	r.do("GlyphData@ppem", func() {
		for _, pp := range [][2]uint16{{24, 24}, {1, 1}, {24, 0}, {65535, 65535}} {
			face.SetPpem(pp[0], pp[1])
			x, y := face.Ppem()
			sink += int(x + y)
			for _, g := range glyphs {
				if gd := face.GlyphData(g); gd != nil {
					sink++
				}
				e, _ := face.GlyphExtents(g)
				sink += int(e.Height)
				x, y, _ := face.GlyphVOrigin(g)
				sink += int(x+y) + int(face.HorizontalAdvance(g))
			}
		}
		face.SetPpem(0, 0)
	})
	// every glyph of a small font, not a sample: the per-glyph data (outline, composite, bitmap
	// strike entry, sbix graphic type, SVG document) differs from glyph to glyph; fonts with
	// bitmap strikes are also asked at a pixel size
	// (outline-only fonts: every glyph up to 48 glyphs, else a stride of 24 glyphs, because the
	// charstring / glyf decoding of every glyph of every mutant would dominate the budget)
	if n <= 300 {
		r.do("allglyphs", func() {
			sizes := [][2]uint16{{0, 0}}
			perGlyphTables := len(ft.BitmapSizes()) != 0 || ld != nil && ld.HasTable(ot.MustNewTag("SVG "))
			if len(ft.BitmapSizes()) != 0 {
				sizes = append(sizes, [2]uint16{24, 24})
			}
			step := 1
			if !perGlyphTables && n > 48 {
				step = (n + 23) / 24
			}
			for _, pp := range sizes {
				face.SetPpem(pp[0], pp[1])
				for g := 0; g < n; g += step {
					if gd := face.GlyphData(font.GID(g)); gd != nil {
						sink++
					}
					e, _ := face.GlyphExtents(font.GID(g))
					sink += int(e.Width)
				}
			}
			face.SetPpem(0, 0)
			for g := 0; g < n; g++ {
				sink += int(face.HorizontalAdvance(font.GID(g)) + face.VerticalAdvance(font.GID(g)))
			}
		})
	}
	r.do("misc", func() {
		for _, g := range glyphs {
			x, y, _ := ft.GetGlyphContourPoint(g, 0)
			sink += int(x + y)
		}
		// the kerning tables are exported: pair lookups of the simple formats
		for _, kt := range []font.Kernx{ft.Kern, ft.Kerx} {
			for _, st := range kt {
				if sk, ok := st.Data.(font.SimpleKerns); ok {
					for _, a := range glyphs {
						for _, b := range glyphs[:3] {
							sink += int(sk.KernPair(a, b))
						}
					}
				}
			}
		}
		// coordinates of the font's own axis count, directly
		if len(axes) > 0 {
			design := make([]float32, len(axes))
			for i := range design {
				design[i] = float32(1e9) * float32(1-2*(i%2))
			}
			nc := ft.NormalizeVariations(design)
			for i := range nc {
				nc[i] = font.VarCoord(16384 * (1 - 2*(i%2))) // +-1.0 in 2.14: the ends of the documented range
			}
			face.SetCoords(nc)
			for _, g := range glyphs[:4] {
				e, _ := face.GlyphExtents(g)
				sink += int(e.Width) + int(face.HorizontalAdvance(g))
			}
			sink += len(face.Coords())
			face.SetCoords(nil)
		}
	})
	r.do("GlyphName", func() {
		for _, g := range glyphs {
			sink += len(ft.GlyphName(g))
		}
		if n <= 512 { // names are cheap: every glyph of a small font
			for g := 0; g < n; g++ {
				sink += len(ft.GlyphName(font.GID(g)))
			}
		}
	})
	r.do("Describe", func() {
		d := ft.Describe()
		sink += len(d.Family) + int(d.Aspect.Weight)
		if ft.IsMonospace() {
			sink++
		}
		sink += len(ft.BitmapSizes()) + int(ft.Upem())
		if ft.HasVerticalMetrics() {
			sink++
		}
		if ld != nil {
			d2, _ := font.Describe(ld, nil)
			sink += len(d2.Family)
		}
	})
	// every table read through ONE reused buffer (Loader.RawTableTo), in ascending and in descending
	// order of size: the buffer is alternately too small and large enough for the next table
	if ld != nil {
		r.do("RawTableTo", func() {
			tags := ld.Tables()
			// a damaged header may announce tens of thousands of tables (each within the file): the
			// sweep is the harness's own repetition, so it is bounded — the allocation of ONE call
			// is what must stay in proportion to the input (first, last and evenly spread tags)
			const maxSweep = 48
			if len(tags) > maxSweep {
				picked := make([]ot.Tag, 0, maxSweep)
				for i := 0; i < maxSweep; i++ {
					picked = append(picked, tags[i*(len(tags)-1)/(maxSweep-1)])
				}
				tags = picked
			}
			sizes := map[ot.Tag]int{}
			for _, tg := range tags {
				b, _ := ld.RawTable(tg)
				sizes[tg] = len(b)
			}
			sort.SliceStable(tags, func(i, j int) bool { return sizes[tags[i]] < sizes[tags[j]] })
			var buf []byte
			for _, tg := range tags {
				if b, err := ld.RawTableTo(tg, buf); err == nil {
					buf = b
					sink += len(b)
				}
			}
			for i := len(tags) - 1; i >= 0; i-- {
				if b, err := ld.RawTableTo(tags[i], buf[:0]); err == nil {
					buf = b
					sink += len(b)
				}
			}
			// and with a small buffer between two large ones
			buf = make([]byte, 0, 16)
			for i := range tags {
				j := i / 2
				if i%2 == 1 {
					j = len(tags) - 1 - i/2
				}
				if b, err := ld.RawTableTo(tags[j], buf); err == nil {
					buf = b
				}
			}
		})
	}
	r.do("footprint", func() {
		fp := fontscan.VerifFootprintFromFont(ft, fontscan.Location{File: "mutant"}, ft.Describe())
		sink += fp.Runes.Len()
		if ld != nil {
			fp2, err := fontscan.VerifFootprintFromLoader(ld, true)
			if err == nil {
				sink += fp2.Runes.Len()
			}
		}
	})
	// --- variations with extreme values
	if len(axes) > 0 || ld == nil {
		tags := []font.Tag{ot.MustNewTag("wght"), ot.MustNewTag("wdth")}
		for _, a := range axes {
			tags = append(tags, a.Tag)
		}
		for vi, val := range []float32{float32(math.Inf(1)), -1e30, float32(math.NaN()), 0} {
			var vars []font.Variation
			for _, t := range tags {
				vars = append(vars, font.Variation{Tag: t, Value: val})
			}
			if !r.do("SetVariations", func() { face.SetVariations(vars); sink += len(face.Coords()) }) {
				break
			}
			metricsSteps(fmt.Sprintf("@var%d", vi))
		}
		r.do("SetVariations(nil)", func() { face.SetVariations(nil) })
	}
	// --- shaping: one harfbuzz shape (two strings), one shaping.HarfbuzzShaper.Shape
	r.do("harfbuzz.Shape", func() {
		hf := harfbuzz.NewFont(face)
		for k, text := range [][]rune{first, spread, long} {
			if len(text) == 0 {
				continue
			}
			buf := harfbuzz.NewBuffer()
			buf.AddRunes(text, 0, -1)
			buf.GuessSegmentProperties()
			if k == 1 {
				buf.Props.Direction = harfbuzz.RightToLeft
			}
			buf.Shape(hf, nil)
			sink += len(buf.Info)
		}
	})
	// --- shaping under the font's own script / language systems: for a bounded, deterministic
	// choice of the scripts of GSUB and GPOS and of their LangSys records (first, second, middle,
	// last: non-default and non-first records included) one short string is shaped with the OpenType
	// script and language tags forced through the private-use language subtags the shaper
	// documents (x-hbsc-<hex>-hbot-<hex>), so that the plan is compiled from exactly that LangSys;
	// the last shape of each table also carries user features from the font's FeatureList.
	r.do("harfbuzz.Shape@langsys", func() {
		hf := harfbuzz.NewFont(face)
		pick := func(n int, want []int) []int {
			var out []int
			seen := map[int]bool{}
			for _, i := range want {
				if i >= 0 && i < n && !seen[i] {
					seen[i] = true
					out = append(out, i)
				}
			}
			return out
		}
		for _, layout := range []*font.Layout{&ft.GSUB.Layout, &ft.GPOS.Layout} {
			ns := len(layout.Scripts)
			var feats []harfbuzz.Feature
			for _, fi := range pick(len(layout.Features), []int{0, len(layout.Features) / 2, len(layout.Features) - 1}) {
				feats = append(feats, harfbuzz.Feature{Tag: layout.Features[fi].Tag, Value: uint32(1 + fi%2), Start: harfbuzz.FeatureGlobalStart, End: harfbuzz.FeatureGlobalEnd})
			}
			feats = append(feats, harfbuzz.Feature{Tag: ot.MustNewTag("kern"), Value: 0, Start: 1, End: 3})
			for _, si := range pick(ns, []int{0, 1, ns / 2, ns - 1}) {
				sc := layout.Scripts[si]
				nl := len(sc.LangSysRecords)
				langs := []ot.Tag{ot.MustNewTag("dflt")}
				for _, li := range pick(nl, []int{0, nl / 2, nl - 1}) {
					langs = append(langs, sc.LangSysRecords[li].Tag)
				}
				for k, lt := range langs {
					buf := harfbuzz.NewBuffer()
					buf.AddRunes(first, 0, -1)
					buf.GuessSegmentProperties()
					buf.Props.Language = language.NewLanguage(fmt.Sprintf("x-hbsc-%08x-hbot-%08x", uint32(sc.Tag), uint32(lt)))
					var fs []harfbuzz.Feature
					if k == len(langs)-1 {
						fs = feats
					}
					buf.Shape(hf, fs)
					sink += len(buf.Info)
				}
			}
		}
	})
	// --- shaping and metrics with a pixel size set on the face (device tables of GPOS / GDEF are
	// only consulted then): both directions, default features
	r.do("harfbuzz.Shape@ppem", func() {
		hf := harfbuzz.NewFont(face) // reads the pixel size of the face when it shapes
		for pi, pp := range []uint16{12, 1, 0xFFFF} {
			face.SetPpem(pp, pp)
			for k, text := range [][]rune{first, spread} {
				if len(text) == 0 || k == 1 && pi > 0 { // both directions at 12, one string at the extremes
					continue
				}
				buf := harfbuzz.NewBuffer()
				buf.AddRunes(text, 0, -1)
				buf.GuessSegmentProperties()
				if k == 1 {
					buf.Props.Direction = harfbuzz.RightToLeft
				}
				buf.Shape(hf, nil)
				sink += len(buf.Info)
			}
			for _, g := range glyphs[:4] {
				sink += int(face.HorizontalAdvance(g)) + len(hf.GetOTLigatureCarets(harfbuzz.LeftToRight, g)) + len(hf.GetOTLigatureCarets(harfbuzz.TopToBottom, g))
				e, _ := face.GlyphExtents(g)
				sink += int(e.Width)
			}
		}
		face.SetPpem(0, 0)
	})
	r.do("shaping.Shape", func() {
		var sh shaping.HarfbuzzShaper
		out := sh.Shape(shaping.Input{Text: first, RunStart: 0, RunEnd: len(first), Direction: di.DirectionLTR, Face: face,
			Size: fixed.I(16), Script: language.LookupScript(first[0]), Language: language.NewLanguage("en")})
		sink += len(out.Glyphs)
	})
}

// bytesOf materialises the input of a case.
func bytesOf(c Case) ([]byte, error) {
	var base []byte
	if c.Hex != "" {
		b, err := hex.DecodeString(c.Hex)
		if err != nil {
			return nil, err
		}
		base = b
	} else if c.Font != "" {
		b, err := baseBytes(c.Font)
		if err != nil {
			return nil, err
		}
		base = b
	}
	if len(c.Edits) == 0 {
		return base, nil
	}
	return applyEdits(base, c.Edits), nil
}

var baseCache = map[string][]byte{}

func baseBytes(rel string) ([]byte, error) {
	if b, ok := baseCache[rel]; ok {
		return b, nil
	}
	b, err := corpus.Bytes(rel)
	if err != nil {
		return nil, err
	}
	if len(b) < 1<<20 {
		baseCache[rel] = b
	}
	return b, nil
}

// libraryGoroutines counts the goroutines, other than the caller's, whose stack contains a frame of
// the library under test.
func libraryGoroutines() (int, string) {
	buf := make([]byte, 1<<20)
	buf = buf[:runtime.Stack(buf, true)]
	n, where := 0, ""
	for i, g := range strings.Split(string(buf), "\n\n") {
		if i == 0 { // the calling goroutine comes first
			continue
		}
		if k := strings.Index(g, "github.com/go-text/typesetting/"); k >= 0 {
			n++
			if where == "" {
				line := g[k:]
				if e := strings.IndexByte(line, '\n'); e > 0 {
					line = line[:e]
				}
				where = line
			}
		}
	}
	return n, where
}

// runData evaluates the oracle on one input. It never fails the test itself.
func runData(data []byte) outcome {
	startWatchdog()
	g0 := runtime.NumGoroutine()
	r := &runner{limit: allocFloor + allocPerByte*uint64(len(data))}
	t0 := time.Now()
	caseStart.Store(t0.UnixNano())
	loaded, nf := loadAndQuery(data, r)
	caseStart.Store(0)
	wall := time.Since(t0)
	out := outcome{Loaded: loaded, Faces: nf, Finding: r.finding, Steps: r.steps, MaxStep: r.maxStep, Alloc: r.total, Wall: wall}
	if out.Finding == nil && runtime.NumGoroutine() > g0 {
		for k := 0; k < 50 && runtime.NumGoroutine() > g0; k++ {
			time.Sleep(2 * time.Millisecond)
		}
		if g := runtime.NumGoroutine(); g > g0 {
			// the process-wide count also moves for reasons that are not the library's (the fuzzing
			// engine, the test runtime, this harness's watchdog): only a goroutine still running
			// library code is a finding
			if n, where := libraryGoroutines(); n > 0 {
				out.Finding = &Finding{Kind: "goroutine", Step: "*", Site: "goroutine-left-behind", Msg: "goroutines left behind",
					Raw: fmt.Sprintf("%d goroutines before the case, %d after; %d still in library code: %s", g0, g, n, where)}
			}
		}
	}
	if out.Finding == nil && wall > slowLimit {
		// wall clock alone is never a violation: measure again, alone, after a GC
		runtime.GC()
		r2 := &runner{limit: r.limit}
		t1 := time.Now()
		caseStart.Store(t1.UnixNano())
		loadAndQuery(data, r2)
		caseStart.Store(0)
		if w2 := time.Since(t1); w2 > slowLimit {
			out.Finding = &Finding{Kind: "slow", Step: "*", Site: "slow", Msg: "time out of proportion",
				Raw: fmt.Sprintf("case took %s and %s when repeated (limit %s) for %d input bytes", wall, w2, slowLimit, len(data))}
		} else {
			ev.Label("slow_unconfirmed")
		}
	}
	if out.Finding != nil && out.Finding.Kind == "alloc" {
		out.Finding.Site, out.Finding.Where = allocSite(data)
	}
	return out
}

// allocSite re-runs the case with every allocation profiled and attributes the excess to the
// go-text/typesetting frame that allocated most bytes.
func allocSite(data []byte) (site, where string) {
	old := runtime.MemProfileRate
	runtime.MemProfileRate = 1
	defer func() { runtime.MemProfileRate = old }()
	snapshot := func() map[[32]uintptr]int64 {
		runtime.GC()
		runtime.GC()
		n, _ := runtime.MemProfile(nil, true)
		recs := make([]runtime.MemProfileRecord, n+200)
		n, ok := runtime.MemProfile(recs, true)
		if !ok {
			return nil
		}
		m := map[[32]uintptr]int64{}
		for _, rec := range recs[:n] {
			m[rec.Stack0] += rec.AllocBytes
		}
		return m
	}
	before := snapshot()
	r := &runner{limit: math.MaxUint64}
	caseStart.Store(time.Now().UnixNano())
	loadAndQuery(data, r)
	caseStart.Store(0)
	after := snapshot()
	type kv struct {
		st [32]uintptr
		n  int64
	}
	var best []kv
	for st, n := range after {
		if d := n - before[st]; d > 0 {
			best = append(best, kv{st, d})
		}
	}
	sort.Slice(best, func(i, j int) bool { return best[i].n > best[j].n })
	if len(best) == 0 {
		return "?", ""
	}
	if os.Getenv("C09_STACK") != "" { // triage aid: the five largest allocation sites
		for i := 0; i < len(best) && i < 5; i++ {
			k := 0
			for k < len(best[i].st) && best[i].st[k] != 0 {
				k++
			}
			fr := runtime.CallersFrames(best[i].st[:k])
			fmt.Fprintf(os.Stderr, "alloc site %d: %d bytes:", i, best[i].n)
			for j := 0; j < 6; j++ {
				f, more := fr.Next()
				fmt.Fprintf(os.Stderr, " %s:%d", f.Function[strings.LastIndex(f.Function, "/")+1:], f.Line)
				if !more {
					break
				}
			}
			fmt.Fprintln(os.Stderr)
		}
	}
	st := best[0].st
	k := 0
	for k < len(st) && st[k] != 0 {
		k++
	}
	frames := runtime.CallersFrames(st[:k])
	var first string
	for {
		fr, more := frames.Next()
		if first == "" && fr.Function != "" && !strings.HasPrefix(fr.Function, "runtime.") {
			first = fr.Function
		}
		if strings.HasPrefix(fr.Function, modulePrefix) {
			return strings.TrimPrefix(fr.Function, modulePrefix), fmt.Sprintf("%s:%d (%d bytes)", shortFile(fr.File), fr.Line, best[0].n)
		}
		if !more {
			break
		}
	}
	return first, fmt.Sprintf("(%d bytes)", best[0].n)
}
