package c09

// "synth" family: whole tables synthesized onto real corpus fonts, for structures and shapes the
// corpus (almost) never contains:
//   - cmap subtables whose segments / groups / ranges sit at the ENDS OF THE CODE SPACE: format 4
//     segments ending at 0xFFFF with and without glyphIdArray, starting at 0, covering everything;
//     format 12 / 13 groups ending at 0x10FFFF and 0xFFFFFFFF; format 6 / 10 first+count crossing
//     0xFFFF / 0x10FFFF; format 14 default-UVS ranges whose additionalCount runs past the end;
//   - an sbix table (no small corpus font has one) with strikes whose glyphs are 'png ', 'jpg ',
//     'tiff', 'dupe', 'flip', unknown or empty, dupe targets that are valid, self, a cycle, a chain
//     longer than the nesting limit, >= numGlyphs and 0xFFFF, truncated dupe data, extreme origin
//     offsets, unsorted / out-of-range glyph data offsets.
// The new table body is APPENDED to the file (edit "append", with a repeat count so that large
// regular bodies stay small in the case) and a directory entry is pointed at it (for sbix: the
// entry of an optional table the query program does not need is retagged).

import (
	"encoding/binary"
	"encoding/hex"
	"fmt"
	"testing"

	"verif/internal/ev"
)

const catSynth = "synth"

// chunk is a piece of a synthesized table: bytes repeated rep times.
type chunk struct {
	b   []byte
	rep int
}

type body []chunk

func (b *body) u8(vs ...int) *body {
	for _, v := range vs {
		b.raw(byte(v))
	}
	return b
}

func (b *body) u16(vs ...int) *body {
	for _, v := range vs {
		b.raw(byte(v>>8), byte(v))
	}
	return b
}

func (b *body) u24(v int) *body { return b.raw(byte(v>>16), byte(v>>8), byte(v)) }

func (b *body) u32(vs ...int) *body {
	for _, v := range vs {
		b.raw(byte(v>>24), byte(v>>16), byte(v>>8), byte(v))
	}
	return b
}

func (b *body) raw(bs ...byte) *body {
	if n := len(*b); n > 0 && (*b)[n-1].rep == 1 {
		(*b)[n-1].b = append((*b)[n-1].b, bs...)
		return b
	}
	*b = append(*b, chunk{append([]byte(nil), bs...), 1})
	return b
}

func (b *body) repeat(rep int, bs ...byte) *body {
	if rep > 0 {
		*b = append(*b, chunk{append([]byte(nil), bs...), rep})
	}
	return b
}

func (b body) size() int {
	n := 0
	for _, c := range b {
		n += len(c.b) * c.rep
	}
	return n
}

// patch32 overwrites 4 bytes at offset off of the (unrepeated) first chunk.
func (b body) patch32(off, v int) { binary.BigEndian.PutUint32(b[0].b[off:], uint32(v)) }
func (b body) patch16(off, v int) { binary.BigEndian.PutUint16(b[0].b[off:], uint16(v)) }

// installEdits appends the body to the file and points the directory entry t at it (retagged tag
// if not empty).
func installEdits(d []byte, t tableRef, tag string, b body) []Edit {
	var edits []Edit
	pos := len(d)
	if pad := (4 - pos%4) % 4; pad != 0 {
		edits = append(edits, Edit{Op: "append", Hex: hex.EncodeToString(make([]byte, pad))})
		pos += pad
	}
	for _, c := range b {
		e := Edit{Op: "append", Hex: hex.EncodeToString(c.b)}
		if c.rep > 1 {
			e.Rep = c.rep
		}
		edits = append(edits, e)
	}
	if tag != "" && tag != t.Tag {
		edits = append(edits, Edit{Op: "set32", Off: t.TagPos, Val: binary.BigEndian.Uint32([]byte(tag))})
	}
	return append(edits, Edit{Op: "set32", Off: t.OffPos, Val: uint32(pos)}, Edit{Op: "set32", Off: t.LenPos, Val: uint32(b.size())})
}

// ---- cmap ----

type seg4 struct {
	start, end, delta int
	array             bool // glyphIdArray-backed (idRangeOffset != 0)
	gid               int  // glyph written in the array
}

// cmap4 builds a format 4 subtable from the segments as given (no sentinel is added).
func cmap4(segs []seg4) body {
	n := len(segs)
	var b body
	b.u16(4, 0, 0, 2*n, 0, 0, 0)
	for _, s := range segs {
		b.u16(s.end)
	}
	b.u16(0)
	for _, s := range segs {
		b.u16(s.start)
	}
	for _, s := range segs {
		b.u16(s.delta)
	}
	// glyphIdArray slices are laid out in segment order after the idRangeOffset array
	arrayStart := 0 // in uint16 units from the start of glyphIdArray
	for i, s := range segs {
		if !s.array {
			b.u16(0)
			continue
		}
		// idRangeOffset is relative to its own position: (n - i) entries to the end of the array, then arrayStart
		b.u16(2 * (n - i + arrayStart))
		arrayStart += s.end - s.start + 1
	}
	for _, s := range segs {
		if s.array {
			cnt := s.end - s.start + 1
			if cnt > 0 {
				b.repeat(cnt, byte(s.gid>>8), byte(s.gid))
			}
		}
	}
	l := b.size()
	if l > 0xFFFF {
		l = 0xFFFF
	}
	b.patch16(2, l)
	return b
}

type group12 struct{ start, end, gid int }

func cmap12(format int, groups []group12) body {
	var b body
	b.u16(format, 0).u32(16+12*len(groups), 0, len(groups))
	for _, g := range groups {
		b.u32(g.start, g.end, g.gid)
	}
	return b
}

func cmap6(first, count, gid int) body {
	var b body
	b.u16(6, 10+2*count, 0, first, count).repeat(count, byte(gid>>8), byte(gid))
	return b
}

func cmap10(first, count, gid int) body {
	var b body
	b.u16(10, 0).u32(20+2*count, 0, first, count).repeat(count, byte(gid>>8), byte(gid))
	return b
}

// cmap14 with one variation selector: default UVS ranges and non-default mappings.
func cmap14(selector int, def [][2]int, nondef [][2]int) body {
	var b body
	b.u16(14).u32(0, 1)
	defOff, ndOff := 0, 0
	p := 10 + 11
	if len(def) > 0 {
		defOff = p
		p += 4 + 4*len(def)
	}
	if len(nondef) > 0 {
		ndOff = p
		p += 4 + 5*len(nondef)
	}
	b.u24(selector).u32(defOff, ndOff)
	if len(def) > 0 {
		b.u32(len(def))
		for _, r := range def {
			b.u24(r[0]).u8(r[1])
		}
	}
	if len(nondef) > 0 {
		b.u32(len(nondef))
		for _, r := range nondef {
			b.u24(r[0]).u16(r[1])
		}
	}
	b.patch32(2, b.size())
	return b
}

type cmapSub struct {
	platform, encoding int
	b                  body
}

// cmapTable assembles a cmap table.
func cmapTable(subs ...cmapSub) body {
	var b body
	b.u16(0, len(subs))
	off := 4 + 8*len(subs)
	for _, s := range subs {
		b.u16(s.platform, s.encoding).u32(off)
		off += s.b.size()
	}
	for _, s := range subs {
		b = append(b, s.b...)
	}
	return b
}

type synthTable struct {
	name string
	tag  string
	b    body
}

// cmapShapes lists the synthesized cmap tables; g is a valid glyph id, n the glyph count.
func cmapShapes(n int) []synthTable {
	g := 1
	if n < 2 {
		g = 0
	}
	sentinel := seg4{0xFFFF, 0xFFFF, 1, false, 0}
	f4 := func(name string, segs ...seg4) synthTable {
		return synthTable{"cmap4 " + name, "cmap", cmapTable(cmapSub{3, 1, cmap4(segs)})}
	}
	f12 := func(name string, format int, groups ...group12) synthTable {
		return synthTable{fmt.Sprintf("cmap%d %s", format, name), "cmap", cmapTable(cmapSub{3, 10, cmap12(format, groups)})}
	}
	base := cmap4([]seg4{{0x20, 0x7E, 0, true, g}, sentinel})
	out := []synthTable{
		f4("array segment 0xFFF0-0xFFFF, no sentinel", seg4{0x41, 0x5A, 0, true, g}, seg4{0xFFF0, 0xFFFF, 0, true, g}),
		f4("array segment 0xFFF0-0xFFFE then sentinel", seg4{0xFFF0, 0xFFFE, 0, true, g}, sentinel),
		f4("array segment 0xFFFE-0xFFFF glyph 0", seg4{0x41, 0x5A, 0, true, g}, seg4{0xFFFE, 0xFFFF, 0, true, 0}),
		f4("array segment 0x0000-0xFFFF", seg4{0, 0xFFFF, 0, true, g}),
		f4("array segment 0x0000-0xFFFF glyphs beyond numGlyphs", seg4{0, 0xFFFF, 0, true, n + 1}),
		f4("delta segment 0x0000-0xFFFF", seg4{0, 0xFFFF, 1, false, 0}),
		f4("delta segment 0xFF00-0xFFFF wrapping delta", seg4{0xFF00, 0xFFFF, 0x0200, false, 0}),
		f4("array segment 0x0000-0x0040 and delta 0xFFF0-0xFFFF", seg4{0, 0x40, 0, true, g}, seg4{0xFFF0, 0xFFFF, 0x11, false, 0}),
		f4("array segment 0xFFFF-0xFFFF", seg4{0x41, 0x5A, 0, true, g}, seg4{0xFFFF, 0xFFFF, 0, true, g}),
		f4("array segment with delta, ending at 0xFFFF", seg4{0xFF80, 0xFFFF, 0xFFFF, true, g}),
		f4("overlapping array segments at the end", seg4{0xFFE0, 0xFFFF, 0, true, g}, seg4{0xFFF0, 0xFFFF, 0, true, g}),
		f4("no segment", []seg4{}...),
		f4("only the sentinel", sentinel),
		f12("group 0x10FF00-0x10FFFF", 12, group12{0x10FF00, 0x10FFFF, g}),
		f12("group 0-0x10FFFF", 12, group12{0, 0x10FFFF, 0}),
		f12("group 0xFFFFFF00-0xFFFFFFFF", 12, group12{0xFFFFFF00, 0xFFFFFFFF, g}),
		f12("group 0x10FFFF-0xFFFFFFFF", 12, group12{0x41, 0x5A, g}, group12{0x10FFFF, 0xFFFFFFFF, g}),
		f12("group glyphs wrapping 0xFFFFFFFF", 12, group12{0x41, 0x10FFFF, 0xFFFFFF00}),
		f12("groups ending at 0xFFFF / 0x10000", 12, group12{0xFF00, 0xFFFF, g}, group12{0x10000, 0x100FF, g}),
		f12("group 0-0x10FFFF", 13, group12{0, 0x10FFFF, g}),
		f12("group 0xFFFFFFF0-0xFFFFFFFF", 13, group12{0xFFFFFFF0, 0xFFFFFFFF, g}),
		f12("group 0x7FFFFFF0-0x80000010 (sign change)", 12, group12{0x7FFFFFF0, 0x80000010, g}),
		// a malformed group followed by a later, valid one
		f12("group 0x10FF00-0xFFFFFFFF then 0x10FF80-0x10FF90", 12, group12{0x10FF00, 0xFFFFFFFF, g}, group12{0x10FF80, 0x10FF90, g}),
		f12("group 0x10FF00-0xFFFFFFFF then 0x10FF80-0x10FF90", 13, group12{0x10FF00, 0xFFFFFFFF, g}, group12{0x10FF80, 0x10FF90, g}),
		f12("group 0x41-0xFFFFFFFF then 0x61-0x7A", 12, group12{0x41, 0xFFFFFFFF, g}, group12{0x61, 0x7A, g}),
		f12("group 0x110000-0x7FFFFFFF then 0x41-0x5A (unsorted)", 12, group12{0x110000, 0x7FFFFFFF, g}, group12{0x41, 0x5A, g}),
		f12("group end < start then valid", 12, group12{0x5A, 0x41, g}, group12{0x61, 0x7A, g}),
		f12("group 0x41-0x200000 then 0x10FFF0-0x10FFFF then 0x110000-0x110010", 13, group12{0x41, 0x200000, g}, group12{0x10FFF0, 0x10FFFF, g}, group12{0x110000, 0x110010, g}),
		{"cmap6 first 0xFFF0 count 32 (crosses 0xFFFF)", "cmap", cmapTable(cmapSub{3, 1, cmap6(0xFFF0, 32, g)})},
		{"cmap6 first 0xFFFF count 1", "cmap", cmapTable(cmapSub{3, 1, cmap6(0xFFFF, 1, g)})},
		{"cmap6 first 0 count 0xFFFF", "cmap", cmapTable(cmapSub{0, 3, cmap6(0, 0xFFFF, g)})},
		{"cmap10 first 0x10FFF0 count 32 (crosses 0x10FFFF)", "cmap", cmapTable(cmapSub{3, 10, cmap10(0x10FFF0, 32, g)})},
		{"cmap10 first 0xFFFFFFF0 count 32 (wraps)", "cmap", cmapTable(cmapSub{3, 10, cmap10(0xFFFFFFF0, 32, g)})},
		{"cmap10 first 0x7FFFFFF0 count 32", "cmap", cmapTable(cmapSub{3, 10, cmap10(0x7FFFFFF0, 32, g)})},
		{"cmap14 default range 0x10FFF0 +255, non-default 0xFFFFFF", "cmap", cmapTable(cmapSub{0, 5, cmap14(0xFE00, [][2]int{{0x41, 3}, {0x10FFF0, 255}, {0xFFFFF0, 255}}, [][2]int{{0x42, g}, {0xFFFFFF, n + 5}})}, cmapSub{3, 1, base})},
		{"cmap14 selector 0xFFFFFF, unsorted ranges", "cmap", cmapTable(cmapSub{0, 5, cmap14(0xFFFFFF, [][2]int{{0x50, 255}, {0x41, 255}}, [][2]int{{0x60, g}, {0x41, g}})}, cmapSub{3, 1, base})},
	}
	return out
}

// ---- GPOS single positioning with Device tables ----

// gposDevices builds a GPOS table: script DFLT -> feature 'kern' -> one SinglePos format 1 lookup
// covering every glyph, whose value record has the four placement / advance values and their four
// Device tables, all with the given header (startSize, endSize, deltaFormat) and nWords delta words.
func gposDevices(n, startSize, endSize, deltaFormat, nWords int) body {
	var b body
	b.u16(1, 0, 10, 30, 44)
	// ScriptList @10: 1 script DFLT -> Script @+8: defaultLangSys @+4 ; LangSys: no required feature, feature 0
	b.u16(1).raw('D', 'F', 'L', 'T').u16(8)
	b.u16(4, 0)
	b.u16(0, 0xFFFF, 1, 0)
	// FeatureList @30: 1 feature 'kern' -> Feature @+8: no params, 1 lookup: 0
	b.u16(1).raw('k', 'e', 'r', 'n').u16(8)
	b.u16(0, 1, 0)
	// LookupList @44: 1 lookup @+4: type 1, flag 0, 1 subtable @+8
	b.u16(1, 4)
	b.u16(1, 0, 1, 8)
	// SinglePos format 1 @56: coverage @+22, valueFormat 0x00FF, value record (8 values), then coverage, then device
	dev := 22 + 10
	b.u16(1, 22, 0x00FF, 10, 20, 30, 40, dev, dev, dev, dev)
	b.u16(2, 1, 0, n-1, 0) // coverage format 2: one range of all glyphs
	b.u16(startSize, endSize, deltaFormat)
	for i := 0; i < nWords; i++ {
		b.u16(0x1234)
	}
	return b
}

func deviceShapes(n int) []synthTable {
	var out []synthTable
	for _, h := range [][4]int{
		{12, 12, 1, 1}, {0, 0xFFFF, 1, 0}, {0, 0xFFFF, 2, 4}, {0, 0xFFFF, 3, 0}, {1, 0xFFFF, 1, 0}, {1, 0, 1, 0}, {0xFFFE, 0xFFFF, 1, 1},
		{0xFFFF, 0xFFFF, 3, 1}, {0, 0, 2, 1}, {12, 11, 1, 1}, {0xFFFF, 0, 1, 1}, {8, 16, 1, 0}, {8, 16, 3, 4}, {12, 12, 0, 1}, {12, 12, 4, 1},
		{0, 0xFFFF, 0x8000, 0}, {12, 12, 0xFFFF, 1}, {0, 7, 1, 1}, {0, 8, 1, 1}, {1, 0xFFFF, 3, 16},
	} {
		out = append(out, synthTable{fmt.Sprintf("GPOS SinglePos devices startSize=%d endSize=%d deltaFormat=%#x words=%d", h[0], h[1], h[2], h[3]), "GPOS", gposDevices(n, h[0], h[1], h[2], h[3])})
	}
	return out
}

// ---- sbix ----

type sbixGlyph struct {
	kind   string // "" = no data
	data   []byte
	ox, oy int
}

func tag4(s string) []byte { return []byte((s + "    ")[:4]) }

// sbixStrike builds one strike for n glyphs.
func sbixStrike(ppem int, glyphs []sbixGlyph) body {
	var b body
	b.u16(ppem, 72)
	off := 4 + 4*(len(glyphs)+1)
	for _, g := range glyphs {
		b.u32(off)
		if g.kind != "" {
			off += 8 + len(g.data)
		}
	}
	b.u32(off)
	for _, g := range glyphs {
		if g.kind != "" {
			b.u16(g.ox, g.oy).raw(tag4(g.kind)...).raw(g.data...)
		}
	}
	return b
}

func sbixTable(strikes ...body) body {
	var b body
	b.u16(1, 1).u32(len(strikes))
	off := 8 + 4*len(strikes)
	for _, s := range strikes {
		b.u32(off)
		off += s.size()
	}
	for _, s := range strikes {
		b = append(b, s...)
	}
	return b
}

var tinyPNG = []byte{0x89, 'P', 'N', 'G', 0x0D, 0x0A, 0x1A, 0x0A, 0, 0, 0, 13, 'I', 'H', 'D', 'R', 0, 0, 0, 2, 0, 0, 0, 2, 8, 6, 0, 0, 0}

func dupeTo(g int) sbixGlyph { return sbixGlyph{"dupe", []byte{byte(g >> 8), byte(g)}, 0, 0} }

// sbixShapes lists the synthesized sbix tables for a font with n glyphs. Each shape assigns a kind
// to EVERY glyph; the interesting glyph is placed at a different position in every shape.
func sbixShapes(n int) []synthTable {
	if n < 4 {
		return nil
	}
	png := sbixGlyph{"png ", tinyPNG, 0, 0}
	fill := func(special map[int]sbixGlyph) []sbixGlyph {
		gs := make([]sbixGlyph, n)
		for i := range gs {
			switch i % 5 {
			case 0, 1:
				gs[i] = png
			case 2:
				gs[i] = sbixGlyph{"jpg ", []byte{0xFF, 0xD8, 0xFF, 0xE0, 0, 16, 'J', 'F', 'I', 'F'}, -3, 7}
			case 3:
				gs[i] = sbixGlyph{} // no data
			default:
				gs[i] = sbixGlyph{"tiff", []byte{'I', 'I', 42, 0, 8, 0, 0, 0}, 0, 0}
			}
		}
		for k, v := range special {
			gs[k] = v
		}
		return gs
	}
	mk := func(name string, special map[int]sbixGlyph) synthTable {
		return synthTable{"sbix " + name, "sbix", sbixTable(sbixStrike(24, fill(special)), sbixStrike(128, fill(special)))}
	}
	a, b, c := 2%n, (n/3+1)%n, n-2 // glyphs that are not in the fixed sample of the query program
	chain := func(start, length, last int) map[int]sbixGlyph {
		m := map[int]sbixGlyph{}
		for i := 0; i < length; i++ {
			next := (start + i + 1) % n
			if i == length-1 {
				next = last
			}
			m[(start+i)%n] = dupeTo(next)
		}
		return m
	}
	out := []synthTable{
		mk("plain", nil),
		mk("dupe to a valid glyph", map[int]sbixGlyph{a: dupeTo(0)}),
		mk("dupe to itself", map[int]sbixGlyph{b: dupeTo(b)}),
		mk("dupe cycle of two", map[int]sbixGlyph{a: dupeTo(c), c: dupeTo(a)}),
		mk("dupe to numGlyphs", map[int]sbixGlyph{b: dupeTo(n)}),
		mk("dupe to numGlyphs+1", map[int]sbixGlyph{c: dupeTo(n + 1)}),
		mk("dupe to 0xFFFF", map[int]sbixGlyph{a: dupeTo(0xFFFF)}),
		mk("dupe to an empty glyph", map[int]sbixGlyph{b: dupeTo(3)}),
		mk("dupe chain of 3 ending at numGlyphs", chain(a, 3, n)),
		mk("dupe chain of 3 ending at 0xFFFF", chain(b%(n-3), 3, 0xFFFF)),
		mk("dupe chain of 12 (beyond the nesting limit) ending at a valid glyph", chain(0, min(12, n-1), n-1)),
		mk("dupe chain of 12 ending at numGlyphs", chain(0, min(12, n-1), n)),
		mk("dupe with 1 byte of data", map[int]sbixGlyph{c: {"dupe", []byte{0}, 0, 0}}),
		mk("dupe with no data", map[int]sbixGlyph{a: {"dupe", nil, 0, 0}}),
		mk("every glyph dupes the next, last to numGlyphs", chain(0, n, n)),
		mk("flip / mask / unknown types", map[int]sbixGlyph{a: {"flip", []byte{0, 1}, 0, 0}, b: {"mask", tinyPNG, 0, 0}, c: {"\x00\x00\x00\x00", tinyPNG, 0, 0}, 0: {"zzzz", nil, 0, 0}}),
		mk("png truncated headers", map[int]sbixGlyph{a: {"png ", tinyPNG[:8], 0, 0}, b: {"png ", tinyPNG[:20], 0, 0}, c: {"png ", nil, 0, 0}, 1: {"jpg ", []byte{0xFF}, 0, 0}, 0: {"tiff", []byte{'M', 'M'}, 0, 0}}),
		mk("extreme origin offsets", map[int]sbixGlyph{a: {"png ", tinyPNG, 0x7FFF, 0x8000}, b: {"png ", tinyPNG, 0x8000, 0x7FFF}}),
	}
	// structural damage of the strike itself: offsets
	damaged := func(name string, f func(st body)) {
		st := sbixStrike(24, fill(nil))
		f(st)
		out = append(out, synthTable{"sbix " + name, "sbix", sbixTable(st)})
	}
	damaged("glyph offset beyond the strike", func(st body) { st.patch32(4+4*b, 0x00FFFFFF) })
	damaged("glyph offsets decreasing", func(st body) { st.patch32(4+4*(a+1), 4) })
	damaged("glyph data shorter than its header", func(st body) {
		o := int(binary.BigEndian.Uint32(st[0].b[4+4*a:]))
		st.patch32(4+4*(a+1), o+3)
	})
	damaged("ppem 0", func(st body) { st.patch16(0, 0) })
	// table header
	hdr := sbixTable(sbixStrike(24, fill(nil)))
	hdr.patch32(4, 0x10000) // numStrikes
	out = append(out, synthTable{"sbix numStrikes 65536", "sbix", hdr})
	h2 := sbixTable(sbixStrike(24, fill(nil)))
	h2.patch32(8, h2.size()-2) // strike offset at the end of the table
	out = append(out, synthTable{"sbix strike at the end of the table", "sbix", h2})
	return out
}

func min(a, b int) int {
	if a < b {
		return a
	}
	return b
}

// TestPropSynth installs the synthesized tables on a rotating subset of small sfnt fonts.
func TestPropSynth(t *testing.T) {
	loadCorpus(t)
	shard, nsh := ev.Shard()
	nFonts := envInt("C09_SYNTH_FONTS", 10)
	// candidates: plain sfnt fonts up to 24 KiB with at most 300 glyphs and a victim entry for sbix
	type cand struct {
		fontInfo
		cmap, victim tableRef
		gpos         tableRef
		hasGPOS      bool
		hasVictim    bool
		n            int
	}
	var cands []cand
	for _, f := range smallFonts {
		if f.Size > 24<<10 && !ev.Thorough() {
			continue
		}
		l, _, err := layoutOf(f.Rel)
		if err != nil || l.Kind != "sfnt" || l.NumGlyphs < 4 || l.NumGlyphs > 300 {
			continue
		}
		c := cand{fontInfo: f, n: l.NumGlyphs}
		has := map[string]tableRef{}
		for _, tb := range l.Tables {
			has[tb.Tag] = tb
		}
		cm, ok := has["cmap"]
		if !ok || has["sbix"].Tag != "" {
			continue
		}
		c.cmap = cm
		c.gpos, c.hasGPOS = has["GPOS"]
		for _, v := range []string{"DSIG", "gasp", "prep", "fpgm", "cvt ", "FFTM", "name"} {
			if tb, ok := has[v]; ok {
				c.victim, c.hasVictim = tb, true
				break
			}
		}
		cands = append(cands, c)
	}
	if len(cands) < nFonts {
		t.Fatalf("only %d candidate fonts", len(cands))
	}
	// rotating, seed-dependent window; one TrueType and one CFF font are always part of it
	var fonts []cand
	start := (int(ev.Seed()) * nFonts * 7) % len(cands)
	for k := 0; len(fonts) < nFonts && k < len(cands); k++ {
		fonts = append(fonts, cands[(start+k*len(cands)/nFonts)%len(cands)])
	}
	if ev.Thorough() {
		fonts = cands
	}
	co := newCollector(t)
	k := 0
	for _, f := range fonts {
		data, err := baseBytes(f.Rel)
		if err != nil {
			t.Fatalf("reading %s: %v", f.Rel, err)
		}
		shapes := cmapShapes(f.n)
		if f.hasVictim {
			shapes = append(shapes, sbixShapes(f.n)...)
			shapes = append(shapes, deviceShapes(f.n)...)
		}
		for _, sh := range shapes {
			k++
			if k%nsh != shard || co.stopped {
				continue
			}
			entry, tag := f.cmap, ""
			switch sh.tag {
			case "sbix":
				entry, tag = f.victim, "sbix"
			case "GPOS":
				// the font's own GPOS entry if it has one, else the victim entry
				entry, tag = f.victim, "GPOS"
				if f.hasGPOS {
					entry, tag = f.gpos, ""
				}
			}
			c := Case{Font: f.Rel, Edits: installEdits(data, entry, tag, sh.b), Note: "synth:" + sh.name}
			ev.Label("synth:" + sh.tag)
			co.add(c, evaluate(c, catSynth))
		}
	}
	co.finish()
}
