package c09

// "bitwalk" family: for every structure the walkers reach - now also the variation tables
// (ItemVariationStore in HVAR / VVAR / MVAR / GDEF / CFF2, delta-set index maps, gvar header, glyph
// variation data and tuple headers, avar, fvar), cmap subtables and the kern / kerx / morx headers -
// every count / format / flags / size field gets
//   - each of its high bits set or cleared (a flag inside a count or format field that switches the
//     element size: 0x8000, 0x4000 / 0x80, 0x40, 0x20, 0x10 / 0x80000000 ...), max and max-1,
//   - the values that make the extent it declares end exactly at, one element before and one
//     element after the end of the table and of the enclosing structure,
//   - and the same edits combined with "the table ends right after this structure" (directory
//     length shortened to the end of the structure, and one byte before / after it).
// It runs deterministically (no sampling of the single edits) over every variable font of the corpus
// that is small enough, and over a rotating subset of the other fonts for cmap / AAT headers.

import (
	"fmt"
	"sort"
	"strings"
	"testing"

	"verif/internal/ev"
)

const catBitwalk = "bitwalk"

// xfield is a walked field with the geometry of the array it sizes (if any).
type xfield struct {
	wfield
	Elem int // size of one element of the array this count governs (0: none)
	Arr  int // absolute start of that array
	End  int // absolute end of the enclosing structure (0: unknown)
}

// xstruct is a structure with a known end, inside table T.
type xstruct struct {
	Group string
	End   int
	T     tableRef
}

type xwalker struct {
	walker
	t       tableRef
	xfields []xfield
	structs []xstruct
}

func (w *xwalker) f(off, width int, kind, group, name string, elem, arr, end int) {
	if off >= 0 && off+width <= w.limit && off+width <= len(w.d) {
		w.xfields = append(w.xfields, xfield{wfield{off, width, kind, 0, group, name}, elem, arr, end})
	}
}

func (w *xwalker) structure(group string, end int) {
	if end > w.t.Off && end <= w.limit+64 {
		w.structs = append(w.structs, xstruct{group, end, w.t})
	}
}

// varStore walks an ItemVariationStore at pos.
func (w *xwalker) varStore(pos int, group string) {
	if _, ok := w.u16(pos); !ok {
		return
	}
	regOff, _ := w.u32(pos + 2)
	n, _ := w.u16(pos + 6)
	w.f(pos, 2, "value", group, "format", 0, 0, 0)
	w.f(pos+2, 4, "offset", group, "variationRegionListOffset", 0, 0, 0)
	w.f(pos+6, 2, "count", group, "itemVariationDataCount", 4, pos+8, 0)
	if rl := pos + regOff; regOff != 0 {
		axes, _ := w.u16(rl)
		g := group + "/regionList"
		w.f(rl, 2, "count", g, "axisCount", 0, 0, 0)
		w.f(rl+2, 2, "count", g, "regionCount", 6*axes, rl+4, 0)
		rc, _ := w.u16(rl + 2)
		w.structure(g, rl+4+6*axes*rc)
	}
	for _, i := range pick(n) {
		o, ok := w.u32(pos + 8 + 4*i)
		if !ok || o == 0 {
			continue
		}
		ivd := pos + o
		items, ok1 := w.u16(ivd)
		words, _ := w.u16(ivd + 2)
		regions, ok2 := w.u16(ivd + 4)
		if !ok1 || !ok2 {
			continue
		}
		g := fmt.Sprintf("%s/itemVariationData[%d]", group, i)
		row := words&0x7FFF + regions
		if words&0x8000 != 0 {
			row *= 2
		}
		deltas := ivd + 6 + 2*regions
		end := deltas + items*row
		w.f(pos+8+4*i, 4, "offset", g, "offset", 0, 0, 0)
		w.f(ivd, 2, "count", g, "itemCount", row, deltas, end)
		w.f(ivd+2, 2, "flags", g, "wordDeltaCount", 0, 0, end)
		w.f(ivd+4, 2, "count", g, "regionIndexCount", 2, ivd+6, end)
		w.structure(g, end)
	}
}

// deltaSetIndexMap walks a DeltaSetIndexMap at pos.
func (w *xwalker) deltaSetIndexMap(pos int, group string) {
	format, ok := w.u8(pos)
	ef, ok2 := w.u8(pos + 1)
	if !ok || !ok2 {
		return
	}
	entry := (ef&0x30)>>4 + 1
	w.f(pos, 1, "value", group, "format", 0, 0, 0)
	if format == 0 {
		n, _ := w.u16(pos + 2)
		w.f(pos+1, 1, "flags", group, "entryFormat", 0, 0, pos+4+n*entry)
		w.f(pos+2, 2, "count", group, "mapCount", entry, pos+4, pos+4+n*entry)
		w.structure(group, pos+4+n*entry)
	} else {
		n, _ := w.u32(pos + 2)
		w.f(pos+1, 1, "flags", group, "entryFormat", 0, 0, pos+6+n*entry)
		w.f(pos+2, 4, "count", group, "mapCount", entry, pos+6, pos+6+n*entry)
		w.structure(group, pos+6+n*entry)
	}
}

func (w *xwalker) gvar() {
	T := w.t.Off
	axes, _ := w.u16(T + 4)
	nShared, _ := w.u16(T + 6)
	sharedOff, _ := w.u32(T + 8)
	glyphs, _ := w.u16(T + 12)
	flags, _ := w.u16(T + 14)
	dataOff, ok := w.u32(T + 16)
	if !ok {
		return
	}
	osz := 2
	if flags&1 != 0 {
		osz = 4
	}
	g := "gvar/header"
	w.f(T+4, 2, "count", g, "axisCount", 0, 0, 0)
	w.f(T+6, 2, "count", g, "sharedTupleCount", 2*axes, T+sharedOff, 0)
	w.f(T+8, 4, "offset", g, "sharedTuplesOffset", 0, 0, 0)
	w.f(T+12, 2, "count", g, "glyphCount", osz, T+20, 0)
	w.f(T+14, 2, "flags", g, "flags", 0, 0, 0)
	w.f(T+16, 4, "offset", g, "glyphVariationDataArrayOffset", 0, 0, 0)
	w.structure("gvar/sharedTuples", T+sharedOff+2*axes*nShared)
	offAt := func(i int) (int, bool) {
		if osz == 2 {
			v, ok := w.u16(T + 20 + 2*i)
			return 2 * v, ok
		}
		return w.u32(T + 20 + 4*i)
	}
	for _, k := range pick(glyphs) {
		a, ok1 := offAt(k)
		b, ok2 := offAt(k + 1)
		if !ok1 || !ok2 || b <= a {
			continue
		}
		base, end := T+dataOff+a, T+dataOff+b
		gg := fmt.Sprintf("gvar/glyph[%d]", k)
		w.f(T+20+osz*k, osz, "offset", gg, "offset", 0, 0, 0)
		w.f(T+20+osz*(k+1), osz, "offset", gg, "nextOffset", 0, 0, 0)
		cnt, ok := w.u16(base)
		if !ok {
			continue
		}
		w.f(base, 2, "flags", gg, "tupleVariationCount", 4, base+4, end)
		w.f(base+2, 2, "offset", gg, "dataOffset", 0, 0, end)
		p := base + 4
		for h := 0; h < cnt&0x0FFF && h < 4; h++ {
			ti, ok := w.u16(p + 2)
			if !ok || p+4 > end {
				break
			}
			w.f(p, 2, "size", gg, fmt.Sprintf("tuple[%d].variationDataSize", h), 1, base, end)
			w.f(p+2, 2, "flags", gg, fmt.Sprintf("tuple[%d].tupleIndex", h), 0, 0, end)
			p += 4
			if ti&0x8000 != 0 {
				p += 2 * axes
			}
			if ti&0x4000 != 0 {
				p += 4 * axes
			}
		}
		w.structure(gg, end)
	}
}

func (w *xwalker) avar() {
	T := w.t.Off
	axes, ok := w.u16(T + 6)
	if !ok {
		return
	}
	w.f(T+6, 2, "count", "avar/header", "axisCount", 0, 0, 0)
	p := T + 8
	for i := 0; i < axes && i < 8; i++ {
		n, ok := w.u16(p)
		if !ok {
			break
		}
		g := fmt.Sprintf("avar/segmentMap[%d]", i)
		w.f(p, 2, "count", g, "positionMapCount", 4, p+2, p+2+4*n)
		w.structure(g, p+2+4*n)
		p += 2 + 4*n
	}
}

func (w *xwalker) fvar() {
	T := w.t.Off
	axesOff, _ := w.u16(T + 4)
	axes, _ := w.u16(T + 8)
	axisSize, _ := w.u16(T + 10)
	inst, _ := w.u16(T + 12)
	instSize, ok := w.u16(T + 14)
	if !ok {
		return
	}
	g := "fvar/header"
	w.f(T+4, 2, "offset", g, "axesArrayOffset", 0, 0, 0)
	w.f(T+8, 2, "count", g, "axisCount", axisSize, T+axesOff, 0)
	w.f(T+10, 2, "size", g, "axisSize", axes, T+axesOff, 0)
	w.f(T+12, 2, "count", g, "instanceCount", instSize, T+axesOff+axes*axisSize, 0)
	w.f(T+14, 2, "size", g, "instanceSize", inst, T+axesOff+axes*axisSize, 0)
	w.structure("fvar/axes", T+axesOff+axes*axisSize)
	w.structure("fvar/instances", T+axesOff+axes*axisSize+inst*instSize)
}

func (w *xwalker) cmap() {
	T := w.t.Off
	n, ok := w.u16(T + 2)
	if !ok {
		return
	}
	w.f(T+2, 2, "count", "cmap/header", "numTables", 8, T+4, 0)
	for _, i := range pick(n) {
		o, ok := w.u32(T + 4 + 8*i + 4)
		if !ok {
			continue
		}
		st := T + o
		format, ok := w.u16(st)
		if !ok {
			continue
		}
		g := fmt.Sprintf("cmap/subtable[%d]", i)
		w.f(T+4+8*i+4, 4, "offset", g, "offset", 0, 0, 0)
		w.f(st, 2, "value", g, "format", 0, 0, 0)
		switch format {
		case 0, 2, 4, 6:
			l, _ := w.u16(st + 2)
			w.f(st+2, 2, "size", g, "length", 1, st, st+l)
			if format == 4 {
				sc, _ := w.u16(st + 6)
				w.f(st+6, 2, "count", g, "segCountX2", 4, st+14, st+l) // four parallel arrays of segCount uint16
				_ = sc
			}
			if format == 6 {
				w.f(st+8, 2, "count", g, "entryCount", 2, st+10, st+l)
			}
			w.structure(g, st+l)
		case 8, 10, 12, 13:
			l, _ := w.u32(st + 4)
			w.f(st+4, 4, "size", g, "length", 1, st, st+l)
			if format == 12 || format == 13 {
				w.f(st+12, 4, "count", g, "numGroups", 12, st+16, st+l)
			}
			if format == 10 {
				w.f(st+16, 4, "count", g, "numChars", 2, st+20, st+l)
			}
			w.structure(g, st+l)
		case 14:
			l, _ := w.u32(st + 2)
			w.f(st+2, 4, "size", g, "length", 1, st, st+l)
			w.f(st+6, 4, "count", g, "numVarSelectorRecords", 11, st+10, st+l)
			w.structure(g, st+l)
		}
	}
}

// xwalkFont walks the variation tables, cmap and the AAT / kern headers of one font.
func xwalkFont(d []byte, l *layout) ([]xfield, []xstruct) {
	var fields []xfield
	var structs []xstruct
	for _, t := range l.Tables {
		if t.Font != 0 || t.Len < 4 {
			continue
		}
		w := &xwalker{walker: walker{d: d, limit: t.Off + t.Len}, t: t}
		T := t.Off
		switch t.Tag {
		case "HVAR", "VVAR":
			w.f(T+4, 4, "offset", t.Tag+"/header", "itemVariationStoreOffset", 0, 0, 0)
			if o, ok := w.u32(T + 4); ok && o != 0 {
				w.varStore(T+o, t.Tag+"/store")
			}
			for k, name := range []string{"advanceMapping", "lsbMapping", "rsbMapping", "vOrgMapping"} {
				if o, ok := w.u32(T + 8 + 4*k); ok && o != 0 && (k < 3 || t.Tag == "VVAR") {
					w.f(T+8+4*k, 4, "offset", t.Tag+"/header", name+"Offset", 0, 0, 0)
					w.deltaSetIndexMap(T+o, t.Tag+"/"+name)
				}
			}
		case "MVAR":
			n, _ := w.u16(T + 8)
			sz, _ := w.u16(T + 6)
			w.f(T+6, 2, "size", "MVAR/header", "valueRecordSize", n, T+12, 0)
			w.f(T+8, 2, "count", "MVAR/header", "valueRecordCount", sz, T+12, 0)
			w.f(T+10, 2, "offset", "MVAR/header", "itemVariationStoreOffset", 0, 0, 0)
			w.structure("MVAR/valueRecords", T+12+n*sz)
			if o, ok := w.u16(T + 10); ok && o != 0 {
				w.varStore(T+o, "MVAR/store")
			}
		case "GDEF":
			if minor, _ := w.u16(T + 2); minor >= 3 {
				w.f(T+14, 4, "offset", "GDEF/header", "itemVarStoreOffset", 0, 0, 0)
				if o, ok := w.u32(T + 14); ok && o != 0 {
					w.varStore(T+o, "GDEF/store")
				}
			}
		case "CFF2":
			if info := parseCFF(d, t); info != nil {
				for _, dc := range info.Dicts {
					if dc.Kind != "top" {
						continue
					}
					for _, e := range dictEntries(d, dc.Start, dc.End) {
						if e.op == 24 && len(e.operands) == 1 {
							vs := T + e.operands[0].val
							w.f(vs, 2, "size", "CFF2/vstore", "length", 1, vs+2, 0)
							w.varStore(vs+2, "CFF2/vstore")
						}
					}
				}
			}
		case "gvar":
			w.gvar()
		case "avar":
			w.avar()
		case "fvar":
			w.fvar()
		case "cmap":
			w.cmap()
		case "kern", "kerx", "morx", "mort", "ankr", "trak", "feat", "ltag":
			for p := 0; p < 32 && p+2 <= t.Len; p += 2 {
				w.f(T+p, 2, "size", "hdr/"+strings.TrimSpace(t.Tag), fmt.Sprintf("+%d", p), 0, 0, 0)
			}
		}
		fields = append(fields, w.xfields...)
		structs = append(structs, w.structs...)
	}
	return fields, structs
}

// bitValues lists the values of the fault model of this family for one field.
func (f xfield) bitValues(d []byte, limit int) (vals []int, why []string) {
	max := 1<<(8*uint(f.W)) - 1
	cur := f.cur(d)
	add := func(v int, w string) {
		if v < 0 || v > max || v == cur {
			return
		}
		for _, x := range vals {
			if x == v {
				return
			}
		}
		vals, why = append(vals, v), append(why, w)
	}
	var bits []int
	switch f.W {
	case 1:
		bits = []int{0x80, 0x40, 0x20, 0x10}
	case 2:
		bits = []int{0x8000, 0x4000, 0x2000, 0x1000}
	default:
		bits = []int{0x80000000, 0x40000000, 0x8000, 0x10000}
	}
	for _, b := range bits {
		add(cur^b, fmt.Sprintf("bit%#x", b))
	}
	add(max, "max")
	add(max-1, "max-1")
	if f.Elem > 0 && f.Arr > 0 {
		for _, lim := range []struct {
			end  int
			name string
		}{{limit, "table"}, {f.End, "struct"}} {
			if lim.end <= f.Arr {
				continue
			}
			n := (lim.end - f.Arr) / f.Elem
			for dlt := -1; dlt <= 1; dlt++ {
				add(n+dlt, fmt.Sprintf("extent-%s%+d", lim.name, dlt))
			}
			// the same count with the top bit set: a flag in a count field
			add((n)|bits[0], "extent-"+lim.name+"|topbit")
		}
	}
	return vals, why
}

// bitwalkMutants: all the single edits; each of them combined with the truncation of the table at
// the end of its structure (sampled by the caller when too many).
func bitwalkMutants(d []byte, fields []xfield, structs []xstruct, tables map[string]tableRef) (singles, combos []mutant) {
	ends := map[string]xstruct{}
	for _, s := range structs {
		ends[s.Group] = s
	}
	for _, f := range fields {
		if f.Kind != "count" && f.Kind != "flags" && f.Kind != "size" && f.Kind != "value" {
			continue
		}
		tag := strings.SplitN(f.Group, "/", 2)[0]
		t, ok := tables[tag]
		if !ok {
			t, ok = tables[tag+" "]
		}
		limit := 0
		if ok {
			limit = t.Off + t.Len
		}
		vals, why := f.bitValues(d, limit)
		for i, v := range vals {
			e := f.edit(v)
			note := fmt.Sprintf("bitwalk:%s %s %s=%#x (%s)", f.Kind, f.Group, f.Name, v, why[i])
			singles = append(singles, mutant{Cat: catBitwalk, Edits: []Edit{e}, Note: note})
			if s, ok := ends[f.Group]; ok && i < 4 {
				for _, dl := range []int{0, -1, 1} {
					n := s.End - s.T.Off + dl
					if n <= 0 || n == s.T.Len {
						continue
					}
					combos = append(combos, mutant{Cat: catBitwalk, Edits: []Edit{{Op: "set32", Off: s.T.LenPos, Val: uint32(n)}, e},
						Note: fmt.Sprintf("%s + table ends %+d after the structure", note, dl)})
				}
			}
		}
	}
	// the truncations alone
	var gs []string
	for g := range ends {
		gs = append(gs, g)
	}
	sort.Strings(gs)
	for _, g := range gs {
		s := ends[g]
		for _, dl := range []int{0, -1, 1} {
			if n := s.End - s.T.Off + dl; n > 0 && n != s.T.Len {
				singles = append(singles, mutant{Cat: catBitwalk, Edits: []Edit{{Op: "set32", Off: s.T.LenPos, Val: uint32(n)}},
					Note: fmt.Sprintf("bitwalk:truncate %s table ends %+d after the structure", g, dl)})
			}
		}
	}
	return singles, combos
}

// TestPropBitwalk: see the file comment.
func TestPropBitwalk(t *testing.T) {
	loadCorpus(t)
	shard, n := ev.Shard()
	maxSize := 100 << 10
	if ev.Thorough() {
		maxSize = 1 << 20
	}
	comboBudget := envInt("C09_BITWALK_COMBOS", 150)
	nOthers := envInt("C09_BITWALK_OTHERS", 24)
	// every variable font that is small enough; then a rotating (seed-dependent) subset of the
	// other fonts for the cmap / AAT header fields
	var variable, others []fontInfo
	for _, f := range allFonts {
		if f.Size > maxSize {
			continue
		}
		l, _, err := layoutOf(f.Rel)
		if err != nil || l.Kind == "woff" {
			continue
		}
		isVar := false
		for _, tb := range l.Tables {
			if tb.Tag == "fvar" {
				isVar = true
			}
		}
		if isVar {
			variable = append(variable, f)
		} else if f.Size < 20<<10 {
			others = append(others, f)
		}
	}
	fonts := variable
	if ev.Thorough() {
		fonts = append(fonts, others...)
	} else if len(others) > 0 {
		start := int(ev.Seed()) * nOthers
		for k := 0; k < nOthers; k++ {
			fonts = append(fonts, others[(start+k)%len(others)])
		}
	}
	co := newCollector(t)
	for i, f := range fonts {
		if i%n != shard || co.stopped {
			continue
		}
		l, data, err := layoutOf(f.Rel)
		if err != nil {
			t.Fatalf("reading %s: %v", f.Rel, err)
		}
		tables := map[string]tableRef{}
		for _, tb := range l.Tables {
			if tb.Font == 0 {
				tables[tb.Tag] = tb
			}
		}
		fields, structs := xwalkFont(data, l)
		singles, combos := bitwalkMutants(data, fields, structs, tables)
		ev.LabelN("bitwalk_fields", int64(len(fields)))
		ev.LabelN("bitwalk_enumerated_mutants", int64(len(singles)+len(combos)))
		frnd := ev.NewRand(uint64(ev.Seed())<<20 ^ uint64(i)*0x9E3779B97F4A7C15 ^ uint64(len(data)))
		cases := append(singles, sample(combos, comboBudget, frnd)...)
		for _, m := range cases {
			if co.stopped {
				break
			}
			// label: bitwalk:<kind>:<table>
			parts := strings.Fields(m.Note)
			ev.Label(parts[0] + ":" + strings.SplitN(parts[1], "/", 2)[0])
			if len(m.Edits) == 2 {
				ev.Label("bitwalk:with-truncation")
			}
			c := Case{Font: f.Rel, Edits: m.Edits, Note: m.Note}
			co.add(c, evaluate(c, m.Cat))
		}
	}
	co.finish()
}
