// Package c10 decides property C10: decoded glyph metrics and outlines match independent decoders.
//
// Enumerators walk corpus fonts (a seeded stratified sample in the quick tier, all of them in the
// thorough tier) × coordinate settings × every glyph id (and every mapped rune) and compare the
// font package with libharfbuzz's hb-ot font functions (the specification the port tracks),
// FreeType and golang.org/x/image/font/sfnt. See check.json for the exact rule.
package c10

import (
	"encoding/json"
	"fmt"
	"os"
	"path/filepath"
	"sort"
	"strings"
	"testing"

	"verif/internal/ev"
	"verif/internal/ftref"
	"verif/internal/hbref"
)

func TestMain(m *testing.M) {
	// A missing reference library is an infrastructure failure, never a pass: the binary does not
	// even link without libharfbuzz/FreeType; a library that loads but does not answer is fatal too.
	if v := hbref.Version(); !strings.HasPrefix(v, "6.") {
		fmt.Fprintf(os.Stderr, "INFRASTRUCTURE: libharfbuzz version %q, expected 6.x\n", v)
		os.Exit(3)
	}
	if ftref.Version() == "" {
		fmt.Fprintln(os.Stderr, "INFRASTRUCTURE: FreeType cannot be initialised")
		os.Exit(3)
	}
	ev.Main(m)
}

const chunkSize = 2048

// unit is one piece of work: a glyph range (or the face-level + cmap checks) of one face under one
// coordinate setting.
type unit struct {
	face    int // index into the sampled faces
	setting int
	kind    uint8 // 0 face-level (+cmap at the default setting), 1 glyph range, 2 glyph subset
	lo, hi  uint32
	cost    int64
}

type plan struct {
	sweep    bool
	faces    []faceTraits
	settings [][]setting
	units    []unit
}

func nSettings() int { return ev.Scale(6, 40) }

// makePlan builds the identical work list in every shard.
func makePlan(sweep bool) *plan {
	shard, _ := ev.Shard()
	p := &plan{faces: sampleFaces(ev.Seed(), ev.Thorough() || sweep, shard == 0 && !sweep), sweep: sweep}
	if sweep && !ev.Thorough() {
		// the quick sweep leaves the few faces with more than 20000 glyphs to the sampled job
		// (stratum "huge") and to the thorough tier, and skips the faces of the sample (the sampled
		// job compares them, with their complete cmap): the two jobs never evaluate the same case
		sampled := map[string]bool{}
		for _, tr := range sampleFaces(ev.Seed(), false, false) {
			sampled[fmt.Sprintf("%s#%d", tr.File, tr.Index)] = true
		}
		var keep []faceTraits
		for _, tr := range p.faces {
			if !tr.Huge && !sampled[fmt.Sprintf("%s#%d", tr.File, tr.Index)] {
				keep = append(keep, tr)
			}
		}
		p.faces = keep
	}
	for fi, tr := range p.faces {
		var sets []setting
		if tr.Fvar && tr.NAxes > 0 && !sweep {
			data, err := os.ReadFile(absCorpus(tr.File))
			if err == nil {
				hb := hbref.NewFace(data, tr.Index)
				want := nSettings()
				if tr.Huge && !ev.Thorough() {
					want = 2
				}
				sets = settingsFor(tr.File, tr.Index, hb.Axes(), avarKnees(hb.TableData(hbref.Tag("avar"))), ev.Seed(), want)
				hb.Close()
			}
		}
		if sets == nil {
			sets = []setting{{Name: "default"}}
		}
		p.settings = append(p.settings, sets)
		for si := range sets {
			perGlyph := int64(2)
			if si == 0 {
				perGlyph = 5
			}
			if tr.CFF || tr.CFF2 {
				perGlyph *= 2
			}
			faceCost := int64(200)
			if si == 0 {
				faceCost += int64(tr.NumGlyphs) * 2 // cmap
			}
			p.units = append(p.units, unit{face: fi, setting: si, kind: 0, cost: faceCost})
			if sets[si].Extra && tr.NumGlyphs > subsetAbove {
				p.units = append(p.units, unit{face: fi, setting: si, kind: 2, cost: 2000*perGlyph + 50})
				continue
			}
			for lo := 0; lo < tr.NumGlyphs; lo += chunkSize {
				hi := lo + chunkSize
				if hi > tr.NumGlyphs {
					hi = tr.NumGlyphs
				}
				p.units = append(p.units, unit{face: fi, setting: si, kind: 1, lo: uint32(lo), hi: uint32(hi), cost: int64(hi-lo)*perGlyph + 50})
			}
		}
	}
	return p
}

// mine returns the units of this shard: the list is cut into contiguous pieces of equal cost, so a
// shard touches few fonts.
func (p *plan) mine() []unit {
	si, sn := ev.Shard()
	var total int64
	for _, u := range p.units {
		total += u.cost
	}
	var out []unit
	var acc int64
	for _, u := range p.units {
		mid := acc + u.cost/2
		k := int(mid * int64(sn) / (total + 1))
		if k == si {
			out = append(out, u)
		}
		acc += u.cost
	}
	return out
}

func absCorpus(rel string) string {
	if filepath.IsAbs(rel) {
		return rel
	}
	d := os.Getenv("VERIF_CORPUS")
	if d == "" {
		d = "/root/go/pkg/mod/github.com/go-text/typesetting-utils@v0.0.0-20241103174707-87a29e9e6066"
	}
	return filepath.Join(d, rel)
}

// TestPropGlyphs is the enumerator of C10: sampled (quick) or all (thorough) faces × coordinate
// settings × all glyphs, all runes.
func TestPropGlyphs(t *testing.T) { runPlan(t, false) }

// TestPropSweep walks every face of the corpus at the default setting only (all glyphs, all runes).
func TestPropSweep(t *testing.T) { runPlan(t, true) }

func runPlan(t *testing.T, sweep bool) {
	p := makePlan(sweep)
	if len(p.faces) == 0 {
		t.Fatalf("INFRASTRUCTURE: no corpus face could be opened (VERIF_CORPUS=%q)", os.Getenv("VERIF_CORPUS"))
	}
	si, _ := ev.Shard()
	if si == 0 {
		if sweep {
			ev.LabelN("plan:sweep-faces", int64(len(p.faces)))
		} else {
			ev.LabelN("plan:faces", int64(len(p.faces)))
		}
		for fi, tr := range p.faces {
			if tr.Fvar {
				ev.LabelN("plan:variable-faces", 1)
				ev.LabelN("plan:variable-settings", int64(len(p.settings[fi])-1))
			}
		}
	}
	var cur *fctx
	curFace, curSetting := -1, -1
	skipped := map[int]string{}
	defer func() {
		if cur != nil {
			cur.close()
		}
	}()
	for _, u := range p.mine() {
		if reason, bad := skipped[u.face]; bad {
			_ = reason
			continue
		}
		if u.face != curFace {
			if cur != nil {
				cur.close()
				cur = nil
			}
			c, reason := openFace(p.faces[u.face])
			curFace, curSetting = u.face, -1
			if c == nil {
				skipped[u.face] = reason
				ev.Label(reason)
				continue
			}
			cur = c
		}
		if u.setting != curSetting {
			cur.apply(p.settings[u.face][u.setting])
			curSetting = u.setting
		}
		runUnit(t, cur, u, sweep)
	}
}

func runUnit(t *testing.T, c *fctx, u unit, sweep bool) {
	tr := &c.tr
	if u.kind == 0 {
		n := int64(c.checkFace(t))
		ev.CaseEnum(n, n)
		ev.LabelN("face-level-comparisons", n)
		if u.setting == 0 {
			runes := c.cmapRunes(ev.Seed(), sweep)
			var mapped int64
			for _, r := range runes {
				if c.checkRune(t, r) {
					mapped++
				}
			}
			ev.CaseEnum(int64(len(runes)), mapped)
			ev.LabelN("cmap:runes-compared", int64(len(runes)))
			ev.LabelN("cmap:runes-mapped", mapped)
			// probes just outside the glyph range
			for _, g := range []uint32{uint32(c.nGlyphs), uint32(c.nGlyphs) + 1, 0xFFFF} {
				if int(g) >= c.nGlyphs && g <= 0xFFFF {
					c.checkGlyph(t, g)
					ev.CaseEnum(1, 0)
					ev.Label("glyph:out-of-range-probe")
				}
			}
		}
		return
	}
	var n, nt, ntComposite int64
	one := func(g uint32) {
		n++
		if c.checkGlyph(t, g) {
			nt++
			if c.hasGlyf && c.glyf.kindOf(g) == glyphKindComposite {
				ntComposite++
			}
		}
	}
	if u.kind == 2 {
		// glyph subset of a large face under an extra setting: every k-th glyph (seeded phase) plus
		// every composite glyph (every k2-th if there are more than 1000)
		k := uint32(c.nGlyphs/1000 + 1)
		phase := uint32(uint64(ev.Seed()) % uint64(k))
		nComp := 0
		if c.hasGlyf {
			nComp = c.glyf.nComposite
		}
		k2, seen := nComp/1000+1, 0
		for g := uint32(0); g < uint32(c.nGlyphs); g++ {
			comp := c.hasGlyf && c.glyf.kindOf(g) == glyphKindComposite
			if comp {
				seen++
			}
			if g%k == phase || (comp && seen%k2 == 0) {
				one(g)
			}
		}
		ev.Label("setting-on-glyph-subset")
	} else {
		for g := u.lo; g < u.hi; g++ {
			one(g)
		}
	}
	ev.CaseEnum(n, nt)
	ev.LabelN("glyphs", n)
	ev.LabelN("glyphs-with-outline", nt)
	if ntComposite > 0 {
		ev.LabelN("nontrivial:composite", ntComposite)
	}
	if tr.CFF || tr.CFF2 {
		ev.LabelN("nontrivial:cff", nt)
	}
	if c.isVar {
		ev.LabelN("nontrivial:variable-at-non-default-coords", nt)
		switch {
		case c.set.Extra && strings.HasPrefix(c.set.Name, "only-"):
			ev.Label("setting:one-axis-alone-at-extreme")
		case c.set.Extra:
			ev.Label("setting:pair-of-axes-at-extremes")
		default:
			ev.Label("setting:" + strings.TrimRight(c.set.Name, "0123456789+-"))
		}
	}
	if tr.Vmtx {
		ev.LabelN("nontrivial:vertical-metrics", nt)
	}
	if ev.WantSample() && nt > 0 {
		ev.Sample(Case{File: tr.File, Index: tr.Index, Glyph: u.lo, Setting: c.set.Name, Coords: c.set.Design, What: fmt.Sprintf("glyphs %d..%d compared, %d with an outline", u.lo, u.hi-1, nt)})
	}
}

// ---------------------------------------------------------------------------------------------
// replay

func replayCase(t *testing.T, check string, raw json.RawMessage) {
	var cs Case
	if err := json.Unmarshal(raw, &cs); err != nil {
		t.Fatalf("bad replay case: %v", err)
	}
	var tr *faceTraits
	for i, x := range corpusTraits() {
		if x.File == cs.File && x.Index == cs.Index {
			tr = &corpusTraits()[i]
			break
		}
	}
	if tr == nil {
		t.Fatalf("replay: face %s#%d is not in the corpus libharfbuzz accepts", cs.File, cs.Index)
	}
	var c *fctx
	var reason string
	if cs.Edit != "" {
		kind := editByName(cs.Edit)
		if kind == nil {
			t.Fatalf("replay: unknown edit kind %q", cs.Edit)
		}
		c, reason = openEdited(t, *tr, kind, cs.EditSeed)
	} else {
		c, reason = openFace(*tr)
	}
	if c == nil {
		t.Fatalf("replay: %s", reason)
	}
	defer c.close()
	c.apply(setting{Name: cs.Setting, Design: cs.Coords})
	switch check {
	case "glyph":
		c.checkGlyph(t, cs.Glyph)
	case "cmap":
		c.checkRune(t, rune(cs.Rune))
	case "face":
		c.checkFace(t)
	default:
		t.Fatalf("replay: unknown check %q", check)
	}
}

// TestReplay re-runs saved cases (case = font path, face index, glyph id / rune, coordinates).
func TestReplay(t *testing.T) {
	var files []string
	if p := ev.ReplayPath(); p != "" {
		files = []string{p}
	} else if d := os.Getenv("VERIF_REPLAY_DIR"); d != "" {
		files, _ = filepath.Glob(filepath.Join(d, "*.json"))
		sort.Strings(files)
	}
	for _, f := range files {
		check, raw, err := ev.LoadReplay(f)
		if err != nil {
			t.Fatalf("replay %s: %v", f, err)
		}
		replayCase(t, check, raw)
		ev.CaseEnum(1, 1)
	}
}

// ---------------------------------------------------------------------------------------------
// edited fonts

// openEdited applies an edit to a corpus font and opens the edited bytes in every decoder.
// reason != "" : the edit does not apply or a reference rejects the result (counted by the caller).
func openEdited(t ev.TB, tr faceTraits, kind *editKind, seed uint64) (*fctx, string) {
	orig, err := os.ReadFile(absCorpus(tr.File))
	if err != nil {
		return nil, "edit-skipped:unreadable"
	}
	data, _, ok := applyEdit(orig, kind, seed)
	if !ok {
		return nil, "edit-skipped:not-applicable:" + kind.name
	}
	hb := hbref.NewFace(data, 0)
	n := hb.GlyphCount()
	etr := traitsOfFace(tr.File, 0, hb)
	hb.Close()
	if n == 0 || n != tr.NumGlyphs {
		return nil, "edit-skipped:rejected-by-libharfbuzz:" + kind.name
	}
	ft, err := ftref.NewFace(data, 0)
	if err != nil {
		return nil, "edit-skipped:rejected-by-freetype:" + kind.name
	}
	ft.Close()
	cs := Case{File: tr.File, Index: 0, Setting: "default", Edit: kind.name, EditSeed: seed}
	faces, err := parsePort(data)
	if err != nil || len(faces) != 1 {
		// a legal shape that both references accept
		(&fctx{tr: etr}).violate(t, "edit-load", cs, "font-refused", fmt.Sprint(err), "libharfbuzz and FreeType open the edited font")
		return nil, "edit-skipped:port-refuses:" + kind.name
	}
	c, reason := openFaceData(etr, data, faces[0].Font)
	if c != nil {
		c.edit, c.editSeed = kind.name, seed
	}
	return c, reason
}

type editUnit struct {
	tr   faceTraits
	kind *editKind
	seed uint64
}

// editPlan draws, for every edit kind, the corpus fonts to edit: rotated by VERIF_SEED.
func editPlan() []editUnit {
	var out []editUnit
	for ki := range editKinds {
		kind := &editKinds[ki]
		var cand, rich []faceTraits
		for _, tr := range corpusTraits() {
			if kind.eligible(&tr) {
				cand = append(cand, tr)
				if tr.NComposite >= 30 {
					rich = append(rich, tr)
				}
			}
		}
		k := ev.Scale(2, 10)
		if strings.HasPrefix(kind.name, "cff2") {
			k = ev.Scale(4, 10) // the corpus has three small single-FD CFF2 fonts: all of them
		}
		composite := strings.HasPrefix(kind.name, "glyf-composite")
		if composite {
			k = ev.Scale(3, 16)
			if !ev.Thorough() && len(rich) >= k {
				cand = rich // the quick tier edits fonts with many composites: every flag combination occurs
			}
		}
		rng := ev.NewRand(uint64(ev.Seed())*0x9E3779B97F4A7C15 ^ hashStr(kind.name))
		for i := 0; i < k && len(cand) > 0; i++ {
			j := rng.Intn(len(cand))
			if i%2 == 0 {
				// every other pick is a font of some size (the corpus is full of 3-glyph test fonts)
				var big []int
				for x := range cand {
					if cand[x].NumGlyphs >= 200 {
						big = append(big, x)
					}
				}
				if len(big) > 0 {
					j = big[rng.Intn(len(big))]
				}
			}
			tr := cand[j]
			cand = append(cand[:j], cand[j+1:]...)
			out = append(out, editUnit{tr: tr, kind: kind, seed: uint64(ev.Seed())*1000003 ^ hashStr(kind.name+"/"+tr.File)})
		}
	}
	return out
}

// hbSame is the editor's self-check for value-preserving edits: libharfbuzz must decode the
// edited font exactly as the original.
func hbSame(orig, edited *hbref.Face, n int) bool {
	for g := uint32(0); g < uint32(n); g++ {
		if orig.HAdvance(g) != edited.HAdvance(g) || orig.VAdvance(g) != edited.VAdvance(g) {
			return false
		}
		e1, ok1 := orig.GlyphExtents(g)
		e2, ok2 := edited.GlyphExtents(g)
		if e1 != e2 || ok1 != ok2 {
			return false
		}
		if same, _ := sameOutline(canonHB(orig.Outline(g)), canonHB(edited.Outline(g)), 0); !same {
			return false
		}
	}
	return true
}

// TestPropEdits compares the decoders on structure-preserving edits of corpus fonts (edits.go).
func TestPropEdits(t *testing.T) {
	plan := editPlan()
	si, sn := ev.Shard()
	for ui, u := range plan {
		if ui%sn != si {
			continue
		}
		runEdit(t, u)
	}
}

func runEdit(t *testing.T, u editUnit) {
	c, reason := openEdited(t, u.tr, u.kind, u.seed)
	if c == nil {
		ev.Label(reason)
		return
	}
	defer c.close()
	if u.kind.preserving {
		orig, _ := os.ReadFile(absCorpus(u.tr.File))
		oh := hbref.NewFace(orig, 0)
		same := hbSame(oh, c.hb, c.nGlyphs)
		oh.Close()
		if !same {
			ev.Label("edit-skipped:editor-self-check-failed:" + u.kind.name)
			return
		}
	}
	_, touched, _ := func() ([]byte, []uint32, bool) {
		orig, _ := os.ReadFile(absCorpus(u.tr.File))
		return applyEdit(orig, u.kind, u.seed)
	}()
	// glyphs to compare: all of them, or for larger fonts the edited ones plus every k-th
	var glyphs []uint32
	if c.nGlyphs <= 1500 {
		for g := 0; g < c.nGlyphs; g++ {
			glyphs = append(glyphs, uint32(g))
		}
	} else {
		isT := map[uint32]bool{}
		stride := len(touched)/1000 + 1
		for i, g := range touched {
			if i%stride == 0 {
				isT[g] = true
			}
		}
		k := uint32(c.nGlyphs/500 + 1)
		for g := uint32(0); g < uint32(c.nGlyphs); g++ {
			if isT[g] || g%k == uint32(u.seed%uint64(k)) {
				glyphs = append(glyphs, g)
			}
		}
	}
	sets := []setting{{Name: "default"}}
	if len(c.axes) > 0 {
		all := settingsFor(u.tr.File+"#"+u.kind.name, 0, c.axes, avarKnees(c.hb.TableData(hbref.Tag("avar"))), ev.Seed(), 3)
		extra := 0
		for _, s := range all[1:] {
			if s.Extra {
				if extra >= 3 {
					continue
				}
				extra++
			}
			sets = append(sets, s)
		}
	}
	ev.Label("edit:" + u.kind.name)
	for _, s := range sets {
		c.apply(s)
		n := int64(c.checkFace(t))
		ev.CaseEnum(n, n)
		var nt int64
		for _, g := range glyphs {
			if c.checkGlyph(t, g) {
				nt++
			}
		}
		ev.CaseEnum(int64(len(glyphs)), nt)
		ev.LabelN("edit-glyph-comparisons:"+u.kind.name, int64(len(glyphs)))
		ev.LabelN("glyphs", int64(len(glyphs)))
		ev.LabelN("glyphs-with-outline", nt)
		if c.isVar {
			ev.LabelN("nontrivial:variable-at-non-default-coords", nt)
		}
	}
	if ev.WantSample() {
		ev.Sample(Case{File: u.tr.File, Setting: "default", Edit: u.kind.name, EditSeed: u.seed, What: fmt.Sprintf("%d glyphs compared under %d settings, %d glyph records edited", len(glyphs), len(sets), len(touched))})
	}
}
