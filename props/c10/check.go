package c10

import (
	"bytes"
	"fmt"
	"math"
	"os"
	"sort"

	"github.com/go-text/typesetting/font"
	"github.com/go-text/typesetting/font/cff"
	xfont "golang.org/x/image/font"
	"golang.org/x/image/font/sfnt"
	"golang.org/x/image/math/fixed"

	"verif/internal/corpus"
	"verif/internal/ev"
	"verif/internal/ftref"
	"verif/internal/hbref"
)

// Case is the decoded, replayable description of one comparison.
type Case struct {
	File    string    `json:"file"`              // corpus-relative font path
	Index   int       `json:"index"`             // face index in the file
	Glyph   uint32    `json:"glyph"`             // glyph id (glyph checks)
	Rune    int32     `json:"rune,omitempty"`    // code point (cmap check)
	Setting string    `json:"setting"`           // name of the coordinate setting
	Coords  []float32 `json:"coords"`            // design coordinates, null = no variations applied
	What    string    `json:"what,omitempty"`    // which quantity disagreed
	Port    string    `json:"port,omitempty"`    // value decoded by the port
	Ref     string    `json:"ref,omitempty"`     // value(s) decoded by the reference(s)
	Finding string    `json:"finding,omitempty"` // known-finding id the case would match
	// Edit != "": the comparison ran on an edited copy of File: edit kind Edit applied with the
	// parameters drawn from EditSeed (see edits.go; the edit is a deterministic function of the
	// original bytes, the kind and the seed).
	Edit     string `json:"edit,omitempty"`
	EditSeed uint64 `json:"edit_seed,omitempty"`
}

// Tolerances (font units). Static fonts: zero everywhere. Variable settings: the port returns
// unrounded float32 values where libharfbuzz rounds to integers, and gvar deltas are accumulated
// in float32 in both but not necessarily in the same order.
const (
	tolVarRounded = 0.5 + 1.0/64 // port float vs reference integer (reference = round(exact))
	tolVarOutline = 1.0 / 64     // outline coordinates at non-default coordinates
	tolSfntTT     = 0.5          // x/image truncates implied on-curve midpoints to integers
)

// C10_SURVEY=<file> (development only, never set by the registered commands): disagreements are
// appended to the file and counted instead of failing the test.
var survey = os.Getenv("C10_SURVEY") != ""

func surveyLine(s string) {
	f, err := os.OpenFile(os.Getenv("C10_SURVEY"), os.O_APPEND|os.O_CREATE|os.O_WRONLY, 0o644)
	if err != nil {
		return
	}
	f.WriteString(s)
	f.Close()
}

// Known findings of C10 (structural matchers live next to the comparison they guard).
const (
	findEmptyGlyphExtents = "C10-empty-glyph-xbearing"
	findCmapGlyphZero     = "C10-cmap-glyph0-found"
	findMvarNoCoords      = "C10-mvar-applied-without-coords"
	findOutlineOrder      = "C10-outline-prefers-cff-over-glyf"
	findPostNames         = "C10-post-names-index-above-32767"
	findCff2Subrs         = "C10-cff2-local-subrs-offset"
	findColrClipBox       = "C10-colr-clipbox-extents"
)

type fctx struct {
	tr    faceTraits
	data  []byte
	pf    *font.Face
	hb    *hbref.Face
	ft    *ftref.Face
	sf    *sfnt.Font
	sfBuf sfnt.Buffer
	ppem  fixed.Int26_6

	glyf    glyfInfo
	hasGlyf bool
	hm      hmtxInfo
	hasHm   bool
	nGlyphs int

	ftCmapOK bool
	sfCmapOK bool

	axes         []hbref.Axis
	cblc         bool               // the font has CBLC/CBDT strikes (the only bitmap strikes libharfbuzz reads)
	clipBoxes    map[uint32]clipBox // COLR v1 clip boxes
	cff2Rejected bool               // the port's CFF2 parser rejects the table
	postBigIndex bool               // post 2.0 with a glyphNameIndex above 32767
	zeroFace     *font.Face         // face with explicit all-zero coordinates (matcher of findMvarNoCoords)

	edit     string // edit kind, "" for an unedited corpus font
	editSeed uint64

	set    setting
	isVar  bool // coordinates applied
	normed []font.VarCoord
}

// openFace loads one corpus face in every decoder. reason != "" means the face is skipped.
func openFace(tr faceTraits) (c *fctx, reason string) {
	faces, err := corpus.Faces(tr.File)
	if err != nil || tr.Index >= len(faces) {
		return nil, "skip:port-refuses-font"
	}
	data, err := corpus.Bytes(tr.File)
	if err != nil {
		return nil, "skip:unreadable"
	}
	return openFaceData(tr, data, faces[tr.Index].Font)
}

// parsePort parses font bytes with the port (all faces); a panic of the loader is an error here.
func parsePort(data []byte) (faces []*font.Face, err error) {
	defer func() {
		if r := recover(); r != nil {
			err = fmt.Errorf("panic: %v", r)
		}
	}()
	return font.ParseTTC(bytes.NewReader(data))
}

// openFaceData loads the face tr.Index of the given bytes in every reference decoder; pfont is the
// port's parse of the same bytes.
func openFaceData(tr faceTraits, data []byte, pfont *font.Font) (c *fctx, reason string) {
	c = &fctx{tr: tr, data: data}
	c.pf = font.NewFace(pfont)
	c.hb = hbref.NewFace(data, tr.Index)
	c.nGlyphs = c.hb.GlyphCount()
	if c.nGlyphs == 0 {
		c.close()
		return nil, "skip:libharfbuzz-refuses-font"
	}
	if ft, err := ftref.NewFace(data, tr.Index); err == nil {
		if ft.IsScalable() && ft.IsSFNT() {
			c.ft = ft
		} else {
			ev.Label("ref:freetype-not-scalable")
			ft.Close()
		}
	} else {
		ev.Label("ref:freetype-refuses-font")
	}
	if col, err := sfnt.ParseCollection(data); err == nil {
		if f, err := col.Font(tr.Index); err == nil {
			// x/image knows nothing about variations, CFF2, or bitmaps
			c.sf = f
			c.ppem = fixed.Int26_6(int(f.UnitsPerEm()) << 6)
		}
	}
	if c.sf == nil {
		ev.Label("ref:ximage-refuses-font")
	}
	if tr.Glyf {
		tag := hbref.Tag
		c.glyf, c.hasGlyf = parseGlyf(c.hb.TableData(tag("head")), c.hb.TableData(tag("maxp")), c.hb.TableData(tag("loca")), c.hb.TableData(tag("glyf")))
	}
	c.axes = c.hb.Axes()
	c.cblc = has(c.hb, "CBLC") && has(c.hb, "CBDT")
	if has(c.hb, "COLR") {
		c.clipBoxes = colrClipBoxes(c.hb.TableData(hbref.Tag("COLR")))
	}
	if tr.CFF2 {
		_, err := cff.ParseCFF2(c.hb.TableData(hbref.Tag("CFF2")))
		c.cff2Rejected = err != nil
	}
	if m, ok := postMaxNameIndex(c.hb.TableData(hbref.Tag("post"))); ok && m > 32767 {
		c.postBigIndex = true
	}
	c.hm, c.hasHm = parseHmtx(c.hb.TableData(hbref.Tag("hhea")), c.hb.TableData(hbref.Tag("maxp")), c.hb.TableData(hbref.Tag("hmtx")))
	// cmap preconditions of the secondary references: FreeType selects its own charmap; it is
	// comparable only when that is a Unicode cmap subtable of the font (not the symbol subtable,
	// which libharfbuzz and the port prefer and remap, and not a charmap synthesized from glyph
	// names).
	if c.ft != nil {
		if cm, ok := c.ft.ActiveCharmap(); ok && cm.Unicode && cm.Format >= 0 && !tr.SymbolCmap {
			c.ftCmapOK = true
		}
	}
	c.sfCmapOK = c.sf != nil && !tr.SymbolCmap
	return c, ""
}

func (c *fctx) close() {
	if c.hb != nil {
		c.hb.Close()
	}
	if c.ft != nil {
		c.ft.Close()
	}
}

// apply sets the coordinate setting on the port face and on the reference. The reference gets the
// *port's* normalized coordinates, so that glyph-level comparisons do not inherit a normalisation
// disagreement (which checkFace reports on its own).
func (c *fctx) apply(s setting) {
	c.set = s
	if s.Design == nil {
		c.isVar = false
		c.normed = nil
		c.pf.SetCoords(nil)
		c.hb.SetNormalizedCoords(nil)
		return
	}
	c.isVar = true
	c.normed = c.pf.NormalizeVariations(s.Design)
	c.pf.SetCoords(c.normed)
	n32 := make([]int32, len(c.normed))
	for i, v := range c.normed {
		n32[i] = int32(v)
	}
	c.hb.SetNormalizedCoords(n32)
}

func (c *fctx) caseOf(gid uint32) Case {
	return Case{File: c.tr.File, Index: c.tr.Index, Glyph: gid, Setting: c.set.Name, Coords: c.set.Design, Edit: c.edit, EditSeed: c.editSeed}
}

// violate reports a violation (or, in survey mode, only records it).
func (c *fctx) violate(t ev.TB, check string, cs Case, what, port, ref string) {
	cs.What, cs.Port, cs.Ref = what, port, ref
	if survey {
		ev.Label("survey:" + check + ":" + what)
		surveyLine(fmt.Sprintf("%s %s: %s#%d edit=%s/%d glyph=%d rune=U+%04X setting=%s %v port=%s ref=%s\n", check, what, cs.File, cs.Index, cs.Edit, cs.EditSeed, cs.Glyph, cs.Rune, cs.Setting, cs.Coords, port, ref))
		return
	}
	ed := ""
	if cs.Edit != "" {
		ed = fmt.Sprintf(" [edited: %s seed %d]", cs.Edit, cs.EditSeed)
	}
	ev.Fail(t, check, cs, "%s: %s#%d%s glyph %d (rune U+%04X) setting %s %v: port %s, reference %s", what, cs.File, cs.Index, ed, cs.Glyph, cs.Rune, cs.Setting, cs.Coords, port, ref)
}

// known handles a case matched by the structural matcher of a known finding: excluded and counted
// if the finding is listed open, a violation otherwise.
func (c *fctx) known(t ev.TB, id, check string, cs Case, what, port, ref string) {
	if ev.Known(id) {
		ev.Excluded(id)
		return
	}
	cs.Finding = id
	c.violate(t, check, cs, what, port, ref)
}

func guard(t ev.TB, c *fctx, check string, cs Case) {
	if r := recover(); r != nil {
		c.violate(t, check, cs, "panic", fmt.Sprint(r), "no panic")
	}
}

func near(a float32, b int32, tol float64) bool {
	return math.Abs(float64(a)-float64(b)) <= tol
}

// ---------------------------------------------------------------------------------------------
// face-level checks

var lineMetricTags = []struct {
	m   font.LineMetric
	tag string
}{
	{font.UnderlinePosition, "undo"}, {font.UnderlineThickness, "unds"},
	{font.StrikethroughPosition, "stro"}, {font.StrikethroughThickness, "strs"},
	{font.SuperscriptEmYSize, "spys"}, {font.SuperscriptEmXOffset, "spxo"},
	{font.SubscriptEmYSize, "sbys"}, {font.SubscriptEmYOffset, "sbyo"}, {font.SubscriptEmXOffset, "sbxo"},
	{font.CapHeight, "cpht"}, {font.XHeight, "xhgt"},
}

// checkFace compares the font-wide values for the current setting. Returns the number of
// comparisons made.
func (c *fctx) checkFace(t ev.TB) int {
	cs := c.caseOf(0)
	defer guard(t, c, "face", cs)
	n := 0
	tol := 0.0
	if c.isVar {
		tol = tolVarRounded
	}
	if !c.isVar {
		// units per em: all decoders
		n++
		pu := int(c.pf.Upem())
		if pu != c.hb.Upem {
			c.violate(t, "face", cs, "upem", fmt.Sprint(pu), fmt.Sprintf("libharfbuzz %d", c.hb.Upem))
		}
		if c.ft != nil && c.ft.Upem() != c.hb.Upem {
			ev.Label("oracle-limit:freetype-upem-differs-from-libharfbuzz")
		}
		if c.sf != nil && int(c.sf.UnitsPerEm()) != c.hb.Upem {
			ev.Label("oracle-limit:ximage-upem-differs-from-libharfbuzz")
		}
		// glyph count: the port has no accessor; the references must agree among themselves, the
		// port is probed just outside the range in checkGlyph.
		if c.ft != nil && c.ft.NumGlyphs() != c.nGlyphs {
			ev.Label("oracle-limit:freetype-glyph-count-differs-from-libharfbuzz")
		}
		if c.sf != nil && c.sf.NumGlyphs() != c.nGlyphs {
			ev.Label("oracle-limit:ximage-glyph-count-differs-from-libharfbuzz")
		}
	} else {
		// normalisation: NormalizeVariations vs hb_ot_var_normalize_coords, exact
		n++
		want := c.hb.NormalizeCoords(c.set.Design)
		same := len(want) == len(c.normed)
		for i := 0; same && i < len(want); i++ {
			if int32(c.normed[i]) != want[i] {
				if c.negativeTie(i) {
					ev.Label("oracle-limit:libharfbuzz-binary-rounds-negative-ties-up(normalisation)")
					continue
				}
				same = false
			}
		}
		if !same {
			c.violate(t, "face", cs, "normalized-coords", fmt.Sprint(c.normed), fmt.Sprintf("libharfbuzz %v", want))
		}
	}
	// font h-extents
	n++
	pe, pok := c.pf.FontHExtents()
	he, hok := c.hb.HExtents()
	if pok != hok {
		c.violate(t, "face", cs, "h-extents-available", fmt.Sprint(pok), fmt.Sprintf("libharfbuzz %v", hok))
	} else if hok && !(near(pe.Ascender, he.Ascender, tol) && near(pe.Descender, he.Descender, tol) && near(pe.LineGap, he.LineGap, tol)) {
		if z := c.mvarZeroFace(); z != nil {
			if ze, zok := z.FontHExtents(); zok && near(ze.Ascender, he.Ascender, tolVarRounded) && near(ze.Descender, he.Descender, tolVarRounded) && near(ze.LineGap, he.LineGap, tolVarRounded) {
				c.known(t, findMvarNoCoords, "face", cs, "h-extents-without-coords", fmt.Sprintf("%+v", pe), fmt.Sprintf("libharfbuzz %+v", he))
				goto lineMetrics
			}
		}
		c.violate(t, "face", cs, "h-extents", fmt.Sprintf("%+v", pe), fmt.Sprintf("libharfbuzz %+v", he))
	}
lineMetrics:
	// line metrics (only those libharfbuzz can answer from the tables)
	for _, lm := range lineMetricTags {
		hv, ok := c.hb.MetricsPosition(hbref.Tag(lm.tag))
		if !ok {
			continue
		}
		n++
		pv := c.pf.LineMetric(lm.m)
		if !near(pv, hv, tol) {
			if z := c.mvarZeroFace(); z != nil && near(z.LineMetric(lm.m), hv, tolVarRounded) {
				c.known(t, findMvarNoCoords, "face", cs, "line-metric-"+lm.tag+"-without-coords", fmt.Sprint(pv), fmt.Sprintf("libharfbuzz %d", hv))
				continue
			}
			c.violate(t, "face", cs, "line-metric-"+lm.tag, fmt.Sprint(pv), fmt.Sprintf("libharfbuzz %d", hv))
		}
	}
	return n
}

// negativeTie tells whether the fvar normalisation of axis i of the current setting is an exact
// negative .5 tie in float32 (the arithmetic of both implementations). The libharfbuzz 6.0.0
// *binary* of this image has roundf inlined as floor(x+.5) (no call to roundf is left in the
// library) and returns the value rounded towards +inf there, while its source, like the port,
// rounds half away from zero: 2,000,000 random coordinates differed only on such ties, always by
// +1. Not a violation: counted as an oracle limit.
func (c *fctx) negativeTie(i int) bool {
	if i >= len(c.axes) || i >= len(c.set.Design) {
		return false
	}
	a, v := c.axes[i], c.set.Design[i]
	if v < a.Min {
		v = a.Min
	}
	if v > a.Max {
		v = a.Max
	}
	if v >= a.Default {
		return false
	}
	m := (v - a.Default) / (a.Default - a.Min)
	x := float64(m * 16384)
	return x < 0 && x-math.Floor(x) == 0.5
}

// mvarZeroFace is the matcher support of findMvarNoCoords: for a face with an MVAR table and no
// coordinates applied it returns a second face with explicit all-zero coordinates (nil otherwise).
// The finding is "a font-wide metric is wrong without coordinates and right with explicit zeros".
func (c *fctx) mvarZeroFace() *font.Face {
	if c.isVar || !c.tr.MVAR || len(c.axes) == 0 {
		return nil
	}
	if c.zeroFace == nil {
		c.zeroFace = font.NewFace(c.pf.Font)
		c.zeroFace.SetCoords(make([]font.VarCoord, len(c.axes)))
	}
	return c.zeroFace
}

// ---------------------------------------------------------------------------------------------
// cmap

// cmapRunes lists the code points to compare: every rune the port's cmap enumerates, every rune
// libharfbuzz's cmap maps, their neighbours (unmapped boundaries), fixed hostile values and a
// seeded random sample of the rest.
func (c *fctx) cmapRunes(seed int64, sample bool) []rune {
	set := map[rune]struct{}{}
	add := func(r rune) {
		if r >= 0 && r <= 0x10FFFF {
			set[r] = struct{}{}
		}
	}
	it := c.pf.Cmap.Iter()
	for it.Next() {
		r, _ := it.Char()
		add(r)
		add(r - 1)
		add(r + 1)
	}
	for _, r := range c.hb.CollectUnicodes() {
		add(r)
		add(r - 1)
		add(r + 1)
	}
	for _, r := range []rune{0, 1, 0x20, 0x7F, 0x80, 0xA0, 0xAD, 0xFF, 0x100, 0xD800, 0xDFFF, 0xF000, 0xF020, 0xF0FF, 0xF100, 0xFFFD, 0xFFFE, 0xFFFF, 0x10000, 0x1FFFF, 0xE0100, 0x10FFFF} {
		add(r)
	}
	rng := ev.NewRand(uint64(seed)*31 + hashStr(c.tr.File))
	for i := 0; i < 300; i++ {
		if i%3 == 0 {
			add(rune(rng.Intn(0x110000)))
		} else {
			add(rune(rng.Intn(0x10000)))
		}
	}
	out := make([]rune, 0, len(set))
	for r := range set {
		out = append(out, r)
	}
	sort.Slice(out, func(i, j int) bool { return out[i] < out[j] })
	if sample && len(out) > 3000 {
		// the sweep job compares a seeded sample of large cmaps (the sampled job and the thorough
		// tier compare them completely)
		keep := out[:0:0]
		for i, r := range out {
			if i < 300 || len(out)-i <= 300 || rng.Intn(len(out)) < 2400 {
				keep = append(keep, r)
			}
		}
		out = keep
	}
	return out
}

// checkRune compares the nominal glyph of one code point. mapped tells whether some decoder maps it.
func (c *fctx) checkRune(t ev.TB, r rune) (mapped bool) {
	cs := c.caseOf(0)
	cs.Rune = int32(r)
	defer guard(t, c, "cmap", cs)
	pg, pok := c.pf.NominalGlyph(r)
	hg, hok := c.hb.NominalGlyph(r)
	pe, he := uint32(pg), hg // effective glyph: "not found" is glyph 0 (.notdef)
	if !pok {
		pe = 0
	}
	if !hok {
		he = 0
	}
	cs.Glyph = pe
	mapped = pe != 0 || he != 0
	var refs []uint32 // secondary references
	var names []string
	if c.ftCmapOK {
		refs = append(refs, c.ft.CharIndex(r))
		names = append(names, "FreeType")
	}
	if c.sfCmapOK {
		if g, err := c.sf.GlyphIndex(&c.sfBuf, r); err == nil {
			refs = append(refs, uint32(g))
			names = append(names, "x/image")
		}
	}
	desc := func() string {
		s := fmt.Sprintf("libharfbuzz (%d,%v)", hg, hok)
		for i := range refs {
			s += fmt.Sprintf(" %s %d", names[i], refs[i])
		}
		return s
	}
	if pe != he {
		withHB, withPort := 0, 0
		for _, g := range refs {
			if g == he {
				withHB++
			} else if g == pe {
				withPort++
			}
		}
		if withHB > 0 || withPort == 0 {
			// two references agree against the port, or libharfbuzz (whose subtable selection and
			// lookup the port follows) is the only applicable reference
			c.violate(t, "cmap", cs, "nominal-glyph", fmt.Sprintf("(%d,%v)", pg, pok), desc())
		} else {
			ev.Label("oracle-limit:cmap-libharfbuzz-alone-against-port")
			if survey {
				surveyLine(fmt.Sprintf("LIMIT cmap-hb-alone: %s#%d U+%04X port=(%d,%v) %s\n", cs.File, cs.Index, r, pg, pok, desc()))
			}
		}
		return
	}
	// port and libharfbuzz agree on the glyph
	if pok != hok {
		// the port answers "found, glyph 0" where libharfbuzz answers "not found"
		if pok && pg == 0 && !hok {
			c.known(t, findCmapGlyphZero, "cmap", cs, "found-flag-for-glyph-0", fmt.Sprintf("(%d,%v)", pg, pok), desc())
		} else {
			c.violate(t, "cmap", cs, "found-flag", fmt.Sprintf("(%d,%v)", pg, pok), desc())
		}
	}
	against := 0
	for i, g := range refs {
		if g != pe {
			against++
			ev.Label("oracle-limit:cmap-" + names[i] + "-differs-from-port-and-libharfbuzz")
		}
	}
	if against >= 2 && refs[0] == refs[1] {
		c.violate(t, "cmap", cs, "nominal-glyph-two-references", fmt.Sprintf("(%d,%v)", pg, pok), desc())
	}
	return
}

// ---------------------------------------------------------------------------------------------
// glyphs

type glyphStats struct {
	nontrivial bool
}

func fmtExt(e font.GlyphExtents, ok bool) string {
	return fmt.Sprintf("{x %g y %g w %g h %g ok %v}", e.XBearing, e.YBearing, e.Width, e.Height, ok)
}

func fmtHExt(e hbref.Extents, ok bool) string {
	return fmt.Sprintf("{x %d y %d w %d h %d ok %v}", e.XBearing, e.YBearing, e.Width, e.Height, ok)
}

// extentsAgree compares the port's extents with libharfbuzz's. Static: exact. Variable: each box
// edge within tolVarRounded (libharfbuzz rounds the edges of the float box to integers).
func (c *fctx) extentsAgree(pe font.GlyphExtents, he hbref.Extents) bool {
	if !c.isVar {
		// exact; where the port returns a non-integral value (bitmap strikes scaled to font units,
		// which libharfbuzz rounds field by field) the reference must be its rounding
		field := func(p float32, h int32) bool {
			if p == float32(math.Trunc(float64(p))) {
				return p == float32(h)
			}
			return near(p, h, tolVarRounded)
		}
		return field(pe.XBearing, he.XBearing) && field(pe.YBearing, he.YBearing) && field(pe.Width, he.Width) && field(pe.Height, he.Height)
	}
	return near(pe.XBearing, he.XBearing, tolVarRounded) && near(pe.YBearing, he.YBearing, tolVarRounded) &&
		near(pe.XBearing+pe.Width, he.XBearing+he.Width, tolVarRounded) &&
		near(pe.YBearing+pe.Height, he.YBearing+he.Height, tolVarRounded)
}

func isBitmapOnly(d font.GlyphData) bool {
	_, ok := d.(font.GlyphBitmap)
	return ok
}

func portOutline(d font.GlyphData) (segs []font.Segment, kind string, has bool) {
	switch g := d.(type) {
	case font.GlyphOutline:
		return g.Segments, "outline", true
	case font.GlyphSVG:
		return g.Outline.Segments, "svg", true
	case font.GlyphBitmap:
		if g.Outline != nil {
			return g.Outline.Segments, "bitmap+outline", true
		}
		return nil, "bitmap", false
	}
	return nil, "none", false
}

// checkGlyph compares one glyph under the current setting.
func (c *fctx) checkGlyph(t ev.TB, gid uint32) (nontrivial bool) {
	cs := c.caseOf(gid)
	defer guard(t, c, "glyph", cs)
	inRange := int(gid) < c.nGlyphs
	G := font.GID(gid)
	advTol := 0.0
	if c.isVar {
		advTol = tolVarRounded
	}

	// ---- horizontal advance: libharfbuzz is the specification
	pa := c.pf.HorizontalAdvance(G)
	ha := c.hb.HAdvance(gid)
	if !near(pa, ha, advTol) {
		c.violate(t, "glyph", cs, "h-advance", fmt.Sprint(pa), fmt.Sprintf("libharfbuzz %d", ha))
	}
	// ---- vertical advance (meaningful only with a vmtx table, see Font.HasVerticalMetrics)
	hasV := c.pf.HasVerticalMetrics() && c.tr.Vmtx
	if hasV {
		pv := c.pf.VerticalAdvance(G)
		hv := c.hb.VAdvance(gid)
		if !near(pv, hv, advTol) {
			c.violate(t, "glyph", cs, "v-advance", fmt.Sprint(pv), fmt.Sprintf("libharfbuzz %d", hv))
		}
	}
	// ---- extents: libharfbuzz is the specification
	pe, pok := c.pf.GlyphExtents(G)
	he, hok := c.hb.GlyphExtents(gid)
	// ---- a request repeated with identical arguments gets the identical answer: every metric is
	// asked again on the same face, and once more after a different glyph has been queried in
	// between (the face memoizes extents)
	{
		other := font.GID(0)
		if c.nGlyphs > 1 {
			other = font.GID((gid + 1) % uint32(c.nGlyphs))
		}
		pe2, pok2 := c.pf.GlyphExtents(G)
		pa2 := c.pf.HorizontalAdvance(G)
		c.pf.GlyphExtents(other)
		c.pf.HorizontalAdvance(other)
		pe3, pok3 := c.pf.GlyphExtents(G)
		pa3 := c.pf.HorizontalAdvance(G)
		if pe2 != pe || pok2 != pok || pe3 != pe || pok3 != pok {
			c.violate(t, "glyph", cs, "extents-not-repeatable", fmtExt(pe, pok), fmt.Sprintf("second call %s, third call (after another glyph) %s; libharfbuzz %s", fmtExt(pe2, pok2), fmtExt(pe3, pok3), fmtHExt(he, hok)))
		}
		if pa2 != pa || pa3 != pa {
			c.violate(t, "glyph", cs, "h-advance-not-repeatable", fmt.Sprint(pa), fmt.Sprintf("second call %g, third call %g", pa2, pa3))
		}
		if hasV {
			if v1, v2 := c.pf.VerticalAdvance(G), c.pf.VerticalAdvance(G); v1 != v2 {
				c.violate(t, "glyph", cs, "v-advance-not-repeatable", fmt.Sprint(v1), fmt.Sprint(v2))
			}
		}
	}
	extOK := true
	if pok != hok || (pok && !c.extentsAgree(pe, he)) {
		extOK = false
		switch {
		case c.matchEmptyGlyphExtents(gid, pe, pok, he, hok):
			c.known(t, findEmptyGlyphExtents, "glyph", cs, "extents-of-empty-glyph", fmtExt(pe, pok), "libharfbuzz "+fmtHExt(he, hok))
		case c.matchColrClipBox(gid, he, hok):
			c.known(t, findColrClipBox, "glyph", cs, "extents-of-colr-clipbox-glyph", fmtExt(pe, pok), "libharfbuzz "+fmtHExt(he, hok))
		case c.cff2Rejected && !pok && hok:
			c.known(t, findCff2Subrs, "glyph", cs, "extents-cff2-table-rejected", fmtExt(pe, pok), "libharfbuzz "+fmtHExt(he, hok))
		case pok && !hok && !c.cblc && (c.tr.Bitmap || c.tr.Sbix) && isBitmapOnly(c.pf.GlyphData(G)):
			// the port reads EBLC/EBDT and bloc/bdat strikes, libharfbuzz only CBLC/CBDT (and sbix):
			// no reference value
			ev.Label("oracle-limit:libharfbuzz-does-not-read-EBLC-or-bloc-strikes")
			extOK = true
		default:
			c.violate(t, "glyph", cs, "extents", fmtExt(pe, pok), "libharfbuzz "+fmtHExt(he, hok))
		}
	}
	if !inRange {
		// just outside the glyph range: no data, no outline
		if d := c.pf.GlyphData(G); d != nil {
			c.violate(t, "glyph", cs, "glyph-data-out-of-range", fmt.Sprintf("%T", d), "nil (glyph id >= glyph count)")
		}
		return false
	}
	// ---- glyph name (default setting only; names do not vary)
	if !c.isVar {
		pn := c.pf.GlyphName(G)
		hn, _ := c.hb.GlyphName(gid)
		if pn != hn && !(len(hn) >= 127 && len(pn) >= 127 && pn[:127] == hn[:127]) {
			fn, fok := "", false
			if c.ft != nil && c.ft.HasGlyphNames() {
				fn, fok = c.ft.GlyphName(gid)
			}
			if fok && fn == pn {
				ev.Label("oracle-limit:glyph-name-libharfbuzz-alone-against-port")
			} else if c.postBigIndex && pn == "" {
				c.known(t, findPostNames, "glyph", cs, "glyph-name-post-table-rejected", fmt.Sprintf("%q", pn), fmt.Sprintf("libharfbuzz %q", hn))
			} else {
				c.violate(t, "glyph", cs, "glyph-name", fmt.Sprintf("%q", pn), fmt.Sprintf("libharfbuzz %q FreeType %q(%v)", hn, fn, fok))
			}
		}
	}
	// ---- outline
	data := c.pf.GlyphData(G)
	psegs, kind, hasOutline := portOutline(data)
	hsegs := c.hb.Outline(gid)
	hcan := canonHB(hsegs)
	var pcan []contour
	if hasOutline {
		pcan = canonPort(psegs)
	}
	nontrivial = countSegs(pcan) > 0 || countSegs(hcan) > 0
	outlineCompared := false
	switch kind {
	case "bitmap", "svg", "bitmap+outline":
		// bitmap-only and SVG glyphs: metrics only
		ev.Label("glyph:" + kind + "-metrics-only")
	case "none":
		if len(hcan) > 0 && c.cff2Rejected {
			c.known(t, findCff2Subrs, "glyph", cs, "outline-cff2-table-rejected", "GlyphData = nil", fmt.Sprintf("libharfbuzz draws %d contours", len(hcan)))
		} else if len(hcan) > 0 {
			c.violate(t, "glyph", cs, "outline-missing", "GlyphData = nil", fmt.Sprintf("libharfbuzz draws %d contours", len(hcan)))
		}
	default:
		outlineCompared = true
		tol := float32(0)
		if c.isVar {
			tol = tolVarOutline
		}
		if same, why := sameOutline(pcan, hcan, tol); !same {
			if c.tr.Glyf && (c.tr.CFF || c.tr.CFF2) {
				// a font with both TrueType and CFF outlines: libharfbuzz draws glyf, the port CFF
				c.known(t, findOutlineOrder, "glyph", cs, "outline-of-font-with-glyf-and-cff", fmt.Sprintf("%d contours / %d segments", len(pcan), countSegs(pcan)),
					fmt.Sprintf("libharfbuzz %d contours / %d segments: %s", len(hcan), countSegs(hcan), why))
			} else {
				c.arbitrateOutline(t, cs, gid, pcan, hcan, why)
			}
		}
	}
	// ---- secondary references (default setting only): labels and the two-reference rule
	if !c.isVar {
		c.secondary(t, cs, gid, pa, pe, pok && extOK, pcan, outlineCompared)
	}
	return nontrivial
}

// matchEmptyGlyphExtents is the structural matcher of C10-empty-glyph-xbearing: a glyf glyph
// without data (loca entry of length 0) at the static code path, for which the port reports
// {XBearing = lsb, 0, 0, 0} and libharfbuzz all-zero extents.
func (c *fctx) matchEmptyGlyphExtents(gid uint32, pe font.GlyphExtents, pok bool, he hbref.Extents, hok bool) bool {
	if c.isVar || !c.hasGlyf || !pok || !hok {
		return false
	}
	if c.glyf.kindOf(gid) != glyphKindEmpty {
		return false
	}
	if he != (hbref.Extents{}) {
		return false
	}
	lsb, _ := c.hm.lsb(gid)
	return pe.YBearing == 0 && pe.Width == 0 && pe.Height == 0 && pe.XBearing == float32(lsb) && lsb != 0
}

// matchColrClipBox is the structural matcher of C10-colr-clipbox-extents: the glyph is covered by
// the COLR v1 ClipList and libharfbuzz reports exactly that clip box (the port has no COLR support,
// a TODO of its own test-suite).
func (c *fctx) matchColrClipBox(gid uint32, he hbref.Extents, hok bool) bool {
	b, ok := c.clipBoxes[gid]
	if !ok || !hok || c.isVar {
		return false
	}
	return he == hbref.Extents{XBearing: int32(b.xMin), YBearing: int32(b.yMax), Width: int32(b.xMax) - int32(b.xMin), Height: int32(b.yMin) - int32(b.yMax)}
}

// sfntOutline loads the x/image outline of a glyph in canonical form (shifted to the xMin = lsb
// convention for TrueType outlines).
func (c *fctx) sfntOutline(gid uint32) ([]contour, float32, bool) {
	if c.sf == nil || gid > 0xFFFF || c.tr.Fvar || c.tr.CFF2 {
		return nil, 0, false
	}
	segs, err := c.sf.LoadGlyph(&c.sfBuf, sfnt.GlyphIndex(gid), c.ppem, nil)
	if err != nil {
		return nil, 0, false
	}
	dx := float32(0)
	tol := float32(0)
	if c.hasGlyf && !c.tr.CFF {
		tol = tolSfntTT
		// the port and libharfbuzz shift TrueType outlines so that xMin = lsb ("undocumented
		// rasterizer behavior"); x/image does not
		if c.glyf.kindOf(gid) != glyphKindEmpty {
			if lsb, ok := c.hm.lsb(gid); ok && c.hasHm {
				dx = float32(lsb) - float32(c.glyf.glyphs[gid].xMin)
			}
		}
	}
	return canonSfnt(segs, dx), tol, true
}

// arbitrateOutline decides a port-vs-libharfbuzz outline disagreement.
func (c *fctx) arbitrateOutline(t ev.TB, cs Case, gid uint32, pcan, hcan []contour, why string) {
	if !c.isVar {
		if scan, tol, ok := c.sfntOutline(gid); ok {
			withHB, _ := sameOutline(scan, hcan, tol)
			withPort, _ := sameOutline(scan, pcan, tol)
			if withPort && !withHB {
				ev.Label("oracle-limit:outline-libharfbuzz-alone-against-port")
				return
			}
			if !withHB && !withPort {
				ev.Label("oracle-limit:ximage-outline-matches-neither")
			}
		}
	}
	c.violate(t, "glyph", cs, "outline", fmt.Sprintf("%d contours / %d segments", len(pcan), countSegs(pcan)),
		fmt.Sprintf("libharfbuzz %d contours / %d segments: %s", len(hcan), countSegs(hcan), why))
}

// secondary compares the port (which agrees with libharfbuzz at this point, or has been reported)
// with FreeType and x/image. A single secondary reference disagreeing is an oracle limit (labelled);
// both disagreeing with the port and agreeing with each other is a violation.
func (c *fctx) secondary(t ev.TB, cs Case, gid uint32, pa float32, pe font.GlyphExtents, extOK bool, pcan []contour, outlineCompared bool) {
	ftAdv, ftOK := 0, false
	var fg ftref.Glyph
	if c.ft != nil {
		g, err := c.ft.LoadGlyph(gid)
		if err == nil {
			fg, ftOK, ftAdv = g, true, g.HoriAdvance
		} else {
			ev.Label("ref:freetype-refuses-glyph")
		}
	}
	sfAdv, sfOK := 0, false
	if c.sf != nil && gid <= 0xFFFF {
		if a, err := c.sf.GlyphAdvance(&c.sfBuf, sfnt.GlyphIndex(gid), c.ppem, xfont.HintingNone); err == nil && a&63 == 0 {
			sfAdv, sfOK = int(a>>6), true
		}
	}
	ftDiff := ftOK && float32(ftAdv) != pa
	sfDiff := sfOK && float32(sfAdv) != pa
	if ftOK {
		ev.Label("ref:freetype-advance-compared")
	}
	if sfOK {
		ev.Label("ref:ximage-advance-compared")
	}
	if ftDiff {
		ev.Label("oracle-limit:freetype-advance-differs-from-port-and-libharfbuzz")
		if survey {
			surveyLine(fmt.Sprintf("LIMIT ft-advance: %s#%d glyph=%d port=%g ft=%d sfnt=%d(%v)\n", cs.File, cs.Index, gid, pa, ftAdv, sfAdv, sfOK))
		}
	}
	if sfDiff {
		ev.Label("oracle-limit:ximage-advance-differs-from-port-and-libharfbuzz")
		if survey {
			surveyLine(fmt.Sprintf("LIMIT sfnt-advance: %s#%d glyph=%d port=%g ft=%d(%v) sfnt=%d\n", cs.File, cs.Index, gid, pa, ftAdv, ftOK, sfAdv))
		}
	}
	if ftDiff && sfDiff && ftAdv == sfAdv {
		c.violate(t, "glyph", cs, "h-advance-two-references", fmt.Sprint(pa), fmt.Sprintf("FreeType %d x/image %d", ftAdv, sfAdv))
	}
	// control box of the FreeType outline vs the port's extents
	if ftOK && extOK && fg.Format == ftref.FormatOutline && outlineCompared {
		ev.Label("ref:freetype-cbox-compared")
		px0, py1 := pe.XBearing, pe.YBearing
		px1, py0 := pe.XBearing+pe.Width, pe.YBearing+pe.Height
		d := math.Max(math.Max(math.Abs(float64(px0)-float64(fg.XMin)), math.Abs(float64(px1)-float64(fg.XMax))),
			math.Max(math.Abs(float64(py0)-float64(fg.YMin)), math.Abs(float64(py1)-float64(fg.YMax))))
		switch {
		case fg.NPoints == 0 || d == 0:
		case d <= 1 && (c.tr.CFF || c.tr.CFF2):
			ev.Label("ref:freetype-cbox-within-1-unit(cff)")
		default:
			// TrueType: the port and libharfbuzz report the bounding box stored in the glyph
			// header, FreeType the box of the control points; CFF: more than 1 unit
			ev.Label("oracle-limit:freetype-cbox-differs-from-extents")
		}
		// the port's own outline against FreeType's control box (exact for TrueType, 1 unit for CFF
		// where FreeType rounds fractional coordinates)
		if x0, y0, x1, y1, ok := controlBox(pcan); ok {
			dd := math.Max(math.Max(math.Abs(float64(x0)-float64(fg.XMin)), math.Abs(float64(x1)-float64(fg.XMax))),
				math.Max(math.Abs(float64(y0)-float64(fg.YMin)), math.Abs(float64(y1)-float64(fg.YMax))))
			lim := 0.0
			if c.tr.CFF || c.tr.CFF2 {
				lim = 1
			}
			if dd > lim {
				if survey {
					surveyLine(fmt.Sprintf("LIMIT ft-cbox-vs-port-outline: %s#%d glyph=%d port=[%g %g %g %g] ft=[%d %d %d %d] npoints=%d\n", cs.File, cs.Index, gid, x0, y0, x1, y1, fg.XMin, fg.YMin, fg.XMax, fg.YMax, fg.NPoints))
				}
				ev.Label("oracle-limit:freetype-cbox-differs-from-port-outline-box")
			} else {
				ev.Label("ref:freetype-cbox-equals-port-outline-box")
			}
		}
	}
	// x/image outline vs the port's
	if outlineCompared {
		if scan, tol, ok := c.sfntOutline(gid); ok {
			ev.Label("ref:ximage-outline-compared")
			if same, why := sameOutline(scan, pcan, tol); !same {
				if survey {
					surveyLine(fmt.Sprintf("LIMIT sfnt-outline: %s#%d glyph=%d %s\n", cs.File, cs.Index, gid, why))
				}
				ev.Label("oracle-limit:ximage-outline-differs-from-port")
			}
		}
	}
}
