package c10

import (
	"fmt"
	"hash/fnv"

	"verif/internal/ev"
	"verif/internal/hbref"
)

// setting is one variation setting of a face. Design == nil means "no variations applied" (the
// static code path of every decoder); otherwise one design-space value per fvar axis.
type setting struct {
	Name   string
	Design []float32
	// Extra marks the per-axis / axis-pair settings added on top of the tier's base count; on faces
	// with more than subsetAbove glyphs they are evaluated on a glyph subset (every k-th glyph plus
	// the composites).
	Extra bool
}

const (
	maxExtraSettings = 24
	subsetAbove      = 3000
)

func sameDesign(a, b []float32) bool {
	if len(a) != len(b) {
		return false
	}
	for i := range a {
		if a[i] != b[i] {
			return false
		}
	}
	return true
}

// axisSettings builds, for a face with at least two axes, the settings that move axes away from the
// default one at a time and two at a time: EACH axis alone at its minimum and at its maximum (the
// others at default), and, for faces with at most four axes, each PAIR of axes at every combination
// of their extremes. At most maxExtraSettings are returned (all singles first; a seeded choice if
// there are more singles than that; pairs fill what is left, seeded choice). Settings whose
// coordinates already occur in `have` are left out. These reach multi-axis interactions (a gvar /
// item-variation region that peaks on several axes must contribute nothing when only one of its
// axes is moved) that corner and random settings hit only by luck.
func axisSettings(axes []hbref.Axis, have []setting, rng *ev.Rand) []setting {
	n := len(axes)
	if n < 2 {
		return nil
	}
	def := func() []float32 {
		d := make([]float32, n)
		for i, a := range axes {
			d[i] = a.Default
		}
		return d
	}
	var singles, pairs []setting
	for i, a := range axes {
		if a.Min != a.Default {
			d := def()
			d[i] = a.Min
			singles = append(singles, setting{Name: fmt.Sprintf("only-axis%d-min", i), Design: d, Extra: true})
		}
		if a.Max != a.Default {
			d := def()
			d[i] = a.Max
			singles = append(singles, setting{Name: fmt.Sprintf("only-axis%d-max", i), Design: d, Extra: true})
		}
	}
	if n <= 4 {
		ext := func(a hbref.Axis) []float32 {
			var e []float32
			if a.Min != a.Default {
				e = append(e, a.Min)
			}
			if a.Max != a.Default {
				e = append(e, a.Max)
			}
			return e
		}
		for i := 0; i < n; i++ {
			for j := i + 1; j < n; j++ {
				for _, vi := range ext(axes[i]) {
					for _, vj := range ext(axes[j]) {
						d := def()
						d[i], d[j] = vi, vj
						pairs = append(pairs, setting{Name: fmt.Sprintf("pair-axis%d-axis%d", i, j), Design: d, Extra: true})
					}
				}
			}
		}
	}
	shuffleTrim := func(s []setting, k int) []setting {
		for len(s) > k {
			j := rng.Intn(len(s))
			s = append(s[:j], s[j+1:]...)
		}
		return s
	}
	singles = shuffleTrim(singles, maxExtraSettings)
	pairs = shuffleTrim(pairs, maxExtraSettings-len(singles))
	var out []setting
	for _, s := range append(singles, pairs...) {
		dup := false
		for _, h := range have {
			if h.Design != nil && sameDesign(h.Design, s.Design) {
				dup = true
				break
			}
		}
		for _, h := range out {
			if sameDesign(h.Design, s.Design) {
				dup = true
				break
			}
		}
		if !dup {
			out = append(out, s)
		}
	}
	return out
}

func hashStr(s string) uint64 {
	h := fnv.New64a()
	h.Write([]byte(s))
	return h.Sum64()
}

// kneeDesign maps a normalized (pre-avar) coordinate back to design space.
func kneeDesign(a hbref.Axis, n float64) float32 {
	if n < 0 {
		return a.Default + float32(n)*(a.Default-a.Min)
	}
	return a.Default + float32(n)*(a.Max-a.Default)
}

// settingsFor builds the coordinate settings of a face: always "default" (no variations) first;
// for fvar faces `want` more, drawn from {explicit default, all-min, all-max, each axis min/max,
// avar knees and knees ± ε, outside the axis range, random}. Deterministic in (seed, file, index).
func settingsFor(file string, index int, axes []hbref.Axis, knees [][]float64, seed int64, want int) []setting {
	out := []setting{{Name: "default"}}
	if len(axes) == 0 || want <= 0 {
		return out
	}
	rng := ev.NewRand(uint64(seed)*0x9E3779B97F4A7C15 ^ hashStr(fmt.Sprintf("%s#%d", file, index)))
	n := len(axes)
	def := func() []float32 {
		d := make([]float32, n)
		for i, a := range axes {
			d[i] = a.Default
		}
		return d
	}
	eps := func(a hbref.Axis) float32 {
		e := (a.Max - a.Min) / 1024
		if e <= 0 {
			e = 1.0 / 64
		}
		return e
	}
	frand := func(lo, hi float32) float32 {
		return lo + (hi-lo)*float32(rng.Intn(1<<20))/float32(1<<20)
	}

	var corners, perAxis, kneeSets, outside []setting
	mk := func(name string, f func(i int, a hbref.Axis) float32) setting {
		d := make([]float32, n)
		for i, a := range axes {
			d[i] = f(i, a)
		}
		return setting{Name: name, Design: d}
	}
	corners = append(corners,
		mk("all-min", func(_ int, a hbref.Axis) float32 { return a.Min }),
		mk("all-max", func(_ int, a hbref.Axis) float32 { return a.Max }),
		mk("explicit-default", func(_ int, a hbref.Axis) float32 { return a.Default }),
	)
	for i, a := range axes {
		if a.Min != a.Default {
			d := def()
			d[i] = a.Min
			perAxis = append(perAxis, setting{Name: fmt.Sprintf("axis%d-min", i), Design: d})
		}
		if a.Max != a.Default {
			d := def()
			d[i] = a.Max
			perAxis = append(perAxis, setting{Name: fmt.Sprintf("axis%d-max", i), Design: d})
		}
	}
	for i, ks := range knees {
		if i >= n {
			break
		}
		for _, k := range ks {
			for _, off := range []float32{0, -1, 1} {
				d := def()
				d[i] = kneeDesign(axes[i], k) + off*eps(axes[i])
				// other axes at random positions so that the knee is seen with interacting regions
				for j := range d {
					if j != i && rng.Intn(2) == 0 {
						d[j] = frand(axes[j].Min, axes[j].Max)
					}
				}
				kneeSets = append(kneeSets, setting{Name: fmt.Sprintf("axis%d-knee%+.0f", i, off), Design: d})
			}
		}
	}
	outside = append(outside,
		mk("below-range", func(_ int, a hbref.Axis) float32 { return a.Min - (a.Max-a.Min)/8 - 1 }),
		mk("above-range", func(_ int, a hbref.Axis) float32 { return a.Max + (a.Max-a.Min)/8 + 1 }),
		mk("mixed-outside", func(i int, a hbref.Axis) float32 {
			if rng.Intn(2) == 0 {
				return a.Min - 1000
			}
			return a.Max + 1000
		}),
	)
	random := func(k int) setting {
		return mk(fmt.Sprintf("random%d", k), func(_ int, a hbref.Axis) float32 {
			switch rng.Intn(8) {
			case 0:
				return a.Default
			case 1:
				return (a.Min + a.Default) / 2
			case 2:
				return (a.Max + a.Default) / 2
			default:
				return frand(a.Min, a.Max)
			}
		})
	}
	pick := func(from []setting) (setting, bool) {
		if len(from) == 0 {
			return setting{}, false
		}
		return from[rng.Intn(len(from))], true
	}

	if want <= 8 {
		// quick: one of each family
		out = append(out, corners[0], corners[1])
		if s, ok := pick(perAxis); ok {
			out = append(out, s)
		}
		if s, ok := pick(kneeSets); ok {
			out = append(out, s)
		} else {
			out = append(out, corners[2])
		}
		if s, ok := pick(outside); ok {
			out = append(out, s)
		}
		for k := 0; len(out) < want+1; k++ {
			out = append(out, random(k))
		}
		out = out[:want+1]
		return append(out, axisSettings(axes, out, rng)...)
	}
	// thorough: every family member, bounded, then random fill
	var pool []setting
	pool = append(pool, corners...)
	pool = append(pool, outside...)
	pool = append(pool, perAxis...)
	pool = append(pool, kneeSets...)
	keepRandom := want / 4
	for len(pool) > want-keepRandom {
		// drop a random member beyond the three corners
		j := 3 + rng.Intn(len(pool)-3)
		pool = append(pool[:j], pool[j+1:]...)
	}
	out = append(out, pool...)
	for k := 0; len(out) < want+1; k++ {
		out = append(out, random(k))
	}
	return append(out, axisSettings(axes, out, rng)...)
}
