package c10

// Structure-preserving edits of corpus fonts.
//
// The corpus lacks many *legal* table shapes (a composite component carrying both offset flags, a
// 2x2 transform with point matching, a long-form hmtx on a monospaced font, ...). An edit takes the
// bytes of a plain sfnt corpus font, rewrites one aspect of one table into another legal shape whose
// decoding is well defined, rebuilds the file with a tiny writer of its own (independent of the
// port's), and the *same edited bytes* are then decoded by the port, libharfbuzz, FreeType and
// x/image and compared exactly as corpus fonts are. An edit that a reference rejects (libharfbuzz
// or FreeType cannot open the result) is skipped and counted. Edits that must not change any decoded
// value ("preserving") are additionally self-checked: libharfbuzz must decode the edited font to
// the same advances, extents and outlines as the original, otherwise the *editor* is at fault and
// the edit is skipped and counted, never reported.
//
// Everything is a deterministic function of (original bytes, edit kind, edit seed).

import (
	"encoding/binary"
	"sort"

	"verif/internal/ev"
)

// ---------------------------------------------------------------------------------------------
// sfnt container

type sfntFile struct {
	version uint32
	tables  map[string][]byte
}

func parseSfnt(data []byte) (*sfntFile, bool) {
	if len(data) < 12 {
		return nil, false
	}
	v := binary.BigEndian.Uint32(data)
	if v != 0x00010000 && v != 0x4F54544F && v != 0x74727565 {
		return nil, false
	}
	n := int(binary.BigEndian.Uint16(data[4:]))
	if len(data) < 12+16*n {
		return nil, false
	}
	f := &sfntFile{version: v, tables: map[string][]byte{}}
	for i := 0; i < n; i++ {
		rec := data[12+16*i:]
		tag := string(rec[:4])
		off, ln := int(binary.BigEndian.Uint32(rec[8:])), int(binary.BigEndian.Uint32(rec[12:]))
		if off < 0 || ln < 0 || off+ln > len(data) {
			return nil, false
		}
		if _, dup := f.tables[tag]; dup {
			return nil, false
		}
		f.tables[tag] = append([]byte(nil), data[off:off+ln]...)
	}
	return f, true
}

func checksum(b []byte) uint32 {
	var s uint32
	for i := 0; i+4 <= len(b); i += 4 {
		s += binary.BigEndian.Uint32(b[i:])
	}
	if r := len(b) % 4; r != 0 {
		var last [4]byte
		copy(last[:], b[len(b)-r:])
		s += binary.BigEndian.Uint32(last[:])
	}
	return s
}

func (f *sfntFile) build() []byte {
	tags := make([]string, 0, len(f.tables))
	for t := range f.tables {
		tags = append(tags, t)
	}
	sort.Strings(tags)
	n := len(tags)
	if h, ok := f.tables["head"]; ok && len(h) >= 12 {
		binary.BigEndian.PutUint32(h[8:], 0)
	}
	es, sr := 0, 1
	for sr*2 <= n {
		sr *= 2
		es++
	}
	out := make([]byte, 12+16*n)
	binary.BigEndian.PutUint32(out, f.version)
	binary.BigEndian.PutUint16(out[4:], uint16(n))
	binary.BigEndian.PutUint16(out[6:], uint16(sr*16))
	binary.BigEndian.PutUint16(out[8:], uint16(es))
	binary.BigEndian.PutUint16(out[10:], uint16(n*16-sr*16))
	headOff := -1
	for i, t := range tags {
		b := f.tables[t]
		off := len(out)
		if t == "head" {
			headOff = off
		}
		rec := out[12+16*i:]
		copy(rec, t)
		binary.BigEndian.PutUint32(rec[4:], checksum(b))
		binary.BigEndian.PutUint32(rec[8:], uint32(off))
		binary.BigEndian.PutUint32(rec[12:], uint32(len(b)))
		out = append(out, b...)
		for len(out)%4 != 0 {
			out = append(out, 0)
		}
	}
	if headOff >= 0 && len(f.tables["head"]) >= 12 {
		binary.BigEndian.PutUint32(out[headOff+8:], 0xB1B0AFBA-checksum(out))
	}
	return out
}

func (f *sfntFile) numGlyphs() int {
	m := f.tables["maxp"]
	if len(m) < 6 {
		return 0
	}
	return int(binary.BigEndian.Uint16(m[4:]))
}

// ---------------------------------------------------------------------------------------------
// glyf / loca

type glyfModel struct {
	glyphs [][]byte // raw glyph records; empty = no data
	long   bool
}

func loadGlyf(f *sfntFile) (*glyfModel, bool) {
	head, loca, glyf := f.tables["head"], f.tables["loca"], f.tables["glyf"]
	n := f.numGlyphs()
	if len(head) < 54 || n == 0 || len(loca) == 0 {
		return nil, false
	}
	m := &glyfModel{long: binary.BigEndian.Uint16(head[50:]) == 1, glyphs: make([][]byte, n)}
	off := func(i int) (int, bool) {
		if m.long {
			v, ok := be32(loca, 4*i)
			return int(v), ok
		}
		v, ok := be16(loca, 2*i)
		return 2 * int(v), ok
	}
	for i := 0; i < n; i++ {
		a, ok1 := off(i)
		b, ok2 := off(i + 1)
		if !ok1 || !ok2 || b < a || b > len(glyf) {
			return nil, false
		}
		if b-a >= 10 {
			m.glyphs[i] = append([]byte(nil), glyf[a:b]...)
		} else if b != a {
			return nil, false
		}
	}
	return m, true
}

// store writes glyf, loca and head.indexToLocFormat. ok=false when the short format cannot hold
// the offsets.
func (m *glyfModel) store(f *sfntFile, long bool) bool {
	var glyf []byte
	offs := make([]int, len(m.glyphs)+1)
	for i, g := range m.glyphs {
		offs[i] = len(glyf)
		glyf = append(glyf, g...)
		for len(glyf)%4 != 0 {
			glyf = append(glyf, 0)
		}
	}
	offs[len(m.glyphs)] = len(glyf)
	var loca []byte
	if long {
		loca = make([]byte, 4*len(offs))
		for i, o := range offs {
			binary.BigEndian.PutUint32(loca[4*i:], uint32(o))
		}
	} else {
		if len(glyf)/2 > 0xFFFF {
			return false
		}
		loca = make([]byte, 2*len(offs))
		for i, o := range offs {
			binary.BigEndian.PutUint16(loca[2*i:], uint16(o/2))
		}
	}
	f.tables["glyf"], f.tables["loca"] = glyf, loca
	v := uint16(0)
	if long {
		v = 1
	}
	binary.BigEndian.PutUint16(f.tables["head"][50:], v)
	m.long = long
	return true
}

func isComposite(g []byte) bool { return len(g) >= 10 && int16(binary.BigEndian.Uint16(g)) < 0 }
func isSimple(g []byte) bool    { return len(g) >= 10 && int16(binary.BigEndian.Uint16(g)) > 0 }

// ---- composite glyphs

const (
	cfWords        = 0x0001
	cfXY           = 0x0002
	cfRound        = 0x0004
	cfScale        = 0x0008
	cfMore         = 0x0020
	cfXYScale      = 0x0040
	cf2x2          = 0x0080
	cfInstructions = 0x0100
	cfUseMyMetrics = 0x0200
	cfOverlap      = 0x0400
	cfScaledOff    = 0x0800
	cfUnscaledOff  = 0x1000
)

type component struct {
	flags      uint16 // non-structural bits are authoritative; words/form/more are recomputed
	glyph      uint16
	arg1, arg2 int32
	form       uint8 // 0 none, 1 scale, 2 x/y scale, 3 2x2
	m          [4]int16
	words      bool
}

type compositeGlyph struct {
	header [10]byte
	comps  []component
	tail   []byte // instructions (with their length prefix), verbatim
}

func parseComposite(g []byte) (*compositeGlyph, bool) {
	if !isComposite(g) {
		return nil, false
	}
	c := &compositeGlyph{}
	copy(c.header[:], g)
	p := 10
	for {
		fl, ok := be16(g, p)
		gi, ok2 := be16(g, p+2)
		if !ok || !ok2 {
			return nil, false
		}
		cp := component{flags: fl, glyph: gi, words: fl&cfWords != 0}
		p += 4
		if cp.words {
			a, ok := be16(g, p)
			b, ok2 := be16(g, p+2)
			if !ok || !ok2 {
				return nil, false
			}
			if fl&cfXY != 0 {
				cp.arg1, cp.arg2 = int32(int16(a)), int32(int16(b))
			} else {
				cp.arg1, cp.arg2 = int32(a), int32(b)
			}
			p += 4
		} else {
			if p+2 > len(g) {
				return nil, false
			}
			if fl&cfXY != 0 {
				cp.arg1, cp.arg2 = int32(int8(g[p])), int32(int8(g[p+1]))
			} else {
				cp.arg1, cp.arg2 = int32(g[p]), int32(g[p+1])
			}
			p += 2
		}
		nm := 0
		switch {
		case fl&cfScale != 0:
			cp.form, nm = 1, 1
		case fl&cfXYScale != 0:
			cp.form, nm = 2, 2
		case fl&cf2x2 != 0:
			cp.form, nm = 3, 4
		}
		for k := 0; k < nm; k++ {
			v, ok := be16(g, p)
			if !ok {
				return nil, false
			}
			cp.m[k] = int16(v)
			p += 2
		}
		c.comps = append(c.comps, cp)
		if fl&cfMore == 0 {
			break
		}
		if len(c.comps) > 4096 {
			return nil, false
		}
	}
	c.tail = append([]byte(nil), g[p:]...)
	return c, true
}

func (c *compositeGlyph) serialize() []byte {
	out := append([]byte(nil), c.header[:]...)
	put16 := func(v uint16) { out = append(out, byte(v>>8), byte(v)) }
	for i, cp := range c.comps {
		fl := cp.flags &^ (cfWords | cfScale | cfXYScale | cf2x2 | cfMore)
		words := cp.words
		if fl&cfXY != 0 {
			if cp.arg1 < -128 || cp.arg1 > 127 || cp.arg2 < -128 || cp.arg2 > 127 {
				words = true
			}
		} else if cp.arg1 > 255 || cp.arg2 > 255 {
			words = true
		}
		if words {
			fl |= cfWords
		}
		switch cp.form {
		case 1:
			fl |= cfScale
		case 2:
			fl |= cfXYScale
		case 3:
			fl |= cf2x2
		}
		if i < len(c.comps)-1 {
			fl |= cfMore
		}
		put16(fl)
		put16(cp.glyph)
		if words {
			put16(uint16(cp.arg1))
			put16(uint16(cp.arg2))
		} else {
			out = append(out, byte(cp.arg1), byte(cp.arg2))
		}
		for k := 0; k < []int{0, 1, 2, 4}[cp.form]; k++ {
			put16(uint16(cp.m[k]))
		}
	}
	return append(out, c.tail...)
}

// pointCount returns the number of outline points of a glyph (components resolved), -1 if unknown.
func (m *glyfModel) pointCount(gid int, depth int) int {
	if gid < 0 || gid >= len(m.glyphs) || depth > 8 {
		return -1
	}
	g := m.glyphs[gid]
	if len(g) < 10 {
		return 0
	}
	nc := int(int16(binary.BigEndian.Uint16(g)))
	if nc == 0 {
		return 0
	}
	if nc > 0 {
		v, ok := be16(g, 10+2*(nc-1))
		if !ok {
			return -1
		}
		return int(v) + 1
	}
	c, ok := parseComposite(g)
	if !ok {
		return -1
	}
	n := 0
	for _, cp := range c.comps {
		k := m.pointCount(int(cp.glyph), depth+1)
		if k < 0 {
			return -1
		}
		n += k
	}
	return n
}

// ---- simple glyphs

type simpleGlyph struct {
	header  [10]byte
	endPts  []uint16
	instr   []byte
	onCurve []bool
	overlap bool // OVERLAP_SIMPLE on the first flag
	dx, dy  []int16
}

func parseSimple(g []byte) (*simpleGlyph, bool) {
	if !isSimple(g) {
		return nil, false
	}
	s := &simpleGlyph{}
	copy(s.header[:], g)
	nc := int(int16(binary.BigEndian.Uint16(g)))
	p := 10
	for i := 0; i < nc; i++ {
		v, ok := be16(g, p)
		if !ok {
			return nil, false
		}
		if i > 0 && v <= s.endPts[i-1] {
			return nil, false
		}
		s.endPts = append(s.endPts, v)
		p += 2
	}
	il, ok := be16(g, p)
	if !ok || p+2+int(il) > len(g) {
		return nil, false
	}
	s.instr = append([]byte(nil), g[p+2:p+2+int(il)]...)
	p += 2 + int(il)
	np := int(s.endPts[nc-1]) + 1
	flags := make([]byte, 0, np)
	for len(flags) < np {
		if p >= len(g) {
			return nil, false
		}
		f := g[p]
		p++
		flags = append(flags, f)
		if f&0x08 != 0 {
			if p >= len(g) {
				return nil, false
			}
			r := int(g[p])
			p++
			for k := 0; k < r && len(flags) < np; k++ {
				flags = append(flags, f)
			}
		}
	}
	s.overlap = flags[0]&0x40 != 0
	s.onCurve = make([]bool, np)
	s.dx, s.dy = make([]int16, np), make([]int16, np)
	read := func(short, same byte, dst []int16) bool {
		for i, f := range flags {
			switch {
			case f&short != 0:
				if p >= len(g) {
					return false
				}
				v := int16(g[p])
				p++
				if f&same == 0 {
					v = -v
				}
				dst[i] = v
			case f&same != 0:
				dst[i] = 0
			default:
				v, ok := be16(g, p)
				if !ok {
					return false
				}
				dst[i] = int16(v)
				p += 2
			}
		}
		return true
	}
	if !read(0x02, 0x10, s.dx) || !read(0x04, 0x20, s.dy) {
		return nil, false
	}
	for i, f := range flags {
		s.onCurve[i] = f&0x01 != 0
	}
	return s, true
}

// simpleStyle is one legal way of spelling the same simple glyph.
type simpleStyle struct {
	short   bool // use short vectors and "same" bits where possible (else plain 16-bit deltas, also for 0)
	repeat  bool // run-length compress equal flags
	overlap int  // 0 keep, 1 set OVERLAP_SIMPLE on the first flag, 2 set it on every flag, 3 clear
}

func (s *simpleGlyph) serialize(st simpleStyle) []byte {
	out := append([]byte(nil), s.header[:]...)
	put16 := func(v uint16) { out = append(out, byte(v>>8), byte(v)) }
	for _, e := range s.endPts {
		put16(e)
	}
	put16(uint16(len(s.instr)))
	out = append(out, s.instr...)
	np := len(s.dx)
	flags := make([]byte, np)
	var xs, ys []byte
	enc := func(v int16, shortBit, sameBit byte, f *byte, dst *[]byte) {
		switch {
		case st.short && v == 0:
			*f |= sameBit
		case st.short && v >= -255 && v <= 255:
			*f |= shortBit
			if v > 0 {
				*f |= sameBit
				*dst = append(*dst, byte(v))
			} else {
				*dst = append(*dst, byte(-v))
			}
		default:
			*dst = append(*dst, byte(uint16(v)>>8), byte(uint16(v)))
		}
	}
	for i := 0; i < np; i++ {
		var f byte
		if s.onCurve[i] {
			f |= 0x01
		}
		switch st.overlap {
		case 0:
			if i == 0 && s.overlap {
				f |= 0x40
			}
		case 1:
			if i == 0 {
				f |= 0x40
			}
		case 2:
			f |= 0x40
		}
		enc(s.dx[i], 0x02, 0x10, &f, &xs)
		enc(s.dy[i], 0x04, 0x20, &f, &ys)
		flags[i] = f
	}
	for i := 0; i < np; {
		j := i + 1
		if st.repeat {
			for j < np && flags[j] == flags[i] && j-i < 256 {
				j++
			}
		}
		if j-i > 1 {
			out = append(out, flags[i]|0x08, byte(j-i-1))
		} else {
			out = append(out, flags[i])
		}
		i = j
	}
	out = append(out, xs...)
	return append(out, ys...)
}

// ---------------------------------------------------------------------------------------------
// edits

type editKind struct {
	name       string
	preserving bool // no decoded value may change
	// eligible tells from the traits whether the edit can apply to the face
	eligible func(t *faceTraits) bool
	// apply edits f in place; touched lists glyph ids whose record changed (nil: font-wide)
	apply func(f *sfntFile, rng *ev.Rand) (touched []uint32, ok bool)
}

var f2dot14Palette = []int16{8192, 12288, 16384, 20480, -16384, 10240, 24576, -8192, 4096}
var shearPalette = []int16{0, 0, 4096, -4096, 2048, 8192}

func drawTransform(cp *component, rng *ev.Rand) {
	pick := func(p []int16) int16 { return p[rng.Intn(len(p))] }
	cp.form = uint8(rng.Intn(4))
	cp.m = [4]int16{}
	switch cp.form {
	case 1:
		cp.m[0] = pick(f2dot14Palette)
	case 2:
		cp.m[0], cp.m[1] = pick(f2dot14Palette), pick(f2dot14Palette)
	case 3:
		cp.m[0], cp.m[1], cp.m[2], cp.m[3] = pick(f2dot14Palette), pick(shearPalette), pick(shearPalette), pick(f2dot14Palette)
	}
}

func editCompositeFlags(f *sfntFile, rng *ev.Rand) ([]uint32, bool) {
	m, ok := loadGlyf(f)
	if !ok {
		return nil, false
	}
	var touched []uint32
	for gid, g := range m.glyphs {
		c, ok := parseComposite(g)
		if !ok {
			continue
		}
		for i := range c.comps {
			cp := &c.comps[i]
			if cp.flags&cfXY != 0 {
				// SCALED_COMPONENT_OFFSET / UNSCALED_COMPONENT_OFFSET in all four combinations
				cp.flags &^= cfScaledOff | cfUnscaledOff
				switch rng.Intn(4) {
				case 1:
					cp.flags |= cfScaledOff
				case 2:
					cp.flags |= cfUnscaledOff
				case 3:
					cp.flags |= cfScaledOff | cfUnscaledOff
				}
				if rng.Intn(2) == 0 {
					cp.flags ^= cfRound
				}
				// argument size: bytes <-> words when the values allow it
				if rng.Intn(2) == 0 {
					cp.words = !cp.words
				}
			}
			if rng.Intn(2) == 0 {
				drawTransform(cp, rng) // none -> scale -> x/y scale -> 2x2 with drawn values
			}
			if rng.Intn(2) == 0 {
				cp.flags ^= cfOverlap
			}
			if rng.Intn(4) == 0 {
				cp.flags ^= cfUseMyMetrics
			}
		}
		m.glyphs[gid] = c.serialize()
		touched = append(touched, uint32(gid))
	}
	if len(touched) == 0 {
		return nil, false
	}
	return touched, m.store(f, true)
}

func editCompositeAnchored(f *sfntFile, rng *ev.Rand) ([]uint32, bool) {
	m, ok := loadGlyf(f)
	if !ok {
		return nil, false
	}
	var touched []uint32
	for gid, g := range m.glyphs {
		c, ok := parseComposite(g)
		if !ok || len(c.comps) < 2 {
			continue
		}
		parent, changed := 0, false
		for i := range c.comps {
			cp := &c.comps[i]
			n := m.pointCount(int(cp.glyph), 0)
			if n < 0 {
				parent = -1
				break
			}
			if i > 0 && parent > 0 && n > 0 && cp.flags&cfXY != 0 && rng.Intn(2) == 0 {
				// ARGS_ARE_XY_VALUES -> point matching with valid point numbers
				cp.flags &^= cfXY | cfRound | cfScaledOff | cfUnscaledOff
				cp.arg1, cp.arg2 = int32(rng.Intn(parent)), int32(rng.Intn(n))
				cp.words = rng.Intn(2) == 0
				if rng.Intn(3) == 0 {
					drawTransform(cp, rng)
				}
				changed = true
			}
			parent += n
		}
		if parent < 0 || !changed {
			continue
		}
		m.glyphs[gid] = c.serialize()
		touched = append(touched, uint32(gid))
	}
	if len(touched) == 0 {
		return nil, false
	}
	return touched, m.store(f, true)
}

func editSimpleReencode(f *sfntFile, rng *ev.Rand) ([]uint32, bool) {
	m, ok := loadGlyf(f)
	if !ok {
		return nil, false
	}
	var touched []uint32
	for gid, g := range m.glyphs {
		s, ok := parseSimple(g)
		if !ok {
			continue
		}
		st := simpleStyle{short: rng.Intn(2) == 0, repeat: rng.Intn(2) == 0, overlap: rng.Intn(4)}
		m.glyphs[gid] = s.serialize(st)
		touched = append(touched, uint32(gid))
	}
	if len(touched) == 0 {
		return nil, false
	}
	return touched, m.store(f, m.long)
}

func editLocaFormat(f *sfntFile, rng *ev.Rand) ([]uint32, bool) {
	m, ok := loadGlyf(f)
	if !ok {
		return nil, false
	}
	return nil, m.store(f, !m.long)
}

// editMetricsForm rewrites hmtx (or vmtx) with another legal numberOfHMetrics: the shortest form (the
// constant tail of advances collapsed) or, if the table already is the shortest, the full long form.
func editMetricsForm(hea, mtx string) func(f *sfntFile, rng *ev.Rand) ([]uint32, bool) {
	return func(f *sfntFile, rng *ev.Rand) ([]uint32, bool) {
		h, t := f.tables[hea], f.tables[mtx]
		n := f.numGlyphs()
		if len(h) < 36 || n == 0 {
			return nil, false
		}
		k := int(binary.BigEndian.Uint16(h[34:]))
		if k < 1 || k > n || len(t) < 4*k+2*(n-k) {
			return nil, false
		}
		adv, sb := make([]uint16, n), make([]uint16, n)
		for i := 0; i < n; i++ {
			if i < k {
				adv[i], sb[i] = binary.BigEndian.Uint16(t[4*i:]), binary.BigEndian.Uint16(t[4*i+2:])
			} else {
				adv[i], sb[i] = adv[k-1], binary.BigEndian.Uint16(t[4*k+2*(i-k):])
			}
		}
		short := n
		for short > 1 && adv[short-2] == adv[n-1] {
			short--
		}
		var cands []int
		for _, c := range []int{short, n, short + (n-short)/2} {
			if c != k && c >= short && c <= n {
				cands = append(cands, c)
			}
		}
		if len(cands) == 0 {
			return nil, false
		}
		nk := cands[rng.Intn(len(cands))]
		out := make([]byte, 0, 4*nk+2*(n-nk))
		for i := 0; i < n; i++ {
			if i < nk {
				out = append(out, byte(adv[i]>>8), byte(adv[i]))
			}
			out = append(out, byte(sb[i]>>8), byte(sb[i]))
		}
		f.tables[mtx] = out
		binary.BigEndian.PutUint16(h[34:], uint16(nk))
		return nil, true
	}
}

func editHeadLsbFlag(f *sfntFile, rng *ev.Rand) ([]uint32, bool) {
	h := f.tables["head"]
	if len(h) < 54 {
		return nil, false
	}
	h[17] ^= 0x02 // flags bit 1: left sidebearing point at x = 0
	return nil, true
}

func editPostVersion3(f *sfntFile, rng *ev.Rand) ([]uint32, bool) {
	p := f.tables["post"]
	if len(p) < 32 || binary.BigEndian.Uint32(p) != 0x00020000 {
		return nil, false
	}
	p = p[:32]
	binary.BigEndian.PutUint32(p, 0x00030000)
	f.tables["post"] = p
	return nil, true
}

func editTypoMetricsBit(f *sfntFile, rng *ev.Rand) ([]uint32, bool) {
	o := f.tables["OS/2"]
	if len(o) < 78 {
		return nil, false
	}
	o[63] ^= 0x80 // fsSelection bit 7 USE_TYPO_METRICS
	return nil, true
}

func editDrop(tag string) func(f *sfntFile, rng *ev.Rand) ([]uint32, bool) {
	return func(f *sfntFile, rng *ev.Rand) ([]uint32, bool) {
		if _, ok := f.tables[tag]; !ok {
			return nil, false
		}
		delete(f.tables, tag)
		return nil, true
	}
}

const editMaxGlyphs = 4000

func smallGlyf(t *faceTraits) bool {
	return t.Glyf && !t.CFF && !t.CFF2 && t.NumGlyphs <= editMaxGlyphs && (t.Container == "ttf" || t.Container == "otf") && t.Index == 0
}

var editKinds = []editKind{
	{"glyf-composite-flags", false, func(t *faceTraits) bool { return smallGlyf(t) && t.NComposite >= 8 }, editCompositeFlags},
	{"glyf-composite-point-matching", false, func(t *faceTraits) bool { return smallGlyf(t) && t.NComposite >= 8 }, editCompositeAnchored},
	{"glyf-simple-reencode", true, func(t *faceTraits) bool { return smallGlyf(t) }, editSimpleReencode},
	{"loca-format", true, func(t *faceTraits) bool { return smallGlyf(t) }, editLocaFormat},
	{"hmtx-form", true, func(t *faceTraits) bool { return smallGlyf(t) }, editMetricsForm("hhea", "hmtx")},
	{"vmtx-form", true, func(t *faceTraits) bool { return smallGlyf(t) && t.Vmtx }, editMetricsForm("vhea", "vmtx")},
	{"head-lsb-at-x0-flag", true, func(t *faceTraits) bool { return smallGlyf(t) }, editHeadLsbFlag},
	{"post-version-3", false, func(t *faceTraits) bool { return smallGlyf(t) }, editPostVersion3},
	{"os2-use-typo-metrics-bit", false, func(t *faceTraits) bool { return smallGlyf(t) }, editTypoMetricsBit},
	{"drop-HVAR", false, func(t *faceTraits) bool { return smallGlyf(t) && t.Gvar && t.HVAR }, editDrop("HVAR")},
	{"drop-VVAR", false, func(t *faceTraits) bool { return smallGlyf(t) && t.Gvar && t.VVAR }, editDrop("VVAR")},
	{"drop-VORG", false, func(t *faceTraits) bool {
		return t.VORG && t.NumGlyphs <= editMaxGlyphs && (t.Container == "ttf" || t.Container == "otf") && t.Index == 0
	}, editDrop("VORG")},
	{"drop-avar", false, func(t *faceTraits) bool { return smallGlyf(t) && t.Gvar && t.Avar }, editDrop("avar")},
	{"drop-MVAR", false, func(t *faceTraits) bool { return smallGlyf(t) && t.Fvar && t.MVAR }, editDrop("MVAR")},
}

func editByName(name string) *editKind {
	for i := range editKinds {
		if editKinds[i].name == name {
			return &editKinds[i]
		}
	}
	return nil
}

// applyEdit returns the edited bytes of a corpus font.
func applyEdit(orig []byte, kind *editKind, seed uint64) (data []byte, touched []uint32, ok bool) {
	f, ok := parseSfnt(orig)
	if !ok {
		return nil, nil, false
	}
	touched, ok = kind.apply(f, ev.NewRand(seed))
	if !ok {
		return nil, nil, false
	}
	return f.build(), touched, true
}
