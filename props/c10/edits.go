package c10

// Structure-preserving edits of corpus fonts.
//
// The corpus lacks many *legal* table shapes (a composite component carrying both offset flags, a
// 2x2 transform with point matching, a long-form hmtx on a monospaced font, ...). An edit takes the
// bytes of a plain sfnt corpus font, rewrites one aspect of one table into another legal shape whose
// decoding is well defined, rebuilds the file with a tiny writer of its own (independent of the
// port's), and the *same edited bytes* are then decoded by the port, libharfbuzz, FreeType and
// x/image and compared exactly as corpus fonts are. An edit that a reference rejects (libharfbuzz
// or FreeType cannot open the result) is skipped and counted. Edits that must not change any decoded
// value ("preserving") are additionally self-checked: libharfbuzz must decode the edited font to
// the same advances, extents and outlines as the original, otherwise the *editor* is at fault and
// the edit is skipped and counted, never reported.
//
// Everything is a deterministic function of (original bytes, edit kind, edit seed).

import (
	"encoding/binary"
	"sort"

	"verif/internal/ev"
)

// ---------------------------------------------------------------------------------------------
// sfnt container

type sfntFile struct {
	version uint32
	tables  map[string][]byte
}

func parseSfnt(data []byte) (*sfntFile, bool) {
	if len(data) < 12 {
		return nil, false
	}
	v := binary.BigEndian.Uint32(data)
	if v != 0x00010000 && v != 0x4F54544F && v != 0x74727565 {
		return nil, false
	}
	n := int(binary.BigEndian.Uint16(data[4:]))
	if len(data) < 12+16*n {
		return nil, false
	}
	f := &sfntFile{version: v, tables: map[string][]byte{}}
	for i := 0; i < n; i++ {
		rec := data[12+16*i:]
		tag := string(rec[:4])
		off, ln := int(binary.BigEndian.Uint32(rec[8:])), int(binary.BigEndian.Uint32(rec[12:]))
		if off < 0 || ln < 0 || off+ln > len(data) {
			return nil, false
		}
		if _, dup := f.tables[tag]; dup {
			return nil, false
		}
		f.tables[tag] = append([]byte(nil), data[off:off+ln]...)
	}
	return f, true
}

func checksum(b []byte) uint32 {
	var s uint32
	for i := 0; i+4 <= len(b); i += 4 {
		s += binary.BigEndian.Uint32(b[i:])
	}
	if r := len(b) % 4; r != 0 {
		var last [4]byte
		copy(last[:], b[len(b)-r:])
		s += binary.BigEndian.Uint32(last[:])
	}
	return s
}

func (f *sfntFile) build() []byte {
	tags := make([]string, 0, len(f.tables))
	for t := range f.tables {
		tags = append(tags, t)
	}
	sort.Strings(tags)
	n := len(tags)
	if h, ok := f.tables["head"]; ok && len(h) >= 12 {
		binary.BigEndian.PutUint32(h[8:], 0)
	}
	es, sr := 0, 1
	for sr*2 <= n {
		sr *= 2
		es++
	}
	out := make([]byte, 12+16*n)
	binary.BigEndian.PutUint32(out, f.version)
	binary.BigEndian.PutUint16(out[4:], uint16(n))
	binary.BigEndian.PutUint16(out[6:], uint16(sr*16))
	binary.BigEndian.PutUint16(out[8:], uint16(es))
	binary.BigEndian.PutUint16(out[10:], uint16(n*16-sr*16))
	headOff := -1
	for i, t := range tags {
		b := f.tables[t]
		off := len(out)
		if t == "head" {
			headOff = off
		}
		rec := out[12+16*i:]
		copy(rec, t)
		binary.BigEndian.PutUint32(rec[4:], checksum(b))
		binary.BigEndian.PutUint32(rec[8:], uint32(off))
		binary.BigEndian.PutUint32(rec[12:], uint32(len(b)))
		out = append(out, b...)
		for len(out)%4 != 0 {
			out = append(out, 0)
		}
	}
	if headOff >= 0 && len(f.tables["head"]) >= 12 {
		binary.BigEndian.PutUint32(out[headOff+8:], 0xB1B0AFBA-checksum(out))
	}
	return out
}

func (f *sfntFile) numGlyphs() int {
	m := f.tables["maxp"]
	if len(m) < 6 {
		return 0
	}
	return int(binary.BigEndian.Uint16(m[4:]))
}

// ---------------------------------------------------------------------------------------------
// glyf / loca

type glyfModel struct {
	glyphs [][]byte // raw glyph records; empty = no data
	long   bool
}

func loadGlyf(f *sfntFile) (*glyfModel, bool) {
	head, loca, glyf := f.tables["head"], f.tables["loca"], f.tables["glyf"]
	n := f.numGlyphs()
	if len(head) < 54 || n == 0 || len(loca) == 0 {
		return nil, false
	}
	m := &glyfModel{long: binary.BigEndian.Uint16(head[50:]) == 1, glyphs: make([][]byte, n)}
	off := func(i int) (int, bool) {
		if m.long {
			v, ok := be32(loca, 4*i)
			return int(v), ok
		}
		v, ok := be16(loca, 2*i)
		return 2 * int(v), ok
	}
	for i := 0; i < n; i++ {
		a, ok1 := off(i)
		b, ok2 := off(i + 1)
		if !ok1 || !ok2 || b < a || b > len(glyf) {
			return nil, false
		}
		if b-a >= 10 {
			m.glyphs[i] = append([]byte(nil), glyf[a:b]...)
		} else if b != a {
			return nil, false
		}
	}
	return m, true
}

// store writes glyf, loca and head.indexToLocFormat. ok=false when the short format cannot hold
// the offsets.
func (m *glyfModel) store(f *sfntFile, long bool) bool {
	var glyf []byte
	offs := make([]int, len(m.glyphs)+1)
	for i, g := range m.glyphs {
		offs[i] = len(glyf)
		glyf = append(glyf, g...)
		for len(glyf)%4 != 0 {
			glyf = append(glyf, 0)
		}
	}
	offs[len(m.glyphs)] = len(glyf)
	var loca []byte
	if long {
		loca = make([]byte, 4*len(offs))
		for i, o := range offs {
			binary.BigEndian.PutUint32(loca[4*i:], uint32(o))
		}
	} else {
		if len(glyf)/2 > 0xFFFF {
			return false
		}
		loca = make([]byte, 2*len(offs))
		for i, o := range offs {
			binary.BigEndian.PutUint16(loca[2*i:], uint16(o/2))
		}
	}
	f.tables["glyf"], f.tables["loca"] = glyf, loca
	v := uint16(0)
	if long {
		v = 1
	}
	binary.BigEndian.PutUint16(f.tables["head"][50:], v)
	m.long = long
	return true
}

func isComposite(g []byte) bool { return len(g) >= 10 && int16(binary.BigEndian.Uint16(g)) < 0 }
func isSimple(g []byte) bool    { return len(g) >= 10 && int16(binary.BigEndian.Uint16(g)) > 0 }

// ---- composite glyphs

const (
	cfWords        = 0x0001
	cfXY           = 0x0002
	cfRound        = 0x0004
	cfScale        = 0x0008
	cfMore         = 0x0020
	cfXYScale      = 0x0040
	cf2x2          = 0x0080
	cfInstructions = 0x0100
	cfUseMyMetrics = 0x0200
	cfOverlap      = 0x0400
	cfScaledOff    = 0x0800
	cfUnscaledOff  = 0x1000
)

type component struct {
	flags      uint16 // non-structural bits are authoritative; words/form/more are recomputed
	glyph      uint16
	arg1, arg2 int32
	form       uint8 // 0 none, 1 scale, 2 x/y scale, 3 2x2
	m          [4]int16
	words      bool
}

type compositeGlyph struct {
	header [10]byte
	comps  []component
	tail   []byte // instructions (with their length prefix), verbatim
}

func parseComposite(g []byte) (*compositeGlyph, bool) {
	if !isComposite(g) {
		return nil, false
	}
	c := &compositeGlyph{}
	copy(c.header[:], g)
	p := 10
	for {
		fl, ok := be16(g, p)
		gi, ok2 := be16(g, p+2)
		if !ok || !ok2 {
			return nil, false
		}
		cp := component{flags: fl, glyph: gi, words: fl&cfWords != 0}
		p += 4
		if cp.words {
			a, ok := be16(g, p)
			b, ok2 := be16(g, p+2)
			if !ok || !ok2 {
				return nil, false
			}
			if fl&cfXY != 0 {
				cp.arg1, cp.arg2 = int32(int16(a)), int32(int16(b))
			} else {
				cp.arg1, cp.arg2 = int32(a), int32(b)
			}
			p += 4
		} else {
			if p+2 > len(g) {
				return nil, false
			}
			if fl&cfXY != 0 {
				cp.arg1, cp.arg2 = int32(int8(g[p])), int32(int8(g[p+1]))
			} else {
				cp.arg1, cp.arg2 = int32(g[p]), int32(g[p+1])
			}
			p += 2
		}
		nm := 0
		switch {
		case fl&cfScale != 0:
			cp.form, nm = 1, 1
		case fl&cfXYScale != 0:
			cp.form, nm = 2, 2
		case fl&cf2x2 != 0:
			cp.form, nm = 3, 4
		}
		for k := 0; k < nm; k++ {
			v, ok := be16(g, p)
			if !ok {
				return nil, false
			}
			cp.m[k] = int16(v)
			p += 2
		}
		c.comps = append(c.comps, cp)
		if fl&cfMore == 0 {
			break
		}
		if len(c.comps) > 4096 {
			return nil, false
		}
	}
	c.tail = append([]byte(nil), g[p:]...)
	return c, true
}

func (c *compositeGlyph) serialize() []byte {
	out := append([]byte(nil), c.header[:]...)
	put16 := func(v uint16) { out = append(out, byte(v>>8), byte(v)) }
	for i, cp := range c.comps {
		fl := cp.flags &^ (cfWords | cfScale | cfXYScale | cf2x2 | cfMore)
		words := cp.words
		if fl&cfXY != 0 {
			if cp.arg1 < -128 || cp.arg1 > 127 || cp.arg2 < -128 || cp.arg2 > 127 {
				words = true
			}
		} else if cp.arg1 > 255 || cp.arg2 > 255 {
			words = true
		}
		if words {
			fl |= cfWords
		}
		switch cp.form {
		case 1:
			fl |= cfScale
		case 2:
			fl |= cfXYScale
		case 3:
			fl |= cf2x2
		}
		if i < len(c.comps)-1 {
			fl |= cfMore
		}
		put16(fl)
		put16(cp.glyph)
		if words {
			put16(uint16(cp.arg1))
			put16(uint16(cp.arg2))
		} else {
			out = append(out, byte(cp.arg1), byte(cp.arg2))
		}
		for k := 0; k < []int{0, 1, 2, 4}[cp.form]; k++ {
			put16(uint16(cp.m[k]))
		}
	}
	return append(out, c.tail...)
}

// pointCount returns the number of outline points of a glyph (components resolved), -1 if unknown.
func (m *glyfModel) pointCount(gid int, depth int) int {
	if gid < 0 || gid >= len(m.glyphs) || depth > 8 {
		return -1
	}
	g := m.glyphs[gid]
	if len(g) < 10 {
		return 0
	}
	nc := int(int16(binary.BigEndian.Uint16(g)))
	if nc == 0 {
		return 0
	}
	if nc > 0 {
		v, ok := be16(g, 10+2*(nc-1))
		if !ok {
			return -1
		}
		return int(v) + 1
	}
	c, ok := parseComposite(g)
	if !ok {
		return -1
	}
	n := 0
	for _, cp := range c.comps {
		k := m.pointCount(int(cp.glyph), depth+1)
		if k < 0 {
			return -1
		}
		n += k
	}
	return n
}

// ---- simple glyphs

type simpleGlyph struct {
	header  [10]byte
	endPts  []uint16
	instr   []byte
	onCurve []bool
	overlap bool // OVERLAP_SIMPLE on the first flag
	dx, dy  []int16
}

func parseSimple(g []byte) (*simpleGlyph, bool) {
	if !isSimple(g) {
		return nil, false
	}
	s := &simpleGlyph{}
	copy(s.header[:], g)
	nc := int(int16(binary.BigEndian.Uint16(g)))
	p := 10
	for i := 0; i < nc; i++ {
		v, ok := be16(g, p)
		if !ok {
			return nil, false
		}
		if i > 0 && v <= s.endPts[i-1] {
			return nil, false
		}
		s.endPts = append(s.endPts, v)
		p += 2
	}
	il, ok := be16(g, p)
	if !ok || p+2+int(il) > len(g) {
		return nil, false
	}
	s.instr = append([]byte(nil), g[p+2:p+2+int(il)]...)
	p += 2 + int(il)
	np := int(s.endPts[nc-1]) + 1
	flags := make([]byte, 0, np)
	for len(flags) < np {
		if p >= len(g) {
			return nil, false
		}
		f := g[p]
		p++
		flags = append(flags, f)
		if f&0x08 != 0 {
			if p >= len(g) {
				return nil, false
			}
			r := int(g[p])
			p++
			for k := 0; k < r && len(flags) < np; k++ {
				flags = append(flags, f)
			}
		}
	}
	s.overlap = flags[0]&0x40 != 0
	s.onCurve = make([]bool, np)
	s.dx, s.dy = make([]int16, np), make([]int16, np)
	read := func(short, same byte, dst []int16) bool {
		for i, f := range flags {
			switch {
			case f&short != 0:
				if p >= len(g) {
					return false
				}
				v := int16(g[p])
				p++
				if f&same == 0 {
					v = -v
				}
				dst[i] = v
			case f&same != 0:
				dst[i] = 0
			default:
				v, ok := be16(g, p)
				if !ok {
					return false
				}
				dst[i] = int16(v)
				p += 2
			}
		}
		return true
	}
	if !read(0x02, 0x10, s.dx) || !read(0x04, 0x20, s.dy) {
		return nil, false
	}
	for i, f := range flags {
		s.onCurve[i] = f&0x01 != 0
	}
	return s, true
}

// simpleStyle is one legal way of spelling the same simple glyph.
type simpleStyle struct {
	short   bool // use short vectors and "same" bits where possible (else plain 16-bit deltas, also for 0)
	repeat  bool // run-length compress equal flags
	overlap int  // 0 keep, 1 set OVERLAP_SIMPLE on the first flag, 2 set it on every flag, 3 clear
}

func (s *simpleGlyph) serialize(st simpleStyle) []byte {
	out := append([]byte(nil), s.header[:]...)
	put16 := func(v uint16) { out = append(out, byte(v>>8), byte(v)) }
	for _, e := range s.endPts {
		put16(e)
	}
	put16(uint16(len(s.instr)))
	out = append(out, s.instr...)
	np := len(s.dx)
	flags := make([]byte, np)
	var xs, ys []byte
	enc := func(v int16, shortBit, sameBit byte, f *byte, dst *[]byte) {
		switch {
		case st.short && v == 0:
			*f |= sameBit
		case st.short && v >= -255 && v <= 255:
			*f |= shortBit
			if v > 0 {
				*f |= sameBit
				*dst = append(*dst, byte(v))
			} else {
				*dst = append(*dst, byte(-v))
			}
		default:
			*dst = append(*dst, byte(uint16(v)>>8), byte(uint16(v)))
		}
	}
	for i := 0; i < np; i++ {
		var f byte
		if s.onCurve[i] {
			f |= 0x01
		}
		switch st.overlap {
		case 0:
			if i == 0 && s.overlap {
				f |= 0x40
			}
		case 1:
			if i == 0 {
				f |= 0x40
			}
		case 2:
			f |= 0x40
		}
		enc(s.dx[i], 0x02, 0x10, &f, &xs)
		enc(s.dy[i], 0x04, 0x20, &f, &ys)
		flags[i] = f
	}
	for i := 0; i < np; {
		j := i + 1
		if st.repeat {
			for j < np && flags[j] == flags[i] && j-i < 256 {
				j++
			}
		}
		if j-i > 1 {
			out = append(out, flags[i]|0x08, byte(j-i-1))
		} else {
			out = append(out, flags[i])
		}
		i = j
	}
	out = append(out, xs...)
	return append(out, ys...)
}

// ---------------------------------------------------------------------------------------------
// edits

type editKind struct {
	name       string
	preserving bool // no decoded value may change
	// eligible tells from the traits whether the edit can apply to the face
	eligible func(t *faceTraits) bool
	// apply edits f in place; touched lists glyph ids whose record changed (nil: font-wide)
	apply func(f *sfntFile, rng *ev.Rand) (touched []uint32, ok bool)
}

var f2dot14Palette = []int16{8192, 12288, 16384, 20480, -16384, 10240, 24576, -8192, 4096}
var shearPalette = []int16{0, 0, 4096, -4096, 2048, 8192}

func drawTransform(cp *component, rng *ev.Rand) {
	pick := func(p []int16) int16 { return p[rng.Intn(len(p))] }
	cp.form = uint8(rng.Intn(4))
	cp.m = [4]int16{}
	switch cp.form {
	case 1:
		cp.m[0] = pick(f2dot14Palette)
	case 2:
		cp.m[0], cp.m[1] = pick(f2dot14Palette), pick(f2dot14Palette)
	case 3:
		cp.m[0], cp.m[1], cp.m[2], cp.m[3] = pick(f2dot14Palette), pick(shearPalette), pick(shearPalette), pick(f2dot14Palette)
	}
}

func editCompositeFlags(f *sfntFile, rng *ev.Rand) ([]uint32, bool) {
	m, ok := loadGlyf(f)
	if !ok {
		return nil, false
	}
	var touched []uint32
	for gid, g := range m.glyphs {
		c, ok := parseComposite(g)
		if !ok {
			continue
		}
		for i := range c.comps {
			cp := &c.comps[i]
			if cp.flags&cfXY != 0 {
				// SCALED_COMPONENT_OFFSET / UNSCALED_COMPONENT_OFFSET in all four combinations
				cp.flags &^= cfScaledOff | cfUnscaledOff
				switch rng.Intn(4) {
				case 1:
					cp.flags |= cfScaledOff
				case 2:
					cp.flags |= cfUnscaledOff
				case 3:
					cp.flags |= cfScaledOff | cfUnscaledOff
				}
				if rng.Intn(2) == 0 {
					cp.flags ^= cfRound
				}
				// argument size: bytes <-> words when the values allow it
				if rng.Intn(2) == 0 {
					cp.words = !cp.words
				}
			}
			if rng.Intn(2) == 0 {
				drawTransform(cp, rng) // none -> scale -> x/y scale -> 2x2 with drawn values
			}
			if rng.Intn(2) == 0 {
				cp.flags ^= cfOverlap
			}
			if rng.Intn(4) == 0 {
				cp.flags ^= cfUseMyMetrics
			}
		}
		m.glyphs[gid] = c.serialize()
		touched = append(touched, uint32(gid))
	}
	if len(touched) == 0 {
		return nil, false
	}
	return touched, m.store(f, true)
}

func editCompositeAnchored(f *sfntFile, rng *ev.Rand) ([]uint32, bool) {
	m, ok := loadGlyf(f)
	if !ok {
		return nil, false
	}
	var touched []uint32
	for gid, g := range m.glyphs {
		c, ok := parseComposite(g)
		if !ok || len(c.comps) < 2 {
			continue
		}
		parent, changed := 0, false
		for i := range c.comps {
			cp := &c.comps[i]
			n := m.pointCount(int(cp.glyph), 0)
			if n < 0 {
				parent = -1
				break
			}
			if i > 0 && parent > 0 && n > 0 && cp.flags&cfXY != 0 && rng.Intn(2) == 0 {
				// ARGS_ARE_XY_VALUES -> point matching with valid point numbers
				cp.flags &^= cfXY | cfRound | cfScaledOff | cfUnscaledOff
				cp.arg1, cp.arg2 = int32(rng.Intn(parent)), int32(rng.Intn(n))
				cp.words = rng.Intn(2) == 0
				if rng.Intn(3) == 0 {
					drawTransform(cp, rng)
				}
				changed = true
			}
			parent += n
		}
		if parent < 0 || !changed {
			continue
		}
		m.glyphs[gid] = c.serialize()
		touched = append(touched, uint32(gid))
	}
	if len(touched) == 0 {
		return nil, false
	}
	return touched, m.store(f, true)
}

func editSimpleReencode(f *sfntFile, rng *ev.Rand) ([]uint32, bool) {
	m, ok := loadGlyf(f)
	if !ok {
		return nil, false
	}
	var touched []uint32
	for gid, g := range m.glyphs {
		s, ok := parseSimple(g)
		if !ok {
			continue
		}
		st := simpleStyle{short: rng.Intn(2) == 0, repeat: rng.Intn(2) == 0, overlap: rng.Intn(4)}
		m.glyphs[gid] = s.serialize(st)
		touched = append(touched, uint32(gid))
	}
	if len(touched) == 0 {
		return nil, false
	}
	return touched, m.store(f, m.long)
}

func editLocaFormat(f *sfntFile, rng *ev.Rand) ([]uint32, bool) {
	m, ok := loadGlyf(f)
	if !ok {
		return nil, false
	}
	return nil, m.store(f, !m.long)
}

// editMetricsForm rewrites hmtx (or vmtx) with another legal numberOfHMetrics: the shortest form (the
// constant tail of advances collapsed) or, if the table already is the shortest, the full long form.
func editMetricsForm(hea, mtx string) func(f *sfntFile, rng *ev.Rand) ([]uint32, bool) {
	return func(f *sfntFile, rng *ev.Rand) ([]uint32, bool) {
		h, t := f.tables[hea], f.tables[mtx]
		n := f.numGlyphs()
		if len(h) < 36 || n == 0 {
			return nil, false
		}
		k := int(binary.BigEndian.Uint16(h[34:]))
		if k < 1 || k > n || len(t) < 4*k+2*(n-k) {
			return nil, false
		}
		adv, sb := make([]uint16, n), make([]uint16, n)
		for i := 0; i < n; i++ {
			if i < k {
				adv[i], sb[i] = binary.BigEndian.Uint16(t[4*i:]), binary.BigEndian.Uint16(t[4*i+2:])
			} else {
				adv[i], sb[i] = adv[k-1], binary.BigEndian.Uint16(t[4*k+2*(i-k):])
			}
		}
		short := n
		for short > 1 && adv[short-2] == adv[n-1] {
			short--
		}
		var cands []int
		for _, c := range []int{short, n, short + (n-short)/2} {
			if c != k && c >= short && c <= n {
				cands = append(cands, c)
			}
		}
		if len(cands) == 0 {
			return nil, false
		}
		nk := cands[rng.Intn(len(cands))]
		out := make([]byte, 0, 4*nk+2*(n-nk))
		for i := 0; i < n; i++ {
			if i < nk {
				out = append(out, byte(adv[i]>>8), byte(adv[i]))
			}
			out = append(out, byte(sb[i]>>8), byte(sb[i]))
		}
		f.tables[mtx] = out
		binary.BigEndian.PutUint16(h[34:], uint16(nk))
		return nil, true
	}
}

func editHeadLsbFlag(f *sfntFile, rng *ev.Rand) ([]uint32, bool) {
	h := f.tables["head"]
	if len(h) < 54 {
		return nil, false
	}
	h[17] ^= 0x02 // flags bit 1: left sidebearing point at x = 0
	return nil, true
}

func editPostVersion3(f *sfntFile, rng *ev.Rand) ([]uint32, bool) {
	p := f.tables["post"]
	if len(p) < 32 || binary.BigEndian.Uint32(p) != 0x00020000 {
		return nil, false
	}
	p = p[:32]
	binary.BigEndian.PutUint32(p, 0x00030000)
	f.tables["post"] = p
	return nil, true
}

func editTypoMetricsBit(f *sfntFile, rng *ev.Rand) ([]uint32, bool) {
	o := f.tables["OS/2"]
	if len(o) < 78 {
		return nil, false
	}
	o[63] ^= 0x80 // fsSelection bit 7 USE_TYPO_METRICS
	return nil, true
}

func editDrop(tag string) func(f *sfntFile, rng *ev.Rand) ([]uint32, bool) {
	return func(f *sfntFile, rng *ev.Rand) ([]uint32, bool) {
		if _, ok := f.tables[tag]; !ok {
			return nil, false
		}
		delete(f.tables, tag)
		return nil, true
	}
}

const editMaxGlyphs = 4000

func smallGlyf(t *faceTraits) bool {
	return t.Glyf && !t.CFF && !t.CFF2 && t.NumGlyphs <= editMaxGlyphs && (t.Container == "ttf" || t.Container == "otf") && t.Index == 0
}

var editKinds = []editKind{
	{"glyf-composite-flags", false, func(t *faceTraits) bool { return smallGlyf(t) && t.NComposite >= 8 }, editCompositeFlags},
	{"glyf-composite-point-matching", false, func(t *faceTraits) bool { return smallGlyf(t) && t.NComposite >= 8 }, editCompositeAnchored},
	{"glyf-simple-reencode", true, func(t *faceTraits) bool { return smallGlyf(t) }, editSimpleReencode},
	{"loca-format", true, func(t *faceTraits) bool { return smallGlyf(t) }, editLocaFormat},
	{"hmtx-form", true, func(t *faceTraits) bool { return smallGlyf(t) }, editMetricsForm("hhea", "hmtx")},
	{"vmtx-form", true, func(t *faceTraits) bool { return smallGlyf(t) && t.Vmtx }, editMetricsForm("vhea", "vmtx")},
	{"head-lsb-at-x0-flag", true, func(t *faceTraits) bool { return smallGlyf(t) }, editHeadLsbFlag},
	{"post-version-3", false, func(t *faceTraits) bool { return smallGlyf(t) }, editPostVersion3},
	{"os2-use-typo-metrics-bit", false, func(t *faceTraits) bool { return smallGlyf(t) }, editTypoMetricsBit},
	{"drop-HVAR", false, func(t *faceTraits) bool { return smallGlyf(t) && t.Gvar && t.HVAR }, editDrop("HVAR")},
	{"drop-VVAR", false, func(t *faceTraits) bool { return smallGlyf(t) && t.Gvar && t.VVAR }, editDrop("VVAR")},
	{"drop-VORG", false, func(t *faceTraits) bool {
		return t.VORG && t.NumGlyphs <= editMaxGlyphs && (t.Container == "ttf" || t.Container == "otf") && t.Index == 0
	}, editDrop("VORG")},
	{"drop-avar", false, func(t *faceTraits) bool { return smallGlyf(t) && t.Gvar && t.Avar }, editDrop("avar")},
	{"drop-MVAR", false, func(t *faceTraits) bool { return smallGlyf(t) && t.Fvar && t.MVAR }, editDrop("MVAR")},
	{"cff2-two-font-dicts", true, func(t *faceTraits) bool {
		return t.CFF2 && t.Fvar && t.NumGlyphs <= editMaxGlyphs && (t.Container == "ttf" || t.Container == "otf") && t.Index == 0
	}, editCff2TwoFontDicts},
}

func editByName(name string) *editKind {
	for i := range editKinds {
		if editKinds[i].name == name {
			return &editKinds[i]
		}
	}
	return nil
}

// applyEdit returns the edited bytes of a corpus font.
func applyEdit(orig []byte, kind *editKind, seed uint64) (data []byte, touched []uint32, ok bool) {
	f, ok := parseSfnt(orig)
	if !ok {
		return nil, nil, false
	}
	touched, ok = kind.apply(f, ev.NewRand(seed))
	if !ok {
		return nil, nil, false
	}
	return f.build(), touched, true
}

// ---------------------------------------------------------------------------------------------
// CFF2: a second font dict and a second ItemVariationData
//
// editCff2TwoFontDicts turns a single-FD CFF2 table into a legal two-FD one without touching a
// charstring: FDArray = [new FD 0 whose private dict is just `vsindex 1`, the original FD as FD 1],
// FDSelect (format 0) maps every glyph to FD 1, and the variation store gets a second
// ItemVariationData with a different region count. Every glyph still blends with ItemVariationData 0
// (FD 1 does not name a vsindex), so no decoded value may change (value-preserving edit).
// Layout: header, new Top DICT, the original table from the global subr INDEX to its end (shifted,
// so CharStrings / Private offsets are rebased), then the new FDArray, private dict, FDSelect, vstore.

// dictTokens splits DICT data into (operands bytes, operator) pairs.
type dictEntry struct {
	operands []byte
	op       uint16 // 0x0Cxx for escaped
	nums     []int  // integer operands (reals: 0)
}

func parseDict(b []byte) ([]dictEntry, bool) {
	var out []dictEntry
	start, p := 0, 0
	var nums []int
	for p < len(b) {
		c := b[p]
		switch {
		case c == 28:
			if p+3 > len(b) {
				return nil, false
			}
			nums = append(nums, int(int16(binary.BigEndian.Uint16(b[p+1:]))))
			p += 3
		case c == 29:
			if p+5 > len(b) {
				return nil, false
			}
			nums = append(nums, int(int32(binary.BigEndian.Uint32(b[p+1:]))))
			p += 5
		case c == 30:
			p++
			for {
				if p >= len(b) {
					return nil, false
				}
				v := b[p]
				p++
				if v&0x0F == 0x0F || v>>4 == 0x0F {
					break
				}
			}
			nums = append(nums, 0)
		case c >= 32 && c <= 246:
			nums = append(nums, int(c)-139)
			p++
		case c >= 247 && c <= 250:
			if p+2 > len(b) {
				return nil, false
			}
			nums = append(nums, (int(c)-247)*256+int(b[p+1])+108)
			p += 2
		case c >= 251 && c <= 254:
			if p+2 > len(b) {
				return nil, false
			}
			nums = append(nums, -(int(c)-251)*256-int(b[p+1])-108)
			p += 2
		case c == 255:
			return nil, false
		default: // operator
			e := dictEntry{operands: b[start:p], nums: nums}
			if c == 12 {
				if p+2 > len(b) {
					return nil, false
				}
				e.op = 0x0C00 | uint16(b[p+1])
				p += 2
			} else {
				e.op = uint16(c)
				p++
			}
			out = append(out, e)
			start, nums = p, nil
		}
	}
	return out, start == len(b)
}

func dictInt(v int) []byte {
	return []byte{29, byte(v >> 24), byte(v >> 16), byte(v >> 8), byte(v)}
}

// index2Size returns the byte size of a CFF2 INDEX starting at b[off:].
func index2Size(b []byte, off int) (size, count int, ok bool) {
	n, ok := be32(b, off)
	if !ok {
		return 0, 0, false
	}
	if n == 0 {
		return 4, 0, true
	}
	if off+5 > len(b) {
		return 0, 0, false
	}
	os := int(b[off+4])
	if os < 1 || os > 4 {
		return 0, 0, false
	}
	lastOff := off + 5 + int(n)*os
	if lastOff+os > len(b) {
		return 0, 0, false
	}
	last := 0
	for k := 0; k < os; k++ {
		last = last<<8 | int(b[lastOff+k])
	}
	size = 5 + (int(n)+1)*os + last - 1
	return size, int(n), off+size <= len(b)
}

func index2Item(b []byte, off, i int) ([]byte, bool) {
	os := int(b[off+4])
	rd := func(k int) int {
		v := 0
		for j := 0; j < os; j++ {
			v = v<<8 | int(b[off+5+k*os+j])
		}
		return v
	}
	n := int(binary.BigEndian.Uint32(b[off:]))
	data := off + 5 + (n+1)*os - 1
	a, e := data+rd(i), data+rd(i+1)
	if a > e || e > len(b) {
		return nil, false
	}
	return b[a:e], true
}

func editCff2TwoFontDicts(f *sfntFile, rng *ev.Rand) ([]uint32, bool) {
	t := f.tables["CFF2"]
	n := f.numGlyphs()
	if len(t) < 5 || t[0] != 2 || n == 0 {
		return nil, false
	}
	hs, tl := int(t[2]), int(binary.BigEndian.Uint16(t[3:]))
	if hs+tl > len(t) {
		return nil, false
	}
	top, ok := parseDict(t[hs : hs+tl])
	if !ok {
		return nil, false
	}
	charStrings, fdArray, vstore := -1, -1, -1
	var keep []byte // operators other than the offsets, verbatim (FontMatrix)
	for _, e := range top {
		switch e.op {
		case 17:
			charStrings = e.nums[len(e.nums)-1]
		case 0x0C24:
			fdArray = e.nums[len(e.nums)-1]
		case 0x0C25:
			return nil, false // already has an FDSelect
		case 24:
			vstore = e.nums[len(e.nums)-1]
		default:
			keep = append(keep, e.operands...)
			if e.op >= 0x0C00 {
				keep = append(keep, 12, byte(e.op))
			} else {
				keep = append(keep, byte(e.op))
			}
		}
	}
	if charStrings <= 0 || fdArray <= 0 || vstore <= 0 || vstore+2 > len(t) {
		return nil, false
	}
	_, nfd, ok := index2Size(t, fdArray)
	if !ok || nfd != 1 {
		return nil, false
	}
	fdDict, ok := index2Item(t, fdArray, 0)
	if !ok {
		return nil, false
	}
	fde, ok := parseDict(fdDict)
	if !ok {
		return nil, false
	}
	privSize, privOff := -1, -1
	for _, e := range fde {
		if e.op == 18 && len(e.nums) == 2 {
			privSize, privOff = e.nums[0], e.nums[1]
		}
	}
	if privSize < 0 || privOff+privSize > len(t) {
		return nil, false
	}
	if pe, ok := parseDict(t[privOff : privOff+privSize]); ok {
		for _, e := range pe {
			if e.op == 22 {
				return nil, false // the original private dict names a vsindex itself
			}
		}
	} else {
		return nil, false
	}
	// variation store: add an ItemVariationData with another region count
	vsLen := int(binary.BigEndian.Uint16(t[vstore:]))
	if vstore+2+vsLen > len(t) || vsLen < 8 {
		return nil, false
	}
	vs := t[vstore+2 : vstore+2+vsLen]
	if binary.BigEndian.Uint16(vs) != 1 {
		return nil, false
	}
	regOff := int(binary.BigEndian.Uint32(vs[2:]))
	ivdCount := int(binary.BigEndian.Uint16(vs[6:]))
	if ivdCount < 1 || 8+4*ivdCount > len(vs) || regOff+4 > len(vs) {
		return nil, false
	}
	axisCount, regionCount := int(binary.BigEndian.Uint16(vs[regOff:])), int(binary.BigEndian.Uint16(vs[regOff+2:]))
	regLen := 4 + 6*axisCount*regionCount
	if regionCount < 1 || regOff+regLen > len(vs) {
		return nil, false
	}
	var ivds [][]byte
	for i := 0; i < ivdCount; i++ {
		o := int(binary.BigEndian.Uint32(vs[8+4*i:]))
		if o+6 > len(vs) {
			return nil, false
		}
		items, words, k := int(binary.BigEndian.Uint16(vs[o:])), int(binary.BigEndian.Uint16(vs[o+2:])), int(binary.BigEndian.Uint16(vs[o+4:]))
		l := 6 + 2*k + items*(k+words)
		if words&0x8000 != 0 || o+l > len(vs) {
			return nil, false
		}
		ivds = append(ivds, vs[o:o+l])
	}
	k0 := int(binary.BigEndian.Uint16(ivds[0][4:]))
	k1 := k0 + 1 + rng.Intn(2)
	if k0 >= 2 && rng.Intn(2) == 0 {
		k1 = k0 - 1
	}
	ivd := []byte{0, 0, 0, 0, byte(k1 >> 8), byte(k1)}
	for i := 0; i < k1; i++ {
		r := i % regionCount
		ivd = append(ivd, byte(r>>8), byte(r))
	}
	ivds = append(ivds[:1], append([][]byte{ivd}, ivds[1:]...)...) // new data is ItemVariationData 1
	nvs := make([]byte, 8+4*len(ivds))
	binary.BigEndian.PutUint16(nvs, 1)
	binary.BigEndian.PutUint32(nvs[2:], uint32(len(nvs)))
	binary.BigEndian.PutUint16(nvs[6:], uint16(len(ivds)))
	nvs = append(nvs, vs[regOff:regOff+regLen]...)
	for i, d := range ivds {
		binary.BigEndian.PutUint32(nvs[8+4*i:], uint32(len(nvs)))
		nvs = append(nvs, d...)
	}
	if ivdCount > 1 {
		// charstrings that say `vsindex 1` themselves would now name the new data
		return nil, false
	}
	// new layout
	newTopLen := len(keep) + 4*5 + 1 + 2 + 2 + 1
	delta := newTopLen - tl
	body := t[hs+tl:] // global subr INDEX and everything behind it
	base := 5 + newTopLen + len(body)
	fd0Priv := []byte{140, 22} // 1 vsindex
	fd0PrivOff := base
	fd0 := append(append(dictInt(len(fd0Priv)), dictInt(fd0PrivOff)...), 18)
	fd1 := append(append(dictInt(privSize), dictInt(privOff-hs+5+delta)...), 18)
	fdArrayOff := fd0PrivOff + len(fd0Priv)
	fda := []byte{0, 0, 0, 2, 1, 1, byte(1 + len(fd0)), byte(1 + len(fd0) + len(fd1))}
	fda = append(append(fda, fd0...), fd1...)
	fdSelectOff := fdArrayOff + len(fda)
	fds := make([]byte, 1+n)
	for i := 1; i <= n; i++ {
		fds[i] = 1
	}
	vstoreOff := fdSelectOff + len(fds)
	ntop := append([]byte(nil), keep...)
	ntop = append(append(ntop, dictInt(charStrings-hs+5+delta)...), 17)
	ntop = append(append(ntop, dictInt(fdArrayOff)...), 12, 36)
	ntop = append(append(ntop, dictInt(fdSelectOff)...), 12, 37)
	ntop = append(append(ntop, dictInt(vstoreOff)...), 24)
	if len(ntop) != newTopLen {
		return nil, false
	}
	out := []byte{2, 0, 5, byte(newTopLen >> 8), byte(newTopLen)}
	out = append(out, ntop...)
	out = append(out, body...)
	out = append(out, fd0Priv...)
	out = append(out, fda...)
	out = append(out, fds...)
	out = append(out, byte(len(nvs)>>8), byte(len(nvs)))
	out = append(out, nvs...)
	f.tables["CFF2"] = out
	return nil, true
}
