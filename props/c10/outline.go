package c10

import (
	"fmt"

	"github.com/go-text/typesetting/font"
	ot "github.com/go-text/typesetting/font/opentype"
	"golang.org/x/image/font/sfnt"

	"verif/internal/hbref"
)

// Canonical form of an outline, used to compare the port's GlyphOutline segments with the draw
// callbacks of libharfbuzz and with x/image's segments. The three producers differ only in how
// they *spell* the same closed contours; the following normalisations are applied to every side
// (each one is stated in check.json):
//
//	N1  close-path operations are dropped: libharfbuzz emits close_path after every contour, the
//	    port has no such segment (every contour of a filled glyph is implicitly closed);
//	N2  a move-to that is not followed by any drawing segment is dropped: the port's CFF reader
//	    emits one MoveTo per rmoveto/hmoveto/vmoveto operator, libharfbuzz emits a move-to lazily,
//	    only when the first drawing operator of the contour arrives;
//	N3  a contour-final LineTo that lands exactly on the contour's start point is dropped: it is the
//	    explicit spelling of the implicit closure. TrueType contours get it from both producers
//	    (also when it has zero length); CFF contours get it from both only when the pen is not yet
//	    at the start point, and the port's CFF2 reader does not emit it for the last contour
//	    (there is no endchar in CFF2) while libharfbuzz does.
//
// Nothing else is normalised: the number, kind, order and coordinates of all other segments, the
// start point of every contour and the order of contours must agree.
type cseg struct {
	op uint8 // 1 line, 2 quad, 3 cubic
	p  [3][2]float32
}

type contour struct {
	start  [2]float32
	noMove bool // drawing started without a move-to (never produced by a reference)
	segs   []cseg
}

type canonBuilder struct {
	out     []contour
	cur     *contour
	pending bool
}

func (b *canonBuilder) move(x, y float32) {
	b.flush()
	b.cur = &contour{start: [2]float32{x, y}}
	b.pending = true
}

func (b *canonBuilder) draw(s cseg) {
	if b.cur == nil {
		b.cur = &contour{noMove: true}
		b.pending = true
	}
	b.cur.segs = append(b.cur.segs, s)
}

func (b *canonBuilder) flush() {
	if b.cur != nil && len(b.cur.segs) > 0 {
		c := *b.cur
		// N3
		if n := len(c.segs); n > 0 && c.segs[n-1].op == 1 && c.segs[n-1].p[0] == c.start {
			c.segs = c.segs[:n-1]
		}
		b.out = append(b.out, c)
	}
	b.cur = nil
}

func canonPort(segs []font.Segment) []contour {
	var b canonBuilder
	for _, s := range segs {
		switch s.Op {
		case ot.SegmentOpMoveTo:
			b.move(s.Args[0].X, s.Args[0].Y)
		case ot.SegmentOpLineTo:
			b.draw(cseg{op: 1, p: [3][2]float32{{s.Args[0].X, s.Args[0].Y}}})
		case ot.SegmentOpQuadTo:
			b.draw(cseg{op: 2, p: [3][2]float32{{s.Args[0].X, s.Args[0].Y}, {s.Args[1].X, s.Args[1].Y}}})
		case ot.SegmentOpCubeTo:
			b.draw(cseg{op: 3, p: [3][2]float32{{s.Args[0].X, s.Args[0].Y}, {s.Args[1].X, s.Args[1].Y}, {s.Args[2].X, s.Args[2].Y}}})
		}
	}
	b.flush()
	return b.out
}

func canonHB(segs []hbref.Segment) []contour {
	var b canonBuilder
	for _, s := range segs {
		a := s.Args
		switch s.Op {
		case hbref.OpMove:
			b.move(a[0], a[1])
		case hbref.OpLine:
			b.draw(cseg{op: 1, p: [3][2]float32{{a[0], a[1]}}})
		case hbref.OpQuad:
			b.draw(cseg{op: 2, p: [3][2]float32{{a[0], a[1]}, {a[2], a[3]}}})
		case hbref.OpCubic:
			b.draw(cseg{op: 3, p: [3][2]float32{{a[0], a[1]}, {a[2], a[3]}, {a[4], a[5]}}})
		case hbref.OpClose:
			// N1; the contour ends here
			b.flush()
		}
	}
	b.flush()
	return b.out
}

// canonSfnt converts x/image segments (26.6 fixed, Y down, loaded at ppem = upem so that one pixel
// is one font unit) and shifts them by dx font units (the "xMin = lsb" convention, see
// compareSfntOutline).
func canonSfnt(segs sfnt.Segments, dx float32) []contour {
	var b canonBuilder
	pt := func(s sfnt.Segment, i int) [2]float32 {
		return [2]float32{float32(s.Args[i].X)/64 + dx, -float32(s.Args[i].Y) / 64}
	}
	for _, s := range segs {
		switch s.Op {
		case sfnt.SegmentOpMoveTo:
			p := pt(s, 0)
			b.move(p[0], p[1])
		case sfnt.SegmentOpLineTo:
			b.draw(cseg{op: 1, p: [3][2]float32{pt(s, 0)}})
		case sfnt.SegmentOpQuadTo:
			b.draw(cseg{op: 2, p: [3][2]float32{pt(s, 0), pt(s, 1)}})
		case sfnt.SegmentOpCubeTo:
			b.draw(cseg{op: 3, p: [3][2]float32{pt(s, 0), pt(s, 1), pt(s, 2)}})
		}
	}
	b.flush()
	return b.out
}

func absf(x float32) float32 {
	if x < 0 {
		return -x
	}
	return x
}

func nearPt(a, b [2]float32, tol float32) bool {
	return absf(a[0]-b[0]) <= tol && absf(a[1]-b[1]) <= tol
}

// sameOutline compares two canonical outlines; tol is the per-coordinate tolerance (0: exact).
// With a non-zero tolerance N3 is re-applied with that tolerance on the longer side.
func sameOutline(a, b []contour, tol float32) (bool, string) {
	if len(a) != len(b) {
		return false, fmt.Sprintf("%d contours vs %d", len(a), len(b))
	}
	for i := range a {
		ca, cb := a[i], b[i]
		if ca.noMove != cb.noMove {
			return false, fmt.Sprintf("contour %d: drawing without a move-to on one side", i)
		}
		if !nearPt(ca.start, cb.start, tol) {
			return false, fmt.Sprintf("contour %d: start %v vs %v", i, ca.start, cb.start)
		}
		sa, sb := ca.segs, cb.segs
		if tol > 0 && len(sa) != len(sb) {
			// a closing line that is zero-length on one side only within the tolerance
			if len(sa) == len(sb)+1 && sa[len(sa)-1].op == 1 && nearPt(sa[len(sa)-1].p[0], ca.start, tol) {
				sa = sa[:len(sa)-1]
			} else if len(sb) == len(sa)+1 && sb[len(sb)-1].op == 1 && nearPt(sb[len(sb)-1].p[0], cb.start, tol) {
				sb = sb[:len(sb)-1]
			}
		}
		if len(sa) != len(sb) {
			return false, fmt.Sprintf("contour %d: %d segments vs %d", i, len(sa), len(sb))
		}
		for j := range sa {
			if sa[j].op != sb[j].op {
				return false, fmt.Sprintf("contour %d segment %d: op %d vs %d", i, j, sa[j].op, sb[j].op)
			}
			for k := 0; k < int(sa[j].op); k++ {
				if !nearPt(sa[j].p[k], sb[j].p[k], tol) {
					return false, fmt.Sprintf("contour %d segment %d point %d: %v vs %v", i, j, k, sa[j].p[k], sb[j].p[k])
				}
			}
		}
	}
	return true, ""
}

func countSegs(cs []contour) int {
	n := 0
	for _, c := range cs {
		n += len(c.segs)
	}
	return n
}

// controlBox returns the box of all points (start, control and end points) of the outline.
func controlBox(cs []contour) (xmin, ymin, xmax, ymax float32, ok bool) {
	first := true
	add := func(p [2]float32) {
		if first {
			xmin, xmax, ymin, ymax = p[0], p[0], p[1], p[1]
			first = false
			return
		}
		if p[0] < xmin {
			xmin = p[0]
		}
		if p[0] > xmax {
			xmax = p[0]
		}
		if p[1] < ymin {
			ymin = p[1]
		}
		if p[1] > ymax {
			ymax = p[1]
		}
	}
	for _, c := range cs {
		add(c.start)
		for _, s := range c.segs {
			for k := 0; k < int(s.op); k++ {
				add(s.p[k])
			}
		}
	}
	return xmin, ymin, xmax, ymax, !first
}
