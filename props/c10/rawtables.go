package c10

// Minimal hand-written readers of a few OpenType tables, over the raw bytes that libharfbuzz hands
// out (hb_face_reference_table). They are used for stratification, labels, coordinate generation
// and for the "shift by lsb - xMin" convention of the x/image comparison; never as an oracle of a
// decoded value. They are deliberately independent of the port's parsers.

import "encoding/binary"

func be16(b []byte, off int) (uint16, bool) {
	if off < 0 || off+2 > len(b) {
		return 0, false
	}
	return binary.BigEndian.Uint16(b[off:]), true
}

func be32(b []byte, off int) (uint32, bool) {
	if off < 0 || off+4 > len(b) {
		return 0, false
	}
	return binary.BigEndian.Uint32(b[off:]), true
}

// ---- glyf ----

const (
	compArgsAreWords    = 0x0001
	compArgsAreXY       = 0x0002
	compHaveScale       = 0x0008
	compMoreComponents  = 0x0020
	compHaveXYScale     = 0x0040
	compHave2x2         = 0x0080
	compUseMyMetrics    = 0x0200
	compScaledOffset    = 0x0800
	compUnscaledOffset  = 0x1000
	glyphKindEmpty      = 0
	glyphKindSimple     = 1
	glyphKindComposite  = 2
	glyphKindOutOfRange = 3
)

type glyfGlyph struct {
	kind      uint8
	xMin      int16
	compFlags uint16 // OR of the flags of all components
	anchored  bool   // some component is positioned by matching points
}

type glyfInfo struct {
	glyphs []glyfGlyph
	// summary
	nComposite, nAnchored, nScaled, nScaledOffset, nUseMyMetrics, nEmpty int
}

// parseGlyf walks loca/glyf. ok=false when the tables are absent or inconsistent.
func parseGlyf(head, maxp, loca, glyf []byte) (glyfInfo, bool) {
	var out glyfInfo
	if len(head) < 54 || len(maxp) < 6 || len(loca) == 0 {
		return out, false
	}
	long := binary.BigEndian.Uint16(head[50:]) == 1
	n := int(binary.BigEndian.Uint16(maxp[4:]))
	offs := make([]int, n+1)
	for i := 0; i <= n; i++ {
		if long {
			v, ok := be32(loca, 4*i)
			if !ok {
				return out, false
			}
			offs[i] = int(v)
		} else {
			v, ok := be16(loca, 2*i)
			if !ok {
				return out, false
			}
			offs[i] = 2 * int(v)
		}
	}
	out.glyphs = make([]glyfGlyph, n)
	for i := 0; i < n; i++ {
		start, end := offs[i], offs[i+1]
		if end <= start || end > len(glyf) || end-start < 10 {
			out.glyphs[i].kind = glyphKindEmpty
			out.nEmpty++
			continue
		}
		g := glyf[start:end]
		nc := int16(binary.BigEndian.Uint16(g))
		out.glyphs[i].xMin = int16(binary.BigEndian.Uint16(g[2:]))
		if nc == 0 {
			// a glyph header without contours: libharfbuzz treats it as an empty glyph
			out.glyphs[i].kind = glyphKindEmpty
			out.nEmpty++
			continue
		}
		if nc > 0 {
			out.glyphs[i].kind = glyphKindSimple
			continue
		}
		out.glyphs[i].kind = glyphKindComposite
		out.nComposite++
		p := 10
		for {
			flags, ok := be16(g, p)
			if !ok {
				break
			}
			out.glyphs[i].compFlags |= flags
			if flags&compArgsAreXY == 0 {
				out.glyphs[i].anchored = true
			}
			p += 4
			if flags&compArgsAreWords != 0 {
				p += 4
			} else {
				p += 2
			}
			switch {
			case flags&compHaveScale != 0:
				p += 2
			case flags&compHaveXYScale != 0:
				p += 4
			case flags&compHave2x2 != 0:
				p += 8
			}
			if flags&compMoreComponents == 0 {
				break
			}
		}
		gi := out.glyphs[i]
		if gi.anchored {
			out.nAnchored++
		}
		if gi.compFlags&(compHaveScale|compHaveXYScale|compHave2x2) != 0 {
			out.nScaled++
		}
		if gi.compFlags&compScaledOffset != 0 {
			out.nScaledOffset++
		}
		if gi.compFlags&compUseMyMetrics != 0 {
			out.nUseMyMetrics++
		}
	}
	return out, true
}

func (gi *glyfInfo) kindOf(gid uint32) uint8 {
	if int(gid) >= len(gi.glyphs) {
		return glyphKindOutOfRange
	}
	return gi.glyphs[gid].kind
}

// ---- hmtx ----

type hmtxInfo struct {
	nLong   int
	nGlyphs int
	data    []byte
}

func parseHmtx(hhea, maxp, hmtx []byte) (hmtxInfo, bool) {
	if len(hhea) < 36 || len(maxp) < 6 || len(hmtx) == 0 {
		return hmtxInfo{}, false
	}
	return hmtxInfo{nLong: int(binary.BigEndian.Uint16(hhea[34:])), nGlyphs: int(binary.BigEndian.Uint16(maxp[4:])), data: hmtx}, true
}

// lsb returns the left side bearing of the glyph as stored (ok=false if not stored).
func (h hmtxInfo) lsb(gid uint32) (int16, bool) {
	i := int(gid)
	if i < h.nLong {
		v, ok := be16(h.data, 4*i+2)
		return int16(v), ok
	}
	v, ok := be16(h.data, 4*h.nLong+2*(i-h.nLong))
	return int16(v), ok
}

// ---- cmap ----

type cmapRecord struct {
	platform, encoding, format uint16
}

func parseCmapRecords(cmap []byte) []cmapRecord {
	n, ok := be16(cmap, 2)
	if !ok {
		return nil
	}
	var out []cmapRecord
	for i := 0; i < int(n); i++ {
		p, ok1 := be16(cmap, 4+8*i)
		e, ok2 := be16(cmap, 6+8*i)
		off, ok3 := be32(cmap, 8+8*i)
		if !ok1 || !ok2 || !ok3 {
			break
		}
		f, _ := be16(cmap, int(off))
		out = append(out, cmapRecord{p, e, f})
	}
	return out
}

// ---- avar ----

// avarKnees returns, per axis, the "from" coordinates (normalized, 2.14 as float) of the segment
// map knees other than -1, 0, 1.
func avarKnees(avar []byte) [][]float64 {
	if len(avar) < 8 {
		return nil
	}
	n := int(binary.BigEndian.Uint16(avar[6:]))
	p := 8
	out := make([][]float64, 0, n)
	for a := 0; a < n; a++ {
		cnt, ok := be16(avar, p)
		if !ok {
			break
		}
		p += 2
		var knees []float64
		for i := 0; i < int(cnt); i++ {
			from, ok := be16(avar, p)
			if !ok {
				break
			}
			p += 4
			v := int16(from)
			if v != 0 && v != 16384 && v != -16384 {
				knees = append(knees, float64(v)/16384)
			}
		}
		out = append(out, knees)
	}
	return out
}

// ---- COLR (version 1 clip boxes) ----

type clipBox struct{ xMin, yMin, xMax, yMax int16 }

// colrClipBoxes returns the static ClipBox (format 1 or the static part of format 2) of every glyph
// covered by the COLR v1 ClipList.
func colrClipBoxes(colr []byte) map[uint32]clipBox {
	ver, ok := be16(colr, 0)
	if !ok || ver != 1 {
		return nil
	}
	clipOff, ok := be32(colr, 22)
	if !ok || clipOff == 0 || int(clipOff)+5 > len(colr) {
		return nil
	}
	list := colr[clipOff:]
	n, ok := be32(list, 1)
	if !ok {
		return nil
	}
	out := map[uint32]clipBox{}
	for i := 0; i < int(n); i++ {
		p := 5 + 7*i
		start, ok1 := be16(list, p)
		end, ok2 := be16(list, p+2)
		if !ok1 || !ok2 || p+7 > len(list) {
			break
		}
		off := int(list[p+4])<<16 | int(list[p+5])<<8 | int(list[p+6])
		if off+9 > len(list) {
			continue
		}
		b := list[off:]
		box := clipBox{int16(binary.BigEndian.Uint16(b[1:])), int16(binary.BigEndian.Uint16(b[3:])), int16(binary.BigEndian.Uint16(b[5:])), int16(binary.BigEndian.Uint16(b[7:]))}
		for g := uint32(start); g <= uint32(end); g++ {
			out[g] = box
		}
	}
	return out
}

// ---- post ----

// postMaxNameIndex returns the largest glyphNameIndex of a version 2.0 post table (ok=false for
// other versions).
func postMaxNameIndex(post []byte) (uint16, bool) {
	v, ok := be32(post, 0)
	if !ok || v != 0x00020000 {
		return 0, false
	}
	n, ok := be16(post, 32)
	if !ok {
		return 0, false
	}
	var m uint16
	for i := 0; i < int(n); i++ {
		u, ok := be16(post, 34+2*i)
		if !ok {
			return 0, false
		}
		if u > m {
			m = u
		}
	}
	return m, true
}
