package c10

import (
	"path/filepath"
	"sort"
	"strings"
	"sync"

	"verif/internal/corpus"
	"verif/internal/ev"
	"verif/internal/hbref"
)

// faceTraits describes one face of the corpus as libharfbuzz sees it (table directory plus a scan
// of the composite glyph flags). Used for stratified sampling and labels only.
type faceTraits struct {
	File      string
	Index     int
	Container string // ttf otf ttc dfont woff ...
	NumGlyphs int
	Upem      int

	Glyf, CFF, CFF2, Fvar, Gvar, HVAR, VVAR, Avar, MVAR, Vmtx, VORG, Bitmap, Sbix, SVG bool
	NAxes                                                                       int
	ShortHmtx                                                                   bool // numberOfHMetrics < numGlyphs
	SymbolCmap                                                                  bool
	CmapFormats                                                                 map[uint16]bool
	Composite, Anchored, Scaled, ScaledOffset, UseMyMetrics                     bool
	NComposite                                                                  int
	Huge                                                                        bool
}

const hugeGlyphCount = 20000

var (
	traitsOnce sync.Once
	allTraits  []faceTraits
)

func has(f *hbref.Face, tag string) bool { return f.TableLen(hbref.Tag(tag)) > 0 }

func traitsOfFace(rel string, index int, hb *hbref.Face) faceTraits {
	t := faceTraits{File: rel, Index: index, NumGlyphs: hb.GlyphCount(), Upem: hb.Upem}
	t.Container = strings.TrimPrefix(strings.ToLower(filepath.Ext(rel)), ".")
	// a glyf table may legitimately be empty (every glyph empty): loca decides
	t.Glyf, t.CFF, t.CFF2 = has(hb, "glyf") || has(hb, "loca"), has(hb, "CFF "), has(hb, "CFF2")
	t.Fvar, t.Gvar, t.HVAR, t.VVAR = has(hb, "fvar"), has(hb, "gvar"), has(hb, "HVAR"), has(hb, "VVAR")
	t.Avar, t.MVAR, t.Vmtx, t.VORG = has(hb, "avar"), has(hb, "MVAR"), has(hb, "vmtx"), has(hb, "VORG")
	t.Bitmap = has(hb, "CBLC") || has(hb, "EBLC") || has(hb, "bloc")
	t.Sbix, t.SVG = has(hb, "sbix"), has(hb, "SVG ")
	t.NAxes = hb.AxisCount()
	t.Huge = t.NumGlyphs > hugeGlyphCount
	if hhea := hb.TableData(hbref.Tag("hhea")); len(hhea) >= 36 {
		t.ShortHmtx = int(uint16(hhea[34])<<8|uint16(hhea[35])) < t.NumGlyphs
	}
	t.CmapFormats = map[uint16]bool{}
	for _, r := range parseCmapRecords(hb.TableData(hbref.Tag("cmap"))) {
		t.CmapFormats[r.format] = true
		if r.platform == 3 && r.encoding == 0 {
			t.SymbolCmap = true
		}
	}
	if t.Glyf && !t.Huge {
		gi, ok := parseGlyf(hb.TableData(hbref.Tag("head")), hb.TableData(hbref.Tag("maxp")), hb.TableData(hbref.Tag("loca")), hb.TableData(hbref.Tag("glyf")))
		if ok {
			t.NComposite = gi.nComposite
			t.Composite, t.Anchored, t.Scaled = gi.nComposite > 0, gi.nAnchored > 0, gi.nScaled > 0
			t.ScaledOffset, t.UseMyMetrics = gi.nScaledOffset > 0, gi.nUseMyMetrics > 0
		}
	}
	return t
}

// corpusTraits lists every face of the corpus libharfbuzz can open (glyph count > 0), in
// deterministic order.
func corpusTraits() []faceTraits {
	traitsOnce.Do(func() {
		for _, rel := range corpus.Files() {
			data, err := corpus.Bytes(rel)
			if err != nil || len(data) == 0 {
				continue
			}
			n := hbref.FaceCount(data)
			if n <= 0 {
				ev.Label("corpus:file-refused-by-libharfbuzz")
				continue
			}
			for i := 0; i < n; i++ {
				hb := hbref.NewFace(data, i)
				if hb.GlyphCount() == 0 {
					ev.Label("corpus:face-refused-by-libharfbuzz")
					hb.Close()
					continue
				}
				allTraits = append(allTraits, traitsOfFace(rel, i, hb))
				hb.Close()
			}
		}
	})
	return allTraits
}

type stratum struct {
	name  string
	quota int
	pred  func(t *faceTraits) bool
}

// strata of the quick sample. Quotas add up to ~60; a face already chosen is not chosen again, so
// later (broader) strata fill with faces the narrow ones did not take.
var quickStrata = []stratum{
	// every gvar face with three or more axes is always part of the quick sample (multi-axis tuple
	// interactions exist only there; the corpus has about ten, all but one tiny)
	{"gvar-3-or-more-axes", 1 << 20, func(t *faceTraits) bool { return t.Fvar && t.Gvar && t.NAxes >= 3 && !t.Huge }},
	{"glyf-anchored-composite", 3, func(t *faceTraits) bool { return t.Anchored && !t.Huge }},
	{"glyf-scaled-composite", 3, func(t *faceTraits) bool { return t.Scaled && !t.Huge }},
	{"glyf-scaled-offset", 1, func(t *faceTraits) bool { return t.ScaledOffset && !t.Huge }},
	{"glyf-use-my-metrics", 2, func(t *faceTraits) bool { return t.UseMyMetrics && !t.Huge }},
	{"var-gvar-hvar", 4, func(t *faceTraits) bool { return t.Fvar && t.Gvar && t.HVAR && !t.Huge }},
	{"var-gvar-no-hvar", 3, func(t *faceTraits) bool { return t.Fvar && t.Gvar && !t.HVAR && !t.Huge }},
	{"var-avar", 3, func(t *faceTraits) bool { return t.Fvar && t.Avar && !t.Huge }},
	{"var-vvar", 1, func(t *faceTraits) bool { return t.Fvar && t.VVAR && !t.Huge }},
	{"var-mvar", 2, func(t *faceTraits) bool { return t.Fvar && t.MVAR && !t.Huge }},
	{"var-cff2", 3, func(t *faceTraits) bool { return t.CFF2 && !t.Huge }},
	{"var-composite", 2, func(t *faceTraits) bool { return t.Fvar && t.Gvar && t.Composite && !t.Huge }},
	{"cff", 7, func(t *faceTraits) bool { return t.CFF && !t.Huge }},
	{"vertical", 3, func(t *faceTraits) bool { return (t.Vmtx || t.VORG) && !t.Huge }},
	{"bitmap", 2, func(t *faceTraits) bool { return t.Bitmap && !t.Huge }},
	{"sbix", 1, func(t *faceTraits) bool { return t.Sbix && !t.Huge }},
	{"svg", 1, func(t *faceTraits) bool { return t.SVG && !t.Huge }},
	{"collection", 2, func(t *faceTraits) bool { return (t.Container == "ttc" || t.Container == "otc" || t.Container == "dfont") && !t.Huge }},
	{"short-hmtx", 3, func(t *faceTraits) bool { return t.ShortHmtx && !t.Huge }},
	{"cmap-symbol", 1, func(t *faceTraits) bool { return t.SymbolCmap && !t.Huge }},
	{"cmap-format-12", 2, func(t *faceTraits) bool { return t.CmapFormats[12] && !t.Huge }},
	{"cmap-format-other", 2, func(t *faceTraits) bool {
		return (t.CmapFormats[0] || t.CmapFormats[6] || t.CmapFormats[10] || t.CmapFormats[13]) && !t.CmapFormats[4] && !t.CmapFormats[12] && !t.Huge
	}},
	{"glyf-static", 8, func(t *faceTraits) bool { return t.Glyf && !t.Fvar && !t.Huge }},
	{"huge", 1, func(t *faceTraits) bool { return t.Huge }},
	{"any", 3, func(t *faceTraits) bool { return !t.Huge }},
}

// sampleFaces returns the faces to check: all of them in the thorough tier, a stratified sample
// drawn deterministically from the seed in the quick tier.
func sampleFaces(seed int64, thorough bool, label bool) []faceTraits {
	all := corpusTraits()
	if thorough {
		return all
	}
	rng := ev.NewRand(uint64(seed)*0x9E3779B97F4A7C15 + 0xC10)
	chosen := map[int]bool{}
	var out []int
	for _, st := range quickStrata {
		var cand []int
		for i := range all {
			if !chosen[i] && st.pred(&all[i]) {
				cand = append(cand, i)
			}
		}
		for k := 0; k < st.quota && len(cand) > 0; k++ {
			j := rng.Intn(len(cand))
			chosen[cand[j]] = true
			out = append(out, cand[j])
			if label {
				ev.Label("stratum:" + st.name)
			}
			cand = append(cand[:j], cand[j+1:]...)
		}
	}
	sort.Ints(out)
	res := make([]faceTraits, len(out))
	for i, j := range out {
		res[i] = all[j]
	}
	return res
}
