package c10

import (
	"fmt"
	"testing"
)

func TestDbgTraits(t *testing.T) {
	for _, tr := range corpusTraits() {
		if tr.Fvar && tr.NAxes >= 2 {
			fmt.Println(tr.File, tr.Index, "axes", tr.NAxes, "gvar", tr.Gvar, "glyphs", tr.NumGlyphs, "cff2", tr.CFF2, "hvar", tr.HVAR)
		}
	}
}
