// Package c11 decides property C11: character map lookup, enumeration and coverage agree.
//
// The laws (DESIGN.md §2 C11), all relative to the library's own definition "Lookup(r) reports ok":
//
//	(a) Iter yields each rune at most once and {(r,g) yielded} == {(r, Lookup(r)) : Lookup ok};
//	(b) RuneRanges, where implemented, describes the same rune set;
//	(c) the coverage built for font matching contains r iff Lookup(r) is ok, and its script set is
//	    exactly { LookupScript(r) : Lookup(r) ok } (Unknown included: the rune-by-rune path of
//	    newCoveragesFromCmap inserts LookupScript(r) for every rune, and scriptsFromRanges inserts
//	    language.Unknown explicitly, so Unknown is a member like any other script); for corpus
//	    files the footprint recorded by the scanning path (newFootprintFromLoader) must be the
//	    coverage of the face font.ParseTTC loads;
//	(d) RuneSet behaves as a set, and RuneSet/ScriptSet/LangSet survive serialisation
//	    (runeset_test.go).
//
// checkCmap evaluates (a)-(c) for one cmap and classifies every disagreement; each one is passed
// through the structural matchers of the listed known findings (matcher.excuses) and only the
// unexplained ones are kept; judge() adds the script-set verdict and returns the first unexplained
// disagreement, which fails the case.
//
// Files: c11_test.go (laws, matchers, corpus enumerator, replay), synth_test.go (binary cmap
// serialisers written from the OpenType specification, rapid generator, synthetic property),
// runeset_test.go (RuneSet state machine, ScriptSet/LangSet round trips), font_test.go (the synthetic
// table inside a minimal font file: loaded face, fresh-buffer and shared-buffer scans), seq_test.go
// (sequences of fonts through one directory scan: every footprint against the font scanned alone
// and against the loaded face).
package c11

import (
	"encoding/json"
	"fmt"
	"os"
	"path/filepath"
	"reflect"
	"sort"
	"strings"
	"testing"

	"github.com/go-text/typesetting/font"
	"github.com/go-text/typesetting/fontscan"
	"github.com/go-text/typesetting/language"

	"verif/internal/corpus"
	"verif/internal/ev"
)

func TestMain(m *testing.M) { ev.Main(m) }

const (
	maxRune  = 0x10FFFF
	nRunes   = maxRune + 1
	nPages   = nRunes >> 8
	iterCap  = nRunes + 0x10000 // each rune at most once: no lawful Iter yields more pairs for our inputs
	maxDiscs = 6                // discrepancies kept per class (counts are exact)
)

func u(r rune) string { return fmt.Sprintf("U+%04X", uint32(r)) }

// guard runs f (calls of the code under test only); a panic is returned instead of propagated.
func guard(f func()) (p any) {
	defer func() { p = recover() }()
	f()
	return nil
}

// ---- bit sets over the code space -------------------------------------------------------------

type bitset []uint64

func newBitset() bitset          { return make(bitset, (nRunes+63)/64) }
func (b bitset) has(r rune) bool { return b[uint32(r)>>6]&(1<<(uint32(r)&63)) != 0 }
func (b bitset) set(r rune)      { b[uint32(r)>>6] |= 1 << (uint32(r) & 63) }
func (b bitset) clear()          { clear(b) }
func inRange(r rune) bool        { return r >= 0 && r <= maxRune }
func (b bitset) setRange(lo, hi rune) { // both included, both in range
	for r := lo; r <= hi; r++ {
		if r&63 == 0 && r+63 <= hi {
			b[uint32(r)>>6] = ^uint64(0)
			r += 63
			continue
		}
		b.set(r)
	}
}

// scratch is the per-process working memory of checkCmap.
type scratch struct {
	lkOK   bitset   // Lookup(r) ok
	lkGID  []uint32 // glyph of Lookup(r) where ok
	itSeen bitset   // rune yielded by Iter
	itZero bitset   // rune yielded by Iter with glyph 0
	rrSet  bitset   // rune described by RuneRanges
	page   []bool   // pages of the universe (which runes are evaluated)
}

var scr *scratch

func getScratch() *scratch {
	if scr == nil {
		scr = &scratch{lkOK: newBitset(), lkGID: make([]uint32, nRunes), itSeen: newBitset(), itZero: newBitset(), rrSet: newBitset(), page: make([]bool, nPages)}
	}
	scr.lkOK.clear()
	scr.itSeen.clear()
	scr.itZero.clear()
	scr.rrSet.clear()
	return scr
}

// ---- discrepancies -----------------------------------------------------------------------------

// Classes of disagreement between the four views of a cmap.
const (
	dPanic         = "panic"
	dIterRunaway   = "iter-runaway"     // Iter does not terminate within iterCap pairs
	dCovRunaway    = "coverage-runaway" // the coverage is built by walking that same Iter (not evaluated)
	dIterDup       = "iter-dup"         // Iter yields a rune twice
	dIterNotLookup = "iter-not-lookup"  // Iter yields (r,g) but Lookup(r) is not ok
	dIterGlyph     = "iter-glyph"       // Iter yields (r,g), Lookup(r) = (g',true), g != g'
	dLookupNotIter = "lookup-not-iter"  // Lookup(r) ok but Iter never yields r
	dRangesExtra   = "ranges-extra"     // RuneRanges contains r, Lookup(r) not ok
	dRangesOrder   = "ranges-order"     // RuneRanges not sorted ascending / overlapping
	dRangesMissing = "ranges-missing"   // Lookup(r) ok, RuneRanges does not contain r
	dCovExtra      = "coverage-extra"   // coverage contains r, Lookup(r) not ok
	dCovMissing    = "coverage-missing"
	dScriptExtra   = "script-extra"   // script in the ScriptSet, no covered rune has it
	dScriptMissing = "script-missing" // a covered rune has the script, ScriptSet lacks it
	dScriptOrder   = "script-order"   // ScriptSet not strictly increasing
)

type disc struct {
	Class  string `json:"class"`
	Rune   rune   `json:"rune"`
	Glyph  uint32 `json:"glyph,omitempty"`  // Iter's glyph
	Lookup int64  `json:"lookup,omitempty"` // Lookup's glyph (when ok)
	Script string `json:"script,omitempty"`
	Msg    string `json:"msg"`
}

type report struct {
	discs   []disc         // unexplained discrepancies (first maxDiscs of each class), in order of discovery
	counts  map[string]int // every discrepancy, by class
	excused map[string]int // those matched by a listed known finding, by class
	m       *matcher       // nil: nothing is excused
	// facts about the cmap used by the matchers and the evidence labels
	typeName   string // %T of the Cmap (e.g. font.cmap4, font.remaperPUASimp)
	innerType  string // %T of the wrapped cmap for remappers, else typeName
	ranger     bool
	nLookup    int  // number of runes (in the evaluated universe) with Lookup ok
	nIter      int  // pairs yielded by Iter
	covDiffers bool // coverage rune set differs from Lookup on at least one rune
	// script material: the ScriptSet of the coverage, the scripts of the runes Lookup maps and
	// the scripts of the runes the coverage contains (script -> first such rune)
	scripts     fontscan.ScriptSet
	wantLookup  map[language.Script]rune
	wantCovered map[language.Script]rune
}

// add records a discrepancy. Every single one goes through the known-finding matchers (so that a
// defect hidden behind many excused discrepancies of the same class is still reported); only the
// unexplained ones are kept.
func (rp *report) add(d disc) {
	rp.counts[d.Class]++
	if rp.m != nil && rp.m.excuses(&d) {
		rp.excused[d.Class]++
		return
	}
	if rp.counts[d.Class]-rp.excused[d.Class] <= maxDiscs {
		rp.discs = append(rp.discs, d)
	}
}

func typeNames(cm font.Cmap) (typeName, innerType string) {
	inner, _ := innerCmap(cm)
	return fmt.Sprintf("%T", cm), fmt.Sprintf("%T", inner)
}

// innerCmap unwraps the legacy remappers (struct{ Cmap }) by reflection.
func innerCmap(cm font.Cmap) (font.Cmap, bool) {
	v := reflect.ValueOf(cm)
	if v.Kind() == reflect.Struct && v.NumField() == 1 && v.Type().Field(0).Name == "Cmap" && v.Type().Field(0).Anonymous {
		if in, ok := v.Field(0).Interface().(font.Cmap); ok && in != nil {
			return in, true
		}
	}
	return cm, false
}

// universe tells which pages (256 runes each) are evaluated rune by rune; all = every page
// (exhaustive over all 0x110000 code points).
type universe struct {
	all  bool
	page []bool
}

func (un *universe) has(p int) bool { return un.all || un.page[p] }
func (un *universe) mark(lo, hi int64) {
	if un.all {
		return
	}
	if lo < 0 {
		lo = 0
	}
	if hi > maxRune {
		hi = maxRune
	}
	for p := lo >> 8; p <= hi>>8; p++ {
		un.page[p] = true
	}
}

// checkCmap evaluates laws (a), (b), (c) of one cmap over the universe and returns every
// disagreement. hint lists extra (lo,hi) intervals to evaluate when the universe is not exhaustive;
// the BMP, the pages of every rune yielded by Iter and of every RuneRanges bound are always in.
func checkCmap(cm font.Cmap, exhaustive bool, hint [][2]int64, m *matcher) (rp *report) {
	return checkCmapIn(cm, exhaustive, false, hint, m)
}

// checkCmapIn: with narrow set (small-table enumerator) the BMP is not evaluated as a whole, only
// the hinted intervals and the pages of what Iter and RuneRanges report.
func checkCmapIn(cm font.Cmap, exhaustive, narrow bool, hint [][2]int64, m *matcher) (rp *report) {
	rp = &report{counts: map[string]int{}, excused: map[string]int{}, m: m}
	rp.typeName, rp.innerType = typeNames(cm)
	stage := "start"
	defer func() {
		if r := recover(); r != nil {
			rp.add(disc{Class: dPanic, Msg: fmt.Sprintf("panic during %s: %v", stage, r)})
		}
	}()
	s := getScratch()
	un := &universe{all: exhaustive, page: s.page}
	if !exhaustive {
		clear(s.page)
		if !narrow {
			un.mark(0, 0xFFFF)
		}
		for _, h := range hint {
			un.mark(h[0], h[1])
		}
	}

	// ---- Iter: collect (first pass only marks the universe and detects duplicates)
	stage = "Iter"
	type pair struct {
		r rune
		g font.GID
	}
	var outside []pair // yielded runes outside 0..0x10FFFF
	var pairs []pair
	it := cm.Iter()
	for it.Next() {
		r, g := it.Char()
		rp.nIter++
		if rp.nIter > iterCap {
			rp.add(disc{Class: dIterRunaway, Rune: r, Msg: fmt.Sprintf("Iter yielded more than %d pairs (last %s)", iterCap, u(r))})
			break
		}
		if !inRange(r) {
			outside = append(outside, pair{r, g})
			continue
		}
		un.mark(int64(r), int64(r))
		if g == 0 {
			s.itZero.set(r)
		}
		if s.itSeen.has(r) {
			rp.add(disc{Class: dIterDup, Rune: r, Glyph: uint32(g), Msg: fmt.Sprintf("Iter yields %s more than once", u(r))})
		}
		s.itSeen.set(r)
		pairs = append(pairs, pair{r, g})
	}
	if len(outside) > 0 {
		seen := map[rune]bool{}
		for _, p := range outside {
			if seen[p.r] {
				rp.add(disc{Class: dIterDup, Rune: p.r, Glyph: uint32(p.g), Msg: fmt.Sprintf("Iter yields %s more than once", u(p.r))})
			}
			seen[p.r] = true
		}
	}

	// ---- RuneRanges
	stage = "RuneRanges"
	var ranges [][2]rune
	ranger, isRanger := cm.(font.CmapRuneRanger)
	rp.ranger = isRanger
	if isRanger {
		ranges = ranger.RuneRanges(nil)
		for i, ra := range ranges {
			// the consumer (scriptsFromRanges: "ranges, which must be sorted (in ascending order)",
			// and the page-by-page construction of the rune set) needs sorted, disjoint ranges
			if i > 0 && ra[0] <= ranges[i-1][1] && ranges[i-1][0] <= ranges[i-1][1] {
				rp.add(disc{Class: dRangesOrder, Rune: ra[0], Msg: fmt.Sprintf("RuneRanges is not sorted and disjoint: [%s,%s] follows [%s,%s]", u(ra[0]), u(ra[1]), u(ranges[i-1][0]), u(ranges[i-1][1]))})
			}
			lo, hi := int64(ra[0]), int64(ra[1])
			un.mark(lo, lo)
			un.mark(hi, hi)
			if lo > hi {
				continue // describes no rune
			}
			if lo < 0 {
				lo = 0
			}
			if hi > maxRune {
				hi = maxRune
			}
			if lo <= hi {
				un.mark(lo, hi)
				s.rrSet.setRange(rune(lo), rune(hi))
			}
		}
	}

	// ---- coverage (through the verif hook: newCoveragesFromCmap)
	stage = "newCoveragesFromCmap"
	var (
		rs fontscan.RuneSet
		ss fontscan.ScriptSet
	)
	covSkipped := false
	if rp.counts[dIterRunaway] > 0 && !isRanger {
		// newCoveragesFromCmap would walk the same Iter to its end (up to 2^32 pairs): the
		// harness does not wait for it
		covSkipped = true
		rp.add(disc{Class: dCovRunaway, Msg: "the coverage is built by walking Iter, which yields more pairs than there are code points"})
	} else {
		rs, ss = fontscan.VerifCoverages(cm)
	}

	// ---- Lookup over the universe, compared with the three other views
	stage = "Lookup"
	wantScripts := map[language.Script]rune{} // script -> first rune mapped by Lookup having it
	covScripts := map[language.Script]rune{}  // script -> first rune of the coverage having it
	note := func(m map[language.Script]rune, r rune) {
		sc := language.LookupScript(r)
		if _, has := m[sc]; !has {
			m[sc] = r
		}
	}
	for p := 0; p < nPages; p++ {
		if !un.has(p) {
			continue
		}
		for r := rune(p << 8); r < rune(p+1)<<8; r++ {
			g, ok := cm.Lookup(r)
			if ok {
				s.lkOK.set(r)
				s.lkGID[r] = uint32(g)
				rp.nLookup++
				if !s.itSeen.has(r) {
					rp.add(disc{Class: dLookupNotIter, Rune: r, Lookup: int64(g), Msg: fmt.Sprintf("Lookup(%s) = (%d, true) but Iter never yields the rune", u(r), g)})
				}
				note(wantScripts, r)
			}
			if isRanger {
				if in := s.rrSet.has(r); in && !ok {
					rp.add(disc{Class: dRangesExtra, Rune: r, Msg: fmt.Sprintf("RuneRanges contains %s but Lookup reports no glyph", u(r))})
				} else if !in && ok {
					rp.add(disc{Class: dRangesMissing, Rune: r, Lookup: int64(g), Msg: fmt.Sprintf("Lookup(%s) = (%d, true) but RuneRanges does not contain the rune", u(r), g)})
				}
			}
			if covSkipped {
				continue
			}
			in := rs.Contains(r)
			if in {
				note(covScripts, r)
			}
			if in && !ok {
				rp.covDiffers = true
				rp.add(disc{Class: dCovExtra, Rune: r, Msg: fmt.Sprintf("coverage contains %s but Lookup reports no glyph", u(r))})
			} else if !in && ok {
				rp.covDiffers = true
				rp.add(disc{Class: dCovMissing, Rune: r, Lookup: int64(g), Msg: fmt.Sprintf("Lookup(%s) = (%d, true) but the coverage does not contain the rune", u(r), g)})
			}
		}
	}
	// Iter pairs against Lookup (in yield order, so that the first reported is the first yielded)
	stage = "Iter vs Lookup"
	for _, p := range pairs {
		if !s.lkOK.has(p.r) {
			rp.add(disc{Class: dIterNotLookup, Rune: p.r, Glyph: uint32(p.g), Msg: fmt.Sprintf("Iter yields (%s, %d) but Lookup reports no glyph", u(p.r), p.g)})
		} else if s.lkGID[p.r] != uint32(p.g) {
			rp.add(disc{Class: dIterGlyph, Rune: p.r, Glyph: uint32(p.g), Lookup: int64(s.lkGID[p.r]), Msg: fmt.Sprintf("Iter yields (%s, %d) but Lookup gives glyph %d", u(p.r), p.g, s.lkGID[p.r])})
		}
	}
	for _, p := range outside {
		g, ok := cm.Lookup(p.r)
		if ok {
			// a code beyond U+10FFFF that Lookup maps: LookupScript gives it the Unknown script;
			// the coverage cannot be probed there (RuneSet pages are 16 bits), so the rune is
			// taken as covered for the script expectation
			note(wantScripts, p.r)
			note(covScripts, p.r)
		}
		if !ok {
			rp.add(disc{Class: dIterNotLookup, Rune: p.r, Glyph: uint32(p.g), Msg: fmt.Sprintf("Iter yields (%s, %d) but Lookup reports no glyph", u(p.r), p.g)})
		} else if g != p.g {
			rp.add(disc{Class: dIterGlyph, Rune: p.r, Glyph: uint32(p.g), Lookup: int64(g), Msg: fmt.Sprintf("Iter yields (%s, %d) but Lookup gives glyph %d", u(p.r), p.g, g)})
		}
	}

	if covSkipped {
		covScripts = wantScripts
		for sc := range wantScripts {
			ss = append(ss, sc)
		}
		sort.Slice(ss, func(i, j int) bool { return ss[i] < ss[j] })
	}
	rp.scripts, rp.wantLookup, rp.wantCovered = ss, wantScripts, covScripts
	return rp
}

// ---- known findings: structural matchers --------------------------------------------------------
//
// Each matcher identifies a defect by the structure of the cmap and of the disagreement, never by
// the input's identity. A discrepancy that no listed finding matches fails the case.

const (
	// Iter yields a rune with glyph 0 (and RuneRanges, hence the coverage, contain it) although
	// Lookup reports "no glyph" for it. On the pinned tree this is the format 4 segment using
	// idRangeOffset whose glyphIdArray entry is 0; if Lookup is changed to treat every glyph 0 as
	// "not found" (proposed_fixes/c10-cmap-glyph0-found.patch) it is every format, including the
	// U+FFFF sentinel of format 4.
	kfGlyphZero = "C11-glyph0-entries-enumerated"
	// legacy remappers on a (3,0) subtable (symbol, simplified/traditional Arabic font page):
	// Lookup maps additional runes that Iter, hence the coverage, do not contain.
	kfRemap = "C11-remapped-runes-not-enumerated"
	// scriptsFromRanges adds language.Unknown when a range reaches the last entry of
	// language.ScriptRanges, although no covered rune has an unknown script.
	kfScriptsLast = "C11-scripts-unknown-after-last-range"
	// format 4/12/13 segment or group with start > end: Lookup never matches it, Iter walks
	// from start until the 16/32-bit difference wraps, RuneRanges reports the inverted pair.
	kfInverted = "C11-inverted-segment-enumerated"
	// ProcessCmap accepts format 4/12/13 subtables whose segments/groups are not sorted or
	// overlap, and format 10/12/13 codes beyond U+10FFFF; bisection, enumeration and the 16-bit
	// pages of the coverage then disagree.
	kfUnordered = "C11-unordered-groups-accepted"
	// cmap format 4, idRangeOffset segment with idDelta != 0: Lookup adds the delta modulo 65536,
	// Iter adds it in 32 bits, so Iter's glyph is Lookup's glyph + 0x10000.
	kfCmap4Wide = "C11-cmap4-iter-delta-not-modulo"
	// RuneSet.includes reports false when the included set carries an empty page left by Delete.
	kfIncludesEmpty = "C11-includes-empty-page"
	// newFootprintFromLoader tests the error of ParseOs2 the wrong way round, so a scanned font
	// never gets its OS/2 font page: legacy Arabic fonts are scanned with the symbol remapping.
	kfScanFontPage = "C11-scan-ignores-font-page"
)

// shape is what the harness knows about the structure of the cmap under test.
type shape struct {
	format    int  // format of the selected subtable (-1 when unknown)
	remapped  bool // selected through the (3,0) symbol path: wrapped in a remapper
	inverted  bool // some segment/group has start > end
	unordered bool // segments/groups unsorted or overlapping, or codes beyond U+10FFFF
}

func shapeOfType(typeName, innerType string) shape {
	sh := shape{format: -1}
	switch innerType {
	case "font.cmap0":
		sh.format = 0
	case "font.cmap4":
		sh.format = 4
	case "font.cmap6or10":
		sh.format = 6
	case "font.cmap12":
		sh.format = 12
	case "font.cmap13":
		sh.format = 13
	}
	sh.remapped = strings.HasPrefix(typeName, "font.remaper")
	return sh
}

// scriptDiscs compares the ScriptSet with an expectation (script -> witness rune).
func scriptDiscs(ss fontscan.ScriptSet, want map[language.Script]rune, what string) (out []disc) {
	have := map[language.Script]bool{}
	for i, sc := range ss {
		have[sc] = true
		if i > 0 && ss[i-1] >= sc {
			out = append(out, disc{Class: dScriptOrder, Script: sc.String(), Msg: fmt.Sprintf("ScriptSet is not strictly increasing at index %d (%q after %q)", i, sc.String(), ss[i-1].String())})
		}
		if _, w := want[sc]; !w {
			out = append(out, disc{Class: dScriptExtra, Script: sc.String(), Msg: fmt.Sprintf("ScriptSet contains %q but no rune %s has that script", sc.String(), what)})
		}
	}
	var missing []language.Script
	for sc := range want {
		if !have[sc] {
			missing = append(missing, sc)
		}
	}
	sort.Slice(missing, func(i, j int) bool { return missing[i] < missing[j] })
	for _, sc := range missing {
		out = append(out, disc{Class: dScriptMissing, Rune: want[sc], Script: sc.String(), Msg: fmt.Sprintf("%s (script %q) is a rune %s but the ScriptSet lacks that script", u(want[sc]), sc.String(), what)})
	}
	return out
}

// matcher applies the structural matchers of the listed known findings to single discrepancies.
type matcher struct {
	sh         shape
	matched    map[string]bool
	covExcused bool // a coverage/Lookup disagreement was matched by a known finding
}

func newMatcher(sh shape) *matcher { return &matcher{sh: sh, matched: map[string]bool{}} }

func (m *matcher) use(id string) bool {
	if ev.Known(id) {
		m.matched[id] = true
		return true
	}
	return false
}

func (m *matcher) ids() []string {
	ids := make([]string, 0, len(m.matched))
	for id := range m.matched {
		ids = append(ids, id)
	}
	sort.Strings(ids)
	return ids
}

// excuses tells whether a rune-level discrepancy is matched by a listed known finding.
func (m *matcher) excuses(d *disc) bool {
	s, sh := scr, m.sh
	if d.Class == dPanic {
		return false
	}
	zeroByIter := inRange(d.Rune) && s.itZero.has(d.Rune) // Iter itself yields the rune with glyph 0
	ok := false
	switch d.Class {
	case dIterNotLookup, dRangesExtra, dCovExtra:
		ok = zeroByIter && m.use(kfGlyphZero)
	case dIterDup:
		// ... and a remapper that finds the rune unmapped by the wrapped cmap yields it again
		ok = sh.remapped && zeroByIter && m.use(kfGlyphZero)
	case dLookupNotIter, dCovMissing, dRangesMissing:
		// remapped rune: the wrapped cmap does not map the rune itself
		ok = sh.remapped && m.use(kfRemap)
	case dIterGlyph:
		ok = sh.format == 4 && d.Glyph > 0xFFFF && int64(d.Glyph&0xFFFF) == d.Lookup && m.use(kfCmap4Wide) ||
			sh.remapped && d.Glyph == 0 && zeroByIter && m.use(kfGlyphZero)
	}
	if !ok && sh.inverted {
		ok = m.use(kfInverted)
	}
	if !ok && sh.unordered {
		ok = m.use(kfUnordered)
	}
	if ok && (d.Class == dCovExtra || d.Class == dCovMissing || d.Class == dCovRunaway) {
		m.covExcused = true
	}
	return ok
}

// judge returns the first unexplained discrepancy of a report (nil when the case passes) and the
// ids of the findings that matched. The rune-level discrepancies were filtered when recorded; the
// script set is judged here.
func judge(rp *report) (*disc, []string) {
	m := rp.m
	var first *disc
	if len(rp.discs) > 0 {
		first = &rp.discs[0]
	}
	// Script set: exactly the scripts of the runes Lookup maps. When coverage and Lookup differ for
	// a listed reason, the weaker predicate "exactly the scripts of the runes of the coverage"
	// (Footprint.Scripts: "the set of scripts deduced from Runes") is demanded instead.
	want, what := rp.wantLookup, "mapped by Lookup"
	if m.covExcused {
		want, what = rp.wantCovered, "contained in the coverage"
	}
	for _, d := range scriptDiscs(rp.scripts, want, what) {
		d := d
		rp.counts[d.Class]++
		ok := false
		if d.Class == dScriptExtra && d.Script == language.Unknown.String() && rp.ranger && reachesLastScriptRange() {
			ok = m.use(kfScriptsLast)
		}
		if !ok && d.Class != dScriptOrder && (m.sh.inverted && m.use(kfInverted) || m.sh.unordered && m.use(kfUnordered)) {
			ok = true // scriptsFromRanges requires sorted ranges
		}
		if ok {
			rp.excused[d.Class]++
		} else if first == nil {
			first = &d
		}
	}
	return first, m.ids()
}

// reachesLastScriptRange: some rune described by RuneRanges lies at or after the start of the last
// entry of language.ScriptRanges.
func reachesLastScriptRange() bool {
	last := language.ScriptRanges[len(language.ScriptRanges)-1]
	for r := last.Start; r <= maxRune; r++ {
		if scr.rrSet.has(r) {
			return true
		}
	}
	return false
}

// ---- corpus enumerator -------------------------------------------------------------------------

type corpusCase struct {
	Scan  bool           `json:"directory_scan,omitempty"` // found by the directory scan of the whole corpus
	File  string         `json:"file"`
	Index int            `json:"index"`
	Type  string         `json:"cmap_type,omitempty"`
	Disc  *disc          `json:"discrepancy,omitempty"`
	Count map[string]int `json:"discrepancy_counts,omitempty"`
}

func checkCorpusFace(t ev.TB, file string, index int, face *font.Face) (nontrivial bool) {
	cm := face.Cmap
	sh := shapeOfType(typeNames(cm))
	rp := checkCmap(cm, true, nil, newMatcher(sh))
	// NominalGlyph is the face's view of Lookup: it must be the same function
	for _, r := range []rune{0x20, 0x41, 0x627, 0x4E00, 0xF020, 0xFFFF, 0x1F600, 0x10FFFF} {
		g1, ok1 := face.NominalGlyph(r)
		g2, ok2 := cm.Lookup(r)
		if g1 != g2 || ok1 != ok2 {
			ev.Fail(t, "corpus", corpusCase{File: file, Index: index, Type: rp.typeName}, "%s[%d]: NominalGlyph(%s)=(%d,%v) but Cmap.Lookup=(%d,%v)", file, index, u(r), g1, ok1, g2, ok2)
		}
	}
	first, ids := judge(rp)
	for _, id := range ids {
		ev.Excluded(id)
	}
	ev.Label("type:" + rp.typeName)
	if rp.ranger {
		ev.Label("ranger")
	}
	if first != nil {
		ev.Fail(t, "corpus", corpusCase{File: file, Index: index, Type: rp.typeName, Disc: first, Count: rp.counts},
			"%s[%d] (%s): %s  [all discrepancies: %v, of which matched by listed findings: %v]", file, index, rp.typeName, first.Msg, rp.counts, rp.excused)
	}
	if ev.WantSample() {
		ev.Sample(map[string]any{"file": file, "index": index, "cmap_type": rp.typeName, "runes_mapped": rp.nLookup, "iter_pairs": rp.nIter, "ranger": rp.ranger})
	}
	return sh.format != 0
}

// footprintLoaderCheck: the coverage recorded by the scanning path (newFootprintFromLoader: raw
// tables → ParseCmap → ProcessCmap → newCoveragesFromCmap) must be the coverage of the loaded face.
func footprintLoaderCheck(t ev.TB, file string, faces []*font.Face) {
	lds, err := corpus.Loaders(file)
	if err != nil || len(lds) != len(faces) {
		return
	}
	for i, ld := range lds {
		fp, err := func() (fp fontscan.Footprint, err error) {
			defer func() {
				if r := recover(); r != nil {
					err = fmt.Errorf("panic: %v", r)
				}
			}()
			return fontscan.VerifFootprintFromLoader(ld, false)
		}()
		if err != nil {
			ev.Label("footprint_loader_error")
			continue
		}
		rs, ss := fontscan.VerifCoverages(faces[i].Cmap)
		ev.Label("footprint_loader_compared")
		if string(fontscan.VerifRuneSetSerialize(rs)) == string(fontscan.VerifRuneSetSerialize(fp.Runes)) &&
			string(fontscan.VerifScriptSetSerialize(ss)) == string(fontscan.VerifScriptSetSerialize(fp.Scripts)) {
			continue
		}
		// name the first rune on which the scanned footprint disagrees with the loaded face
		for r := rune(0); r <= maxRune; r++ {
			_, ok := faces[i].NominalGlyph(r)
			if fp.Runes.Contains(r) == ok {
				continue
			}
			tn := fmt.Sprintf("%T", faces[i].Cmap)
			if _, remapped := innerCmap(faces[i].Cmap); remapped && ev.Known(kfRemap) {
				ev.Excluded(kfRemap)
				break
			}
			if strings.HasPrefix(tn, "font.remaperPUA") && ev.Known(kfScanFontPage) {
				ev.Excluded(kfScanFontPage)
				break
			}
			ev.Fail(t, "corpus", corpusCase{File: file, Index: i, Type: tn},
				"%s[%d] (%s): the scanned footprint (newFootprintFromLoader) contains(%s)=%v but the loaded face's NominalGlyph reports ok=%v", file, i, tn, u(r), !ok, ok)
		}
	}
}

// TestPropCorpus: every face of the corpus, exhaustively over all 0x110000 code points.
func TestPropCorpus(t *testing.T) {
	shard, n := ev.Shard()
	var total, nt int64
	for fi, file := range corpus.Files() {
		if fi%n != shard {
			continue
		}
		faces, err := corpus.Faces(file)
		if err != nil {
			ev.Label("unloadable_file")
			continue
		}
		for i, f := range faces {
			total++
			if checkCorpusFace(t, file, i, f) {
				nt++
			}
		}
		footprintLoaderCheck(t, file, faces)
	}
	if shard == 0 {
		scanCorpusCheck(t)
	}
	ev.CaseEnum(total, nt)
}

// ---- replay ------------------------------------------------------------------------------------

func replayFile(t *testing.T, path string) {
	check, raw, err := ev.LoadReplay(path)
	if err != nil {
		t.Fatalf("cannot load replay %s: %v", path, err)
	}
	switch check {
	case "corpus":
		var c corpusCase
		if err := json.Unmarshal(raw, &c); err != nil {
			t.Fatalf("%s: %v", path, err)
		}
		if c.File != "" {
			faces, err := corpus.Faces(c.File)
			if err != nil || c.Index >= len(faces) {
				t.Fatalf("%s: cannot load %s[%d]: %v", path, c.File, c.Index, err)
			}
			checkCorpusFace(t, c.File, c.Index, faces[c.Index])
			footprintLoaderCheck(t, c.File, faces)
		}
		if c.Scan {
			scanCorpusCheck(t)
		}
	case "synth":
		var c synthCase
		if err := json.Unmarshal(raw, &c); err != nil {
			t.Fatalf("%s: %v", path, err)
		}
		checkSynth(t, &c)
	case "scanseq":
		var c seqCase
		if err := json.Unmarshal(raw, &c); err != nil {
			t.Fatalf("%s: %v", path, err)
		}
		seqDir = t.TempDir()
		checkScanSequence(t, &c)
	case "runeset":
		var c runeSetCase
		if err := json.Unmarshal(raw, &c); err != nil {
			t.Fatalf("%s: %v", path, err)
		}
		checkRuneSetOps(t, &c)
	case "scriptset":
		var c scriptSetCase
		if err := json.Unmarshal(raw, &c); err != nil {
			t.Fatalf("%s: %v", path, err)
		}
		checkScriptSet(t, &c)
	case "langset":
		var c langSetCase
		if err := json.Unmarshal(raw, &c); err != nil {
			t.Fatalf("%s: %v", path, err)
		}
		checkLangSet(t, &c)
	default:
		t.Fatalf("%s: unknown check %q", path, check)
	}
}

// TestReplay re-runs saved cases through the same property functions, without rapid.
func TestReplay(t *testing.T) {
	if p := ev.ReplayPath(); p != "" {
		replayFile(t, p)
		return
	}
	dir := os.Getenv("VERIF_REPLAY_DIR")
	files, _ := filepath.Glob(filepath.Join(dir, "*.json"))
	sort.Strings(files)
	for _, f := range files {
		f := f
		t.Run(filepath.Base(f), func(t *testing.T) { replayFile(t, f) })
	}
}
