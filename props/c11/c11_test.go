// Package c11 decides property C11: character map lookup, enumeration and coverage agree.
//
// The laws (DESIGN.md §2 C11), all relative to the library's own definition "Lookup(r) reports ok":
//
//	(a) Iter yields each rune at most once and {(r,g) yielded} == {(r, Lookup(r)) : Lookup ok};
//	(b) RuneRanges, where implemented, describes the same rune set;
//	(c) the coverage built for font matching contains r iff Lookup(r) is ok, and its script set is
//	    exactly { LookupScript(r) : Lookup(r) ok } (Unknown included: the rune-by-rune path of
//	    newCoveragesFromCmap inserts LookupScript(r) for every rune, and scriptsFromRanges inserts
//	    language.Unknown explicitly, so Unknown is a member like any other script);
//	(d) RuneSet behaves as a set (state machine in runeset_test.go).
//
// The laws are evaluated by checkCmap, which returns every disagreement as a classified
// discrepancy; judge() then removes the ones matched by a listed known finding (structural
// matchers below) and fails on the first remaining one.
package c11

import (
	"encoding/json"
	"fmt"
	"os"
	"path/filepath"
	"reflect"
	"sort"
	"strings"
	"testing"

	"github.com/go-text/typesetting/font"
	"github.com/go-text/typesetting/fontscan"
	"github.com/go-text/typesetting/language"

	"verif/internal/corpus"
	"verif/internal/ev"
)

func TestMain(m *testing.M) { ev.Main(m) }

const (
	maxRune  = 0x10FFFF
	nRunes   = maxRune + 1
	nPages   = nRunes >> 8
	iterCap  = 3_000_000 // no well-behaved Iter yields more pairs than this for our inputs
	maxDiscs = 6         // discrepancies kept per class (counts are exact)
)

func u(r rune) string { return fmt.Sprintf("U+%04X", uint32(r)) }

// ---- bit sets over the code space -------------------------------------------------------------

type bitset []uint64

func newBitset() bitset           { return make(bitset, (nRunes+63)/64) }
func (b bitset) has(r rune) bool  { return b[uint32(r)>>6]&(1<<(uint32(r)&63)) != 0 }
func (b bitset) set(r rune)       { b[uint32(r)>>6] |= 1 << (uint32(r) & 63) }
func (b bitset) clear()           { clear(b) }
func inRange(r rune) bool         { return r >= 0 && r <= maxRune }
func (b bitset) setRange(lo, hi rune) { // both included, both in range
	for r := lo; r <= hi; r++ {
		if r&63 == 0 && r+63 <= hi {
			b[uint32(r)>>6] = ^uint64(0)
			r += 63
			continue
		}
		b.set(r)
	}
}

// scratch is the per-process working memory of checkCmap.
type scratch struct {
	lkOK   bitset   // Lookup(r) ok
	lkGID  []uint32 // glyph of Lookup(r) where ok
	itSeen bitset   // rune yielded by Iter
	itZero bitset   // rune yielded by Iter with glyph 0
	rrSet  bitset   // rune described by RuneRanges
	page   []bool   // pages of the universe (which runes are evaluated)
}

var scr *scratch

func getScratch() *scratch {
	if scr == nil {
		scr = &scratch{lkOK: newBitset(), lkGID: make([]uint32, nRunes), itSeen: newBitset(), itZero: newBitset(), rrSet: newBitset(), page: make([]bool, nPages)}
	}
	scr.lkOK.clear()
	scr.itSeen.clear()
	scr.itZero.clear()
	scr.rrSet.clear()
	return scr
}

// ---- discrepancies -----------------------------------------------------------------------------

// Classes of disagreement between the four views of a cmap.
const (
	dPanic         = "panic"
	dIterRunaway   = "iter-runaway"    // Iter does not terminate within iterCap pairs
	dIterDup       = "iter-dup"        // Iter yields a rune twice
	dIterNotLookup = "iter-not-lookup" // Iter yields (r,g) but Lookup(r) is not ok
	dIterGlyph     = "iter-glyph"      // Iter yields (r,g), Lookup(r) = (g',true), g != g'
	dLookupNotIter = "lookup-not-iter" // Lookup(r) ok but Iter never yields r
	dRangesExtra   = "ranges-extra"    // RuneRanges contains r, Lookup(r) not ok
	dRangesMissing = "ranges-missing"  // Lookup(r) ok, RuneRanges does not contain r
	dCovExtra      = "coverage-extra"  // coverage contains r, Lookup(r) not ok
	dCovMissing    = "coverage-missing"
	dScriptExtra   = "script-extra"   // script in the ScriptSet, no covered rune has it
	dScriptMissing = "script-missing" // a covered rune has the script, ScriptSet lacks it
	dScriptOrder   = "script-order"   // ScriptSet not strictly increasing
)

type disc struct {
	Class  string `json:"class"`
	Rune   rune   `json:"rune"`
	Glyph  uint32 `json:"glyph,omitempty"`  // Iter's glyph
	Lookup int64  `json:"lookup,omitempty"` // Lookup's glyph (when ok)
	Script string `json:"script,omitempty"`
	Msg    string `json:"msg"`
}

type report struct {
	discs  []disc
	counts map[string]int
	// facts about the cmap used by the matchers and the evidence labels
	typeName   string // %T of the Cmap (e.g. font.cmap4, font.remaperPUASimp)
	innerType  string // %T of the wrapped cmap for remappers, else typeName
	ranger     bool
	nLookup    int  // number of runes (in the evaluated universe) with Lookup ok
	nIter      int  // pairs yielded by Iter
	covDiffers bool // coverage rune set differs from Lookup on at least one rune
}

func (rp *report) add(d disc) {
	rp.counts[d.Class]++
	if rp.counts[d.Class] <= maxDiscs {
		rp.discs = append(rp.discs, d)
	}
}

// innerCmap unwraps the legacy remappers (struct{ Cmap }) by reflection.
func innerCmap(cm font.Cmap) (font.Cmap, bool) {
	v := reflect.ValueOf(cm)
	if v.Kind() == reflect.Struct && v.NumField() == 1 && v.Type().Field(0).Name == "Cmap" && v.Type().Field(0).Anonymous {
		if in, ok := v.Field(0).Interface().(font.Cmap); ok && in != nil {
			return in, true
		}
	}
	return cm, false
}

// universe tells which pages (256 runes each) are evaluated rune by rune. nil = every page
// (exhaustive over all 0x110000 code points).
type universe struct {
	all  bool
	page []bool
}

func (un *universe) has(p int) bool { return un.all || un.page[p] }
func (un *universe) mark(lo, hi int64) {
	if un.all {
		return
	}
	if lo < 0 {
		lo = 0
	}
	if hi > maxRune {
		hi = maxRune
	}
	for p := lo >> 8; p <= hi>>8; p++ {
		un.page[p] = true
	}
}

// checkCmap evaluates laws (a), (b), (c) of one cmap over the universe and returns every
// disagreement. hint lists extra (lo,hi) intervals to evaluate when the universe is not exhaustive;
// the BMP, the pages of every rune yielded by Iter and of every RuneRanges bound are always in.
func checkCmap(cm font.Cmap, exhaustive bool, hint [][2]int64) (rp *report) {
	rp = &report{counts: map[string]int{}}
	rp.typeName = fmt.Sprintf("%T", cm)
	inner, _ := innerCmap(cm)
	rp.innerType = fmt.Sprintf("%T", inner)
	stage := "start"
	defer func() {
		if r := recover(); r != nil {
			rp.add(disc{Class: dPanic, Msg: fmt.Sprintf("panic during %s: %v", stage, r)})
		}
	}()
	s := getScratch()
	un := &universe{all: exhaustive, page: s.page}
	if !exhaustive {
		clear(s.page)
		un.mark(0, 0xFFFF)
		for _, h := range hint {
			un.mark(h[0], h[1])
		}
	}

	// ---- Iter: collect (first pass only marks the universe and detects duplicates)
	stage = "Iter"
	type pair struct {
		r rune
		g font.GID
	}
	var outside []pair // yielded runes outside 0..0x10FFFF
	var pairs []pair
	it := cm.Iter()
	for it.Next() {
		r, g := it.Char()
		rp.nIter++
		if rp.nIter > iterCap {
			rp.add(disc{Class: dIterRunaway, Rune: r, Msg: fmt.Sprintf("Iter yielded more than %d pairs (last %s)", iterCap, u(r))})
			break
		}
		if !inRange(r) {
			outside = append(outside, pair{r, g})
			continue
		}
		un.mark(int64(r), int64(r))
		if s.itSeen.has(r) {
			rp.add(disc{Class: dIterDup, Rune: r, Glyph: uint32(g), Msg: fmt.Sprintf("Iter yields %s more than once", u(r))})
		}
		s.itSeen.set(r)
		if g == 0 {
			s.itZero.set(r)
		}
		pairs = append(pairs, pair{r, g})
	}
	if len(outside) > 0 {
		seen := map[rune]bool{}
		for _, p := range outside {
			if seen[p.r] {
				rp.add(disc{Class: dIterDup, Rune: p.r, Glyph: uint32(p.g), Msg: fmt.Sprintf("Iter yields %s more than once", u(p.r))})
			}
			seen[p.r] = true
		}
	}

	// ---- RuneRanges
	stage = "RuneRanges"
	var ranges [][2]rune
	ranger, isRanger := cm.(font.CmapRuneRanger)
	rp.ranger = isRanger
	if isRanger {
		ranges = ranger.RuneRanges(nil)
		for _, ra := range ranges {
			lo, hi := int64(ra[0]), int64(ra[1])
			un.mark(lo, lo)
			un.mark(hi, hi)
			if lo > hi {
				continue // describes no rune
			}
			if lo < 0 {
				lo = 0
			}
			if hi > maxRune {
				hi = maxRune
			}
			if lo <= hi {
				un.mark(lo, hi)
				s.rrSet.setRange(rune(lo), rune(hi))
			}
		}
	}

	// ---- coverage (through the verif hook: newCoveragesFromCmap)
	stage = "newCoveragesFromCmap"
	rs, ss := fontscan.VerifCoverages(cm)

	// ---- Lookup over the universe, compared with the three other views
	stage = "Lookup"
	var wantScripts = map[language.Script]rune{} // script -> first covered rune having it
	for p := 0; p < nPages; p++ {
		if !un.has(p) {
			continue
		}
		for r := rune(p << 8); r < rune(p+1)<<8; r++ {
			g, ok := cm.Lookup(r)
			if ok {
				s.lkOK.set(r)
				s.lkGID[r] = uint32(g)
				rp.nLookup++
				if !s.itSeen.has(r) {
					rp.add(disc{Class: dLookupNotIter, Rune: r, Lookup: int64(g), Msg: fmt.Sprintf("Lookup(%s) = (%d, true) but Iter never yields the rune", u(r), g)})
				}
				sc := language.LookupScript(r)
				if _, has := wantScripts[sc]; !has {
					wantScripts[sc] = r
				}
			}
			if isRanger {
				if in := s.rrSet.has(r); in && !ok {
					rp.add(disc{Class: dRangesExtra, Rune: r, Msg: fmt.Sprintf("RuneRanges contains %s but Lookup reports no glyph", u(r))})
				} else if !in && ok {
					rp.add(disc{Class: dRangesMissing, Rune: r, Lookup: int64(g), Msg: fmt.Sprintf("Lookup(%s) = (%d, true) but RuneRanges does not contain the rune", u(r), g)})
				}
			}
			if in := rs.Contains(r); in && !ok {
				rp.covDiffers = true
				rp.add(disc{Class: dCovExtra, Rune: r, Msg: fmt.Sprintf("coverage contains %s but Lookup reports no glyph", u(r))})
			} else if !in && ok {
				rp.covDiffers = true
				rp.add(disc{Class: dCovMissing, Rune: r, Lookup: int64(g), Msg: fmt.Sprintf("Lookup(%s) = (%d, true) but the coverage does not contain the rune", u(r), g)})
			}
		}
	}
	// Iter pairs against Lookup (in yield order, so that the first reported is the first yielded)
	stage = "Iter vs Lookup"
	for _, p := range pairs {
		if !s.lkOK.has(p.r) {
			rp.add(disc{Class: dIterNotLookup, Rune: p.r, Glyph: uint32(p.g), Msg: fmt.Sprintf("Iter yields (%s, %d) but Lookup reports no glyph", u(p.r), p.g)})
		} else if s.lkGID[p.r] != uint32(p.g) {
			rp.add(disc{Class: dIterGlyph, Rune: p.r, Glyph: uint32(p.g), Lookup: int64(s.lkGID[p.r]), Msg: fmt.Sprintf("Iter yields (%s, %d) but Lookup gives glyph %d", u(p.r), p.g, s.lkGID[p.r])})
		}
	}
	for _, p := range outside {
		g, ok := cm.Lookup(p.r)
		if !ok {
			rp.add(disc{Class: dIterNotLookup, Rune: p.r, Glyph: uint32(p.g), Msg: fmt.Sprintf("Iter yields (%s, %d) but Lookup reports no glyph", u(p.r), p.g)})
		} else if g != p.g {
			rp.add(disc{Class: dIterGlyph, Rune: p.r, Glyph: uint32(p.g), Lookup: int64(g), Msg: fmt.Sprintf("Iter yields (%s, %d) but Lookup gives glyph %d", u(p.r), p.g, g)})
		}
	}

	// ---- script set
	stage = "scripts"
	for i, sc := range ss {
		if i > 0 && ss[i-1] >= sc {
			rp.add(disc{Class: dScriptOrder, Script: sc.String(), Msg: fmt.Sprintf("ScriptSet is not strictly increasing at index %d (%s after %s)", i, sc, ss[i-1])})
		}
		if _, want := wantScripts[sc]; !want {
			rp.add(disc{Class: dScriptExtra, Script: sc.String(), Msg: fmt.Sprintf("ScriptSet contains %q but no rune mapped by Lookup has that script", sc.String())})
		}
	}
	have := map[language.Script]bool{}
	for _, sc := range ss {
		have[sc] = true
	}
	var missing []language.Script
	for sc := range wantScripts {
		if !have[sc] {
			missing = append(missing, sc)
		}
	}
	sort.Slice(missing, func(i, j int) bool { return missing[i] < missing[j] })
	for _, sc := range missing {
		r := wantScripts[sc]
		rp.add(disc{Class: dScriptMissing, Rune: r, Script: sc.String(), Msg: fmt.Sprintf("Lookup maps %s (script %q) but the ScriptSet lacks that script", u(r), sc.String())})
	}
	return rp
}

// ---- known findings: structural matchers --------------------------------------------------------
//
// Each matcher identifies a defect by the structure of the cmap and of the disagreement, never by
// the input's identity. A discrepancy that no listed finding matches fails the case.

const (
	// cmap format 4, segment using idRangeOffset whose glyphIdArray entry is 0: Lookup reports
	// "no glyph" (as the specification says) but Iter yields (r, 0) and RuneRanges/coverage/scripts
	// contain r.
	kfCmap4Zero = "C11-cmap4-zero-entries-enumerated"
	// legacy remappers (symbol, simplified/traditional Arabic): Lookup maps additional runes that
	// Iter / coverage / scripts do not contain.
	kfRemap = "C11-remapped-runes-not-enumerated"
	// scriptsFromRanges adds language.Unknown when a range reaches the last entry of
	// language.ScriptRanges, although no covered rune has an unknown script.
	kfScriptsLast = "C11-scripts-unknown-after-last-range"
	// ProcessCmap accepts format 4/12/13 subtables whose segments/groups are not sorted, overlap,
	// have start > end or (12/13) exceed U+10FFFF; bisection and enumeration then disagree.
	kfUnsorted = "C11-malformed-groups-accepted"
)

// shape is what the harness knows about the structure of the cmap under test.
type shape struct {
	format    int  // format of the selected subtable (0 when unknown)
	malformed bool // segments/groups unsorted, overlapping, start > end or beyond U+10FFFF
	remapped  bool // selected through the (3,0) symbol path: wrapped in a remapper
}

func shapeOfType(rp *report) shape {
	var sh shape
	switch rp.innerType {
	case "font.cmap0":
		sh.format = 0
	case "font.cmap4":
		sh.format = 4
	case "font.cmap6or10":
		sh.format = 6
	case "font.cmap12":
		sh.format = 12
	case "font.cmap13":
		sh.format = 13
	}
	sh.remapped = strings.HasPrefix(rp.typeName, "font.remaper")
	return sh
}

// judge filters the discrepancies of a report through the known-finding matchers and returns the
// first unexplained one (nil when the case passes) and the ids of the findings that matched.
func judge(rp *report, sh shape) (*disc, []string) {
	s := scr
	matched := map[string]bool{}
	use := func(id string) bool {
		if ev.Known(id) {
			matched[id] = true
			return true
		}
		return false
	}
	var first *disc
	scriptsLoose := false
	for i := range rp.discs {
		d := &rp.discs[i]
		ok := false
		switch d.Class {
		case dIterNotLookup, dRangesExtra, dCovExtra:
			// format 4 zero entry: Iter reports the rune with glyph 0
			if sh.format == 4 && inRange(d.Rune) && s.itZero.has(d.Rune) && use(kfCmap4Zero) {
				ok = true
				scriptsLoose = true
			}
		case dLookupNotIter, dCovMissing, dRangesMissing:
			// remapped rune: the wrapped cmap does not map it itself
			if sh.remapped && use(kfRemap) {
				ok = true
				scriptsLoose = true
			}
		}
		if !ok && sh.malformed && d.Class != dPanic && d.Class != dScriptOrder && use(kfUnsorted) {
			ok = true
			scriptsLoose = true
		}
		if d.Class == dScriptExtra || d.Class == dScriptMissing {
			continue // second pass
		}
		if !ok && first == nil {
			first = d
		}
	}
	// scripts: when the rune sets legitimately differ by a known finding the script set may
	// reflect either side; otherwise it must be exact, up to the scriptsFromRanges finding.
	for i := range rp.discs {
		d := &rp.discs[i]
		if d.Class != dScriptExtra && d.Class != dScriptMissing {
			continue
		}
		ok := false
		if scriptsLoose && rp.covDiffers == (rp.counts[dCovExtra]+rp.counts[dCovMissing] > 0) && scriptExplained(d, rp) {
			ok = true
		}
		if !ok && d.Class == dScriptExtra && d.Script == language.Unknown.String() && rp.ranger && reachesLastScriptRange() && use(kfScriptsLast) {
			ok = true
		}
		if !ok && first == nil {
			first = d
		}
	}
	ids := make([]string, 0, len(matched))
	for id := range matched {
		ids = append(ids, id)
	}
	sort.Strings(ids)
	return first, ids
}

// scriptExplained: the script disagreement is carried by runes on which coverage and Lookup
// disagree for an already matched reason (the script set follows the coverage's rune set).
func scriptExplained(d *disc, rp *report) bool {
	return rp.counts[dCovExtra]+rp.counts[dCovMissing]+rp.counts[dLookupNotIter]+rp.counts[dIterNotLookup] > 0
}

// reachesLastScriptRange: some rune described by RuneRanges lies at or after the start of the last
// entry of language.ScriptRanges.
func reachesLastScriptRange() bool {
	last := language.ScriptRanges[len(language.ScriptRanges)-1]
	for r := last.Start; r <= maxRune; r++ {
		if scr.rrSet.has(r) {
			return true
		}
		if r&63 == 0 {
			for r+64 <= maxRune && scr.rrSet[uint32(r)>>6] == 0 {
				r += 64
			}
		}
	}
	return false
}

// ---- corpus enumerator -------------------------------------------------------------------------

type corpusCase struct {
	File  string `json:"file"`
	Index int    `json:"index"`
	Type  string `json:"cmap_type,omitempty"`
	Disc  *disc  `json:"discrepancy,omitempty"`
	Count map[string]int `json:"discrepancy_counts,omitempty"`
}

func checkCorpusFace(t ev.TB, file string, index int, face *font.Face) (nontrivial bool) {
	cm := face.Cmap
	rp := checkCmap(cm, true, nil)
	sh := shapeOfType(rp)
	// NominalGlyph is the face's view of Lookup: it must be the same function
	for _, r := range []rune{0x20, 0x41, 0x627, 0x4E00, 0xF020, 0xFFFF, 0x1F600, 0x10FFFF} {
		g1, ok1 := face.NominalGlyph(r)
		g2, ok2 := cm.Lookup(r)
		if g1 != g2 || ok1 != ok2 {
			ev.Fail(t, "corpus", corpusCase{File: file, Index: index, Type: rp.typeName}, "%s[%d]: NominalGlyph(%s)=(%d,%v) but Cmap.Lookup=(%d,%v)", file, index, u(r), g1, ok1, g2, ok2)
		}
	}
	first, ids := judge(rp, sh)
	for _, id := range ids {
		ev.Excluded(id)
	}
	ev.Label("type:" + rp.typeName)
	if rp.ranger {
		ev.Label("ranger")
	}
	if first != nil {
		ev.Fail(t, "corpus", corpusCase{File: file, Index: index, Type: rp.typeName, Disc: first, Count: rp.counts},
			"%s[%d] (%s): %s  [all discrepancies: %v]", file, index, rp.typeName, first.Msg, rp.counts)
	}
	if ev.WantSample() {
		ev.Sample(map[string]any{"file": file, "index": index, "cmap_type": rp.typeName, "runes_mapped": rp.nLookup, "iter_pairs": rp.nIter, "ranger": rp.ranger})
	}
	return sh.format != 0
}

// footprintLoaderCheck: the coverage recorded by the scanning path (newFootprintFromLoader: raw
// tables → ParseCmap → ProcessCmap → newCoveragesFromCmap) must be the coverage of the loaded face.
func footprintLoaderCheck(t ev.TB, file string, faces []*font.Face) {
	lds, err := corpus.Loaders(file)
	if err != nil || len(lds) != len(faces) {
		return
	}
	for i, ld := range lds {
		fp, err := func() (fp fontscan.Footprint, err error) {
			defer func() {
				if r := recover(); r != nil {
					err = fmt.Errorf("panic: %v", r)
				}
			}()
			return fontscan.VerifFootprintFromLoader(ld, false)
		}()
		if err != nil {
			ev.Label("footprint_loader_error")
			continue
		}
		rs, ss := fontscan.VerifCoverages(faces[i].Cmap)
		ev.Label("footprint_loader_compared")
		if string(fontscan.VerifRuneSetSerialize(rs)) == string(fontscan.VerifRuneSetSerialize(fp.Runes)) &&
			string(fontscan.VerifScriptSetSerialize(ss)) == string(fontscan.VerifScriptSetSerialize(fp.Scripts)) {
			continue
		}
		// name the first rune on which the scanned footprint disagrees with the loaded face
		for r := rune(0); r <= maxRune; r++ {
			_, ok := faces[i].NominalGlyph(r)
			if fp.Runes.Contains(r) != ok {
				if _, remapped := innerCmap(faces[i].Cmap); remapped && ev.Known(kfRemap) {
					ev.Excluded(kfRemap)
					break
				}
				ev.Fail(t, "corpus", corpusCase{File: file, Index: i, Type: fmt.Sprintf("%T", faces[i].Cmap)},
					"%s[%d]: scanned footprint (newFootprintFromLoader) contains(%s)=%v but the loaded face's NominalGlyph ok=%v", file, i, u(r), !ok, ok)
			}
		}
	}
}

// TestPropCorpus: every face of the corpus, exhaustively over all 0x110000 code points.
func TestPropCorpus(t *testing.T) {
	shard, n := ev.Shard()
	var total, nt int64
	for fi, file := range corpus.Files() {
		if fi%n != shard {
			continue
		}
		faces, err := corpus.Faces(file)
		if err != nil {
			ev.Label("unloadable_file")
			continue
		}
		for i, f := range faces {
			total++
			if checkCorpusFace(t, file, i, f) {
				nt++
			}
		}
		footprintLoaderCheck(t, file, faces)
	}
	ev.CaseEnum(total, nt)
}

// ---- replay ------------------------------------------------------------------------------------

func replayFile(t *testing.T, path string) {
	check, raw, err := ev.LoadReplay(path)
	if err != nil {
		t.Fatalf("cannot load replay %s: %v", path, err)
	}
	switch check {
	case "corpus":
		var c corpusCase
		if err := json.Unmarshal(raw, &c); err != nil {
			t.Fatalf("%s: %v", path, err)
		}
		faces, err := corpus.Faces(c.File)
		if err != nil || c.Index >= len(faces) {
			t.Fatalf("%s: cannot load %s[%d]: %v", path, c.File, c.Index, err)
		}
		checkCorpusFace(t, c.File, c.Index, faces[c.Index])
		footprintLoaderCheck(t, c.File, faces)
	case "synth":
		var c synthCase
		if err := json.Unmarshal(raw, &c); err != nil {
			t.Fatalf("%s: %v", path, err)
		}
		checkSynth(t, &c)
	case "runeset":
		var c runeSetCase
		if err := json.Unmarshal(raw, &c); err != nil {
			t.Fatalf("%s: %v", path, err)
		}
		checkRuneSetOps(t, &c)
	case "scriptset":
		var c scriptSetCase
		if err := json.Unmarshal(raw, &c); err != nil {
			t.Fatalf("%s: %v", path, err)
		}
		checkScriptSet(t, &c)
	case "langset":
		var c langSetCase
		if err := json.Unmarshal(raw, &c); err != nil {
			t.Fatalf("%s: %v", path, err)
		}
		checkLangSet(t, &c)
	default:
		t.Fatalf("%s: unknown check %q", path, check)
	}
}

// TestReplay re-runs saved cases through the same property functions, without rapid.
func TestReplay(t *testing.T) {
	if p := ev.ReplayPath(); p != "" {
		replayFile(t, p)
		return
	}
	dir := os.Getenv("VERIF_REPLAY_DIR")
	files, _ := filepath.Glob(filepath.Join(dir, "*.json"))
	sort.Strings(files)
	for _, f := range files {
		f := f
		t.Run(filepath.Base(f), func(t *testing.T) { replayFile(t, f) })
	}
}
