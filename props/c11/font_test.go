package c11

import (
	"bytes"
	"fmt"
	"os"
	"path/filepath"
	"strings"

	"github.com/go-text/typesetting/font"
	ot "github.com/go-text/typesetting/font/opentype"
	"github.com/go-text/typesetting/fontscan"

	"verif/internal/corpus"
	"verif/internal/ev"
)

// Font level of the synthetic property: the generated cmap table is wrapped into a minimal sfnt
// (OS/2, cmap, head, hhea, hmtx, maxp, name, post; written with opentype.WriteTTF) so that the
// paths which start from a FILE are exercised too:
//
//   - font.NewFont(loader): the loaded face, whose Lookup is the reference ("the loaded face maps r");
//   - fontscan.newFootprintFromLoader with a fresh scan buffer (FontMap.AddFont path, verif hook
//     VerifFootprintFromLoader);
//   - fontscan.scanFontFootprints over a directory (verif hook VerifScan): one footprintScanner
//     whose table buffer and range buffer are reused from file to file, which is where aliasing
//     between tables read into the same buffer shows. The directory holds a larger font scanned
//     first (so the shared buffer is big and dirty) and the case's font twice.
//
// Law: Runes, Scripts and Langs recorded by both scanning paths are those of the coverage of the
// loaded face (newFootprintFromFont on the font NewFont returns, itself compared with the face's
// Lookup rune by rune by checkCmap).

// os2Spec describes the OS/2 table of the synthetic font. Absent: no OS/2 table. Version 0 carries
// the font page in fsSelection (tables.Os2.FontPage reads it only for version 0). Fill selects the
// content of the other fields: 0 realistic, 1 every 16-bit field non-zero, 2 all zero.
type os2Spec struct {
	Absent  bool `json:"absent,omitempty"`
	Version int  `json:"version"`
	Fill    int  `json:"fill"`
}

func (c *synthCase) os2() os2Spec {
	if c.OS2 != nil {
		return *c.OS2
	}
	if c.FontPage != 0 {
		return os2Spec{Version: 0}
	}
	return os2Spec{Version: 4}
}

// os2Bytes serialises the OS/2 table (78 bytes for version 0, 86 for 1, 96 for 2-4, 100 for 5).
func (c *synthCase) os2Bytes() []byte {
	sp := c.os2()
	size := map[int]int{0: 78, 1: 86, 2: 96, 3: 96, 4: 96, 5: 100}[sp.Version]
	if size == 0 {
		size = 96
	}
	var w wr
	w.b = make([]byte, 0, size)
	put := func(off int, v uint16) { w.b[off], w.b[off+1] = byte(v>>8), byte(v) }
	w.b = w.b[:size]
	switch sp.Fill {
	case 1:
		for i := 0; i+1 < size; i += 2 {
			put(i, uint16(0x0101+i))
		}
	case 2:
	default:
		put(2, 500)  // xAvgCharWidth
		put(4, 400)  // usWeightClass
		put(6, 5)    // usWidthClass
		put(26, 50)  // yStrikeoutSize
		put(28, 250) // yStrikeoutPosition
		copy(w.b[58:], "VRIF")
		put(64, 0x20)   // usFirstCharIndex
		put(66, 0xFFFF) // usLastCharIndex
		put(68, 800)    // sTypoAscender
		put(70, 0xFF38) // sTypoDescender
		put(72, 90)     // sTypoLineGap
		put(74, 900)    // usWinAscent
		put(76, 250)    // usWinDescent
		if size >= 86 {
			put(78, 0x8000) // ulCodePageRange1: symbol character set
		}
		if size >= 96 {
			put(86, 500) // sxHeight
			put(88, 700) // sCapHeight
			put(92, 0x20)
			put(94, 2)
		}
	}
	put(0, uint16(sp.Version))
	put(8, 0) // fsType: installable
	fs := uint16(0x0040)
	if sp.Version == 0 {
		fs |= c.FontPage & 0xFF00
	}
	put(62, fs)
	return w.b
}

const synthNumGlyphs = 4

// fontSpec varies the tables around the cmap table (nil: all tables, one short name record).
type fontSpec struct {
	Drop     []string `json:"drop,omitempty"`      // tags left out, among OS/2 name head hhea hmtx maxp post
	NameLens []int    `json:"name_lens,omitempty"` // one name record per entry, with a string of that many bytes
	NameChar int      `json:"name_char,omitempty"` // UTF-16 code unit the name strings are made of (0: 'A')
	PostPad  int      `json:"post_pad,omitempty"`  // extra bytes at the end of the post table
}

func (c *synthCase) dropped(tag string) bool {
	if tag == "OS/2" && c.os2().Absent {
		return true
	}
	if c.Font != nil {
		for _, d := range c.Font.Drop {
			if d == tag {
				return true
			}
		}
	}
	return false
}

// nameBytes serialises a format 0 name table: records (3,1,0x409) with name ids 1, 2, 3, ...
func (c *synthCase) nameBytes() []byte {
	lens, ch := []int{6}, uint16('A')
	if c.Font != nil && len(c.Font.NameLens) > 0 {
		lens = c.Font.NameLens
	}
	if c.Font != nil && c.Font.NameChar != 0 {
		ch = uint16(c.Font.NameChar)
	}
	var w, strs wr
	w.u16(0)
	w.u16(uint16(len(lens)))
	w.u16(uint16(6 + 12*len(lens)))
	for i, l := range lens {
		l &^= 1
		for _, v := range []uint16{3, 1, 0x409, uint16(i + 1), uint16(l), uint16(len(strs.b))} {
			w.u16(v)
		}
		for k := 0; k < l/2; k++ {
			strs.u16(ch)
		}
	}
	return append(w.b, strs.b...)
}

// fontBytes wraps the cmap table of the case into a minimal TrueType file.
func (c *synthCase) fontBytes() []byte {
	head := make([]byte, 54)
	copy(head, []byte{0, 1, 0, 0})                  // version
	copy(head[12:], []byte{0x5F, 0x0F, 0x3C, 0xF5}) // magic
	head[18], head[19] = 0x03, 0xE8                 // unitsPerEm 1000
	hhea := make([]byte, 36)
	copy(hhea, []byte{0, 1, 0, 0})
	hhea[4], hhea[5] = 0x03, 0x20 // ascender 800
	hhea[6], hhea[7] = 0xFF, 0x38 // descender -200
	hhea[35] = synthNumGlyphs     // numberOfHMetrics
	hmtx := make([]byte, 4*synthNumGlyphs)
	for i := 0; i < synthNumGlyphs; i++ {
		hmtx[4*i], hmtx[4*i+1] = 0x01, 0xF4 // advance 500
	}
	maxp := []byte{0, 0, 0x50, 0, 0, synthNumGlyphs} // version 0.5
	post := make([]byte, 32)
	copy(post, []byte{0, 3, 0, 0})
	if c.Font != nil && c.Font.PostPad > 0 {
		pad := make([]byte, c.Font.PostPad)
		for i := range pad {
			pad[i] = byte(0xB0 + i%7)
		}
		post = append(post, pad...)
	}
	all := []ot.Table{ // sorted by tag, as WriteTTF requires
		{Tag: ot.MustNewTag("OS/2"), Content: nil},
		{Tag: ot.MustNewTag("cmap"), Content: c.serialize()},
		{Tag: ot.MustNewTag("head"), Content: head},
		{Tag: ot.MustNewTag("hhea"), Content: hhea},
		{Tag: ot.MustNewTag("hmtx"), Content: hmtx},
		{Tag: ot.MustNewTag("maxp"), Content: maxp},
		{Tag: ot.MustNewTag("name"), Content: c.nameBytes()},
		{Tag: ot.MustNewTag("post"), Content: post},
	}
	var tbs []ot.Table
	for _, tb := range all {
		tag := tb.Tag.String()
		if c.dropped(tag) {
			continue
		}
		if tag == "OS/2" {
			tb.Content = c.os2Bytes()
		}
		tbs = append(tbs, tb)
	}
	return ot.WriteTTF(tbs)
}

// fillerFont is scanned before the case's font in the directory scan: its cmap table is several
// kilobytes, so the scanner's shared table buffer is larger than any table of the case.
func fillerFont() []byte {
	st := subtable{Platform: 3, Encoding: 10, Format: 12}
	for i := 0; i < 200; i++ {
		st.Groups = append(st.Groups, group{Start: uint32(0x100 + 16*i), End: uint32(0x100 + 16*i + 7), Glyph: 1})
	}
	c := synthCase{Subtables: []subtable{st}, OS2: &os2Spec{Version: 4, Fill: 1}}
	return c.fontBytes()
}

type nopLogger struct{}

func (nopLogger) Printf(string, ...interface{}) {}

// scanDir is the directory used for the shared-buffer scans of this process.
var scanDir string

func getScanDir() (string, error) {
	if scanDir != "" {
		return scanDir, nil
	}
	base := ev.OutDir()
	if base == "" {
		base = os.TempDir()
	}
	d, err := os.MkdirTemp(base, "c11scan")
	if err != nil {
		return "", err
	}
	if err := os.WriteFile(filepath.Join(d, "0_filler.ttf"), fillerFont(), 0o644); err != nil {
		return "", err
	}
	scanDir = d
	return d, nil
}

// sameCoverage compares what a scanning path recorded with the coverage of the loaded face; on a
// difference it names the first rune (or says which of scripts / languages differ).
func sameCoverage(got, face fontscan.Footprint, ft *font.Font) string {
	if string(fontscan.VerifRuneSetSerialize(got.Runes)) != string(fontscan.VerifRuneSetSerialize(face.Runes)) {
		for r := rune(0); r <= maxRune; r++ {
			if in := got.Runes.Contains(r); in != face.Runes.Contains(r) {
				g, ok := ft.NominalGlyph(r)
				return fmt.Sprintf("the recorded rune set contains(%s)=%v but the coverage of the loaded face says %v (NominalGlyph = (%d,%v)); recorded %d runes, face %d runes",
					u(r), in, !in, g, ok, got.Runes.Len(), face.Runes.Len())
			}
		}
		// same membership: a different page layout is a defect only if it is observable
		if got.Runes.Len() != face.Runes.Len() {
			return fmt.Sprintf("the recorded rune set has the members of the coverage of the loaded face but Len() = %d instead of %d (pages duplicated)", got.Runes.Len(), face.Runes.Len())
		}
	}
	if string(fontscan.VerifScriptSetSerialize(got.Scripts)) != string(fontscan.VerifScriptSetSerialize(face.Scripts)) {
		return fmt.Sprintf("the recorded script set %v differs from the script set of the loaded face %v", got.Scripts, face.Scripts)
	}
	if got.Langs != face.Langs {
		return fmt.Sprintf("the recorded language set %v differs from the language set of the loaded face %v", got.Langs, face.Langs)
	}
	return ""
}

// checkSynthFont is the font level of checkSynth. cm is the cmap obtained from the table alone.
// It returns labels for the evidence and a failure message ("" when the case passes).
func checkSynthFont(c *synthCase, cm font.Cmap) (labels []string, failure string) {
	if sp := c.os2(); c.FontPage != 0 && (sp.Absent || sp.Version != 0) {
		// not a case the generator produces: only a version 0 OS/2 table carries a font page
		return []string{"font_level_skipped"}, ""
	}
	file := c.fontBytes()
	var (
		ft      *font.Font
		ld      *ot.Loader
		err     error
		face    fontscan.Footprint
		fresh   fontscan.Footprint
		scanned []fontscan.Footprint
		stage   = "loading"
	)
	newLoader := func() (*ot.Loader, error) {
		lds, err := ot.NewLoaders(bytes.NewReader(file))
		if err != nil {
			return nil, err
		}
		if len(lds) != 1 {
			return nil, fmt.Errorf("%d loaders", len(lds))
		}
		return lds[0], nil
	}
	if p := guard(func() {
		if ld, err = newLoader(); err != nil {
			return
		}
		ft, err = font.NewFont(ld)
	}); p != nil {
		return nil, fmt.Sprintf("panic while loading the synthetic font whose cmap table ProcessCmap accepts: %v", p)
	}
	if err != nil {
		return nil, fmt.Sprintf("ProcessCmap accepts the cmap table but font.NewFont rejects the font built around it: %v", err)
	}
	// the loaded face must be the cmap ProcessCmap gives for the table and the OS/2 font page
	if tf, tt := fmt.Sprintf("%T", ft.Cmap), fmt.Sprintf("%T", cm); tf != tt {
		return nil, fmt.Sprintf("the loaded face has a cmap of type %s, ProcessCmap(table, font page 0x%04X) gives %s", tf, c.FontPage, tt)
	}
	if p := guard(func() {
		stage = "newFootprintFromFont"
		face = fontscan.VerifFootprintFromFont(ft, fontscan.Location{}, font.Description{})
		rsTable, ssTable := fontscan.VerifCoverages(cm)
		if string(fontscan.VerifRuneSetSerialize(rsTable)) != string(fontscan.VerifRuneSetSerialize(face.Runes)) ||
			string(fontscan.VerifScriptSetSerialize(ssTable)) != string(fontscan.VerifScriptSetSerialize(face.Scripts)) {
			failure = "the coverage of the loaded face differs from the coverage of ProcessCmap(table, font page)"
			return
		}
		stage = "newFootprintFromLoader (fresh buffer)"
		var ld2 *ot.Loader
		if ld2, err = newLoader(); err != nil {
			return
		}
		fresh, err = fontscan.VerifFootprintFromLoader(ld2, false)
		if err != nil {
			return
		}
		stage = "scanFontFootprints (shared buffer)"
		var dir string
		if dir, err = getScanDir(); err != nil {
			err = fmt.Errorf("harness: %v", err)
			return
		}
		for _, n := range []string{"1_case.ttf", "2_case.ttf"} {
			if err = os.WriteFile(filepath.Join(dir, n), file, 0o644); err != nil {
				err = fmt.Errorf("harness: %v", err)
				return
			}
		}
		var index fontscan.VerifIndex
		if index, err = fontscan.VerifScan(nopLogger{}, nil, dir); err != nil {
			return
		}
		for _, ff := range index {
			path, _, fps := fontscan.VerifFileFootprintsParts(ff)
			if strings.HasSuffix(path, "_case.ttf") {
				if len(fps) != 1 {
					err = fmt.Errorf("the directory scan recorded %d footprints for %s", len(fps), filepath.Base(path))
					return
				}
				scanned = append(scanned, fps[0])
			}
		}
		if len(scanned) != 2 {
			err = fmt.Errorf("the directory scan visited %d of the 2 copies of the font", len(scanned))
		}
	}); p != nil {
		return nil, fmt.Sprintf("panic during %s: %v", stage, p)
	}
	if failure != "" {
		return nil, failure
	}
	if err != nil {
		return nil, fmt.Sprintf("%s fails on a font that font.NewFont loads: %v", stage, err)
	}
	if msg := sameCoverage(fresh, face, ft); msg != "" {
		return nil, "newFootprintFromLoader (fresh scan buffer): " + msg
	}
	for i, fp := range scanned {
		if msg := sameCoverage(fp, face, ft); msg != "" {
			return nil, fmt.Sprintf("scanFontFootprints (shared scan buffer, copy %d of the font, after a larger font): %s", i+1, msg)
		}
	}
	labels = append(labels, "font_level_compared", fmt.Sprintf("os2:v%d_fill%d", c.os2().Version, c.os2().Fill))
	if c.os2().Absent {
		labels[len(labels)-1] = "os2:absent"
	}
	return labels, ""
}

// scanCorpusCheck: the directory scan of the whole corpus (one scanner, buffers shared across all
// files, in walk order) records for every face the coverage of the loaded face.
func scanCorpusCheck(t ev.TB) {
	var (
		index fontscan.VerifIndex
		err   error
	)
	if p := guard(func() { index, err = fontscan.VerifScan(nopLogger{}, nil, corpus.Dir()) }); p != nil {
		ev.Fail(t, "corpus", corpusCase{Scan: true}, "panic while scanning the corpus directory: %v", p)
	}
	if err != nil {
		ev.Fail(t, "corpus", corpusCase{Scan: true}, "scanning the corpus directory fails: %v", err)
	}
	known := map[string]bool{}
	for _, f := range corpus.Files() {
		known[f] = true
	}
	for _, ff := range index {
		path, _, fps := fontscan.VerifFileFootprintsParts(ff)
		rel, rerr := filepath.Rel(corpus.Dir(), path)
		if rerr != nil || !known[rel] || len(fps) == 0 {
			continue
		}
		faces, ferr := corpus.Faces(rel)
		if ferr != nil {
			continue
		}
		for _, fp := range fps {
			i := int(fp.Location.Index)
			if i >= len(faces) {
				continue
			}
			var face fontscan.Footprint
			if p := guard(func() {
				face = fontscan.VerifFootprintFromFont(faces[i].Font, fontscan.Location{}, font.Description{})
			}); p != nil {
				continue // reported by the per-face check
			}
			ev.Label("corpus_directory_scan_compared")
			if msg := sameCoverage(fp, face, faces[i].Font); msg != "" {
				ev.Fail(t, "corpus", corpusCase{File: rel, Index: i, Type: fmt.Sprintf("%T", faces[i].Cmap), Scan: true},
					"%s[%d]: directory scan of the corpus (shared scan buffer): %s", rel, i, msg)
			}
		}
	}
}
