package c11

import (
	"fmt"
	"sort"
	"testing"

	"github.com/go-text/typesetting/fontscan"
	"github.com/go-text/typesetting/language"
	"pgregory.net/rapid"

	"verif/internal/ev"
)

// ---- RuneSet state machine -----------------------------------------------------------------------
//
// Two rune sets A and B are driven by a random op sequence next to two map[rune]bool models.
// After every op the touched set is compared with its model on the probe runes (every rune ever
// mentioned, their neighbours, page boundaries), Len() with the model's size, includes() in both
// directions with the model's subset relation; "roundtrip" replaces the set by
// deserialize(serialize(set)) which must change nothing.

type rsOp struct {
	Kind string `json:"op"`  // add | delete | contains | roundtrip | clear_by_delete | add_range
	Set  int    `json:"set"` // 0 = A, 1 = B
	Rune rune   `json:"rune"`
	N    int    `json:"n,omitempty"` // add_range: number of consecutive runes
}

type runeSetCase struct {
	Ops []rsOp `json:"ops"`
}

var rsPages = []rune{0x0000, 0x0100, 0x0200, 0x2000, 0xFF00, 0x10000, 0x10100, 0x1F600, 0x10FF00}
var rsLow = []rune{0, 1, 30, 31, 32, 33, 63, 64, 127, 128, 254, 255}

func genRune(t *rapid.T) rune {
	switch rapid.IntRange(0, 9).Draw(t, "rune_kind") {
	case 0:
		return rune(rapid.IntRange(0, maxRune).Draw(t, "rune_any"))
	case 1:
		return rapid.SampledFrom(rsPages).Draw(t, "page") + rune(rapid.IntRange(0, 255).Draw(t, "low_any"))
	default:
		return rapid.SampledFrom(rsPages).Draw(t, "page") + rapid.SampledFrom(rsLow).Draw(t, "low")
	}
}

func genRuneSetCase(t *rapid.T) *runeSetCase {
	n := rapid.IntRange(1, 40).Draw(t, "nops")
	c := &runeSetCase{}
	for i := 0; i < n; i++ {
		op := rsOp{Set: rapid.IntRange(0, 1).Draw(t, "set"), Rune: genRune(t)}
		switch rapid.IntRange(0, 11).Draw(t, "op") {
		case 0, 1, 2, 3:
			op.Kind = "add"
		case 4, 5, 6:
			op.Kind = "delete"
		case 7:
			op.Kind = "contains"
		case 8:
			op.Kind = "roundtrip"
		case 9:
			op.Kind = "add_range"
			op.N = rapid.SampledFrom([]int{2, 3, 31, 32, 33, 64, 255, 256, 257, 600}).Draw(t, "range_n")
		case 10:
			// delete the rune just added by the previous op on the same set (leaves an empty page)
			op.Kind = "delete"
			if i > 0 {
				op.Rune, op.Set = c.Ops[i-1].Rune, c.Ops[i-1].Set
			}
		default:
			// mirror the previous op on the other set (makes inclusion true more often)
			if i > 0 {
				op = c.Ops[i-1]
				op.Set = 1 - op.Set
			} else {
				op.Kind = "add"
			}
		}
		c.Ops = append(c.Ops, op)
	}
	return c
}

func checkRuneSetOps(t ev.TB, c *runeSetCase) {
	var sets [2]fontscan.RuneSet
	models := [2]map[rune]bool{{}, {}}
	probes := map[rune]bool{0: true, maxRune: true}
	addProbe := func(r rune) {
		for _, p := range []rune{r - 1, r, r + 1, r ^ 0x20, r ^ 0x100, r &^ 0xFF, r | 0xFF, r&^0xFF - 1, r | 0xFF + 1} {
			if inRange(p) {
				probes[p] = true
			}
		}
	}
	failing := false
	fail := func(i int, format string, args ...any) {
		failing = true
		ev.Fail(t, "runeset", c, "after op %d (%+v): %s", i, c.Ops[i], fmt.Sprintf(format, args...))
	}
	defer func() {
		if r := recover(); r != nil {
			if failing {
				panic(r) // rapid's own unwinding of a failed check
			}
			ev.Fail(t, "runeset", c, "panic in RuneSet operation: %v", r)
		}
	}()
	var emptyPage, inclTrue, inclFalse, deleted, excluded bool
	// pages a set ever had a rune on (Delete keeps the page, the round trip too)
	pagesEver := [2]map[rune]bool{{}, {}}
	hasEmptyPage := func(k int) bool {
		live := map[rune]bool{}
		for r := range models[k] {
			live[r>>8] = true
		}
		for p := range pagesEver[k] {
			if !live[p] {
				return true
			}
		}
		return false
	}
	for i, op := range c.Ops {
		if !inRange(op.Rune) || op.Set < 0 || op.Set > 1 {
			continue // not a case the generator produces
		}
		s, m := &sets[op.Set], models[op.Set]
		addProbe(op.Rune)
		switch op.Kind {
		case "add":
			s.Add(op.Rune)
			m[op.Rune] = true
			pagesEver[op.Set][op.Rune>>8] = true
		case "add_range":
			for k := 0; k < op.N; k++ {
				if r := op.Rune + rune(k); inRange(r) {
					s.Add(r)
					m[r] = true
					pagesEver[op.Set][r>>8] = true
					addProbe(r)
				}
			}
		case "delete":
			if m[op.Rune] {
				deleted = true
			}
			s.Delete(op.Rune)
			delete(m, op.Rune)
		case "contains":
			if got := s.Contains(op.Rune); got != m[op.Rune] {
				fail(i, "Contains(%s) = %v, model says %v", u(op.Rune), got, m[op.Rune])
			}
		case "roundtrip":
			b := fontscan.VerifRuneSetSerialize(*s)
			// trailing bytes must be left alone and the reported length must be exact
			back, n, err := fontscan.VerifRuneSetDeserialize(append(append([]byte{}, b...), 0xAB, 0xCD))
			if err != nil || n != len(b) {
				fail(i, "deserialize(serialize(s)) read %d of %d bytes, err=%v", n, len(b), err)
			}
			if b2 := fontscan.VerifRuneSetSerialize(back); string(b2) != string(b) {
				fail(i, "serialize(deserialize(serialize(s))) differs from serialize(s)")
			}
			*s = back
		}
		// the touched set against its model
		if got := s.Len(); got != len(m) {
			fail(i, "Len() = %d, model has %d runes", got, len(m))
		}
		for p := range probes {
			if got := s.Contains(p); got != m[p] {
				fail(i, "Contains(%s) = %v, model says %v", u(p), got, m[p])
			}
		}
		// inclusion both ways
		for a := 0; a < 2; a++ {
			b := 1 - a
			want := true
			for r := range models[b] {
				if !models[a][r] {
					want = false
					break
				}
			}
			got := fontscan.VerifRuneSetIncludes(sets[a], sets[b])
			if !got && want && hasEmptyPage(b) && ev.Known(kfIncludesEmpty) {
				// matcher: the included set carries a page emptied by Delete
				if !excluded {
					ev.Excluded(kfIncludesEmpty)
					excluded = true
				}
				continue
			}
			if got != want {
				fail(i, "set%d.includes(set%d) = %v, but the model says %v (|set%d|=%d, |set%d|=%d)", a, b, got, want, a, len(models[a]), b, len(models[b]))
			}
			if want && len(models[b]) > 0 {
				inclTrue = true
			} else if !want {
				inclFalse = true
			}
		}
		if len(m) == 0 && deleted {
			emptyPage = true
		}
	}
	var labels []string
	if emptyPage {
		labels = append(labels, "set_emptied_by_delete")
	}
	if inclTrue {
		labels = append(labels, "nonempty_inclusion_true")
	}
	if inclFalse {
		labels = append(labels, "inclusion_false")
	}
	nontrivial := deleted && (inclTrue || inclFalse) && len(c.Ops) >= 3
	ev.Case(nontrivial, c, labels...)
	if nontrivial && ev.WantSample() {
		ev.Sample(c)
	}
}

// TestPropRuneSet: random op sequences on two rune sets against map models.
func TestPropRuneSet(t *testing.T) {
	rapid.Check(t, func(t *rapid.T) {
		checkRuneSetOps(t, genRuneSetCase(t))
	})
}

// ---- ScriptSet / LangSet serialisation -----------------------------------------------------------

type scriptSetCase struct {
	Scripts []uint32 `json:"scripts"` // strictly increasing
	Tail    []int    `json:"tail,omitempty"`
}

var allScripts = func() []language.Script {
	seen := map[language.Script]bool{language.Unknown: true}
	out := []language.Script{language.Unknown}
	for _, e := range language.ScriptRanges {
		if !seen[e.Script] {
			seen[e.Script] = true
			out = append(out, e.Script)
		}
	}
	sort.Slice(out, func(i, j int) bool { return out[i] < out[j] })
	return out
}()

func checkScriptSet(t ev.TB, c *scriptSetCase) {
	ss := make(fontscan.ScriptSet, len(c.Scripts))
	for i, s := range c.Scripts {
		ss[i] = language.Script(s)
	}
	var (
		b, in []byte
		back  fontscan.ScriptSet
		n     int
		err   error
	)
	if p := guard(func() {
		b = fontscan.VerifScriptSetSerialize(ss)
		in = append([]byte{}, b...)
		for _, x := range c.Tail {
			in = append(in, byte(x))
		}
		back, n, err = fontscan.VerifScriptSetDeserialize(in)
	}); p != nil {
		ev.Fail(t, "scriptset", c, "panic: %v", p)
	}
	if err != nil || n != len(b) {
		ev.Fail(t, "scriptset", c, "deserialize(serialize(ss)) read %d of %d bytes, err=%v", n, len(b), err)
	}
	if len(back) != len(ss) {
		ev.Fail(t, "scriptset", c, "round trip changed the number of scripts: %d -> %d", len(ss), len(back))
	}
	for i := range ss {
		if back[i] != ss[i] {
			ev.Fail(t, "scriptset", c, "round trip changed script %d: %s -> %s", i, ss[i], back[i])
		}
	}
	ev.Case(len(ss) >= 2, c)
}

// TestPropScriptSet: serialisation round trip of script sets (any subset of the known scripts).
func TestPropScriptSet(t *testing.T) {
	rapid.Check(t, func(t *rapid.T) {
		c := &scriptSetCase{}
		switch rapid.IntRange(0, 9).Draw(t, "size") {
		case 0:
			for _, s := range allScripts {
				c.Scripts = append(c.Scripts, uint32(s))
			}
		default:
			p := rapid.IntRange(0, 100).Draw(t, "density")
			for _, s := range allScripts {
				if rapid.IntRange(0, 100).Draw(t, "in") < p {
					c.Scripts = append(c.Scripts, uint32(s))
				}
			}
		}
		c.Tail = rapid.SliceOfN(rapid.IntRange(0, 255), 0, 5).Draw(t, "tail")
		checkScriptSet(t, c)
	})
}

type langSetCase struct {
	Langs []int    `json:"langs"`           // LangID values added
	Words []uint64 `json:"words,omitempty"` // or: raw content (8 words)
}

func checkLangSet(t ev.TB, c *langSetCase) {
	var (
		ls, back fontscan.LangSet
		got      [512]bool
		b        []byte
		n        int
		err      error
	)
	model := map[int]bool{}
	if p := guard(func() {
		if len(c.Words) == 8 {
			copy(ls[:], c.Words)
		}
		for _, l := range c.Langs {
			ls.Add(fontscan.LangID(l))
			model[l] = true
		}
		for l := 0; l < 512; l++ {
			got[l] = ls.Contains(fontscan.LangID(l))
		}
		b = fontscan.VerifLangSetSerialize(ls)
		back, n, err = fontscan.VerifLangSetDeserialize(append(append([]byte{}, b...), 1, 2, 3))
	}); p != nil {
		ev.Fail(t, "langset", c, "panic: %v", p)
	}
	if len(c.Words) != 8 {
		for l := 0; l < 512; l++ {
			if got[l] != model[l] {
				ev.Fail(t, "langset", c, "Contains(%d) = %v, model says %v", l, got[l], model[l])
			}
		}
	}
	if err != nil || n != len(b) {
		ev.Fail(t, "langset", c, "deserialize(serialize(ls)) read %d of %d bytes, err=%v", n, len(b), err)
	}
	if back != ls {
		ev.Fail(t, "langset", c, "round trip changed the set: %v -> %v", ls, back)
	}
	ev.Case(len(c.Langs) >= 2 || len(c.Words) == 8, c)
}

// TestPropLangSet: Add/Contains against a model over the 512 representable ids, and the
// serialisation round trip (also of arbitrary bit patterns).
func TestPropLangSet(t *testing.T) {
	rapid.Check(t, func(t *rapid.T) {
		c := &langSetCase{}
		if rapid.IntRange(0, 3).Draw(t, "raw") == 0 {
			c.Words = rapid.SliceOfN(rapid.Uint64(), 8, 8).Draw(t, "words")
		} else {
			c.Langs = rapid.SliceOfN(rapid.IntRange(0, 511), 0, 40).Draw(t, "langs")
		}
		checkLangSet(t, c)
	})
}
