package c11

import (
	"bytes"
	"fmt"
	"os"
	"path/filepath"
	"sort"
	"sync"
	"testing"

	"github.com/go-text/typesetting/font"
	ot "github.com/go-text/typesetting/font/opentype"
	"github.com/go-text/typesetting/fontscan"
	"pgregory.net/rapid"

	"verif/internal/corpus"
	"verif/internal/ev"
)

// Scan sequences: the footprint-vs-face clause for footprints produced the way the library
// produces them in a scan - several font files through ONE scanFontFootprints call, hence one
// footprintScanner whose table buffer and range buffer carry whatever the previous font left.
//
// A case is a sequence of 2..5 font files, in the drawn order (file names 00.ttf, 01.ttf, ... so
// that filepath.WalkDir visits them in that order), each either a small corpus font or a
// synthetic font: generated cmap table (biased to (3,0) symbol and Macintosh-only tables), OS/2
// of any version or none, optional tables dropped at random (OS/2, name, head, hhea, hmtx, maxp,
// post), name tables from one short record to many long ones (so that a table read follows a read
// that left larger content behind), padded post tables.
//
// Oracle, for every font of the sequence and every face in it:
//   - the scan records a footprint iff newFootprintFromLoader succeeds alone with a fresh buffer;
//   - that footprint equals the one computed alone: Runes (membership and Len), Scripts, Langs,
//     Family, Aspect;
//   - when font.NewFont loads the face, Runes/Scripts/Langs are those of the loaded face
//     (newFootprintFromFont, i.e. NominalGlyph over all runes - compared rune by rune on a
//     difference).

type seqItem struct {
	Corpus string     `json:"corpus,omitempty"` // corpus-relative path, or
	Synth  *synthCase `json:"synth,omitempty"`  // a synthetic font
}

type seqCase struct {
	Items []seqItem `json:"fonts"`
}

// ---- small corpus fonts (cached per process) ----------------------------------------------------

const smallCorpusMax = 48 << 10

var (
	smallOnce  sync.Once
	smallFiles []string
	fileCache  = map[string][]byte{}
)

func smallCorpus() []string {
	smallOnce.Do(func() {
		for _, f := range corpus.Files() {
			if st, err := os.Stat(corpus.Abs(f)); err == nil && st.Size() <= smallCorpusMax {
				smallFiles = append(smallFiles, f)
			}
		}
	})
	return smallFiles
}

func (it *seqItem) bytes() ([]byte, error) {
	if it.Synth != nil {
		return it.Synth.fontBytes(), nil
	}
	if b, ok := fileCache[it.Corpus]; ok {
		return b, nil
	}
	b, err := corpus.Bytes(it.Corpus)
	if err == nil {
		fileCache[it.Corpus] = b
	}
	return b, err
}

// ---- reference footprints of one file --------------------------------------------------------------

type faceRef struct {
	aloneOK bool
	alone   fontscan.Footprint // newFootprintFromLoader with a fresh buffer
	faceOK  bool
	face    fontscan.Footprint // coverage of the face font.NewFont loads
	ft      *font.Font
	nameLen int  // length of the name table (0: none)
	hasOS2  bool // the font has an OS/2 table
}

var refCache = map[string][]faceRef{} // corpus files only

func references(it *seqItem, file []byte) (refs []faceRef, panicked any) {
	if it.Synth == nil {
		if r, ok := refCache[it.Corpus]; ok {
			return r, nil
		}
	}
	loaders := func() []*ot.Loader {
		lds, err := ot.NewLoaders(bytes.NewReader(file))
		if err != nil {
			return nil
		}
		return lds
	}
	panicked = guard(func() {
		a, b := loaders(), loaders()
		for i := range a {
			var r faceRef
			if raw, err := a[i].RawTable(ot.MustNewTag("name")); err == nil {
				r.nameLen = len(raw)
			}
			r.hasOS2 = a[i].HasTable(ot.MustNewTag("OS/2"))
			fp, err := fontscan.VerifFootprintFromLoader(a[i], false)
			r.aloneOK, r.alone = err == nil, fp
			if ft, err := font.NewFont(b[i]); err == nil {
				r.faceOK, r.ft = true, ft
				r.face = fontscan.VerifFootprintFromFont(ft, fontscan.Location{}, font.Description{})
			}
			refs = append(refs, r)
		}
	})
	if panicked == nil && it.Synth == nil {
		refCache[it.Corpus] = refs
	}
	return refs, panicked
}

// sameAlone compares a footprint of the scan with the one computed alone with a fresh buffer.
func sameAlone(got, alone fontscan.Footprint) string {
	if string(fontscan.VerifRuneSetSerialize(got.Runes)) != string(fontscan.VerifRuneSetSerialize(alone.Runes)) {
		for r := rune(0); r <= maxRune; r++ {
			if in := got.Runes.Contains(r); in != alone.Runes.Contains(r) {
				return fmt.Sprintf("rune set contains(%s)=%v in the scan, %v when the font is scanned alone (%d runes in the scan, %d alone)", u(r), in, !in, got.Runes.Len(), alone.Runes.Len())
			}
		}
		if got.Runes.Len() != alone.Runes.Len() {
			return fmt.Sprintf("rune set has Len() %d in the scan, %d when the font is scanned alone", got.Runes.Len(), alone.Runes.Len())
		}
	}
	if string(fontscan.VerifScriptSetSerialize(got.Scripts)) != string(fontscan.VerifScriptSetSerialize(alone.Scripts)) {
		return fmt.Sprintf("script set %v in the scan, %v when the font is scanned alone", got.Scripts, alone.Scripts)
	}
	if got.Langs != alone.Langs {
		return fmt.Sprintf("language set %v in the scan, %v when the font is scanned alone", got.Langs, alone.Langs)
	}
	if got.Family != alone.Family {
		return fmt.Sprintf("family %q in the scan, %q when the font is scanned alone", got.Family, alone.Family)
	}
	if got.Aspect != alone.Aspect {
		return fmt.Sprintf("aspect %+v in the scan, %+v when the font is scanned alone", got.Aspect, alone.Aspect)
	}
	return ""
}

var seqDir string // directory of the scans of this test (the test's own TempDir)

func checkScanSequence(t ev.TB, c *seqCase) {
	ev.Journal("scanseq", c)
	defer ev.JournalDone()
	fail := func(format string, args ...any) { ev.Fail(t, "scanseq", c, format, args...) }
	if seqDir == "" {
		panic("harness: seqDir not set")
	}
	// start from an empty directory
	old, _ := filepath.Glob(filepath.Join(seqDir, "*"))
	for _, f := range old {
		os.Remove(f)
	}
	var (
		files  [][]byte
		refs   [][]faceRef
		labels = map[string]bool{}
		h      []byte
	)
	for i := range c.Items {
		it := &c.Items[i]
		b, err := it.bytes()
		if err != nil {
			panic(fmt.Sprintf("harness: %v", err))
		}
		r, p := references(it, b)
		if p != nil {
			// totality of loading is not this property's business; such a font cannot serve as reference
			ev.Case(false, nil, "seq:reference_panicked")
			return
		}
		files, refs = append(files, b), append(refs, r)
		h = append(h, ev.ShortHash(b)...)
		if err := os.WriteFile(filepath.Join(seqDir, fmt.Sprintf("%02d.ttf", i)), b, 0o644); err != nil {
			panic(fmt.Sprintf("harness: %v", err))
		}
	}
	var (
		index fontscan.VerifIndex
		err   error
	)
	if p := guard(func() { index, err = fontscan.VerifScan(nopLogger{}, nil, seqDir) }); p != nil {
		fail("panic in scanFontFootprints over fonts that are each scanned alone without panic: %v", p)
	}
	if err != nil {
		fail("scanFontFootprints fails: %v", err)
	}
	scanned := map[string][]fontscan.Footprint{}
	for _, ff := range index {
		path, _, fps := fontscan.VerifFileFootprintsParts(ff)
		scanned[filepath.Base(path)] = fps
	}
	nontrivial := false
	for i := range c.Items {
		it := &c.Items[i]
		what := fmt.Sprintf("font %d of %d", i+1, len(c.Items))
		if it.Synth != nil {
			what += " (synthetic"
			for _, st := range it.Synth.Subtables {
				what += fmt.Sprintf(" cmap(%d,%d)f%d", st.Platform, st.Encoding, st.Format)
			}
			if it.Synth.Font != nil && len(it.Synth.Font.Drop) > 0 || it.Synth.os2().Absent {
				what += " without"
				for _, tag := range []string{"OS/2", "name", "head", "hhea", "hmtx", "maxp", "post"} {
					if it.Synth.dropped(tag) {
						what += " " + tag
					}
				}
			}
			what += ")"
		} else {
			what += " (" + it.Corpus + ")"
		}
		fps := scanned[fmt.Sprintf("%02d.ttf", i)]
		byIndex := map[int]fontscan.Footprint{}
		for _, fp := range fps {
			byIndex[int(fp.Location.Index)] = fp
		}
		for j, r := range refs[i] {
			fp, has := byIndex[j]
			if has != r.aloneOK {
				fail("%s, face %d: the scan records a footprint: %v; newFootprintFromLoader alone with a fresh buffer succeeds: %v", what, j, has, r.aloneOK)
			}
			if !has {
				labels["seq:font_rejected_by_scan"] = true
				continue
			}
			if msg := sameAlone(fp, r.alone); msg != "" {
				fail("%s, face %d, scanned after %d other font(s) by one scanFontFootprints call: %s", what, j, i, msg)
			}
			if r.faceOK {
				if msg := sameCoverage(fp, r.face, r.ft); msg != "" {
					fail("%s, face %d, scanned after %d other font(s) by one scanFontFootprints call: %s", what, j, i, msg)
				}
			} else {
				labels["seq:face_unavailable(scan_vs_alone_only)"] = true
			}
		}
		// classification
		if it.Synth != nil {
			sym, mac := false, len(it.Synth.Subtables) > 0
			for _, st := range it.Synth.Subtables {
				if st.Platform == 3 && st.Encoding == 0 {
					sym = true
				}
				if st.Platform != 1 {
					mac = false
				}
			}
			if sym && len(c.Items) > 1 {
				labels["seq:symbol_cmap_in_multi_font_scan"] = true
			}
			if mac {
				labels["seq:mac_only_cmap"] = true
			}
			for _, tag := range []string{"OS/2", "name", "head", "hhea", "hmtx", "maxp", "post"} {
				if it.Synth.dropped(tag) {
					labels["seq:without_"+tag] = true
				}
			}
			if i > 0 && len(refs[i-1]) > 0 {
				prev := refs[i-1][len(refs[i-1])-1]
				if it.Synth.dropped("OS/2") && prev.nameLen >= 78 {
					nontrivial = true
					labels["seq:font_without_OS/2_after_font_with_long_name_table"] = true
					if sym {
						labels["seq:symbol_cmap_without_OS/2_after_long_name_table"] = true
					}
				}
				if it.Synth.dropped("name") && prev.nameLen > 0 {
					nontrivial = true
					labels["seq:font_without_name_after_font_with_name"] = true
				}
				if !it.Synth.dropped("OS/2") && prev.nameLen > len(it.Synth.os2Bytes()) {
					labels["seq:table_read_after_larger_stale_content"] = true
				}
			}
		} else {
			labels["seq:corpus_font"] = true
			if i > 0 && len(refs[i]) > 0 && !refs[i][0].hasOS2 {
				nontrivial = true
				labels["seq:corpus_font_without_OS/2_not_first"] = true
			}
		}
	}
	ls := []string{fmt.Sprintf("seq:fonts=%d", len(c.Items))}
	for l := range labels {
		ls = append(ls, l)
	}
	sort.Strings(ls)
	ev.Case(nontrivial, h, ls...)
	if nontrivial && ev.WantSample() {
		ev.Sample(map[string]any{"scan_sequence": c, "labels": ls})
	}
}

// ---- generator -----------------------------------------------------------------------------------

var seqIDs = [][2]uint16{{3, 0}, {3, 0}, {3, 0}, {3, 0}, {1, 0}, {1, 0}, {3, 1}, {3, 1}, {3, 10}, {0, 3}, {0, 4}}

func genSeqSynth(t *rapid.T) *synthCase {
	c := &synthCase{}
	id := rapid.SampledFrom(seqIDs).Draw(t, "id")
	formats := []int{4, 4, 4, 12, 6, 0, 13, 10}
	if id[0] == 1 {
		formats = []int{0, 0, 6, 4}
	}
	c.Subtables = append(c.Subtables, genSubtable(t, rapid.SampledFrom(formats).Draw(t, "format"), id))
	if rapid.IntRange(0, 4).Draw(t, "second") == 0 {
		id2 := rapid.SampledFrom(seqIDs).Draw(t, "id2")
		if id2 != id {
			c.Subtables = append(c.Subtables, genSubtable(t, rapid.SampledFrom([]int{4, 12, 6, 0}).Draw(t, "format2"), id2))
			sort.SliceStable(c.Subtables, func(i, j int) bool {
				a, b := c.Subtables[i], c.Subtables[j]
				return a.Platform < b.Platform || a.Platform == b.Platform && a.Encoding < b.Encoding
			})
		}
	}
	c.FontPage = rapid.SampledFrom([]uint16{0, 0, 0, 0xB200, 0xB300, 0xB100}).Draw(t, "font_page")
	sp := os2Spec{Fill: rapid.IntRange(0, 2).Draw(t, "os2_fill"), Version: rapid.SampledFrom([]int{0, 4, 1, 5, 3}).Draw(t, "os2_version")}
	c.OS2 = &sp
	fs := &fontSpec{}
	for _, d := range []struct {
		tag string
		pct int
	}{{"OS/2", 35}, {"name", 20}, {"post", 20}, {"hhea", 12}, {"hmtx", 12}, {"head", 6}, {"maxp", 6}} {
		if rapid.IntRange(0, 99).Draw(t, "drop_"+d.tag) >= 100-d.pct {
			fs.Drop = append(fs.Drop, d.tag)
		}
	}
	n := rapid.IntRange(0, 8).Draw(t, "name_records")
	for i := 0; i < n; i++ {
		fs.NameLens = append(fs.NameLens, rapid.SampledFrom([]int{2, 6, 40, 120, 256, 300, 700, 2000}).Draw(t, "name_len"))
	}
	fs.NameChar = rapid.SampledFrom([]int{0, 0x0633, 0xB2E4, 0xB3A1, 0xFFFF, 0x0100}).Draw(t, "name_char")
	fs.PostPad = rapid.SampledFrom([]int{0, 0, 100, 1000, 5000}).Draw(t, "post_pad")
	c.Font = fs
	return c
}

func genSeqCase(t *rapid.T) *seqCase {
	n := rapid.IntRange(2, 5).Draw(t, "fonts")
	c := &seqCase{}
	small := smallCorpus()
	for i := 0; i < n; i++ {
		if len(small) > 0 && rapid.IntRange(0, 3).Draw(t, "corpus_font") == 3 {
			c.Items = append(c.Items, seqItem{Corpus: small[rapid.IntRange(0, len(small)-1).Draw(t, "corpus_index")]})
		} else {
			c.Items = append(c.Items, seqItem{Synth: genSeqSynth(t)})
		}
	}
	return c
}

// TestPropScanSequence: sequences of fonts through one directory scan, each footprint against the
// font scanned alone and against the loaded face.
func TestPropScanSequence(t *testing.T) {
	seqDir = t.TempDir()
	rapid.Check(t, func(t *rapid.T) {
		checkScanSequence(t, genSeqCase(t))
	})
}
