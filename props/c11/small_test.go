package c11

import (
	"testing"

	"github.com/go-text/typesetting/font"
	"github.com/go-text/typesetting/font/opentype/tables"

	"verif/internal/ev"
)

// Exhaustive small scope for the sanitising constructors: every sequence of three groups
// (formats 12 and 13) or three segments plus the final 0xFFFF segment (format 4) whose start and
// end codes are taken from a handful of boundary values. The value sets contain nested,
// overlapping, abutting, inverted and (12/13) out-of-Unicode combinations, so that every pair and
// triple of malformations occurs in every order. Same laws as everywhere (checkCmap), evaluated on
// the pages around the values.

// Two value sets per format: low codes, and codes around the upper limit of the format (so that
// ranges stay short and a case costs microseconds).
var (
	smallValues32 = [][]uint32{
		{0x100, 0x120, 0x150, 0x1FF, 0x200, 0x250, 0x300},
		{0x10FF00, 0x10FF80, 0x10FFFF, 0x110005, 0x110100},
	}
	smallValues16 = [][]uint16{
		{0x100, 0x120, 0x150, 0x1FF, 0x200, 0x250, 0x300},
		{0xFF00, 0xFF80, 0xFFFE, 0xFFFF},
	}
)

// checkTableOnly: ParseCmap + ProcessCmap + laws on the neighbourhood of the table's own codes.
// A failure is filed as a "synth" case (evaluated exhaustively on replay).
func checkTableOnly(t ev.TB, c *synthCase) (accepted bool) {
	var (
		cm       font.Cmap
		err      error
		panicked any
	)
	panicked = guard(func() {
		var tb tables.Cmap
		if tb, _, err = tables.ParseCmap(c.serialize()); err == nil {
			cm, _, err = font.ProcessCmap(tb, tables.FontPage(c.FontPage))
		}
	})
	if panicked != nil || err != nil || cm == nil {
		return false // totality on malformed tables is C09's business; rejection is allowed
	}
	typeName, innerType := typeNames(cm)
	_, st := c.selected(innerType)
	sh := shapeOfType(typeName, innerType)
	sh.inverted, sh.unordered = st.inverted, st.unordered
	rp := checkCmapIn(cm, false, true, c.hints(), newMatcher(sh))
	first, ids := judge(rp)
	for _, id := range ids {
		ev.Excluded(id)
	}
	if first != nil && !(first.Class == dPanic && (sh.inverted || sh.unordered)) {
		cc := *c
		cc.Exhaustive, cc.Disc, cc.Count, cc.Selected = true, first, rp.counts, rp.typeName
		ev.Fail(t, "synth", &cc, "small table (%s): %s  [all discrepancies: %v, of which matched by listed findings: %v]", rp.typeName, first.Msg, rp.counts, rp.excused)
	}
	return true
}

// TestPropSmallTables enumerates the small tables (sharded by the first element).
func TestPropSmallTables(t *testing.T) {
	shard, n := ev.Shard()
	var total, nt, acc int64
	// formats 12 and 13
	type pair struct{ s, e uint32 }
	for _, values := range smallValues32 {
		var pairs []pair
		for _, s := range values {
			for _, e := range values {
				pairs = append(pairs, pair{s, e})
			}
		}
		for _, format := range []int{12, 13} {
			for i, a := range pairs {
				if i%n != shard {
					continue
				}
				for _, b := range pairs {
					for _, c3 := range pairs {
						c := &synthCase{Subtables: []subtable{{Platform: 3, Encoding: 10, Format: format, Groups: []group{
							{Start: a.s, End: a.e, Glyph: 10}, {Start: b.s, End: b.e, Glyph: 2000}, {Start: c3.s, End: c3.e, Glyph: 40000},
						}}}}
						total++
						if checkTableOnly(t, c) {
							acc++
						}
						if st := c.Subtables[0].structure(); st.inverted || st.unordered {
							nt++ // at least one malformation
						}
					}
				}
			}
		}
	}
	// format 4
	type pair16 struct{ s, e uint16 }
	for _, values := range smallValues16 {
		var pairs16 []pair16
		for _, s := range values {
			for _, e := range values {
				pairs16 = append(pairs16, pair16{s, e})
			}
		}
		for i, a := range pairs16 {
			if i%n != shard {
				continue
			}
			for _, b := range pairs16 {
				for _, c3 := range pairs16 {
					segs := []seg4{{Start: a.s, End: a.e, Delta: 5}, {Start: b.s, End: b.e, Delta: 1000}, {Start: c3.s, End: c3.e, Delta: uint16(0 - c3.s)}}
					// the second segment goes through the glyph array when it can
					if b.s <= b.e && b.e-b.s < 0x200 && b.s != 0xFFFF {
						segs[1].Glyphs = make([]uint16, int(b.e-b.s)+1)
						for k := range segs[1].Glyphs {
							segs[1].Glyphs[k] = uint16(k % 3) // every third entry is a hole
						}
					}
					if c3.e != 0xFFFF && c3.s != 0xFFFF {
						segs = append(segs, seg4{Start: 0xFFFF, End: 0xFFFF, Delta: 1})
					}
					c := &synthCase{Subtables: []subtable{{Platform: 3, Encoding: 1, Format: 4, Segs: segs}}}
					total++
					if checkTableOnly(t, c) {
						acc++
					}
					if st := c.Subtables[0].structure(); st.inverted || st.unordered {
						nt++
					}
				}
			}
		}
	}
	ev.LabelN("small_tables_accepted", acc)
	ev.LabelN("small_tables_rejected", total-acc)
	ev.CaseEnum(total, nt)
}
